"""
Interpreter of the `clock` suite's line protocol (see lean/IsobarV/Clock/Drv.lean) against the REAL isobar code:

  mult / accept          isobar.util.make_clock_multiplier
  tl / tltick            isobar.Timeline.tick with recording output devices (and a MidiOutputDevice on a fake port)
  clk / script / ev      isobar.timelines.clock.Clock.run under virtual time (isobar.timelines.clock.time replaced)
  midiin / slave / msg   isobar.io.midi.input.MidiInputDevice._callback fed with mido messages

Times and durations are integers in units of 2**-UNIT_BITS seconds; every float the code computes from them is
exact (asserted), so comparisons cannot be flipped by rounding.
"""
from __future__ import annotations

import itertools
import logging
import queue
from fractions import Fraction

from . import common

common.ensure_repo_on_path()

import mido  # noqa: E402
import isobar  # noqa: E402,F401
import isobar.io.midi.input as input_mod  # noqa: E402
import isobar.timelines.clock as clock_mod  # noqa: E402
from isobar.exceptions import ClockException  # noqa: E402
from isobar.io.midi.input import MidiInputDevice  # noqa: E402
from isobar.io.midi.output import MidiOutputDevice  # noqa: E402
from isobar.io.output import OutputDevice  # noqa: E402
from isobar.timelines.clock import Clock, DummyClock  # noqa: E402
from isobar.timelines.timeline import Timeline  # noqa: E402
from isobar.util import make_clock_multiplier  # noqa: E402

logging.getLogger("isobar").setLevel(logging.CRITICAL)   # the code logs every start/stop/songpos message

UNIT_BITS = 16
UNIT = Fraction(1, 2 ** UNIT_BITS)


class EndOfScript(BaseException):
    """raised by the virtual `time.sleep` when the scripted readings are used up"""


class ScriptedFault(Exception):
    """raised by a scripted clock target"""


def rle(tokens):
    out = []
    for v, grp in itertools.groupby(tokens):
        out.append("%s*%d" % (v, sum(1 for _ in grp)))
    return ",".join(out)


def exc_name(e: BaseException) -> str:
    if isinstance(e, ClockException):
        return "clock"
    if isinstance(e, StopIteration):
        return "stop"
    return "raised"


# ------------------------------------------------------------------------------------------------------------
# devices / targets
# ------------------------------------------------------------------------------------------------------------

class RecDevice(OutputDevice):
    def __init__(self, tpb):
        super().__init__()
        self._tpb = tpb
        self.ticks = 0

    @property
    def ticks_per_beat(self):
        return self._tpb

    def tick(self):
        self.ticks += 1


class FakePort:
    name = "fake"

    def __init__(self):
        self.clocks = 0
        self.others = []

    def send(self, msg):
        if msg.type == "clock":
            self.clocks += 1
        else:
            self.others.append(msg.type)


def fake_midi_out():
    """a real MidiOutputDevice (send_clock=True) on a fake port: its tick() sends one 'clock' message"""
    d = object.__new__(MidiOutputDevice)
    OutputDevice.__init__(d)
    d.midi = FakePort()
    d.send_clock = True
    return d


def dev_ticks(d) -> int:
    return d.midi.clocks if isinstance(d, MidiOutputDevice) else d.ticks


def make_device(tpb: int):
    # rate 24 is served by the real MIDI device (observed as 'clock' messages on the port)
    if tpb == 24:
        return fake_midi_out()
    return RecDevice(tpb if tpb else None)


def make_timeline(tpb: int, devs: list[int], clock_source=None, tempo=None):
    devices = [make_device(t) for t in devs]
    first = devices[0] if devices else RecDevice(None)
    if clock_source is None and tempo is None:
        clock_source = DummyClock(ticks_per_beat=tpb)
    if clock_source is not None:
        tl = Timeline(output_device=first, clock_source=clock_source)
    else:
        tl = Timeline(tempo=tempo, ticks_per_beat=tpb, output_device=first)
    if not devices:
        tl.output_devices = []
    for d in devices[1:]:
        tl.add_output_device(d)
    return tl, devices


class PlainTarget:
    """a clock target that is not a timeline"""

    def __init__(self, tpb):
        self.ticks_per_beat = tpb

    def tick(self):
        pass


# ------------------------------------------------------------------------------------------------------------
# Clock.run under virtual time
# ------------------------------------------------------------------------------------------------------------

def tempo_for(d_units: int, tpb: int) -> float:
    """the tempo whose tick duration 60 / (tempo * tpb) is exactly d_units * UNIT seconds, in floats too"""
    tempo = Fraction(60) / (Fraction(d_units) * UNIT * tpb)
    f = float(tempo)
    if Fraction(f) != tempo or Fraction(60.0 / (f * tpb)) != d_units * UNIT or Fraction(f * tpb) != tempo * tpb:
        raise ValueError("tick duration %d units at %d PPQN is not exactly representable" % (d_units, tpb))
    return f


class ClockRun:
    def __init__(self, words):
        t0, d, gen_out, gen_in, tl_tpb = (int(w) for w in words[:5])
        devs = [int(w) for w in words[5:]]
        self.t0 = t0
        self.tpb = gen_in
        self.script = {}
        self.events = []
        self.n_target_ticks = 0
        self.res = "ok"
        tempo = tempo_for(d, self.tpb)
        if tl_tpb:
            assert gen_out == 0 and tl_tpb == gen_in
            self.timeline, self.devices = make_timeline(tl_tpb, devs, tempo=tempo)
            self.clock = self.timeline.clock_source
            inner = self.timeline
        else:
            assert not devs
            self.timeline, self.devices = None, []
            inner = PlainTarget(gen_out if gen_out else None)
            self.clock = Clock(inner, tempo, self.tpb)
        assert isinstance(self.clock, Clock)
        run = self

        class Target:
            @property
            def ticks_per_beat(self):
                return inner.ticks_per_beat

            def tick(self):
                j = run.n_target_ticks
                run.n_target_ticks += 1
                inner.tick()
                act = run.script.get(j)
                if act is None:
                    return
                if act == "stop":
                    run.clock.stop()
                elif act == "raise":
                    raise ScriptedFault()
                else:
                    run.set_dur(int(act[1:]))

        self.clock.clock_target = Target()

    def set_dur(self, d_units):
        tempo = tempo_for(d_units, self.tpb)
        if self.timeline is not None:
            self.timeline.tempo = tempo
        else:
            self.clock.tempo = tempo

    def line(self):
        d = Fraction(self.clock.tick_duration_seconds) / UNIT
        ds = str(d.numerator) if d.denominator == 1 else "inexact:%s" % d
        return "c|%d|%s|%d|%s|%s" % (self.n_target_ticks, self.res, 1 if self.clock.running else 0, ds,
                                     ";".join(str(dev_ticks(x)) for x in self.devices))

    def execute(self):
        """run Clock.run() over self.events; one output line per event"""
        out = []
        evs = self.events
        state = {"i": 0, "cur": None, "reading": None}
        run = self
        # Clock.running is only set by run(); the model starts with a running clock
        self.clock.running = True

        def reading(units):
            f = float(Fraction(units) * UNIT)
            assert Fraction(f) == Fraction(units) * UNIT
            return f

        def apply_async(ev):
            if ev[0] == "dur":
                run.set_dur(int(ev[1]))
            elif ev[0] == "stop":
                run.clock.stop()

        class VTime:
            first = True

            def time(self_inner):
                if self_inner.first:
                    self_inner.first = False
                    return reading(run.t0)
                return state["reading"]

            def sleep(self_inner, _dt):
                # the pass for the current wake event is complete
                if state["cur"] is not None:
                    out.append(run.line())
                    state["cur"] = None
                while state["i"] < len(evs) and evs[state["i"]][0] != "wake":
                    apply_async(evs[state["i"]])
                    out.append(run.line())
                    state["i"] += 1
                if state["i"] >= len(evs):
                    raise EndOfScript()
                state["cur"] = evs[state["i"]]
                state["reading"] = reading(int(state["cur"][1]))
                state["i"] += 1

        saved = clock_mod.time
        clock_mod.time = VTime()
        try:
            try:
                self.clock.run()
            except EndOfScript:
                return out
            except Exception as e:  # propagated out of run(): the clock thread would die here
                self.res = exc_name(e)
        finally:
            clock_mod.time = saved
        # run() is over (stopped or raised): the remaining events find a dead loop
        if state["cur"] is not None:
            out.append(self.line())
        while state["i"] < len(evs):
            ev = evs[state["i"]]
            state["i"] += 1
            if ev[0] != "wake":
                apply_async(ev)
            out.append(self.line())
        return out


# ------------------------------------------------------------------------------------------------------------
# MIDI input
# ------------------------------------------------------------------------------------------------------------

class RecTarget:
    def __init__(self):
        self.calls = []

    def tick(self):
        self.calls.append("t")

    def start(self):
        self.calls.append("s")

    def stop(self):
        self.calls.append("p")

    def reset(self):
        self.calls.append("r")


class MidiTime:
    """the wall clock as MidiInputDevice._callback sees it (scripted: several messages may see the same reading)"""

    def __init__(self):
        self.now = 1000.0

    def time(self):
        return self.now


def fake_midi_in(target, with_callback=False):
    m = object.__new__(MidiInputDevice)
    m.midi = FakePort()
    m.clock_target = target
    m.queue = queue.Queue()
    m.callback = None
    m.estimated_tempo = None
    m.last_clock_time = None
    m.cb_log = []
    if with_callback:
        m.callback = m.cb_log.append
    return m


NOTE_KINDS = ["note_on", "note_off", "control_change", "pitchwheel"]
OTHER_KINDS = ["continue", "program_change", "aftertouch", "songpos_other", "reset", "active_sensing"]


def make_msg(words):
    k = words[0]
    if k in ("clock", "start", "stop"):
        return mido.Message(k)
    if k == "songpos":
        return mido.Message("songpos", pos=int(words[1]))
    if k == "note":
        i = int(words[1])
        kind = NOTE_KINDS[i % 4]
        v = (i // 4) % 128
        if kind in ("note_on", "note_off"):
            return mido.Message(kind, note=v)
        if kind == "control_change":
            return mido.Message(kind, control=v)
        return mido.Message(kind, pitch=v)
    # other: a selection of message types the callback must ignore
    i = int(words[1]) if len(words) > 1 else 0
    kind = ["continue", "program_change", "aftertouch", "reset", "active_sensing", "polytouch"][i % 6]
    return mido.Message(kind)


def msg_id(m) -> int:
    k = NOTE_KINDS.index(m.type)
    v = m.note if k < 2 else (m.control if k == 2 else m.pitch)
    return v * 4 + k


# ------------------------------------------------------------------------------------------------------------
# the interpreter
# ------------------------------------------------------------------------------------------------------------

def run_lines(lines: list[str]) -> list[str]:
    out = []
    tl = devices = None
    clk = None
    midi = midi_target = None
    slave = None  # (midi_in, timeline, devices, log, errs)
    midi_time = MidiTime()
    i = 0
    n = len(lines)
    while i < n:
        w = lines[i].split()
        i += 1
        if not w or w[0].startswith("#"):
            continue
        if w[0] == "case":
            out.append("case %s" % w[1])
        elif w[0] == "mult":
            o, inn, cnt = int(w[1]), int(w[2]), int(w[3])
            g = make_clock_multiplier(o if o else None, inn if inn else None)
            toks = []
            for _ in range(cnt):
                try:
                    toks.append(str(next(g)))
                except ClockException:
                    toks.append("E")
                except StopIteration:
                    toks.append("S")
            out.append("mult|%s" % rle(toks))
        elif w[0] == "accept":
            inn, mx = int(w[1]), int(w[2])
            acc = []
            for o in range(1, mx + 1):
                try:
                    next(make_clock_multiplier(o, inn))
                    acc.append(str(o))
                except ClockException:
                    pass
            out.append("accept|%d|%s" % (inn, " ".join(acc)))
        elif w[0] == "tl":
            tl, devices = make_timeline(int(w[1]), [int(x) for x in w[2:]])
        elif w[0] == "tltick":
            res, per = [], [[] for _ in devices]
            for _ in range(int(w[1])):
                before = [dev_ticks(d) for d in devices]
                try:
                    tl.tick()
                    res.append("ok")
                except (ClockException, StopIteration) as e:
                    res.append(exc_name(e))
                for k, d in enumerate(devices):
                    per[k].append(str(dev_ticks(d) - before[k]))
            now = Fraction(tl.current_time).limit_denominator(10 ** 6) * tl.ticks_per_beat
            out.append("tl|%s|%s|%s" % (rle(res), now, ";".join(rle(p) for p in per)))
        elif w[0] == "clk":
            clk = ClockRun(w[1:])
            # collect this clock's script and events (they run as one Clock.run())
            while i < n:
                w2 = lines[i].split()
                if w2 and w2[0] == "script":
                    clk.script = dict(x.split(":") for x in w2[1:])
                    clk.script = {int(k): v for k, v in clk.script.items()}
                elif w2 and w2[0] == "ev":
                    clk.events.append(w2[1:])
                elif w2 and w2[0].startswith("#"):
                    pass
                else:
                    break
                i += 1
            out.extend(clk.execute())
        elif w[0] == "midiin":
            midi_target = RecTarget() if w[1] == "1" else None
            midi = fake_midi_in(midi_target, with_callback=(w[2] == "1"))
        elif w[0] == "slave":
            m_in = fake_midi_in(None)
            stl, sdevs = make_timeline(int(w[1]), [int(x) for x in w[2:]], clock_source=m_in)
            assert m_in.clock_target is stl and stl.ticks_per_beat == 24 == int(w[1])
            stl.background = lambda: None   # Timeline.start() would spawn the thread that idles in MidiInputDevice.run()
            slave = (m_in, stl, sdevs, [], [])
        elif w[0] == "msg":
            # `msg clock <dt>`: the wall clock seen by the callback advances by dt units (0 = same reading again)
            if w[1] == "clock" and len(w) > 2:
                midi_time.now += float(Fraction(int(w[2])) * UNIT)
            saved = input_mod.time
            input_mod.time = midi_time
            try:
                if midi is not None:
                    try:
                        midi._callback(make_msg(w[1:]))
                    except Exception:      # mido's callback thread reports it and carries on
                        pass
                if slave is not None:
                    m_in, stl, sdevs, log, errs = slave
                    before = [dev_ticks(d) for d in sdevs]
                    try:
                        m_in._callback(make_msg(w[1:]))
                        if w[1] == "clock":
                            log.append([dev_ticks(d) - b for d, b in zip(sdevs, before)])
                    except Exception as e:
                        errs.append(exc_name(e))
            finally:
                input_mod.time = saved
        elif w[0] == "mend":
            if midi is not None:
                q = []
                while True:
                    try:
                        q.append(str(msg_id(midi.queue.get_nowait())))
                    except queue.Empty:
                        break
                out.append("midi|%s|%s|%s" % ("".join(midi_target.calls) if midi_target else "", ",".join(q),
                                              ",".join(str(msg_id(m)) for m in midi.cb_log)))
            if slave is not None:
                m_in, stl, sdevs, log, errs = slave
                now = Fraction(stl.current_time).limit_denominator(10 ** 6) * 24
                out.append("slave|%s|%s|%s" % (now, ",".join(errs),
                                               ";".join(rle(str(row[k]) for row in log) for k in range(len(sdevs)))))
        else:
            raise ValueError("clock_impl: unknown line %r" % lines[i - 1])
    return out
