"""Registry entries (real-object builders, generators, independent reference definitions) for the ext2 group:
PMetropolis, PSequenceAction, PPatternGeneratorAction (isobar/pattern/sequence.py), PFunc (isobar/pattern/core.py),
PFilterByKey, PNearestNoteInKey, PKeyTonic, PKeyScale (isobar/pattern/tonal.py).

Register layouts: lean/IsobarV/Pat/Cls/Ext2.lean.  Conventions shared with it
  * a key value is the tuple (tonic, scale name); the builder turns it into `Key(tonic, Scale.dict[name])` wherever a
    parameter can carry it (scalar, PConstant, PRef, PSequence items); a Scale yielded by PKeyScale is printed as its name
  * a function value (PFunc.function) is an index into a table of constant functions (the table of the values they return
    is the node's `buf`); PSequenceAction takes its list function from the fixed table FN (register n0);
    PPatternGeneratorAction's generator function is `lambda: PSequence(buf, n0)` (pure: a fresh sequence every time)
Domains and deliberate exclusions: notes/NOTES-ext2.md.
"""
from __future__ import annotations

from . import pat_impl
from .pat_impl import REG, MAXSIZE, iso, lit, node, register
from .pat_reg_scalar import _poll_ref, _kid_vals, _tok_is, ORD_IN_ORDER, SCALE_NAMES, STOP, ERR, UNSPEC

THEOREMS = {
    "C04": ["IsobarV.C04Ext2." + t for t in (
        "metropolis_ok", "pga_ok", "func_ok", "filterByKey_ok", "nearestNoteInKey_ok", "keyTonic_ok", "keyScale_ok",
        "saResetItems_ok", "saInner_ok", "saLoop_ok", "sequenceAction_ok", "ext2_ok", "ext2_idem", "reset_rewinds_ext2",
        "all_rewinds_ext2")],
    "C09": ["IsobarV.C09Ext2." + t for t in (
        "metropolis_never_stops", "metropolis_sticky", "pga_never_stops", "pga_sticky", "func_sticky", "filterByKey_sticky",
        "nearestNoteInKey_sticky", "keyTonic_sticky", "keyScale_sticky", "ext2_sticky", "sticky_ext2")],
    "C10": ["IsobarV.C10Ext2." + t for t in (
        "filterByKey_reference", "nearestNoteInKey_reference", "filterByKey_value", "nearestNoteInKey_value",
        "keyTonic_reference", "keyScale_reference", "keyTonicVal_key", "func_reference", "funcF_const")] +
           ["IsobarV.C10Metropolis." + t for t in ("met_inside", "met_block", "met_wrap")],
    "C12": ["IsobarV.C12Ext2." + t for t in (
        "filterByKey_params_once", "nearestNoteInKey_params_once", "keyTonic_key_once", "keyScale_key_once",
        "func_function_once", "sequenceAction_repeats_untouched_within_pass", "sequenceAction_repeats_once_at_end")],
}


def _pat(x):
    return x if isinstance(x, iso.Pattern) else iso.PConstant(x)


def _convert(k, f):
    """apply f to the scalar values a parameter can be built from (scalar, PConstant, PRef, PSequence items)"""
    if isinstance(k, iso.PSequence):
        k.sequence = [_convert(x, f) for x in k.sequence]
        return k
    if isinstance(k, iso.PConstant):
        k.constant = _convert(k.constant, f)
        return k
    if isinstance(k, iso.PRef):
        _convert(k.pattern, f)
        return k
    if isinstance(k, iso.Pattern):
        return k
    return f(k)


def _key(x):
    if isinstance(x, tuple) and len(x) == 2 and isinstance(x[1], str):
        return iso.Key(x[0], iso.Scale.dict[x[1]])
    return x


# --------------------------------------------------------------------------------------------------
# PMetropolis
# --------------------------------------------------------------------------------------------------
# Domain: notes = 0..6 scalars (ints, dyadic floats, rests); repeats / rests = lists of ints, any length (shorter lists
# are extended cyclically), mostly non-negative.  Empty lists (ZeroDivisionError / IndexError) only at the top level.

def _gen_metropolis(g):
    r = g.rng
    top = g.top
    m = r.randint(1, 6)
    if top and r.random() < 0.04:
        m = 0
    notes = [g.num(lo=0, hi=90) for _ in range(m)]

    def ints(lo, hi):
        k = r.choice([1, 1, 2, 3, m, m, m + 1, max(m - 1, 1)])
        if top and r.random() < 0.04:
            k = 0
        neg = top and r.random() < 0.12
        return [r.randint(-2 if neg else lo, hi) for _ in range(k)]
    reps, rests = ints(0, 4), ints(0, 3)
    return node("metropolis", [0, 0, len(reps)], [], [], buf=notes, buf2=reps + rests)


def _build_metropolis(n, v, kids, extra):
    k = n[2]
    return iso.PMetropolis(list(extra["buf"]), list(extra["buf2"][:k]), list(extra["buf2"][k:]))


register("metropolis", _build_metropolis, _gen_metropolis, finite=False, pyclass="PMetropolis")


def _cmp(exp, toks, what):
    for j, (x, t) in enumerate(zip(exp, toks)):
        if x == "stop":
            if t != "stop":
                return "%s: step %d: the reference has ended, the pattern gave %s" % (what, j, t)
        elif not _tok_is(t, x):
            return "%s: step %d: the reference gives %r, the pattern gave %s" % (what, j, x, t)
    return None


def _metropolis_ref(e, toks, n):
    """every note in turn: `repeats[i]` times the note, then `rests[i] + 1` rests (short lists extended cyclically)"""
    _, _, nn, _, _, extra = e
    notes, reps, rests = extra["buf"], extra["buf2"][:nn[2]], extra["buf2"][nn[2]:]
    if not notes or not reps or not rests or min(reps) < 0 or min(rests) < 0:
        return None
    cycle = []
    for i, note in enumerate(notes):
        cycle += [note] * reps[i % len(reps)] + [None] * (rests[i % len(rests)] + 1)
    exp = [cycle[j % len(cycle)] for j in range(len(toks))]
    return _cmp(exp, toks, "PMetropolis")


REG["metropolis"].ref = _metropolis_ref

# --------------------------------------------------------------------------------------------------
# PSequenceAction
# --------------------------------------------------------------------------------------------------
# fn from a fixed table of pure list functions.  Items: literals (numbers, rests) and, sometimes, patterns (the inner
# PSequence(list, 1) resolves them; building it resets them).  `repeats`: literal (0..6 or sys.maxsize) or a stream.
# EXCLUDED: a recursion `return next(self)` deeper than a few dozen levels unless it is endless (empty list with
# repeats = sys.maxsize: RecursionError on both sides); map x+1 over rests / strings (the function itself raises).

FN = [
    lambda l: l,
    lambda l: list(reversed(l)),
    lambda l: l[1:] + l[:1],
    lambda l: [x + 1 for x in l],
    lambda l: l[:-1],
]


def _gen_seqaction(g):
    r = g.rng
    top = g.top
    tag = r.randrange(5) if top else r.randrange(4)
    m = r.randint(1, 5)
    if top and r.random() < 0.05:
        m = 0
    items = []
    for _ in range(m):
        if g.depth > 0 and r.random() < 0.2:
            items.append(g.finite_seq(minlen=(1 if not top else 0), maxlen=3, allow_none=(tag != 3)) if r.random() < 0.6
                         else g.stream(depth=g.depth - 1, finite=True if not top else None, allow_none=(tag != 3)))
        else:
            items.append(lit(g.num(allow_none=(tag != 3))))
    small = [0, 1, 1, 2, 2, 3, 4, 6]
    if g.finite_only:
        rep = lit(r.choice(small))
    elif top and r.random() < 0.35:
        rep = node("seq", [r.choice([1, -1]), 0, 0], [], [lit(r.choice(small)) for _ in range(r.randint(1, 4))])
    else:
        rep = lit(r.choice(small + [MAXSIZE, MAXSIZE]))
        # an endless recursion over empty lists (RecursionError / `diverge`) is slow on both sides: rarely
        emptyable = tag == 4 or m == 0 or any(k[0] != "lit" for k in items)
        if rep[1] == MAXSIZE and emptyable and r.random() < 0.9:
            rep = lit(r.choice(small))
    return node("sequenceAction", [tag, 0, 0, 0, 0], [], [rep] + items)


def _build_seqaction(n, v, kids, extra):
    return iso.PSequenceAction(list(kids[1:]), FN[n[0]], kids[0])


register("sequenceAction", _build_seqaction, _gen_seqaction, params=((0, "repeats"),), pyclass="PSequenceAction")

_REF_FN = [
    lambda t: t,
    lambda t: t[::-1],
    lambda t: t[1:] + t[:1],
    lambda t: tuple(x + 1 for x in t),
    lambda t: t[:len(t) - 1] if t else t,
]


def _seqaction_ref(e, toks, n):
    """literal items, literal repeats R: the lists fn^i(list), i < max(R, 1), one after the other, then StopIteration"""
    _, _, nn, _, kids, _ = e
    if any(k[0] != "lit" for k in kids):
        return None
    cur, R = tuple(k[1] for k in kids[1:]), kids[0][1]
    exp = []
    i = 0
    while len(exp) < len(toks):
        if i >= max(R, 1):
            exp += ["stop"] * (len(toks) - len(exp))
            break
        if i > 3000:
            return None          # an endless recursion over empty lists
        exp += list(cur)
        cur = _REF_FN[nn[0]](cur)
        i += 1
    return _cmp(exp, toks, "PSequenceAction")


REG["sequenceAction"].ref = _seqaction_ref

# --------------------------------------------------------------------------------------------------
# PPatternGeneratorAction with a pure generator function
# --------------------------------------------------------------------------------------------------

def _gen_pga(g):
    r = g.rng
    m, rep = r.randint(1, 5), r.choice([1, 1, 2, 3])
    if g.top and r.random() < 0.04:
        if r.random() < 0.5:
            m = 0
        else:
            rep = r.choice([0, -1])
    return node("patternGeneratorAction", [rep, 0, 0], [], [], buf=[g.num() for _ in range(m)])


def _build_pga(n, v, kids, extra):
    items, rep = list(extra["buf"]), n[0]
    return iso.PPatternGeneratorAction(lambda: iso.PSequence(list(items), rep))


register("patternGeneratorAction", _build_pga, _gen_pga, finite=False, pyclass="PPatternGeneratorAction")


def _pga_ref(e, toks, n):
    items, rep = e[5]["buf"], e[2][0]
    if not items or rep <= 0:
        return None
    return _cmp([items[j % len(items)] for j in range(len(toks))], toks, "PPatternGeneratorAction")


REG["patternGeneratorAction"].ref = _pga_ref

# --------------------------------------------------------------------------------------------------
# PFunc
# --------------------------------------------------------------------------------------------------

def _index_param(g, value_gen, p_pattern):
    """a parameter whose values come from a table: scalar, cycling sequence, or (when finiteness matters) a finite one"""
    r = g.rng
    if g.finite_only:
        return node("seq", [r.choice([1, 1, 2]), 0, 0], [], [lit(value_gen()) for _ in range(r.randint(0 if g.top else 1, 4))])
    return g.param(value_gen, p_pattern=p_pattern)


def _gen_func(g):
    r = g.rng
    table = [g.num() for _ in range(r.randint(1, 4))]
    return node("func", [], [], [_index_param(g, lambda: r.randrange(len(table)), 0.5)], buf=table)


def _build_func(n, v, kids, extra):
    table = list(extra["buf"])
    return iso.PFunc(_convert(kids[0], lambda t: (lambda x=table[t]: x) if isinstance(t, int) and not isinstance(t, bool) else t))


register("func", _build_func, _gen_func, params=((0, "function"),), pyclass="PFunc")
REG["func"].ref = _poll_ref(ORD_IN_ORDER, lambda st, j, row, e: e[5]["buf"][row[0]])

# --------------------------------------------------------------------------------------------------
# PFilterByKey, PNearestNoteInKey, PKeyTonic, PKeyScale
# --------------------------------------------------------------------------------------------------
# notes: ints and rests (a float / bool note is outside the Tonal model: the input is a literal sequence or PInt(stream))

def _gen_key(g, p_pattern=0.4):
    r = g.rng
    return _index_param(g, lambda: (r.randint(-3, 14), r.choice(SCALE_NAMES)), p_pattern)


def _gen_notes(g):
    r = g.rng
    if g.depth <= 0 or r.random() < 0.6:
        return g.stream(depth=0, allow_float=False, lo=-30, hi=100)
    return node("int", [], [], [g.stream(depth=g.depth - 1, lo=-30, hi=100)])


def _gen_filter(g):
    return node("filterByKey", [], [], [_gen_notes(g), _gen_key(g)])


def _gen_nearest(g):
    return node("nearestNoteInKey", [], [], [_gen_notes(g), _gen_key(g)])


def _gen_tonic(g):
    return node("keyTonic", [], [], [_gen_key(g, 0.6)])


def _gen_scale(g):
    if not g.top:             # below the top level an expression must yield numbers
        return _gen_tonic(g)
    return node("keyScale", [], [], [_gen_key(g, 0.6)])


register("filterByKey", lambda n, v, kids, extra: iso.PFilterByKey(kids[0], _convert(kids[1], _key)), _gen_filter,
         params=((0, "pattern"), (1, "key")), pyclass="PFilterByKey", inputs=(0,))
register("nearestNoteInKey", lambda n, v, kids, extra: iso.PNearestNoteInKey(kids[0], _convert(kids[1], _key)), _gen_nearest,
         params=((0, "pattern"), (1, "key")), pyclass="PNearestNoteInKey", inputs=(0,))
register("keyTonic", lambda n, v, kids, extra: iso.PKeyTonic(_convert(kids[0], _key)), _gen_tonic,
         params=((0, "key"),), pyclass="PKeyTonic")
register("keyScale", lambda n, v, kids, extra: iso.PKeyScale(_convert(kids[0], _key)), _gen_scale,
         params=((0, "key"),), pyclass="PKeyScale")


def _pitch_classes(key):
    tonic, name = key
    sc = iso.Scale.dict[name]
    return sorted((s + tonic) % sc.octave_size for s in sc.semitones), sc.octave_size


def _filter_ref(st, j, row, e):
    note, key = row
    if note is None:
        return None
    if isinstance(note, bool) or not isinstance(note, int):
        return UNSPEC
    pcs, size = _pitch_classes(key)
    return note if note % size in pcs else None


def _nearest_ref(st, j, row, e):
    """the note of the key (any octave) closest to `note`; of two equally close ones the one that comes first in the
    order: pitch classes of the octave ascending, then the one above the octave, then the one below it"""
    note, key = row
    if note is None:
        return None
    if isinstance(note, bool) or not isinstance(note, int):
        return UNSPEC
    pcs, size = _pitch_classes(key)
    base = note - note % size
    cands = [base + p for p in pcs] + [base + pcs[0] + size, base + pcs[-1] - size]
    if note in cands:
        return note
    best = min(abs(c - note) for c in cands)
    return [c for c in cands if abs(c - note) == best][0]


REG["filterByKey"].ref = _poll_ref(ORD_IN_ORDER, _filter_ref)
REG["nearestNoteInKey"].ref = _poll_ref(ORD_IN_ORDER, _nearest_ref)
REG["keyTonic"].ref = _poll_ref(ORD_IN_ORDER, lambda st, j, row, e: None if row[0] is None else row[0][0])
REG["keyScale"].ref = _poll_ref(ORD_IN_ORDER, lambda st, j, row, e: None if row[0] is None else row[0][1])
