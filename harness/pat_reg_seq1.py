"""Registry entries (real-object builders, generators, independent reference definitions) for the first group of
isobar/pattern/sequence.py: PSeries, PRange, PGeom, PImpulse, PLoop, PPingPong, PStutter, PSubsequence, PCreep; plus
reference definitions (and a nesting generator) for PSequence and PConcatenate, whose models live in Pat/Core.lean.

Register layouts: lean/IsobarV/Pat/Cls/Seq1.lean.  Domains and deliberate exclusions: NOTES-seq1.md.
"""
from __future__ import annotations

from fractions import Fraction

from . import pat_impl
from .pat_impl import REG, MAXSIZE, iso, lit, node, register

THEOREMS = {
    "C04": ["IsobarV.C04Seq1." + t for t in (
        "series_ok", "range_ok", "geom_ok", "impulse_ok", "loop_ok", "pingPong_ok", "stutter_ok", "subsequence_ok",
        "creep_ok", "seq1_ok", "reset_rewinds_seq1", "all_rewinds_seq1")],
    "C09": ["IsobarV.C09Seq1." + t for t in (
        "geom_sticky", "impulse_sticky", "loop_sticky", "pingPong_sticky", "stutter_sticky", "seq1_sticky", "sticky_seq1",
        "series_sticky_fix", "range_sticky_fix", "subsequence_sticky_fix", "creep_sticky_fix", "seq1_sticky_fix",
        "sticky_stepF_fix", "sticky_seq1_fix")],
    "C10": ["IsobarV.C10Seq1." + t for t in (
        "seq_reference", "seq_reference_const", "seq_reference_endless", "concat_reference", "concat_reference_prefix",
        "series_reference_gen", "series_reference_int", "series_reference_flt", "series_reference_varying",
        "range_reference_gen", "range_reference_int", "range_reference_flt", "range_reference_up",
        "geom_reference_gen", "geom_reference_int", "geom_reference_flt", "geom_reference_varying",
        "impulse_reference", "impulse_reference_nonpos", "loop_reference", "loop_passthrough",
        "pingPong_reference", "pingPong_reference_short", "stutter_blocks", "stutter_reference", "stutter_reference_prefix",
        "subsequence_reference", "subsequence_reference_enough", "creep_reference_partial", "windows_slices", "creepRepeat_one",
        "constUnder_stepF")],
    "C12": ["IsobarV.C12Seq1." + t for t in (
        "series_params_once", "series_length_every_call", "range_params_once", "geom_multiply_once", "impulse_period_once",
        "stutter_count_once_per_block", "stutter_count_untouched_in_block", "subsequence_params_once", "creep_params_once")],
}


def _pat(x):
    return x if isinstance(x, iso.Pattern) else iso.PConstant(x)


# --------------------------------------------------------------------------------------------------
# scalar draws
# --------------------------------------------------------------------------------------------------

def _num(g, lo=-6, hi=12, flt=None, p_none=0.0):
    """an int, or (flt=True / with probability g.p_float) a dyadic float k/4; None with probability p_none"""
    r = g.rng
    if p_none and r.random() < p_none:
        return None
    if flt is None:
        flt = r.random() < g.p_float
    return r.randint(lo * 4, hi * 4) / 4.0 if flt else r.randint(lo, hi)


def _varying(g):
    """may length-like parameters vary?  A varying length / end / offset can make a pattern yield again after it has
    raised StopIteration (each step compares against the freshly resolved value); finite instances keep them constant."""
    return not g.finite_only


def _param(g, value_gen, p_pattern=0.3, vary=True):
    """a pattern-valued parameter: a literal, an endless varying stream, or (one time in five) a varying stream that ENDS
    (the pattern then ends with its parameter)"""
    e = g.param(value_gen, p_pattern if vary else 0.0)
    if e[0] == "node" and e[1] == "seq" and g.rng.random() < 0.2:
        e = node("seq", [g.rng.choice([1, 2, 3]), 0, 0], [], e[4])
    return e


# --------------------------------------------------------------------------------------------------
# PSeries / PRange / PGeom / PImpulse
# --------------------------------------------------------------------------------------------------

def _series_build(n, v, kids, extra):
    return iso.PSeries(v[0], kids[1], kids[0])


def _series_gen(g):
    r = g.rng
    flt = r.random() < g.p_float
    start = _num(g, flt=flt, p_none=0.02)
    if g.finite_only or r.random() < 0.6:
        length = _param(g, lambda: r.choice([0, 1, 2, 3, 5, 8, 13, r.randint(0, 64)]), 0.3, _varying(g))
    else:
        length = lit(MAXSIZE)
    step = _param(g, lambda: _num(g, -6, 6, p_none=0.02), 0.35)
    return node("series", [0], [start, start], [length, step])


def _range_build(n, v, kids, extra):
    return iso.PRange(v[0], kids[0], kids[1])


def _range_gen(g):
    r = g.rng
    start = _num(g, -20, 20, p_none=0.02)
    sign = r.choice([1, 1, -1])
    if g.finite_only:
        end = lit(_num(g, -30, 40))
        stepv = _num(g, 1, 6)
        step = lit(sign * (stepv if stepv else 1))
    else:
        end = _param(g, lambda: _num(g, -30, 40, p_none=0.02), 0.3)
        # a varying step keeps one sign (a step pattern of mixed signs is legal, and modelled, but rarely ends)
        if r.random() < 0.08:
            step = _param(g, lambda: _num(g, -4, 4, p_none=0.03), 0.5)
        else:
            step = _param(g, lambda: sign * (_num(g, 1, 6) or 1), 0.35)
    return node("range", [], [start, start], [end, step])


def _geom_build(n, v, kids, extra):
    return iso.PGeom(v[0], kids[0], n[1])


def _geom_gen(g):
    r = g.rng
    flt = r.random() < g.p_float
    mixed = False
    if flt:
        # floats stay exact only under powers of two: anything else would be compared through a tolerance, which is
        # unsafe below a discontinuous operator (floor, mod, comparisons)
        start = r.randint(-24, 24) / 4.0
        mul = _param(g, lambda: r.choice([0.5, -0.5, 2.0, -2.0, 1.0, -1.0, 0.25, 4.0, 2, -2, 1, 0.0]), 0.35)
    else:
        start = _num(g, -6, 9, flt=False, p_none=0.02)
        mixed = g.top and r.random() < 0.3          # int start, some float multipliers (top level only: inexact floats)
        pool = [-3, -2, -1, 0, 1, 2, 2, 3, 4] + ([0.5, 2.0] if mixed else [])
        mul = _param(g, lambda: r.choice(pool + [None if r.random() < 0.1 else 2]), 0.35)
    # an endless geometric series of FLOATS leaves the float range (inf / 0.0) within a few hundred steps, which the
    # exact model does not imitate: floats only with lengths 0..64 (the documented domain)
    floats = flt or mixed
    length = r.choice([0, 1, 2, 3, 5, 8, 13, r.randint(0, 64)]) if (g.finite_only or floats or r.random() < 0.6) else MAXSIZE
    return node("geom", [0, length], [start, start], [mul])


def _impulse_gen(g):
    r = g.rng
    period = _param(g, lambda: r.choice([0, 1, 2, 3, 4, 5, 8, -1, 2.5, None if r.random() < 0.1 else 3]), 0.35)
    return node("impulse", [0], [], [period])


register("series", _series_build, _series_gen, params=((0, "length"), (1, "step")), pyclass="PSeries")
register("range", _range_build, _range_gen, params=((0, "end"), (1, "step")), pyclass="PRange")
register("geom", _geom_build, _geom_gen, params=((0, "multiply"),), pyclass="PGeom")
register("impulse", lambda n, v, kids, extra: iso.PImpulse(kids[0]), _impulse_gen, params=((0, "period"),), finite=False,
         pyclass="PImpulse")


# --------------------------------------------------------------------------------------------------
# PLoop / PPingPong / PStutter / PSubsequence / PCreep
# --------------------------------------------------------------------------------------------------

def _input(g, finite=None, **kw):
    """an input PATTERN (never a bare literal: the classes call next() on it)"""
    e = g.stream(finite=finite, **kw)
    if e[0] == "lit":
        e = node("const", [], [e[1]], [])
    return e


def _loop_gen(g):
    r = g.rng
    inp = _input(g, finite=(True if (g.finite_only or r.random() < 0.85) else None))
    if r.random() < 0.08:
        inp = node("seq", [1, 0, 0], [], [])       # the empty input
    count = r.choice([0, 1, 1, 2, 3, 4]) if (g.finite_only or r.random() < 0.7) else MAXSIZE
    return node("loop", [count, 0, 0, 0], [], [inp])


def _atom_ok(x):
    return x is None or isinstance(x, (bool, int, float))


def _all_values(e, limit=300):
    """the values of a finite input expression as the real library produces them (PPingPong reads its input at
    construction); None when the input raises, is too long, or yields something the model's buffer cannot hold"""
    try:
        obj = pat_impl.build(e)
        if not isinstance(obj, iso.Pattern):
            return None
        vals = obj.nextn(limit)
    except Exception:
        return None
    if len(vals) >= limit or not all(_atom_ok(x) for x in vals):
        return None
    return vals


def _pingpong_gen(g):
    r = g.rng
    inp = _input(g, finite=True)
    if r.random() < 0.12:
        inp = node("seq", [1, 0, 0], [], [g.lit() for _ in range(r.choice([0, 1, 1, 2]))])
    vals = _all_values(inp)
    if vals is None:
        inp = g.finite_seq(minlen=0, maxlen=6, repeats=1)
        vals = _all_values(inp)
    count = r.choice([0, 1, 1, 2, 3]) if (g.finite_only or r.random() < 0.7) else MAXSIZE
    return node("pingPong", [count, 0, 1, 0], [], [inp], buf=list(vals))


def _stutter_gen(g):
    r = g.rng
    inp = _input(g)
    count = _param(g, lambda: r.choice([0, 1, 2, 2, 3, 4, -1, 2.5, None if r.random() < 0.1 else 2]), 0.4)
    return node("stutter", [0], [0, 0], [inp, count])


def _subsequence_gen(g):
    r = g.rng
    inp = _input(g)
    offset = _param(g, lambda: r.choice([0, 0, 1, 2, 3, 4, 6, -1 if r.random() < 0.2 else 1, None if r.random() < 0.1 else 2]),
                    0.35, _varying(g))
    length = _param(g, lambda: r.choice([0, 1, 2, 3, 4, 6, 8, 12, None if r.random() < 0.1 else 5]), 0.3, _varying(g))
    return node("subsequence", [0], [], [inp, offset, length])


def _creep_build(n, v, kids, extra):
    return iso.PCreep(_pat(kids[0]), kids[1], kids[2], kids[3], kids[4])


def _creep_gen(g):
    r = g.rng
    inp = _input(g)
    if r.random() < 0.4:
        # a plain run of distinct values makes the window visible
        k = r.randint(3, 14)
        inp = node("seq", [1 if (g.finite_only or r.random() < 0.7) else -1, 0, 0], [], [lit(i) for i in range(k)])
    length = _param(g, lambda: r.choice([1, 2, 3, 3, 4, 5, 0 if r.random() < 0.15 else 2]), 0.25, _varying(g))
    lo = 1 if g.finite_only else 0          # creep = 0 never needs a new input value: an endless loop of one window
    creep = _param(g, lambda: r.choice([lo, 1, 1, 2, 3]), 0.3)
    repeats = _param(g, lambda: r.choice([0, 1, 2, 2, 3, None if r.random() < 0.1 else 1]), 0.3)
    # prob: only values for which `random.uniform(0, 1) < prob` does not depend on the draw (see NOTES-seq1.md)
    prob = _param(g, lambda: r.choice([1, 1, 1, 1.0, 2, 0, -1.0, 1.5]), 0.25)
    return node("creep", [0, 1], [], [inp, length, creep, repeats, prob])


register("loop", lambda n, v, kids, extra: iso.PLoop(_pat(kids[0]), n[0]), _loop_gen, pyclass="PLoop", inputs=(0,))
register("pingPong", lambda n, v, kids, extra: iso.PPingPong(_pat(kids[0]), n[0]), _pingpong_gen, pyclass="PPingPong", inputs=(0,))
register("stutter", lambda n, v, kids, extra: iso.PStutter(kids[0], kids[1]), _stutter_gen, params=((1, "count"),),
         pyclass="PStutter", inputs=(0,))
register("subsequence", lambda n, v, kids, extra: iso.PSubsequence(_pat(kids[0]), kids[1], kids[2]), _subsequence_gen,
         params=((1, "offset"), (2, "length")), pyclass="PSubsequence", inputs=(0,))
register("creep", _creep_build, _creep_gen, params=((1, "length"), (2, "creep"), (3, "repeats"), (4, "prob")),
         pyclass="PCreep", inputs=(0,))


# --------------------------------------------------------------------------------------------------
# PSequence with nested items (the core entry only generates literal items when it is the focus class)
# --------------------------------------------------------------------------------------------------

def _seq_gen(g):
    r = g.rng
    n = r.choice([0, 1, 2, 3, 4, 5, 6, r.randint(0, 64)])
    rep = r.choice([0, 1, 1, 2, 3]) if (g.finite_only or r.random() < 0.7) else -1
    items = []
    for _ in range(n):
        x = r.random()
        if n <= 8 and g.depth > 0 and x < 0.25:
            items.append(g.stream(depth=g.depth - 1))
        elif n <= 8 and x < 0.35:
            items.append(g.finite_seq(minlen=1, maxlen=3))
        else:
            items.append(g.lit())
    return node("seq", [rep, 0, 0], [], items)


REG["seq"].gen = _seq_gen


# --------------------------------------------------------------------------------------------------
# independent reference definitions (C10): list functions written from the documentation, applied to the outcome
# tokens of the real objects.  Values are exact: ints stay ints, floats become Fractions.
# --------------------------------------------------------------------------------------------------

class _Skip(Exception):
    """the case is outside what the reference definition covers (an operand raises, a parameter is not numeric, ...)"""


def _tv(t):
    if t == "N":
        return None
    if t.startswith("i:") and t != "i:huge":
        return int(t[2:])
    if t.startswith("r:") and t != "r:nan":
        return Fraction(t[2:])
    if t.startswith("b:"):
        return t == "b:1"
    raise _Skip(t)


def _vt(x):
    if x is None:
        return "N"
    if isinstance(x, bool):
        return "b:1" if x else "b:0"
    if isinstance(x, int):
        return "i:%d" % x
    return "r:%d/%d" % (x.numerator, x.denominator)


def _lv(v):
    """a literal Python value -> exact value"""
    if isinstance(v, float):
        return Fraction(v)
    if v is None or isinstance(v, (bool, int)):
        return v
    raise _Skip(v)


def _stream(k, m):
    """the first m outcome tokens of an independently built instance of the kid expression k"""
    if k[0] == "lit":
        return [pat_impl.out_tok(k[1])] * m
    return pat_impl.impl_next(_pat(pat_impl.build(k)), m)


def _values(k, m):
    """(values before the first StopIteration among the first m outcomes, ended?)"""
    out = []
    toks = _stream(k, m + 4)
    for i, t in enumerate(toks[:m]):
        if t == "stop":
            if any(u != "stop" for u in toks[i:]):
                # an input that yields again after StopIteration (a varying length-like parameter somewhere inside it)
                # is not a sequence of values: the list-based definitions do not apply
                raise _Skip("resurrecting input")
            return out, True
        if t.startswith("err") or t[:2] in ("t(", "l(") or t.startswith("s:") or t.startswith("obj:"):
            raise _Skip(t)
        out.append(_tv(t))
    return out, False


def _const(k):
    """the value of a constant parameter (a literal or a PConstant node), else skip"""
    if k[0] == "lit":
        return _lv(k[1])
    if k[1] == "const":
        return _lv(k[3][0])
    raise _Skip("varying")


def _isnum(x):
    return isinstance(x, (int, Fraction)) and not isinstance(x, bool)


def _check(expected, toks, n, what):
    """expected = list of values, then StopIteration for ever"""
    exp = [_vt(x) for x in expected[:n]]
    exp += ["stop"] * (n - len(exp))
    if not pat_impl.toks_equal(toks, exp):
        return "%s: reference definition gives %s, the implementation %s" % (what, " ".join(exp)[:200], " ".join(toks)[:200])
    return None


REF_STATS = {}     # class -> [cases decided by the reference definition, cases outside it]


def _ref(fn):
    def ref(e, toks, n):
        st = REF_STATS.setdefault(e[1], [0, 0])
        if any(t.startswith("err") or t == "hang" for t in toks) or len(toks) != n:
            st[1] += 1
            return None
        try:
            res = fn(e, toks, n)
            st[0] += 1
            return res
        except _Skip:
            st[1] += 1
            return None
    return ref


def _series_ref(e, toks, n):
    _, _, _, v, kids, _ = e
    start, length = _lv(v[0]), _const(kids[0])
    if not _isnum(start) or not isinstance(length, int):
        raise _Skip()
    m = max(0, min(n, length))
    if kids[1][0] == "lit" or kids[1][1] == "const":
        d = _const(kids[1])
        if not _isnum(d):
            raise _Skip()
        # closed form: start, then start + i * step (a float step makes every later term a float)
        exp = [start if i == 0 else start + i * d for i in range(m)]
        if m and isinstance(d, Fraction) and not isinstance(start, Fraction):
            exp = [start] + [Fraction(x) for x in exp[1:]]
    else:
        ds, ended = _values(kids[1], m)
        if not all(_isnum(d) for d in ds):
            raise _Skip()
        exp, x = [], start
        for i in range(m):
            if i >= len(ds):
                break
            exp.append(x)
            x = x + ds[i]
        if len(exp) < m and not ended:
            raise _Skip()
        if len(exp) < m:
            # the step pattern ended: so does the series (its value is not advanced any more)
            return _check(exp, toks, n, "series")
    return _check(exp, toks, n, "series")


def _range_ref(e, toks, n):
    _, _, _, v, kids, _ = e
    start, end, d = _lv(v[0]), _const(kids[0]), _const(kids[1])
    if not (_isnum(start) and _isnum(end) and _isnum(d)):
        raise _Skip()
    exp, i = [], 0
    while len(exp) < n:
        x = start if i == 0 else start + i * d
        if (d > 0 and x >= end) or (d < 0 and x <= end):
            break
        exp.append(x)
        i += 1
    return _check(exp, toks, n, "range")


def _geom_ref(e, toks, n):
    _, _, nn, v, kids, _ = e
    start, length = _lv(v[0]), nn[1]
    if not _isnum(start):
        raise _Skip()
    m = max(0, min(n, length))
    if kids[0][0] == "lit" or kids[0][1] == "const":
        q = _const(kids[0])
        if not _isnum(q):
            raise _Skip()
        exp = [start if i == 0 else start * q ** i for i in range(m)]
    else:
        qs, ended = _values(kids[0], m)
        if not all(_isnum(q) for q in qs):
            raise _Skip()
        exp, x = [], start
        for i in range(m):
            if i >= len(qs):
                break
            exp.append(x)
            x = x * qs[i]
        if len(exp) < m and not ended:
            raise _Skip()
    return _check(exp, toks, n, "geom")


def _impulse_ref(e, toks, n):
    p = _const(e[4][0])
    if not isinstance(p, int) or isinstance(p, bool):
        raise _Skip()
    exp = [1 if (p <= 1 or i % p == 0) else 0 for i in range(n)]
    return _check(exp, toks, n, "impulse")


def _loop_ref(e, toks, n):
    count = e[2][0]
    vs, ended = _values(e[4][0], n + 1)
    if not ended:
        return _check(vs[:n], toks, n, "loop (input not yet exhausted)") if len(vs) >= n else None
    # PLoop(p, 0) plays the input once, like PLoop(p, 1): the input is read through before `count` is looked at
    return _check(vs * min(max(count, 1), n + 1), toks, n, "loop")


def _pingpong_ref(e, toks, n):
    count = e[2][0]
    vs, ended = _values(e[4][0], 400)
    if not ended:
        raise _Skip()
    if len(vs) == 0:
        exp = []
    else:
        cycle = vs[:-1] + vs[:0:-1]
        exp = cycle * min(count, n + 1) + [vs[0]]
    return _check(exp, toks, n, "pingPong")


def _stutter_ref(e, toks, n):
    xs, xended = _values(e[4][0], n + 1)
    cs, cended = _values(e[4][1], n + 1)
    exp = []
    for x, c in zip(xs, cs):
        if not _isnum(c):
            raise _Skip()
        k = 1
        while k < c:            # each value is played ceil(count) times, and at least once
            k += 1
        exp += [x] * k
        if len(exp) >= n:
            break
    if len(exp) < n and not (xended or cended):
        raise _Skip()
    return _check(exp, toks, n, "stutter")


def _subsequence_ref(e, toks, n):
    off, length = _const(e[4][1]), _const(e[4][2])
    if not (isinstance(off, int) and not isinstance(off, bool) and off >= 0 and _isnum(length)):
        raise _Skip()
    m = 0
    while m < length and m < n:
        m += 1
    vs, ended = _values(e[4][0], off + m + 1)
    return _check(vs[off:off + m], toks, n, "subsequence")


def _creep_ref(e, toks, n):
    length, creep, repeats, prob = (_const(k) for k in e[4][1:5])
    if not (isinstance(length, int) and length >= 1 and isinstance(creep, int) and creep >= 0 and _isnum(repeats)
            and _isnum(prob) and (prob >= 1 or prob <= 0)) or isinstance(length, bool) or isinstance(creep, bool):
        raise _Skip()
    vs, ended = _values(e[4][0], length + (n + 1) * max(creep, 1) + 1)
    exp = []
    if prob >= 1:
        times = 1
        while times < repeats:
            times += 1
        s = 0
        while len(exp) < n and s + length <= len(vs):
            exp += vs[s:s + length] * (times if creep > 0 else n + 1)
            s += creep
    else:
        # never repeat: the first window once, then the window creeps at every step and its last note is played
        if len(vs) >= length:
            exp = list(vs[:length])
            s = creep
            while len(exp) < n and s + length <= len(vs):
                exp.append(vs[s + length - 1])
                s += creep
                if creep == 0:
                    exp += [vs[length - 1]] * n
    return _check(exp, toks, n, "creep")


def _seq_ref(e, toks, n):
    """PSequence: cycle through the items `repeats` times; an item that is itself a pattern contributes its next value
    at every visit; the sequence ends for good when a nested item is exhausted at its turn"""
    rep, items = e[2][0], e[4]
    if not items or rep == 0:
        return _check([], toks, n, "seq")
    streams = [_values(k, n // len(items) + 2) for k in items]
    exp = []
    for i in range(n):
        rnd, j = divmod(i, len(items))
        if 0 <= rep <= rnd:
            break
        vals, ended = streams[j]
        if rnd >= len(vals):
            if not ended:
                raise _Skip()
            break
        exp.append(vals[rnd])
    return _check(exp, toks, n, "seq")


def _concat_ref(e, toks, n):
    exp = []
    for k in e[4]:
        vs, ended = _values(k, n + 1)
        exp += vs
        if not ended:
            break
        if len(exp) >= n:
            break
    return _check(exp, toks, n, "concat")


REG["series"].ref = _ref(_series_ref)
REG["range"].ref = _ref(_range_ref)
REG["geom"].ref = _ref(_geom_ref)
REG["impulse"].ref = _ref(_impulse_ref)
REG["loop"].ref = _ref(_loop_ref)
REG["pingPong"].ref = _ref(_pingpong_ref)
REG["stutter"].ref = _ref(_stutter_ref)
REG["subsequence"].ref = _ref(_subsequence_ref)
REG["creep"].ref = _ref(_creep_ref)
REG["seq"].ref = _ref(_seq_ref)
REG["concat"].ref = _ref(_concat_ref)
