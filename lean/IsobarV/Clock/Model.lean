/-
Operational model of isobar's clock domains (property C14)

  (a) `isobar/util.py`              : make_clock_multiplier        → `Gen`, `Gen.next`
  (d) `isobar/timelines/timeline.py`: the per-device clock loop at the end of Timeline.tick,
                                      add_output_device, reset      → `TL`, `TL.tick`
  (b) `isobar/timelines/clock.py`   : Clock.run / set_tempo / stop  → `Clk`, `Clk.wake`, `Clk.run`
  (c) `isobar/io/midi/input.py`     : MidiInputDevice._callback     → `MidiIn`, `MidiIn.recv`
      `isobar/io/midi/output.py`    : MidiOutputDevice.tick (one 'clock' message per device tick when
                                      send_clock) is the identity on device ticks and is not modelled
                                      separately (the harness counts the 'clock' messages on a fake port).

Numbers.  Clock rates are `Nat` (0 encodes Python `None`/`0`).  The generator's phase `pos` is kept
scaled by the input rate (`pos = 1.0` ↔ `den`), exactly as the repaired code does, so it is an integer.
Wall-clock readings and tick durations are integers in an arbitrary common unit chosen by the harness
(a power-of-two fraction of a second, so that every float operation of the code is exact);
`tick_duration_seconds` is `Clk.d`.

Not modelled (assumed absent / default): `Clock.warpers`, `Clock.jitter` (0), `Clock.accelerate` (1.0),
the tempo estimate of MidiInputDevice (wall clock, floats), threads.

Import-free, total, computable.  Results of model functions are structures, never tuples.
-/
namespace IsobarV.Clock

/-! ### (a) make_clock_multiplier -/

/-- What one `next(generator)` gives. -/
inductive NextRes where
  | ticks (n : Nat)
  | clockError        -- ClockException raised by the generator body
  | stopIteration     -- the generator had already terminated (by raising)
  deriving DecidableEq, Repr, Inhabited

/-- Python generators are lazy: the body (including the rate check) starts at the first `next`.
    A generator that raised is finished; every later `next` raises StopIteration. -/
inductive GenSt where
  | fresh
  | running (pos : Nat)
  | finished
  deriving DecidableEq, Repr, Inhabited

structure Gen where
  outRate : Nat
  inRate : Nat
  st : GenSt := .fresh
  deriving DecidableEq, Repr, Inhabited

/-- `make_clock_multiplier(output_clock_rate, input_clock_rate)` (creating the generator runs nothing). -/
def Gen.mk' (outRate inRate : Nat) : Gen := { outRate := outRate, inRate := inRate }

/-- `numerator, denominator = 1, 1; if output_clock_rate and input_clock_rate: numerator, denominator = rates` -/
def Gen.num (g : Gen) : Nat := if g.outRate ≠ 0 ∧ g.inRate ≠ 0 then g.outRate else 1
def Gen.den (g : Gen) : Nat := if g.outRate ≠ 0 ∧ g.inRate ≠ 0 then g.inRate else 1

/-- The rate check: `not (out % in != 0 and in % out != 0)` (only evaluated when both rates are set). -/
def Gen.accepts (g : Gen) : Bool :=
  if g.outRate ≠ 0 ∧ g.inRate ≠ 0 then g.outRate % g.inRate == 0 || g.inRate % g.outRate == 0 else true

structure Drained where
  pos : Nat
  rv : Nat
  deriving DecidableEq, Repr, Inhabited

/-- `while pos > denominator: pos -= denominator; rv += 1` (fuel ≥ pos is enough since den ≥ 1). -/
def drain : Nat → Nat → Nat → Nat → Drained
  | 0, _, pos, rv => { pos := pos, rv := rv }
  | fuel + 1, den, pos, rv =>
    if pos > den then drain fuel den (pos - den) (rv + 1) else { pos := pos, rv := rv }

structure GenStep where
  res : NextRes
  gen : Gen
  deriving DecidableEq, Repr, Inhabited

/-- One pass of the generator's `while True` body from phase `pos`: `rv = 0; pos += numerator; drain; yield rv`. -/
def Gen.advance (g : Gen) (pos : Nat) : GenStep :=
  let r := drain (pos + g.num) g.den (pos + g.num) 0
  { res := .ticks r.rv, gen := { g with st := .running r.pos } }

/-- `next(generator)`. -/
def Gen.next (g : Gen) : GenStep :=
  match g.st with
  | .finished => { res := .stopIteration, gen := g }
  | .fresh =>
    if g.accepts then g.advance g.den        -- `pos = denominator`
    else { res := .clockError, gen := { g with st := .finished } }
  | .running pos => g.advance pos

def NextRes.count : NextRes → Nat
  | .ticks n => n
  | _ => 0

/-- The generator after `n` calls of `next`. -/
def Gen.after (g : Gen) : Nat → Gen
  | 0 => g
  | n + 1 => (g.after n).next.gen

/-- What the `i`-th `next` (0-based) returns. -/
def Gen.emit (g : Gen) (i : Nat) : NextRes := (g.after i).next.res

/-- Output ticks produced by the first `n` calls of `next`. -/
def Gen.total (g : Gen) : Nat → Nat
  | 0 => 0
  | n + 1 => g.total n + (g.emit n).count

/-! ### (d) the device clock loop of Timeline.tick -/

/-- How a call returned. -/
inductive Res where
  | ok
  | clockError       -- ClockException propagated
  | stopIteration    -- StopIteration propagated
  | raised           -- some other exception propagated (scripted fault of a clock target)
  | diverged         -- a zero tick duration: the catch-up loop would never end; outside the domain
  deriving DecidableEq, Repr, Inhabited

/-- An output device as the clock loop sees it: its position in `timeline.output_devices` and its multiplier. -/
structure Dev where
  id : Nat
  gen : Gen
  deriving DecidableEq, Repr, Inhabited

/-- The C14 projection of a Timeline: its own rate, the devices with their multipliers, and the number
    of completed ticks since the last reset (`current_time = now / tpb`).  No tracks (see C01–C07). -/
structure TL where
  tpb : Nat
  devs : List Dev := []
  now : Nat := 0
  deriving DecidableEq, Repr, Inhabited

/-- `Timeline.add_output_device`: append, with a fresh multiplier `make_clock_multiplier(device.ticks_per_beat, timeline.ticks_per_beat)`. -/
def TL.addDevice (tl : TL) (devTpb : Nat) : TL :=
  { tl with devs := tl.devs ++ [{ id := tl.devs.length, gen := Gen.mk' devTpb tl.tpb }] }

structure DevLoop where
  res : Res
  calls : List Nat      -- one entry (the device id) per `device.tick()` call, in call order
  devs : List Dev
  deriving DecidableEq, Repr, Inhabited

/-- `for device in self.output_devices: ticks = next(multiplier); for _ in range(ticks): device.tick()`.
    An exception from `next` propagates: later devices are not touched in this tick. -/
def devLoop : List Dev → DevLoop
  | [] => { res := .ok, calls := [], devs := [] }
  | dv :: rest =>
    let st := dv.gen.next
    let dv' : Dev := { dv with gen := st.gen }
    match st.res with
    | .ticks n =>
      let r := devLoop rest
      { res := r.res, calls := List.replicate n dv.id ++ r.calls, devs := dv' :: r.devs }
    | .clockError => { res := .clockError, calls := [], devs := dv' :: rest }
    | .stopIteration => { res := .stopIteration, calls := [], devs := dv' :: rest }

structure TLTick where
  res : Res
  calls : List Nat
  tl : TL
  deriving DecidableEq, Repr, Inhabited

/-- `Timeline.tick` of a timeline without tracks: device clock loop, then `current_time += tick_duration`
    (not reached when the loop raised). -/
def TL.tick (tl : TL) : TLTick :=
  let r := devLoop tl.devs
  match r.res with
  | .ok => { res := .ok, calls := r.calls, tl := { tl with devs := r.devs, now := tl.now + 1 } }
  | e => { res := e, calls := r.calls, tl := { tl with devs := r.devs } }

/-- `Timeline.reset` (`current_time = 0`; the multipliers keep their phase). -/
def TL.reset (tl : TL) : TL := { tl with now := 0 }

/-- The timeline after `n` ticks (ticks that raise leave `now` unchanged). -/
def TL.after (tl : TL) : Nat → TL
  | 0 => tl
  | n + 1 => (tl.after n).tick.tl

/-- Number of `device.tick()` calls device `id` received in a call list. -/
def callsOf (id : Nat) (calls : List Nat) : Nat := calls.count id

/-- `device.tick()` calls device `id` received during the first `n` timeline ticks. -/
def TL.devTotal (tl : TL) (id : Nat) : Nat → Nat
  | 0 => 0
  | n + 1 => tl.devTotal id n + callsOf id (tl.after n).tick.calls

/-! ### (b) Clock.run -/

/-- What the clock target's `tick()` does to the clock that called it. -/
inductive Act where
  | keep                 -- nothing
  | setDur (d : Nat)     -- sets the tempo: `tick_duration_seconds = 60 / (tempo * ticks_per_beat)` = `d` units
  | stop                 -- calls `clock.stop()` (`running = False`)
  | raise (r : Res)      -- raises (StopIteration from a finished timeline, ClockException, …)
  deriving DecidableEq, Repr, Inhabited

structure TickOut (τ : Type) where
  act : Act
  tgt : τ

/-- A clock target: any state machine with a `tick`. -/
structure Target (τ : Type) where
  tick : τ → TickOut τ

structure Clk (τ : Type) where
  c0 : Int                 -- `clock0`
  d : Nat                  -- `tick_duration_seconds` (= `tick_duration_seconds_orig`: no warpers)
  gen : Gen                -- `clock_multiplier` = make_clock_multiplier(target.ticks_per_beat, clock.ticks_per_beat)
  tgt : τ
  raw : Nat := 0           -- passes of the catch-up loop = the clock's own ticks
  ticks : Nat := 0         -- `clock_target.tick()` calls made
  running : Bool := true
  res : Res := .ok         -- ≠ ok: an exception has propagated out of `run()`

/-- `Clock.run` up to and including its first pass with `clock1 = clock0 = time.time()`. -/
def Clk.init {τ : Type} (t0 : Int) (d : Nat) (gen : Gen) (tgt : τ) : Clk τ :=
  { c0 := t0, d := d, gen := gen, tgt := tgt }

/-- `for _ in range(ticks): self.clock_target.tick()`; an exception ends the run at once. -/
def deliver {τ : Type} (T : Target τ) : Nat → Clk τ → Clk τ
  | 0, s => s
  | n + 1, s =>
    let o := T.tick s.tgt
    let s1 : Clk τ := { s with tgt := o.tgt, ticks := s.ticks + 1 }
    match o.act with
    | .keep => deliver T n s1
    | .setDur d => deliver T n { s1 with d := d }
    | .stop => deliver T n { s1 with running := false }
    | .raise r => { s1 with res := r }

/-- `while clock1 - clock0 >= next_tick_duration: ticks = next(multiplier); deliver; clock0 += tick_duration_seconds`.
    `thr` is `next_tick_duration`, read once per wake-up; `clock0` advances by the duration in force
    *after* the target's callbacks. -/
def catchUp {τ : Type} (T : Target τ) (thr : Nat) (now : Int) : Nat → Clk τ → Clk τ
  | 0, s => if now - s.c0 ≥ (thr : Int) then { s with res := .diverged } else s
  | fuel + 1, s =>
    if now - s.c0 ≥ (thr : Int) then
      let st := s.gen.next
      match st.res with
      | .ticks n =>
        let s1 := deliver T n { s with gen := st.gen, raw := s.raw + 1 }
        match s1.res with
        | .ok => catchUp T thr now fuel { s1 with c0 := s1.c0 + (s1.d : Int) }
        | _ => s1
      | .clockError => { s with gen := st.gen, res := .clockError }
      | .stopIteration => { s with gen := st.gen, res := .stopIteration }
    else s

/-- One pass of the outer `while self.running` loop with the reading `clock1 = now`.
    Every pass of the catch-up loop moves `clock0` forward by ≥ 1 unit when durations are positive, so
    `now - clock0 + 1` passes are enough; running out means a zero duration (the code would spin forever). -/
def Clk.wake {τ : Type} (T : Target τ) (s : Clk τ) (now : Int) : Clk τ :=
  match s.res with
  | .ok => if s.running then catchUp T s.d now ((now - s.c0).toNat + 1) s else s
  | _ => s

/-- What can happen to a running clock, in the order it happens. -/
inductive Ev where
  | wake (now : Int)     -- `time.sleep(…)` returned and `time.time()` read `now`
  | setDur (d : Nat)     -- another thread set the tempo while the clock slept
  | stop                 -- another thread called `clock.stop()`
  deriving DecidableEq, Repr, Inhabited

def Clk.step {τ : Type} (T : Target τ) (s : Clk τ) : Ev → Clk τ
  | .wake now => s.wake T now
  | .setDur d => { s with d := d }
  | .stop => { s with running := false }

def Clk.run {τ : Type} (T : Target τ) (s : Clk τ) (evs : List Ev) : Clk τ := evs.foldl (Clk.step T) s

/-- A target that only counts (any `tick()` that leaves the clock alone). -/
def idleTarget : Target Unit := { tick := fun u => { act := .keep, tgt := u } }

/-- A scripted target: the `j`-th tick (0-based) performs `script j`. -/
def scriptTarget (script : Nat → Act) : Target Nat := { tick := fun j => { act := script j, tgt := j + 1 } }

/-- A timeline as clock target, with a script of what its callbacks do to the clock. -/
structure TLTgt where
  tl : TL
  n : Nat := 0
  calls : List Nat := []      -- all device.tick() calls so far, most recent first
  deriving DecidableEq, Repr, Inhabited

def tlTarget (script : Nat → Act) : Target TLTgt :=
  { tick := fun t =>
      let r := t.tl.tick
      let t' : TLTgt := { tl := r.tl, n := t.n + 1, calls := r.calls.reverse ++ t.calls }
      match r.res with
      | .ok => { act := script t.n, tgt := t' }
      | e => { act := .raise e, tgt := t' } }

/-! ### (c) MidiInputDevice._callback -/

inductive Msg where
  | clock
  | start
  | stop
  | songpos (pos : Nat)
  | note (id : Nat)       -- note_on / note_off / control_change / pitchwheel, tagged by the harness
  | other                 -- any other message type (continue, program_change, sysex, …)
  deriving DecidableEq, Repr, Inhabited

/-- Calls made on the clock target. -/
inductive TCall where
  | tick | start | stop | reset
  deriving DecidableEq, Repr, Inhabited

structure MidiIn where
  hasTarget : Bool := true
  hasCallback : Bool := false
  calls : List TCall := []       -- calls on clock_target, oldest first
  queue : List Nat := []         -- messages put on `self.queue`
  cbCalls : List Nat := []       -- messages handed to `self.callback`
  clocks : Nat := 0              -- clock messages seen (the tempo estimate itself is not modelled)
  deriving DecidableEq, Repr, Inhabited

/-- The target call a message causes, if any. -/
def Msg.call : Msg → Option TCall
  | .clock => some .tick
  | .start => some .start
  | .stop => some .stop
  | .songpos p => if p = 0 then some .reset else none
  | _ => none

def MidiIn.recv (m : MidiIn) (msg : Msg) : MidiIn :=
  let m := match msg with
    | .clock => { m with clocks := m.clocks + 1 }
    | .note id => if m.hasCallback then { m with cbCalls := m.cbCalls ++ [id] } else { m with queue := m.queue ++ [id] }
    | _ => m
  match msg.call with
  | some c => if m.hasTarget then { m with calls := m.calls ++ [c] } else m
  | none => m

def MidiIn.run (m : MidiIn) (msgs : List Msg) : MidiIn := msgs.foldl MidiIn.recv m

/-- A timeline slaved to the MIDI input: `clock` → `Timeline.tick`, `songpos 0` → `Timeline.reset`;
    `start`/`stop` do not move time (`Timeline.start` spawns the thread that idles in
    `MidiInputDevice.run`, `Timeline.stop` silences the devices).  A tick that raises propagates to
    mido's callback thread; the timeline stays where it was. -/
structure Slave where
  tl : TL
  log : List (List Nat) := []     -- device calls of each successful Timeline.tick, oldest first
  errs : List Res := []           -- results of the ticks that raised
  deriving DecidableEq, Repr, Inhabited

def Slave.recv (s : Slave) (msg : Msg) : Slave :=
  match msg.call with
  | some .tick =>
    let r := s.tl.tick
    match r.res with
    | .ok => { s with tl := r.tl, log := s.log ++ [r.calls] }
    | e => { s with tl := r.tl, errs := s.errs ++ [e] }
  | some .reset => { s with tl := s.tl.reset }
  | _ => s

def Slave.run (s : Slave) (msgs : List Msg) : Slave := msgs.foldl Slave.recv s

end IsobarV.Clock
