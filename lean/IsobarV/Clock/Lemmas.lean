/-
Helper lemmas for property C14 (clock domains).  Nothing here is a property statement; the property
theorems are in `IsobarV/Props/C14.lean`.
-/
import IsobarV.Clock.Model
namespace IsobarV.Clock

theorem drain_spec (den : Nat) (hden : 0 < den) :
    ∀ fuel pos rv, 0 < pos → pos ≤ fuel →
      drain fuel den pos rv = { pos := (pos - 1) % den + 1, rv := rv + (pos - 1) / den } := by
  intro fuel
  induction fuel with
  | zero => intro pos rv h1 h2; omega
  | succ f ih =>
    intro pos rv h1 h2
    unfold drain
    by_cases h : pos > den
    · simp only [h, if_true]
      rw [ih (pos - den) (rv + 1) (by omega) (by omega)]
      have e : pos - 1 = (pos - den - 1) + den := by omega
      rw [e, Nat.add_mod_right, Nat.add_div_right _ hden]
      congr 1; omega
    · simp only [h, if_false]
      have : pos - 1 < den := by omega
      rw [Nat.mod_eq_of_lt this, Nat.div_eq_of_lt this]
      congr 1; omega

theorem Gen.num_pos (g : Gen) : 0 < g.num := by
  unfold Gen.num; split <;> omega

theorem Gen.den_pos (g : Gen) : 0 < g.den := by
  unfold Gen.den; split <;> omega

/-- The phase of a generator (`pos`, scaled by `den`); a fresh generator starts at `pos = den`. -/
def Gen.pos (g : Gen) : Nat :=
  match g.st with
  | .fresh => g.den
  | .running p => p
  | .finished => 0

/-- A generator that will keep yielding: not yet started with compatible rates, or running with its
    phase in `(0, den]`. -/
def Gen.Live (g : Gen) : Prop :=
  (g.st = .fresh ∧ g.accepts = true) ∨ (∃ p, g.st = .running p ∧ 0 < p ∧ p ≤ g.den)

instance Gen.decLive (g : Gen) : Decidable g.Live :=
  match h : g.st with
  | .fresh =>
    if ha : g.accepts = true then isTrue (Or.inl ⟨h, ha⟩)
    else isFalse (by
      rintro (⟨_, h2⟩ | ⟨p, h2, _⟩)
      · exact ha h2
      · rw [h] at h2; cases h2)
  | .running p =>
    if hp : 0 < p ∧ p ≤ g.den then isTrue (Or.inr ⟨p, h, hp.1, hp.2⟩)
    else isFalse (by
      rintro (⟨h2, _⟩ | ⟨q, h2, h3, h4⟩)
      · rw [h] at h2; cases h2
      · rw [h] at h2; cases h2; exact hp ⟨h3, h4⟩)
  | .finished => isFalse (by
      rintro (⟨h2, _⟩ | ⟨q, h2, _⟩)
      · rw [h] at h2; cases h2
      · rw [h] at h2; cases h2)

theorem Gen.Live.pos_bounds {g : Gen} (h : g.Live) : 0 < g.pos ∧ g.pos ≤ g.den := by
  rcases h with ⟨h, _⟩ | ⟨p, h, h1, h2⟩
  · simp [Gen.pos, h, g.den_pos]
  · simp [Gen.pos, h, h1, h2]

theorem Gen.advance_spec (g : Gen) (p : Nat) (hp : 0 < p) :
    g.advance p = { res := .ticks ((p + g.num - 1) / g.den),
                    gen := { g with st := .running ((p + g.num - 1) % g.den + 1) } } := by
  unfold Gen.advance
  rw [drain_spec g.den g.den_pos _ _ _ (by omega) (Nat.le_refl _)]
  simp

theorem Gen.next_live {g : Gen} (h : g.Live) :
    g.next = { res := .ticks ((g.pos + g.num - 1) / g.den),
               gen := { g with st := .running ((g.pos + g.num - 1) % g.den + 1) } } := by
  rcases h with ⟨h, ha⟩ | ⟨p, h, h1, h2⟩
  · unfold Gen.next; rw [h]; simp only [ha, if_true]
    rw [Gen.advance_spec g g.den g.den_pos]; simp [Gen.pos, h]
  · unfold Gen.next; rw [h]; simp only
    rw [Gen.advance_spec g p h1]; simp [Gen.pos, h]

theorem Gen.next_live_live {g : Gen} (h : g.Live) : g.next.gen.Live := by
  rw [Gen.next_live h]
  right
  refine ⟨_, rfl, by omega, ?_⟩
  have : (g.pos + g.num - 1) % g.den < g.den := Nat.mod_lt _ g.den_pos
  show _ ≤ Gen.den { g with st := _ }
  simp only [Gen.den] at *
  omega

theorem Gen.next_finished {g : Gen} (h : g.st = .finished) :
    g.next = { res := .stopIteration, gen := g } := by
  unfold Gen.next; rw [h]

theorem Gen.next_rates (g : Gen) : g.next.gen.outRate = g.outRate ∧ g.next.gen.inRate = g.inRate := by
  unfold Gen.next Gen.advance
  split
  · simp
  · split <;> simp
  · simp

theorem Gen.next_num (g : Gen) : g.next.gen.num = g.num := by
  have := g.next_rates; simp [Gen.num, this.1, this.2]
theorem Gen.next_den (g : Gen) : g.next.gen.den = g.den := by
  have := g.next_rates; simp [Gen.den, this.1, this.2]

theorem Gen.after_num (g : Gen) (n : Nat) : (g.after n).num = g.num := by
  induction n with
  | zero => rfl
  | succ n ih => simp [Gen.after, Gen.next_num, ih]
theorem Gen.after_den (g : Gen) (n : Nat) : (g.after n).den = g.den := by
  induction n with
  | zero => rfl
  | succ n ih => simp [Gen.after, Gen.next_den, ih]

theorem Gen.after_live {g : Gen} (h : g.Live) (n : Nat) : (g.after n).Live := by
  induction n with
  | zero => exact h
  | succ n ih => exact Gen.next_live_live ih

/-- One step conserves `pos + den * (ticks emitted)` up to the added `num`. -/
theorem Gen.next_balance {g : Gen} (h : g.Live) :
    g.next.gen.pos + g.next.res.count * g.den = g.pos + g.num := by
  rw [Gen.next_live h]
  have hb := h.pos_bounds
  have := Nat.mod_add_div (g.pos + g.num - 1) g.den
  have hn := g.num_pos
  rw [Nat.mul_comm] at this
  generalize g.pos = p at *
  simp only [Gen.pos, NextRes.count]
  omega

/-- The accumulator invariant: phase + den × (ticks so far) = initial phase + n × num. -/
theorem Gen.balance {g : Gen} (h : g.Live) (n : Nat) :
    (g.after n).pos + g.total n * g.den = g.pos + n * g.num := by
  induction n with
  | zero => simp [Gen.after, Gen.total]
  | succ n ih =>
    have hl := Gen.after_live h n
    have := Gen.next_balance hl
    rw [Gen.after_num, Gen.after_den] at this
    simp only [Gen.after, Gen.total, Gen.emit]
    rw [Nat.add_mul, Nat.add_mul]
    omega

/-- Closed form of the number of output ticks after `n` steps, from any live state. -/
theorem Gen.total_closed {g : Gen} (h : g.Live) (n : Nat) :
    g.total n = (g.pos + n * g.num - 1) / g.den := by
  have hb := Gen.balance h n
  have hp := (Gen.after_live h n).pos_bounds
  rw [Gen.after_den] at hp
  have hd := g.den_pos
  have e : g.pos + n * g.num - 1 = ((g.after n).pos - 1) + g.total n * g.den := by omega
  rw [e, Nat.add_mul_div_right _ _ hd, Nat.div_eq_of_lt (by omega)]
  omega

theorem Gen.emit_live {g : Gen} (h : g.Live) (i : Nat) :
    g.emit i = .ticks (((g.after i).pos + g.num - 1) / g.den) := by
  unfold Gen.emit
  rw [Gen.next_live (Gen.after_live h i), Gen.after_num, Gen.after_den]

theorem Gen.emit_count {g : Gen} (h : g.Live) (i : Nat) :
    g.emit i = .ticks (g.total (i + 1) - g.total i) := by
  have := Gen.emit_live h i
  rw [this]
  simp only [Gen.total, this, NextRes.count]
  rw [Nat.add_sub_cancel_left]

theorem mk_live {out inn : Nat} (h : (Gen.mk' out inn).accepts = true) : (Gen.mk' out inn).Live :=
  Or.inl ⟨rfl, h⟩

theorem mk_num (out inn : Nat) (ho : out ≠ 0) (hi : inn ≠ 0) : (Gen.mk' out inn).num = out := by
  simp [Gen.num, Gen.mk', ho, hi]

theorem mk_den (out inn : Nat) (ho : out ≠ 0) (hi : inn ≠ 0) : (Gen.mk' out inn).den = inn := by
  simp [Gen.den, Gen.mk', ho, hi]

theorem mk_pos (out inn : Nat) : (Gen.mk' out inn).pos = (Gen.mk' out inn).den := rfl

/-- `⌈n / d⌉ - ⌈(n-1) / d⌉` pattern: the step from `i` to `i+1` crosses a multiple of `d` iff `d ∣ i`. -/
theorem cdiv_step (i d : Nat) (hd : 0 < d) :
    (i + 1 + d - 1) / d - (i + d - 1) / d = if i % d = 0 then 1 else 0 := by
  have h1 : (i + 1 + d - 1) / d = i / d + 1 := by
    have : i + 1 + d - 1 = i + d := by omega
    rw [this, Nat.add_div_right _ hd]
  have hdm := Nat.div_add_mod i d
  have hml := Nat.mod_lt i hd
  by_cases hz : i % d = 0
  · simp only [hz, if_true]
    have : (i + d - 1) / d = i / d := by
      apply Nat.div_eq_of_lt_le
      · have : i / d * d = i := by rw [Nat.mul_comm]; omega
        omega
      · have : (i / d + 1) * d = i + d := by rw [Nat.add_mul, Nat.mul_comm]; omega
        omega
    omega
  · simp only [hz, if_false]
    have : (i + d - 1) / d = i / d + 1 := by
      apply Nat.div_eq_of_lt_le
      · have : (i / d + 1) * d = d * (i / d) + d := by rw [Nat.add_mul, Nat.mul_comm]; omega
        omega
      · have : (i / d + 1 + 1) * d = d * (i / d) + d + d := by
          rw [Nat.add_mul, Nat.add_mul, Nat.mul_comm]; omega
        omega
    omega

def Dev.step (dv : Dev) : Dev := { dv with gen := dv.gen.next.gen }
def Dev.after (dv : Dev) (n : Nat) : Dev := { dv with gen := dv.gen.after n }

theorem devLoop_live : ∀ (devs : List Dev), (∀ dv ∈ devs, dv.gen.Live) →
    devLoop devs = { res := .ok,
                     calls := devs.flatMap (fun dv => List.replicate dv.gen.next.res.count dv.id),
                     devs := devs.map Dev.step } := by
  intro devs
  induction devs with
  | nil => intro _; rfl
  | cons x rest ih =>
    intro h
    have hx : x.gen.Live := h x (by simp)
    have hr := ih (fun dv hd => h dv (by simp [hd]))
    unfold devLoop
    have hn := Gen.next_live hx
    simp only [hn, hr, List.flatMap_cons, List.map_cons, NextRes.count, Dev.step]

theorem callsOf_flat_none (id : Nat) (f : Dev → Nat) : ∀ (devs : List Dev), (∀ dv ∈ devs, dv.id ≠ id) →
    callsOf id (devs.flatMap (fun dv => List.replicate (f dv) dv.id)) = 0 := by
  intro devs
  induction devs with
  | nil => intro _; rfl
  | cons x rest ih =>
    intro h
    have hx : x.id ≠ id := h x (by simp)
    have := ih (fun dv hd => h dv (by simp [hd]))
    simp only [callsOf] at *
    simp [List.flatMap_cons, List.count_append, List.count_replicate, hx, this]

theorem callsOf_flat (f : Dev → Nat) : ∀ (devs : List Dev), devs.Pairwise (fun a b => a.id ≠ b.id) →
    ∀ dv ∈ devs, callsOf dv.id (devs.flatMap (fun dv => List.replicate (f dv) dv.id)) = f dv := by
  intro devs
  induction devs with
  | nil => intro _ dv h; simp at h
  | cons x rest ih =>
    intro hp dv hd
    rw [List.pairwise_cons] at hp
    simp only [List.mem_cons] at hd
    rcases hd with rfl | hd
    · have := callsOf_flat_none dv.id f rest (fun b hb => (hp.1 b hb).symm)
      simp only [callsOf] at *
      simp [List.flatMap_cons, List.count_append, this]
    · have hne : x.id ≠ dv.id := hp.1 dv hd
      have := ih hp.2 dv hd
      simp only [callsOf] at *
      simp [List.flatMap_cons, List.count_append, List.count_replicate, hne, this]

theorem TL.tick_live (tl : TL) (h : ∀ dv ∈ tl.devs, dv.gen.Live) :
    tl.tick = { res := .ok,
                calls := tl.devs.flatMap (fun dv => List.replicate dv.gen.next.res.count dv.id),
                tl := { tl with devs := tl.devs.map Dev.step, now := tl.now + 1 } } := by
  unfold TL.tick
  rw [devLoop_live tl.devs h]

theorem TL.after_live (tl : TL) (h : ∀ dv ∈ tl.devs, dv.gen.Live) (n : Nat) :
    tl.after n = { tl with devs := tl.devs.map (fun dv => dv.after n), now := tl.now + n } := by
  induction n with
  | zero =>
    simp only [TL.after, Dev.after, Gen.after, Nat.add_zero]
    have : tl.devs.map (fun dv : Dev => { dv with gen := dv.gen }) = tl.devs := by simp
    rw [this]
  | succ n ih =>
    simp only [TL.after]
    rw [ih]
    rw [TL.tick_live]
    · simp only [List.map_map]
      congr 1
    · intro dv hd
      simp only [List.mem_map] at hd
      obtain ⟨a, ha, rfl⟩ := hd
      exact Gen.after_live (h a ha) n

theorem TL.devTotal_live (tl : TL) (h : ∀ dv ∈ tl.devs, dv.gen.Live)
    (hp : tl.devs.Pairwise (fun a b => a.id ≠ b.id)) (n : Nat) :
    ∀ dv ∈ tl.devs, tl.devTotal dv.id n = dv.gen.total n := by
  induction n with
  | zero => intro dv _; rfl
  | succ n ih =>
    intro dv hd
    simp only [TL.devTotal, Gen.total]
    rw [ih dv hd, TL.after_live tl h n, TL.tick_live]
    · simp only
      have hp' : (tl.devs.map (fun dv => dv.after n)).Pairwise (fun a b => a.id ≠ b.id) := by
        rw [List.pairwise_map]; exact hp
      have hm : dv.after n ∈ tl.devs.map (fun dv => dv.after n) := List.mem_map_of_mem hd
      have := callsOf_flat (fun d => d.gen.next.res.count) _ hp' (dv.after n) hm
      simp only [Dev.after] at this ⊢
      rw [this]; rfl
    · intro dv hd
      simp only [List.mem_map] at hd
      obtain ⟨a, ha, rfl⟩ := hd
      exact Gen.after_live (h a ha) n

theorem Gen.after_succ' (g : Gen) (n : Nat) : g.after (n + 1) = g.next.gen.after n := by
  induction n with
  | zero => rfl
  | succ n ih => simp only [Gen.after] at ih ⊢; rw [ih]

theorem Gen.after_add (g : Gen) (a b : Nat) : g.after (a + b) = (g.after a).after b := by
  induction b with
  | zero => rfl
  | succ b ih => rw [← Nat.add_assoc]; simp only [Gen.after]; rw [ih]

theorem Gen.total_add (g : Gen) (a b : Nat) : g.total (a + b) = g.total a + (g.after a).total b := by
  induction b with
  | zero => rfl
  | succ b ih =>
    rw [← Nat.add_assoc]; simp only [Gen.total, Gen.emit]; rw [ih, Gen.after_add]; omega

theorem Gen.total_succ' (g : Gen) (n : Nat) : g.total (n + 1) = (g.emit 0).count + g.next.gen.total n := by
  have := Gen.total_add g 1 n
  rw [Nat.add_comm] at this
  rw [this]
  simp [Gen.total, Gen.after]

/-- A clock target whose `tick()` never touches the clock (does not set the tempo, stop it, or raise). -/
def KeepTarget {τ : Type} (T : Target τ) : Prop := ∀ t, (T.tick t).act = .keep

def Target.iter {τ : Type} (T : Target τ) : Nat → τ → τ
  | 0, t => t
  | n + 1, t => T.iter n (T.tick t).tgt

theorem deliver_keep {τ : Type} {T : Target τ} (hT : KeepTarget T) :
    ∀ n (s : Clk τ), deliver T n s = { s with tgt := T.iter n s.tgt, ticks := s.ticks + n } := by
  intro n
  induction n with
  | zero => intro s; rfl
  | succ n ih =>
    intro s
    unfold deliver
    simp only [hT s.tgt]
    rw [ih]
    simp only [Target.iter]
    congr 1; omega

/-- The state after one pass of the catch-up loop in which `next` gave `n` ticks and nothing was raised. -/
def pass {τ : Type} (T : Target τ) (s : Clk τ) (n : Nat) : Clk τ :=
  let s1 := deliver T n { s with gen := s.gen.next.gen, raw := s.raw + 1 }
  { s1 with c0 := s1.c0 + (s1.d : Int) }

theorem catchUp_succ_ok {τ : Type} (T : Target τ) (thr : Nat) (now : Int) (f : Nat) (s : Clk τ) (n : Nat)
    (hc : now - s.c0 ≥ (thr : Int)) (hn : s.gen.next.res = .ticks n)
    (hok : (deliver T n { s with gen := s.gen.next.gen, raw := s.raw + 1 }).res = .ok) :
    catchUp T thr now (f + 1) s = catchUp T thr now f (pass T s n) := by
  rw [catchUp]
  simp only [hc, if_true]
  split
  · rename_i n' hn'
    rw [hn] at hn'
    cases hn'
    split
    · rfl
    · rename_i hne; exact absurd hok hne
  · rename_i h; rw [hn] at h; cases h
  · rename_i h; rw [hn] at h; cases h

theorem catchUp_exit {τ : Type} (T : Target τ) (thr : Nat) (now : Int) (f : Nat) (s : Clk τ)
    (hc : ¬ now - s.c0 ≥ (thr : Int)) : catchUp T thr now f s = s := by
  cases f <;> simp [catchUp, hc]

theorem pass_keep {τ : Type} {T : Target τ} (hT : KeepTarget T) (s : Clk τ) (n : Nat) :
    (pass T s n).res = s.res ∧ (pass T s n).d = s.d ∧ (pass T s n).running = s.running ∧
    (pass T s n).raw = s.raw + 1 ∧ (pass T s n).c0 = s.c0 + (s.d : Int) ∧
    (pass T s n).gen = s.gen.next.gen ∧ (pass T s n).ticks = s.ticks + n := by
  simp [pass, deliver_keep hT]

theorem catchUp_keep {τ : Type} {T : Target τ} (hT : KeepTarget T) (d : Nat) (hd : 0 < d) (now : Int) :
    ∀ fuel (s : Clk τ), s.res = .ok → s.d = d → s.gen.Live → (now - s.c0).toNat < fuel →
      ∃ k : Nat, (catchUp T d now fuel s).res = .ok ∧ (catchUp T d now fuel s).d = d ∧
        (catchUp T d now fuel s).running = s.running ∧
        (catchUp T d now fuel s).raw = s.raw + k ∧
        (catchUp T d now fuel s).c0 = s.c0 + ((k * d : Nat) : Int) ∧
        (catchUp T d now fuel s).gen = s.gen.after k ∧
        (catchUp T d now fuel s).ticks = s.ticks + s.gen.total k ∧
        now - (catchUp T d now fuel s).c0 < (d : Int) ∧
        (k = 0 ∨ 0 ≤ now - (catchUp T d now fuel s).c0) := by
  intro fuel
  induction fuel with
  | zero => intro s _ _ _ h; omega
  | succ f ih =>
    intro s hres hsd hlive hfuel
    by_cases hc : now - s.c0 ≥ (d : Int)
    · have hn := Gen.next_live hlive
      have hnr : s.gen.next.res = .ticks ((s.gen.pos + s.gen.num - 1) / s.gen.den) := by rw [hn]
      have hok : (deliver T ((s.gen.pos + s.gen.num - 1) / s.gen.den)
          { s with gen := s.gen.next.gen, raw := s.raw + 1 }).res = .ok := by
        rw [deliver_keep hT]; exact hres
      rw [catchUp_succ_ok T d now f s _ hc hnr hok]
      obtain ⟨p1, p2, p3, p4, p5, p6, p7⟩ := pass_keep hT s ((s.gen.pos + s.gen.num - 1) / s.gen.den)
      generalize pass T s ((s.gen.pos + s.gen.num - 1) / s.gen.den) = s2 at *
      have hl2 : s2.gen.Live := by rw [p6]; exact Gen.next_live_live hlive
      obtain ⟨k, h1, h2, h3, h4, h5, h6, h7, h8, h9⟩ :=
        ih s2 (by rw [p1, hres]) (by rw [p2, hsd]) hl2 (by rw [p5]; omega)
      refine ⟨k + 1, h1, h2, by rw [h3, p3], ?_, ?_, ?_, ?_, h8, ?_⟩
      · rw [h4, p4]; omega
      · rw [h5, p5, Nat.add_mul]; omega
      · rw [h6, p6, Gen.after_succ']
      · rw [h7, p7, p6, Gen.total_succ']; simp only [Gen.emit, Gen.after, hnr, NextRes.count]; omega
      · right; rcases h9 with h9 | h9
        · subst h9; rw [h5, p5]; omega
        · exact h9
    · rw [catchUp_exit T d now _ s hc]
      refine ⟨0, hres, hsd, rfl, rfl, by simp, rfl, by simp [Gen.total], by omega, Or.inl rfl⟩

/-- `s` is a later state of the run that was in state `b`, with `M` the largest reading so far. -/
structure Rel {τ : Type} (b s : Clk τ) (M : Int) : Prop where
  res : s.res = .ok
  running : s.running = true
  d : s.d = b.d
  k : ∃ k : Nat, s.raw = b.raw + k ∧ s.c0 = b.c0 + ((k * b.d : Nat) : Int) ∧ s.gen = b.gen.after k ∧
        s.ticks = b.ticks + b.gen.total k
  lo : s.c0 ≤ M
  hi : M < s.c0 + (b.d : Int)

theorem Rel.refl {τ : Type} (b : Clk τ) (hres : b.res = .ok) (hrun : b.running = true) (hd : 0 < b.d) :
    Rel b b b.c0 :=
  { res := hres, running := hrun, d := rfl,
    k := ⟨0, rfl, by simp, rfl, by simp [Gen.total]⟩, lo := Int.le_refl _, hi := by omega }

theorem wake_rel {τ : Type} {T : Target τ} (hT : KeepTarget T) {b s : Clk τ} {M : Int}
    (hd : 0 < b.d) (hl : b.gen.Live) (h : Rel b s M) (now : Int) :
    Rel b (s.wake T now) (max M now) := by
  obtain ⟨k, k1, k2, k3, k4⟩ := h.k
  have hsl : s.gen.Live := by rw [k3]; exact Gen.after_live hl k
  unfold Clk.wake
  rw [h.res]; simp only [h.running, if_true]
  rw [h.d]
  obtain ⟨j, h1, h2, h3, h4, h5, h6, h7, h8, h9⟩ :=
    catchUp_keep hT b.d hd now ((now - s.c0).toNat + 1) s h.res h.d hsl (by omega)
  generalize catchUp T b.d now ((now - s.c0).toNat + 1) s = s' at *
  have hlo := h.lo
  have hhi := h.hi
  refine { res := h1, running := by rw [h3, h.running], d := h2, k := ⟨k + j, ?_, ?_, ?_, ?_⟩,
           lo := ?_, hi := ?_ }
  · rw [h4, k1]; omega
  · rw [h5, k2, Nat.add_mul]; omega
  · rw [h6, k3, Gen.after_add]
  · rw [h7, k4, k3, Gen.total_add]; omega
  · rcases h9 with h9 | h9
    · subst h9; rw [h5]; omega
    · omega
  · rw [h5] at h8 ⊢; omega

theorem run_rel {τ : Type} {T : Target τ} (hT : KeepTarget T) {b : Clk τ} (hd : 0 < b.d) (hl : b.gen.Live) :
    ∀ (ws : List Int) (s : Clk τ) (M : Int), Rel b s M →
      Rel b (s.run T (ws.map Ev.wake)) (ws.foldl max M) := by
  intro ws
  induction ws with
  | nil => intro s M h; exact h
  | cons w ws ih =>
    intro s M h
    simp only [List.map_cons, Clk.run, List.foldl_cons]
    exact ih _ _ (wake_rel hT hd hl h w)

theorem Rel.raw_closed {τ : Type} {b s : Clk τ} {M : Int} (hd : 0 < b.d) (h : Rel b s M) :
    s.raw = b.raw + ((M - b.c0) / (b.d : Int)).toNat ∧ s.c0 = b.c0 + ((s.raw - b.raw) * b.d : Nat) ∧
    s.gen = b.gen.after (s.raw - b.raw) ∧ s.ticks = b.ticks + b.gen.total (s.raw - b.raw) := by
  obtain ⟨k, k1, k2, k3, k4⟩ := h.k
  have hlo := h.lo
  have hhi := h.hi
  have hk : s.raw - b.raw = k := by omega
  have : (M - b.c0) / (b.d : Int) = k := by
    have e : M - b.c0 = (M - s.c0) + (k : Int) * (b.d : Int) := by
      rw [k2]; push_cast; omega
    rw [e, Int.add_mul_ediv_right _ _ (by omega), Int.ediv_eq_zero_of_lt (by omega) (by omega)]
    omega
  rw [this, hk]
  exact ⟨by rw [k1]; simp, k2, k3, k4⟩

/-- Readings that never go backwards, starting at or after `a`. -/
def Nondecreasing : Int → List Int → Prop
  | _, [] => True
  | a, w :: ws => a ≤ w ∧ Nondecreasing w ws

instance Nondecreasing.dec : ∀ (a : Int) (ws : List Int), Decidable (Nondecreasing a ws)
  | _, [] => isTrue trivial
  | a, w :: ws =>
    match Nondecreasing.dec w ws with
    | isTrue h2 => if h1 : a ≤ w then isTrue ⟨h1, h2⟩ else isFalse (fun h => h1 h.1)
    | isFalse h2 => isFalse (fun h => h2 h.2)

theorem foldl_max_nondecreasing : ∀ (ws : List Int) (a : Int), Nondecreasing a ws →
    ws.foldl max a = ws.getLastD a := by
  intro ws
  induction ws with
  | nil => intro a _; rfl
  | cons w ws ih =>
    intro a h
    simp only [List.foldl_cons, List.getLastD_cons]
    have : max a w = w := by have := h.1; omega
    rw [this, ih w h.2]

theorem Nondecreasing.append_last : ∀ (ws : List Int) (a w : Int), Nondecreasing a (ws ++ [w]) →
    Nondecreasing a ws ∧ ws.getLastD a ≤ w ∧ a ≤ ws.getLastD a ∧ (ws ++ [w]).getLastD a = w := by
  intro ws
  induction ws with
  | nil => intro a w h; exact ⟨trivial, h.1, Int.le_refl _, rfl⟩
  | cons x xs ih =>
    intro a w h
    have := ih x w h.2
    simp only [List.cons_append, List.getLastD_cons]
    exact ⟨⟨h.1, this.1⟩, this.2.1, Int.le_trans h.1 this.2.2.1, this.2.2.2⟩

/-- Once stopped (or once an exception has ended `run()`), nothing more is delivered. -/
theorem run_halted {τ : Type} (T : Target τ) : ∀ (evs : List Ev) (s : Clk τ),
    (s.running = false ∨ s.res ≠ .ok) →
    (s.run T evs).ticks = s.ticks ∧ (s.run T evs).raw = s.raw ∧ (s.run T evs).c0 = s.c0 := by
  intro evs
  induction evs with
  | nil => intro s _; exact ⟨rfl, rfl, rfl⟩
  | cons e evs ih =>
    intro s h
    simp only [Clk.run, List.foldl_cons]
    have key : (Clk.step T s e).ticks = s.ticks ∧ (Clk.step T s e).raw = s.raw ∧ (Clk.step T s e).c0 = s.c0 ∧
        ((Clk.step T s e).running = false ∨ (Clk.step T s e).res ≠ .ok) := by
      cases e with
      | wake now =>
        simp only [Clk.step, Clk.wake]
        rcases h with h | h
        · cases hr : s.res <;> simp [h, hr]
        · cases hr : s.res <;> simp_all
      | setDur d => exact ⟨rfl, rfl, rfl, h⟩
      | stop => exact ⟨rfl, rfl, rfl, Or.inl rfl⟩
    obtain ⟨a, b, c, d⟩ := key
    have := ih (Clk.step T s e) d
    simp only [Clk.run] at this
    rw [this.1, this.2.1, this.2.2, a, b, c]
    exact ⟨rfl, rfl, rfl⟩

/-- The device loop when the first incompatible device sits behind compatible ones. -/
theorem devLoop_refuse : ∀ (pre : List Dev) (bad : Dev) (post : List Dev),
    (∀ dv ∈ pre, dv.gen.Live) → bad.gen.st = .fresh → bad.gen.accepts = false →
    devLoop (pre ++ bad :: post) =
      { res := .clockError,
        calls := pre.flatMap (fun dv => List.replicate dv.gen.next.res.count dv.id),
        devs := pre.map Dev.step ++ { bad with gen := { bad.gen with st := .finished } } :: post } := by
  intro pre
  induction pre with
  | nil =>
    intro bad post _ hf ha
    simp only [List.nil_append, devLoop, Gen.next, hf, ha]
    simp
  | cons x rest ih =>
    intro bad post h hf ha
    have hx : x.gen.Live := h x (by simp)
    have hr := ih bad post (fun dv hd => h dv (by simp [hd])) hf ha
    simp only [List.cons_append]
    unfold devLoop
    have hn := Gen.next_live hx
    simp only [hn, hr, List.flatMap_cons, List.map_cons, NextRes.count, Dev.step, List.cons_append]

theorem MidiIn.run_calls (m : MidiIn) (msgs : List Msg) (h : m.hasTarget = true) :
    (m.run msgs).calls = m.calls ++ msgs.filterMap Msg.call ∧ (m.run msgs).hasTarget = true := by
  induction msgs generalizing m with
  | nil => simp [MidiIn.run, h]
  | cons x xs ih =>
    simp only [MidiIn.run, List.foldl_cons]
    have hstep : (m.recv x).hasTarget = true ∧ (m.recv x).calls = m.calls ++ (x.call).toList := by
      unfold MidiIn.recv
      cases x <;> simp [Msg.call, h] <;> (try split) <;> simp_all
    have := ih (m.recv x) hstep.1
    simp only [MidiIn.run] at this
    rw [this.1, hstep.2, List.filterMap_cons]
    refine ⟨?_, this.2⟩
    cases x.call <;> simp

theorem MidiIn.run_no_target (m : MidiIn) (msgs : List Msg) (h : m.hasTarget = false) :
    (m.run msgs).calls = m.calls ∧ (m.run msgs).hasTarget = false := by
  induction msgs generalizing m with
  | nil => simp [MidiIn.run, h]
  | cons x xs ih =>
    simp only [MidiIn.run, List.foldl_cons]
    have hstep : (m.recv x).hasTarget = false ∧ (m.recv x).calls = m.calls := by
      unfold MidiIn.recv
      cases x <;> simp [Msg.call, h] <;> (try split) <;> simp_all
    have := ih (m.recv x) hstep.1
    simp only [MidiIn.run] at this
    rw [this.1, hstep.2]; exact ⟨rfl, this.2⟩

theorem Slave.recv_clock_live (s : Slave) (h : ∀ dv ∈ s.tl.devs, dv.gen.Live) :
    s.recv .clock = { s with tl := { s.tl with devs := s.tl.devs.map Dev.step, now := s.tl.now + 1 },
                             log := s.log ++ [s.tl.devs.flatMap (fun dv => List.replicate dv.gen.next.res.count dv.id)] } := by
  simp only [Slave.recv, Msg.call]
  rw [TL.tick_live s.tl h]

theorem Slave.recv_other (s : Slave) (m : Msg) (hm : m ≠ .clock) :
    (s.recv m).tl.devs = s.tl.devs ∧ (s.recv m).log = s.log ∧ (s.recv m).errs = s.errs ∧
    (m ≠ .songpos 0 → (s.recv m).tl.now = s.tl.now) := by
  cases m with
  | clock => exact absurd rfl hm
  | songpos p =>
    simp only [Slave.recv, Msg.call]
    by_cases hp : p = 0
    · subst hp; simp [TL.reset]
    · simp [hp]
  | _ => simp [Slave.recv, Msg.call]

theorem Slave.run_live : ∀ (msgs : List Msg) (s : Slave), (∀ dv ∈ s.tl.devs, dv.gen.Live) →
    s.tl.devs.Pairwise (fun a b => a.id ≠ b.id) →
    (s.run msgs).errs = s.errs ∧
    (s.run msgs).log.length = s.log.length + msgs.count .clock ∧
    (s.run msgs).tl.devs = s.tl.devs.map (fun dv => dv.after (msgs.count .clock)) ∧
    ((∀ m ∈ msgs, m ≠ .songpos 0) → (s.run msgs).tl.now = s.tl.now + msgs.count .clock) ∧
    (∀ dv ∈ s.tl.devs, callsOf dv.id (s.run msgs).log.flatten =
        callsOf dv.id s.log.flatten + dv.gen.total (msgs.count .clock)) := by
  intro msgs
  induction msgs with
  | nil =>
    intro s _ _
    refine ⟨rfl, rfl, ?_, fun _ => rfl, fun dv _ => by simp [Slave.run, Gen.total]⟩
    simp only [Slave.run, List.foldl_nil, List.count_nil, Dev.after, Gen.after]
    simp
  | cons m ms ih =>
    intro s hl hp
    simp only [Slave.run, List.foldl_cons]
    by_cases hm : m = .clock
    · subst hm
      have hstep := Slave.recv_clock_live s hl
      have hl' : ∀ dv ∈ (s.recv .clock).tl.devs, dv.gen.Live := by
        rw [hstep]; intro dv hd
        simp only [List.mem_map] at hd
        obtain ⟨a, ha, rfl⟩ := hd
        exact Gen.next_live_live (hl a ha)
      have hp' : (s.recv .clock).tl.devs.Pairwise (fun a b => a.id ≠ b.id) := by
        rw [hstep]; simp only; rw [List.pairwise_map]; exact hp
      obtain ⟨i1, i2, i3, i4, i5⟩ := ih (s.recv .clock) hl' hp'
      simp only [Slave.run] at i1 i2 i3 i4 i5
      have hc : (Msg.clock :: ms).count .clock = ms.count .clock + 1 := by simp
      rw [hc]
      refine ⟨?_, ?_, ?_, ?_, ?_⟩
      · rw [i1, hstep]
      · rw [i2, hstep]; simp; omega
      · rw [i3, hstep]; simp only [List.map_map]
        apply List.map_congr_left
        intro dv _
        simp only [Function.comp, Dev.after, Dev.step, Gen.after_succ']
      · intro hno
        rw [i4 (fun m hm => hno m (by simp [hm])), hstep]; simp only; omega
      · intro dv hd
        have hd' : dv.step ∈ (s.recv .clock).tl.devs := by
          rw [hstep]; exact List.mem_map_of_mem hd
        have := i5 dv.step hd'
        simp only [Dev.step] at this
        rw [this, hstep]
        simp only [List.flatten_append, List.flatten_cons, List.flatten_nil, List.append_nil]
        have hc1 := callsOf_flat (fun d => d.gen.next.res.count) s.tl.devs hp dv hd
        simp only [callsOf] at hc1 ⊢
        rw [List.count_append, hc1, Gen.total_succ']
        simp only [Gen.emit, Gen.after]
        omega
    · obtain ⟨o1, o2, o3, o4⟩ := Slave.recv_other s m hm
      obtain ⟨i1, i2, i3, i4, i5⟩ := ih (s.recv m) (by rw [o1]; exact hl) (by rw [o1]; exact hp)
      simp only [Slave.run] at i1 i2 i3 i4 i5
      have hc : (m :: ms).count .clock = ms.count .clock := by
        rw [List.count_cons]; simp [hm]
      rw [hc]
      refine ⟨by rw [i1, o3], by rw [i2, o2], by rw [i3, o1], ?_, ?_⟩
      · intro hno
        rw [i4 (fun m' hm' => hno m' (by simp [hm'])), o4 (hno m (by simp))]
      · intro dv hd
        rw [i5 dv (by rw [o1]; exact hd), o2]

end IsobarV.Clock
