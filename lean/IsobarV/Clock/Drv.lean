/-
Line-protocol driver for the clock-domain model (suite `clock`).  Glue only.

input                                              output
  case <id>                                          case <id>
  mult <out> <in> <n>                                mult|<rle of the n results of next()>          (number | E = ClockException | S = StopIteration)
  accept <in> <maxOut>                               accept|<in>|<outs in 1..maxOut whose first next() does not raise>
  tl <tpb> <devTpb>*                                 (none)      timeline with devices (0 = device without a clock rate)
  tltick <n>                                         tl|<rle of tick results>|<now>|<rle of per-tick counts of dev0>;<dev1>;…
  clk <t0> <d> <genOut> <genIn> <tlTpb> <devTpb>*    (none)      clock; its target is a timeline (tlTpb, devices)
  script <j>:<act> …                                 (none)      act of the target's j-th tick: d<units> | stop | raise
  ev wake <now> | ev dur <d> | ev stop               c|<target ticks>|<res>|<running>|<d>|<cumulative device ticks dev0>;<dev1>;…
  midiin <hasTarget> <hasCallback>                   (none)
  slave <tpb> <devTpb>*                              (none)
  msg clock [<dt>]|start|stop|songpos <p>|note <id>|other   (none)   (<dt>: wall-clock advance since the previous clock message, harness only)
  mend                                               midi|<calls t/s/p/r>|<queue>|<callback>   (when a midiin exists)
                                                     slave|<now>|<errs>|<rle of per-tick counts of dev0>;<dev1>;…    (when a slave exists)
times and durations are integers in the harness's unit.
-/
import IsobarV.Clock.Model
import IsobarV.Util.Parse

namespace IsobarV.Clock.Drv
open IsobarV.Clock IsobarV.Util

def rle (xs : List String) : String :=
  let rec go : List String → Option (String × Nat) → List String → List String
    | [], none, acc => acc.reverse
    | [], some (v, k), acc => (s!"{v}*{k}" :: acc).reverse
    | x :: xs, none, acc => go xs (some (x, 1)) acc
    | x :: xs, some (v, k), acc => if x == v then go xs (some (v, k + 1)) acc else go xs (some (x, 1)) (s!"{v}*{k}" :: acc)
  joinWith "," (go xs none [])

def showNext : NextRes → String
  | .ticks n => toString n
  | .clockError => "E"
  | .stopIteration => "S"

def showRes : Res → String
  | .ok => "ok" | .clockError => "clock" | .stopIteration => "stop" | .raised => "raised" | .diverged => "diverged"

def multRun (g : Gen) (n : Nat) : List String := Id.run do
  let mut g := g
  let mut out : Array String := #[]
  for _ in [0:n] do
    let st := g.next
    out := out.push (showNext st.res)
    g := st.gen
  return out.toList

def mkTL (tpb : Nat) (devs : List String) : TL :=
  devs.foldl (fun tl d => tl.addDevice (toNat! d)) { tpb := tpb }

structure TLRun where
  tl : TL
  res : Array String := #[]
  per : Array (Array String) := #[]

def tlRun (tl : TL) (n : Nat) : TLRun := Id.run do
  let nd := tl.devs.length
  let mut r : TLRun := { tl := tl, per := Array.replicate nd #[] }
  for _ in [0:n] do
    let t := r.tl.tick
    let mut per := r.per
    for i in [0:nd] do
      per := per.modify i (fun a => a.push (toString (callsOf i t.calls)))
    r := { tl := t.tl, res := r.res.push (showRes t.res), per := per }
  return r

def showPer (per : Array (Array String)) : String :=
  joinWith ";" (per.toList.map (fun a => rle a.toList))

def parseAct (s : String) : Act :=
  if s == "stop" then .stop
  else if s == "raise" then .raise .raised
  else if s.startsWith "d" then .setDur (toNat! (s.drop 1).toString)
  else .keep

def parseScript (ws : List String) : List (Nat × Act) :=
  ws.filterMap (fun w => match w.splitOn ":" with
    | [j, a] => some (toNat! j, parseAct a)
    | _ => none)

def scriptFn (sc : List (Nat × Act)) (j : Nat) : Act :=
  match sc.find? (fun p => p.1 == j) with
  | some p => p.2
  | none => .keep

structure St where
  tl : Option TL := none
  clk : Option (Clk TLTgt) := none
  script : List (Nat × Act) := []
  midi : Option MidiIn := none
  slave : Option Slave := none

def parseMsg : List String → Msg
  | "clock" :: _ => .clock      -- `msg clock <dt>`: the wall-clock advance is used by the harness only
  | ["start"] => .start
  | ["stop"] => .stop
  | ["songpos", p] => .songpos (toNat! p)
  | ["note", i] => .note (toNat! i)
  | _ => .other

def showCall : TCall → String
  | .tick => "t" | .start => "s" | .stop => "p" | .reset => "r"

def parseEv : List String → Option Ev
  | ["wake", t] => some (.wake (toInt! t))
  | ["dur", d] => some (.setDur (toNat! d))
  | ["stop"] => some .stop
  | _ => none

def clkLine (c : Clk TLTgt) : String :=
  let nd := c.tgt.tl.devs.length
  let counts := (List.range nd).map (fun i => toString (callsOf i c.tgt.calls))
  s!"c|{c.ticks}|{showRes c.res}|{if c.running then 1 else 0}|{c.d}|{joinWith ";" counts}"

def slaveLine (s : Slave) : String :=
  let nd := s.tl.devs.length
  let per := (List.range nd).map (fun i => rle (s.log.map (fun calls => toString (callsOf i calls))))
  s!"slave|{s.tl.now}|{joinWith "," (s.errs.map showRes)}|{joinWith ";" per}"

def handle (s : St) (line : String) : IO St := do
  match words line with
  | ["case", id] => IO.println s!"case {id}"; return {}
  | ["mult", o, i, n] =>
    IO.println s!"mult|{rle (multRun (Gen.mk' (toNat! o) (toNat! i)) (toNat! n))}"; return s
  | ["accept", i, mx] =>
    let inn := toNat! i
    let outs := (List.range (toNat! mx)).filterMap (fun k =>
      if (Gen.mk' (k + 1) inn).next.res != .clockError then some (toString (k + 1)) else none)
    IO.println s!"accept|{inn}|{joinWith " " outs}"; return s
  | "tl" :: tpb :: devs => return { s with tl := some (mkTL (toNat! tpb) devs) }
  | ["tltick", n] =>
    match s.tl with
    | some tl =>
      let r := tlRun tl (toNat! n)
      IO.println s!"tl|{rle r.res.toList}|{r.tl.now}|{showPer r.per}"
      return { s with tl := some r.tl }
    | none => IO.println "bad-line no tl"; return s
  | "clk" :: t0 :: d :: go :: gi :: tpb :: devs =>
    let tl := mkTL (toNat! tpb) devs
    return { s with clk := some (Clk.init (toInt! t0) (toNat! d) (Gen.mk' (toNat! go) (toNat! gi)) { tl := tl }) }
  | "script" :: ws => return { s with script := parseScript ws }
  | "ev" :: rest =>
    match s.clk, parseEv rest with
    | some c, some e =>
      let c' := Clk.step (tlTarget (scriptFn s.script)) c e
      IO.println (clkLine c')
      return { s with clk := some c' }
    | _, _ => IO.println s!"bad-line {line}"; return s
  | ["midiin", t, c] => return { s with midi := some { hasTarget := toBool! t, hasCallback := toBool! c } }
  | "slave" :: tpb :: devs => return { s with slave := some { tl := mkTL (toNat! tpb) devs } }
  | "msg" :: rest =>
    let m := parseMsg rest
    return { s with midi := s.midi.map (fun x => x.recv m), slave := s.slave.map (fun x => x.recv m) }
  | ["mend"] =>
    match s.midi with
    | some m =>
      IO.println s!"midi|{joinWith "" (m.calls.map showCall)}|{joinWith "," (m.queue.map toString)}|{joinWith "," (m.cbCalls.map toString)}"
    | none => pure ()
    match s.slave with
    | some sl => IO.println (slaveLine sl)
    | none => pure ()
    return s
  | [] => return s
  | _ => IO.println s!"bad-line {line}"; return s

def main : IO Unit := do
  let stdin ← IO.getStdin
  let _ ← foldLines stdin ({} : St) handle
  return ()

end IsobarV.Clock.Drv
