/-
Small parsing / printing helpers shared by the line-protocol drivers (driver glue only: nothing here
is referred to by a theorem).
-/
namespace IsobarV.Util

def words (s : String) : List String :=
  (s.splitOn " ").filter (fun w => w ≠ "")

def trimLine (s : String) : String :=
  let s := if s.endsWith "\n" then (s.dropEnd 1).toString else s
  if s.endsWith "\r" then (s.dropEnd 1).toString else s

def toInt! (s : String) : Int := s.toInt?.getD 0
def toNat! (s : String) : Nat := s.toNat?.getD 0
def toBool! (s : String) : Bool := s == "1"
def toOptNat (s : String) : Option Nat := if s == "-" then none else s.toNat?

def joinWith (sep : String) (xs : List String) : String := sep.intercalate xs

/-- Read stdin line by line until EOF, threading a state. -/
partial def foldLines {σ : Type} (h : IO.FS.Stream) (s : σ) (f : σ → String → IO σ) : IO σ := do
  let line ← h.getLine
  if line.isEmpty then return s
  let s' ← f s (trimLine line)
  foldLines h s' f

end IsobarV.Util
