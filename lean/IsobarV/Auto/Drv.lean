/-
Line-protocol driver for the automation / LFO model (suite `auto`).  Glue only.

input (numbers are integers or `n/d` rationals; `-` = None):
  case <id>
  tpb <n>
  auto <aid> <lo|-> <hi|-> <clip|wrap> <initial|-> <default_duration>
  bind <aid> <sink> [attr|method]       (the mode is ignored by the model)
  moveto <aid> <target> <dur|-> <env>
  moveby <aid> <value> <dur|-> <env>
  jump <aid> <value>
  lfo <lid> <freq> <min> <max>
  lbind <lid> <sink>
  tick <n>
  end
output:
  case <id>
  auto|<value>            bind|<sink>=<value>        move|ok|<nmods>  /  move|raised|<nmods>
  jump|<value>|<events>   lfo|<value>                lbind
  one line per tick:  <k>|<aid>:<value>:<current_value>:<nmods> ...|<lid>:<value> ...|<sink>=<value>,...
  end
The LFO waveform is instantiated with the C library's `sin` (to 2⁻⁵² absolute) only to produce numbers
comparable with the implementation's floats.
-/
import IsobarV.Auto.Model
import IsobarV.Util.Parse

namespace IsobarV.Auto.Drv
open IsobarV.Auto IsobarV.Util

def parseRat (s : String) : Rat :=
  match s.splitOn "/" with
  | [n] => ((toInt! n : Int) : Rat)
  | [n, d] => mkRat (toInt! n) (toNat! d)
  | _ => 0

def parseOptRat (s : String) : Option Rat := if s == "-" then none else some (parseRat s)

def ratToFloat (r : Rat) : Float := Float.ofInt r.num / Float.ofNat r.den

/-- a float in [-1, 1] as a rational, to 2⁻⁵² absolute -/
def unitFloatToRat (y : Float) : Rat :=
  let n := ((y + 1.0) * 4503599627370496.0).round.toUInt64.toNat
  mkRat n 4503599627370496 - 1

/-- `math.sin(math.pi * 2 * x)` -/
def sineW (x : Rat) : Rat := unitFloatToRat (Float.sin (3.141592653589793 * 2.0 * ratToFloat x))

structure St where
  tpb : Nat := 1
  autos : Array Automation := #[]
  lfos : Array LFO := #[]
  k : Nat := 0
  deriving Inhabited

def showEvents (es : List Event) : String :=
  joinWith "," (es.map (fun e => s!"{e.sink}={e.value}"))

def setAt {α : Type} [Inhabited α] (xs : Array α) (i : Nat) (x : α) : Array α :=
  let xs := if xs.size ≤ i then xs ++ Array.replicate (i + 1 - xs.size) default else xs
  xs.set! i x

def tickOnce (s : St) : IO St := do
  let mut evs : List Event := []
  let mut lfos := s.lfos
  let mut ls : List String := []
  for i in [0:lfos.size] do
    let r := (lfos[i]!).tick sineW s.tpb
    lfos := lfos.set! i r.lfo
    evs := evs ++ r.events
    ls := ls ++ [s!"{i}:{r.lfo.value}"]
  let mut autos := s.autos
  let mut as : List String := []
  for i in [0:autos.size] do
    let r := (autos[i]!).tick
    autos := autos.set! i r.auto
    evs := evs ++ r.events
    as := as ++ [s!"{i}:{r.auto.value}:{r.auto.current}:{r.auto.mods.length}"]
  IO.println s!"{s.k}|{joinWith " " as}|{joinWith " " ls}|{showEvents evs}"
  return { s with lfos := lfos, autos := autos, k := s.k + 1 }

partial def tickMany (s : St) (n : Nat) : IO St := do
  if n = 0 then return s
  let s' ← tickOnce s
  tickMany s' (n - 1)

def handle (s : St) (line : String) : IO St := do
  match words line with
  | ["case", id] => IO.println s!"case {id}"; return {}
  | ["tpb", n] => return { s with tpb := toNat! n }
  | ["auto", aid, lo, hi, bnd, init, dd] =>
    let range : Option Range := match parseOptRat lo, parseOptRat hi with
      | some l, some h => some ⟨l, h⟩
      | _, _ => none
    let a := Automation.new range (if bnd == "wrap" then .wrap else .clip) (parseOptRat init) (parseRat dd)
    IO.println s!"auto|{a.value}"
    return { s with autos := setAt s.autos (toNat! aid) a }
  | "bind" :: aid :: sink :: _ =>
    let i := toNat! aid
    let r := (s.autos[i]!).bindTo (toNat! sink)
    IO.println s!"bind|{showEvents r.events}"
    return { s with autos := s.autos.set! i r.auto }
  | ["moveto", aid, target, dur, env] =>
    let i := toNat! aid
    let r := (s.autos[i]!).moveTo s.tpb (parseRat target) (parseOptRat dur) (parseRat env)
    IO.println s!"move|{if r.raised then "raised" else "ok"}|{r.auto.mods.length}"
    return { s with autos := s.autos.set! i r.auto }
  | ["moveby", aid, value, dur, env] =>
    let i := toNat! aid
    let r := (s.autos[i]!).moveBy s.tpb (parseRat value) (parseOptRat dur) (parseRat env)
    IO.println s!"move|{if r.raised then "raised" else "ok"}|{r.auto.mods.length}"
    return { s with autos := s.autos.set! i r.auto }
  | ["jump", aid, v] =>
    let i := toNat! aid
    let r := (s.autos[i]!).jumpTo (parseRat v)
    IO.println s!"jump|{r.auto.value}|{showEvents r.events}"
    return { s with autos := s.autos.set! i r.auto }
  | ["lfo", lid, f, mn, mx] =>
    let l : LFO := { freq := parseRat f, min := parseRat mn, max := parseRat mx }
    IO.println s!"lfo|{l.value}"
    return { s with lfos := setAt s.lfos (toNat! lid) l }
  | ["lbind", lid, sink] =>
    let i := toNat! lid
    IO.println "lbind"
    return { s with lfos := s.lfos.set! i ((s.lfos[i]!).bind (toNat! sink)) }
  | ["tick", n] => tickMany s (toNat! n)
  | ["end"] => IO.println "end"; return s
  | [] => return s
  | _ => IO.println s!"bad-line {line}"; return s

def main : IO Unit := do
  let stdin ← IO.getStdin
  let _ ← foldLines stdin ({} : St) handle
  return ()

end IsobarV.Auto.Drv
