/-
Helper lemmas for the automation / LFO model (used by `IsobarV/Props/C18.lean`).
-/
import IsobarV.Auto.Model
import Mathlib.Data.Rat.Floor
import Mathlib.Tactic.Linarith
import Mathlib.Tactic.Positivity

namespace IsobarV.Auto

/-! ### sums -/

theorem sumRat_append (l₁ l₂ : List Rat) : sumRat (l₁ ++ l₂) = sumRat l₁ + sumRat l₂ := by
  induction l₁ with
  | nil => simp [sumRat]
  | cons x xs ih => simp [sumRat, ih]; ring

theorem sumRat_map_div (l : List Rat) (c : Rat) : sumRat (l.map (fun x => x / c)) = sumRat l / c := by
  induction l with
  | nil => simp [sumRat]
  | cons x xs ih => simp only [List.map_cons, sumRat, ih]; ring

theorem sumRat_nonneg (l : List Rat) (h : ∀ x ∈ l, 0 ≤ x) : 0 ≤ sumRat l := by
  induction l with
  | nil => simp [sumRat]
  | cons x xs ih =>
    have h1 := h x (by simp)
    have h2 := ih (fun y hy => h y (by simp [hy]))
    simp only [sumRat]; linarith

theorem le_sumRat_of_mem (l : List Rat) (h : ∀ x ∈ l, 0 ≤ x) (x : Rat) (hx : x ∈ l) : x ≤ sumRat l := by
  induction l with
  | nil => simp at hx
  | cons y ys ih =>
    have hy := h y (by simp)
    have hys : ∀ z ∈ ys, 0 ≤ z := fun z hz => h z (by simp [hz])
    have hs := sumRat_nonneg ys hys
    simp only [sumRat]
    rcases List.mem_cons.mp hx with rfl | hx'
    · linarith
    · have := ih hys hx'; linarith

/-! ### the envelope -/

theorem rampIn_bounds (e i : Nat) (h : i < e) : 0 ≤ rampIn e i ∧ rampIn e i ≤ 1 := by
  unfold rampIn
  split
  · simp
  · rename_i h1
    have he : (0 : Rat) < ((e - 1 : Nat) : Rat) := by
      have : 0 < e - 1 := by omega
      exact_mod_cast this
    have hi : (i : Rat) ≤ ((e - 1 : Nat) : Rat) := by
      have : i ≤ e - 1 := by omega
      exact_mod_cast this
    have h0 : (0 : Rat) ≤ (i : Rat) := by positivity
    constructor
    · positivity
    · rw [div_le_one he]; exact hi

theorem rampOut_bounds (e i : Nat) (h : i < e) : 0 ≤ rampOut e i ∧ rampOut e i ≤ 1 := by
  unfold rampOut
  split
  · simp
  · rename_i h1
    have he : (0 : Rat) < ((e - 1 : Nat) : Rat) := by
      have : 0 < e - 1 := by omega
      exact_mod_cast this
    have hi : (i : Rat) ≤ ((e - 1 : Nat) : Rat) := by
      have : i ≤ e - 1 := by omega
      exact_mod_cast this
    have h0 : (0 : Rat) ≤ (i : Rat) := by positivity
    have h1 : (i : Rat) / ((e - 1 : Nat) : Rat) ≤ 1 := by rw [div_le_one he]; exact hi
    have h2 : 0 ≤ (i : Rat) / ((e - 1 : Nat) : Rat) := by positivity
    constructor <;> linarith

theorem rampOut_zero (e : Nat) : rampOut e 0 = 1 := by
  unfold rampOut; split <;> simp

theorem rawAt_bounds (T e i : Nat) (he : e ≤ T) (hi : i < T) : 0 ≤ rawAt T e i ∧ rawAt T e i ≤ 1 := by
  unfold rawAt
  split
  · exact rampOut_bounds e _ (by omega)
  · split
    · exact rampIn_bounds e i (by assumption)
    · simp

theorem rawEnvelope_length (T e : Nat) : (rawEnvelope T e).length = T := by simp [rawEnvelope]

theorem rawEnvelope_nonneg (T e : Nat) (he : e ≤ T) : ∀ x ∈ rawEnvelope T e, 0 ≤ x := by
  intro x hx
  simp only [rawEnvelope, List.mem_map, List.mem_range] at hx
  obtain ⟨i, hi, rfl⟩ := hx
  exact (rawAt_bounds T e i he hi).1

/-- The raw envelope always contains a 1 (the leading 1 of the ramp-out, or any entry when there is no ramp). -/
theorem one_mem_rawEnvelope (T e : Nat) (hT : 0 < T) (he : e ≤ T) : (1 : Rat) ∈ rawEnvelope T e := by
  simp only [rawEnvelope, List.mem_map, List.mem_range]
  by_cases h0 : e = 0
  · refine ⟨0, hT, ?_⟩
    subst h0
    unfold rawAt
    rw [if_neg (by omega), if_neg (by omega)]
  · refine ⟨T - e, by omega, ?_⟩
    unfold rawAt
    simp [rampOut_zero]

theorem rawEnvelope_sum_pos (T e : Nat) (hT : 0 < T) (he : e ≤ T) : 1 ≤ sumRat (rawEnvelope T e) :=
  le_sumRat_of_mem _ (rawEnvelope_nonneg T e he) 1 (one_mem_rawEnvelope T e hT he)

theorem meanPerTick_pos (T e : Nat) (hT : 0 < T) (he : e ≤ T) : 0 < meanPerTick T e := by
  unfold meanPerTick
  have h1 := rawEnvelope_sum_pos T e hT he
  have hT' : (0 : Rat) < (T : Rat) := by exact_mod_cast hT
  have : T ≠ 0 := by omega
  simp only [this, if_false]
  apply div_pos <;> linarith

theorem envelope_length (T e : Nat) : (envelope T e).length = T := by
  simp [envelope, rawEnvelope_length]

theorem envelope_nonneg' (T e : Nat) (he : e ≤ T) : ∀ x ∈ envelope T e, 0 ≤ x := by
  intro x hx
  simp only [envelope, List.mem_map] at hx
  obtain ⟨y, hy, rfl⟩ := hx
  have hy0 := rawEnvelope_nonneg T e he y hy
  rcases Nat.eq_zero_or_pos T with h0 | hT
  · subst h0; simp [rawEnvelope] at hy
  · have := meanPerTick_pos T e hT he
    positivity

theorem envelope_sum' (T e : Nat) (he : e ≤ T) : sumRat (envelope T e) = (T : Rat) := by
  rcases Nat.eq_zero_or_pos T with h0 | hT
  · subst h0; simp [envelope, rawEnvelope, sumRat]
  · have hs := rawEnvelope_sum_pos T e hT he
    have hT' : (0 : Rat) < (T : Rat) := by exact_mod_cast hT
    have hne : T ≠ 0 := by omega
    simp only [envelope, sumRat_map_div, meanPerTick, hne, if_false]
    have : sumRat (rawEnvelope T e) ≠ 0 := by linarith
    field_simp

/-! ### one modulation -/

/-- What a running modulation will still add to the value. -/
def Modulation.rem (m : Modulation) : Rat :=
  m.dpt * (if m.dur = 0 then 1 else sumRat (m.env.env.drop m.cur))

/-- Number of ticks after which a running modulation is finished (and removed). -/
def Modulation.left (m : Modulation) : Nat := if m.dur = 0 then 1 else m.dur - m.cur

/-- The states a modulation can be in while it is in `Automation.modulations`. -/
structure Modulation.WF (m : Modulation) : Prop where
  notFin : m.finished = false
  envNotFin : m.env.finished = false
  total : m.env.total = m.dur
  len : m.env.env.length = m.dur
  curEq : m.env.cur = m.cur
  curLt : m.cur < m.dur ∨ (m.dur = 0 ∧ m.cur = 0)

/-- The modulation pushes the value in direction `s` (`s = 1`: up, `s = -1`: down). -/
def Modulation.Dir (s : Rat) (m : Modulation) : Prop := 0 ≤ s * m.dpt ∧ ∀ x ∈ m.env.env, 0 ≤ x

theorem Modulation.WF.left_pos {m : Modulation} (h : m.WF) : 1 ≤ m.left := by
  unfold Modulation.left
  rcases h.curLt with h1 | ⟨h1, _⟩
  · split <;> omega
  · simp [h1]

theorem drop_eq_getD_cons (l : List Rat) (n : Nat) (h : n < l.length) :
    l.drop n = l.getD n 0 :: l.drop (n + 1) := by
  rw [List.drop_eq_getElem_cons h]
  simp [List.getD, List.getElem?_eq_getElem h]

theorem getD_mem_or (l : List Rat) (n : Nat) (h : n < l.length) : l.getD n 0 ∈ l := by
  simp [List.getD, List.getElem?_eq_getElem h]

theorem Modulation.rem_dir {s : Rat} {m : Modulation} (hd : m.Dir s) : 0 ≤ s * m.rem := by
  unfold Modulation.rem
  have h1 : 0 ≤ (if m.dur = 0 then (1 : Rat) else sumRat (m.env.env.drop m.cur)) := by
    split
    · norm_num
    · exact sumRat_nonneg _ (fun x hx => hd.2 x (List.mem_of_mem_drop hx))
  have := mul_nonneg hd.1 h1
  linarith [this, mul_assoc s m.dpt (if m.dur = 0 then (1 : Rat) else sumRat (m.env.env.drop m.cur))]

/-- One tick of a well-formed modulation. -/
theorem Modulation.tick_spec (m : Modulation) (h : m.WF) :
    ((m.tick).mod.finished = true ↔ m.left = 1) ∧
    ((m.tick).mod.finished = true → (m.tick).delta = m.rem) ∧
    ((m.tick).mod.finished = false →
        (m.tick).mod.WF ∧ (m.tick).mod.left + 1 = m.left ∧ (m.tick).delta + (m.tick).mod.rem = m.rem) ∧
    (∀ s, m.Dir s → 0 ≤ s * (m.tick).delta ∧ (m.tick).mod.Dir s) := by
  obtain ⟨hnf, henf, htot, hlen, hcur, hlt⟩ := h
  rcases hlt with hlt | ⟨hd0, hc0⟩
  · -- running: cur < dur
    have hne : m.dur ≠ 0 := by omega
    have hlen0 : ¬ (m.env.env.length = 0) := by omega
    have hE : m.env.tick = ⟨m.env.env.getD m.cur 0,
        { m.env with cur := m.cur + 1, finished := decide (m.dur ≤ m.cur + 1) }⟩ := by
      simp [Envelope.tick, henf, hlen0, hcur, htot]
    have hdrop := drop_eq_getD_cons m.env.env m.cur (by omega)
    refine ⟨?_, ?_, ?_, ?_⟩
    · simp only [Modulation.tick, Modulation.left, hne, if_false, hnf]
      constructor
      · intro hf
        by_cases hc : m.dur ≤ m.cur + 1
        · omega
        · simp [hc] at hf
      · intro hl
        have : m.dur ≤ m.cur + 1 := by omega
        simp [this]
    · intro hf
      have hc : m.dur ≤ m.cur + 1 := by
        by_cases hc : m.dur ≤ m.cur + 1
        · exact hc
        · simp [Modulation.tick, hc, hnf] at hf
      have hd1 : m.env.env.drop (m.cur + 1) = [] := List.drop_eq_nil_of_le (by omega)
      simp only [Modulation.tick, hE, Modulation.rem, hne, if_false, hdrop, hd1, sumRat]
      ring
    · intro hf
      have hc : ¬ (m.dur ≤ m.cur + 1) := by
        intro hc
        simp [Modulation.tick, hc] at hf
      refine ⟨⟨?_, ?_, ?_, ?_, ?_, ?_⟩, ?_, ?_⟩
      · simp [Modulation.tick, hc, hnf]
      · simp [Modulation.tick, hE, hc]
      · simp [Modulation.tick, hE, htot]
      · simp [Modulation.tick, hE, hlen]
      · simp [Modulation.tick, hE]
      · left; simp only [Modulation.tick]; omega
      · simp only [Modulation.tick, Modulation.left, hne, if_false]; omega
      · simp only [Modulation.tick, hE, Modulation.rem, hne, if_false, hdrop, sumRat]
        ring
    · intro s hs
      have hmem : m.env.env.getD m.cur 0 ∈ m.env.env := getD_mem_or _ _ (by omega)
      have h0 := hs.2 _ hmem
      constructor
      · simp only [Modulation.tick, hE]
        have := mul_nonneg hs.1 h0
        linarith [mul_assoc s m.dpt (m.env.env.getD m.cur 0)]
      · exact ⟨by simpa [Modulation.tick] using hs.1, by simpa [Modulation.tick, hE] using hs.2⟩
  · -- zero duration: finished on its first tick, adds delta_per_tick once
    have hlen0 : m.env.env.length = 0 := by omega
    have hE : m.env.tick = ⟨1, m.env⟩ := by simp [Envelope.tick, henf, hlen0]
    have hfin : (m.tick).mod.finished = true := by simp [Modulation.tick, hd0]
    refine ⟨?_, ?_, ?_, ?_⟩
    · simp [hfin, Modulation.left, hd0]
    · intro _; simp [Modulation.tick, hE, Modulation.rem, hd0]
    · intro hf; rw [hfin] at hf; cases hf
    · intro s hs
      constructor
      · simp only [Modulation.tick, hE, mul_one]; exact hs.1
      · exact ⟨by simpa [Modulation.tick] using hs.1, by simpa [Modulation.tick, hE] using hs.2⟩

/-! ### the list of running modulations -/

/-- What all running modulations together will still add. -/
def pending : List Modulation → Rat
  | [] => 0
  | m :: ms => m.rem + pending ms

theorem pending_append (l₁ l₂ : List Modulation) : pending (l₁ ++ l₂) = pending l₁ + pending l₂ := by
  induction l₁ with
  | nil => simp [pending]
  | cons x xs ih => simp [pending, ih]; ring

theorem pending_dir {s : Rat} (ms : List Modulation) (h : ∀ m ∈ ms, m.Dir s) : 0 ≤ s * pending ms := by
  induction ms with
  | nil => simp [pending]
  | cons m ms ih =>
    have h1 := Modulation.rem_dir (h m (by simp))
    have h2 := ih (fun x hx => h x (by simp [hx]))
    simp only [pending]; linarith [mul_add s m.rem (pending ms)]

theorem tickMods_spec (ms : List Modulation) (h : ∀ m ∈ ms, m.WF) :
    (tickMods ms).delta + pending (tickMods ms).mods = pending ms ∧
    (∀ m ∈ (tickMods ms).mods, m.WF) ∧
    (∀ k, (∀ m ∈ ms, m.left ≤ k + 1) → ∀ m ∈ (tickMods ms).mods, m.left ≤ k) ∧
    (∀ s, (∀ m ∈ ms, m.Dir s) → 0 ≤ s * (tickMods ms).delta ∧ ∀ m ∈ (tickMods ms).mods, m.Dir s) := by
  induction ms with
  | nil => simp [tickMods, pending]
  | cons m ms ih =>
    have hm := h m (by simp)
    obtain ⟨i1, i2, i3, i4⟩ := ih (fun x hx => h x (by simp [hx]))
    obtain ⟨t1, t2, t3, t4⟩ := Modulation.tick_spec m hm
    by_cases hf : (m.tick).mod.finished = true
    · have hd := t2 hf
      refine ⟨?_, ?_, ?_, ?_⟩
      · simp only [tickMods, hf, if_true, pending]; linarith
      · simpa [tickMods, hf] using i2
      · intro k hk
        simpa [tickMods, hf] using i3 k (fun x hx => hk x (by simp [hx]))
      · intro s hs
        have a1 := t4 s (hs m (by simp))
        have a2 := i4 s (fun x hx => hs x (by simp [hx]))
        refine ⟨?_, by simpa [tickMods, hf] using a2.2⟩
        simp only [tickMods]; linarith [mul_add s (m.tick).delta (tickMods ms).delta, a1.1, a2.1]
    · have hf' : (m.tick).mod.finished = false := by simpa using hf
      obtain ⟨w1, w2, w3⟩ := t3 hf'
      refine ⟨?_, ?_, ?_, ?_⟩
      · simp only [tickMods, hf', pending]; simp only [Bool.false_eq_true, if_false, pending]; linarith
      · intro x hx
        simp only [tickMods, hf', Bool.false_eq_true, if_false, List.mem_cons] at hx
        rcases hx with rfl | hx
        · exact w1
        · exact i2 x hx
      · intro k hk x hx
        simp only [tickMods, hf', Bool.false_eq_true, if_false, List.mem_cons] at hx
        rcases hx with rfl | hx
        · have := hk m (by simp); omega
        · exact i3 k (fun y hy => hk y (by simp [hy])) x hx
      · intro s hs
        have a1 := t4 s (hs m (by simp))
        have a2 := i4 s (fun x hx => hs x (by simp [hx]))
        refine ⟨?_, ?_⟩
        · simp only [tickMods]; linarith [mul_add s (m.tick).delta (tickMods ms).delta, a1.1, a2.1]
        · intro x hx
          simp only [tickMods, hf', Bool.false_eq_true, if_false, List.mem_cons] at hx
          rcases hx with rfl | hx
          · exact a1.2
          · exact a2.2 x hx

/-! ### the automation -/

/-- Every running modulation is in a state the code can reach. -/
def Automation.WF (a : Automation) : Prop := ∀ m ∈ a.mods, m.WF

/-- Where the automation is heading: the current value plus everything the running modulations still add. -/
def Automation.goal (a : Automation) : Rat := a.current + pending a.mods

/-- Every running modulation finishes within `k` ticks. -/
def Automation.Within (a : Automation) (k : Nat) : Prop := ∀ m ∈ a.mods, m.left ≤ k

/-- Every running modulation pushes in direction `s`. -/
def Automation.Dir (a : Automation) (s : Rat) : Prop := ∀ m ∈ a.mods, m.Dir s

theorem Automation.Within.mono {a : Automation} {k k' : Nat} (h : a.Within k) (hk : k ≤ k') : a.Within k' :=
  fun m hm => Nat.le_trans (h m hm) hk

theorem Automation.mods_nil_of_within_zero {a : Automation} (h : a.WF) (h0 : a.Within 0) : a.mods = [] := by
  cases hm : a.mods with
  | nil => rfl
  | cons m ms =>
    have h1 := (h m (by simp [hm])).left_pos
    have h2 := h0 m (by simp [hm])
    omega

theorem Automation.jumpTo_auto (a : Automation) (v : Rat) : (a.jumpTo v).auto = { a with current := v } := rfl

/-- The parts of the state a tick may change. -/
theorem Automation.tick_auto (a : Automation) :
    (a.tick).auto = { a with ticks := a.ticks + 1, mods := (tickMods a.mods).mods,
                             current := a.current + (tickMods a.mods).delta } := by
  unfold Automation.tick
  by_cases h : a.current + (tickMods a.mods).delta ≠ a.current
  · simp [h, Automation.jumpTo]
  · have h' : a.current + (tickMods a.mods).delta = a.current := by simpa using h
    simp [h']

theorem Automation.tick_spec (a : Automation) (h : a.WF) :
    (a.tick).auto.WF ∧ (a.tick).auto.goal = a.goal ∧
    (∀ k, a.Within (k + 1) → (a.tick).auto.Within k) ∧
    (∀ s, a.Dir s → (a.tick).auto.Dir s ∧ 0 ≤ s * ((a.tick).auto.current - a.current)) := by
  obtain ⟨t1, t2, t3, t4⟩ := tickMods_spec a.mods h
  rw [Automation.tick_auto]
  refine ⟨t2, ?_, t3, ?_⟩
  · simp only [Automation.goal]; linarith
  · intro s hs
    obtain ⟨d1, d2⟩ := t4 s hs
    refine ⟨d2, ?_⟩
    simp only [add_sub_cancel_left]; exact d1

theorem Automation.tickN_succ_right (n : Nat) (a : Automation) :
    (Automation.tickN (n + 1) a).auto = ((Automation.tickN n a).auto.tick).auto := by
  induction n generalizing a with
  | zero => simp [Automation.tickN]
  | succ n ih =>
    have := ih (a.tick).auto
    simp only [Automation.tickN] at this ⊢
    exact this

theorem Automation.tickN_spec (n : Nat) (a : Automation) (h : a.WF) :
    (Automation.tickN n a).auto.WF ∧ (Automation.tickN n a).auto.goal = a.goal ∧
    (∀ k, a.Within (k + n) → (Automation.tickN n a).auto.Within k) ∧
    (∀ s, a.Dir s → (Automation.tickN n a).auto.Dir s) := by
  induction n with
  | zero => exact ⟨h, rfl, fun k hk => hk, fun s hs => hs⟩
  | succ n ih =>
    obtain ⟨i1, i2, i3, i4⟩ := ih
    obtain ⟨t1, t2, t3, t4⟩ := Automation.tick_spec _ i1
    rw [Automation.tickN_succ_right]
    refine ⟨t1, by rw [t2, i2], ?_, ?_⟩
    · intro k hk
      exact t3 k (i3 (k + 1) (by rw [show k + 1 + n = k + (n + 1) by omega]; exact hk))
    · intro s hs
      exact (t4 s (i4 s hs)).1

/-- After at least as many ticks as the longest running modulation needs, the automation is at its goal and idle. -/
theorem Automation.tickN_arrives (a : Automation) (h : a.WF) (k : Nat) (hk : a.Within k) (n : Nat) (hn : k ≤ n) :
    (Automation.tickN n a).auto.current = a.goal ∧ (Automation.tickN n a).auto.mods = [] := by
  obtain ⟨t1, t2, t3, _⟩ := Automation.tickN_spec n a h
  have hw : (Automation.tickN n a).auto.Within 0 := t3 0 (hk.mono (by omega))
  have hnil := Automation.mods_nil_of_within_zero t1 hw
  refine ⟨?_, hnil⟩
  have : (Automation.tickN n a).auto.goal = (Automation.tickN n a).auto.current := by
    simp [Automation.goal, hnil, pending]
  rw [← this, t2]

theorem Automation.tick_idle (a : Automation) (h : a.mods = []) :
    a.tick = ⟨[], { a with ticks := a.ticks + 1 }⟩ := by
  unfold Automation.tick
  simp [h, tickMods]

theorem Automation.tickN_idle (n : Nat) (a : Automation) (h : a.mods = []) :
    Automation.tickN n a = ⟨[], { a with ticks := a.ticks + n }⟩ := by
  induction n generalizing a with
  | zero => simp [Automation.tickN]
  | succ n ih =>
    simp only [Automation.tickN, Automation.tick_idle a h]
    rw [ih { a with ticks := a.ticks + 1 } h]
    simp only [List.append_nil, Nat.add_assoc, Nat.add_comm 1 n]

/-- One more tick moves the value in direction `s` and does not pass the goal. -/
theorem Automation.monotone_step (a : Automation) (h : a.WF) (s : Rat) (hd : a.Dir s) (n : Nat) :
    0 ≤ s * ((Automation.tickN (n + 1) a).auto.current - (Automation.tickN n a).auto.current) ∧
    0 ≤ s * (a.goal - (Automation.tickN (n + 1) a).auto.current) := by
  obtain ⟨w1, w2, _, w4⟩ := Automation.tickN_spec n a h
  obtain ⟨t1, t2, _, t4⟩ := Automation.tick_spec _ w1
  obtain ⟨d1, d2⟩ := t4 s (w4 s hd)
  rw [Automation.tickN_succ_right]
  refine ⟨d2, ?_⟩
  have hg : a.goal = ((Automation.tickN n a).auto.tick).auto.current +
      pending ((Automation.tickN n a).auto.tick).auto.mods := by
    rw [← w2, ← t2]; rfl
  rw [hg, add_sub_cancel_left]
  exact pending_dir _ d1

/-! ### move_by / move_to -/

theorem Modulation.new_wf (dpt : Rat) (D e : Nat) : (Modulation.new dpt D e).WF := by
  refine ⟨rfl, rfl, rfl, ?_, rfl, ?_⟩
  · simp [Modulation.new, Envelope.new, envelope_length]
  · show (0 : Nat) < D ∨ (D = 0 ∧ (0 : Nat) = 0)
    omega

theorem Modulation.new_rem (dpt : Rat) (D e : Nat) (he : e ≤ D) :
    (Modulation.new dpt D e).rem = dpt * (if D = 0 then 1 else (D : Rat)) := by
  simp [Modulation.rem, Modulation.new, Envelope.new, envelope_sum' D e he]

theorem Modulation.new_left (dpt : Rat) (D e : Nat) : (Modulation.new dpt D e).left = max 1 D := by
  simp only [Modulation.left, Modulation.new]
  by_cases h : D = 0
  · simp [h]
  · simp only [h, if_false]; omega

theorem Modulation.new_dir (s dpt : Rat) (D e : Nat) (he : e ≤ D) (h : 0 ≤ s * dpt) :
    (Modulation.new dpt D e).Dir s :=
  ⟨h, by simpa [Modulation.new, Envelope.new] using envelope_nonneg' D e he⟩

theorem durationTicksInt_nonneg (tpb : Nat) (dur : Rat) (h : 0 ≤ dur) : 0 ≤ durationTicksInt tpb dur := by
  unfold durationTicksInt
  have h1 : (0 : Rat) ≤ dur * (tpb : Rat) := by positivity
  have : ((-1 : Int) : Rat) < dur * (tpb : Rat) := by push_cast; linarith
  have := Rat.lt_ceil_iff.mpr this
  omega

theorem truncInt_bounds (x : Rat) (D : Int) (h0 : 0 ≤ x) (h1 : x ≤ (D : Rat)) :
    0 ≤ truncInt x ∧ truncInt x ≤ D := by
  unfold truncInt
  simp only [h0, if_true]
  constructor
  · exact Rat.le_floor_iff.mpr (by simpa using h0)
  · have := Rat.floor_le x
    have h2 : ((x.floor : Int) : Rat) ≤ (D : Rat) := le_trans this h1
    exact_mod_cast h2

/-- `move_by` inside the property's domain does not raise. -/
theorem Automation.moveBy_ok (a : Automation) (tpb : Nat) (value : Rat) (dur : Option Rat) (env : Rat)
    (hd : 0 ≤ dur.getD a.defaultDuration) (he0 : 0 ≤ env) (he1 : env ≤ 1) :
    (a.moveBy tpb value dur env).raised = false := by
  have hD := durationTicksInt_nonneg tpb _ hd
  have hDr : (0 : Rat) ≤ ((durationTicksInt tpb (dur.getD a.defaultDuration) : Int) : Rat) := by exact_mod_cast hD
  have hb := truncInt_bounds (env * ((durationTicksInt tpb (dur.getD a.defaultDuration) : Int) : Rat))
    (durationTicksInt tpb (dur.getD a.defaultDuration)) (by positivity) (by nlinarith)
  unfold Automation.moveBy
  simp only
  rw [if_neg (by omega)]

/-- What `move_by` does when it does not raise (no assumption on the arguments). -/
theorem Automation.moveBy_spec (a : Automation) (tpb : Nat) (value : Rat) (dur : Option Rat) (env : Rat)
    (hr : (a.moveBy tpb value dur env).raised = false) :
    (a.moveBy tpb value dur env).auto.current = a.current ∧
    (a.moveBy tpb value dur env).auto.bindings = a.bindings ∧
    (a.moveBy tpb value dur env).auto.range = a.range ∧
    (a.moveBy tpb value dur env).auto.boundaries = a.boundaries ∧
    (a.WF → (a.moveBy tpb value dur env).auto.WF) ∧
    (a.moveBy tpb value dur env).auto.goal = a.goal + value ∧
    (∀ k, a.Within k → max 1 (durationTicksInt tpb (dur.getD a.defaultDuration)).toNat ≤ k →
        (a.moveBy tpb value dur env).auto.Within k) ∧
    (∀ s, a.Dir s → 0 ≤ s * value → (a.moveBy tpb value dur env).auto.Dir s) := by
  unfold Automation.moveBy at hr ⊢
  simp only at hr ⊢
  generalize hDi : durationTicksInt tpb (dur.getD a.defaultDuration) = Di at hr ⊢
  generalize hei : truncInt (env * (Di : Rat)) = ei at hr ⊢
  by_cases hc : Di < 0 ∨ ei < 0 ∨ Di < ei
  · simp [hc] at hr
  · rw [if_neg hc]
    have hD0 : 0 ≤ Di := by omega
    have he0 : 0 ≤ ei := by omega
    obtain ⟨D, rfl⟩ := Int.eq_ofNat_of_zero_le hD0
    obtain ⟨E, rfl⟩ := Int.eq_ofNat_of_zero_le he0
    have hED : E ≤ D := by omega
    simp only [Int.toNat_natCast]
    have hrem : (Modulation.new (value / (if (0 : Int) < (D : Int) then (((D : Int) : Rat)) else 1)) D E).rem = value := by
      rw [Modulation.new_rem _ _ _ hED]
      by_cases hz : D = 0
      · subst hz; simp
      · have hpos : (0 : Int) < (D : Int) := by omega
        have hDr : (D : Rat) ≠ 0 := by exact_mod_cast hz
        simp only [hpos, if_true, hz, if_false, Int.cast_natCast]
        field_simp
    refine ⟨trivial, trivial, trivial, trivial, ?_, ?_, ?_, ?_⟩
    · intro hwf m hm
      rcases List.mem_append.mp hm with hm | hm
      · exact hwf m hm
      · rw [List.mem_singleton.mp hm]; exact Modulation.new_wf _ _ _
    · simp only [Automation.goal, pending_append, pending, hrem]; ring
    · intro k hk hmax m hm
      rcases List.mem_append.mp hm with hm | hm
      · exact hk m hm
      · rw [List.mem_singleton.mp hm, Modulation.new_left]; exact hmax
    · intro s hs hv m hm
      rcases List.mem_append.mp hm with hm | hm
      · exact hs m hm
      · rw [List.mem_singleton.mp hm]
        apply Modulation.new_dir _ _ _ _ hED
        by_cases hz : (0 : Int) < (D : Int)
        · have hDr : (0 : Rat) < (D : Rat) := by exact_mod_cast hz
          simp only [hz, if_true, Int.cast_natCast]
          rw [← mul_div_assoc]; positivity
        · simp only [hz, if_false, div_one]; exact hv

theorem Automation.moveBy_raised (a : Automation) (tpb : Nat) (value : Rat) (dur : Option Rat) (env : Rat)
    (hr : (a.moveBy tpb value dur env).raised = true) : (a.moveBy tpb value dur env).auto = a := by
  unfold Automation.moveBy at hr ⊢
  simp only at hr ⊢
  split
  · rfl
  · rename_i h; simp [h] at hr

theorem Automation.moveBy_frame (a : Automation) (tpb : Nat) (value : Rat) (dur : Option Rat) (env : Rat) :
    (a.moveBy tpb value dur env).auto.current = a.current ∧
    (a.moveBy tpb value dur env).auto.bindings = a.bindings ∧
    (a.moveBy tpb value dur env).auto.range = a.range ∧
    (a.moveBy tpb value dur env).auto.boundaries = a.boundaries := by
  unfold Automation.moveBy
  simp only
  split <;> exact ⟨rfl, rfl, rfl, rfl⟩

/-! ### bindings -/

theorem Automation.value_congr {a b : Automation} (h1 : a.range = b.range) (h2 : a.boundaries = b.boundaries)
    (h3 : a.current = b.current) : a.value = b.value := by
  unfold Automation.value
  rw [h1, h2, h3]

theorem applyEvents_map (bs : List Nat) (v : Rat) (S : Sinks) (s : Nat) :
    applyEvents (bs.map (fun b => (⟨b, v⟩ : Event))) S s = if s ∈ bs then some v else S s := by
  induction bs generalizing S with
  | nil => simp [applyEvents]
  | cons b bs ih =>
    simp only [List.map_cons, applyEvents, List.mem_cons]
    rw [ih]
    by_cases h1 : s ∈ bs
    · simp [h1]
    · by_cases h2 : s = b <;> simp [h1, h2]

theorem Automation.tick_frame (a : Automation) :
    (a.tick).auto.bindings = a.bindings ∧ (a.tick).auto.range = a.range ∧
    (a.tick).auto.boundaries = a.boundaries := by
  rw [Automation.tick_auto]; exact ⟨rfl, rfl, rfl⟩

/-- The sink writes of one tick: none when the value did not change, otherwise the new reported value to
    every binding, in binding order. -/
theorem Automation.tick_events (a : Automation) :
    (a.tick).events =
      if (a.tick).auto.current ≠ a.current then a.bindings.map (fun s => (⟨s, (a.tick).auto.value⟩ : Event))
      else [] := by
  unfold Automation.tick
  by_cases h : a.current + (tickMods a.mods).delta ≠ a.current
  · simp only [Automation.jumpTo]
    simp [h]
  · have h' : a.current + (tickMods a.mods).delta = a.current := by simpa using h
    simp [h']

/-- Every bound sink holds the automation's reported value. -/
def World.InSync (W : World) : Prop := ∀ s ∈ W.auto.bindings, W.sinks s = some W.auto.value

theorem World.step_inSync (W : World) (o : Op) (h : W.InSync) : (W.step o).InSync := by
  cases o with
  | bind s =>
    intro x hx
    simp only [World.step, Automation.bindTo, applyEvents] at hx ⊢
    have hv : ({ W.auto with bindings := W.auto.bindings ++ [s] } : Automation).value = W.auto.value :=
      Automation.value_congr rfl rfl rfl
    rw [hv]
    by_cases hxs : x = s
    · simp [hxs]
    · simp only [hxs, if_false]
      rcases List.mem_append.mp hx with hx | hx
      · exact h x hx
      · exact absurd (List.mem_singleton.mp hx) hxs
  | moveTo tpb t d e =>
    intro x hx
    simp only [World.step, Automation.moveTo] at hx ⊢
    obtain ⟨f1, f2, f3, f4⟩ := Automation.moveBy_frame { W.auto with mods := [] } tpb (t - W.auto.current) d e
    rw [f2] at hx
    rw [Automation.value_congr f3 f4 f1]
    exact h x hx
  | moveBy tpb v d e =>
    intro x hx
    simp only [World.step] at hx ⊢
    obtain ⟨f1, f2, f3, f4⟩ := Automation.moveBy_frame W.auto tpb v d e
    rw [f2] at hx
    rw [Automation.value_congr f3 f4 f1]
    exact h x hx
  | jump v =>
    intro x hx
    simp only [World.step, Automation.jumpTo] at hx ⊢
    rw [applyEvents_map]
    simp [hx]
  | tick =>
    intro x hx
    simp only [World.step] at hx ⊢
    obtain ⟨f1, f2, f3⟩ := Automation.tick_frame W.auto
    rw [f1] at hx
    rw [Automation.tick_events]
    by_cases hc : (W.auto.tick).auto.current ≠ W.auto.current
    · rw [if_pos hc, applyEvents_map]; simp [hx]
    · have hc' : (W.auto.tick).auto.current = W.auto.current := by simpa using hc
      rw [if_neg hc]
      simp only [applyEvents]
      rw [Automation.value_congr f2 f3 hc']
      exact h x hx

theorem World.run_inSync (ops : List Op) (W : World) (h : W.InSync) : (W.run ops).InSync := by
  induction ops generalizing W with
  | nil => exact h
  | cons o os ih => exact ih _ (World.step_inSync W o h)

/-! ### clip / wrap -/

theorem clip_bounds (lo hi x : Rat) (h : lo ≤ hi) : lo ≤ clip lo hi x ∧ clip lo hi x ≤ hi := by
  unfold clip
  simp only
  by_cases h1 : x < hi
  · simp only [h1, if_true]
    by_cases h2 : lo < x
    · simp only [h2, if_true]; constructor <;> linarith
    · simp only [h2, if_false]; exact ⟨le_refl _, h⟩
  · simp only [h1, if_false]
    by_cases h2 : lo < hi
    · simp only [h2, if_true]; exact ⟨h, le_refl _⟩
    · simp only [h2, if_false]; exact ⟨le_refl _, h⟩

theorem clip_id (lo hi x : Rat) (h1 : lo ≤ x) (h2 : x ≤ hi) : clip lo hi x = x := by
  unfold clip
  simp only
  by_cases h3 : x < hi
  · simp only [h3, if_true]
    by_cases h4 : lo < x
    · simp [h4]
    · simp only [h4, if_false]; linarith
  · simp only [h3, if_false]
    have : x = hi := by linarith
    subst this
    by_cases h4 : lo < x
    · simp [h4]
    · simp only [h4, if_false]; linarith

theorem pmod_bounds (x w : Rat) (hw : 0 < w) : 0 ≤ pmod x w ∧ pmod x w < w := by
  unfold pmod
  have h1 := Rat.floor_le (x / w)
  have h2 := Rat.lt_floor_add_one (x / w)
  push_cast at h2
  have h3 : w * ((x / w).floor : Rat) ≤ w * (x / w) := mul_le_mul_of_nonneg_left h1 (le_of_lt hw)
  have h4 : w * (x / w) < w * (((x / w).floor : Rat) + 1) := mul_lt_mul_of_pos_left h2 hw
  have h5 : w * (x / w) = x := by field_simp
  constructor <;> nlinarith

theorem pmod_id (x w : Rat) (h0 : 0 ≤ x) (h1 : x < w) : pmod x w = x := by
  unfold pmod
  have hw : 0 < w := lt_of_le_of_lt h0 h1
  have hf : (x / w).floor = 0 := by
    have a1 : (0 : Int) ≤ (x / w).floor := Rat.le_floor_iff.mpr (by push_cast; positivity)
    have a2 : (x / w).floor < (1 : Int) := Rat.floor_lt_iff.mpr (by push_cast; rw [div_lt_one hw]; exact h1)
    omega
  rw [hf]; simp

/-! ### LFO -/

theorem scale_unit_bounds (v lo hi : Rat) (h1 : -1 ≤ v) (h2 : v ≤ 1) (h : lo ≤ hi) :
    lo ≤ scaleLinLin v (-1) 1 lo hi ∧ scaleLinLin v (-1) 1 lo hi ≤ hi := by
  unfold scaleLinLin
  have e : (v - -1) / (1 - -1) * (hi - lo) + lo = lo + (v + 1) / 2 * (hi - lo) := by ring
  rw [e]
  have a : 0 ≤ (v + 1) / 2 := by linarith
  have b : (v + 1) / 2 ≤ 1 := by linarith
  have c : 0 ≤ hi - lo := by linarith
  constructor <;> nlinarith

theorem LFO.tick_frame (w : Rat → Rat) (tpb : Nat) (l : LFO) :
    (l.tick w tpb).lfo.freq = l.freq ∧ (l.tick w tpb).lfo.min = l.min ∧ (l.tick w tpb).lfo.max = l.max ∧
    (l.tick w tpb).lfo.started = l.started ∧ (l.tick w tpb).lfo.bindings = l.bindings := by
  unfold LFO.tick
  split <;> exact ⟨rfl, rfl, rfl, rfl, rfl⟩

theorem LFO.tickN_succ_right (w : Rat → Rat) (tpb : Nat) (n : Nat) (l : LFO) :
    LFO.tickN w tpb (n + 1) l = ((LFO.tickN w tpb n l).tick w tpb).lfo := by
  induction n generalizing l with
  | zero => simp [LFO.tickN]
  | succ n ih =>
    have := ih (l.tick w tpb).lfo
    simp only [LFO.tickN] at this ⊢
    exact this

theorem LFO.tickN_frame (w : Rat → Rat) (tpb : Nat) (n : Nat) (l : LFO) :
    (LFO.tickN w tpb n l).freq = l.freq ∧ (LFO.tickN w tpb n l).min = l.min ∧
    (LFO.tickN w tpb n l).max = l.max ∧ (LFO.tickN w tpb n l).started = l.started ∧
    (LFO.tickN w tpb n l).bindings = l.bindings := by
  induction n with
  | zero => exact ⟨rfl, rfl, rfl, rfl, rfl⟩
  | succ n ih =>
    rw [LFO.tickN_succ_right]
    obtain ⟨a, b, c, d, e⟩ := LFO.tick_frame w tpb (LFO.tickN w tpb n l)
    obtain ⟨a', b', c', d', e'⟩ := ih
    exact ⟨a.trans a', b.trans b', c.trans c', d.trans d', e.trans e'⟩

theorem LFO.tickN_time (w : Rat → Rat) (tpb : Nat) (n : Nat) (l : LFO) (hs : l.started = true) :
    (LFO.tickN w tpb n l).time = l.time + (n : Rat) * (1 / (tpb : Rat)) := by
  induction n with
  | zero => simp [LFO.tickN]
  | succ n ih =>
    rw [LFO.tickN_succ_right]
    have hst := (LFO.tickN_frame w tpb n l).2.2.2.1
    simp only [LFO.tick, hst, hs, Bool.not_true, Bool.false_eq_true, if_false, ih]
    push_cast; ring

/-- The value after `n + 1` ticks in closed form. -/
theorem LFO.tickN_value (w : Rat → Rat) (tpb : Nat) (n : Nat) (l : LFO) (hs : l.started = true) :
    (LFO.tickN w tpb (n + 1) l).value =
      scaleLinLin (w ((l.time + ((n + 1 : Nat) : Rat) * (1 / (tpb : Rat))) * l.freq)) (-1) 1 l.min l.max := by
  rw [LFO.tickN_succ_right]
  obtain ⟨a, b, c, d, _⟩ := LFO.tickN_frame w tpb n l
  have ht := LFO.tickN_time w tpb n l hs
  simp only [LFO.tick, LFO.value, d, hs, Bool.not_true, Bool.false_eq_true, if_false, ht, a, b, c]
  congr 2
  push_cast; ring

theorem periodic_add_nat (w : Rat → Rat) (h : ∀ x, w (x + 1) = w x) (x : Rat) (k : Nat) :
    w (x + (k : Rat)) = w x := by
  induction k with
  | zero => simp
  | succ k ih =>
    have : x + ((k + 1 : Nat) : Rat) = (x + (k : Rat)) + 1 := by push_cast; ring
    rw [this, h, ih]

/-- A concrete waveform satisfying the hypotheses of the LFO theorems (a square wave of period 1). -/
def squareWave (x : Rat) : Rat := if x - ((x.floor : Int) : Rat) < 1 / 2 then 1 else -1

theorem squareWave_bounded (x : Rat) : -1 ≤ squareWave x ∧ squareWave x ≤ 1 := by
  unfold squareWave; split <;> constructor <;> norm_num

theorem squareWave_periodic (x : Rat) : squareWave (x + 1) = squareWave x := by
  unfold squareWave
  rw [Rat.floor_add_one]
  have : x + 1 - (((x.floor + 1 : Int)) : Rat) = x - ((x.floor : Int) : Rat) := by push_cast; ring
  rw [this]

end IsobarV.Auto
