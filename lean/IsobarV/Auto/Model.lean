/-
Operational model of isobar's automations and LFOs
(`isobar/timelines/automation.py` : AutomationEnvelope, AutomationModulation, Automation.value / tick /
                                     jump_to / move_to / move_by / bind_to,
 `isobar/timelines/lfo.py`        : LFO.tick / value / bind,
 `isobar/util.py`                 : scale_lin_lin,
 `isobar/pattern/core.py`         : PLFO.__next__).

The model describes the code AFTER the two `fix:` patches of `fixes/`:
  * 01: the ramp-out is written to `envelope[total_ticks - envelope_ticks:]` (so `envelope_ticks = 0`
        writes nothing instead of the whole array);
  * 02: `duration_ticks = ceil(round(duration / tick_duration, 8))`: a duration that is a whole number of
        ticks is that many ticks.  The model computes `⌈duration · ticks_per_beat⌉` exactly; the two agree
        whenever `duration · ticks_per_beat` is not within 5·10⁻⁹ above a whole number without being one
        (an assumption on the generated inputs, recorded by the harness);
  * 03: "wrap" is taken relative to the start of the range: `lo + ((current - lo) % (hi - lo))`
        (the unpatched `lo + (current % (hi - lo))` moves in-range values when `lo` is not a multiple of
        the width: range (-1, 1), current 0 reported -1).

All numbers are exact rationals (the code uses IEEE doubles; the harness compares with a relative
tolerance).  The LFO's waveform (`sin (2π x)` in the code) is a parameter `w : Rat → Rat`.

Import-free, total, computable.  Results of model functions are structures, never tuples.
-/
namespace IsobarV.Auto

/-! ### AutomationEnvelope -/

/-- `numpy.linspace(0, 1, e)[i]`  (`e = 1` gives `[0.]`). -/
def rampIn (e i : Nat) : Rat :=
  if e ≤ 1 then 0 else (i : Rat) / ((e - 1 : Nat) : Rat)

/-- `numpy.linspace(1, 0, e)[i]`  (`e = 1` gives `[1.]`). -/
def rampOut (e i : Nat) : Rat :=
  if e ≤ 1 then 1 else 1 - (i : Rat) / ((e - 1 : Nat) : Rat)

/-- Entry `i` of the envelope before normalisation, for `e ≤ T`:
    `np.ones(T)`, then `envelope[0:e] = linspace(0,1,e)`, then `envelope[T-e:] = linspace(1,0,e)`
    (the second assignment wins where the two ramps overlap). -/
def rawAt (T e i : Nat) : Rat :=
  if T - e ≤ i then rampOut e (i - (T - e))
  else if i < e then rampIn e i
  else 1

def rawEnvelope (T e : Nat) : List Rat := (List.range T).map (rawAt T e)

def sumRat : List Rat → Rat
  | [] => 0
  | x :: xs => x + sumRat xs

/-- `mean_value_per_tick = np.sum(envelope) / (len(envelope) if len(envelope) else 1)` -/
def meanPerTick (T e : Nat) : Rat :=
  sumRat (rawEnvelope T e) / (if T = 0 then 1 else (T : Rat))

/-- The normalised envelope (`envelope /= mean_value_per_tick`). -/
def envelope (T e : Nat) : List Rat :=
  let m := meanPerTick T e
  (rawEnvelope T e).map (fun x => x / m)

structure Envelope where
  env : List Rat
  total : Nat
  cur : Nat := 0
  finished : Bool := false
  deriving Repr, Inhabited

def Envelope.new (T e : Nat) : Envelope := { env := envelope T e, total := T }

structure EnvTick where
  rv : Rat
  env : Envelope

/-- `AutomationEnvelope.tick` -/
def Envelope.tick (E : Envelope) : EnvTick :=
  if E.finished then ⟨0, E⟩
  else if E.env.length = 0 then ⟨1, E⟩
  else
    let rv := E.env.getD E.cur 0
    let cur := E.cur + 1
    ⟨rv, { E with cur := cur, finished := decide (E.total ≤ cur) }⟩

/-! ### AutomationModulation -/

structure Modulation where
  dpt : Rat            -- delta_per_tick
  dur : Nat            -- duration_ticks
  cur : Nat := 0
  finished : Bool := false
  env : Envelope
  deriving Repr, Inhabited

def Modulation.new (dpt : Rat) (D e : Nat) : Modulation :=
  { dpt := dpt, dur := D, env := Envelope.new D e }

structure ModTick where
  delta : Rat
  mod : Modulation

/-- `AutomationModulation.tick` (constant `delta_per_tick`: the `next()` branch is only used by `bounce_to`). -/
def Modulation.tick (m : Modulation) : ModTick :=
  let cur := m.cur + 1
  let r := m.env.tick
  ⟨m.dpt * r.rv, { m with cur := cur, finished := if m.dur ≤ cur then true else m.finished, env := r.env }⟩

/-! ### Automation -/

structure Range where
  lo : Rat
  hi : Rat
  deriving Repr, Inhabited

inductive Boundaries where
  | clip | wrap
  deriving DecidableEq, Repr, Inhabited

/-- A value received by a bound object (`setattr(obj, name, v)` or `obj.method(value=v, **kwargs)`);
    `sink` identifies the (object, property) pair. -/
structure Event where
  sink : Nat
  value : Rat
  deriving DecidableEq, Repr, Inhabited

structure Automation where
  range : Option Range := none
  boundaries : Boundaries := .clip
  current : Rat := 0          -- current_value (not clipped / wrapped)
  ticks : Nat := 0            -- number of `tick()` calls (`current_time` in ticks)
  defaultDuration : Rat := 0
  bindings : List Nat := []
  mods : List Modulation := []
  deriving Repr, Inhabited

/-- Python's float `%` for a positive modulus: `x - w·⌊x / w⌋`. -/
def pmod (x w : Rat) : Rat := x - w * ((x / w).floor : Int)

/-- `max(lo, min(hi, x))` with Python's tie rules. -/
def clip (lo hi x : Rat) : Rat :=
  let m := if x < hi then x else hi
  if lo < m then m else lo

/-- `Automation.__init__`: the initial value defaults to the middle of the range, or 0. -/
def Automation.new (range : Option Range) (boundaries : Boundaries) (initial : Option Rat)
    (defaultDuration : Rat) : Automation :=
  let init := match initial with
    | some v => v
    | none => match range with
      | some r => (1 / 2 : Rat) * (r.lo + r.hi)
      | none => 0
  { range := range, boundaries := boundaries, current := init, defaultDuration := defaultDuration }

/-- `Automation.value` (boundaries "clip" and "wrap"). -/
def Automation.value (a : Automation) : Rat :=
  match a.range with
  | none => a.current
  | some r =>
    match a.boundaries with
    | .clip => clip r.lo r.hi a.current
    | .wrap => r.lo + pmod (a.current - r.lo) (r.hi - r.lo)

structure Step where
  events : List Event
  auto : Automation

/-- `Automation.jump_to`: store the value, then send `self.value` to every binding in order. -/
def Automation.jumpTo (a : Automation) (v : Rat) : Step :=
  let a' := { a with current := v }
  ⟨a'.bindings.map (fun s => ⟨s, a'.value⟩), a'⟩

/-- `Automation.bind_to`: append the binding and initialise it to the current value. -/
def Automation.bindTo (a : Automation) (sink : Nat) : Step :=
  let a' := { a with bindings := a.bindings ++ [sink] }
  ⟨[⟨sink, a'.value⟩], a'⟩

structure ModsTick where
  delta : Rat
  mods : List Modulation

/-- The loop of `Automation.tick` over a snapshot of the modulations: sum of the deltas, finished
    modulations removed. -/
def tickMods : List Modulation → ModsTick
  | [] => ⟨0, []⟩
  | m :: ms =>
    let r := m.tick
    let rest := tickMods ms
    ⟨r.delta + rest.delta, if r.mod.finished then rest.mods else r.mod :: rest.mods⟩

/-- `Automation.tick`: bindings are only updated when the (unclipped) value changed. -/
def Automation.tick (a : Automation) : Step :=
  let r := tickMods a.mods
  let nv := a.current + r.delta
  let a1 := { a with ticks := a.ticks + 1, mods := r.mods }
  if nv ≠ a.current then a1.jumpTo nv else ⟨[], a1⟩

/-- `duration_ticks`: `⌈duration / tick_duration⌉` with `tick_duration = 1 / tpb`. -/
def durationTicksInt (tpb : Nat) (dur : Rat) : Int := (dur * (tpb : Rat)).ceil

/-- `int(x)`: truncation toward zero. -/
def truncInt (x : Rat) : Int := if 0 ≤ x then x.floor else x.ceil

structure MoveResult where
  raised : Bool          -- numpy ValueError (negative size / shape mismatch): outside the property's domain
  auto : Automation

/-- `Automation.move_by(value, duration, envelope)` -/
def Automation.moveBy (a : Automation) (tpb : Nat) (value : Rat) (dur : Option Rat) (env : Rat) : MoveResult :=
  let dur := dur.getD a.defaultDuration
  let Di := durationTicksInt tpb dur
  let dpt := value / (if 0 < Di then (Di : Rat) else 1)
  let ei := truncInt (env * (Di : Rat))
  if Di < 0 ∨ ei < 0 ∨ Di < ei then ⟨true, a⟩
  else ⟨false, { a with mods := a.mods ++ [Modulation.new dpt Di.toNat ei.toNat] }⟩

/-- `Automation.move_to(value, duration, envelope)`: clears the running modulations first. -/
def Automation.moveTo (a : Automation) (tpb : Nat) (target : Rat) (dur : Option Rat) (env : Rat) : MoveResult :=
  let a' := { a with mods := [] }
  a'.moveBy tpb (target - a'.current) dur env

/-- `n` ticks, all events in order. -/
def Automation.tickN : Nat → Automation → Step
  | 0, a => ⟨[], a⟩
  | n + 1, a =>
    let r := a.tick
    let r' := Automation.tickN n r.auto
    ⟨r.events ++ r'.events, r'.auto⟩

/-! ### Bound objects -/

/-- The last value each sink received (`none`: never written). -/
abbrev Sinks := Nat → Option Rat

def Sinks.empty : Sinks := fun _ => none

def applyEvents : List Event → Sinks → Sinks
  | [], S => S
  | e :: es, S => applyEvents es (fun s => if s = e.sink then some e.value else S s)

/-- Operations on one automation (the histories the binding invariant quantifies over). -/
inductive Op where
  | bind (sink : Nat)
  | moveTo (tpb : Nat) (target : Rat) (dur : Option Rat) (env : Rat)
  | moveBy (tpb : Nat) (value : Rat) (dur : Option Rat) (env : Rat)
  | jump (v : Rat)
  | tick
  deriving Repr, Inhabited

structure World where
  auto : Automation
  sinks : Sinks

def World.step (W : World) : Op → World
  | .bind s => let r := W.auto.bindTo s; ⟨r.auto, applyEvents r.events W.sinks⟩
  | .moveTo tpb t d e => ⟨(W.auto.moveTo tpb t d e).auto, W.sinks⟩
  | .moveBy tpb v d e => ⟨(W.auto.moveBy tpb v d e).auto, W.sinks⟩
  | .jump v => let r := W.auto.jumpTo v; ⟨r.auto, applyEvents r.events W.sinks⟩
  | .tick => let r := W.auto.tick; ⟨r.auto, applyEvents r.events W.sinks⟩

def World.run (W : World) : List Op → World
  | [] => W
  | o :: os => (W.step o).run os

/-! ### LFO -/

/-- `scale_lin_lin(value, from_min, from_max, to_min, to_max)` -/
def scaleLinLin (v fromMin fromMax toMin toMax : Rat) : Rat :=
  (v - fromMin) / (fromMax - fromMin) * (toMax - toMin) + toMin

structure LFO where
  freq : Rat
  min : Rat := 0
  max : Rat := 1
  started : Bool := true
  time : Rat := 0             -- current_time, in beats
  current : Rat := 0          -- current_value (0.0 until the first tick)
  bindings : List Nat := []
  deriving Repr, Inhabited

def LFO.value (l : LFO) : Rat := l.current

structure LStep where
  events : List Event
  lfo : LFO

/-- `LFO.tick` for shape "sine"; `w x` stands for `sin (2π x)`. -/
def LFO.tick (w : Rat → Rat) (tpb : Nat) (l : LFO) : LStep :=
  if !l.started then ⟨[], l⟩
  else
    let t := l.time + 1 / (tpb : Rat)
    let v := scaleLinLin (w (t * l.freq)) (-1) 1 l.min l.max
    ⟨l.bindings.map (fun s => ⟨s, v⟩), { l with time := t, current := v }⟩

def LFO.bind (l : LFO) (sink : Nat) : LFO := { l with bindings := l.bindings ++ [sink] }

def LFO.tickN (w : Rat → Rat) (tpb : Nat) : Nat → LFO → LFO
  | 0, l => l
  | n + 1, l => LFO.tickN w tpb n (l.tick w tpb).lfo

/-- `PLFO.__next__`: the pattern wrapper reads the LFO's value. -/
def plfoNext (l : LFO) : Rat := l.value

end IsobarV.Auto
