/-
Generic machinery for C09: stickiness of StopIteration, and the helper methods.

A class `c` is *sticky* (`ClsSticky c`) when, for ANY semantics `rec` of its sub-patterns that keeps
them inside an invariant `P` and is itself sticky on `P`, a step that ends in StopIteration is followed
by another StopIteration.  `sticky_stepF` lifts this to whole pattern trees.
-/
import IsobarV.Pat.ResetOK

namespace IsobarV.Pat

/-- Not a value: StopIteration or an exception. -/
def NoVal (o : Out) : Prop := ∀ v, o ≠ .val v

/-- A sub-pattern is *dead* under `rec`: no later `next()` ever yields a value again. -/
def DeadUnder (rec : Rec) (p : Pat) : Prop := ∀ n, ∀ o ∈ recOuts rec n p, NoVal o

theorem DeadUnder.step {rec : Rec} {p : Pat} (h : DeadUnder rec p) : NoVal (rec p).out ∧ DeadUnder rec (rec p).p := by
  constructor
  · exact h 1 _ (by simp [recOuts])
  · intro n o ho
    exact h (n + 1) o (by simp [recOuts, ho])

/-- A semantics of sub-patterns that respects `P` and under which a StopIteration is final. -/
def RecSticky (P : Pat → Prop) (rec : Rec) : Prop :=
  ∀ k, P k → P (rec k).p ∧ ((rec k).out = .stop → DeadUnder rec (rec k).p)

/-- A class is sticky when, sub-patterns being sticky, a step that ends in StopIteration leaves the
    object in a state from which no later step yields a value. -/
def ClsSticky (c : Cls) : Prop :=
  ∀ (P : Pat → Prop) (rec : Rec) (kids : List Pat) (st : St), RecSticky P rec → (∀ k ∈ kids, P k) →
    (∀ k ∈ (clsStep c rec kids st).kids, P k) ∧
    ((clsStep c rec kids st).out = .stop →
      ∀ n, ∀ o ∈ clsOuts (clsStep c) rec n (clsStep c rec kids st).kids (clsStep c rec kids st).st, NoVal o)

/-- **Once a pattern has raised StopIteration, no later `next()` ever yields a value again** (it
    raises StopIteration again — or, for arguments outside a class's domain, whatever exception an
    operand raises) — for every tree of sticky classes, any depth, any number of later calls. -/
theorem sticky_stepF {S : Cls → Prop} (hS : ∀ c, S c → ClsSticky c) (fuel : Nat) (p : Pat) (hp : AllCls S p) :
    AllCls S (stepF fuel p).p ∧
    ((stepF fuel p).out = .stop → ∀ n, ∀ o ∈ outs fuel n (stepF fuel p).p, NoVal o) := by
  induction fuel generalizing p with
  | zero =>
    refine ⟨hp, fun h => by simp [stepF] at h⟩
  | succ m ih =>
    cases hp with
    | node hc hk =>
      rename_i c kids st
      have hrec : RecSticky (AllCls S) (stepF m) := by
        intro k hk
        obtain ⟨i1, i2⟩ := ih k hk
        refine ⟨i1, fun hs n o ho => ?_⟩
        rw [recOuts_stepF] at ho
        exact i2 hs n o ho
      obtain ⟨h1, h2⟩ := hS c hc (AllCls S) (stepF m) kids st hrec hk
      refine ⟨AllCls.node hc h1, fun h n o ho => ?_⟩
      have hs : (clsStep c (stepF m) kids st).out = .stop := by simpa [stepF] using h
      have : outs (m + 1) n (stepF (m + 1) (.node c kids st)).p =
          clsOuts (clsStep c) (stepF m) n (clsStep c (stepF m) kids st).kids (clsStep c (stepF m) kids st).st := by
        simp only [stepF]; exact outs_eq_clsOuts m n c _ _
      rw [this] at ho
      exact h2 hs n o ho

/-! ### Helper methods -/

/-- The values before the first outcome that is not a value. -/
def valuesPrefix : List Out → List Val
  | .val v :: os => v :: valuesPrefix os
  | _ => []

/-- **`nextn(n)` returns exactly the values the next `n` calls of `next()` yield before the pattern
    ends (or raises)**: the next `min(n, remaining)` values. -/
theorem nextn_vals (fuel n : Nat) (p : Pat) : (nextn fuel n p).vals = valuesPrefix (outs fuel n p) := by
  induction n generalizing p with
  | zero => rfl
  | succ n ih =>
    simp only [nextn, outs]
    cases h : (stepF fuel p).out with
    | val v => simp [valuesPrefix, ih]
    | stop => simp [valuesPrefix]
    | err e => simp [valuesPrefix]

/-- `all(max)` returns the same values as `nextn(max)`; `len()` is their number. -/
theorem all_vals (fuel m : Nat) (p : Pat) : (all fuel m p).vals = valuesPrefix (outs fuel m p) := by
  simp only [all]
  split <;> exact nextn_vals fuel m p

theorem len_spec (fuel m : Nat) (p : Pat) (hok : (nextn fuel m p).err = Option.none) :
    (len fuel m p).1 = some (valuesPrefix (outs fuel m p)).length := by
  simp [len, all, hok, nextn_vals]

/-- `nextn` raises iff an exception is met before `n` values or the end. -/
theorem nextn_no_error_of_stop (fuel n : Nat) (p : Pat) (h : ∀ o ∈ outs fuel n p, ∀ e, o ≠ .err e) :
    (nextn fuel n p).err = Option.none := by
  induction n generalizing p with
  | zero => rfl
  | succ n ih =>
    simp only [nextn]
    cases hs : (stepF fuel p).out with
    | val v =>
      simp only []
      apply ih
      intro o ho e
      exact h o (by simp [outs, ho]) e
    | stop => rfl
    | err e => exact absurd rfl (h (.err e) (by simp [outs, hs]) e)

/-- **A copy continues with exactly the output the original would have produced**: `copy()` is the
    identity on the (immutable) model value, so both continue identically and cannot affect one
    another.  (Aliasing in the real objects is decided by the interleaving oracle of the harness.) -/
theorem copy_continues (fuel n : Nat) (p : Pat) : outs fuel n (id p) = outs fuel n p := rfl

end IsobarV.Pat
