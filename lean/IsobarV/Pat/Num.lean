/-
CPython's arithmetic / comparison operators on scalar values, as far as the pattern operators use them.
This is a *model of CPython* (trusted, validated by the correspondence): ints are unbounded, floats are
exact rationals (the harness keeps them dyadic or compares with a tolerance), bool is an int subtype.
-/
import IsobarV.Pat.Basic

namespace IsobarV.Pat

inductive BinOp where
  | add | sub | mul | div | floorDiv | mod | pow | lshift | rshift
  | eq | ne | gt | ge | lt | le
  deriving DecidableEq, Repr, Inhabited

/-- A Python number: exact value and whether it is a float. -/
structure Num where
  r : Rat
  isFloat : Bool
  deriving Repr

def Atom.toNum : Atom → Option Num
  | .int i => some { r := (i : Rat), isFloat := false }
  | .bool b => some { r := if b then 1 else 0, isFloat := false }
  | .flt r => some { r := r, isFloat := true }
  | _ => Option.none

def Atom.toInt? : Atom → Option Int
  | .int i => some i
  | .bool b => some (if b then 1 else 0)
  | _ => Option.none

/-- Result of an arithmetic operation whose operands had the given float-ness. -/
def mkNum (isFloat : Bool) (r : Rat) : Atom :=
  if isFloat then .flt r else .int r.floor

def natPow (r : Rat) : Nat → Rat
  | 0 => 1
  | n + 1 => natPow r n * r

/-- Python truthiness. -/
def Atom.truthy : Atom → Bool
  | .none => false
  | .int i => i != 0
  | .flt r => r != 0
  | .bool b => b
  | .str s => s != ""

def Val.truthy : Val → Bool
  | .a x => x.truthy
  | .tup xs => !xs.isEmpty

def cmpOp (op : BinOp) (x y : Rat) : Bool :=
  match op with
  | .eq => x == y | .ne => x != y | .gt => x > y | .ge => x ≥ y | .lt => x < y | .le => x ≤ y
  | _ => false

def isCmp : BinOp → Bool
  | .eq | .ne | .gt | .ge | .lt | .le => true
  | _ => false

def intPow (i : Int) : Nat → Int
  | 0 => 1
  | n + 1 => intPow i n * i

def cmpInt (op : BinOp) (x y : Int) : Bool :=
  match op with
  | .eq => x == y | .ne => x != y | .gt => decide (x > y) | .ge => decide (x ≥ y) | .lt => decide (x < y) | .le => decide (x ≤ y)
  | _ => false

/-- `i <op> j` for two Python ints (bools count as ints). -/
def binopInt (op : BinOp) (i j : Int) : Out :=
  match op with
  | .add => .val (.a (.int (i + j)))
  | .sub => .val (.a (.int (i - j)))
  | .mul => .val (.a (.int (i * j)))
  | .div => if j = 0 then .err .zeroDivision else .val (.a (.flt (mkRat i 1 / mkRat j 1)))
  | .floorDiv => if j = 0 then .err .zeroDivision else .val (.a (.int (Int.fdiv i j)))
  | .mod => if j = 0 then .err .zeroDivision else .val (.a (.int (Int.fmod i j)))
  | .pow =>
    if 0 ≤ j then .val (.a (.int (intPow i j.toNat)))
    else if i = 0 then .err .zeroDivision
    else .val (.a (.flt (1 / mkRat (intPow i (-j).toNat) 1)))
  | .lshift => if j < 0 then .err .valueError else .val (.a (.int (i * 2 ^ j.toNat)))
  | .rshift => if j < 0 then .err .valueError else .val (.a (.int (Int.fdiv i (2 ^ j.toNat))))
  | cmp => .val (.a (.bool (cmpInt cmp i j)))

/-- `x <op> y` when at least one operand is a Python float (the result is a float, or a bool). -/
def binopFlt (op : BinOp) (x y : Rat) : Out :=
  match op with
  | .add => .val (.a (.flt (x + y)))
  | .sub => .val (.a (.flt (x - y)))
  | .mul => .val (.a (.flt (x * y)))
  | .div => if y = 0 then .err .zeroDivision else .val (.a (.flt (x / y)))
  | .floorDiv => if y = 0 then .err .zeroDivision else .val (.a (.flt ((x / y).floor : Int)))
  | .mod => if y = 0 then .err .zeroDivision else .val (.a (.flt (x - y * ((x / y).floor : Int))))
  | .pow =>
    if y.den = 1 then
      if 0 ≤ y.num then .val (.a (.flt (natPow x y.num.toNat)))
      else if x = 0 then .err .zeroDivision
      else .val (.a (.flt (1 / natPow x (-y.num).toNat)))
    else .err .unmodelled     -- irrational results are outside the model
  | .lshift => .err .typeError
  | .rshift => .err .typeError
  | cmp => .val (.a (.bool (cmpOp cmp x y)))

/-- `a <op> b` for two non-None scalars. -/
def binopAtom (op : BinOp) (a b : Atom) : Out :=
  match a.toInt?, b.toInt? with
  | some i, some j => binopInt op i j
  | _, _ =>
    match a.toNum, b.toNum with
    | some x, some y => binopFlt op x.r y.r
    | _, _ =>
      -- at least one operand is a string (None never reaches here)
      match op, a, b with
      | .add, .str s, .str t => .val (.a (.str (s ++ t)))
      | .eq, .str s, .str t => .val (.a (.bool (s == t)))
      | .ne, .str s, .str t => .val (.a (.bool (s != t)))
      | .eq, _, _ => .val (.a (.bool false))
      | .ne, _, _ => .val (.a (.bool true))
      | .lt, .str s, .str t => .val (.a (.bool (s < t)))
      | .gt, .str s, .str t => .val (.a (.bool (t < s)))
      | .le, .str s, .str t => .val (.a (.bool (!(t < s))))
      | .ge, .str s, .str t => .val (.a (.bool (!(s < t))))
      | _, _, _ => .err .typeError

/-- `a <op> b` on pattern values, with the operators' `None`-propagation:
    `None if a is None or b is None else a <op> b`.  Tuples: only `==`/`!=`/`+` are modelled. -/
def binopVal (op : BinOp) (a b : Val) : Out :=
  match a, b with
  | .a .none, _ => .val Val.none
  | _, .a .none => .val Val.none
  | .a x, .a y => binopAtom op x y
  | .tup xs, .tup ys =>
    match op with
    | .add => .val (.tup (xs ++ ys))
    | .eq => .val (.a (.bool (xs == ys)))
    | .ne => .val (.a (.bool (xs != ys)))
    | _ => .err .unmodelled
  | _, _ =>
    match op with
    | .eq => .val (.a (.bool false))
    | .ne => .val (.a (.bool true))
    | _ => .err .typeError

/-- `abs(x)` as used by `PAbs` (None passes through). -/
def absVal : Val → Out
  | .a .none => .val Val.none
  | .a x =>
    match x.toNum with
    | some n => .val (.a (mkNum n.isFloat (if n.r < 0 then -n.r else n.r)))
    | Option.none => .err .typeError
  | .tup _ => .err .typeError

/-- `int(x)` as used by `PInt`: truncation toward zero (None passes through). -/
def truncRat (r : Rat) : Int := if 0 ≤ r then r.floor else -((-r).floor)

def intVal : Val → Out
  | .a .none => .val Val.none
  | .a x =>
    match x.toNum with
    | some n => .val (.a (.int (truncRat n.r)))
    | Option.none => .err .unmodelled
  | .tup _ => .err .typeError

end IsobarV.Pat
