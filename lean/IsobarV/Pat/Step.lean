/-
The generic `next()` / `reset()` of the pattern model: class dispatch, recursion into sub-patterns by
fuel (depth), and the helper methods of `Pattern` (`nextn`, `all`, `len`, iteration, `copy`).
-/
import IsobarV.Pat.Core

namespace IsobarV.Pat

/-- Class dispatch.  Classes whose model lives in another file are registered in `clsStepExt`
    (see `IsobarV/Pat/Ext.lean`). -/
def clsStepCore (c : Cls) : Option ClsStep :=
  match c with
  | .const => some stepConst
  | .ref => some stepRef
  | .seq => some stepSeq
  | .concat => some stepConcat
  | .abs => some (stepUn absVal)
  | .int => some (stepUn intVal)
  | .arrayIndex => some stepArrayIndex
  | .add => some (stepBin (binopVal .add))
  | .sub => some (stepBin (binopVal .sub))
  | .mul => some (stepBin (binopVal .mul))
  | .div => some (stepBin (binopVal .div))
  | .floorDiv => some (stepBin (binopVal .floorDiv))
  | .mod => some (stepBin (binopVal .mod))
  | .pow => some (stepBin (binopVal .pow))
  | .lshift => some (stepBin (binopVal .lshift))
  | .rshift => some (stepBin (binopVal .rshift))
  | .eq => some (stepBin (binopVal .eq))
  | .ne => some (stepBin (binopVal .ne))
  | .gt => some (stepBin (binopVal .gt))
  | .ge => some (stepBin (binopVal .ge))
  | .lt => some (stepBin (binopVal .lt))
  | .le => some (stepBin (binopVal .le))
  | .and => some (stepBin andVal)
  | _ => Option.none

def clsResetCore (c : Cls) : Option (St → St) :=
  match c with
  | .seq => some resetSeq
  | .concat => some resetConcat
  | _ => Option.none

end IsobarV.Pat
