/-
Registration of the classes modelled outside `Core.lean` (one line per class; the class's model
lives in `IsobarV/Pat/Cls/<Group>.lean`).
-/
import IsobarV.Pat.Step
import IsobarV.Pat.Cls.Chance
import IsobarV.Pat.Cls.Seq1
import IsobarV.Pat.Cls.Seq2
import IsobarV.Pat.Cls.Scalar
import IsobarV.Pat.Cls.Misc
import IsobarV.Pat.Cls.Ext2

namespace IsobarV.Pat

def clsStepExt (c : Cls) : Option ClsStep :=
  match c with
  | .series => some stepSeries
  | .range => some stepRange
  | .geom => some stepGeom
  | .impulse => some stepImpulse
  | .loop => some stepLoop
  | .pingPong => some stepPingPong
  | .stutter => some stepStutter
  | .subsequence => some stepSubsequence
  | .creep => some stepCreep
  | .reverse => some stepReverse
  | .pad => some stepPad
  | .padToMultiple => some stepPadToMultiple
  | .counter => some stepCounter
  | .collapse => some stepCollapse
  | .noRepeats => some stepNoRepeats
  | .permut => some stepPermut
  | .interpolate => some stepInterpolate
  | .euclidean => some stepEuclidean
  | .arpeggiator => some stepArpeggiator
  | .changed => some (stepDelta changedVal)
  | .diff => some (stepDelta diffVal)
  | .skipIf => some stepSkipIf
  | .normalise => some stepNormalise
  | .map => some stepMap
  | .mapEnumerated => some stepMapEnumerated
  | .scaleLinLin => some stepScaleLinLin
  | .scaleLinExp => some (stepScaleLinExp powApprox)
  | .round => some stepRound
  | .scalar => some stepScalar
  | .wrap => some stepWrap
  | .indexOf => some stepIndexOf
  | .degree => some stepDegree
  | .midiNoteToFrequency => some (stepMidi powApprox)
  | .tri => some stepTri
  | .saw => some stepSaw
  | .white => some stepWhite
  | .brown => some stepBrown
  | .coin => some stepCoin
  | .randomWalk => some stepWalk
  | .choice => some stepChoice
  | .sample => some stepSample
  | .shuffle => some stepShuffle
  | .shuffleInput => some stepShuffleInput
  | .skip => some stepSkip
  | .flipFlop => some stepFlipFlop
  | .switchOne => some stepSwitchOne
  | .randomExponential => some stepExp
  | .randomImpulseSequence => some stepRIS
  | .markov => some stepMarkov
  | .lsystem => some stepLsystem
  | .dict => some stepTuple
  | .dictKey => some stepDictKey
  | .constP => some stepConstP
  | .tupP => some stepTuple
  | .metropolis => some stepMetropolis
  | .patternGeneratorAction => some stepPga
  | .func => some stepFunc
  | .filterByKey => some stepFilterByKey
  | .nearestNoteInKey => some stepNearestNoteInKey
  | .keyTonic => some stepKeyTonic
  | .keyScale => some stepKeyScale
  | _ => Option.none

/-- Classes whose `__next__` calls `reset()` on a sub-pattern: their step function receives the generic
    `reset` of patterns (defined in `Run.lean`, after the own-state resets). -/
def clsStepExtR (c : Cls) : Option ((Pat → Pat) → ClsStep) :=
  match c with
  | .reset => some stepResetW
  | .sequenceAction => some stepSequenceActionW
  | _ => Option.none

def clsResetExt (c : Cls) : Option (St → St) :=
  match c with
  | .series => some resetSeries
  | .range => some resetRange
  | .geom => some resetGeom
  | .impulse => some resetImpulse
  | .loop => some resetLoop
  | .pingPong => some resetPingPong
  | .stutter => some resetStutter
  | .subsequence => some resetSubsequence
  | .creep => some resetCreep
  | .reverse => some resetReverse
  | .pad => some resetPad
  | .padToMultiple => some resetPadToMultiple
  | .counter => some resetCounter
  | .noRepeats => some resetNoRepeats
  | .permut => some resetPermut
  | .interpolate => some resetInterpolate
  | .euclidean => some resetEuclidean
  | .arpeggiator => some resetArpeggiator
  | .changed => some resetDelta
  | .diff => some resetDelta
  | .normalise => some resetNormalise
  | .mapEnumerated => some resetMapEnumerated
  | .tri => some resetOsc
  | .saw => some resetOsc
  | .white => some resetWhite
  | .brown => some resetBrown
  | .coin => some resetCoin
  | .randomWalk => some resetWalk
  | .shuffle => some resetShuffle
  | .shuffleInput => some resetShuffleInput
  | .skip => some resetSkip
  | .flipFlop => some resetFlipFlop
  | .switchOne => some resetSwitchOne
  | .randomImpulseSequence => some resetRIS
  | .markov => some resetMarkov
  | .lsystem => some resetLsystem
  | .metropolis => some resetMetropolis
  | .sequenceAction => some resetSequenceAction
  | .patternGeneratorAction => some resetPga
  | _ => Option.none

end IsobarV.Pat
