/-
Registration of the classes modelled outside `Core.lean` (one line per class; the class's model
lives in `IsobarV/Pat/Cls/<Group>.lean`).
-/
import IsobarV.Pat.Step

namespace IsobarV.Pat

def clsStepExt (c : Cls) : Option ClsStep :=
  match c with
  | _ => Option.none

def clsResetExt (c : Cls) : Option (St → St) :=
  match c with
  | _ => Option.none

end IsobarV.Pat
