/-
Classes of `isobar/pattern/core.py` and `PSequence`: step functions (each mirrors the class's
`__next__`, sub-steps in the same order) and own-state resets.

Register layouts
  const      v0 = value
  ref        kids = [pattern]
  seq        kids = items            n0 = repeats (−1 = sys.maxsize), n1 = pos, n2 = rcount
  concat     kids = inputs           n0 = pos
  abs, int   kids = [input]
  binops     kids = [a, b]
  arrayIndex kids = index :: list items
-/
import IsobarV.Pat.Num

namespace IsobarV.Pat

def stepConst : ClsStep := fun _ kids st => { out := .val st.v0, kids := kids, st := st }

/-- `PRef.__next__`: `next(self.pattern)`. -/
def stepRef : ClsStep := fun rec kids st =>
  { out := (stepKid rec kids 0).1, kids := (stepKid rec kids 0).2, st := st }

/-- `PSequence.__next__`. -/
def stepSeq : ClsStep := fun rec kids st =>
  if kids.length = 0 ∨ (0 ≤ st.n0 ∧ st.n0 ≤ st.n2) then { out := .stop, kids := kids, st := st }
  else
    match (stepKid rec kids st.n1.toNat).1 with
    | .val v =>
      if st.n1.toNat + 1 ≥ kids.length then
        { out := .val v, kids := (stepKid rec kids st.n1.toNat).2, st := { st with n1 := 0, n2 := st.n2 + 1 } }
      else { out := .val v, kids := (stepKid rec kids st.n1.toNat).2, st := { st with n1 := st.n1.toNat + 1 } }
    | o => { out := o, kids := (stepKid rec kids st.n1.toNat).2, st := st }

/-- `a = Pattern.value(self.a); b = Pattern.value(self.b); return None if … else a <op> b`. -/
def stepBin (f : Val → Val → Out) : ClsStep := fun rec kids st =>
  match (stepKid rec kids 0).1 with
  | .val a =>
    match (stepKid rec (stepKid rec kids 0).2 1).1 with
    | .val b => { out := f a b, kids := (stepKid rec (stepKid rec kids 0).2 1).2, st := st }
    | o => { out := o, kids := (stepKid rec (stepKid rec kids 0).2 1).2, st := st }      -- a consumed, b ended
  | o => { out := o, kids := (stepKid rec kids 0).2, st := st }

/-- `PAnd`: `True if a and b else False` (no None propagation). -/
def andVal (a b : Val) : Out := .val (.a (.bool (a.truthy && b.truthy)))

/-- One-input maps (`PAbs`, `PInt`). -/
def stepUn (f : Val → Out) : ClsStep := fun rec kids st =>
  match (stepKid rec kids 0).1 with
  | .val a => { out := f a, kids := (stepKid rec kids 0).2, st := st }
  | o => { out := o, kids := (stepKid rec kids 0).2, st := st }

/-- `PConcatenate.__next__`: try the current input; on StopIteration move to the next one. -/
def concatLoop (rec : Rec) : Nat → List Pat → Nat → Out × List Pat × Nat
  | 0, kids, pos => (.err .diverge, kids, pos)
  | fuel + 1, kids, pos =>
    match kids[pos]? with
    | Option.none => (.err .indexError, kids, pos)
    | some k =>
      let r := rec k
      let kids' := kids.set pos r.p
      match r.out with
      | .stop => if pos + 1 < kids.length then concatLoop rec fuel kids' (pos + 1) else (.stop, kids', pos)
      | o => (o, kids', pos)

def stepConcat : ClsStep := fun rec kids st =>
  { out := (concatLoop rec (kids.length + 1) kids st.n0.toNat).1,
    kids := (concatLoop rec (kids.length + 1) kids st.n0.toNat).2.1,
    st := { st with n0 := (concatLoop rec (kids.length + 1) kids st.n0.toNat).2.2 } }

/-- Python list indexing with a possibly negative index. -/
def pyIndex (len : Nat) (i : Int) : Option Nat :=
  if 0 ≤ i then (if i.toNat < len then some i.toNat else Option.none)
  else if (-i).toNat ≤ len then some (len - (-i).toNat) else Option.none

/-- `PArrayIndex.__next__`: kids = index :: items. -/
def stepArrayIndex : ClsStep := fun rec kids st =>
  let ri := stepKid rec kids 0
  match ri.1 with
  | .val (.a .none) => { out := .val Val.none, kids := ri.2, st := st }
  | .val iv =>
    match intVal iv with
    | .val (.a (.int i)) =>
      match pyIndex (kids.length - 1) i with
      | some j =>
        let r := stepKid rec ri.2 (j + 1)
        { out := r.1, kids := r.2, st := st }
      | Option.none => { out := .err .indexError, kids := ri.2, st := st }
    | .err e => { out := .err e, kids := ri.2, st := st }
    | _ => { out := .err .typeError, kids := ri.2, st := st }
  | o => { out := o, kids := ri.2, st := st }

/-! ### Own-state resets (what the class's `reset()` does beyond resetting its pattern attributes) -/

def resetSeq (st : St) : St := { st with n1 := 0, n2 := 0 }
def resetConcat (st : St) : St := { st with n0 := 0 }

end IsobarV.Pat
