/-
Generic machinery for C04 (`reset()` rewinds any pattern) and C09 (stickiness of StopIteration).

A class `c` is *reset-correct* (`ClsResetOK c`) when, for ANY semantics `rec` of its sub-patterns that
(a) keeps sub-patterns inside an invariant `P` and (b) never changes what `reset` makes of them, one
step of the class keeps its kids inside `P`, does not change what `reset` makes of the kids, and does
not change what the class's own reset makes of its state.  `reset_step` lifts this to whole pattern
trees of reset-correct classes, any nesting depth, any number of steps.
-/
import IsobarV.Pat.Lemmas

namespace IsobarV.Pat

/-- Every node of the tree belongs to a class in `S`. -/
inductive AllCls (S : Cls → Prop) : Pat → Prop where
  | node {c : Cls} {kids : List Pat} {st : St} :
      S c → (∀ k ∈ kids, AllCls S k) → AllCls S (.node c kids st)

/-- A semantics of sub-patterns that respects `P` and is invisible to `reset`. -/
def RecOK (P : Pat → Prop) (rec : Rec) : Prop := ∀ k, P k → P (rec k).p ∧ reset (rec k).p = reset k

def ClsResetOK (c : Cls) : Prop :=
  ∀ (P : Pat → Prop) (rec : Rec) (kids : List Pat) (st : St), RecOK P rec → (∀ k ∈ kids, P k) →
    (∀ k ∈ (clsStep c rec kids st).kids, P k) ∧
    (clsStep c rec kids st).kids.map reset = kids.map reset ∧
    clsReset c (clsStep c rec kids st).st = clsReset c st

theorem set_same {α : Type} (l : List α) (i : Nat) (x : α) (h : l[i]? = some x) : l.set i x = l := by
  induction l generalizing i with
  | nil => rfl
  | cons y ys ih =>
    cases i with
    | zero => simp at h; simp [h]
    | succ j => simp at h; simp [ih j h]

/-- `stepKid` keeps the kids inside `P` and invisible to `reset`. -/
theorem stepKid_ok {P : Pat → Prop} {rec : Rec} (hrec : RecOK P rec) (kids : List Pat) (i : Nat)
    (hk : ∀ k ∈ kids, P k) :
    (∀ k ∈ (stepKid rec kids i).2, P k) ∧ (stepKid rec kids i).2.map reset = kids.map reset := by
  unfold stepKid
  cases h : kids[i]? with
  | none => exact ⟨hk, rfl⟩
  | some k =>
    have hmem : k ∈ kids := List.mem_of_getElem? h
    obtain ⟨h1, h2⟩ := hrec k (hk k hmem)
    constructor
    · intro x hx
      rcases List.mem_or_eq_of_mem_set hx with hx | rfl
      · exact hk x hx
      · exact h1
    · simp only []
      rw [List.map_set, h2]
      have : (kids.map reset)[i]? = some (reset k) := by simp [h]
      exact set_same _ _ _ this

/-- **`reset` after any number of steps = `reset` of the original**, for every tree of reset-correct
    classes: stepping never changes what `reset()` rewinds to. -/
theorem reset_stepF {S : Cls → Prop} (hS : ∀ c, S c → ClsResetOK c) (fuel : Nat) (p : Pat) (hp : AllCls S p) :
    AllCls S (stepF fuel p).p ∧ reset (stepF fuel p).p = reset p := by
  induction fuel generalizing p with
  | zero => exact ⟨hp, rfl⟩
  | succ n ih =>
    cases hp with
    | node hc hk =>
      rename_i c kids st
      have hrec : RecOK (AllCls S) (stepF n) := fun k hk => ih k hk
      obtain ⟨h1, h2, h3⟩ := hS c hc (AllCls S) (stepF n) kids st hrec hk
      constructor
      · exact AllCls.node hc h1
      · simp only [stepF, reset_node, h2, h3]

theorem reset_after {S : Cls → Prop} (hS : ∀ c, S c → ClsResetOK c) (fuel n : Nat) (p : Pat) (hp : AllCls S p) :
    AllCls S (after fuel n p) ∧ reset (after fuel n p) = reset p := by
  induction n generalizing p with
  | zero => exact ⟨hp, rfl⟩
  | succ n ih =>
    obtain ⟨h1, h2⟩ := reset_stepF hS fuel p hp
    obtain ⟨i1, i2⟩ := ih _ h1
    exact ⟨i1, i2.trans h2⟩

/-- A pattern is *initial* when `reset` leaves it unchanged (every counter at its constructor value). -/
def IsInit (p : Pat) : Prop := reset p = p

/-- **C04, main form.**  For a freshly constructed pattern `p0` built from reset-correct classes:
    after ANY number `k` of `next()` calls — none, some, all the way to exhaustion and beyond —
    `reset()` gives back exactly `p0`, hence exactly the sequence a new identical instance produces;
    the same holds for every pattern nested inside it (they are reset to their own initial states,
    because `reset p0 = p0` is an equality of whole trees). -/
theorem reset_rewinds {S : Cls → Prop} (hS : ∀ c, S c → ClsResetOK c) (fuel k : Nat) (p0 : Pat)
    (hp : AllCls S p0) (h0 : IsInit p0) : reset (after fuel k p0) = p0 := by
  rw [(reset_after hS fuel k p0 hp).2]; exact h0

/-- Repeated resets are harmless: a second `reset()` still yields the initial pattern. -/
theorem reset_twice {S : Cls → Prop} (hS : ∀ c, S c → ClsResetOK c) (fuel k : Nat) (p0 : Pat)
    (hp : AllCls S p0) (h0 : IsInit p0) : reset (reset (after fuel k p0)) = p0 := by
  rw [reset_rewinds hS fuel k p0 hp h0]; exact h0

/-- `all()` leaves the pattern rewound: after `Pattern.all(max)` (no exception) the pattern is `p0` again. -/
theorem nextn_is_after (fuel n : Nat) (p : Pat) : ∃ m, (nextn fuel n p).p = after fuel m p := by
  induction n generalizing p with
  | zero => exact ⟨0, rfl⟩
  | succ n ih =>
    simp only [nextn]
    split
    · obtain ⟨m, hm⟩ := ih (stepF fuel p).p
      exact ⟨m + 1, by simpa [after] using hm⟩
    · exact ⟨1, rfl⟩
    · exact ⟨1, rfl⟩

theorem all_rewinds {S : Cls → Prop} (hS : ∀ c, S c → ClsResetOK c) (fuel maximum : Nat) (p0 : Pat)
    (hp : AllCls S p0) (h0 : IsInit p0) (hok : (nextn fuel maximum p0).err = Option.none) :
    (all fuel maximum p0).p = p0 := by
  obtain ⟨m, hm⟩ := nextn_is_after fuel maximum p0
  simp only [all, hok]
  rw [hm]; exact reset_rewinds hS fuel m p0 hp h0

end IsobarV.Pat
