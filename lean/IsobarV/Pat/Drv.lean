/-
Line-protocol driver for the pattern model (suite `pat`).  Glue only.

expression syntax (tokens separated by single spaces):
  expr  := atom | ( <cls> [ { int* } ] [ [ atomval* ] ] [ [[ atomval* ]] ] [ [[[ atomval* ]]] ] [ < draw* > ] expr* )
           { } = integer registers n0..n5, [ ] = value registers v0..v2, [[ ]] = buf, [[[ ]]] = buf2
  atom  := 5 | -3 (int) | 3/8 | -5/1 (float, exact rational) | N (None) | T | F | "text | ( tup atom* )
  draw  := u:3/8 | b:10:3
  a bare atom used as an expression is the constant pattern of that value.
commands:
  def <slot> <expr>            define / replace a pattern
  next <slot> <n>              n calls of next(): prints the n outcomes
  nextn <slot> <n>             Pattern.nextn(n)
  all <slot> <max>             Pattern.all(max)
  len <slot> <max>             len(pattern) with LENGTH_MAX = max
  reset <slot>                 Pattern.reset()
  copy <slot> <newslot>        Pattern.copy()
  setkid <slot> <i> <expr>     replace the i-th pattern attribute (PRef.set_pattern)
outcome tokens: i:5  r:3/8  N  b:1  s:text  t(i:1,i:2)  stop  err:<kind>
-/
import IsobarV.Pat.Run
import IsobarV.Util.Parse

namespace IsobarV.Pat.Drv
open IsobarV.Pat IsobarV.Util

def FUEL : Nat := 100000

def clsOfName (s : String) : Option Cls :=
  match s with
  | "const" => some .const | "ref" => some .ref | "arrayIndex" => some .arrayIndex | "dict" => some .dict
  | "dictKey" => some .dictKey | "concat" => some .concat | "abs" => some .abs | "int" => some .int
  | "add" => some .add | "sub" => some .sub | "mul" => some .mul | "div" => some .div | "floorDiv" => some .floorDiv
  | "mod" => some .mod | "pow" => some .pow | "lshift" => some .lshift | "rshift" => some .rshift
  | "eq" => some .eq | "ne" => some .ne | "gt" => some .gt | "ge" => some .ge | "lt" => some .lt | "le" => some .le
  | "and" => some .and
  | "seq" => some .seq | "series" => some .series | "range" => some .range | "geom" => some .geom
  | "impulse" => some .impulse | "loop" => some .loop | "pingPong" => some .pingPong | "creep" => some .creep
  | "stutter" => some .stutter | "subsequence" => some .subsequence | "interpolate" => some .interpolate
  | "reverse" => some .reverse | "reset" => some .reset | "counter" => some .counter | "collapse" => some .collapse
  | "noRepeats" => some .noRepeats | "pad" => some .pad | "padToMultiple" => some .padToMultiple
  | "arpeggiator" => some .arpeggiator | "euclidean" => some .euclidean | "permut" => some .permut
  | "changed" => some .changed | "diff" => some .diff | "skipIf" => some .skipIf | "normalise" => some .normalise
  | "map" => some .map | "mapEnumerated" => some .mapEnumerated | "scaleLinLin" => some .scaleLinLin
  | "scaleLinExp" => some .scaleLinExp | "round" => some .round | "scalar" => some .scalar | "wrap" => some .wrap
  | "indexOf" => some .indexOf
  | "degree" => some .degree | "filterByKey" => some .filterByKey | "nearestNoteInKey" => some .nearestNoteInKey
  | "midiNoteToFrequency" => some .midiNoteToFrequency | "tri" => some .tri | "saw" => some .saw | "lsystem" => some .lsystem
  | "white" => some .white | "brown" => some .brown | "coin" => some .coin | "randomWalk" => some .randomWalk
  | "choice" => some .choice | "sample" => some .sample | "shuffle" => some .shuffle | "shuffleInput" => some .shuffleInput
  | "skip" => some .skip | "flipFlop" => some .flipFlop | "switchOne" => some .switchOne
  | "randomExponential" => some .randomExponential | "randomImpulseSequence" => some .randomImpulseSequence
  | "markov" => some .markov
  | "constP" => some .constP | "tupP" => some .tupP
  | "metropolis" => some .metropolis | "sequenceAction" => some .sequenceAction
  | "patternGeneratorAction" => some .patternGeneratorAction | "func" => some .func
  | "keyTonic" => some .keyTonic | "keyScale" => some .keyScale
  | _ => Option.none

def parseRat (s : String) : Option Rat :=
  match s.splitOn "/" with
  | [n, d] => match n.toInt?, d.toNat? with
    | some n, some d => if d = 0 then Option.none else some (mkRat n d)
    | _, _ => Option.none
  | _ => Option.none

def parseAtom (s : String) : Option Atom :=
  if s == "N" then some .none
  else if s == "T" then some (.bool true)
  else if s == "F" then some (.bool false)
  else if s.startsWith "\"" then some (.str (s.drop 1).toString)
  else match s.toInt? with
    | some i => some (.int i)
    | Option.none => (parseRat s).map .flt

def parseDraw (s : String) : Option Draw :=
  match s.splitOn ":" with
  | ["u", r] => (parseRat r).map .u
  | ["b", n, k] => match n.toNat?, k.toNat? with
    | some n, some k => some (.b n k)
    | _, _ => Option.none
  | _ => Option.none

/-- Parse the tokens of `( tup a b c )` after `( tup`: returns atoms and the rest after `)`. -/
def takeUntil (close : String) : List String → List String → List String × List String
  | [], acc => (acc.reverse, [])
  | t :: ts, acc => if t == close then (acc.reverse, ts) else takeUntil close ts (t :: acc)

/-- Recursive-descent parser with fuel = number of tokens. -/
def parseExpr : Nat → List String → Option (Pat × List String)
  | 0, _ => Option.none
  | fuel + 1, toks =>
    match toks with
    | [] => Option.none
    | "(" :: "tup" :: rest =>
      let (as, rest') := takeUntil ")" rest []
      some (Pat.const (.tup (as.filterMap parseAtom)), rest')
    | "(" :: cname :: rest =>
      match clsOfName cname with
      | Option.none => Option.none
      | some c =>
        -- optional registers
        let (ns, rest1) := match rest with
          | "{" :: r => let (xs, r') := takeUntil "}" r []; (xs.filterMap String.toInt?, r')
          | r => ([], r)
        let (vs, rest2a) := match rest1 with
          | "[" :: r =>
            let (xs, r') := takeUntil "]" r []
            (xs.filterMap (fun s => (parseAtom s).map Val.a), r')
          | r => ([], r)
        let (buf, rest2b) := match rest2a with
          | "[[" :: r =>
            let (xs, r') := takeUntil "]]" r []
            (xs.filterMap (fun s => (parseAtom s).map Val.a), r')
          | r => ([], r)
        let (buf2, rest2) := match rest2b with
          | "[[[" :: r =>
            let (xs, r') := takeUntil "]]]" r []
            (xs.filterMap (fun s => (parseAtom s).map Val.a), r')
          | r => ([], r)
        let (ds, rest3) := match rest2 with
          | "<" :: r => let (xs, r') := takeUntil ">" r []; (xs.filterMap parseDraw, r')
          | r => ([], r)
        let rec kidsLoop : Nat → List String → List Pat → Option (List Pat × List String)
          | 0, _, _ => Option.none
          | f + 1, ts, acc =>
            match ts with
            | [] => Option.none
            | ")" :: r => some (acc.reverse, r)
            | _ =>
              match parseExpr fuel ts with
              | some (k, r) => kidsLoop f r (k :: acc)
              | Option.none => Option.none
        match kidsLoop (fuel + 1) rest3 [] with
        | some (kids, r) => some (construct (.node c kids (St.ofLists ns vs buf buf2 ds)), r)
        | Option.none => Option.none
    | t :: rest => (parseAtom t).map (fun a => (Pat.const (.a a), rest))

def showRat (r : Rat) : String := s!"{r.num}/{r.den}"

def showAtom : Atom → String
  | .none => "N"
  | .int i => s!"i:{i}"
  | .flt r => s!"r:{showRat r}"
  | .bool b => if b then "b:1" else "b:0"
  | .str s => s!"s:{s}"

def showVal : Val → String
  | .a x => showAtom x
  | .tup xs => "t(" ++ joinWith "," (xs.map showAtom) ++ ")"

def showErr : Err → String
  | .typeError => "TypeError" | .zeroDivision => "ZeroDivisionError" | .indexError => "IndexError"
  | .valueError => "ValueError" | .keyError => "KeyError" | .overflow => "OverflowError"
  | .diverge => "diverge" | .unmodelled => "unmodelled"

def showOut : Out → String
  | .val v => showVal v
  | .stop => "stop"
  | .err e => "err:" ++ showErr e

structure St where
  slots : List (String × Pat) := []
  deriving Inhabited

def St.get (s : St) (k : String) : Option Pat := (s.slots.find? (fun e => e.1 == k)).map (·.2)
def St.set (s : St) (k : String) (p : Pat) : St := { slots := (k, p) :: s.slots.filter (fun e => e.1 != k) }

/-- When the call raises, the caller sees only the exception (the collected values are lost). -/
def showCollected (r : Collected) : String :=
  match r.err with
  | some e => " err:" ++ showErr e
  | Option.none => joinWith " " (r.vals.map showVal)

def handle (s : St) (line : String) : IO St := do
  match words line with
  | "def" :: slot :: toks =>
    match parseExpr (toks.length + 1) toks with
    | some (p, []) => IO.println "ok"; return s.set slot p
    | _ => IO.println s!"bad-expr"; return s
  | ["next", slot, n] =>
    match s.get slot with
    | some p =>
      IO.println (joinWith " " ((outs FUEL (toNat! n) p).map showOut))
      return s.set slot (after FUEL (toNat! n) p)
    | Option.none => IO.println "no-slot"; return s
  | ["nextn", slot, n] =>
    match s.get slot with
    | some p => let r := nextn FUEL (toNat! n) p; IO.println ("[" ++ showCollected r ++ "]"); return s.set slot r.p
    | Option.none => IO.println "no-slot"; return s
  | ["all", slot, n] =>
    match s.get slot with
    | some p => let r := all FUEL (toNat! n) p; IO.println ("[" ++ showCollected r ++ "]"); return s.set slot r.p
    | Option.none => IO.println "no-slot"; return s
  | ["len", slot, n] =>
    match s.get slot with
    | some p =>
      let r := len FUEL (toNat! n) p
      IO.println (match r.1 with | some k => toString k | Option.none => "err")
      return s.set slot r.2
    | Option.none => IO.println "no-slot"; return s
  | ["reset", slot] =>
    match s.get slot with
    | some p => IO.println "ok"; return s.set slot (reset p)
    | Option.none => IO.println "no-slot"; return s
  | ["copy", slot, slot2] =>
    match s.get slot with
    | some p => IO.println "ok"; return s.set slot2 p
    | Option.none => IO.println "no-slot"; return s
  | "setkid" :: slot :: i :: toks =>
    match s.get slot, parseExpr (toks.length + 1) toks with
    | some (.node c kids st), some (k, []) => IO.println "ok"; return s.set slot (.node c (kids.set (toNat! i) k) st)
    | _, _ => IO.println "bad-setkid"; return s
  | ["clear"] => IO.println "ok"; return {}
  | [] => return s
  | _ => IO.println s!"bad-line {line}"; return s

def main : IO Unit := do
  let stdin ← IO.getStdin
  let _ ← foldLines stdin ({} : St) handle
  return ()

end IsobarV.Pat.Drv
