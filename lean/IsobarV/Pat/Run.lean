/-
`next()`, `reset()`, `nextn`, `all`, `len`, iteration, `copy` on the pattern model.
-/
import IsobarV.Pat.Ext

namespace IsobarV.Pat

/-- The class's own-state reset; every class also rewinds its private generator (`rng.seed(seed)`). -/
def clsReset (c : Cls) (st : St) : St :=
  let st1 := match clsResetCore c with
    | some f => f st
    | Option.none =>
      match clsResetExt c with
      | some f => f st
      | Option.none => st
  { st1 with cur := 0 }

mutual
/-- `Pattern.reset()`: reset every pattern-valued attribute, recursively, then the own state. -/
def reset : Pat → Pat
  | .node c kids st => .node c (resetList kids) (clsReset c st)
def resetList : List Pat → List Pat
  | [] => []
  | k :: ks => reset k :: resetList ks
end

theorem resetList_eq_map (ks : List Pat) : resetList ks = ks.map reset := by
  induction ks with
  | nil => rfl
  | cons k ks ih => simp [resetList, ih]

theorem reset_node (c : Cls) (kids : List Pat) (st : St) :
    reset (.node c kids st) = .node c (kids.map reset) (clsReset c st) := by
  simp [reset, resetList_eq_map]

/-- Class dispatch of `next()`.  (Placed after `reset` because `PReset.__next__` calls `reset()` on a sub-pattern:
    the classes of `clsStepExtR` receive the generic `reset`.) -/
def clsStep (c : Cls) : ClsStep :=
  match clsStepCore c with
  | some f => f
  | Option.none =>
    match clsStepExt c with
    | some f => f
    | Option.none =>
      match clsStepExtR c with
      | some f => f reset
      | Option.none => fun _ kids st => { out := .err .unmodelled, kids := kids, st := st }

/-- `next(p)` with recursion depth bounded by `fuel` (out of fuel = `diverge`). -/
def stepF : Nat → Pat → StepRes
  | 0, p => { out := .err .diverge, p := p }
  | fuel + 1, .node c kids st =>
    let r := clsStep c (stepF fuel) kids st
    { out := r.out, p := .node c r.kids r.st }

/-- The first `n` outcomes of repeated `next()`. -/
def outs (fuel : Nat) : Nat → Pat → List Out
  | 0, _ => []
  | n + 1, p => (stepF fuel p).out :: outs fuel n (stepF fuel p).p

/-- The pattern after `n` calls of `next()`. -/
def after (fuel : Nat) : Nat → Pat → Pat
  | 0, p => p
  | n + 1, p => after fuel n (stepF fuel p).p

/-- `Pattern.nextn(count)`: values until `count` are collected or StopIteration; an exception
    propagates.  Returns the collected values, the exception (if any) and the pattern afterwards. -/
structure Collected where
  vals : List Val
  err : Option Err
  p : Pat
  deriving Repr

def nextn (fuel : Nat) : Nat → Pat → Collected
  | 0, p => { vals := [], err := Option.none, p := p }
  | n + 1, p =>
    match (stepF fuel p).out with
    | .val v => let r := nextn fuel n (stepF fuel p).p; { r with vals := v :: r.vals }
    | .stop => { vals := [], err := Option.none, p := (stepF fuel p).p }
    | .err e => { vals := [], err := some e, p := (stepF fuel p).p }

/-- `Pattern.all(maximum)`: `nextn` followed by `reset()`. -/
def all (fuel : Nat) (maximum : Nat) (p : Pat) : Collected :=
  let r := nextn fuel maximum p
  match r.err with
  | Option.none => { r with p := reset r.p }
  | some _ => r      -- the exception escapes before `self.reset()`

/-- `len(p)` = `len(p.all())`. -/
def len (fuel : Nat) (maximum : Nat) (p : Pat) : Option Nat × Pat :=
  let r := all fuel maximum p
  match r.err with
  | Option.none => (some r.vals.length, r.p)
  | some _ => (Option.none, r.p)

def Pat.depth : Pat → Nat
  | .node _ kids _ => 1 + (kids.map Pat.depth).foldl max 0

end IsobarV.Pat
