/-
Pattern algebra: values, outcomes, the generic pattern tree, and the open-recursion interface through
which every class's `__next__` is modelled (`isobar/pattern/*.py`).

* A pattern object is a node `⟨class, kids, state⟩`.  `kids` are its pattern-valued attributes
  (inputs and parameters; a plain scalar `x` is the node `const x`, so "this parameter may be a
  pattern" is the default, not a special case).  `state` is the class's own mutable state.
* `next(p)` is `step`: the class's step function receives `rec : Pat → StepRes` — "take one value
  from a sub-pattern" (`Pattern.value(child)`) — and performs the sub-steps in the same order as the
  Python code.  Theorems about a class are stated for an ARBITRARY `rec`, i.e. for arbitrary
  sub-patterns, which is what makes them hold at every nesting depth.
* Randomness comes from a recorded draw tape stored in the node (one generator per pattern object).

Import-free, total, computable.
-/
namespace IsobarV.Pat

/-- A scalar Python value. `flt` is a Python float carried as an exact rational. -/
inductive Atom where
  | none
  | int (i : Int)
  | flt (r : Rat)
  | bool (b : Bool)
  | str (s : String)
  deriving DecidableEq, Repr, Inhabited

/-- A value produced by a pattern: a scalar or a (flat) tuple of scalars. -/
inductive Val where
  | a (x : Atom)
  | tup (xs : List Atom)
  deriving DecidableEq, Repr, Inhabited

namespace Val
@[match_pattern] def none : Val := .a .none
@[match_pattern] def int (i : Int) : Val := .a (.int i)
@[match_pattern] def flt (r : Rat) : Val := .a (.flt r)
@[match_pattern] def bool (b : Bool) : Val := .a (.bool b)
@[match_pattern] def str (s : String) : Val := .a (.str s)
end Val

/-- Exception classes that matter to the properties. -/
inductive Err where
  | typeError | zeroDivision | indexError | valueError | keyError | overflow
  | diverge      -- the real code would not return (or the model ran out of fuel)
  | unmodelled   -- class or case outside the model
  deriving DecidableEq, Repr, Inhabited

/-- Outcome of one `next()`. -/
inductive Out where
  | val (v : Val)
  | stop              -- StopIteration
  | err (e : Err)
  deriving DecidableEq, Repr, Inhabited

/-- A primitive draw of `random.Random`: `random()` returned `u`, or `_randbelow(n)` returned `k`. -/
inductive Draw where
  | u (r : Rat)
  | b (n k : Nat)
  deriving DecidableEq, Repr, Inhabited

/-- Own state of a pattern object: six integer registers, three value registers, two value buffers,
    the draw tape of its private generator and the tape cursor.  Each class documents its layout. -/
structure St where
  n0 : Int := 0
  n1 : Int := 0
  n2 : Int := 0
  n3 : Int := 0
  n4 : Int := 0
  n5 : Int := 0
  v0 : Val := Val.a Atom.none
  v1 : Val := Val.a Atom.none
  v2 : Val := Val.a Atom.none
  buf : List Val := []
  buf2 : List Val := []
  tape : List Draw := []
  cur : Nat := 0
  deriving DecidableEq, Repr, Inhabited

/-- The modelled classes. -/
inductive Cls where
  -- core.py
  | const | ref | arrayIndex | dict | dictKey | concat | abs | int
  | add | sub | mul | div | floorDiv | mod | pow | lshift | rshift
  | eq | ne | gt | ge | lt | le | and
  -- sequence.py
  | seq | series | range | geom | impulse | loop | pingPong | creep | stutter | subsequence | interpolate
  | reverse | reset | counter | collapse | noRepeats | pad | padToMultiple | arpeggiator | euclidean | permut
  -- scalar.py
  | changed | diff | skipIf | normalise | map | mapEnumerated | scaleLinLin | scaleLinExp | round | scalar | wrap | indexOf
  -- tonal.py / oscillator.py / lsystem.py
  | degree | filterByKey | nearestNoteInKey | midiNoteToFrequency | tri | saw | lsystem
  -- chance.py / markov.py
  | white | brown | coin | randomWalk | choice | sample | shuffle | shuffleInput | skip | flipFlop | switchOne
  | randomExponential | randomImpulseSequence | markov
  -- recursive resolution by `Pattern.value` (misc group): `PConstant(<pattern>)`, a tuple containing patterns
  | constP | tupP
  -- ext2 group: sequence.py (PMetropolis, PSequenceAction, PPatternGeneratorAction), core.py (PFunc), tonal.py
  | metropolis | sequenceAction | patternGeneratorAction | func | keyTonic | keyScale
  deriving DecidableEq, Repr, Inhabited

/-- A pattern object. -/
inductive Pat where
  | node (cls : Cls) (kids : List Pat) (st : St)
  deriving Repr, Inhabited

namespace Pat
def cls : Pat → Cls | .node c _ _ => c
def kids : Pat → List Pat | .node _ k _ => k
def st : Pat → St | .node _ _ s => s
/-- `PConstant(v)` / a plain scalar. -/
def const (v : Val) : Pat := .node .const [] { v0 := v }
end Pat

/-- Result of taking one value from a pattern: the outcome and the pattern afterwards. -/
structure StepRes where
  out : Out
  p : Pat
  deriving Repr, Inhabited

/-- "Take one value from a sub-pattern" (`Pattern.value(child)`). -/
abbrev Rec := Pat → StepRes

/-- Result of a class's step function: outcome, kids and own state afterwards. -/
structure ClsRes where
  out : Out
  kids : List Pat
  st : St
  deriving Repr, Inhabited

/-- A class's `__next__`. -/
abbrev ClsStep := Rec → List Pat → St → ClsRes

/-! ### Register helpers (used by the driver's parser only) -/

def St.ofLists (ns : List Int) (vs : List Val) (buf buf2 : List Val) (tape : List Draw) : St :=
  { n0 := ns.getD 0 0, n1 := ns.getD 1 0, n2 := ns.getD 2 0, n3 := ns.getD 3 0, n4 := ns.getD 4 0, n5 := ns.getD 5 0,
    v0 := vs.getD 0 (Val.a Atom.none), v1 := vs.getD 1 (Val.a Atom.none), v2 := vs.getD 2 (Val.a Atom.none),
    buf := buf, buf2 := buf2, tape := tape }

/-- Replace the `i`-th kid. -/
def setKid (kids : List Pat) (i : Nat) (p : Pat) : List Pat := kids.set i p

/-- Step the `i`-th kid through `rec`; a missing kid is a model error. -/
def stepKid (rec : Rec) (kids : List Pat) (i : Nat) : Out × List Pat :=
  match kids[i]? with
  | some k => let r := rec k; (r.out, kids.set i r.p)
  | none => (.err .unmodelled, kids)

/-! ### Draw tape -/

/-- `rng.random()`. -/
def St.drawU (s : St) : Option Rat × St :=
  match s.tape[s.cur]? with
  | some (.u r) => (some r, { s with cur := s.cur + 1 })
  | _ => (Option.none, s)

/-- `rng._randbelow(n)`. -/
def St.drawB (s : St) (n : Nat) : Option Nat × St :=
  match s.tape[s.cur]? with
  | some (.b m k) => if m = n then (some k, { s with cur := s.cur + 1 }) else (Option.none, s)
  | _ => (Option.none, s)

end IsobarV.Pat
