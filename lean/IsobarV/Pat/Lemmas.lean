/-
Generic notions for theorems about pattern classes: the outcomes of a sub-pattern under an arbitrary
semantics `rec`, the outcomes of a class step function under `rec`, stickiness, reset-correctness.
-/
import IsobarV.Pat.Run

namespace IsobarV.Pat

/-- Outcomes of `n` successive `rec` steps of a sub-pattern. -/
def recOuts (rec : Rec) : Nat → Pat → List Out
  | 0, _ => []
  | n + 1, p => (rec p).out :: recOuts rec n (rec p).p

/-- The sub-pattern after `n` `rec` steps. -/
def recAfter (rec : Rec) : Nat → Pat → Pat
  | 0, p => p
  | n + 1, p => recAfter rec n (rec p).p

/-- Outcomes of `n` successive steps of a class's step function (sub-patterns taken through `rec`). -/
def clsOuts (step : ClsStep) (rec : Rec) : Nat → List Pat → St → List Out
  | 0, _, _ => []
  | n + 1, kids, st => (step rec kids st).out :: clsOuts step rec n (step rec kids st).kids (step rec kids st).st

theorem stepKid_get (rec : Rec) (kids : List Pat) (i : Nat) (k : Pat) (h : kids[i]? = some k) :
    stepKid rec kids i = ((rec k).out, kids.set i (rec k).p) := by
  simp [stepKid, h]

/-- With `rec := stepF fuel` the class-level outcomes are the outcomes of the node itself. -/
theorem outs_eq_clsOuts (fuel n : Nat) (c : Cls) (kids : List Pat) (st : St) :
    outs (fuel + 1) n (.node c kids st) = clsOuts (clsStep c) (stepF fuel) n kids st := by
  induction n generalizing kids st with
  | zero => rfl
  | succ n ih => simp only [outs, clsOuts, stepF]; rw [ih]

theorem recOuts_stepF (fuel n : Nat) (p : Pat) : recOuts (stepF fuel) n p = outs fuel n p := by
  induction n generalizing p with
  | zero => rfl
  | succ n ih => simp only [recOuts, outs]; rw [ih]

end IsobarV.Pat
