/-
Classes of `isobar/pattern/sequence.py`, first group: PSeries, PRange, PGeom, PImpulse, PLoop, PPingPong,
PStutter, PSubsequence, PCreep.  Each step function mirrors the class's `__next__` (after the fix patches
`fixes/*-seq1-*.patch`), sub-steps in the same order; own-state resets mirror `reset()`.

Register layouts (kids in the order given; a kid is resolved with `Pattern.value` / `next`)
  series       kids = [length, step]          v0 = start, v1 = value, n0 = count
  range        kids = [end, step]             v0 = start, v1 = value
  geom         kids = [multiply]              v0 = start, v1 = value, n0 = count, n1 = length (plain attribute)
  impulse      kids = [period]                n0 = pos
  loop         kids = [input]                 n0 = count (plain attribute), n1 = pos, n2 = loop_index,
                                              n3 = read_all (0/1), buf = values
  pingPong     kids = [input] (never stepped: `values = input.all()` is taken at construction / reset)
                                              n0 = count (plain attribute), n1 = pos, n2 = dir (initially 1),
                                              n3 = rpos, buf = values
  stutter      kids = [input, count]          v0 = value (initially 0), v1 = count_current (initially 0), n0 = pos
  subsequence  kids = [input, offset, length] n0 = pos, buf = values
  creep        kids = [input, length, creep, repeats, prob]
                                              n0 = pos, n1 = rcount (initially 1), buf = buffer
-/
import IsobarV.Pat.Core

namespace IsobarV.Pat

/-! ### Python operators without the pattern operators' `None` propagation -/

/-- `a <op> b` evaluated by Python itself (`self.value += step`): `None` is a TypeError. -/
def pyBin (op : BinOp) (a b : Val) : Out :=
  match a, b with
  | .a .none, _ => .err .typeError
  | _, .a .none => .err .typeError
  | _, _ => binopVal op a b

/-- A numeric comparison evaluated by Python (`self.count >= length`): `none` = TypeError (a rest, a
    string or a tuple on either side). -/
def numCmp (op : BinOp) (a b : Val) : Option Bool :=
  match a, b with
  | .a x, .a y =>
    match x.toNum, y.toNum with
    | some p, some q => some (cmpOp op p.r q.r)
    | _, _ => Option.none
  | _, _ => Option.none

/-! ### PSeries -/

/-- `PSeries.__next__`. -/
def stepSeries : ClsStep := fun rec kids st =>
  match (stepKid rec kids 0).1 with
  | .val len =>
    match numCmp .ge (Val.int st.n0) len with
    | Option.none => { out := .err .typeError, kids := (stepKid rec kids 0).2, st := st }
    | some true => { out := .stop, kids := (stepKid rec kids 0).2, st := st }
    | some false =>
      match (stepKid rec (stepKid rec kids 0).2 1).1 with
      | .val d =>
        match pyBin .add st.v1 d with
        | .val x => { out := .val st.v1, kids := (stepKid rec (stepKid rec kids 0).2 1).2,
                      st := { st with v1 := x, n0 := st.n0 + 1 } }
        | o => { out := o, kids := (stepKid rec (stepKid rec kids 0).2 1).2, st := st }
      | o => { out := o, kids := (stepKid rec (stepKid rec kids 0).2 1).2, st := st }
  | o => { out := o, kids := (stepKid rec kids 0).2, st := st }

def resetSeries (st : St) : St := { st with v1 := st.v0, n0 := 0 }

/-! ### PRange -/

/-- The tail of `PRange.__next__` once neither stop condition holds: `rv = value; value += step`. -/
def rangeEmit (d : Val) (kids : List Pat) (st : St) : ClsRes :=
  match pyBin .add st.v1 d with
  | .val x => { out := .val st.v1, kids := kids, st := { st with v1 := x } }
  | o => { out := o, kids := kids, st := st }

/-- `PRange.__next__`: `if step > 0 and value >= end: stop elif step < 0 and value <= end: stop`. -/
def stepRange : ClsStep := fun rec kids st =>
  match (stepKid rec kids 0).1 with
  | .val e =>
    match (stepKid rec (stepKid rec kids 0).2 1).1 with
    | .val d =>
      match numCmp .gt d (Val.int 0) with
      | Option.none => { out := .err .typeError, kids := (stepKid rec (stepKid rec kids 0).2 1).2, st := st }
      | some true =>
        match numCmp .ge st.v1 e with
        | Option.none => { out := .err .typeError, kids := (stepKid rec (stepKid rec kids 0).2 1).2, st := st }
        | some true => { out := .stop, kids := (stepKid rec (stepKid rec kids 0).2 1).2, st := st }
        | some false => rangeEmit d (stepKid rec (stepKid rec kids 0).2 1).2 st
      | some false =>
        match numCmp .lt d (Val.int 0) with
        | some true =>
          match numCmp .le st.v1 e with
          | Option.none => { out := .err .typeError, kids := (stepKid rec (stepKid rec kids 0).2 1).2, st := st }
          | some true => { out := .stop, kids := (stepKid rec (stepKid rec kids 0).2 1).2, st := st }
          | some false => rangeEmit d (stepKid rec (stepKid rec kids 0).2 1).2 st
        | _ => rangeEmit d (stepKid rec (stepKid rec kids 0).2 1).2 st
    | o => { out := o, kids := (stepKid rec (stepKid rec kids 0).2 1).2, st := st }
  | o => { out := o, kids := (stepKid rec kids 0).2, st := st }

def resetRange (st : St) : St := { st with v1 := st.v0 }

/-! ### PGeom -/

/-- `PGeom.__next__` (`length` is a plain attribute, never resolved). -/
def stepGeom : ClsStep := fun rec kids st =>
  if st.n0 ≥ st.n1 then { out := .stop, kids := kids, st := st }
  else
    match (stepKid rec kids 0).1 with
    | .val m =>
      match pyBin .mul st.v1 m with
      | .val x => { out := .val st.v1, kids := (stepKid rec kids 0).2, st := { st with v1 := x, n0 := st.n0 + 1 } }
      | o => { out := o, kids := (stepKid rec kids 0).2, st := st }
    | o => { out := o, kids := (stepKid rec kids 0).2, st := st }

def resetGeom (st : St) : St := { st with v1 := st.v0, n0 := 0 }

/-! ### PImpulse -/

/-- `PImpulse.__next__`: `if pos >= period: pos = 0`; `rv = 1 if pos == 0 else 0`; `pos += 1`. -/
def stepImpulse : ClsStep := fun rec kids st =>
  match (stepKid rec kids 0).1 with
  | .val p =>
    match numCmp .ge (Val.int st.n0) p with
    | Option.none => { out := .err .typeError, kids := (stepKid rec kids 0).2, st := st }
    | some true => { out := .val (Val.int 1), kids := (stepKid rec kids 0).2, st := { st with n0 := 1 } }
    | some false =>
      { out := .val (Val.int (if st.n0 = 0 then 1 else 0)), kids := (stepKid rec kids 0).2,
        st := { st with n0 := st.n0 + 1 } }
  | o => { out := o, kids := (stepKid rec kids 0).2, st := st }

def resetImpulse (st : St) : St := { st with n0 := 0 }

/-! ### PLoop -/

/-- `rv = self.values[self.pos]; self.pos += 1`. -/
def loopEmit (kids : List Pat) (st : St) : ClsRes :=
  match st.buf[st.n1.toNat]? with
  | some x => { out := .val x, kids := kids, st := { st with n1 := st.n1.toNat + 1 } }
  | Option.none => { out := .err .indexError, kids := kids, st := st }

/-- The part of `PLoop.__next__` after the read attempt, once `read_all` holds. -/
def loopTail (kids : List Pat) (st : St) : ClsRes :=
  if st.n1.toNat ≥ st.buf.length then
    if st.n2 ≥ st.n0 - 1 ∨ st.buf.length = 0 then { out := .stop, kids := kids, st := st }
    else loopEmit kids { st with n2 := st.n2 + 1, n1 := 0 }
  else loopEmit kids st

/-- `PLoop.__next__`: read the input through once (remembering it), then replay the remembered values. -/
def stepLoop : ClsStep := fun rec kids st =>
  if st.n3 = 0 then
    match (stepKid rec kids 0).1 with
    | .val v => loopEmit (stepKid rec kids 0).2 { st with buf := st.buf ++ [v] }
    | .stop => loopTail (stepKid rec kids 0).2 { st with n3 := 1 }
    | o => { out := o, kids := (stepKid rec kids 0).2, st := st }
  else loopTail kids st

def resetLoop (st : St) : St := { st with n1 := 0, n2 := 0, n3 := 0, buf := [] }

/-! ### PPingPong -/

/-- `PPingPong.__next__` over the values taken from the input at construction / reset. -/
def stepPingPong : ClsStep := fun _ kids st =>
  if (st.buf.length < 2 ∧ st.n1.toNat ≥ st.buf.length) ∨ (2 ≤ st.buf.length ∧ st.n1 = 1 ∧ st.n3 ≥ st.n0) then
    { out := .stop, kids := kids, st := st }
  else
    match st.buf[st.n1.toNat]? with
    | Option.none => { out := .err .indexError, kids := kids, st := st }
    | some x =>
      if st.n1 + st.n2 = (st.buf.length : Int) - 1 then
        { out := .val x, kids := kids, st := { st with n1 := st.n1 + st.n2, n2 := -1 } }
      else if st.n1 + st.n2 = 0 then
        { out := .val x, kids := kids, st := { st with n1 := st.n1 + st.n2, n2 := 1, n3 := st.n3 + 1 } }
      else { out := .val x, kids := kids, st := { st with n1 := st.n1 + st.n2 } }

def resetPingPong (st : St) : St := { st with n1 := 0, n2 := 1, n3 := 0 }

/-! ### PStutter -/

/-- `PStutter.__next__`: when the current value has been played `count_current` times, resolve `count`,
    take the next input value, and only then commit both. -/
def stepStutter : ClsStep := fun rec kids st =>
  match numCmp .ge (Val.int st.n0) st.v1 with
  | Option.none => { out := .err .typeError, kids := kids, st := st }
  | some true =>
    match (stepKid rec kids 1).1 with
    | .val c =>
      match (stepKid rec (stepKid rec kids 1).2 0).1 with
      | .val x => { out := .val x, kids := (stepKid rec (stepKid rec kids 1).2 0).2,
                    st := { st with v0 := x, v1 := c, n0 := 1 } }
      | o => { out := o, kids := (stepKid rec (stepKid rec kids 1).2 0).2, st := st }
    | o => { out := o, kids := (stepKid rec kids 1).2, st := st }
  | some false => { out := .val st.v0, kids := kids, st := { st with n0 := st.n0 + 1 } }

def resetStutter (st : St) : St := { st with v0 := Val.int 0, v1 := Val.int 0, n0 := 0 }

/-! ### PSubsequence -/

/-- `k` iterations of `values.append(next(self.pattern))`; an input that ends or raises stops the loop,
    keeping what was appended. -/
def fillBuf (rec : Rec) : Nat → List Pat → List Val → Out × List Pat × List Val
  | 0, kids, buf => (.val Val.none, kids, buf)
  | k + 1, kids, buf =>
    match (stepKid rec kids 0).1 with
    | .val v => fillBuf rec k (stepKid rec kids 0).2 (buf ++ [v])
    | o => (o, (stepKid rec kids 0).2, buf)

/-- After the fill loop: `rv = self.values[offset + self.pos]; self.pos += 1`. -/
def subEmit (r : Out × List Pat × List Val) (idx : Int) (st : St) : ClsRes :=
  match r.1 with
  | .val _ =>
    match pyIndex r.2.2.length idx with
    | some j =>
      match r.2.2[j]? with
      | some x => { out := .val x, kids := r.2.1, st := { st with buf := r.2.2, n0 := st.n0 + 1 } }
      | Option.none => { out := .err .indexError, kids := r.2.1, st := { st with buf := r.2.2 } }
    | Option.none => { out := .err .indexError, kids := r.2.1, st := { st with buf := r.2.2 } }
  | o => { out := o, kids := r.2.1, st := { st with buf := r.2.2 } }

/-- `PSubsequence.__next__`. -/
def stepSubsequence : ClsStep := fun rec kids st =>
  match (stepKid rec kids 1).1 with
  | .val off =>
    match (stepKid rec (stepKid rec kids 1).2 2).1 with
    | .val len =>
      match numCmp .ge (Val.int st.n0) len with
      | Option.none => { out := .err .typeError, kids := (stepKid rec (stepKid rec kids 1).2 2).2, st := st }
      | some true => { out := .stop, kids := (stepKid rec (stepKid rec kids 1).2 2).2, st := st }
      | some false =>
        match off with
        | .a (.int o) =>
          subEmit (fillBuf rec (st.n0 + o + 1 - st.buf.length).toNat (stepKid rec (stepKid rec kids 1).2 2).2 st.buf)
            (o + st.n0) st
        | .a .none => { out := .err .typeError, kids := (stepKid rec (stepKid rec kids 1).2 2).2, st := st }
        | _ => { out := .err .unmodelled, kids := (stepKid rec (stepKid rec kids 1).2 2).2, st := st }
    | o => { out := o, kids := (stepKid rec (stepKid rec kids 1).2 2).2, st := st }
  | o => { out := o, kids := (stepKid rec kids 1).2, st := st }

def resetSubsequence (st : St) : St := { st with n0 := 0, buf := [] }

/-! ### PCreep -/

/-- Resolve the listed kids in order; the first one that ends or raises stops the resolution. -/
def stepKidsSeq (rec : Rec) : List Nat → List Pat → List Val → Out × List Pat × List Val
  | [], kids, acc => (.val Val.none, kids, acc)
  | i :: is, kids, acc =>
    match (stepKid rec kids i).1 with
    | .val v => stepKidsSeq rec is (stepKid rec kids i).2 (acc ++ [v])
    | o => (o, (stepKid rec kids i).2, acc)

/-- `for n in range(creep): self.buffer.pop(0); self.buffer.append(next(self.pattern))`. -/
def creepLoop (rec : Rec) : Nat → List Pat → List Val → Out × List Pat × List Val
  | 0, kids, buf => (.val Val.none, kids, buf)
  | k + 1, kids, buf =>
    match buf with
    | [] => (.err .indexError, kids, buf)
    | _ :: rest =>
      match (stepKid rec kids 0).1 with
      | .val v => creepLoop rec k (stepKid rec kids 0).2 (rest ++ [v])
      | o => (o, (stepKid rec kids 0).2, rest)

/-- `random.uniform(0, 1) < prob` where it does not depend on the draw `u ∈ [0, 1)`: true for `prob ≥ 1`,
    false for `prob ≤ 0`; in between the outcome depends on the draw (the pattern's own generator since fix 4b64835,
    the global one before), which this model has no tape for: outside the model, decided on the real objects by
    `harness/props/c11.py` (`seeded_outside_chance_cases`). -/
def creepRepeat (pr : Val) : Out :=
  match numCmp .ge pr (Val.int 1), numCmp .le pr (Val.int 0) with
  | some true, _ => .val (Val.bool true)
  | _, some true => .val (Val.bool false)
  | some false, some false => .err .unmodelled
  | _, _ => .err .typeError

/-- `self.pos += 1; return self.buffer[self.pos - 1]` with the new `pos` and `rcount`. -/
def creepEmit (kids : List Pat) (b : List Val) (pos rcount : Int) (st : St) : ClsRes :=
  match pyIndex b.length (pos - 1) with
  | some j =>
    match b[j]? with
    | some x => { out := .val x, kids := kids, st := { st with n0 := pos, n1 := rcount, buf := b } }
    | Option.none => { out := .err .indexError, kids := kids, st := { st with n0 := pos, n1 := rcount, buf := b } }
  | Option.none => { out := .err .indexError, kids := kids, st := { st with n0 := pos, n1 := rcount, buf := b } }

/-- After the creep loop: `rcount = 1`, `pos` back to 0 (or held when `not repeat`). -/
def creepAfterLoop (r : Out × List Pat × List Val) (rep : Bool) (st : St) : ClsRes :=
  match r.1 with
  | .val _ => creepEmit r.2.1 r.2.2 (if rep then 1 else st.n0) 1 st
  | o => { out := o, kids := r.2.1, st := { st with buf := r.2.2 } }

/-- `PCreep.__next__` once the buffer `b` has exactly `length` items. -/
def creepMain (rec : Rec) (cr : Int) (rp pr : Val) (kids : List Pat) (b : List Val) (st : St) : ClsRes :=
  if st.n0.toNat ≥ b.length then
    match creepRepeat pr with
    | .val (.a (.bool rep)) =>
      match numCmp .ge (Val.int st.n1) rp with
      | Option.none => { out := .err .typeError, kids := kids, st := { st with buf := b } }
      | some ge =>
        if ge || !rep then creepAfterLoop (creepLoop rec cr.toNat kids b) rep st
        else creepEmit kids b 1 (st.n1 + 1) st
    | o => { out := o, kids := kids, st := { st with buf := b } }
  else creepEmit kids b (st.n0 + 1) st.n1 st

/-- After the fill loop: trim the buffer from the front to `length` items. -/
def creepAfterFill (rec : Rec) (len cr : Int) (rp pr : Val) (r : Out × List Pat × List Val) (st : St) : ClsRes :=
  match r.1 with
  | .val _ =>
    if len < 0 then { out := .err .indexError, kids := r.2.1, st := { st with buf := [] } }
    else creepMain rec cr rp pr r.2.1 (r.2.2.drop (r.2.2.length - len.toNat)) st
  | o => { out := o, kids := r.2.1, st := { st with buf := r.2.2 } }

/-- `PCreep.__next__`: resolve length, creep, repeats, prob; fill / trim the buffer; at the end of the
    buffer either repeat it or creep forward. -/
def stepCreep : ClsStep := fun rec kids st =>
  match (stepKidsSeq rec [1, 2, 3, 4] kids []).1, (stepKidsSeq rec [1, 2, 3, 4] kids []).2.2 with
  | .val _, [.a (.int len), .a (.int cr), rp, pr] =>
    creepAfterFill rec len cr rp pr
      (fillBuf rec (len - st.buf.length).toNat (stepKidsSeq rec [1, 2, 3, 4] kids []).2.1 st.buf) st
  | .val _, _ => { out := .err .unmodelled, kids := (stepKidsSeq rec [1, 2, 3, 4] kids []).2.1, st := st }
  | o, _ => { out := o, kids := (stepKidsSeq rec [1, 2, 3, 4] kids []).2.1, st := st }

def resetCreep (st : St) : St := { st with n0 := 0, n1 := 1, buf := [] }

end IsobarV.Pat
