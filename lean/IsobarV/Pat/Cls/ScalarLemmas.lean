/-
Generic lemmas about `pollKids` / `stepPoll` (resolve attributes in a fixed order, then compute) used by
the property files `Props/C04_Scalar.lean`, `C09_Scalar.lean`, `C10_Scalar.lean`, `C12_Scalar.lean`.
-/
import IsobarV.Pat.Sticky
import IsobarV.Props.C09

namespace IsobarV.Pat
open IsobarV.C09

/-! ### Shape -/

theorem stepKid_length (rec : Rec) (kids : List Pat) (i : Nat) : (stepKid rec kids i).2.length = kids.length := by
  unfold stepKid
  cases kids[i]? <;> simp

theorem pollKids_length (rec : Rec) (ord : List Nat) (kids : List Pat) :
    (pollKids rec ord kids).kids.length = kids.length := by
  induction ord generalizing kids with
  | nil => rfl
  | cons i is ih =>
    simp only [pollKids]
    split
    · rw [ih, stepKid_length]
    · exact stepKid_length rec kids i

/-- The outcome that ends a resolution is never a value. -/
theorem pollKids_fail_noVal (rec : Rec) (ord : List Nat) (kids : List Pat) (o : Out)
    (h : (pollKids rec ord kids).fail = some o) : NoVal o := by
  induction ord generalizing kids with
  | nil => simp [pollKids] at h
  | cons i is ih =>
    simp only [pollKids] at h
    split at h
    · exact ih _ h
    · rename_i hnv
      simp only [Option.some.injEq] at h
      subst h
      intro v hv
      exact hnv v hv

theorem stepPoll_kids (ord : Nat → List Nat) (f : St → List Val → FRes) (rec : Rec) (kids : List Pat) (st : St) :
    (stepPoll ord f rec kids st).kids = (pollKids rec (ord kids.length) kids).kids := by
  simp only [stepPoll]
  split <;> rfl

/-- A step that yields a value resolved every attribute successfully. -/
theorem stepPoll_val (ord : Nat → List Nat) (f : St → List Val → FRes) (rec : Rec) (kids : List Pat) (st : St) (v : Val)
    (h : (stepPoll ord f rec kids st).out = .val v) : (pollKids rec (ord kids.length) kids).fail = Option.none := by
  simp only [stepPoll] at h
  split at h
  · rename_i o ho
    exact absurd h (pollKids_fail_noVal rec _ kids o ho v)
  · assumption

/-! ### C04: reset-correctness -/

theorem pollKids_ok {P : Pat → Prop} {rec : Rec} (hrec : RecOK P rec) (ord : List Nat) (kids : List Pat)
    (hk : ∀ k ∈ kids, P k) :
    (∀ k ∈ (pollKids rec ord kids).kids, P k) ∧ (pollKids rec ord kids).kids.map reset = kids.map reset := by
  induction ord generalizing kids with
  | nil => exact ⟨hk, rfl⟩
  | cons i is ih =>
    obtain ⟨h1, h2⟩ := stepKid_ok hrec kids i hk
    simp only [pollKids]
    split
    · obtain ⟨i1, i2⟩ := ih _ h1
      exact ⟨i1, i2.trans h2⟩
    · exact ⟨h1, h2⟩

/-- A `stepPoll` class is reset-correct as soon as its computation does not change what the class's own
    reset makes of the state. -/
theorem poll_ok (ord : Nat → List Nat) (f : St → List Val → FRes) (c : Cls) (hc : clsStep c = stepPoll ord f)
    (hf : ∀ st vs, clsReset c (f st vs).st = clsReset c st) : ClsResetOK c := by
  intro P rec kids st hrec hk
  obtain ⟨h1, h2⟩ := pollKids_ok hrec (ord kids.length) kids hk
  rw [hc]
  simp only [stepPoll]
  split
  · exact ⟨h1, h2, rfl⟩
  · exact ⟨h1, h2, hf _ _⟩

/-! ### C09: stickiness -/

theorem pollKids_P {P : Pat → Prop} {rec : Rec} (hrec : RecSticky P rec) (ord : List Nat) (kids : List Pat)
    (hk : ∀ k ∈ kids, P k) : ∀ k ∈ (pollKids rec ord kids).kids, P k := by
  induction ord generalizing kids with
  | nil => exact hk
  | cons i is ih =>
    have h1 := stepKid_P hrec kids i hk
    simp only [pollKids]
    split
    · exact ih _ h1
    · exact h1

/-- A resolution that ends in StopIteration leaves a dead attribute behind. -/
theorem pollKids_stop {P : Pat → Prop} {rec : Rec} (hrec : RecSticky P rec) (ord : List Nat) (kids : List Pat)
    (hk : ∀ k ∈ kids, P k) (h : (pollKids rec ord kids).fail = some .stop) :
    ∃ i, i ∈ ord ∧ DeadAt rec (pollKids rec ord kids).kids i := by
  induction ord generalizing kids with
  | nil => simp [pollKids] at h
  | cons i is ih =>
    simp only [pollKids] at h ⊢
    split
    · rename_i v hv
      simp only [hv] at h
      obtain ⟨j, hj, hd⟩ := ih _ (stepKid_P hrec kids i hk) h
      exact ⟨j, List.mem_cons_of_mem _ hj, hd⟩
    · rename_i hnv
      split at h
      · rename_i v hv; exact absurd hv (hnv v)
      · simp only [Option.some.injEq] at h
        exact ⟨i, List.mem_cons_self, stepKid_stop_dead hrec hk h⟩

/-- With a dead attribute among those resolved, the resolution fails (no value), and the attribute stays dead. -/
theorem pollKids_dead (rec : Rec) (ord : List Nat) (kids : List Pat) (i : Nat) (hi : i ∈ ord)
    (hd : DeadAt rec kids i) :
    (∃ o, (pollKids rec ord kids).fail = some o) ∧ DeadAt rec (pollKids rec ord kids).kids i := by
  induction ord generalizing kids with
  | nil => simp at hi
  | cons j js ih =>
    simp only [pollKids]
    by_cases hji : j = i
    · subst hji
      obtain ⟨d1, d2⟩ := hd.step
      split
      · rename_i v hv; exact absurd hv (d1 v)
      · exact ⟨⟨_, rfl⟩, d2⟩
    · have hi' : i ∈ js := by
        rcases List.mem_cons.mp hi with h | h
        · exact absurd h.symm hji
        · exact h
      have hd' : DeadAt rec (stepKid rec kids j).2 i := hd.other hji
      split
      · exact ih _ hi' hd'
      · exact ⟨⟨_, rfl⟩, hd'⟩

/-- A `stepPoll` class whose computation never signals StopIteration itself is sticky: it ends only when
    one of its attributes ends, and that attribute is resolved again at every later step. -/
theorem poll_sticky (ord : Nat → List Nat) (f : St → List Val → FRes) (c : Cls) (hc : clsStep c = stepPoll ord f)
    (hf : ∀ st vs, (f st vs).out ≠ .stop) : ClsSticky c := by
  intro P rec kids st hrec hk
  rw [hc]
  refine ⟨by rw [stepPoll_kids]; exact pollKids_P hrec _ kids hk, fun hs => ?_⟩
  have hd : ∃ i, i ∈ ord (stepPoll ord f rec kids st).kids.length ∧ DeadAt rec (stepPoll ord f rec kids st).kids i := by
    rw [stepPoll_kids, pollKids_length]
    simp only [stepPoll] at hs
    split at hs
    · rename_i o ho
      simp only at hs
      subst hs
      exact pollKids_stop hrec _ kids hk ho
    · exact absurd hs (hf _ _)
  intro n
  apply clsOuts_noVal (stepPoll ord f) rec (fun kids _ => ∃ i, i ∈ ord kids.length ∧ DeadAt rec kids i) _ n _ _ hd
  intro kids st ⟨i, hi, hdi⟩
  obtain ⟨⟨o, ho⟩, hd2⟩ := pollKids_dead rec (ord kids.length) kids i hi hdi
  refine ⟨?_, ⟨i, by rw [stepPoll_kids, pollKids_length]; exact hi, by rw [stepPoll_kids]; exact hd2⟩⟩
  simp only [stepPoll, ho]
  exact pollKids_fail_noVal rec _ kids o ho

/-! ### C12: every resolved attribute is consumed exactly once, the others not at all -/

theorem stepKid_getElem? (rec : Rec) (kids : List Pat) (i j : Nat) :
    (stepKid rec kids i).2[j]? = if j = i then (kids[j]?).map (fun k => (rec k).p) else kids[j]? := by
  unfold stepKid
  cases h : kids[i]? with
  | none =>
    by_cases hji : j = i
    · subst hji; simp [h]
    · simp [hji]
  | some k =>
    by_cases hji : j = i
    · subst hji
      obtain ⟨hi, hk⟩ := List.getElem?_eq_some_iff.mp h
      simp [hi, hk]
    · have : i ≠ j := fun e => hji e.symm
      simp [hji, List.getElem?_set_ne this]

/-- After a successful resolution of the (pairwise distinct) indices `ord`, the kid at each index of `ord` is
    exactly one `rec`-step further and every other kid is untouched. -/
theorem pollKids_getElem? (rec : Rec) (ord : List Nat) (hnd : ord.Nodup) (kids : List Pat) (j : Nat)
    (h : (pollKids rec ord kids).fail = Option.none) :
    (pollKids rec ord kids).kids[j]? = if j ∈ ord then (kids[j]?).map (fun k => (rec k).p) else kids[j]? := by
  induction ord generalizing kids with
  | nil => simp [pollKids]
  | cons i is ih =>
    obtain ⟨hi, hnd'⟩ := List.nodup_cons.mp hnd
    simp only [pollKids] at h ⊢
    split
    · rename_i v hv
      simp only [hv] at h
      rw [ih hnd' _ h, stepKid_getElem?]
      by_cases hji : j = i
      · subst hji; simp [hi]
      · simp [hji]
    · rename_i hnv
      split at h
      · rename_i v hv; exact absurd hv (hnv v)
      · simp at h

/-- **Consumption**: a step of a `stepPoll` class that yields a value has advanced each attribute it resolves
    by exactly one `rec`-step (one value consumed, in order, none skipped, none read twice) … -/
theorem poll_param_once (ord : Nat → List Nat) (f : St → List Val → FRes) (hnd : ∀ n, (ord n).Nodup)
    (rec : Rec) (kids : List Pat) (st : St) (v : Val) (h : (stepPoll ord f rec kids st).out = .val v)
    (i : Nat) (k : Pat) (hi : i ∈ ord kids.length) (hk : kids[i]? = some k) :
    (stepPoll ord f rec kids st).kids[i]? = some (rec k).p := by
  rw [stepPoll_kids, pollKids_getElem? rec _ (hnd _) kids i (stepPoll_val ord f rec kids st v h)]
  simp [hi, hk]

/-- … and has left every other attribute alone. -/
theorem poll_other_untouched (ord : Nat → List Nat) (f : St → List Val → FRes) (hnd : ∀ n, (ord n).Nodup)
    (rec : Rec) (kids : List Pat) (st : St) (v : Val) (h : (stepPoll ord f rec kids st).out = .val v)
    (i : Nat) (hi : i ∉ ord kids.length) :
    (stepPoll ord f rec kids st).kids[i]? = kids[i]? := by
  rw [stepPoll_kids, pollKids_getElem? rec _ (hnd _) kids i (stepPoll_val ord f rec kids st v h)]
  simp [hi]

theorem ordArgsFirst_nodup (n : Nat) : (ordArgsFirst n).Nodup := by
  unfold ordArgsFirst
  rw [List.nodup_append]
  refine ⟨List.nodup_range', by simp, ?_⟩
  intro a ha b hb
  simp only [List.mem_singleton] at hb
  subst hb
  have := (List.mem_range'_1.mp ha).1
  omega

/-! ### C10: a computation threaded over the rows of resolved values -/

theorem recOuts_length' (rec : Rec) (n : Nat) (p : Pat) : (recOuts rec n p).length = n := by
  induction n generalizing p with
  | zero => rfl
  | succ n ih => simp [recOuts, ih]


/-- The outcomes of a computation `f` over successive rows of resolved values (own state threaded). -/
def runF (f : St → List Val → FRes) : St → List (List Val) → List Out
  | _, [] => []
  | st, r :: rs => (f st r).out :: runF f (f st r).st rs

theorem runF_pure1 (g : List Val → Out) (st : St) (rows : List (List Val)) : runF (pure1 g) st rows = rows.map g := by
  induction rows with
  | nil => rfl
  | cons r rs ih => simp [runF, pure1, ih]

/-- Rows of three columns. -/
def rows3 : List Val → List Val → List Val → List (List Val)
  | x :: xs, y :: ys, z :: zs => [x, y, z] :: rows3 xs ys zs
  | _, _, _ => []

/-- Rows of five columns. -/
def rows5 : List Val → List Val → List Val → List Val → List Val → List (List Val)
  | a :: as, b :: bs, c :: cs, d :: ds, e :: es => [a, b, c, d, e] :: rows5 as bs cs ds es
  | _, _, _, _, _ => []

/-- One attribute. -/
theorem poll1_reference (ord : Nat → List Nat) (hord : ord 1 = [0]) (f : St → List Val → FRes) (rec : Rec) (n : Nat)
    (a : Pat) (st : St) (xs : List Val) (ha : recOuts rec n a = xs.map .val) :
    clsOuts (stepPoll ord f) rec n [a] st = runF f st (xs.map (fun x => [x])) := by
  induction n generalizing a st xs with
  | zero => cases xs <;> simp_all [recOuts, clsOuts, runF]
  | succ n ih =>
    cases xs with
    | nil => simp [recOuts] at ha
    | cons x xs =>
      simp only [recOuts, List.map_cons, List.cons.injEq] at ha
      have hs : stepPoll ord f rec [a] st = { out := (f st [x]).out, kids := [(rec a).p], st := (f st [x]).st } := by
        simp [stepPoll, hord, pollKids, stepKid, ha.1]
      simp only [clsOuts, List.map_cons, runF, hs]
      rw [ih _ _ xs ha.2]

/-- Two attributes resolved in index order. -/
theorem poll2_reference (ord : Nat → List Nat) (hord : ord 2 = [0, 1]) (f : St → List Val → FRes) (rec : Rec) (n : Nat)
    (a b : Pat) (st : St) (xs ys : List Val) (ha : recOuts rec n a = xs.map .val) (hb : recOuts rec n b = ys.map .val) :
    clsOuts (stepPoll ord f) rec n [a, b] st = runF f st (List.zipWith (fun x y => [x, y]) xs ys) := by
  induction n generalizing a b st xs ys with
  | zero => cases xs <;> cases ys <;> simp_all [recOuts, clsOuts, runF]
  | succ n ih =>
    cases xs with
    | nil => simp [recOuts] at ha
    | cons x xs =>
      cases ys with
      | nil => simp [recOuts] at hb
      | cons y ys =>
        simp only [recOuts, List.map_cons, List.cons.injEq] at ha hb
        have hs : stepPoll ord f rec [a, b] st =
            { out := (f st [x, y]).out, kids := [(rec a).p, (rec b).p], st := (f st [x, y]).st } := by
          simp [stepPoll, hord, pollKids, stepKid, ha.1, hb.1]
        simp only [clsOuts, List.zipWith_cons_cons, runF, hs]
        rw [ih _ _ _ xs ys ha.2 hb.2]

/-- Two attributes, the second one resolved first (`PMap` with one argument: argument, then input). -/
theorem poll2r_reference (ord : Nat → List Nat) (hord : ord 2 = [1, 0]) (f : St → List Val → FRes) (rec : Rec) (n : Nat)
    (a b : Pat) (st : St) (xs ys : List Val) (ha : recOuts rec n a = xs.map .val) (hb : recOuts rec n b = ys.map .val) :
    clsOuts (stepPoll ord f) rec n [a, b] st = runF f st (List.zipWith (fun x y => [y, x]) xs ys) := by
  induction n generalizing a b st xs ys with
  | zero => cases xs <;> cases ys <;> simp_all [recOuts, clsOuts, runF]
  | succ n ih =>
    cases xs with
    | nil => simp [recOuts] at ha
    | cons x xs =>
      cases ys with
      | nil => simp [recOuts] at hb
      | cons y ys =>
        simp only [recOuts, List.map_cons, List.cons.injEq] at ha hb
        have hs : stepPoll ord f rec [a, b] st =
            { out := (f st [y, x]).out, kids := [(rec a).p, (rec b).p], st := (f st [y, x]).st } := by
          simp [stepPoll, hord, pollKids, stepKid, ha.1, hb.1]
        simp only [clsOuts, List.zipWith_cons_cons, runF, hs]
        rw [ih _ _ _ xs ys ha.2 hb.2]

/-- Three attributes resolved in index order. -/
theorem poll3_reference (ord : Nat → List Nat) (hord : ord 3 = [0, 1, 2]) (f : St → List Val → FRes) (rec : Rec) (n : Nat)
    (a b c : Pat) (st : St) (xs ys zs : List Val) (ha : recOuts rec n a = xs.map .val) (hb : recOuts rec n b = ys.map .val)
    (hc : recOuts rec n c = zs.map .val) :
    clsOuts (stepPoll ord f) rec n [a, b, c] st = runF f st (rows3 xs ys zs) := by
  induction n generalizing a b c st xs ys zs with
  | zero => cases xs <;> cases ys <;> cases zs <;> simp_all [recOuts, clsOuts, runF, rows3]
  | succ n ih =>
    cases xs with
    | nil => simp [recOuts] at ha
    | cons x xs =>
      cases ys with
      | nil => simp [recOuts] at hb
      | cons y ys =>
        cases zs with
        | nil => simp [recOuts] at hc
        | cons z zs =>
          simp only [recOuts, List.map_cons, List.cons.injEq] at ha hb hc
          have hs : stepPoll ord f rec [a, b, c] st =
              { out := (f st [x, y, z]).out, kids := [(rec a).p, (rec b).p, (rec c).p], st := (f st [x, y, z]).st } := by
            simp [stepPoll, hord, pollKids, stepKid, ha.1, hb.1, hc.1]
          simp only [clsOuts, rows3, runF, hs]
          rw [ih _ _ _ _ xs ys zs ha.2 hb.2 hc.2]

/-- Three attributes, arguments first (`PMap` with two arguments). -/
theorem poll3r_reference (ord : Nat → List Nat) (hord : ord 3 = [1, 2, 0]) (f : St → List Val → FRes) (rec : Rec) (n : Nat)
    (a b c : Pat) (st : St) (xs ys zs : List Val) (ha : recOuts rec n a = xs.map .val) (hb : recOuts rec n b = ys.map .val)
    (hc : recOuts rec n c = zs.map .val) :
    clsOuts (stepPoll ord f) rec n [a, b, c] st = runF f st (rows3 ys zs xs) := by
  induction n generalizing a b c st xs ys zs with
  | zero => cases xs <;> cases ys <;> cases zs <;> simp_all [recOuts, clsOuts, runF, rows3]
  | succ n ih =>
    cases xs with
    | nil => simp [recOuts] at ha
    | cons x xs =>
      cases ys with
      | nil => simp [recOuts] at hb
      | cons y ys =>
        cases zs with
        | nil => simp [recOuts] at hc
        | cons z zs =>
          simp only [recOuts, List.map_cons, List.cons.injEq] at ha hb hc
          have hs : stepPoll ord f rec [a, b, c] st =
              { out := (f st [y, z, x]).out, kids := [(rec a).p, (rec b).p, (rec c).p], st := (f st [y, z, x]).st } := by
            simp [stepPoll, hord, pollKids, stepKid, ha.1, hb.1, hc.1]
          simp only [clsOuts, rows3, runF, hs]
          rw [ih _ _ _ _ xs ys zs ha.2 hb.2 hc.2]

/-- Five attributes, the four arguments first (`PScaleLinLin`, `PScaleLinExp`). -/
theorem poll5r_reference (ord : Nat → List Nat) (hord : ord 5 = [1, 2, 3, 4, 0]) (f : St → List Val → FRes) (rec : Rec)
    (n : Nat) (a b c d e : Pat) (st : St) (xs bs cs ds es : List Val)
    (ha : recOuts rec n a = xs.map .val) (hb : recOuts rec n b = bs.map .val) (hc : recOuts rec n c = cs.map .val)
    (hd : recOuts rec n d = ds.map .val) (he : recOuts rec n e = es.map .val) :
    clsOuts (stepPoll ord f) rec n [a, b, c, d, e] st = runF f st (rows5 bs cs ds es xs) := by
  induction n generalizing a b c d e st xs bs cs ds es with
  | zero => cases xs <;> cases bs <;> cases cs <;> cases ds <;> cases es <;> simp_all [recOuts, clsOuts, runF, rows5]
  | succ n ih =>
    cases xs with
    | nil => simp [recOuts] at ha
    | cons x xs =>
      cases bs with
      | nil => simp [recOuts] at hb
      | cons y bs =>
        cases cs with
        | nil => simp [recOuts] at hc
        | cons z cs =>
          cases ds with
          | nil => simp [recOuts] at hd
          | cons u ds =>
            cases es with
            | nil => simp [recOuts] at he
            | cons w es =>
              simp only [recOuts, List.map_cons, List.cons.injEq] at ha hb hc hd he
              have hs : stepPoll ord f rec [a, b, c, d, e] st =
                  { out := (f st [y, z, u, w, x]).out, kids := [(rec a).p, (rec b).p, (rec c).p, (rec d).p, (rec e).p],
                    st := (f st [y, z, u, w, x]).st } := by
                simp [stepPoll, hord, pollKids, stepKid, ha.1, hb.1, hc.1, hd.1, he.1]
              simp only [clsOuts, rows5, runF, hs]
              rw [ih _ _ _ _ _ _ xs bs cs ds es ha.2 hb.2 hc.2 hd.2 he.2]

theorem clsOuts_succ (step : ClsStep) (rec : Rec) (n : Nat) (kids : List Pat) (st : St) :
    clsOuts step rec (n + 1) kids st =
      (step rec kids st).out :: clsOuts step rec n (step rec kids st).kids (step rec kids st).st := rfl

theorem recOuts_succ (rec : Rec) (n : Nat) (p : Pat) : recOuts rec (n + 1) p = (rec p).out :: recOuts rec n (rec p).p := rfl

/-! ### … and the step at which the input ends: StopIteration, after exactly the rows before it -/

/-- One attribute: `m` values then StopIteration give `m` outcomes of `f` then StopIteration. -/
theorem poll1_ends (ord : Nat → List Nat) (hord : ord 1 = [0]) (f : St → List Val → FRes) (rec : Rec)
    (a : Pat) (st : St) (xs : List Val) (ha : recOuts rec (xs.length + 1) a = xs.map .val ++ [.stop]) :
    clsOuts (stepPoll ord f) rec (xs.length + 1) [a] st = runF f st (xs.map (fun x => [x])) ++ [.stop] := by
  induction xs generalizing a st with
  | nil =>
    simp only [List.length_nil, recOuts, List.map_nil, List.nil_append, List.cons.injEq, and_true] at ha
    simp [clsOuts, runF, stepPoll, hord, pollKids, stepKid, ha]
  | cons x xs ih =>
    rw [List.length_cons, recOuts_succ] at ha
    simp only [List.map_cons, List.cons_append, List.cons.injEq] at ha
    have hs : stepPoll ord f rec [a] st = { out := (f st [x]).out, kids := [(rec a).p], st := (f st [x]).st } := by
      simp [stepPoll, hord, pollKids, stepKid, ha.1]
    rw [List.length_cons, clsOuts_succ, hs]
    simp only [List.map_cons, runF, List.cons_append]
    rw [ih _ _ ha.2]

/-- Two attributes in index order, the first one (the input) ends: the second is not resolved at that step. -/
theorem poll2_ends (ord : Nat → List Nat) (hord : ord 2 = [0, 1]) (f : St → List Val → FRes) (rec : Rec)
    (a b : Pat) (st : St) (xs ys : List Val) (ha : recOuts rec (xs.length + 1) a = xs.map .val ++ [.stop])
    (hb : recOuts rec xs.length b = ys.map .val) :
    clsOuts (stepPoll ord f) rec (xs.length + 1) [a, b] st = runF f st (List.zipWith (fun x y => [x, y]) xs ys) ++ [.stop] := by
  induction xs generalizing a b st ys with
  | nil =>
    simp only [List.length_nil, recOuts, List.map_nil, List.nil_append, List.cons.injEq, and_true] at ha
    simp [clsOuts, runF, stepPoll, hord, pollKids, stepKid, ha]
  | cons x xs ih =>
    cases ys with
    | nil => simp [recOuts] at hb
    | cons y ys =>
      rw [List.length_cons, recOuts_succ] at ha hb
      simp only [List.map_cons, List.cons_append, List.cons.injEq] at ha hb
      have hs : stepPoll ord f rec [a, b] st =
          { out := (f st [x, y]).out, kids := [(rec a).p, (rec b).p], st := (f st [x, y]).st } := by
        simp [stepPoll, hord, pollKids, stepKid, ha.1, hb.1]
      rw [List.length_cons, clsOuts_succ, hs]
      simp only [List.zipWith_cons_cons, runF, List.cons_append]
      rw [ih _ _ _ ys ha.2 hb.2]

/-- `PMap` with one argument: the argument is resolved (once more) before the input is found to have ended. -/
theorem poll2r_ends (ord : Nat → List Nat) (hord : ord 2 = [1, 0]) (f : St → List Val → FRes) (rec : Rec)
    (a b : Pat) (st : St) (xs ys : List Val) (y' : Val) (ha : recOuts rec (xs.length + 1) a = xs.map .val ++ [.stop])
    (hb : recOuts rec (xs.length + 1) b = ys.map .val ++ [.val y']) :
    clsOuts (stepPoll ord f) rec (xs.length + 1) [a, b] st = runF f st (List.zipWith (fun x y => [y, x]) xs ys) ++ [.stop] := by
  induction xs generalizing a b st ys with
  | nil =>
    cases ys with
    | nil =>
      simp only [List.length_nil, recOuts, List.map_nil, List.nil_append, List.cons.injEq, and_true] at ha hb
      simp [clsOuts, runF, stepPoll, hord, pollKids, stepKid, ha, hb]
    | cons y ys =>
      have := congrArg List.length hb
      simp [recOuts_length'] at this
  | cons x xs ih =>
    cases ys with
    | nil =>
      have := congrArg List.length hb
      simp [recOuts_length'] at this
    | cons y ys =>
      rw [List.length_cons, recOuts_succ] at ha hb
      simp only [List.map_cons, List.cons_append, List.cons.injEq] at ha hb
      have hs : stepPoll ord f rec [a, b] st =
          { out := (f st [y, x]).out, kids := [(rec a).p, (rec b).p], st := (f st [y, x]).st } := by
        simp [stepPoll, hord, pollKids, stepKid, ha.1, hb.1]
      rw [List.length_cons, clsOuts_succ, hs]
      simp only [List.zipWith_cons_cons, runF, List.cons_append]
      rw [ih _ _ _ ys ha.2 hb.2]

/-- Three attributes in index order, the first one (the input) ends. -/
theorem poll3_ends (ord : Nat → List Nat) (hord : ord 3 = [0, 1, 2]) (f : St → List Val → FRes) (rec : Rec)
    (a b c : Pat) (st : St) (xs ys zs : List Val) (ha : recOuts rec (xs.length + 1) a = xs.map .val ++ [.stop])
    (hb : recOuts rec xs.length b = ys.map .val) (hc : recOuts rec xs.length c = zs.map .val) :
    clsOuts (stepPoll ord f) rec (xs.length + 1) [a, b, c] st = runF f st (rows3 xs ys zs) ++ [.stop] := by
  induction xs generalizing a b c st ys zs with
  | nil =>
    simp only [List.length_nil, recOuts, List.map_nil, List.nil_append, List.cons.injEq, and_true] at ha
    simp [clsOuts, runF, rows3, stepPoll, hord, pollKids, stepKid, ha]
  | cons x xs ih =>
    cases ys with
    | nil => simp [recOuts] at hb
    | cons y ys =>
      cases zs with
      | nil => simp [recOuts] at hc
      | cons z zs =>
        rw [List.length_cons, recOuts_succ] at ha hb hc
        simp only [List.map_cons, List.cons_append, List.cons.injEq] at ha hb hc
        have hs : stepPoll ord f rec [a, b, c] st =
            { out := (f st [x, y, z]).out, kids := [(rec a).p, (rec b).p, (rec c).p], st := (f st [x, y, z]).st } := by
          simp [stepPoll, hord, pollKids, stepKid, ha.1, hb.1, hc.1]
        rw [List.length_cons, clsOuts_succ, hs]
        simp only [rows3, runF, List.cons_append]
        rw [ih _ _ _ _ ys zs ha.2 hb.2 hc.2]

end IsobarV.Pat
