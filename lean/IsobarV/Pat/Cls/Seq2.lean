/-
Classes of `isobar/pattern/sequence.py`, second group: PReverse, PPad, PPadToMultiple, PCounter, PReset,
PCollapse, PNoRepeats, PPermut, PInterpolate, PEuclidean, PArpeggiator (deterministic orders).
Each step function mirrors the class's `__next__` (sub-steps in the same order); each `resetX` is what
the class's `reset()` does to its own state (after the `fix:` patches of fixes/…-seq2-*.patch).

Register layouts (kids = pattern-valued attributes, in this order)
  reverse        kids = [input]             n0 = materialised (0/1), buf = values still to come (already reversed)
                 The constructor and `reset()` run `reversed(list(self.input))`; the model materialises lazily, at the first
                 `next()` after construction/reset, which is observationally the same for a private input.
  pad            kids = [pattern]           n0 = length (plain int, never resolved), n1 = count
  padToMultiple  kids = [pattern]           n0 = multiple, n1 = minimum_pad (plain ints), n2 = count, n3 = padcount
  counter        kids = [trigger]           n0 = count, n1 = [self.value > 0] (only the sign of `self.value` is ever used)
  reset          kids = [pattern, trigger]
  collapse       kids = [input]
  noRepeats      kids = [input]             v0 = self.value (initially sys.maxsize)
  permut         kids = [input]             n0 = count (plain int), n1 = permindex (initially sys.maxsize), n2 = pos,
                                            n3 = 0: `permutations == []` / 1: `permutations = permutations(buf)`; buf = values of the block
  interpolate    kids = [pattern, steps]    n0 = interpolation (0 none, 1 linear, 2 cosine: unmodelled, other: ValueError),
                                            n1 = initialised (0/1: `reset()`'s `next(self.pattern)` done lazily), n2 = pos,
                                            v0 = self.value, buf = step_values
  euclidean      kids = [mod, length]       n0 = pos, n1 = phase
  arpeggiator    kids = []                  n0 = type, n1 = loop (0/1), n2 = pos, buf = the chord as passed (sorted at use)
-/
import IsobarV.Pat.Core

namespace IsobarV.Pat

/-- Fuel of the unbounded `while` loops of PCollapse / PNoRepeats / PInterpolate / `list(input)`: the real code
    does not return when the loop never exits; the model reports `diverge` after this many iterations. -/
def LOOPFUEL : Nat := 100000

def MAXSIZE : Int := 9223372036854775807

/-! ### Python helpers -/

/-- Python `==` on scalars: numbers (int, float, bool) by value, `None`/strings structurally. -/
def Atom.pyEq (a b : Atom) : Bool :=
  match a.toNum, b.toNum with
  | some x, some y => x.r == y.r
  | Option.none, Option.none => a == b
  | _, _ => false

def pyEqList : List Atom → List Atom → Bool
  | [], [] => true
  | x :: xs, y :: ys => x.pyEq y && pyEqList xs ys
  | _, _ => false

/-- Python `==` on pattern values. -/
def Val.pyEq : Val → Val → Bool
  | .a x, .a y => x.pyEq y
  | .tup xs, .tup ys => pyEqList xs ys
  | _, _ => false

/-- `x > 0` for a number (`none` = TypeError: a rest, a string or a tuple). -/
def gtZero : Val → Option Bool
  | .a x => x.toNum.map (fun n => decide (0 < n.r))
  | .tup _ => Option.none

/-- `x is not None and x > 0` (`none` = TypeError). -/
def trigPos : Val → Option Bool
  | .a .none => some false
  | v => gtZero v

/-- `round(x, 8)` on an exact rational.  (Half-up here, half-even in Python: the two differ only on exact ties at the
    ninth decimal, and no such tie lies within rounding distance of a whole number — `N − 0.5·10⁻⁸` is not a dyadic
    rational — so `int(round(x, 8))` below is the same either way.) -/
def round8 (q : Rat) : Rat := ((q * 100000000 + 1 / 2).floor : Rat) / 100000000

/-- Python `int(round(x, 8))` for a number — the step count of `PInterpolate` since fix af593e3: a computed count such
    as `0.3 / 0.1 = 2.9999999999999996` is three steps, `2.5` is two; `None` and tuples raise TypeError. -/
def pyInt : Val → Out
  | .a .none => .err .typeError
  | .a (.str _) => .err .unmodelled
  | .a x =>
    match x.toNum with
    | some n => .val (.a (.int (truncRat (round8 n.r))))
    | Option.none => .err .typeError
  | .tup _ => .err .typeError

/-! ### PReverse -/

/-- `list(self.input)`: values until StopIteration, accumulated in reverse order.  Returns the outcome that
    ended the loop, the kids and the accumulated (reversed) values. -/
def drainLoop (rec : Rec) : Nat → List Pat → List Val → Out × List Pat × List Val
  | 0, kids, acc => (.err .diverge, kids, acc)
  | fuel + 1, kids, acc =>
    match (stepKid rec kids 0).1 with
    | .val v => drainLoop rec fuel (stepKid rec kids 0).2 (v :: acc)
    | o => (o, (stepKid rec kids 0).2, acc)

def stepReverse : ClsStep := fun rec kids st =>
  if st.n0 = 0 then
    match (drainLoop rec LOOPFUEL kids []).1 with
    | .stop =>
      match (drainLoop rec LOOPFUEL kids []).2.2 with
      | v :: vs => { out := .val v, kids := (drainLoop rec LOOPFUEL kids []).2.1, st := { st with n0 := 1, buf := vs } }
      | [] => { out := .stop, kids := (drainLoop rec LOOPFUEL kids []).2.1, st := { st with n0 := 1, buf := [] } }
    | .val _ => { out := .err .unmodelled, kids := kids, st := st }     -- unreachable
    | .err e => { out := .err e, kids := (drainLoop rec LOOPFUEL kids []).2.1, st := st }   -- the constructor / reset() raises
  else
    match st.buf with
    | v :: vs => { out := .val v, kids := kids, st := { st with buf := vs } }
    | [] => { out := .stop, kids := kids, st := st }

def resetReverse (st : St) : St := { st with n0 := 0, buf := [] }

/-! ### PPad, PPadToMultiple -/

def stepPad : ClsStep := fun rec kids st =>
  match (stepKid rec kids 0).1 with
  | .val v => { out := .val v, kids := (stepKid rec kids 0).2, st := { st with n1 := st.n1 + 1 } }
  | .stop =>
    if st.n1 ≥ st.n0 then { out := .stop, kids := (stepKid rec kids 0).2, st := st }
    else { out := .val Val.none, kids := (stepKid rec kids 0).2, st := { st with n1 := st.n1 + 1 } }
  | .err e => { out := .err e, kids := (stepKid rec kids 0).2, st := st }

def resetPad (st : St) : St := { st with n1 := 0 }

/-- `padcount >= minimum_pad and count % multiple == 0` (`%` is only evaluated when the first test holds;
    `x % m == 0` is divisibility whatever the sign convention of `%`). -/
def stepPadToMultiple : ClsStep := fun rec kids st =>
  match (stepKid rec kids 0).1 with
  | .val v => { out := .val v, kids := (stepKid rec kids 0).2, st := { st with n2 := st.n2 + 1 } }
  | .stop =>
    if st.n3 ≥ st.n1 then
      if st.n0 = 0 then { out := .err .zeroDivision, kids := (stepKid rec kids 0).2, st := st }
      else if st.n2 % st.n0 = 0 then { out := .stop, kids := (stepKid rec kids 0).2, st := st }
      else { out := .val Val.none, kids := (stepKid rec kids 0).2, st := { st with n2 := st.n2 + 1, n3 := st.n3 + 1 } }
    else { out := .val Val.none, kids := (stepKid rec kids 0).2, st := { st with n2 := st.n2 + 1, n3 := st.n3 + 1 } }
  | .err e => { out := .err e, kids := (stepKid rec kids 0).2, st := st }

def resetPadToMultiple (st : St) : St := { st with n2 := 0, n3 := 0 }

/-! ### PCounter -/

def stepCounter : ClsStep := fun rec kids st =>
  match (stepKid rec kids 0).1 with
  | .val v =>
    match gtZero v with
    | some true =>
      if st.n1 = 0 then { out := .val (.int (st.n0 + 1)), kids := (stepKid rec kids 0).2, st := { st with n0 := st.n0 + 1, n1 := 1 } }
      else { out := .val (.int st.n0), kids := (stepKid rec kids 0).2, st := st }
    | some false => { out := .val (.int st.n0), kids := (stepKid rec kids 0).2, st := { st with n1 := 0 } }
    | Option.none => { out := .err .typeError, kids := (stepKid rec kids 0).2, st := st }
  | o => { out := o, kids := (stepKid rec kids 0).2, st := st }

def resetCounter (st : St) : St := { st with n0 := 0, n1 := 0 }

/-! ### PReset -/

/-- `self.pattern.reset()` on the `i`-th kid. -/
def resetKid (rs : Pat → Pat) (kids : List Pat) (i : Nat) : List Pat :=
  match kids[i]? with
  | some k => kids.set i (rs k)
  | Option.none => kids

/-- `PReset.__next__`, parametric in the generic `reset` of patterns (defined after the class dispatch). -/
def stepResetW (rs : Pat → Pat) : ClsStep := fun rec kids st =>
  match (stepKid rec kids 1).1 with
  | .val t =>
    match trigPos t with
    | some true =>
      { out := (stepKid rec (resetKid rs (stepKid rec kids 1).2 0) 0).1,
        kids := (stepKid rec (resetKid rs (stepKid rec kids 1).2 0) 0).2, st := st }
    | some false =>
      { out := (stepKid rec (stepKid rec kids 1).2 0).1, kids := (stepKid rec (stepKid rec kids 1).2 0).2, st := st }
    | Option.none => { out := .err .typeError, kids := (stepKid rec kids 1).2, st := st }
  | o => { out := o, kids := (stepKid rec kids 1).2, st := st }

/-! ### PCollapse, PNoRepeats -/

/-- `while rv is None: rv = Pattern.value(self.input)`. -/
def collapseLoop (rec : Rec) : Nat → List Pat → Out × List Pat
  | 0, kids => (.err .diverge, kids)
  | fuel + 1, kids =>
    match (stepKid rec kids 0).1 with
    | .val (.a .none) => collapseLoop rec fuel (stepKid rec kids 0).2
    | o => (o, (stepKid rec kids 0).2)

def stepCollapse : ClsStep := fun rec kids st =>
  { out := (collapseLoop rec LOOPFUEL kids).1, kids := (collapseLoop rec LOOPFUEL kids).2, st := st }

/-- `while rv == self.value or rv == sys.maxsize: rv = Pattern.value(self.input)`. -/
def noRepLoop (rec : Rec) (prev : Val) : Nat → List Pat → Out × List Pat
  | 0, kids => (.err .diverge, kids)
  | fuel + 1, kids =>
    match (stepKid rec kids 0).1 with
    | .val v =>
      if v.pyEq prev || v.pyEq (.int MAXSIZE) then noRepLoop rec prev fuel (stepKid rec kids 0).2
      else (.val v, (stepKid rec kids 0).2)
    | o => (o, (stepKid rec kids 0).2)

def stepNoRepeats : ClsStep := fun rec kids st =>
  match (noRepLoop rec st.v0 LOOPFUEL kids).1 with
  | .val v => { out := .val v, kids := (noRepLoop rec st.v0 LOOPFUEL kids).2, st := { st with v0 := v } }
  | o => { out := o, kids := (noRepLoop rec st.v0 LOOPFUEL kids).2, st := st }

def resetNoRepeats (st : St) : St := { st with v0 := .int MAXSIZE }

/-! ### PPermut -/

/-- Every element with the list of the others, in order. -/
def picks {α : Type} : List α → List (α × List α)
  | [] => []
  | x :: xs => (x, xs) :: (picks xs).map (fun p => (p.1, x :: p.2))

/-- `itertools.permutations(l)` (lexicographic in the positions), by recursion on the length. -/
def permsF {α : Type} : Nat → List α → List (List α)
  | 0, _ => [[]]
  | n + 1, l => (picks l).flatMap (fun p => (permsF n p.2).map (fun q => p.1 :: q))

def perms {α : Type} (l : List α) : List (List α) := permsF l.length l

/-- Read up to `c` values of the block; StopIteration ends the block, an exception escapes. -/
def permBlock (rec : Rec) : Nat → List Pat → List Val → Option Err × List Pat × List Val
  | 0, kids, acc => (Option.none, kids, acc.reverse)
  | c + 1, kids, acc =>
    match (stepKid rec kids 0).1 with
    | .val v => permBlock rec c (stepKid rec kids 0).2 (v :: acc)
    | .stop => (Option.none, (stepKid rec kids 0).2, acc.reverse)
    | .err e => (some e, (stepKid rec kids 0).2, acc.reverse)

/-- `len(self.permutations)`. -/
def permCount (st : St) : Int := if st.n3 = 0 then 0 else ((perms st.buf).length : Int)

def permAt (buf : List Val) (i j : Nat) : Option Val := ((perms buf)[i]?).bind (fun q => q[j]?)

/-- `if permindex >= len(permutations): raise StopIteration; rv = permutations[permindex][pos]; pos += 1`. -/
def permEmit (kids : List Pat) (st : St) : ClsRes :=
  if st.n1 ≥ permCount st then { out := .stop, kids := kids, st := st }
  else
    match permAt st.buf st.n1.toNat st.n2.toNat with
    | some v => { out := .val v, kids := kids, st := { st with n2 := st.n2 + 1 } }
    | Option.none => { out := .err .indexError, kids := kids, st := st }

def stepPermut : ClsStep := fun rec kids st =>
  if st.n1 > permCount st then
    match (permBlock rec st.n0.toNat kids []).1 with
    | some e => { out := .err e, kids := (permBlock rec st.n0.toNat kids []).2.1, st := st }
    | Option.none =>
      match (permBlock rec st.n0.toNat kids []).2.2 with
      | [] => { out := .stop, kids := (permBlock rec st.n0.toNat kids []).2.1, st := st }     -- `if not values: raise StopIteration`
      | v :: vs =>
        permEmit (permBlock rec st.n0.toNat kids []).2.1 { st with buf := v :: vs, n3 := 1, n1 := 0, n2 := 0 }
  else if st.n2 ≥ st.buf.length then permEmit kids { st with n1 := st.n1 + 1, n2 := 0 }
  else permEmit kids st

def resetPermut (st : St) : St := { st with n1 := MAXSIZE, n2 := MAXSIZE, n3 := 0, buf := [] }

/-! ### PInterpolate -/

/-- `vsteps = int(round(value(steps), 8)); while vsteps == 0: self.value = next(pattern); vsteps = int(round(value(steps), 8))`.
    Returns the outcome (`val (int vsteps)`, `vsteps ≠ 0`, or what ended the loop), the kids and `self.value`. -/
def interpSkip (rec : Rec) : Nat → List Pat → Val → Out × List Pat × Val
  | 0, kids, cur => (.err .diverge, kids, cur)
  | fuel + 1, kids, cur =>
    match (stepKid rec kids 1).1 with
    | .val s =>
      match pyInt s with
      | .val (.a (.int 0)) =>
        match (stepKid rec (stepKid rec kids 1).2 0).1 with
        | .val v => interpSkip rec fuel (stepKid rec (stepKid rec kids 1).2 0).2 v
        | o => (o, (stepKid rec (stepKid rec kids 1).2 0).2, cur)
      | o => (o, (stepKid rec kids 1).2, cur)
    | o => (o, (stepKid rec kids 1).2, cur)

/-- `[value + dt * (n + 1) / vsteps for n in range(vsteps)]` with `dt = target - value` (floats as exact rationals). -/
def linValues (a b : Rat) (k : Int) : List Val :=
  (List.range k.toNat).map (fun (n : Nat) => Val.flt (a + (b - a) * ((n + 1 : Nat) : Rat) / (k : Rat)))

/-- The step values of a block (`none` = the arithmetic raised TypeError). -/
def interpValues (mode : Int) (cur target : Val) (k : Int) : Out × List Val :=
  if mode = 0 then (.val Val.none, List.replicate (k - 1).toNat cur ++ [target])
  else if mode = 1 then
    match cur, target with
    | .a x, .a y =>
      match x.toNum, y.toNum with
      | some a, some b => (.val Val.none, linValues a.r b.r k)
      | _, _ => (.err .typeError, [])
    | _, _ => (.err .typeError, [])
  else if mode = 2 then (.err .unmodelled, [])
  else (.err .valueError, [])

/-- `self.pos = 0; self.value = self.step_values[self.pos]; self.pos += 1; return self.value`. -/
def interpEmit (kids : List Pat) (st : St) (cur : Val) (sv : List Val) : ClsRes :=
  match sv with
  | v :: _ => { out := .val v, kids := kids, st := { st with v0 := v, buf := sv, n2 := 1 } }
  | [] => { out := .err .indexError, kids := kids, st := { st with v0 := cur, buf := [], n2 := 0 } }

def stepInterpolate : ClsStep := fun rec kids st =>
  if st.n1 = 0 then
    -- `reset()`: `self.value = next(self.pattern); self.step_values = [self.value]; self.pos = 0`, then the first `__next__`
    match (stepKid rec kids 0).1 with
    | .val v => { out := .val v, kids := (stepKid rec kids 0).2, st := { st with n1 := 1, v0 := v, buf := [v], n2 := 1 } }
    | o => { out := o, kids := (stepKid rec kids 0).2, st := st }
  else if st.n2 = st.buf.length then
    match (interpSkip rec LOOPFUEL kids st.v0).1 with
    | .val (.a (.int k)) =>
      match (stepKid rec (interpSkip rec LOOPFUEL kids st.v0).2.1 0).1 with
      | .val target =>
        match (interpValues st.n0 (interpSkip rec LOOPFUEL kids st.v0).2.2 target k).1 with
        | .val _ =>
          interpEmit (stepKid rec (interpSkip rec LOOPFUEL kids st.v0).2.1 0).2 st (interpSkip rec LOOPFUEL kids st.v0).2.2
            (interpValues st.n0 (interpSkip rec LOOPFUEL kids st.v0).2.2 target k).2
        | o => { out := o, kids := (stepKid rec (interpSkip rec LOOPFUEL kids st.v0).2.1 0).2,
                 st := { st with v0 := (interpSkip rec LOOPFUEL kids st.v0).2.2 } }
      | o => { out := o, kids := (stepKid rec (interpSkip rec LOOPFUEL kids st.v0).2.1 0).2,
               st := { st with v0 := (interpSkip rec LOOPFUEL kids st.v0).2.2 } }
    | .val _ => { out := .err .unmodelled, kids := (interpSkip rec LOOPFUEL kids st.v0).2.1, st := st }   -- unreachable
    | o => { out := o, kids := (interpSkip rec LOOPFUEL kids st.v0).2.1, st := { st with v0 := (interpSkip rec LOOPFUEL kids st.v0).2.2 } }
  else
    match st.buf[st.n2.toNat]? with
    | some v => { out := .val v, kids := kids, st := { st with v0 := v, n2 := st.n2 + 1 } }
    | Option.none => { out := .err .indexError, kids := kids, st := st }

def resetInterpolate (st : St) : St := { st with n1 := 0, n2 := 0, v0 := Val.none, buf := [] }

/-! ### PEuclidean (Bjorklund's algorithm as written in `_euclidean`) -/

/-- `_split_remainder`: the elements equal to the first one, and the others (in order). -/
def splitRemainder (seqs : List (List Bool)) : List (List Bool) × List (List Bool) :=
  match seqs with
  | [] => ([], [])
  | x :: _ => (seqs.filter (fun y => y == x), seqs.filter (fun y => !(y == x)))

/-- `_interleave`: pairwise concatenation, followed by the unpaired tail of the longer list. -/
def interleave (a b : List (List Bool)) : List (List Bool) :=
  if a.length < b.length then List.zipWith (· ++ ·) a b ++ b.drop a.length
  else if b.length < a.length then List.zipWith (· ++ ·) a b ++ a.drop b.length
  else List.zipWith (· ++ ·) a b

def euclidLoop : Nat → List (List Bool) → List (List Bool) → Option (List (List Bool))
  | 0, _, _ => Option.none
  | fuel + 1, seqs, remainder =>
    if remainder.length ≤ 1 then some (seqs ++ remainder)
    else euclidLoop fuel (splitRemainder (interleave seqs remainder)).1 (splitRemainder (interleave seqs remainder)).2

/-- `_euclidean(length, mod)` for ints: the rhythm as a list of onsets (`true` = 1, `false` = rest);
    `none` = `reduce` of an empty list (TypeError) or out of fuel. -/
def euclid (length mod : Int) : Option (List Bool) :=
  match euclidLoop (length.toNat + 2)
      (splitRemainder (List.replicate mod.toNat [true] ++ List.replicate (length - mod).toNat [false])).1
      (splitRemainder (List.replicate mod.toNat [true] ++ List.replicate (length - mod).toNat [false])).2 with
  | some [] => Option.none
  | some l => some l.flatten
  | Option.none => Option.none

/-- `[(1,)] * mod` needs ints (bools count): anything else raises TypeError. -/
def euclidSeq (lv mv : Val) : Option (List Bool) :=
  match lv, mv with
  | .a x, .a y =>
    match x.toInt?, y.toInt? with
    | some n, some k => euclid n k
    | _, _ => Option.none
  | _, _ => Option.none

def onsetVal (b : Bool) : Val := if b then .int 1 else Val.none

/-- `if self.pos >= len(sequence): self.pos = 0; rv = sequence[self.pos]; self.pos += 1`. -/
def euclidEmit (kids : List Pat) (st : St) (seq : List Bool) : ClsRes :=
  match pyIndex seq.length (if st.n0 ≥ seq.length then 0 else st.n0) with
  | some j =>
    match seq[j]? with
    | some b => { out := .val (onsetVal b), kids := kids, st := { st with n0 := (if st.n0 ≥ seq.length then 0 else st.n0) + 1 } }
    | Option.none => { out := .err .indexError, kids := kids, st := st }
  | Option.none => { out := .err .indexError, kids := kids, st := st }

def stepEuclidean : ClsStep := fun rec kids st =>
  match (stepKid rec kids 1).1 with
  | .val lv =>
    match (stepKid rec (stepKid rec kids 1).2 0).1 with
    | .val mv =>
      match euclidSeq lv mv with
      | some seq => euclidEmit (stepKid rec (stepKid rec kids 1).2 0).2 st seq
      | Option.none => { out := .err .typeError, kids := (stepKid rec (stepKid rec kids 1).2 0).2, st := st }
    | o => { out := o, kids := (stepKid rec (stepKid rec kids 1).2 0).2, st := st }
  | o => { out := o, kids := (stepKid rec kids 1).2, st := st }

def resetEuclidean (st : St) : St := { st with n0 := st.n1 }

/-! ### PArpeggiator -/

def valKey : Val → Rat
  | .a x => match x.toNum with | some n => n.r | Option.none => 0
  | .tup _ => 0

/-- Stable insertion sort by numeric value (`sorted(notes)`). -/
def insertNote (x : Val) : List Val → List Val
  | [] => [x]
  | y :: ys => if valKey x ≤ valKey y then x :: y :: ys else y :: insertNote x ys

def sortNotes : List Val → List Val
  | [] => []
  | x :: xs => insertNote x (sortNotes xs)

def upTo (n : Nat) : List Int := (List.range n).map (fun (i : Nat) => (i : Int))

/-- `restart()`: the index sequence of an arpeggio type over `n` notes (`none` = the constructor raises ValueError). -/
def arpOffsets (type : Int) (n : Nat) (loop : Bool) : Option (List Int) :=
  if type = 0 then some (upTo n)
  else if type = 1 then some (upTo n).reverse
  else if type = 2 then some ((List.range n).map (fun (i : Nat) => if i % 2 = 0 then ((i / 2 : Nat) : Int) else -(((i + 1) / 2 : Nat) : Int)))
  else if type = 3 then
    some ((List.range n).map (fun (i : Nat) =>
      if (n % 2 = 0) = (i % 2 = 0) then ((n / 2 : Nat) : Int) - 1 - ((i / 2 : Nat) : Int) else ((n / 2 + i / 2 : Nat) : Int)))
  else if type = 6 then
    some (if loop ∧ n > 1 then ((upTo n).dropLast ++ (upTo n).reverse).dropLast else (upTo n).dropLast ++ (upTo n).reverse)
  else if type = 7 then
    some (if loop ∧ n > 1 then ((upTo n).reverse.dropLast ++ upTo n).dropLast else (upTo n).reverse.dropLast ++ upTo n)
  else if type = 8 then
    if n < 2 then Option.none else some ((List.range n).flatMap (fun (i : Nat) => upTo (i + 1)))
  else if type = 9 then
    if n < 2 then Option.none else some ((List.range (n + 1)).reverse.flatMap (fun (i : Nat) => (upTo i).reverse))
  else if type = 10 then
    if n < 3 then Option.none
    else some (if loop then
        ((0 : Int) :: (((upTo n).drop 1).dropLast ++ (upTo n).reverse.dropLast).flatMap (fun x => [x, 0])).reverse.drop 3 |>.reverse
      else (0 : Int) :: (((upTo n).drop 1).dropLast ++ (upTo n).reverse.dropLast).flatMap (fun x => [x, 0]))
  else Option.none

/-- `self._notes[offset]` (Python indexing: negative offsets count from the end). -/
def arpNote (notes : List Val) (offsets : List Int) (pos : Nat) : Option Val :=
  match offsets[pos]? with
  | some o => match pyIndex notes.length o with
    | some j => notes[j]?
    | Option.none => Option.none
  | Option.none => Option.none

def stepArpeggiator : ClsStep := fun _ kids st =>
  if st.buf.length = 0 then { out := .val Val.none, kids := kids, st := { st with n2 := 0 } }
  else
    match arpOffsets st.n0 st.buf.length (st.n1 != 0) with
    | Option.none => { out := .err .valueError, kids := kids, st := st }
    | some offs =>
      if 0 ≤ st.n2 ∧ st.n2 < offs.length ∧ (st.n2 < st.buf.length ∨ st.n0 > 5) then
        match arpNote (sortNotes st.buf) offs st.n2.toNat with
        | some v => { out := .val v, kids := kids, st := { st with n2 := st.n2 + 1 } }
        | Option.none => { out := .err .indexError, kids := kids, st := st }
      else if st.n1 != 0 then
        -- `self.pos = 0; self.reset(); return next(self)`
        match arpNote (sortNotes st.buf) offs 0 with
        | some v => { out := .val v, kids := kids, st := { st with n2 := 1 } }
        | Option.none => { out := .err .indexError, kids := kids, st := { st with n2 := 0 } }
      else { out := .stop, kids := kids, st := st }

def resetArpeggiator (st : St) : St := { st with n2 := 0 }

end IsobarV.Pat
