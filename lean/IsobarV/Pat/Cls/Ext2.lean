/-
Ext2 group: `PMetropolis`, `PSequenceAction`, `PPatternGeneratorAction` (isobar/pattern/sequence.py), `PFunc`
(isobar/pattern/core.py), `PFilterByKey`, `PNearestNoteInKey`, `PKeyTonic`, `PKeyScale` (isobar/pattern/tonal.py).

Register layouts
  metropolis        no kids          buf = notes (atoms), buf2 = repeats ++ rests, n2 = len(repeats) (static),
                                     n0 = note_index, n1 = note_offset                (after fix 95: `reset()` rewinds n0, n1)
  sequenceAction    kids = repeats :: the items of `list_orig`, in order
                                     n0 = function tag (static; 0 identity, 1 reverse, 2 rotate left by 1, 3 map x ↦ x + 1,
                                     4 drop the last item), n1 = repeat_counter, n2 = `sequence.pos`, n3 = `sequence.rcount`,
                                     n4 = number of times `fn` has been applied: `self.list` = `fn^n4 (list_orig)` is
                                     recomputed from (tag, n4) as a list of (index into the items, amount added)
  patternGeneratorAction  no kids    `fn` = `lambda: PSequence(buf, n0)` (a PURE generator function: a fresh finite
                                     sequence of literals at every call); n1 = `pattern.pos`, n2 = `pattern.rcount`
  func              kids = [function]   a function value is an index into `buf`, the table of the values the (constant)
                                     functions return
  filterByKey, nearestNoteInKey   kids = [pattern, key]
  keyTonic, keyScale              kids = [key]
A key value is the tuple `(tonic, name of a scale of Scale.dict)`; a scale value (what `PKeyScale` yields) is the name.
The functions on keys are those of `IsobarV/Tonal/Model.lean`.
-/
import IsobarV.Pat.Cls.Scalar
import IsobarV.Pat.Cls.Seq2

namespace IsobarV.Pat

/-! ### PMetropolis -/

/-- `xs'[i]` where `xs'` is `xs` repeated as often as needed (`xs * ceil(len(notes) / len(xs))`; for the indices that
    occur, `i < len(notes)` or `i = 0`, that is `xs[i % len(xs)]`); `none` = IndexError (empty list). -/
def metCyc (xs : List Val) (i : Nat) : Option Val := if xs.length = 0 then Option.none else xs[i % xs.length]?

def metRepeats (st : St) : List Val := st.buf2.take st.n2.toNat
def metRests (st : St) : List Val := st.buf2.drop st.n2.toNat

/-- `if note_offset > repeats[i] + rests[i]: i += 1; offset = 0` then `if i >= len(notes): i = 0; offset = 0`. -/
def metIndex (len : Nat) (r s : Int) (idx off : Int) : Int :=
  if (len : Int) ≤ (if r + s < off then idx + 1 else idx) then 0 else (if r + s < off then idx + 1 else idx)
def metOffset (len : Nat) (r s : Int) (idx off : Int) : Int :=
  if (len : Int) ≤ (if r + s < off then idx + 1 else idx) then 0 else (if r + s < off then 0 else off)

/-- The last part of `PMetropolis.__next__`: at (`idx`, `off`), `notes[idx]` while `off < repeats[idx]`, then rests. -/
def metEmit (kids : List Pat) (st : St) (idx off : Int) : ClsRes :=
  match metCyc (metRepeats st) idx.toNat with
  | some (.a (.int r2)) =>
    if off < r2 then
      match st.buf[idx.toNat]? with
      | some v => { out := .val v, kids := kids, st := { st with n0 := idx, n1 := off + 1 } }
      | Option.none => { out := .err .indexError, kids := kids, st := { st with n0 := idx, n1 := off } }
    else { out := .val Val.none, kids := kids, st := { st with n0 := idx, n1 := off + 1 } }
  | some _ => { out := .err .unmodelled, kids := kids, st := st }
  | Option.none => { out := .err .indexError, kids := kids, st := st }

/-- `PMetropolis.__next__`.  Empty `repeats` / `rests` with notes: ZeroDivisionError (the cyclic extension); without
    notes: IndexError; both before any change of state. -/
def stepMetropolis : ClsStep := fun _ kids st =>
  if st.buf.length ≠ 0 ∧ ((metRepeats st).length = 0 ∨ (metRests st).length = 0) then
    { out := .err .zeroDivision, kids := kids, st := st }
  else
    match metCyc (metRepeats st) st.n0.toNat, metCyc (metRests st) st.n0.toNat with
    | some (.a (.int r)), some (.a (.int s)) =>
      metEmit kids st (metIndex st.buf.length r s st.n0 st.n1) (metOffset st.buf.length r s st.n0 st.n1)
    | Option.none, _ => { out := .err .indexError, kids := kids, st := st }
    | some _, Option.none => { out := .err .indexError, kids := kids, st := st }
    | _, _ => { out := .err .unmodelled, kids := kids, st := st }

/-- `PMetropolis.reset()` (fix 95). -/
def resetMetropolis (st : St) : St := { st with n0 := 0, n1 := 0 }

/-! ### PSequenceAction -/

/-- The table of list functions (`fn`), acting on a list of (item index, amount added). -/
def saAct (tag : Int) (l : List (Nat × Int)) : List (Nat × Int) :=
  if tag = 1 then l.reverse
  else if tag = 2 then l.drop 1 ++ l.take 1
  else if tag = 3 then l.map (fun e => (e.1, e.2 + 1))
  else if tag = 4 then l.dropLast
  else l

def saIter (tag : Int) : Nat → List (Nat × Int) → List (Nat × Int)
  | 0, l => l
  | k + 1, l => saIter tag k (saAct tag l)

/-- `list_orig` with `m` items. -/
def saBase (m : Nat) : List (Nat × Int) := (List.range m).map (fun i => (i, 0))

/-- `self.list` = `fn` applied `n4` times to `list_orig`. -/
def saList (st : St) (m : Nat) : List (Nat × Int) := saIter st.n0 st.n4.toNat (saBase m)

/-- the value of an item to which `d` has been added (`x + 1 + … + 1`; a pattern item has become `PAdd(…PAdd(x, 1)…, 1)`,
    which passes a rest on). -/
def saShift (d : Int) (v : Val) : Out := if d = 0 then .val v else binopVal .add v (.int d)

/-- `self.pos += 1; if self.pos >= len(sequence): self.pos = 0; self.rcount += 1` of the inner `PSequence(list, 1)`. -/
def saAdvance (len : Nat) (st : St) : St :=
  if len ≤ st.n2.toNat + 1 then { st with n2 := 0, n3 := st.n3 + 1 } else { st with n2 := st.n2.toNat + 1 }

/-- `next(self.sequence)`: the inner `PSequence(self.list, 1)`. -/
def saInner (rec : Rec) (kids : List Pat) (st : St) : ClsRes :=
  if (saList st (kids.length - 1)).length = 0 ∨ 1 ≤ st.n3 then { out := .stop, kids := kids, st := st }
  else
    match (saList st (kids.length - 1))[st.n2.toNat]? with
    | some e =>
      match (stepKid rec kids (e.1 + 1)).1 with
      | .val v =>
        { out := saShift e.2 v, kids := (stepKid rec kids (e.1 + 1)).2, st := saAdvance (saList st (kids.length - 1)).length st }
      | o => { out := o, kids := (stepKid rec kids (e.1 + 1)).2, st := st }
    | Option.none => { out := .err .unmodelled, kids := kids, st := st }

/-- `self.repeat_counter >= repeats` (`none` = TypeError). -/
def saDone (counter : Int) : Val → Option Bool
  | .a x => x.toNum.map (fun n => decide (n.r ≤ (counter : Rat)))
  | .tup _ => Option.none

/-- `reset()` on the items listed (`PSequence.__init__` ends with `self.reset()`, which resets the patterns in its list). -/
def saResetItems (rs : Pat → Pat) (kids : List Pat) : List (Nat × Int) → List Pat
  | [] => kids
  | e :: es => saResetItems rs (resetKid rs kids (e.1 + 1)) es

/-- The state when `fn` has been applied once more and a new inner sequence has been built. -/
def saNextPass (st : St) : St := { st with n1 := st.n1 + 1, n4 := st.n4 + 1, n2 := 0, n3 := 0 }

/-- `PSequenceAction.__next__`; the recursion `return next(self)` is bounded by fuel (Python: RecursionError). -/
def saLoop (rs : Pat → Pat) (rec : Rec) : Nat → List Pat → St → ClsRes
  | 0, kids, st => { out := .err .diverge, kids := kids, st := st }
  | fuel + 1, kids, st =>
    match (saInner rec kids st).out with
    | .stop =>
      -- `except StopIteration: repeats = Pattern.value(self.repeats); self.repeat_counter += 1`
      match (stepKid rec (saInner rec kids st).kids 0).1 with
      | .val rv =>
        match saDone ((saInner rec kids st).st.n1 + 1) rv with
        | some true =>
          { out := .stop, kids := (stepKid rec (saInner rec kids st).kids 0).2,
            st := { (saInner rec kids st).st with n1 := (saInner rec kids st).st.n1 + 1 } }
        | some false =>
          saLoop rs rec fuel
            (saResetItems rs (stepKid rec (saInner rec kids st).kids 0).2
              (saList (saNextPass (saInner rec kids st).st) (kids.length - 1)))
            (saNextPass (saInner rec kids st).st)
        | Option.none =>
          { out := .err .typeError, kids := (stepKid rec (saInner rec kids st).kids 0).2,
            st := { (saInner rec kids st).st with n1 := (saInner rec kids st).st.n1 + 1 } }
      | o => { out := o, kids := (stepKid rec (saInner rec kids st).kids 0).2, st := (saInner rec kids st).st }
    | _ => saInner rec kids st

/-- Bound of the recursion `return next(self)` (CPython's recursion limit is far lower; the generators stay below both). -/
def SAFUEL : Nat := 1000

def stepSequenceActionW (rs : Pat → Pat) : ClsStep := fun rec kids st => saLoop rs rec SAFUEL kids st

/-- `PSequenceAction.reset()`: `list = list_orig`, a new inner sequence, `repeat_counter = 0`. -/
def resetSequenceAction (st : St) : St := { st with n1 := 0, n2 := 0, n3 := 0, n4 := 0 }

/-! ### PPatternGeneratorAction (`PDecisionPoint`) with a pure generator function -/

/-- `PPatternGeneratorAction.__next__` for `fn = lambda: PSequence(buf, n0)`: when the current sequence is exhausted a
    fresh one is requested and `next(self)` is called again; a function whose sequences are all empty recurses for
    ever (RecursionError). -/
def stepPga : ClsStep := fun _ kids st =>
  if st.buf.length = 0 ∨ st.n0 ≤ 0 then { out := .err .diverge, kids := kids, st := st }
  else
    match st.buf[(if st.n0 ≤ st.n2 then 0 else st.n1.toNat)]? with
    | some v =>
      { out := .val v, kids := kids,
        st := if st.buf.length ≤ (if st.n0 ≤ st.n2 then 0 else st.n1.toNat) + 1
              then { st with n1 := 0, n2 := (if st.n0 ≤ st.n2 then 0 else st.n2) + 1 }
              else { st with n1 := ((if st.n0 ≤ st.n2 then 0 else st.n1.toNat) + 1 : Nat), n2 := (if st.n0 ≤ st.n2 then 0 else st.n2) } }
    | Option.none => { out := .err .unmodelled, kids := kids, st := st }

/-- `Pattern.reset()` resets `self.pattern`, the current sequence. -/
def resetPga (st : St) : St := { st with n1 := 0, n2 := 0 }

/-! ### PFunc -/

/-- `function = Pattern.value(self.function); return function()`: the value returned is handed out as it is. -/
def funcF : St → List Val → FRes := fun st vs =>
  match vs with
  | [.a (.int t)] =>
    match st.buf[t.toNat]? with
    | some v => if 0 ≤ t then { out := .val v, st := st } else { out := .err .unmodelled, st := st }
    | Option.none => { out := .err .unmodelled, st := st }
  | [.a .none] => { out := .err .typeError, st := st }      -- `None()`
  | _ => { out := .err .unmodelled, st := st }

def stepFunc : ClsStep := stepPoll (fun _ => [0]) funcF

/-! ### Keys -/

/-- A key value: `(tonic, scale name)`. -/
def keyOfVal : Val → Option Tonal.Key
  | .tup [.int t, .str name] => (scaleByName name).map (fun s => { tonic := t, scale := s })
  | _ => Option.none

/-- A note: an int or a rest. -/
def noteOfVal : Val → Option (Option Int)
  | .a .none => some Option.none
  | .a (.int i) => some (some i)
  | _ => Option.none

def valOfNote : Option Int → Val
  | Option.none => Val.none
  | some i => .int i

/-- `note = Pattern.value(self.pattern); key = Pattern.value(self.key)` then a function of the Tonal model. -/
def keyMapVal (f : Tonal.Key → Option Int → Option Int) : List Val → Out
  | [note, key] =>
    match keyOfVal key, noteOfVal note with
    | some k, some n => .val (valOfNote (f k n))
    | _, _ => .err .unmodelled
  | _ => .err .unmodelled

/-- `PFilterByKey.__next__`: `note if note in key else None`. -/
def stepFilterByKey : ClsStep := stepPoll (fun _ => [0, 1]) (pure1 (keyMapVal Tonal.pFilterByKey))
/-- `PNearestNoteInKey.__next__`: `key.nearest_note(note)`. -/
def stepNearestNoteInKey : ClsStep := stepPoll (fun _ => [0, 1]) (pure1 (keyMapVal Tonal.pNearestNoteInKey))

/-- `PKeyTonic.__next__`: `None if key is None else key.tonic`. -/
def keyTonicVal : List Val → Out
  | [.a .none] => .val Val.none
  | [key] =>
    match keyOfVal key with
    | some k => .val (.int k.tonic)
    | Option.none => .err .unmodelled
  | _ => .err .unmodelled

/-- `PKeyScale.__next__`: `None if key is None else key.scale` (a scale value is its name). -/
def keyScaleVal : List Val → Out
  | [.a .none] => .val Val.none
  | [.tup [.int t, .str name]] =>
    match keyOfVal (.tup [.int t, .str name]) with
    | some _ => .val (.str name)
    | Option.none => .err .unmodelled
  | _ => .err .unmodelled

def stepKeyTonic : ClsStep := stepPoll (fun _ => [0]) (pure1 keyTonicVal)
def stepKeyScale : ClsStep := stepPoll (fun _ => [0]) (pure1 keyScaleVal)

end IsobarV.Pat
