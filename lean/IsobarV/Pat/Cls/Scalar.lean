/-
Classes of `isobar/pattern/scalar.py`, `PDegree` / `PMidiNoteToFrequency` (`tonal.py`) and `PTri` / `PSaw`
(`oscillator.py`): step functions and own-state resets (after the fix patches `fixes/*-scalar-*.patch`).

Most of these classes have the same shape: resolve some attributes through `Pattern.value(...)` / `next(...)`
in a fixed order (an exception or StopIteration of any of them propagates, the attributes resolved before
it stay consumed, the own state is untouched), then compute the result from the resolved values and the
own state.  `stepPoll ord f` is that shape: `ord` = the kid indices in the order the Python code resolves
them, `f` = the computation.  `PChanged` / `PDiff` (`stepDelta`) are different: their constructor (and their
`reset()`) already consumes one value of the source.

Register layouts (kids in the order given; `ord` = resolution order)
  changed, diff   kids = [source]                       n0 = 1 once `current` is loaded, v0 = current
                  (the constructor / reset() load `current` eagerly; the model loads it at the first step
                   after construction / reset: same outcomes for sources that do not share state)
  skipIf          kids = [pattern, skip]                ord [0,1]
  normalise       kids = [input]                        n0 = 1 once a bound exists, v0 = lower, v1 = upper (exact values)
  map             kids = input :: args (++ kwargs)      ord [1,..,k,0]   n0 = id of the named function
  mapEnumerated   kids = input :: args                  ord [1,..,k,0]   n0 = function id, n1 = counter (PSeries())
  scaleLinLin     kids = [input, from_min, from_max, to_min, to_max]     ord [1,2,3,4,0]
  scaleLinExp     kids = [input, from_min, from_max, to_min, to_max]     ord [1,2,3,4,0]
  round           kids = [input, ndigits]               ord [1,0]   (ndigits = None: `PRound(input)`)
  scalar          kids = [pattern, method]              ord [1,0]
  wrap            kids = [pattern, min, max]            ord [0,1,2]
  indexOf         kids = [list, item]                   ord [0,1]   (a list value is a tuple value)
  degree          kids = [degree, scale]                ord [0,1]   (a scale value is the name of a library scale)
  midiNoteToFrequency  kids = [input]                   ord [0]
  tri, saw        kids = [length, min, max]             ord [0,1,2]  v0 = phase (float)
-/
import IsobarV.Pat.Core
import IsobarV.Tonal.Model

namespace IsobarV.Pat

/-! ### Resolving several attributes in order -/

/-- Result of resolving a list of attributes: the values obtained (in resolution order), the first
    outcome that was not a value (if any), and the kids afterwards. -/
structure Polled where
  vals : List Val
  fail : Option Out
  kids : List Pat
  deriving Repr, Inhabited

/-- `Pattern.value(self.x_i)` for the kids at the given indices, one after another; the first outcome
    that is not a value ends the resolution (later kids are not touched). -/
def pollKids (rec : Rec) : List Nat → List Pat → Polled
  | [], kids => { vals := [], fail := Option.none, kids := kids }
  | i :: is, kids =>
    match (stepKid rec kids i).1 with
    | .val v =>
      { vals := v :: (pollKids rec is (stepKid rec kids i).2).vals,
        fail := (pollKids rec is (stepKid rec kids i).2).fail,
        kids := (pollKids rec is (stepKid rec kids i).2).kids }
    | o => { vals := [], fail := some o, kids := (stepKid rec kids i).2 }

/-- Result of a class's computation: outcome and own state afterwards. -/
structure FRes where
  out : Out
  st : St
  deriving Repr, Inhabited

/-- Resolve the kids `ord kids.length` in order, then compute. -/
def stepPoll (ord : Nat → List Nat) (f : St → List Val → FRes) : ClsStep := fun rec kids st =>
  match (pollKids rec (ord kids.length) kids).fail with
  | some o => { out := o, kids := (pollKids rec (ord kids.length) kids).kids, st := st }
  | Option.none =>
    { out := (f st (pollKids rec (ord kids.length) kids).vals).out,
      kids := (pollKids rec (ord kids.length) kids).kids,
      st := (f st (pollKids rec (ord kids.length) kids).vals).st }

/-- A computation without own state. -/
def pure1 (g : List Val → Out) : St → List Val → FRes := fun st vs => { out := g vs, st := st }

/-- `PMap.__next__` order: positional args, keyword args, then `next(self.input)`. -/
def ordArgsFirst (len : Nat) : List Nat := List.range' 1 (len - 1) ++ [0]

/-! ### Python value helpers -/

/-- Python `==` on scalars (numbers compare by value across int/float/bool). -/
def atomEq (a b : Atom) : Bool :=
  match a.toNum, b.toNum with
  | some x, some y => x.r == y.r
  | _, _ =>
    match a, b with
    | .none, .none => true
    | .str s, .str t => s == t
    | _, _ => false

def atomsEq : List Atom → List Atom → Bool
  | [], [] => true
  | x :: xs, y :: ys => atomEq x y && atomsEq xs ys
  | _, _ => false

/-- Python `==` on pattern values. -/
def valEq : Val → Val → Bool
  | .a x, .a y => atomEq x y
  | .tup xs, .tup ys => atomsEq xs ys
  | _, _ => false

/-- A Python arithmetic operator on two values WITHOUT rest handling (`None` raises TypeError). -/
def arith (op : BinOp) (a b : Val) : Out :=
  match a, b with
  | .a .none, _ => .err .typeError
  | _, .a .none => .err .typeError
  | .a x, .a y => binopAtom op x y
  | _, _ => .err .typeError

def Out.andThen (o : Out) (k : Val → Out) : Out :=
  match o with
  | .val v => k v
  | o => o

/-! ### PChanged / PDiff -/

/-- `PChanged`: `0 if next == self.current else 1`. -/
def changedVal (cur nxt : Val) : Out := .val (.int (if valEq nxt cur then 0 else 1))

/-- `PDiff`: `None if self.current is None or next is None else next - self.current`. -/
def diffVal (cur nxt : Val) : Out := binopVal .sub nxt cur

/-- `self.current = next` is not reached when the computation raised. -/
def keepOnErr (o : Out) (old new : Val) : Val :=
  match o with
  | .err _ => old
  | _ => new

/-- `PChanged.__next__` / `PDiff.__next__`, with `self.current = Pattern.value(self.source)` of the
    constructor / of `reset()` performed at the first step (`n0 = 0`). -/
def stepDelta (g : Val → Val → Out) : ClsStep := fun rec kids st =>
  if st.n0 = 0 then
    match (stepKid rec kids 0).1 with
    | .val c =>
      match (stepKid rec (stepKid rec kids 0).2 0).1 with
      | .val x =>
        { out := g c x, kids := (stepKid rec (stepKid rec kids 0).2 0).2,
          st := { st with n0 := 1, v0 := keepOnErr (g c x) c x } }
      | o => { out := o, kids := (stepKid rec (stepKid rec kids 0).2 0).2, st := { st with n0 := 1, v0 := c } }
    | o => { out := o, kids := (stepKid rec kids 0).2, st := st }
  else
    match (stepKid rec kids 0).1 with
    | .val x => { out := g st.v0 x, kids := (stepKid rec kids 0).2, st := { st with v0 := keepOnErr (g st.v0 x) st.v0 x } }
    | o => { out := o, kids := (stepKid rec kids 0).2, st := st }

def resetDelta (st : St) : St := { st with n0 := 0, v0 := Val.none }

/-! ### PSkipIf -/

/-- `rv = value(pattern); rskip = value(skip); None if rskip else rv`. -/
def skipIfVal : List Val → Out
  | [v, s] => .val (if s.truthy then Val.none else v)
  | _ => .err .unmodelled

def stepSkipIf : ClsStep := stepPoll (fun _ => [0, 1]) (pure1 skipIfVal)

/-! ### PNormalise (after fixes: `reset()` forgets the bounds, a rest passes through) -/

def ratMin (a b : Rat) : Rat := if b < a then b else a
def ratMax (a b : Rat) : Rat := if a < b then b else a

/-- Normalise `v` into the running range `[lo, hi]` (`0.0` while the range is empty). -/
def normOf (lo hi v : Rat) : Rat := if hi = lo then 0 else (v - lo) / (hi - lo)

def normF (st : St) (vs : List Val) : FRes :=
  match vs with
  | [.a .none] => { out := .val Val.none, st := st }
  | [.a x] =>
    match x.toNum with
    | some v =>
      if st.n0 = 0 then { out := .val (.flt 0), st := { st with n0 := 1, v0 := .flt v.r, v1 := .flt v.r } }
      else
        match st.v0, st.v1 with
        | .a (.flt lo), .a (.flt hi) =>
          { out := .val (.flt (normOf (ratMin lo v.r) (ratMax hi v.r) v.r)),
            st := { st with v0 := .flt (ratMin lo v.r), v1 := .flt (ratMax hi v.r) } }
        | _, _ => { out := .err .unmodelled, st := st }
    | Option.none => { out := .err .typeError, st := st }
  | _ => { out := .err .typeError, st := st }

def stepNormalise : ClsStep := stepPoll (fun _ => [0]) normF
def resetNormalise (st : St) : St := { st with n0 := 0, v0 := Val.none, v1 := Val.none }

/-! ### PMap / PMapEnumerated with a fixed table of named functions -/

/-- The named functions of `PMap` (`operator(value, *args, **kwargs)`):
      0  `lambda x, y: x + y`        1  `lambda x, y: x * y`       2  `lambda x, a, b=0: x * a + b`
      3  `lambda x, y: y if x is None else x`                       4  `pow` -/
def mapFn (fid : Int) (value : Val) (args : List Val) : Out :=
  if fid = 0 then (match args with | [y] => arith .add value y | _ => .err .typeError)
  else if fid = 1 then (match args with | [y] => arith .mul value y | _ => .err .typeError)
  else if fid = 2 then (match args with | [a, b] => (arith .mul value a).andThen (fun m => arith .add m b) | _ => .err .typeError)
  else if fid = 3 then (match args with | [y] => .val (if value = Val.none then y else value) | _ => .err .typeError)
  else if fid = 4 then (match args with | [y] => arith .pow value y | _ => .err .typeError)
  else .err .unmodelled

def mapF (st : St) (vs : List Val) : FRes :=
  match vs.reverse with
  | value :: rargs => { out := mapFn st.n0 value rargs.reverse, st := st }
  | [] => { out := .err .unmodelled, st := st }

def stepMap : ClsStep := stepPoll ordArgsFirst mapF

/-- The named functions of `PMapEnumerated` (`operator(next(self.counter), value, *args)`):
      0  `lambda n, v: n * v`     1  `lambda i, v: i + v`     2  `lambda i, v, a: v + i * a`     3  `lambda i, v: i` -/
def enumFn (fid : Int) (idx value : Val) (args : List Val) : Out :=
  if fid = 0 then (match args with | [] => arith .mul idx value | _ => .err .typeError)
  else if fid = 1 then (match args with | [] => arith .add idx value | _ => .err .typeError)
  else if fid = 2 then (match args with | [a] => (arith .mul idx a).andThen (fun m => arith .add value m) | _ => .err .typeError)
  else if fid = 3 then (match args with | [] => .val idx | _ => .err .typeError)
  else .err .unmodelled

/-- The counter is advanced (`next(self.counter)`) once all attributes are resolved, before the call. -/
def enumF (st : St) (vs : List Val) : FRes :=
  match vs.reverse with
  | value :: rargs => { out := enumFn st.n0 (.int st.n1) value rargs.reverse, st := { st with n1 := st.n1 + 1 } }
  | [] => { out := .err .unmodelled, st := st }

def stepMapEnumerated : ClsStep := stepPoll ordArgsFirst enumF
def resetMapEnumerated (st : St) : St := { st with n1 := 0 }

/-! ### PScaleLinLin / PScaleLinExp -/

/-- `scale_lin_lin`: `norm = (value - from_min) / (from_max - from_min); norm * (to_max - to_min) + to_min`. -/
def scaleLinLinVal : List Val → Out
  | [a, b, c, d, value] =>
    (arith .sub value a).andThen fun x1 =>
    (arith .sub b a).andThen fun x2 =>
    (arith .div x1 x2).andThen fun norm =>
    (arith .sub d c).andThen fun x3 =>
    (arith .mul norm x3).andThen fun x4 =>
    arith .add x4 c
  | _ => .err .typeError

def stepScaleLinLin : ClsStep := stepPoll ordArgsFirst (pure1 scaleLinLinVal)

/-- Float power through a parameter function `pw base exponent`. -/
def powVia (pw : Rat → Rat → Out) (b e : Val) : Out :=
  match b, e with
  | .a x, .a y =>
    match x.toNum, y.toNum with
    | some p, some q => pw p.r q.r
    | _, _ => .err .typeError
  | _, _ => .err .typeError

/-- `scale_lin_exp`: `to_min` below `from_min`, `to_max` above `from_max` (the bound itself, unconverted), else
    `((to_max / to_min) ** ((value - from_min) / (from_max - from_min))) * to_min`. -/
def scaleLinExpVal (pw : Rat → Rat → Out) : List Val → Out
  | [a, b, c, d, value] =>
    (arith .lt value a).andThen fun below =>
    if below.truthy then .val c
    else
      (arith .gt value b).andThen fun above =>
      if above.truthy then .val d
      else
        (arith .div d c).andThen fun base =>
        (arith .sub value a).andThen fun x1 =>
        (arith .sub b a).andThen fun x2 =>
        (arith .div x1 x2).andThen fun e =>
        (powVia pw base e).andThen fun p =>
        arith .mul p c
  | _ => .err .typeError

def stepScaleLinExp (pw : Rat → Rat → Out) : ClsStep := stepPoll ordArgsFirst (pure1 (scaleLinExpVal pw))

/-! ### PRound -/

/-- Round to the nearest integer, ties to even (on the exact value). -/
def roundHalfEven (q : Rat) : Int :=
  if q - q.floor < 1 / 2 then q.floor
  else if 1 / 2 < q - q.floor then q.floor + 1
  else if q.floor % 2 = 0 then q.floor else q.floor + 1

/-- Round to `nd` decimal places (negative: to tens, hundreds, ...). -/
def roundTo (q : Rat) (nd : Int) : Rat :=
  if 0 ≤ nd then (roundHalfEven (q * (10 : Rat) ^ nd.toNat) : Rat) / (10 : Rat) ^ nd.toNat
  else (roundHalfEven (q / (10 : Rat) ^ (-nd).toNat) : Rat) * (10 : Rat) ^ (-nd).toNat

/-- `None if value is None else round(value, *args)`; `ndigits = None` is `round(value)`. -/
def roundVal : List Val → Out
  | [nd, value] =>
    match value with
    | .a .none => .val Val.none
    | .a x =>
      match x.toNum with
      | Option.none => .err .typeError
      | some v =>
        match nd with
        | .a .none => .val (.int (roundHalfEven v.r))
        | .a d =>
          match d.toInt? with
          | some k => if v.isFloat then .val (.flt (roundTo v.r k)) else .val (.int (roundTo v.r k).floor)
          | Option.none => .err .typeError
        | .tup _ => .err .typeError
    | .tup _ => .err .typeError
  | _ => .err .typeError

def stepRound : ClsStep := stepPoll ordArgsFirst (pure1 roundVal)

/-! ### PScalar -/

/-- `sum(values)`; `none` when an element is not a number (TypeError). -/
def sumAtoms : List Atom → Option Num
  | [] => some { r := 0, isFloat := false }
  | x :: xs =>
    match x.toNum, sumAtoms xs with
    | some a, some b => some { r := a.r + b.r, isFloat := a.isFloat || b.isFloat }
    | _, _ => Option.none

/-- `PScalar.scalar`: a scalar passes through, `()` becomes a rest, a tuple is reduced by its mean or
    its first element; a TypeError inside (e.g. a rest in the tuple) returns the tuple unchanged. -/
def scalarVal : List Val → Out
  | [method, value] =>
    match value with
    | .a (.str _) => .err .unmodelled          -- a string is iterable
    | .a _ => .val value
    | .tup [] => .val Val.none
    | .tup (x :: xs) =>
      if method = Val.str "mean" then
        match sumAtoms (x :: xs) with
        | some s => .val (.flt (s.r / ((xs.length + 1 : Nat) : Rat)))
        | Option.none => .val value
      else if method = Val.str "first" then .val (.a x)
      else .err .valueError
  | _ => .err .typeError

def stepScalar : ClsStep := stepPoll ordArgsFirst (pure1 scalarVal)

/-! ### PWrap (after fixes: bounds resolved through `Pattern.value`, rests pass through, `max <= min` raises) -/

/-- `x` wrapped into `[lo, hi)`: the result of `while x < lo: x += hi - lo` / `while x >= hi: x -= hi - lo`. -/
def wrapRat (x lo hi : Rat) : Rat := x - (hi - lo) * (((x - lo) / (hi - lo)).floor : Int)

def wrapVal : List Val → Out
  | [value, mn, mx] =>
    match value with
    | .a .none => .val Val.none
    | .a x =>
      match x.toNum, mn, mx with
      | some v, .a l, .a h =>
        match l.toNum, h.toNum with
        | some lo, some hi =>
          if hi.r ≤ lo.r then .err .valueError
          else if lo.r ≤ v.r ∧ v.r < hi.r then .val value
          else .val (.a (mkNum (v.isFloat || lo.isFloat || hi.isFloat) (wrapRat v.r lo.r hi.r)))
        | _, _ => .err .typeError
      | _, _, _ => .err .typeError
    | .tup _ => .err .typeError
  | _ => .err .unmodelled

def stepWrap : ClsStep := stepPoll (fun _ => [0, 1, 2]) (pure1 wrapVal)

/-! ### PIndexOf -/

/-- `list.index(item)` with Python `==`. -/
def indexOfAtoms (x : Atom) : List Atom → Nat → Option Nat
  | [], _ => Option.none
  | y :: ys, i => if atomEq x y then some i else indexOfAtoms x ys (i + 1)

/-- `None if list is None or item is None or item not in list else list.index(item)`. -/
def indexOfVal : List Val → Out
  | [lst, item] =>
    match lst, item with
    | .a .none, _ => .val Val.none
    | _, .a .none => .val Val.none
    | .tup xs, .a x =>
      match indexOfAtoms x xs 0 with
      | some i => .val (.int i)
      | Option.none => .val Val.none
    | .tup _, .tup _ => .val Val.none                -- a tuple is never equal to a scalar element
    | .a (.str _), _ => .err .unmodelled             -- substring search
    | .a _, _ => .err .typeError                     -- `item in 5`
  | _ => .err .unmodelled

def stepIndexOf : ClsStep := stepPoll (fun _ => [0, 1]) (pure1 indexOfVal)

/-! ### PDegree -/

/-- A scale value is the name of a scale of the library's `Scale.dict`. -/
def scaleByName (name : String) : Option Tonal.Scale :=
  (IsobarV.Generated.scaleTable.find? (fun r => r.name == name)).map
    (fun r => { semitones := r.semitones, octave := r.octave })

/-- `scale[degree]` for one element (`Scale.get`: a rest stays a rest; a float index raises TypeError). -/
def degreeAtom (s : Tonal.Scale) : Atom → Option Atom
  | .none => some .none
  | .int i => some (.int (s.get i))
  | .bool b => some (.int (s.get (if b then 1 else 0)))
  | _ => Option.none

def degreeAtoms (s : Tonal.Scale) : List Atom → Option (List Atom)
  | [] => some []
  | x :: xs =>
    match degreeAtom s x, degreeAtoms s xs with
    | some y, some ys => some (y :: ys)
    | _, _ => Option.none

/-- `PDegree.__next__` on resolved values. -/
def degreeVal : List Val → Out
  | [deg, sc] =>
    match deg with
    | .a .none => .val Val.none
    | .a x =>
      match sc with
      | .a (.str name) =>
        match scaleByName name with
        | some s => (match degreeAtom s x with | some y => .val (.a y) | Option.none => .err .typeError)
        | Option.none => .err .unmodelled
      | _ => .err .unmodelled
    | .tup xs =>
      match sc with
      | .a (.str name) =>
        match scaleByName name with
        | some s => (match degreeAtoms s xs with | some ys => .val (.tup ys) | Option.none => .err .typeError)
        | Option.none => .err .unmodelled
      | _ => .err .unmodelled
  | _ => .err .unmodelled

def stepDegree : ClsStep := stepPoll (fun _ => [0, 1]) (pure1 degreeVal)

/-! ### PMidiNoteToFrequency -/

/-- `None if note is None else 440.0 * pow(2, (note - 69.0) / 12)`. -/
def midiVal (pw : Rat → Rat → Out) : List Val → Out
  | [note] =>
    match note with
    | .a .none => .val Val.none
    | .a x =>
      match x.toNum with
      | some v =>
        match pw 2 ((v.r - 69) / 12) with
        | .val (.a (.flt y)) => .val (.flt (440 * y))
        | .val _ => .err .unmodelled
        | o => o
      | Option.none => .err .typeError
    | .tup _ => .err .typeError
  | _ => .err .unmodelled

def stepMidi (pw : Rat → Rat → Out) : ClsStep := stepPoll (fun _ => [0]) (pure1 (midiVal pw))

/-! ### PTri / PSaw (after fix: `reset()` also resets pattern-valued parameters) -/

/-- Triangle shape on the normalised phase. -/
def triShape (np : Rat) : Rat := if np < 1 / 2 then np * 2 else 1 - (np - 1 / 2) * 2

/-- `self.phase += 1; if self.phase > length: self.phase -= length`. -/
def nextPhase (ph len : Rat) : Rat := if len < ph + 1 then ph + 1 - len else ph + 1

/-- `PTri.__next__` / `PSaw.__next__` on resolved `[length, min, max]`; `v0` = phase. -/
def oscF (shape : Rat → Rat) (st : St) (vs : List Val) : FRes :=
  match vs, st.v0 with
  | [.a l, .a mn, .a mx], .a (.flt ph) =>
    match l.toNum with
    | some len =>
      if len.r = 0 then { out := .err .zeroDivision, st := st }
      else
        match mn.toNum, mx.toNum with
        | some lo, some hi =>
          { out := .val (.flt (lo.r + (hi.r - lo.r) * shape (ph / len.r))),
            st := { st with v0 := .flt (nextPhase ph len.r) } }
        | _, _ => { out := .err .typeError, st := st }
    | Option.none => { out := .err .typeError, st := st }
  | _, _ => { out := .err .typeError, st := st }

def stepTri : ClsStep := stepPoll (fun _ => [0, 1, 2]) (oscF triShape)
def stepSaw : ClsStep := stepPoll (fun _ => [0, 1, 2]) (oscF id)
def resetOsc (st : St) : St := { st with v0 := .flt 0 }

/-! ### Real powers: a numerical approximation (trusted, validated by the correspondence with tolerance;
    the theorems take the power function as a parameter) -/

def fxOne : Int := 2 ^ 100
def toFx (r : Rat) : Int := (r * (fxOne : Rat)).floor
def ofFx (i : Int) : Rat := (i : Rat) / (fxOne : Rat)

/-- `Σ z^(2k+1)/(2k+1)` in fixed point. -/
def atanhLoop : Nat → Int → Int → Nat → Int → Int
  | 0, _, _, _, acc => acc
  | fuel + 1, zp, z2, k, acc => atanhLoop fuel (zp * z2 / fxOne) z2 (k + 1) (acc + zp / (2 * (k : Int) + 1))

/-- `ln m` for `1 ≤ m ≤ 2` in fixed point (`2·atanh((m-1)/(m+1))`). -/
def lnFx (m : Rat) : Int :=
  2 * atanhLoop 70 (toFx ((m - 1) / (m + 1))) (toFx (((m - 1) / (m + 1)) * ((m - 1) / (m + 1)))) 0 0

/-- `Σ x^k/k!` in fixed point. -/
def expLoop : Nat → Int → Int → Nat → Int → Int
  | 0, _, _, _, acc => acc
  | fuel + 1, t, x, k, acc => expLoop fuel (t * x / fxOne / ((k : Int) + 1)) x (k + 1) (acc + t)

def pow2 (k : Int) : Rat := if 0 ≤ k then (2 : Rat) ^ k.toNat else 1 / (2 : Rat) ^ (-k).toNat

/-- `⌊log₂ b⌋` for `b > 0`. -/
def log2Floor (b : Rat) : Int :=
  if b < pow2 ((Nat.log2 b.num.toNat : Int) - (Nat.log2 b.den : Int))
  then (Nat.log2 b.num.toNat : Int) - (Nat.log2 b.den : Int) - 1
  else (Nat.log2 b.num.toNat : Int) - (Nat.log2 b.den : Int)

/-- `log₂ b` for `b > 0`, to about 2⁻⁹⁰. -/
def log2Approx (b : Rat) : Rat :=
  (log2Floor b : Rat) + (lnFx (b / pow2 (log2Floor b)) : Rat) / (lnFx 2 : Rat)

/-- `2 ^ t` to about 2⁻⁹⁰ relative. -/
def exp2Approx (t : Rat) : Rat :=
  ofFx (expLoop 60 fxOne (toFx (t - (t.floor : Int)) * lnFx 2 / fxOne) 0 0) * pow2 t.floor

/-- A float result beyond the double range raises OverflowError. -/
def fltOrOverflow (r : Rat) : Out :=
  if (2 : Rat) ^ 1024 ≤ r ∨ r ≤ -((2 : Rat) ^ 1024) then .err .overflow else .val (.flt r)

/-- CPython's `float ** float`: exact for small integer exponents, approximated otherwise;
    a negative base with a fractional exponent (complex result) is outside the model. -/
def powApprox (b e : Rat) : Out :=
  if e.den = 1 ∧ -64 ≤ e.num ∧ e.num ≤ 64 then
    (if 0 ≤ e.num then fltOrOverflow (b ^ e.num.toNat)
     else if b = 0 then .err .zeroDivision
     else fltOrOverflow (1 / b ^ (-e.num).toNat))
  else if b < 0 then .err .unmodelled
  else if b = 0 then (if 0 < e then .val (.flt 0) else .err .zeroDivision)
  else if 1100 ≤ e * log2Approx b then .err .overflow
  else if e * log2Approx b ≤ -1100 then .val (.flt 0)
  else fltOrOverflow (exp2Approx (e * log2Approx b))

end IsobarV.Pat
