/-
The stochastic classes of `isobar/pattern/chance.py` and `isobar/pattern/markov.py`: step functions and
own-state resets (the code AFTER the fix patches of this group, see `fixes/`).

Randomness: every stochastic object owns `self.rng`; the model reads the recorded primitive draws of
that generator from the node's tape (`St.drawU` = `rng.random()`, `St.drawB n` = `rng._randbelow(n)`)
and re-implements CPython's `uniform`, `randint`/`randrange`, `choice`, `shuffle` on top of them:

    uniform(a, b)  = a + (b - a) * random()
    randrange(a, b) = a + _randbelow(b - a)          (ValueError when b - a <= 0)
    randint(a, b)  = randrange(a, b + 1)
    choice(seq)    = seq[_randbelow(len(seq))]       (IndexError when empty)
    shuffle(x)     : for i in reversed(range(1, len(x))): j = _randbelow(i + 1); x[i], x[j] = x[j], x[i]

Most classes resolve all their pattern-valued attributes first (`Pattern.value(self.a)` …, in a fixed
order) and then compute on scalars and own state: they are `stepPure idx core` — `resolve` steps the
kids `idx` in order (a StopIteration / exception of a kid propagates, own state unchanged, later kids
untouched), `core` is the rest of `__next__` as a pure function of the resolved values and the state.

Register layouts (kids in the order listed; a list-valued attribute is a kid yielding a tuple value)
  white       kids = [min, max, length]            n0 = index
  brown       kids = [step, min, max]              v0 = value, v1 = initial_value
  coin        kids = [probability, regular]        v0 = current_value, v1 = its initial value
  randomWalk  kids = [values, min, max]            n0 = pos, n1 = wrap (0/1)
  choice      kids = [values, weights]
  sample      kids = [values, count, weights]      (output list shown as a tuple)
  shuffle     kids = [repeats]                     buf = values (current order), buf2 = values_orig, n0 = pos, n1 = rcount
  shuffleInput kids = [pattern, every]             buf = values, n0 = pos
  skip        kids = [pattern, play]               v0 = pos (float), n0 = regular (0/1)
  flipFlop    kids = [p_on, p_off]                 v0 = value, v1 = initial
  switchOne   kids = [pattern, length]             buf = values, n0 = pos
  randomExponential kids = [min, max]
  randomImpulseSequence kids = [probability, length]   buf = values, n0 = pos, n1 = current_length  (`every()` not modelled)
  markov      no kids                              buf = keys of `nodes` (dict order), buf2 = edges flattened
                                                   [from0, to0, from1, to1, …] (nodes[x] = the `to`s with from = x, in order),
                                                   v0 = node (None = not started)
-/
import IsobarV.Pat.Core

namespace IsobarV.Pat

/-! ### Resolving pattern-valued attributes -/

/-- Result of resolving some kids in order. -/
structure Resolved where
  vals : List Val          -- the values obtained so far, in order
  bad : Option Out         -- the first outcome that was not a value (StopIteration / exception)
  kids : List Pat
  deriving Repr, Inhabited

/-- `Pattern.value(self.a); Pattern.value(self.b); …` for the kids `idx`, in order; stops at the first
    kid that does not yield a value. -/
def resolve (rec : Rec) : List Nat → List Pat → Resolved
  | [], kids => { vals := [], bad := Option.none, kids := kids }
  | i :: is, kids =>
    match (stepKid rec kids i).1 with
    | .val v =>
      { vals := v :: (resolve rec is (stepKid rec kids i).2).vals,
        bad := (resolve rec is (stepKid rec kids i).2).bad,
        kids := (resolve rec is (stepKid rec kids i).2).kids }
    | o => { vals := [], bad := some o, kids := (stepKid rec kids i).2 }

/-- A class that resolves the kids `idx` and then runs `core` on the values and its own state. -/
def stepPure (idx : List Nat) (core : List Val → St → Out × St) : ClsStep := fun rec kids st =>
  match (resolve rec idx kids).bad with
  | some o => { out := o, kids := (resolve rec idx kids).kids, st := st }
  | Option.none =>
    { out := (core (resolve rec idx kids).vals st).1, kids := (resolve rec idx kids).kids,
      st := (core (resolve rec idx kids).vals st).2 }

/-! ### CPython helpers -/

/-- `rng.uniform(a, b)` given the value `u` of `rng.random()`. -/
def uniformR (a b u : Rat) : Rat := a + (b - a) * u

def sumR : List Rat → Rat
  | [] => 0
  | x :: xs => x + sumR xs

/-- `isobar.util.normalize`. -/
def normalize (ws : List Rat) : List Rat := if sumR ws = 0 then ws else ws.map (fun w => w / sumR ws)

/-- `isobar.util.windex` after `n = rng.uniform(0, 1)`: the first index `i` with `n < w[i]`, `n`
    being reduced by the weights passed; `None` when the loop falls through. -/
def windexFrom : List Rat → Rat → Nat → Option Nat
  | [], _, _ => Option.none
  | w :: ws, n, i => if n < w then some i else windexFrom ws (n - w) (i + 1)

/-- `wnindex(weights)` given the uniform draw. -/
def wnindex (ws : List Rat) (u : Rat) : Option Nat := windexFrom (normalize ws) u 0

def atomsToRats : List Atom → Option (List Rat)
  | [] => some []
  | x :: xs =>
    match x.toNum, atomsToRats xs with
    | some n, some rs => some (n.r :: rs)
    | _, _ => Option.none

/-- `x[i], x[j] = x[j], x[i]`. -/
def swapAt {α : Type} (xs : List α) (i j : Nat) : List α :=
  match xs[i]?, xs[j]? with
  | some a, some b => (xs.set i b).set j a
  | _, _ => xs

/-- `rng.shuffle(x)`: positions `i, i-1, …, 1`, each swapped with `_randbelow(pos + 1)`. -/
def shuffleLoop {α : Type} : Nat → List α → St → Option (List α × St)
  | 0, xs, st => some (xs, st)
  | i + 1, xs, st =>
    match st.drawB (i + 2) with
    | (some j, st') => shuffleLoop i (swapAt xs (i + 1) j) st'
    | (Option.none, _) => Option.none

def pyShuffle {α : Type} (xs : List α) (st : St) : Option (List α × St) := shuffleLoop (xs.length - 1) xs st

/-- `a + d` where `d` is a float (`dFloat`) or an int. -/
def addNum (a : Atom) (d : Rat) (dFloat : Bool) : Option Atom :=
  match a.toNum with
  | some x => some (mkNum (x.isFloat || dFloat) (x.r + d))
  | Option.none => Option.none

/-- `max(a, b)` for two numbers: `b` if `b > a` else `a` (the object, with its type). -/
def pyMax (a b : Atom) : Option Atom :=
  match a.toNum, b.toNum with
  | some x, some y => some (if x.r < y.r then b else a)
  | _, _ => Option.none

/-- `min(a, b)`: `b` if `b < a` else `a`. -/
def pyMin (a b : Atom) : Option Atom :=
  match a.toNum, b.toNum with
  | some x, some y => some (if y.r < x.r then b else a)
  | _, _ => Option.none

/-- `min(max(v, lo), hi)`. -/
def clampAtom (v lo hi : Atom) : Option Atom :=
  match pyMax v lo with
  | some m => pyMin m hi
  | Option.none => Option.none

def isZeroVal : Val → Bool
  | .a x => match x.toNum with
    | some n => n.r == 0
    | Option.none => false
  | .tup _ => false

/-! ### PWhite -/

def whiteCore (vals : List Val) (st : St) : Out × St :=
  match vals with
  | [.a mn, .a mx, .a len] =>
    match len.toNum with
    | Option.none => (.err .typeError, { st with n0 := st.n0 + 1 })
    | some l =>
      if 0 < l.r ∧ l.r < ((st.n0 + 1 : Int) : Rat) then (.stop, { st with n0 := st.n0 + 1 })
      else
        match mn.toNum, mx.toNum with
        | some a, some b =>
          match ({ st with n0 := st.n0 + 1 } : St).drawU with
          | (some u, st') =>
            if a.isFloat then (.val (.flt (uniformR a.r b.r u)), st')
            else (.val (.int (truncRat (uniformR a.r b.r u))), st')
          | (Option.none, _) => (.err .unmodelled, { st with n0 := st.n0 + 1 })
        | _, _ => (.err .typeError, { st with n0 := st.n0 + 1 })
  | _ => (.err .typeError, st)

def resetWhite (st : St) : St := { st with n0 := 0 }

/-! ### PBrown -/

/-- `self.value += delta; self.value = min(max(self.value, vmin), vmax); return rv`. -/
def brownFinish (delta : Rat) (dFloat : Bool) (vmin vmax : Atom) (old : St) (st : St) : Out × St :=
  match old.v0 with
  | .a cur =>
    match addNum cur delta dFloat with
    | some nv =>
      match clampAtom nv vmin vmax with
      | some c => (.val old.v0, { st with v0 := .a c })
      | Option.none => (.err .typeError, { st with v0 := .a nv })
    | Option.none => (.err .typeError, st)
  | .tup _ => (.err .typeError, st)

def brownCore (vals : List Val) (st : St) : Out × St :=
  match vals with
  | [.a stp, .a vmin, .a vmax] =>
    match stp with
    | .flt s =>
      match st.drawU with
      | (some u, st') => brownFinish (uniformR (-s) s u) true vmin vmax st st'
      | (Option.none, _) => (.err .unmodelled, st)
    | _ =>
      match stp.toInt? with
      | some s =>
        if s < 0 then (.err .indexError, st)          -- rng.choice([])
        else
          match st.drawB (2 * s + 1).toNat with
          | (some k, st') => brownFinish (((-s + (k : Int)) : Int) : Rat) false vmin vmax st st'
          | (Option.none, _) => (.err .unmodelled, st)
      | Option.none => (.err .typeError, st)
  | _ => (.err .typeError, st)

def resetBrown (st : St) : St := { st with v0 := st.v1 }

/-! ### PCoin -/

def coinCore (vals : List Val) (st : St) : Out × St :=
  match vals with
  | [.a p, reg] =>
    if reg.truthy then
      match st.v0, p.toNum with
      | .a (.flt c), some pr =>
        if 1 ≤ c then (.val (.int 1), { st with v0 := .flt (c - 1 + pr.r) })
        else (.val (.int 0), { st with v0 := .flt (c + pr.r) })
      | _, _ => (.err .typeError, st)
    else
      match st.drawU with
      | (some u, st') =>
        match p.toNum with
        | some pr => if u < pr.r then (.val (.int 1), st') else (.val (.int 0), st')
        | Option.none => (.err .typeError, st')
      | (Option.none, _) => (.err .unmodelled, st)
  | _ => (.err .typeError, st)

def resetCoin (st : St) : St := { st with v0 := st.v1 }

/-! ### PRandomWalk -/

/-- After `self.pos += move`: wrap (or not) and index. -/
def walkFinish (xs : List Atom) (pos : Int) (st : St) : Out × St :=
  if st.n1 ≠ 0 then
    if xs.length = 0 then (.err .diverge, { st with n0 := pos })       -- `while self.pos >= 0: self.pos -= 0`
    else
      match xs[(pos % (xs.length : Int)).toNat]? with
      | some x => (.val (.a x), { st with n0 := pos % (xs.length : Int) })
      | Option.none => (.err .unmodelled, st)
  else
    match pyIndex xs.length pos with
    | some j =>
      match xs[j]? with
      | some x => (.val (.a x), { st with n0 := pos })
      | Option.none => (.err .unmodelled, st)
    | Option.none => (.err .indexError, { st with n0 := pos })

def walkCore (vals : List Val) (st : St) : Out × St :=
  match vals with
  | [.tup xs, .a a, .a b] =>
    match a.toInt?, b.toInt? with
    | some lo, some hi =>
      if hi + 1 - lo ≤ 0 then (.err .valueError, st)
      else
        match st.drawB (hi + 1 - lo).toNat with
        | (some k, st1) =>
          match st1.drawU with
          | (some u, st2) =>
            walkFinish xs (st.n0 + (if u < 1 / 2 then 0 - (lo + (k : Int)) else lo + (k : Int))) st2
          | (Option.none, _) => (.err .unmodelled, st)
        | (Option.none, _) => (.err .unmodelled, st)
    | _, _ => (.err .typeError, st)
  | _ => (.err .typeError, st)

def resetWalk (st : St) : St := { st with n0 := 0 }

/-! ### PChoice -/

def choiceCore (vals : List Val) (st : St) : Out × St :=
  match vals with
  | [.tup xs, .a .none] =>
    if xs.length = 0 then (.err .indexError, st)
    else
      match st.drawB xs.length with
      | (some k, st') =>
        match xs[k]? with
        | some x => (.val (.a x), st')
        | Option.none => (.err .unmodelled, st)
      | (Option.none, _) => (.err .unmodelled, st)
  | [.tup xs, .tup ws] =>
    match atomsToRats ws with
    | some wr =>
      match st.drawU with
      | (some u, st') =>
        match wnindex wr u with
        | some i =>
          match xs[i]? with
          | some x => (.val (.a x), st')
          | Option.none => (.err .indexError, st')
        | Option.none => (.err .typeError, st')           -- `array[None]`
      | (Option.none, _) => (.err .unmodelled, st)
    | Option.none => (.err .typeError, st)
  | _ => (.err .typeError, st)

/-! ### PSample -/

def sampleLoop : Nat → List Atom → List Rat → List Atom → St → Out × St
  | 0, _, _, acc, st => (.val (.tup acc.reverse), st)
  | n + 1, xs, ws, acc, st =>
    if ws.isEmpty then
      if xs.length = 0 then (.err .valueError, st)
      else
        match st.drawB xs.length with
        | (some k, st') =>
          match xs[k]? with
          | some x => sampleLoop n (xs.eraseIdx k) ws (x :: acc) st'
          | Option.none => (.err .unmodelled, st)
        | (Option.none, _) => (.err .unmodelled, st)
    else
      match st.drawU with
      | (some u, st') =>
        match wnindex ws u with
        | some i =>
          match xs[i]? with
          | some x => sampleLoop n (xs.eraseIdx i) (ws.eraseIdx i) (x :: acc) st'
          | Option.none => (.err .indexError, st')
        | Option.none => (.err .typeError, st')
      | (Option.none, _) => (.err .unmodelled, st)

def sampleCore (vals : List Val) (st : St) : Out × St :=
  match vals with
  | [.tup xs, .a c, w] =>
    match c.toInt? with
    | some cnt =>
      if (xs.length : Int) < cnt then (.err .valueError, st)
      else
        match w with
        | .tup ws =>
          match atomsToRats ws with
          | some wr => sampleLoop cnt.toNat xs wr [] st
          | Option.none => (.err .typeError, st)
        | .a x => if x.truthy then (.err .typeError, st) else sampleLoop cnt.toNat xs [] [] st
    | Option.none => (.err .typeError, st)
  | _ => (.err .typeError, st)

/-! ### PShuffle -/

/-- The part of `PShuffle.__next__` after the optional shuffle: `vs` = the (shuffled) values. -/
def shuffleEmit (rep : Atom) (vs : List Val) (old : St) (st : St) : Out × St :=
  if vs.length ≤ old.n0.toNat then
    match rep.toNum with
    | some r =>
      if r.r ≤ ((old.n1 + 1 : Int) : Rat) then (.stop, { st with buf := vs, n1 := old.n1 + 1 })
      else
        match vs[0]? with
        | some x => (.val x, { st with buf := vs, n1 := old.n1 + 1, n0 := 1 })
        | Option.none => (.err .indexError, { st with buf := vs, n1 := old.n1 + 1, n0 := 0 })
    | Option.none => (.err .typeError, { st with buf := vs, n1 := old.n1 + 1 })
  else
    match vs[old.n0.toNat]? with
    | some x => (.val x, { st with buf := vs, n0 := old.n0 + 1 })
    | Option.none => (.err .unmodelled, st)

def shuffleCore (vals : List Val) (st : St) : Out × St :=
  match vals with
  | [.a rep] =>
    if st.n0 = 0 then
      match pyShuffle st.buf st with
      | some (vs, st') => shuffleEmit rep vs st st'
      | Option.none => (.err .unmodelled, st)
    else shuffleEmit rep st.buf st st
  | _ => (.err .typeError, st)

def resetShuffle (st : St) : St := { st with n0 := 0, n1 := 0, buf := st.buf2 }

/-! ### PSkip -/

def skipCore (vals : List Val) (st : St) : Out × St :=
  match vals with
  | [x, .a play] =>
    if st.n0 ≠ 0 then
      match st.v0, play.toNum with
      | .a (.flt pos), some p =>
        if 1 ≤ pos + p.r then (.val x, { st with v0 := .flt (pos + p.r - 1) })
        else (.val Val.none, { st with v0 := .flt (pos + p.r) })
      | _, _ => (.err .typeError, st)
    else
      match st.drawU with
      | (some u, st') =>
        match play.toNum with
        | some p => if u < p.r then (.val x, st') else (.val Val.none, st')
        | Option.none => (.err .typeError, st')
      | (Option.none, _) => (.err .unmodelled, st)
  | _ => (.err .typeError, st)

def resetSkip (st : St) : St := { st with v0 := .flt 0 }

/-! ### PFlipFlop -/

def flipFlopCore (vals : List Val) (st : St) : Out × St :=
  match vals with
  | [.a pon, .a poff] =>
    match st.drawU with
    | (some u, st') =>
      if isZeroVal st.v0 then
        match pon.toNum with
        | some p => if u < p.r then (.val (.int 1), { st' with v0 := .int 1 }) else (.val st.v0, st')
        | Option.none => (.err .typeError, st')
      else
        match poff.toNum with
        | some p => if u < p.r then (.val (.int 0), { st' with v0 := .int 0 }) else (.val st.v0, st')
        | Option.none => (.err .typeError, st')
    | (Option.none, _) => (.err .unmodelled, st)
  | _ => (.err .typeError, st)

def resetFlipFlop (st : St) : St := { st with v0 := st.v1 }

/-! ### PRandomExponential

`scale_lin_exp(u, 0, 1, min, max) = (max / min) ** u * min` is irrational in general; the model computes
it to a relative precision of about 2^-70 by repeated fixed-point square roots (`u` is a dyadic
fraction: `a ** u` is the product of the `a ** (2 ** -i)` over the set bits `i` of `u`); the harness
compares floats with a relative tolerance. -/

def isqrtLoop : Nat → Nat → Nat → Nat
  | 0, _, x => x
  | fuel + 1, n, x => if (x + n / x) / 2 < x then isqrtLoop fuel n ((x + n / x) / 2) else x

/-- Integer square root (floor), Newton's iteration from a power of two above the root. -/
def isqrt (n : Nat) : Nat := if n = 0 then 0 else isqrtLoop 400 n (2 ^ (n.log2 / 2 + 1))

def FIXBITS : Nat := 80

/-- Square root of a non-negative rational, rounded down to a multiple of 2^-80. -/
def sqrtFix (r : Rat) : Rat := mkRat ((isqrt ((r * ((4 ^ FIXBITS : Nat) : Rat)).floor.toNat) : Nat) : Int) (2 ^ FIXBITS)

/-- `a ** u` for `0 ≤ u < 1`: bits of `u` from the most significant; `root` = `a ** (2 ** -i)`. -/
def powBits : Nat → Rat → Rat → Rat → Rat
  | 0, _, _, acc => acc
  | n + 1, root, u, acc =>
    if 1 ≤ 2 * u then powBits n (sqrtFix root) (2 * u - 1) (acc * root)
    else powBits n (sqrtFix root) (2 * u) acc

def powFrac (a u : Rat) : Rat := powBits 64 (sqrtFix a) u 1

def expCore (vals : List Val) (st : St) : Out × St :=
  match vals with
  | [.a mn, .a mx] =>
    match mn.toNum, mx.toNum with
    | some a, some b =>
      match st.drawU with
      | (some u, st') =>
        if a.r = 0 then (.err .zeroDivision, st')
        else if a.r < 0 ∨ b.r ≤ 0 then (.err .unmodelled, st')
        else if a.isFloat then (.val (.flt (powFrac (b.r / a.r) u * a.r)), st')
        else (.val (.int (truncRat (powFrac (b.r / a.r) u * a.r))), st')
      | (Option.none, _) => (.err .unmodelled, st)
    | _, _ => (.err .typeError, st)
  | _ => (.err .typeError, st)

/-! ### PMarkov -/

def edgesOf : List Val → List (Val × Val)
  | a :: b :: rest => (a, b) :: edgesOf rest
  | _ => []

/-- `self.nodes[x]`. -/
def succs (es : List (Val × Val)) (x : Val) : List Val := (es.filter (fun e => e.1 == x)).map (fun e => e.2)

/-- The part of `PMarkov.__next__` after the start node has been chosen. -/
def markovMove (node : Val) (st : St) : Out × St :=
  if !(st.buf.contains node) || (succs (edgesOf st.buf2) node).length == 0 then (.stop, { st with v0 := node })
  else
    match st.drawB (succs (edgesOf st.buf2) node).length with
    | (some k, st') =>
      match (succs (edgesOf st.buf2) node)[k]? with
      | some y => (.val y, { st' with v0 := y })
      | Option.none => (.err .unmodelled, st)
    | (Option.none, _) => (.err .unmodelled, st)

def markovCore (_vals : List Val) (st : St) : Out × St :=
  if st.v0 = Val.none ∧ st.buf.length ≠ 0 then
    match st.drawB st.buf.length with
    | (some k, st') =>
      match st.buf[k]? with
      | some x => markovMove x st'
      | Option.none => (.err .unmodelled, st)
    | (Option.none, _) => (.err .unmodelled, st)
  else markovMove st.v0 st

def resetMarkov (st : St) : St := { st with v0 := Val.none }

/-! ### PSwitchOne -/

def switchCore (st : St) : Out × St :=
  if st.buf.length ≤ st.n0.toNat then
    match st.drawB (st.buf.length + 1) with
    | (some k, st') =>
      if st.buf.length = 0 then (.err .zeroDivision, st')
      else
        match (swapAt st.buf ((k + st.buf.length - 1) % st.buf.length) (k % st.buf.length))[0]? with
        | some x =>
          (.val x, { st' with buf := swapAt st.buf ((k + st.buf.length - 1) % st.buf.length) (k % st.buf.length), n0 := 1 })
        | Option.none => (.err .unmodelled, st)
    | (Option.none, _) => (.err .unmodelled, st)
  else
    match st.buf[st.n0.toNat]? with
    | some x => (.val x, { st with n0 := st.n0 + 1 })
    | Option.none => (.err .unmodelled, st)

def stepSwitchOne : ClsStep := fun rec kids st =>
  match (stepKid rec kids 1).1 with
  | .val (.a len) =>
    match len.toNum with
    | some l =>
      if ((st.buf.length : Int) : Rat) < l.r then
        match (stepKid rec (stepKid rec kids 1).2 0).1 with
        | .val v =>
          { out := .val v, kids := (stepKid rec (stepKid rec kids 1).2 0).2,
            st := { st with buf := st.buf ++ [v], n0 := st.n0 + 1 } }
        | o => { out := o, kids := (stepKid rec (stepKid rec kids 1).2 0).2, st := st }
      else { out := (switchCore st).1, kids := (stepKid rec kids 1).2, st := (switchCore st).2 }
    | Option.none => { out := .err .typeError, kids := (stepKid rec kids 1).2, st := st }
  | .val (.tup _) => { out := .err .typeError, kids := (stepKid rec kids 1).2, st := st }
  | o => { out := o, kids := (stepKid rec kids 1).2, st := st }

def resetSwitchOne (st : St) : St := { st with buf := [], n0 := 0 }

/-! ### PShuffleInput -/

/-- `pattern.nextn(n)` on kid `i`: values until `n` are collected or StopIteration; an exception propagates. -/
def takeN (rec : Rec) : Nat → List Pat → Nat → List Val × Option Err × List Pat
  | 0, kids, _ => ([], Option.none, kids)
  | n + 1, kids, i =>
    match (stepKid rec kids i).1 with
    | .val v =>
      (v :: (takeN rec n (stepKid rec kids i).2 i).1, (takeN rec n (stepKid rec kids i).2 i).2.1,
        (takeN rec n (stepKid rec kids i).2 i).2.2)
    | .stop => ([], Option.none, (stepKid rec kids i).2)
    | .err e => ([], some e, (stepKid rec kids i).2)

/-- After `self.values = pattern.nextn(kevery)`: end when nothing was left, else shuffle and emit the first. -/
def shuffleInputEmit (vals : List Val) (st : St) : Out × St :=
  if vals.length = 0 then (.stop, { st with buf := [], n0 := 0 })
  else
    match pyShuffle vals st with
    | some (vs, st') =>
      match vs[0]? with
      | some x => (.val x, { st' with buf := vs, n0 := 1 })
      | Option.none => (.err .unmodelled, st)
    | Option.none => (.err .unmodelled, st)

def stepShuffleInput : ClsStep := fun rec kids st =>
  if st.buf.length ≤ st.n0.toNat ∨ st.n0 = 0 then
    match (stepKid rec kids 1).1 with
    | .val (.a ev) =>
      match ev.toInt? with
      | some n =>
        match (takeN rec n.toNat (stepKid rec kids 1).2 0).2.1 with
        | Option.none =>
          { out := (shuffleInputEmit (takeN rec n.toNat (stepKid rec kids 1).2 0).1 { st with n0 := 0 }).1,
            kids := (takeN rec n.toNat (stepKid rec kids 1).2 0).2.2,
            st := (shuffleInputEmit (takeN rec n.toNat (stepKid rec kids 1).2 0).1 { st with n0 := 0 }).2 }
        | some e =>
          { out := .err e, kids := (takeN rec n.toNat (stepKid rec kids 1).2 0).2.2, st := { st with n0 := 0 } }
      | Option.none => { out := .err .typeError, kids := (stepKid rec kids 1).2, st := { st with n0 := 0 } }
    | .val (.tup _) => { out := .err .typeError, kids := (stepKid rec kids 1).2, st := { st with n0 := 0 } }
    | o => { out := o, kids := (stepKid rec kids 1).2, st := { st with n0 := 0 } }
  else
    match st.buf[st.n0.toNat]? with
    | some x => { out := .val x, kids := kids, st := { st with n0 := st.n0 + 1 } }
    | Option.none => { out := .err .unmodelled, kids := kids, st := st }

def resetShuffleInput (st : St) : St := { st with buf := [], n0 := 0 }

/-! ### PRandomImpulseSequence -/

/-- `[int(rng.uniform(0, 1) < probability) for _ in range(n)]`. -/
def genBits : Nat → Rat → St → Option (List Val × St)
  | 0, _, st => some ([], st)
  | n + 1, p, st =>
    match st.drawU with
    | (some u, st') =>
      match genBits n p st' with
      | some (bs, st'') => some (Val.int (if u < p then 1 else 0) :: bs, st'')
      | Option.none => Option.none
    | (Option.none, _) => Option.none

/-- `rv = self.values[self.pos]; self.pos += 1` with `values := vs`, `pos := 0`. -/
def risEmit (vs : List Val) (len : Int) (st : St) : Out × St :=
  match vs[0]? with
  | some x => (.val x, { st with buf := vs, n0 := 1, n1 := len })
  | Option.none => (.err .indexError, { st with buf := vs, n0 := 0, n1 := len })

def stepRIS : ClsStep := fun rec kids st =>
  if st.buf.length ≤ st.n0.toNat then
    match (stepKid rec kids 1).1 with
    | .val (.a len) =>
      match len.toInt? with
      | some L =>
        if (st.buf.length : Int) < L then
          match (stepKid rec (stepKid rec kids 1).2 0).1 with
          | .val (.a p) =>
            match p.toNum with
            | some pr =>
              match genBits (L - (st.buf.length : Int)).toNat pr.r st with
              | some (bits, st') =>
                { out := (risEmit (st.buf ++ bits) L st').1, kids := (stepKid rec (stepKid rec kids 1).2 0).2,
                  st := (risEmit (st.buf ++ bits) L st').2 }
              | Option.none =>
                { out := .err .unmodelled, kids := (stepKid rec (stepKid rec kids 1).2 0).2, st := st }
            | Option.none =>
              { out := .err .typeError, kids := (stepKid rec (stepKid rec kids 1).2 0).2, st := { st with n0 := 0, n1 := L } }
          | .val (.tup _) =>
            { out := .err .typeError, kids := (stepKid rec (stepKid rec kids 1).2 0).2, st := { st with n0 := 0, n1 := L } }
          | o => { out := o, kids := (stepKid rec (stepKid rec kids 1).2 0).2, st := { st with n0 := 0, n1 := L } }
        else
          { out := (risEmit (st.buf.take L.toNat) L st).1, kids := (stepKid rec kids 1).2,
            st := (risEmit (st.buf.take L.toNat) L st).2 }
      | Option.none => { out := .err .typeError, kids := (stepKid rec kids 1).2, st := { st with n0 := 0 } }
    | .val (.tup _) => { out := .err .typeError, kids := (stepKid rec kids 1).2, st := { st with n0 := 0 } }
    | o => { out := o, kids := (stepKid rec kids 1).2, st := { st with n0 := 0 } }
  else
    match st.buf[st.n0.toNat]? with
    | some x => { out := .val x, kids := kids, st := { st with n0 := st.n0 + 1 } }
    | Option.none => { out := .err .unmodelled, kids := kids, st := st }

def resetRIS (st : St) : St := { st with buf := [], n0 := 0, n1 := 0 }

/-! ### Registration -/

def stepWhite : ClsStep := stepPure [0, 1, 2] whiteCore
def stepBrown : ClsStep := stepPure [0, 1, 2] brownCore
def stepCoin : ClsStep := stepPure [0, 1] coinCore
def stepWalk : ClsStep := stepPure [0, 1, 2] walkCore
def stepChoice : ClsStep := stepPure [0, 1] choiceCore
def stepSample : ClsStep := stepPure [0, 1, 2] sampleCore
def stepShuffle : ClsStep := stepPure [0] shuffleCore
def stepSkip : ClsStep := stepPure [0, 1] skipCore
def stepFlipFlop : ClsStep := stepPure [0, 1] flipFlopCore
def stepExp : ClsStep := stepPure [0, 1] expCore
def stepMarkov : ClsStep := stepPure [] markovCore

end IsobarV.Pat
