/-
Misc group: `PLSystem` (isobar/pattern/lsystem.py), `PDict` / `PDictKey` (isobar/pattern/core.py) and the
recursive resolution of `Pattern.value` (a constant whose value is a pattern, a tuple containing patterns).

Register layouts
  lsystem   no kids             v0 = rule (str), n0 = depth, n1 = loop flag (0 / 1),
                                n2 = lsys.pos, n3 = lsys.state, buf = lsys.stack (HEAD = top of the stack; ints)
  dict      kids = the values, in key order      buf = the keys (atoms; not used by `__next__`)
            n0 = constructor form: 0 = dict of patterns / scalars; 1 = list of dicts, kids = the rows' items in
            row-major order, buf = the keys of the first dict — `construct` (the model of `PDict.__init__`)
            turns form 1 into form 0 before the object exists, so a live object always has n0 = 0
  dictKey   kids = key :: …     buf = the keys of the dict
            n0 = 0: `dict` is a pattern yielding dicts (a PDict): kids = [key, dict]
            n0 = 1: `dict` is a plain Python dict: kids = key :: its values, in key order
  constP    kids = [pattern]    `PConstant(<pattern>)` as seen through `Pattern.value`
  tupP      kids = the elements a tuple containing patterns, as seen through `Pattern.value`

A dict yielded by `PDict` is modelled as the tuple of its values in key order (the keys are static).  Values
resolve to scalars: a value that is itself a tuple (a chord) would need nested tuples, which `Val` does not
have (`err unmodelled`; the generator keeps out of it).
-/
import IsobarV.Pat.Core

namespace IsobarV.Pat

/-! ### PLSystem -/

/-- One pass of `LSystem.iterate`: every `N` of the string is replaced by the rule, other characters stay. -/
def lsysRewrite (rule : List Char) (s : List Char) : List Char :=
  s.flatMap (fun c => if c = 'N' then rule else [c])

/-- `LSystem(rule, "N").iterate(depth)`. -/
def lsysExpand (rule : List Char) : Nat → List Char
  | 0 => ['N']
  | d + 1 => lsysRewrite rule (lsysExpand rule d)

def lsysRule (st : St) : List Char :=
  match st.v0 with
  | .a (.str s) => s.toList
  | _ => []

/-- `self.lsys.string` (recomputed from rule and depth, which never change). -/
def lsysTokens (st : St) : List Char := lsysExpand (lsysRule st) st.n0.toNat

def lsysInt : Val → Int
  | .a (.int i) => i
  | _ => 0

/-- Result of `LSystem.__next__`: outcome, `pos`, `state`, `stack` afterwards. -/
structure LsysRes where
  out : Out
  pos : Nat
  state : Int
  stack : List Val
  deriving Repr

/-- `LSystem.__next__` on the rest of the string from `pos`: skip the turtle commands up to the next token that
    yields (`N`: the state; `_`: a rest).  `]` on an empty stack raises IndexError (`pos` already advanced);
    `?` draws from the GLOBAL generator: outside the model. -/
def lsysScan : List Char → Nat → Int → List Val → LsysRes
  | [], pos, s, stk => { out := .stop, pos := pos, state := s, stack := stk }
  | c :: ts, pos, s, stk =>
    if c = 'N' then { out := .val (Val.int s), pos := pos + 1, state := s, stack := stk }
    else if c = '_' then { out := .val Val.none, pos := pos + 1, state := s, stack := stk }
    else if c = '-' then lsysScan ts (pos + 1) (s - 1) stk
    else if c = '+' then lsysScan ts (pos + 1) (s + 1) stk
    else if c = '?' then { out := .err .unmodelled, pos := pos + 1, state := s, stack := stk }
    else if c = '[' then lsysScan ts (pos + 1) s (Val.int s :: stk)
    else if c = ']' then
      match stk with
      | [] => { out := .err .indexError, pos := pos + 1, state := s, stack := stk }
      | x :: rest => lsysScan ts (pos + 1) (lsysInt x) rest
    else lsysScan ts (pos + 1) s stk

/-- `n = next(self.lsys)`. -/
def lsysFirst (st : St) : LsysRes := lsysScan ((lsysTokens st).drop st.n2.toNat) st.n2.toNat st.n3 st.buf
/-- `self.lsys.reset(); n = next(self.lsys)`. -/
def lsysAgain (st : St) : LsysRes := lsysScan (lsysTokens st) 0 0 []
def lsysSt (st : St) (r : LsysRes) : St := { st with n2 := r.pos, n3 := r.state, buf := r.stack }

/-- `PLSystem.__next__`: with `loop` a rest token restarts the system (and exhaustion does NOT loop). -/
def stepLsystem : ClsStep := fun _ kids st =>
  if (lsysFirst st).out = .val Val.none ∧ st.n1 ≠ 0 then
    { out := (lsysAgain st).out, kids := kids, st := lsysSt st (lsysAgain st) }
  else { out := (lsysFirst st).out, kids := kids, st := lsysSt st (lsysFirst st) }

/-- `PLSystem.reset()`: a new `LSystem`, iterated again (`pos = 0`, `state = 0`, `stack = []`). -/
def resetLsystem (st : St) : St := { st with n2 := 0, n3 := 0, buf := [] }

/-! ### Resolving a list of patterns in order (`PDict` values, elements of a tuple) -/

/-- Result of resolving a list of patterns in order: the first outcome that is not a scalar value (if any), the
    patterns afterwards (those after the failing one untouched), the values. -/
structure AllRes where
  fail : Option Out
  kids : List Pat
  vals : List Atom
  deriving Repr

def stepAll (rec : Rec) : List Pat → AllRes
  | [] => { fail := Option.none, kids := [], vals := [] }
  | k :: ks =>
    match (rec k).out with
    | .val (.a x) =>
      { fail := (stepAll rec ks).fail, kids := (rec k).p :: (stepAll rec ks).kids, vals := x :: (stepAll rec ks).vals }
    | .val (.tup _) => { fail := some (.err .unmodelled), kids := (rec k).p :: ks, vals := [] }
    | o => { fail := some o, kids := (rec k).p :: ks, vals := [] }

/-- `dict([(k, Pattern.value(vdict[k])) for k in vdict])` / `tuple([Pattern.value(e) for e in v])`: resolve every
    value in order; StopIteration (or an exception) of any of them ends the step, the earlier ones consumed. -/
def stepTuple : ClsStep := fun rec kids st =>
  match (stepAll rec kids).fail with
  | some o => { out := o, kids := (stepAll rec kids).kids, st := st }
  | Option.none => { out := .val (.tup (stepAll rec kids).vals), kids := (stepAll rec kids).kids, st := st }

/-! ### PDict: the two constructor forms -/

/-- The rows of a row-major list of items, `m` items per row (fuel = number of items). -/
def chunkRows (m : Nat) : Nat → List Pat → List (List Pat)
  | 0, _ => []
  | fuel + 1, items =>
    match items with
    | [] => []
    | _ :: _ => items.take m :: chunkRows m fuel (items.drop m)

/-- `PSequence(items, 1)`. -/
def seqOnce (items : List Pat) : Pat := .node .seq items { n0 := 1 }

/-- `[item[key] for item in value]` for the `j`-th key. -/
def dictColumn (rows : List (List Pat)) (j : Nat) : List Pat := rows.filterMap (fun row => row[j]?)

/-- `PDict([row₀, row₁, …])`: `self.dict[key] = PSequence([item[key] for item in value], 1)` for every key of the
    first dict (`m` keys; `items` = the rows' values in row-major order). -/
def dictColumns (m : Nat) (items : List Pat) : List Pat :=
  (List.range m).map (fun j => seqOnce (dictColumn (chunkRows m items.length items) j))

/-- Constructor normalisation (the model of `__init__` where it does more than store its arguments): a `PDict` built
    from a list of dicts IS the dict of the one-shot sequences of its columns. -/
def construct : Pat → Pat
  | .node .dict kids st =>
    if st.n0 = 1 then .node .dict (dictColumns st.buf.length kids) { st with n0 := 0 } else .node .dict kids st
  | p => p

/-! ### PDictKey -/

/-- Python equality of dict keys (`1 == 1.0 == True`). -/
def dictKeyEq (a b : Atom) : Bool :=
  match a.toNum, b.toNum with
  | some x, some y => x.r == y.r
  | some _, Option.none => false
  | Option.none, some _ => false
  | Option.none, Option.none => a == b

/-- Position of `key` among the keys. -/
def dictFind (key : Atom) : List Val → Nat → Option Nat
  | [], _ => Option.none
  | .a k :: ks, i => if dictKeyEq key k then some i else dictFind key ks (i + 1)
  | .tup _ :: ks, i => dictFind key ks (i + 1)

/-- `vdict[vkey]` on a yielded dict (= the tuple of its values). -/
def dictLookup (keys : List Val) (xs : List Atom) (key : Val) : Out :=
  match key with
  | .a k =>
    match dictFind k keys 0 with
    | some j =>
      match xs[j]? with
      | some x => .val (.a x)
      | Option.none => .err .unmodelled
    | Option.none => .err .keyError
  | .tup _ => .err .keyError

/-- `PDictKey.__next__`: `vdict = Pattern.value(self.dict); vkey = Pattern.value(self.key); return vdict[vkey]`. -/
def stepDictKey : ClsStep := fun rec kids st =>
  if st.n0 = 0 then
    -- `dict` is a pattern (kid 1), resolved BEFORE the key (kid 0)
    match (stepKid rec kids 1).1 with
    | .val d =>
      match (stepKid rec (stepKid rec kids 1).2 0).1 with
      | .val key =>
        match d with
        | .tup xs => { out := dictLookup st.buf xs key, kids := (stepKid rec (stepKid rec kids 1).2 0).2, st := st }
        | .a _ => { out := .err .typeError, kids := (stepKid rec (stepKid rec kids 1).2 0).2, st := st }
      | o => { out := o, kids := (stepKid rec (stepKid rec kids 1).2 0).2, st := st }
    | o => { out := o, kids := (stepKid rec kids 1).2, st := st }
  else
    -- `dict` is a plain dict: only the key is resolved; the value found is handed out as it is (a pattern found
    -- there is resolved by whoever consumes this pattern through `Pattern.value`)
    match (stepKid rec kids 0).1 with
    | .val (.a k) =>
      match dictFind k st.buf 0 with
      | some j => { out := (stepKid rec (stepKid rec kids 0).2 (j + 1)).1, kids := (stepKid rec (stepKid rec kids 0).2 (j + 1)).2, st := st }
      | Option.none => { out := .err .keyError, kids := (stepKid rec kids 0).2, st := st }
    | .val (.tup _) => { out := .err .keyError, kids := (stepKid rec kids 0).2, st := st }
    | o => { out := o, kids := (stepKid rec kids 0).2, st := st }

/-! ### `Pattern.value`: recursive resolution -/

/-- `Pattern.value(PConstant(p))` = `Pattern.value(next(PConstant(p)))` = `Pattern.value(p)`: the constant hands out
    the pattern itself, `Pattern.value` resolves it one step further. -/
def stepConstP : ClsStep := fun rec kids st =>
  { out := (stepKid rec kids 0).1, kids := (stepKid rec kids 0).2, st := st }

end IsobarV.Pat
