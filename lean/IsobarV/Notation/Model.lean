/-
Executable model of isobar's bracket notation (`isobar/notation/notation.py`), of the string branch of
`Pattern.pattern` (`isobar/pattern/core.py`) and of the way a parsed (nested) `PSequence` plays
(`isobar/pattern/sequence.py`, `PSequence.__next__` with the default `repeats = sys.maxsize`).

The model works on `List Char` (one `Char` per Python code point) and mirrors the code AFTER the repair
`fixes/01-notation-stray-close-bracket.patch` (a `]` that would take the depth below zero raises
`ValueError` at once).

  Python                                   model
  ---------------------------------------  -------------------------------------------
  `_parser_get_next_token(string)`         `nextToken`
      `string[0]`  (IndexError on '')          `.error .indexError`
      `string[0] in '[]'`                      first char is a bracket
      `re.match(r"(-?[0-9]+(\.[0-9]+)?|[a-g]#?[0-9])\b", string)`
                                               `matchNumber` / `matchNote` (backtracking order of `re`)
  `_parser_token_to_value(token)`          `tokenToValue`   (`int()` / `float()` / keep the string)
  `_parser_push(obj, groups, depth)`       `pushAt depth obj groups`
  `parse_notation(string)`                 `parse` = `parseLoop` (same state: groups, depth, string)
  `string.lstrip()`                        `lstrip` with `isSpace` = `str.isspace` of CPython 3.12
  `Pattern.pattern(str)`                   `patternOf`
  `next(PSequence)` on the parsed tree     `PS.next`

No imports: this file is linked into the compiled driver.
-/
namespace IsobarV.Notation

/-! ## Values and trees -/

/-- A leaf of a parsed sequence.  Floats are kept as the digit strings that were written (sign,
integer part, fraction part): the model never rounds, and two different spellings of the same
float stay different (the harness compares them through Python's `float()`). -/
inductive Val where
  | int (i : Int)
  | flt (neg : Bool) (ip fp : List Char)
  | name (cs : List Char)
  deriving DecidableEq, Repr, Inhabited

/-- The nested structure held by a `PSequence` returned by `parse_notation`:
`group ts` is a nested `PSequence(ts)`. -/
inductive Tree where
  | leaf (v : Val)
  | group (ts : List Tree)
  deriving Repr, Inhabited

/-- Exception classes.  `internal` stands for behaviour that the real code cannot show on any
input (fuel exhausted, `_parser_push` descending into something that is not a `PSequence`);
`no_internal_error` proves that `parse` never returns it. -/
inductive Err where
  | valueError
  | indexError
  | internal
  deriving DecidableEq, Repr, Inhabited

/-! ## Character classes -/

/-- `str.isspace()` for one code point (CPython 3.12, Unicode 15): the characters removed by
`str.lstrip()` without argument. -/
def isSpace (c : Char) : Bool :=
  let n := c.toNat
  (0x09 ≤ n && n ≤ 0x0D) || (0x1C ≤ n && n ≤ 0x20) || n == 0x85 || n == 0xA0 || n == 0x1680 ||
  (0x2000 ≤ n && n ≤ 0x200A) || n == 0x2028 || n == 0x2029 || n == 0x202F || n == 0x205F || n == 0x3000

/-- ASCII digit, the class `[0-9]` of a `str` pattern. -/
def isDig (c : Char) : Bool := 48 ≤ c.toNat && c.toNat ≤ 57

/-- The class `[a-g]`. -/
def isNoteLetter (c : Char) : Bool := 97 ≤ c.toNat && c.toNat ≤ 103

/-- Word character for `\b`.  For ASCII this is `[A-Za-z0-9_]` exactly.  Python also counts the
non-ASCII alphanumerics; the model does not, which cannot be observed: a string that contains a
non-ASCII, non-space character is rejected on both sides whatever its class
(`foreign_char_rejected`; the harness checks every code point after a token). -/
def isWord (c : Char) : Bool :=
  let n := c.toNat
  (48 ≤ n && n ≤ 57) || (65 ≤ n && n ≤ 90) || (97 ≤ n && n ≤ 122) || n == 95

/-- `\b` at a position that follows a word character: end of string or a non-word character. -/
def boundary : List Char → Bool
  | [] => true
  | c :: _ => !isWord c

/-- `str.lstrip()`. -/
def lstrip : List Char → List Char
  | [] => []
  | c :: cs => if isSpace c then lstrip cs else c :: cs

/-- a string cut in two -/
structure Cut where
  taken : List Char
  rest : List Char
  deriving Repr

/-- Longest prefix of ASCII digits and the rest (`[0-9]+`, greedy). -/
def spanDigits : List Char → Cut
  | [] => ⟨[], []⟩
  | c :: cs =>
    if isDig c then
      let r := spanDigits cs
      ⟨c :: r.1, r.2⟩
    else ⟨[], c :: cs⟩

/-! ## Tokenizer -/

/-- `[0-9]+(\.[0-9]+)?` followed by `\b`, with `re`'s backtracking: all digits are taken; the
fraction is taken when it is followed by a boundary, otherwise the match falls back to the
integer part (a digit followed by `.` is a boundary, and so `boundary d.2` holds there); shorter
digit runs end between two digits, never at a boundary. -/
def matchUnsigned (s : List Char) : Option (List Char) :=
  let d := spanDigits s
  if d.1.isEmpty then none
  else
    let f := spanDigits (d.2.drop 1)
    if d.2.head? = some '.' && !f.1.isEmpty && boundary f.2 then some (d.1 ++ '.' :: f.1)
    else if boundary d.2 then some d.1
    else none

/-- First alternative of the regex, `-?[0-9]+(\.[0-9]+)?` followed by `\b`. -/
def matchNumber (s : List Char) : Option (List Char) :=
  match s with
  | [] => none
  | c :: cs =>
    if c = '-' then
      match matchUnsigned cs with
      | some t => some (c :: t)
      | none => none
    else matchUnsigned (c :: cs)

/-- Second alternative, `[a-g]#?[0-9]` followed by `\b` (when `#` is present the digit must
follow it: backtracking over `#?` would need a digit in the place of `#`). -/
def matchNote (s : List Char) : Option (List Char) :=
  match s with
  | c :: x :: rest =>
    if isNoteLetter c then
      if x = '#' then
        match rest with
        | d :: rest' => if isDig d && boundary rest' then some [c, x, d] else none
        | [] => none
      else if isDig x && boundary rest then some [c, x] else none
    else none
  | _ => none

/-- `_parser_get_next_token`. -/
def nextToken : List Char → Except Err (List Char)
  | [] => .error .indexError
  | c :: cs =>
    if c = '[' ∨ c = ']' then .ok [c]
    else match matchNumber (c :: cs) with
      | some t => .ok t
      | none => match matchNote (c :: cs) with
        | some t => .ok t
        | none => .error .valueError

/-! ## Token to value -/

/-- non-empty and all ASCII digits -/
def allDigits (ds : List Char) : Bool := !ds.isEmpty && ds.all isDig

/-- `int(token)` on a token of the regex's shape: succeeds exactly on `-?[0-9]+`. -/
def intOfToken (t : List Char) : Option Int :=
  match t with
  | [] => none
  | c :: cs =>
    if c = '-' then
      if allDigits cs then some (-(Int.ofNat (Nat.ofDigitChars 10 cs 0))) else none
    else if allDigits (c :: cs) then some (Int.ofNat (Nat.ofDigitChars 10 (c :: cs) 0)) else none

/-- Split at the first `.`. -/
def splitDot : List Char → Option Cut
  | [] => none
  | c :: cs =>
    if c = '.' then some ⟨[], cs⟩
    else match splitDot cs with
      | some r => some ⟨c :: r.1, r.2⟩
      | none => none

def unsignedFloat (neg : Bool) (body : List Char) : Option Val :=
  match splitDot body with
  | some r => if allDigits r.1 && allDigits r.2 then some (.flt neg r.1 r.2) else none
  | none => none

/-- `float(token)` on a token of the regex's shape: succeeds exactly on `-?[0-9]+\.[0-9]+`
(the value is kept as its digit strings). -/
def floatOfToken (t : List Char) : Option Val :=
  match t with
  | [] => none
  | c :: cs => if c = '-' then unsignedFloat true cs else unsignedFloat false (c :: cs)

/-- `_parser_token_to_value`: `int`, else `float`, else the string itself. -/
def tokenToValue (t : List Char) : Val :=
  match intOfToken t with
  | some i => .int i
  | none => match floatOfToken t with
    | some v => v
    | none => .name t

/-! ## Push-down parser -/

/-- `_parser_push`: walk `depth` times into the last element, then append.
`none` = the walk meets an empty sequence (IndexError) or a non-sequence. -/
def pushAt : Nat → Tree → List Tree → Option (List Tree)
  | 0, obj, ts => some (ts ++ [obj])
  | d + 1, obj, ts =>
    match ts.getLast? with
    | some (.group g) =>
      match pushAt d obj g with
      | some g' => some (ts.dropLast ++ [.group g'])
      | none => none
    | _ => none

/-- the parser's variables `groups` (the list held by the top-level PSequence) and `depth` -/
structure PState where
  groups : List Tree
  depth : Nat
  deriving Repr

/-- The body of the `while True` loop for one token: new `groups`, `depth`.
(`depth` is a `Nat` here: after `depth -= 1` the test `depth < 0` holds exactly when `depth` was 0.) -/
def stepTok (groups : List Tree) (depth : Nat) (tok : List Char) : Except Err PState :=
  if tok = ['['] then
    match pushAt depth (.group []) groups with
    | some g => .ok ⟨g, depth + 1⟩
    | none => .error .internal
  else if tok = [']'] then
    -- depth -= 1; if depth < 0: raise ValueError   (the repair)
    if depth = 0 then .error .valueError else .ok ⟨groups, depth - 1⟩
  else
    match pushAt depth (.leaf (tokenToValue tok)) groups with
    | some g => .ok ⟨g, depth⟩
    | none => .error .internal

/-- The loop of `parse_notation`; `fuel` bounds the number of tokens (every token consumes at
least one character, `fuel = len(string) + 1` is never exhausted). -/
def parseLoop : Nat → List Tree → Nat → List Char → Except Err (List Tree)
  | 0, _, _, _ => .error .internal
  | fuel + 1, groups, depth, s =>
    match nextToken s with
    | .error e => .error e
    | .ok tok =>
      match stepTok groups depth tok with
      | .error e => .error e
      | .ok ⟨groups', depth'⟩ =>
        let s' := lstrip (s.drop tok.length)
        if s'.isEmpty then
          if depth' > 0 then .error .valueError else .ok groups'
        else parseLoop fuel groups' depth' s'

/-- `parse_notation`: the whole loop runs under `except IndexError: raise ValueError`. -/
def parse (s : List Char) : Except Err (List Tree) :=
  match parseLoop (s.length + 1) [] 0 s with
  | .error .indexError => .error .valueError
  | r => r

/-! ## `Pattern.pattern` on a string -/

inductive Pat where
  | seq (ts : List Tree)        -- the PSequence returned by parse_notation
  | const (s : List Char)       -- PConstant(string)
  deriving Repr, Inhabited

/-- `Pattern.pattern(v)` for `isinstance(v, str)`: `try parse_notation(v) except ValueError: PConstant(v)`.
(PDict applies it to every value of an event dictionary.) -/
def patternOf (s : List Char) : Pat :=
  match parse s with
  | .ok ts => .seq ts
  | .error _ => .const s

/-! ## Formatting -/

def fmtNat (n : Nat) : List Char := Nat.toDigits 10 n

def fmtVal : Val → List Char
  | .int i => if i < 0 then '-' :: fmtNat i.natAbs else fmtNat i.natAbs
  | .flt neg ip fp => (if neg then ['-'] else []) ++ ip ++ '.' :: fp
  | .name cs => cs

mutual
/-- The token texts of a tree, brackets included. -/
def tokensT : Tree → List (List Char)
  | .leaf v => [fmtVal v]
  | .group ts => ['['] :: (tokensL ts ++ [[']']])
def tokensL : List Tree → List (List Char)
  | [] => []
  | t :: ts => tokensT t ++ tokensL ts
end

/-- Is a space needed between two adjacent tokens in the canonical format?  (Not after `[` and
not before `]`.) -/
def needSpace (a b : List Char) : Bool := !(a = ['['] ∨ b = [']'])

/-- Canonical layout: one space between tokens, none inside the brackets:
`1 -2 [10 11] [c#4 [30.1]]`. -/
def joinTokens : List (List Char) → List Char
  | [] => []
  | [a] => a
  | a :: b :: rest => a ++ (if needSpace a b then [' '] else []) ++ joinTokens (b :: rest)

/-- `format`: the canonical string of a nested sequence. -/
def format (ts : List Tree) : List Char := joinTokens (tokensL ts)

/-! ## Playing a parsed sequence -/

/-- Run-time state of a (nested) `PSequence` built by the parser: every group carries its `pos`.
(`repeats = sys.maxsize` is never reached; `rcount` is not modelled.) -/
inductive PS where
  | leaf (v : Val)
  | seq (items : List PS) (pos : Nat)
  deriving Repr, Inhabited

inductive Out where
  | val (v : Val)
  | stop          -- StopIteration
  | indexError    -- sequence[pos] out of range (unreachable from parsed sequences)
  deriving DecidableEq, Repr, Inhabited

mutual
def PS.ofTree : Tree → PS
  | .leaf v => .leaf v
  | .group ts => .seq (PS.ofTrees ts) 0
def PS.ofTrees : List Tree → List PS
  | [] => []
  | t :: ts => PS.ofTree t :: PS.ofTrees ts
end

structure StepR (α : Type) where
  out : Out
  st : α
  deriving Repr

mutual
/-- `Pattern.value(x)`: a scalar is returned as it is, a pattern is advanced by one `next`.
`PSequence.__next__`: StopIteration on an empty sequence; `rv = Pattern.value(sequence[pos])`
(an exception raised there leaves `pos` unchanged); `pos += 1`, wrapping to 0. -/
def PS.next : PS → StepR PS
  | .leaf v => ⟨.val v, .leaf v⟩
  | .seq items pos =>
    if items.isEmpty then ⟨.stop, .seq items pos⟩
    else
      let r := PS.nextAt items pos
      match r.out with
      | .val v => ⟨.val v, .seq r.st (if pos + 1 ≥ items.length then 0 else pos + 1)⟩
      | o => ⟨o, .seq r.st pos⟩
/-- advance the element at index `i` -/
def PS.nextAt : List PS → Nat → StepR (List PS)
  | [], _ => ⟨.indexError, []⟩
  | x :: xs, 0 => let r := PS.next x; ⟨r.out, r.st :: xs⟩
  | x :: xs, i + 1 => let r := PS.nextAt xs i; ⟨r.out, x :: r.st⟩
end

/-- The first `n` results of `next()` (a StopIteration does not end the observation: the next call
is made on the state the failed call left behind). -/
def PS.run : Nat → PS → List Out
  | 0, _ => []
  | n + 1, s =>
    let r := s.next
    r.out :: PS.run n r.st

end IsobarV.Notation
