/-
Line-protocol driver for the bracket-notation model (suite `notation`).  Glue only.

Strings travel as decimal code points separated by blanks (they may contain newlines, NBSP, ...).

input                              output
  parse <cp>*                        ok <tree> | err <Class>
  tok <cp>*                          ok <cp>* | err <Class>          (_parser_get_next_token)
  pat <cp>*                          seq <tree> | const               (Pattern.pattern on a str)
  play <n> <cp>*                     out <leaf>* [stop|indexerror] | err <Class>
  fmt <tree>                         str <cp>*                        (canonical format)
  trip <tree>                        ok <tree> | err <Class>          (parse (format tree))
<tree> = items separated by blanks:  [  ]  i:<int>  f:<text>  s:<text>     (f:-30.2, s:c#4)
-/
import IsobarV.Notation.Model
import IsobarV.Util.Parse

namespace IsobarV.Notation.Drv
open IsobarV.Notation IsobarV.Util

def cps (ws : List String) : List Char := ws.map (fun w => Char.ofNat (toNat! w))

def showCps (cs : List Char) : String := joinWith " " (cs.map (fun c => toString c.toNat))

def showErr : Err → String
  | .valueError => "ValueError"
  | .indexError => "IndexError"
  | .internal => "internal"

def showVal : Val → String
  | .int i => s!"i:{i}"
  | .flt neg ip fp => "f:" ++ (if neg then "-" else "") ++ String.ofList ip ++ "." ++ String.ofList fp
  | .name cs => "s:" ++ String.ofList cs

partial def showTrees (ts : List Tree) : List String :=
  ts.flatMap fun
    | .leaf v => [showVal v]
    | .group g => ["["] ++ showTrees g ++ ["]"]

def showTreeLine (ts : List Tree) : String := joinWith " " (showTrees ts)

def readVal (w : String) : Val :=
  let body := (w.drop 2).toString
  if w.startsWith "i:" then .int (toInt! body)
  else if w.startsWith "f:" then
    let neg := body.startsWith "-"
    let b := if neg then (body.drop 1).toString else body
    match b.splitOn "." with
    | [ip, fp] => .flt neg ip.toList fp.toList
    | _ => .flt neg b.toList []
  else .name body.toList

/-- reads items until the matching `]` (or the end); returns the trees and the remaining words -/
partial def readTrees : List String → List Tree → List Tree × List String
  | [], acc => (acc.reverse, [])
  | "]" :: rest, acc => (acc.reverse, rest)
  | "[" :: rest, acc =>
    let (g, rest') := readTrees rest []
    readTrees rest' (.group g :: acc)
  | w :: rest, acc => readTrees rest (.leaf (readVal w) :: acc)

def showOut : Out → String
  | .val v => showVal v
  | .stop => "stop"
  | .indexError => "indexerror"

def handle (line : String) : String :=
  match words line with
  | "parse" :: ws =>
    match parse (cps ws) with
    | .ok ts => ("ok " ++ showTreeLine ts).trimAscii.toString
    | .error e => "err " ++ showErr e
  | "tok" :: ws =>
    match nextToken (cps ws) with
    | .ok t => "ok " ++ showCps t
    | .error e => "err " ++ showErr e
  | "pat" :: ws =>
    match patternOf (cps ws) with
    | .seq ts => ("seq " ++ showTreeLine ts).trimAscii.toString
    | .const _ => "const"
  | "play" :: n :: ws =>
    match parse (cps ws) with
    | .ok ts => ("out " ++ joinWith " " (((PS.ofTree (.group ts)).run (toNat! n)).map showOut)).trimAscii.toString
    | .error e => "err " ++ showErr e
  | "fmt" :: ws => ("str " ++ showCps (format (readTrees ws []).1)).trimAscii.toString
  | "trip" :: ws =>
    match parse (format (readTrees ws []).1) with
    | .ok ts => ("ok " ++ showTreeLine ts).trimAscii.toString
    | .error e => "err " ++ showErr e
  | _ => "bad-line"

def main : IO Unit := do
  let stdin ← IO.getStdin
  let stdout ← IO.getStdout
  let _ ← foldLines stdin () fun _ line => do
    stdout.putStrLn (handle line)
  stdout.flush

end IsobarV.Notation.Drv
