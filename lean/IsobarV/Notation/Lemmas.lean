/-
Helper definitions and lemmas for the bracket-notation model (property C20).
Nothing here is linked into the driver.
-/
import IsobarV.Notation.Model

namespace IsobarV.Notation

/-! ## Characters -/

theorem isDig_eq_isDigit (c : Char) : isDig c = c.isDigit := by
  simp [isDig, Char.isDigit, UInt32.le_iff_toNat_le]

theorem toNat_eq_of_eq {c d : Char} (h : c = d) : c.toNat = d.toNat := by rw [h]

theorem isDig_isWord {c : Char} (h : isDig c = true) : isWord c = true := by
  simp [isDig, isWord] at *; omega

theorem isNoteLetter_isWord {c : Char} (h : isNoteLetter c = true) : isWord c = true := by
  simp [isNoteLetter, isWord] at *; omega

theorem isSpace_not_isWord {c : Char} (h : isSpace c = true) : isWord c = false := by
  simp [isSpace, isWord] at *; omega

theorem isSpace_not_isDig {c : Char} (h : isSpace c = true) : isDig c = false := by
  simp [isSpace, isDig] at *; omega

theorem isDig_not_isSpace {c : Char} (h : isDig c = true) : isSpace c = false := by
  simp [isSpace, isDig] at *; omega

theorem isNoteLetter_not_isSpace {c : Char} (h : isNoteLetter c = true) : isSpace c = false := by
  simp [isSpace, isNoteLetter] at *; omega

theorem isNoteLetter_not_isDig {c : Char} (h : isNoteLetter c = true) : isDig c = false := by
  simp [isNoteLetter, isDig] at *; omega

theorem isDig_ne {c : Char} (h : isDig c = true) : c ≠ '-' ∧ c ≠ '.' ∧ c ≠ '#' ∧ c ≠ '[' ∧ c ≠ ']' := by
  refine ⟨?_, ?_, ?_, ?_, ?_⟩ <;> (rintro rfl; revert h; decide)

theorem isNoteLetter_ne {c : Char} (h : isNoteLetter c = true) :
    c ≠ '-' ∧ c ≠ '.' ∧ c ≠ '#' ∧ c ≠ '[' ∧ c ≠ ']' := by
  refine ⟨?_, ?_, ?_, ?_, ?_⟩ <;> (rintro rfl; revert h; decide)

theorem isSpace_ne {c : Char} (h : isSpace c = true) :
    c ≠ '-' ∧ c ≠ '.' ∧ c ≠ '#' ∧ c ≠ '[' ∧ c ≠ ']' := by
  refine ⟨?_, ?_, ?_, ?_, ?_⟩ <;> (rintro rfl; revert h; decide)

/-! ## lstrip -/

theorem lstrip_length_le (s : List Char) : (lstrip s).length ≤ s.length := by
  induction s with
  | nil => simp [lstrip]
  | cons c cs ih =>
    simp only [lstrip]; split
    · simp; omega
    · simp

theorem lstrip_decomp (s : List Char) :
    ∃ w, s = w ++ lstrip s ∧ ∀ c ∈ w, isSpace c = true := by
  induction s with
  | nil => exact ⟨[], by simp [lstrip]⟩
  | cons c cs ih =>
    simp only [lstrip]; split
    · obtain ⟨w, hw, hs⟩ := ih
      refine ⟨c :: w, by simp; exact hw, ?_⟩
      intro x hx
      cases hx with
      | head => assumption
      | tail _ h => exact hs x h
    · exact ⟨[], by simp⟩

theorem lstrip_head_not_space {s : List Char} {c : Char} {r : List Char}
    (h : lstrip s = c :: r) : isSpace c = false := by
  induction s with
  | nil => simp [lstrip] at h
  | cons a cs ih =>
    simp only [lstrip] at h; split at h
    · exact ih h
    · cases h; simp_all

/-- `NoLeadSpace r`: `r` is empty or begins with a character that `lstrip` keeps. -/
def NoLeadSpace (r : List Char) : Prop := ∀ c r', r = c :: r' → isSpace c = false

theorem lstrip_append_of_spaces (w r : List Char) (hw : ∀ c ∈ w, isSpace c = true)
    (hr : NoLeadSpace r) : lstrip (w ++ r) = r := by
  induction w with
  | nil =>
    cases r with
    | nil => rfl
    | cons c r' => simp [lstrip, hr c r' rfl]
  | cons a w ih =>
    have ha : isSpace a = true := hw a (by simp)
    simp only [List.cons_append, lstrip, ha, if_true]
    exact ih (fun c hc => hw c (by simp [hc]))

/-! ## spanDigits -/

theorem spanDigits_decomp (s : List Char) :
    s = (spanDigits s).1 ++ (spanDigits s).2 ∧ (∀ c ∈ (spanDigits s).1, isDig c = true) := by
  induction s with
  | nil => simp [spanDigits]
  | cons c cs ih =>
    simp only [spanDigits]; split
    · refine ⟨by simp; exact ih.1, ?_⟩
      intro x hx
      simp at hx
      cases hx with
      | inl h => subst h; assumption
      | inr h => exact ih.2 x h
    · simp

/-- `NoLeadDigit r`: `r` is empty or begins with a non-digit. -/
def NoLeadDigit (r : List Char) : Prop := ∀ c r', r = c :: r' → isDig c = false

theorem spanDigits_append (ds r : List Char) (hd : ∀ c ∈ ds, isDig c = true) (hr : NoLeadDigit r) :
    spanDigits (ds ++ r) = ⟨ds, r⟩ := by
  induction ds with
  | nil =>
    cases r with
    | nil => rfl
    | cons c r' => simp [spanDigits, hr c r' rfl]
  | cons a ds ih =>
    have ha : isDig a = true := hd a (by simp)
    simp only [List.cons_append, spanDigits, ha, if_true]
    rw [ih (fun c hc => hd c (by simp [hc]))]

theorem allDigits_iff {ds : List Char} :
    allDigits ds = true ↔ ds ≠ [] ∧ ∀ c ∈ ds, isDig c = true := by
  cases ds <;> simp [allDigits]


/-! ## Tokens -/

/-- characters that can occur in a token -/
def TokChar (c : Char) : Prop :=
  isDig c = true ∨ isNoteLetter c = true ∨ c = '-' ∨ c = '.' ∨ c = '#' ∨ c = '[' ∨ c = ']'

/-- a foreign character: it belongs to no token and is not white space -/
def Foreign (c : Char) : Prop :=
  isSpace c = false ∧ isDig c = false ∧ isNoteLetter c = false ∧
    c ≠ '-' ∧ c ≠ '.' ∧ c ≠ '#' ∧ c ≠ '[' ∧ c ≠ ']'

instance (c : Char) : Decidable (Foreign c) := by unfold Foreign; infer_instance

/-- what every token returned by `nextToken s` satisfies -/
structure TokSound (s t : List Char) : Prop where
  ne : t ≠ []
  pre : ∃ r, s = t ++ r
  chars : ∀ c ∈ t, TokChar c

theorem matchUnsigned_sound {s t : List Char} (h : matchUnsigned s = some t) : TokSound s t := by
  unfold matchUnsigned at h
  obtain ⟨hs, hd⟩ := spanDigits_decomp s
  generalize spanDigits s = d at *
  simp only at h
  split at h
  · cases h
  · rename_i hne
    have hne' : d.1 ≠ [] := by simpa using hne
    split at h
    · rename_i hc
      simp only [Bool.and_eq_true, decide_eq_true_eq, Bool.not_eq_true'] at hc
      cases h
      obtain ⟨⟨hdot, _⟩, _⟩ := hc
      obtain ⟨hs2, hd2⟩ := spanDigits_decomp (d.2.drop 1)
      generalize spanDigits (d.2.drop 1) = f at *
      have h2 : d.2 = '.' :: (f.1 ++ f.2) := by
        cases hd2' : d.2 with
        | nil => simp [hd2'] at hdot
        | cons a r =>
          simp [hd2'] at hdot hs2
          rw [hdot, hs2]
      refine ⟨by simp [hne'], ⟨f.2, ?_⟩, ?_⟩
      · rw [hs, h2]; simp
      · intro c hc
        simp at hc
        rcases hc with hc | hc | hc
        · exact Or.inl (hd c hc)
        · exact Or.inr (Or.inr (Or.inr (Or.inl hc)))
        · exact Or.inl (hd2 c hc)
    · split at h
      · cases h
        exact ⟨hne', ⟨d.2, hs⟩, fun c hc => Or.inl (hd c hc)⟩
      · cases h

theorem matchNumber_sound {s t : List Char} (h : matchNumber s = some t) : TokSound s t := by
  unfold matchNumber at h
  split at h
  · cases h
  · rename_i c cs
    split at h
    · rename_i hc
      split at h
      · rename_i t' ht'
        cases h
        obtain ⟨_, ⟨r, hr⟩, hch⟩ := matchUnsigned_sound ht'
        refine ⟨by simp, ⟨r, by simp [hr]⟩, ?_⟩
        intro x hx
        simp at hx
        rcases hx with hx | hx
        · subst hx; subst hc; exact Or.inr (Or.inr (Or.inl rfl))
        · exact hch x hx
      · cases h
    · exact matchUnsigned_sound h

theorem matchNote_sound {s t : List Char} (h : matchNote s = some t) : TokSound s t := by
  unfold matchNote at h
  split at h
  · rename_i c x rest
    split at h
    · rename_i hc
      split at h
      · rename_i hx
        split at h
        · rename_i d rest'
          split at h
          · rename_i hd
            cases h
            simp only [Bool.and_eq_true] at hd
            refine ⟨by simp, ⟨rest', by simp⟩, ?_⟩
            intro y hy
            simp at hy
            rcases hy with hy | hy | hy
            · subst hy; exact Or.inr (Or.inl hc)
            · subst hy; subst hx; exact Or.inr (Or.inr (Or.inr (Or.inr (Or.inl rfl))))
            · subst hy; exact Or.inl hd.1
          · cases h
        · cases h
      · split at h
        · rename_i hd
          cases h
          simp only [Bool.and_eq_true] at hd
          refine ⟨by simp, ⟨rest, by simp⟩, ?_⟩
          intro y hy
          simp at hy
          rcases hy with hy | hy
          · subst hy; exact Or.inr (Or.inl hc)
          · subst hy; exact Or.inl hd.1
        · cases h
    · cases h
  · cases h

theorem nextToken_sound {s t : List Char} (h : nextToken s = .ok t) : TokSound s t := by
  unfold nextToken at h
  split at h
  · cases h
  · rename_i c cs
    split at h
    · rename_i hc
      cases h
      refine ⟨by simp, ⟨cs, by simp⟩, ?_⟩
      intro y hy
      simp at hy
      subst hy
      rcases hc with hc | hc
      · exact Or.inr (Or.inr (Or.inr (Or.inr (Or.inr (Or.inl hc)))))
      · exact Or.inr (Or.inr (Or.inr (Or.inr (Or.inr (Or.inr hc)))))
    · split at h
      · rename_i t' ht'
        cases h
        exact matchNumber_sound ht'
      · split at h
        · rename_i t' ht'
          cases h
          exact matchNote_sound ht'
        · cases h

/-- `nextToken` fails with IndexError only on the empty string -/
theorem nextToken_indexError {s : List Char} (h : nextToken s = .error .indexError) : s = [] := by
  unfold nextToken at h
  split at h
  · rfl
  · split at h
    · cases h
    · split at h
      · cases h
      · split at h <;> cases h

theorem nextToken_not_internal (s : List Char) : nextToken s ≠ .error .internal := by
  unfold nextToken
  split
  · simp
  · split
    · simp
    · split
      · simp
      · split <;> simp


/-! ## Well-formed token texts and what may follow them -/

def IntText (t : List Char) : Prop := ∃ ds, allDigits ds = true ∧ (t = ds ∨ t = '-' :: ds)

def FloatText (t : List Char) : Prop :=
  ∃ ip fp, allDigits ip = true ∧ allDigits fp = true ∧ (t = ip ++ '.' :: fp ∨ t = '-' :: (ip ++ '.' :: fp))

def NoteText (t : List Char) : Prop :=
  ∃ c d, isNoteLetter c = true ∧ isDig d = true ∧ (t = [c, d] ∨ t = [c, '#', d])

/-- a token text that is not a bracket: `-?[0-9]+`, `-?[0-9]+\.[0-9]+` or `[a-g]#?[0-9]` -/
def AtomText (t : List Char) : Prop := IntText t ∨ FloatText t ∨ NoteText t

def IsBracket (t : List Char) : Prop := t = ['['] ∨ t = [']']

/-- a token text -/
def TokText (t : List Char) : Prop := IsBracket t ∨ AtomText t

/-- `Delim r`: what follows an atom does not extend it: the end of the string, white space or a bracket
(more generally anything that is a `\b` boundary and neither a digit nor a `.`). -/
def Delim (r : List Char) : Prop :=
  boundary r = true ∧ ∀ c r', r = c :: r' → isDig c = false ∧ c ≠ '.'

theorem Delim.nil : Delim [] := ⟨rfl, by intro c r' h; cases h⟩

theorem Delim.of_space {c : Char} {r : List Char} (h : isSpace c = true) : Delim (c :: r) := by
  refine ⟨by simp [boundary, isSpace_not_isWord h], ?_⟩
  intro c' r' h'
  cases h'
  exact ⟨isSpace_not_isDig h, (isSpace_ne h).2.1⟩

theorem Delim.of_bracket {c : Char} {r : List Char} (h : c = '[' ∨ c = ']') : Delim (c :: r) := by
  refine ⟨?_, ?_⟩
  · rcases h with h | h <;> subst h <;> simp [boundary] <;> decide
  · intro c' r' h'
    cases h'
    rcases h with h | h <;> subst h <;> decide

theorem Delim.noLeadDigit {r : List Char} (h : Delim r) : NoLeadDigit r :=
  fun c r' hr => (h.2 c r' hr).1

theorem matchUnsigned_int {ds r : List Char} (hd : allDigits ds = true) (hr : Delim r) :
    matchUnsigned (ds ++ r) = some ds := by
  obtain ⟨hne, hall⟩ := allDigits_iff.mp hd
  unfold matchUnsigned
  rw [spanDigits_append ds r hall hr.noLeadDigit]
  have h1 : ds.isEmpty = false := by cases ds <;> simp_all
  have h2 : (r.head? = some '.') = False := by
    cases r with
    | nil => simp
    | cons c r' => simp; exact (hr.2 c r' rfl).2
  simp [h1, h2, hr.1]

theorem matchUnsigned_float {ip fp r : List Char} (hi : allDigits ip = true) (hf : allDigits fp = true)
    (hr : Delim r) : matchUnsigned (ip ++ '.' :: fp ++ r) = some (ip ++ '.' :: fp) := by
  obtain ⟨hne, hall⟩ := allDigits_iff.mp hi
  obtain ⟨hne2, hall2⟩ := allDigits_iff.mp hf
  unfold matchUnsigned
  have e : ip ++ '.' :: fp ++ r = ip ++ ('.' :: (fp ++ r)) := by simp
  rw [e, spanDigits_append ip _ hall (by intro c r' h; cases h; decide)]
  have h1 : ip.isEmpty = false := by cases ip <;> simp_all
  have h3 : fp.isEmpty = false := by cases fp <;> simp_all
  simp only [List.drop_succ_cons, List.drop_zero]
  rw [spanDigits_append fp r hall2 hr.noLeadDigit]
  simp [h1, h3, hr.1]

theorem nextToken_bracket {c : Char} (h : c = '[' ∨ c = ']') (r : List Char) :
    nextToken (c :: r) = .ok [c] := by
  simp [nextToken, h]

theorem nextToken_atom {t r : List Char} (ht : AtomText t) (hr : Delim r) :
    nextToken (t ++ r) = .ok t := by
  rcases ht with ⟨ds, hd, h | h⟩ | ⟨ip, fp, hi, hf, h | h⟩ | ⟨c, d, hc, hd, h | h⟩
  · -- unsigned int
    subst h
    obtain ⟨hne, hall⟩ := allDigits_iff.mp hd
    cases t with
    | nil => exact absurd rfl hne
    | cons a ds' =>
      have ha : isDig a = true := hall a (by simp)
      obtain ⟨h1, _, _, h4, h5⟩ := isDig_ne ha
      have := matchUnsigned_int hd hr
      simp only [List.cons_append] at this
      simp [nextToken, matchNumber, h1, h4, h5, this]
  · -- negative int
    subst h
    have := matchUnsigned_int hd hr
    simp [nextToken, matchNumber, this]
  · -- unsigned float
    subst h
    obtain ⟨hne, hall⟩ := allDigits_iff.mp hi
    cases ip with
    | nil => exact absurd rfl hne
    | cons a ip' =>
      have ha : isDig a = true := hall a (by simp)
      obtain ⟨h1, _, _, h4, h5⟩ := isDig_ne ha
      have := matchUnsigned_float hi hf hr
      simp only [List.cons_append] at this
      simp only [List.cons_append, nextToken, matchNumber, h1, h4, h5, or_self, if_false]
      rw [this]
  · -- negative float
    subst h
    have := matchUnsigned_float hi hf hr
    simp only [List.cons_append, nextToken, matchNumber, if_true]
    have hb : ¬('-' = '[' ∨ '-' = ']') := by decide
    simp only [hb, if_false]
    rw [this]
  · -- note without sharp
    subst h
    obtain ⟨h1, _, _, h4, h5⟩ := isNoteLetter_ne hc
    have hnd := isNoteLetter_not_isDig hc
    have hx : d ≠ '#' := (isDig_ne hd).2.2.1
    have hmu : matchUnsigned (c :: d :: r) = none := by
      simp [matchUnsigned, spanDigits, hnd]
    simp [nextToken, matchNumber, matchNote, h1, h4, h5, hmu, hc, hx, hd, hr.1]
  · -- note with sharp
    subst h
    obtain ⟨h1, _, _, h4, h5⟩ := isNoteLetter_ne hc
    have hnd := isNoteLetter_not_isDig hc
    have hmu : matchUnsigned (c :: '#' :: d :: r) = none := by
      simp [matchUnsigned, spanDigits, hnd]
    simp [nextToken, matchNumber, matchNote, h1, h4, h5, hmu, hc, hd, hr.1]

/-- a token text is not empty and begins with a character that is neither white space nor … -/
theorem TokText.head {t : List Char} (h : TokText t) :
    ∃ c r, t = c :: r ∧ isSpace c = false := by
  rcases h with (h | h) | ⟨ds, hd, h | h⟩ | ⟨ip, fp, hi, hf, h | h⟩ | ⟨c, d, hc, hd, h | h⟩
  · exact ⟨'[', [], h, by decide⟩
  · exact ⟨']', [], h, by decide⟩
  · obtain ⟨hne, hall⟩ := allDigits_iff.mp hd
    cases ds with
    | nil => exact absurd rfl hne
    | cons a ds' => exact ⟨a, ds', h, isDig_not_isSpace (hall a (by simp))⟩
  · exact ⟨'-', ds, h, by decide⟩
  · obtain ⟨hne, hall⟩ := allDigits_iff.mp hi
    cases ip with
    | nil => exact absurd rfl hne
    | cons a ip' => exact ⟨a, ip' ++ '.' :: fp, by simp [h], isDig_not_isSpace (hall a (by simp))⟩
  · exact ⟨'-', _, h, by decide⟩
  · exact ⟨c, [d], h, isNoteLetter_not_isSpace hc⟩
  · exact ⟨c, ['#', d], h, isNoteLetter_not_isSpace hc⟩

theorem AtomText.not_bracket {t : List Char} (h : AtomText t) : ¬ IsBracket t := by
  rintro (hb | hb) <;> subst hb
  all_goals
    rcases h with ⟨ds, hd, h | h⟩ | ⟨ip, fp, hi, hf, h | h⟩ | ⟨c, d, hc, hd, h | h⟩
    · subst h
      have := (allDigits_iff.mp hd).2 _ (List.mem_cons_self ..)
      revert this; decide
    · cases h
    · obtain ⟨hne, hall⟩ := allDigits_iff.mp hi
      cases ip with
      | nil => exact absurd rfl hne
      | cons a ip' => simp at h
    · cases h
    · cases h
    · cases h


/-! ## Values: `tokenToValue ∘ fmtVal = id` -/

/-- the leaves the property quantifies over: any integer, a decimal float written as two non-empty digit
strings, a note name `[a-g]#?[0-9]` -/
def Val.Valid : Val → Prop
  | .int _ => True
  | .flt _ ip fp => allDigits ip = true ∧ allDigits fp = true
  | .name cs => NoteText cs

theorem fmtNat_allDigits (n : Nat) : allDigits (fmtNat n) = true := by
  rw [allDigits_iff]
  refine ⟨Nat.toDigits_ne_nil, ?_⟩
  intro c hc
  rw [isDig_eq_isDigit]
  exact Nat.isDigit_of_mem_toDigits (by decide) (by decide) hc

theorem fmtVal_atom {v : Val} (hv : v.Valid) : AtomText (fmtVal v) := by
  cases v with
  | int i =>
    left
    simp only [fmtVal]
    split
    · exact ⟨_, fmtNat_allDigits _, Or.inr rfl⟩
    · exact ⟨_, fmtNat_allDigits _, Or.inl rfl⟩
  | flt neg ip fp =>
    right; left
    refine ⟨ip, fp, hv.1, hv.2, ?_⟩
    cases neg <;> simp [fmtVal]
  | name cs => right; right; exact hv

theorem allDigits_not_dot {ip fp : List Char} : allDigits (ip ++ '.' :: fp) = false := by
  cases h : allDigits (ip ++ '.' :: fp) with
  | false => rfl
  | true =>
    have := (allDigits_iff.mp h).2 '.' (by simp)
    revert this; decide

theorem splitDot_digits {ip fp : List Char} (hi : ∀ c ∈ ip, isDig c = true) :
    splitDot (ip ++ '.' :: fp) = some ⟨ip, fp⟩ := by
  induction ip with
  | nil => simp [splitDot]
  | cons a ip ih =>
    have ha : a ≠ '.' := (isDig_ne (hi a (by simp))).2.1
    simp [splitDot, ha, ih (fun c hc => hi c (by simp [hc]))]

theorem tokenToValue_fmtVal {v : Val} (hv : v.Valid) : tokenToValue (fmtVal v) = v := by
  cases v with
  | int i =>
    simp only [fmtVal]
    split
    · rename_i hneg
      have hd := fmtNat_allDigits i.natAbs
      simp only [tokenToValue, intOfToken, hd, if_true]
      simp only [fmtNat, Nat.ofDigitChars_ten_toDigits]
      congr 1
      simp only [Int.ofNat_eq_natCast]
      omega
    · rename_i hneg
      have hd := fmtNat_allDigits i.natAbs
      obtain ⟨hne, hall⟩ := allDigits_iff.mp hd
      cases hf : fmtNat i.natAbs with
      | nil => exact absurd hf hne
      | cons a r =>
        have ha : a ≠ '-' := (isDig_ne (hall a (by simp [hf]))).1
        rw [hf] at hd
        simp only [tokenToValue, intOfToken, ha, if_false, hd, if_true]
        rw [← hf]
        simp only [fmtNat, Nat.ofDigitChars_ten_toDigits]
        congr 1
        simp only [Int.ofNat_eq_natCast]
        omega
  | flt neg ip fp =>
    obtain ⟨hi, hf⟩ := hv
    obtain ⟨hne, hall⟩ := allDigits_iff.mp hi
    cases neg with
    | true =>
      simp [fmtVal, tokenToValue, intOfToken, floatOfToken, unsignedFloat, allDigits_not_dot,
        splitDot_digits hall, hi, hf]
    | false =>
      cases ip with
      | nil => exact absurd rfl hne
      | cons a ip' =>
        have ha : a ≠ '-' := (isDig_ne (hall a (by simp))).1
        have hnd : allDigits (a :: (ip' ++ '.' :: fp)) = false := by
          have := @allDigits_not_dot (a :: ip') fp
          simpa using this
        have hsd := splitDot_digits (fp := fp) hall
        simp only [List.cons_append] at hsd
        simp [fmtVal, tokenToValue, intOfToken, floatOfToken, unsignedFloat, ha, hnd, hsd, hi, hf]
  | name cs =>
    obtain ⟨c, d, hc, hd, h | h⟩ := hv
    · subst h
      have h1 := (isNoteLetter_ne hc).1
      have h2 := (isNoteLetter_ne hc).2.1
      have h3 := (isDig_ne hd).2.1
      have hnd := isNoteLetter_not_isDig hc
      simp [fmtVal, tokenToValue, intOfToken, floatOfToken, unsignedFloat, splitDot, allDigits, h1, h2, h3, hnd]
    · subst h
      have h1 := (isNoteLetter_ne hc).1
      have h2 := (isNoteLetter_ne hc).2.1
      have h3 := (isDig_ne hd).2.1
      have hnd := isNoteLetter_not_isDig hc
      simp [fmtVal, tokenToValue, intOfToken, floatOfToken, unsignedFloat, splitDot, allDigits, h1, h2, h3, hnd]


/-! ## Tokenizer loop and the factorisation of `parseLoop` -/

/-- the scanning part of `parseLoop` alone: the list of token texts -/
def tokenizeLoop : Nat → List Char → Except Err (List (List Char))
  | 0, _ => .error .internal
  | fuel + 1, s =>
    match nextToken s with
    | .error e => .error e
    | .ok tok =>
      let s' := lstrip (s.drop tok.length)
      if s'.isEmpty then .ok [tok]
      else
        match tokenizeLoop fuel s' with
        | .ok toks => .ok (tok :: toks)
        | .error e => .error e

/-- the token texts of a string, as `parse_notation` scans them -/
def tokenize (s : List Char) : Except Err (List (List Char)) := tokenizeLoop (s.length + 1) s

/-- the tree-building part of `parseLoop` alone, over a list of token texts -/
def parseToks : List (List Char) → List Tree → Nat → Except Err (List Tree)
  | [], g, d => if d > 0 then .error .valueError else .ok g
  | t :: ts, g, d =>
    match stepTok g d t with
    | .error e => .error e
    | .ok ⟨g', d'⟩ => parseToks ts g' d'

theorem parseLoop_ok_iff (fuel : Nat) (g : List Tree) (d : Nat) (s : List Char) (r : List Tree) :
    parseLoop fuel g d s = .ok r ↔
      ∃ toks, tokenizeLoop fuel s = .ok toks ∧ parseToks toks g d = .ok r := by
  induction fuel generalizing g d s with
  | zero => simp [parseLoop, tokenizeLoop]
  | succ fuel ih =>
    simp only [parseLoop, tokenizeLoop]
    cases hn : nextToken s with
    | error e => simp
    | ok tok =>
      simp only
      cases hs : stepTok g d tok with
      | error e =>
        simp only
        constructor
        · intro h; cases h
        · rintro ⟨toks, h1, h2⟩
          split at h1
          · cases h1; simp [parseToks, hs] at h2
          · split at h1
            · cases h1; simp [parseToks, hs] at h2
            · cases h1
      | ok p =>
        obtain ⟨g', d'⟩ := p
        simp only
        split
        · -- last token
          constructor
          · intro h
            refine ⟨[tok], rfl, ?_⟩
            simp only [parseToks, hs]
            exact h
          · rintro ⟨toks, h1, h2⟩
            cases h1
            simpa [parseToks, hs] using h2
        · rw [ih]
          constructor
          · rintro ⟨toks, h1, h2⟩
            refine ⟨tok :: toks, by simp [h1], ?_⟩
            simp only [parseToks, hs]
            exact h2
          · rintro ⟨toks, h1, h2⟩
            split at h1
            · rename_i toks' ht
              cases h1
              refine ⟨toks', ht, ?_⟩
              simpa [parseToks, hs] using h2
            · cases h1

/-! ### The scanner is sound: the string is its tokens separated by white space -/

/-- a layout: every token text followed by the run of white space after it -/
def render : List (List Char × List Char) → List Char
  | [] => []
  | p :: rest => p.1 ++ p.2 ++ render rest

theorem tokenizeLoop_sound (fuel : Nat) (s : List Char) (toks : List (List Char))
    (h : tokenizeLoop fuel s = .ok toks) :
    ∃ lay : List (List Char × List Char), lay.map Prod.fst = toks ∧ render lay = s ∧ toks ≠ [] ∧
      (∀ p ∈ lay, (∀ c ∈ p.2, isSpace c = true) ∧ (∀ c ∈ p.1, TokChar c)) := by
  induction fuel generalizing s toks with
  | zero => simp [tokenizeLoop] at h
  | succ fuel ih =>
    simp only [tokenizeLoop] at h
    cases hn : nextToken s with
    | error e => simp [hn] at h
    | ok tok =>
      simp only [hn] at h
      obtain ⟨hne, ⟨r, hr⟩, hch⟩ := nextToken_sound hn
      have hdrop : s.drop tok.length = r := by rw [hr]; simp
      rw [hdrop] at h
      obtain ⟨w, hw, hws⟩ := lstrip_decomp r
      split at h
      · rename_i hemp
        cases h
        have : lstrip r = [] := by simpa using hemp
        refine ⟨[(tok, w)], rfl, ?_, by simp, ?_⟩
        · simp [render, hr]; rw [hw, this]; simp
        · intro p hp
          simp at hp
          subst hp
          exact ⟨hws, hch⟩
      · split at h
        · rename_i toks' ht
          cases h
          obtain ⟨lay, h1, h2, _, h4⟩ := ih _ _ ht
          refine ⟨(tok, w) :: lay, by simp [h1], ?_, by simp, ?_⟩
          · simp only [render]; rw [h2, hr]; rw [List.append_assoc, ← hw]
          · intro p hp
            simp at hp
            rcases hp with hp | hp
            · subst hp; exact ⟨hws, hch⟩
            · exact h4 p hp
        · cases h

/-- fuel: `len(s) + 1` iterations are never exhausted -/
theorem tokenizeLoop_not_internal (fuel : Nat) (s : List Char) (hf : s.length < fuel) :
    tokenizeLoop fuel s ≠ .error .internal := by
  induction fuel generalizing s with
  | zero => omega
  | succ fuel ih =>
    simp only [tokenizeLoop]
    cases hn : nextToken s with
    | error e =>
      simp only
      intro h
      cases h
      exact nextToken_not_internal s hn
    | ok tok =>
      simp only
      obtain ⟨hne, ⟨r, hr⟩, hch⟩ := nextToken_sound hn
      have hdrop : s.drop tok.length = r := by rw [hr]; simp
      rw [hdrop]
      split
      · simp
      · have hl : (lstrip r).length < fuel := by
          have := lstrip_length_le r
          have : tok.length > 0 := by cases tok <;> simp_all
          have : s.length = tok.length + r.length := by rw [hr]; simp
          omega
        have := ih _ hl
        split
        · simp
        · rename_i e he
          intro h
          cases h
          exact this he


/-! ## The push-down automaton as an explicit stack machine -/

/-- what a token means to the parser -/
inductive Item where
  | lb
  | rb
  | val (v : Val)
  deriving DecidableEq, Repr

def itemOf (t : List Char) : Item :=
  if t = ['['] then .lb else if t = [']'] then .rb else .val (tokenToValue t)

/-- `plugIn inner outers`: the top-level list when `inner` is the innermost open group and `outers` are the
lists of the enclosing open groups, nearest first. -/
def plugIn : List Tree → List (List Tree) → List Tree
  | inner, [] => inner
  | inner, o :: os => plugIn (o ++ [.group inner]) os

/-- stack machine: `outers` = enclosing open groups (nearest first), `inner` = innermost open group -/
def sm : List Item → List (List Tree) → List Tree → Option (List Tree)
  | [], outers, inner => if outers.isEmpty then some inner else none
  | .lb :: is, outers, inner => sm is (inner :: outers) []
  | .rb :: is, outers, inner =>
    match outers with
    | [] => none
    | o :: os => sm is os (o ++ [.group inner])
  | .val v :: is, outers, inner => sm is outers (inner ++ [.leaf v])

theorem pushAt_snoc_group (k : Nat) (obj : Tree) (o X : List Tree) :
    pushAt (k + 1) obj (o ++ [.group X]) =
      match pushAt k obj X with
      | some X' => some (o ++ [.group X'])
      | none => none := by
  cases h : pushAt k obj X <;> simp [pushAt, h]

theorem pushAt_plugIn (os : List (List Tree)) (k : Nat) (obj : Tree) (X : List Tree) :
    pushAt (os.length + k) obj (plugIn X os) =
      match pushAt k obj X with
      | some X' => some (plugIn X' os)
      | none => none := by
  induction os generalizing X k with
  | nil => simp only [List.length_nil, Nat.zero_add, plugIn]; cases pushAt k obj X <;> rfl
  | cons o os ih =>
    simp only [List.length_cons, plugIn]
    have e : os.length + 1 + k = os.length + (k + 1) := by omega
    rw [e, ih, pushAt_snoc_group]
    cases pushAt k obj X <;> rfl

theorem pushAt_plugIn_zero (os : List (List Tree)) (obj : Tree) (X : List Tree) :
    pushAt os.length obj (plugIn X os) = some (plugIn (X ++ [obj]) os) := by
  have := pushAt_plugIn os 0 obj X
  simpa [pushAt] using this

/-- the code's state `(groups, depth)` is the stack `(outers, inner)`:
`groups = plugIn inner outers`, `depth = outers.length`; `_parser_push` never fails. -/
theorem parseToks_eq_sm (toks : List (List Char)) (outers : List (List Tree)) (inner : List Tree) :
    parseToks toks (plugIn inner outers) outers.length =
      match sm (toks.map itemOf) outers inner with
      | some r => .ok r
      | none => .error .valueError := by
  induction toks generalizing outers inner with
  | nil =>
    cases outers with
    | nil => simp [parseToks, sm, plugIn]
    | cons o os => simp [parseToks, sm]
  | cons t ts ih =>
    simp only [parseToks, List.map_cons]
    by_cases h1 : t = ['[']
    · subst h1
      have : itemOf ['['] = .lb := by simp [itemOf]
      rw [this]
      simp only [stepTok, if_true, pushAt_plugIn_zero, sm]
      have := ih (inner :: outers) []
      simp only [plugIn, List.length_cons] at this
      simpa using this
    · by_cases h2 : t = [']']
      · subst h2
        have : itemOf [']'] = .rb := by simp [itemOf]
        rw [this]
        have hne : ([']'] : List Char) ≠ ['['] := by decide
        simp only [stepTok, hne, if_false, if_true]
        cases outers with
        | nil => simp [sm]
        | cons o os =>
          simp only [List.length_cons, Nat.succ_ne_zero, if_false, sm, Nat.add_sub_cancel]
          have := ih os (o ++ [.group inner])
          simpa [plugIn] using this
      · have : itemOf t = .val (tokenToValue t) := by simp [itemOf, h1, h2]
        rw [this]
        simp only [stepTok, h1, h2, if_false, pushAt_plugIn_zero, sm]
        exact ih outers (inner ++ [.leaf (tokenToValue t)])

/-! ### items of trees -/

mutual
def itemsT : Tree → List Item
  | .leaf v => [.val v]
  | .group ts => .lb :: (itemsL ts ++ [.rb])
def itemsL : List Tree → List Item
  | [] => []
  | t :: ts => itemsT t ++ itemsL ts
end

theorem itemsL_append (a b : List Tree) : itemsL (a ++ b) = itemsL a ++ itemsL b := by
  induction a with
  | nil => simp [itemsL]
  | cons t ts ih => simp [itemsL, ih]

mutual
/-- reading the items of a tree appends this tree to the innermost open group -/
theorem sm_itemsT (t : Tree) (more : List Item) (outers : List (List Tree)) (inner : List Tree) :
    sm (itemsT t ++ more) outers inner = sm more outers (inner ++ [t]) :=
  match t with
  | .leaf v => by simp [itemsT, sm]
  | .group ts => by
    simp only [itemsT, List.cons_append, sm, List.append_assoc]
    rw [sm_itemsL_more ts]
    simp [sm]
theorem sm_itemsL_more (ts : List Tree) (more : List Item) (outers : List (List Tree)) (inner : List Tree) :
    sm (itemsL ts ++ more) outers inner = sm more outers (inner ++ ts) :=
  match ts with
  | [] => by simp [itemsL]
  | t :: ts' => by
    simp only [itemsL, List.append_assoc]
    rw [sm_itemsT t, sm_itemsL_more ts']
    simp
end

theorem sm_itemsL (ts : List Tree) : sm (itemsL ts) [] [] = some ts := by
  have := sm_itemsL_more ts [] [] []
  simpa [sm] using this

/-- the items read so far, recovered from the stack -/
def itemsStack : List (List Tree) → List Tree → List Item
  | [], inner => itemsL inner
  | o :: os, inner => itemsStack os o ++ .lb :: itemsL inner

/-- whatever the machine accepts, the result's items are exactly the items read (same order, same nesting) -/
theorem sm_sound (is : List Item) (outers : List (List Tree)) (inner r : List Tree)
    (h : sm is outers inner = some r) : itemsStack outers inner ++ is = itemsL r := by
  induction is generalizing outers inner with
  | nil =>
    cases outers with
    | nil => simp [sm] at h; subst h; simp [itemsStack]
    | cons o os => simp [sm] at h
  | cons i is ih =>
    cases i with
    | lb =>
      simp only [sm] at h
      have := ih _ _ h
      simpa [itemsStack, itemsL] using this
    | rb =>
      cases outers with
      | nil => simp [sm] at h
      | cons o os =>
        simp only [sm] at h
        have := ih _ _ h
        rw [← this]
        cases os with
        | nil => simp [itemsStack, itemsL_append, itemsL, itemsT]
        | cons o' os' => simp [itemsStack, itemsL_append, itemsL, itemsT]
    | val v =>
      simp only [sm] at h
      have := ih _ _ h
      rw [← this]
      cases outers with
      | nil => simp [itemsStack, itemsL_append, itemsL, itemsT]
      | cons o os => simp [itemsStack, itemsL_append, itemsL, itemsT]

/-! ### acceptance depends on the brackets only -/

/-- depth after reading the items from depth `d`; `none` when a `]` arrives at depth 0 -/
def walk : List Item → Nat → Option Nat
  | [], d => some d
  | .lb :: is, d => walk is (d + 1)
  | .rb :: is, d => if d = 0 then none else walk is (d - 1)
  | .val _ :: is, d => walk is d

theorem sm_isSome_iff (is : List Item) (outers : List (List Tree)) (inner : List Tree) :
    (sm is outers inner).isSome = true ↔ walk is outers.length = some 0 := by
  induction is generalizing outers inner with
  | nil => cases outers <;> simp [sm, walk]
  | cons i is ih =>
    cases i with
    | lb => simp only [sm, walk]; rw [ih]; simp
    | rb =>
      cases outers with
      | nil => simp [sm, walk]
      | cons o os => simp only [sm, walk, List.length_cons]; rw [ih]; simp
    | val v => simp only [sm, walk]; rw [ih]


/-! ## Valid trees, their tokens and items -/

mutual
/-- every leaf is a valid value -/
def Tree.Valid : Tree → Prop
  | .leaf v => v.Valid
  | .group ts => Tree.ValidL ts
def Tree.ValidL : List Tree → Prop
  | [] => True
  | t :: ts => t.Valid ∧ Tree.ValidL ts
end

theorem itemOf_fmtVal {v : Val} (hv : v.Valid) : itemOf (fmtVal v) = .val v := by
  have ha := fmtVal_atom hv
  have hb := ha.not_bracket
  have h1 : fmtVal v ≠ ['['] := fun h => hb (Or.inl h)
  have h2 : fmtVal v ≠ [']'] := fun h => hb (Or.inr h)
  simp [itemOf, h1, h2, tokenToValue_fmtVal hv]

mutual
theorem tokensT_spec (t : Tree) (h : t.Valid) :
    (tokensT t).map itemOf = itemsT t ∧ ∀ x ∈ tokensT t, TokText x :=
  match t with
  | .leaf v => by
    simp only [Tree.Valid] at h
    simp only [tokensT, itemsT, List.map_cons, List.map_nil, itemOf_fmtVal h, List.mem_singleton, true_and]
    intro x hx; subst hx; exact Or.inr (fmtVal_atom h)
  | .group ts => by
    simp only [Tree.Valid] at h
    obtain ⟨h1, h2⟩ := tokensL_spec ts h
    refine ⟨?_, ?_⟩
    · simp [tokensT, itemsT, h1, itemOf]
    · intro x hx
      simp only [tokensT, List.mem_cons, List.mem_append, List.mem_nil_iff, or_false] at hx
      rcases hx with hx | hx | hx
      · exact Or.inl (Or.inl hx)
      · exact h2 x hx
      · exact Or.inl (Or.inr hx)
theorem tokensL_spec (ts : List Tree) (h : Tree.ValidL ts) :
    (tokensL ts).map itemOf = itemsL ts ∧ ∀ x ∈ tokensL ts, TokText x :=
  match ts with
  | [] => by simp [tokensL, itemsL]
  | t :: ts' => by
    simp only [Tree.ValidL] at h
    obtain ⟨h1, h2⟩ := tokensT_spec t h.1
    obtain ⟨h3, h4⟩ := tokensL_spec ts' h.2
    refine ⟨by simp [tokensL, itemsL, h1, h3], ?_⟩
    intro x hx
    simp only [tokensL, List.mem_append] at hx
    rcases hx with hx | hx
    · exact h2 x hx
    · exact h4 x hx
end

theorem tokensL_ne_nil {ts : List Tree} (h : ts ≠ []) : tokensL ts ≠ [] := by
  cases ts with
  | nil => exact absurd rfl h
  | cons t ts' =>
    cases t <;> simp [tokensL, tokensT]

/-! ## Layouts: any white space between the tokens -/

/-- the runs are white space, and an empty run is allowed only next to a bracket -/
def LayoutOK : List (List Char × List Char) → Prop
  | [] => True
  | [p] => ∀ c ∈ p.2, isSpace c = true
  | p :: q :: rest =>
    (∀ c ∈ p.2, isSpace c = true) ∧ (p.2 = [] → IsBracket p.1 ∨ IsBracket q.1) ∧ LayoutOK (q :: rest)

theorem render_noLeadSpace (lay : List (List Char × List Char)) (ht : ∀ p ∈ lay, TokText p.1) :
    NoLeadSpace (render lay) := by
  intro c r' h
  cases lay with
  | nil => simp [render] at h
  | cons q rest =>
    obtain ⟨a, r, ha, hs⟩ := (ht q (by simp)).head
    simp only [render, ha, List.cons_append] at h
    cases h
    exact hs

theorem render_ne_nil {lay : List (List Char × List Char)} (hne : lay ≠ [])
    (ht : ∀ p ∈ lay, TokText p.1) : render lay ≠ [] := by
  cases lay with
  | nil => exact absurd rfl hne
  | cons q rest =>
    obtain ⟨a, r, ha, _⟩ := (ht q (by simp)).head
    simp [render, ha]

theorem length_le_render (lay : List (List Char × List Char)) (ht : ∀ p ∈ lay, TokText p.1) :
    lay.length ≤ (render lay).length := by
  induction lay with
  | nil => simp
  | cons q rest ih =>
    obtain ⟨a, r, ha, _⟩ := (ht q (by simp)).head
    have := ih (fun p hp => ht p (by simp [hp]))
    simp only [render, ha, List.length_cons, List.length_append]
    omega

theorem tokenizeLoop_render (lay : List (List Char × List Char)) (hne : lay ≠ [])
    (ht : ∀ p ∈ lay, TokText p.1) (hl : LayoutOK lay) (fuel : Nat) (hf : lay.length ≤ fuel) :
    tokenizeLoop fuel (render lay) = .ok (lay.map Prod.fst) := by
  induction lay generalizing fuel with
  | nil => exact absurd rfl hne
  | cons p rest ih =>
    cases fuel with
    | zero => simp at hf
    | succ fuel =>
      have htr : ∀ q ∈ rest, TokText q.1 := fun q hq => ht q (by simp [hq])
      have hws : ∀ c ∈ p.2, isSpace c = true := by
        cases rest with
        | nil => exact hl
        | cons q rest' => exact hl.1
      -- the first token is read back
      have hnext : nextToken (p.1 ++ (p.2 ++ render rest)) = .ok p.1 := by
        rcases ht p (by simp) with hb | ha
        · rcases hb with hb | hb <;> rw [hb] <;> exact nextToken_bracket (by simp) _
        · apply nextToken_atom ha
          cases hp2 : p.2 with
          | cons c w => exact Delim.of_space (hws c (by simp [hp2]))
          | nil =>
            cases rest with
            | nil => simpa [render] using Delim.nil
            | cons q rest' =>
              have := hl.2.1 hp2
              rcases this with h | h
              · exact absurd h ha.not_bracket
              · simp only [render, List.nil_append]
                rcases h with h | h <;> rw [h] <;> exact Delim.of_bracket (by simp)
      have hstrip : lstrip (p.2 ++ render rest) = render rest :=
        lstrip_append_of_spaces _ _ hws (render_noLeadSpace rest htr)
      simp only [render, List.append_assoc, tokenizeLoop, hnext, List.drop_left, hstrip]
      cases rest with
      | nil => simp [render]
      | cons q rest' =>
        have hne' : render (q :: rest') ≠ [] := render_ne_nil (by simp) htr
        have hemp : (render (q :: rest')).isEmpty = false := by
          cases h : render (q :: rest') with
          | nil => exact absurd h hne'
          | cons _ _ => rfl
        rw [hemp]
        have := ih (by simp) htr hl.2.2 fuel (by simpa using hf)
        simp [this]

/-- canonical layout: a single blank where `needSpace` asks for one -/
def canonLayout : List (List Char) → List (List Char × List Char)
  | [] => []
  | [a] => [(a, [])]
  | a :: b :: rest => (a, if needSpace a b then [' '] else []) :: canonLayout (b :: rest)

theorem canonLayout_fst (toks : List (List Char)) : (canonLayout toks).map Prod.fst = toks := by
  induction toks with
  | nil => rfl
  | cons a rest ih =>
    cases rest with
    | nil => rfl
    | cons b rest' => simp only [canonLayout, List.map_cons]; rw [ih]

theorem render_canonLayout (toks : List (List Char)) : render (canonLayout toks) = joinTokens toks := by
  induction toks with
  | nil => rfl
  | cons a rest ih =>
    cases rest with
    | nil => simp [canonLayout, render, joinTokens]
    | cons b rest' => simp only [canonLayout, render, joinTokens]; rw [ih]

theorem canonLayout_ok (toks : List (List Char)) : LayoutOK (canonLayout toks) := by
  induction toks with
  | nil => trivial
  | cons a rest ih =>
    cases rest with
    | nil => simp [canonLayout, LayoutOK]
    | cons b rest' =>
      cases rest' with
      | nil =>
        simp only [canonLayout, LayoutOK]
        refine ⟨?_, ?_, by simp⟩
        · intro c hc; split at hc <;> simp at hc; subst hc; decide
        · intro h
          by_cases hn : (a = ['['] ∨ b = [']'])
          · rcases hn with hn | hn
            · exact Or.inl (Or.inl hn)
            · exact Or.inr (Or.inr hn)
          · simp [needSpace, hn] at h
      | cons c rest'' =>
        simp only [canonLayout, LayoutOK] at ih ⊢
        refine ⟨?_, ?_, ih⟩
        · intro c hc; split at hc <;> simp at hc; subst hc; decide
        · intro h
          by_cases hn : (a = ['['] ∨ b = [']'])
          · rcases hn with hn | hn
            · exact Or.inl (Or.inl hn)
            · exact Or.inr (Or.inr hn)
          · simp [needSpace, hn] at h

/-! ## Balanced brackets -/

/-- net bracket depth of a list of token texts: `[` counts +1, `]` counts -1 -/
def net : List (List Char) → Int
  | [] => 0
  | t :: ts => (if t = ['['] then 1 else if t = [']'] then -1 else 0) + net ts

/-- the brackets are balanced: no prefix closes more than it opened, and everything is closed at the end -/
def Balanced (toks : List (List Char)) : Prop :=
  (∀ k, 0 ≤ net (toks.take k)) ∧ net toks = 0

theorem walk_iff (toks : List (List Char)) (d e : Nat) :
    walk (toks.map itemOf) d = some e ↔
      (∀ k, 0 ≤ (d : Int) + net (toks.take k)) ∧ (d : Int) + net toks = e := by
  induction toks generalizing d with
  | nil =>
    simp only [List.map_nil, walk, Option.some.injEq, List.take_nil, net, Int.add_zero]
    constructor
    · intro h; subst h; exact ⟨fun _ => by omega, rfl⟩
    · intro h; omega
  | cons t ts ih =>
    have key : ∀ (P : Nat → Prop), (∀ k, P k) ↔ (P 0 ∧ ∀ k, P (k + 1)) := by
      intro P
      constructor
      · intro h; exact ⟨h 0, fun k => h (k + 1)⟩
      · intro h k
        cases k with
        | zero => exact h.1
        | succ k => exact h.2 k
    rw [key]
    simp only [List.take_zero, List.take_succ_cons, net, List.map_cons]
    by_cases h1 : t = ['[']
    · subst h1
      have hi : itemOf ['['] = .lb := by simp [itemOf]
      rw [hi]
      simp only [walk, if_true]
      rw [ih]
      constructor
      · rintro ⟨ha, hb⟩
        refine ⟨⟨by omega, fun k => ?_⟩, by omega⟩
        have := ha k
        omega
      · rintro ⟨⟨_, ha⟩, hb⟩
        refine ⟨fun k => ?_, by omega⟩
        have := ha k
        omega
    · by_cases h2 : t = [']']
      · subst h2
        have hi : itemOf [']'] = .rb := by simp [itemOf]
        have hne : ([']'] : List Char) ≠ ['['] := by decide
        rw [hi]
        simp only [walk, hne, if_false, if_true]
        by_cases hd : d = 0
        · subst hd
          simp only [if_true]
          constructor
          · intro h; cases h
          · rintro ⟨⟨_, ha⟩, _⟩
            have := ha 0
            simp [net] at this
        · simp only [hd, if_false]
          rw [ih]
          constructor
          · rintro ⟨ha, hb⟩
            refine ⟨⟨by omega, fun k => ?_⟩, by omega⟩
            have := ha k
            omega
          · rintro ⟨⟨_, ha⟩, hb⟩
            refine ⟨fun k => ?_, by omega⟩
            have := ha k
            omega
      · have hi : itemOf t = .val (tokenToValue t) := by simp [itemOf, h1, h2]
        rw [hi]
        simp only [walk, h1, h2, if_false]
        rw [ih]
        constructor
        · rintro ⟨ha, hb⟩
          refine ⟨⟨by omega, fun k => ?_⟩, by omega⟩
          have := ha k
          omega
        · rintro ⟨⟨_, ha⟩, hb⟩
          refine ⟨fun k => ?_, by omega⟩
          have := ha k
          omega

theorem walk_zero_iff_balanced (toks : List (List Char)) :
    walk (toks.map itemOf) 0 = some 0 ↔ Balanced toks := by
  rw [walk_iff]
  simp [Balanced]


/-! ## `parse` never shows the model-only error -/

theorem stepTok_inv (outers : List (List Tree)) (inner : List Tree) (tok : List Char) :
    stepTok (plugIn inner outers) outers.length tok = .error .valueError ∨
      ∃ inner' outers', stepTok (plugIn inner outers) outers.length tok =
        .ok ⟨plugIn inner' outers', outers'.length⟩ := by
  by_cases h1 : tok = ['[']
  · right
    refine ⟨[], inner :: outers, ?_⟩
    simp [stepTok, h1, pushAt_plugIn_zero, plugIn]
  · by_cases h2 : tok = [']']
    · cases outers with
      | nil => left; simp [stepTok, h2]
      | cons o os =>
        right
        refine ⟨o ++ [.group inner], os, ?_⟩
        simp [stepTok, h2, plugIn]
    · right
      refine ⟨inner ++ [.leaf (tokenToValue tok)], outers, ?_⟩
      simp [stepTok, h1, h2, pushAt_plugIn_zero]

theorem parseLoop_not_internal (fuel : Nat) (outers : List (List Tree)) (inner : List Tree)
    (s : List Char) (hf : s.length < fuel) :
    parseLoop fuel (plugIn inner outers) outers.length s ≠ .error .internal := by
  induction fuel generalizing outers inner s with
  | zero => omega
  | succ fuel ih =>
    simp only [parseLoop]
    cases hn : nextToken s with
    | error e =>
      simp only
      intro h
      cases h
      exact nextToken_not_internal s hn
    | ok tok =>
      simp only
      obtain ⟨hne, ⟨r, hr⟩, _⟩ := nextToken_sound hn
      have hdrop : s.drop tok.length = r := by rw [hr]; simp
      rw [hdrop]
      rcases stepTok_inv outers inner tok with h | ⟨inner', outers', h⟩
      · rw [h]; simp
      · rw [h]
        simp only
        split
        · split <;> simp
        · apply ih
          have := lstrip_length_le r
          have : tok.length > 0 := by cases tok <;> simp_all
          have : s.length = tok.length + r.length := by rw [hr]; simp
          omega

end IsobarV.Notation
