/-
Helper definitions and lemmas about playing a parsed (nested) sequence: `PS.next`, cycles, closed form.
-/
import IsobarV.Notation.Model

namespace IsobarV.Notation

/-- the state after `n` calls of `next()` -/
def PS.after : Nat → PS → PS
  | 0, s => s
  | n + 1, s => PS.after n s.next.st

/-- the result of the `n`-th call of `next()` (0-based) -/
def PS.outAt (s : PS) (n : Nat) : Out := (PS.after n s).next.out

mutual
/-- no empty sequence anywhere, every `pos` inside its sequence -/
def PS.live : PS → Bool
  | .leaf _ => true
  | .seq items pos => !items.isEmpty && decide (pos < items.length) && PS.liveL items
def PS.liveL : List PS → Bool
  | [] => true
  | x :: xs => x.live && PS.liveL xs
end

theorem PS.liveL_iff (items : List PS) : PS.liveL items = true ↔ ∀ x ∈ items, x.live = true := by
  induction items with
  | nil => simp [PS.liveL]
  | cons x xs ih => simp [PS.liveL, ih]

theorem PS.after_add (m n : Nat) (s : PS) : PS.after (m + n) s = PS.after n (PS.after m s) := by
  induction m generalizing s with
  | zero => simp [PS.after]
  | succ m ih =>
    have : m + 1 + n = (m + n) + 1 := by omega
    rw [this]
    simp only [PS.after]
    exact ih _

theorem PS.after_succ' (n : Nat) (s : PS) : PS.after (n + 1) s = (PS.after n s).next.st := by
  rw [PS.after_add n 1 s]
  rfl

theorem PS.run_add (m n : Nat) (s : PS) : PS.run (m + n) s = PS.run m s ++ PS.run n (PS.after m s) := by
  induction m generalizing s with
  | zero => simp [PS.run, PS.after]
  | succ m ih =>
    have : m + 1 + n = (m + n) + 1 := by omega
    rw [this]
    simp only [PS.run, PS.after, List.cons_append]
    rw [ih]

theorem PS.run_eq_map_outAt (n : Nat) (s : PS) : PS.run n s = (List.range n).map (PS.outAt s) := by
  induction n with
  | zero => rfl
  | succ n ih =>
    rw [PS.run_add n 1 s, ih, List.range_succ, List.map_append]
    simp [PS.run, PS.outAt]

theorem PS.nextAt_append (pre : List PS) (x : PS) (suf : List PS) :
    PS.nextAt (pre ++ x :: suf) pre.length = ⟨x.next.out, pre ++ x.next.st :: suf⟩ := by
  induction pre with
  | nil => simp [PS.nextAt]
  | cons p pre ih => simp [PS.nextAt, ih]

theorem PS.next_leaf (v : Val) : (PS.leaf v).next = ⟨.val v, .leaf v⟩ := by simp [PS.next]

theorem PS.after_leaf (n : Nat) (v : Val) : PS.after n (.leaf v) = .leaf v := by
  induction n with
  | zero => rfl
  | succ n ih => simp [PS.after, PS.next_leaf, ih]

mutual
/-- a live sequence always yields a value and stays live -/
theorem PS.next_live (s : PS) (h : s.live = true) :
    ∃ v, s.next.out = .val v ∧ s.next.st.live = true :=
  match s with
  | .leaf v => ⟨v, by simp [PS.next], by simp [PS.next, PS.live]⟩
  | .seq items pos => by
    simp only [PS.live, Bool.and_eq_true, Bool.not_eq_true', decide_eq_true_eq] at h
    obtain ⟨⟨hne, hpos⟩, hl⟩ := h
    obtain ⟨v, h1, h2, h3⟩ := PS.nextAt_live items pos hl hpos
    refine ⟨v, ?_, ?_⟩
    · simp [PS.next, hne, h1]
    · simp only [PS.next, hne, h1]
      simp only [Bool.false_eq_true, if_false, PS.live, Bool.and_eq_true, Bool.not_eq_true',
        decide_eq_true_eq]
      refine ⟨⟨?_, ?_⟩, h2⟩
      · cases hs : (PS.nextAt items pos).st with
        | nil => rw [hs] at h3; simp at h3; omega
        | cons _ _ => rfl
      · rw [h3]; split <;> omega
theorem PS.nextAt_live (items : List PS) (i : Nat) (h : PS.liveL items = true) (hi : i < items.length) :
    ∃ v, (PS.nextAt items i).out = .val v ∧ PS.liveL (PS.nextAt items i).st = true ∧
      (PS.nextAt items i).st.length = items.length :=
  match items, i with
  | [], _ => by simp at hi
  | x :: xs, 0 => by
    simp only [PS.liveL, Bool.and_eq_true] at h
    obtain ⟨v, h1, h2⟩ := PS.next_live x h.1
    exact ⟨v, by simp [PS.nextAt, h1], by simp [PS.nextAt, PS.liveL, h2, h.2], by simp [PS.nextAt]⟩
  | x :: xs, i + 1 => by
    simp only [PS.liveL, Bool.and_eq_true] at h
    obtain ⟨v, h1, h2, h3⟩ := PS.nextAt_live xs i h.2 (by simpa using hi)
    exact ⟨v, by simp [PS.nextAt, h1], by simp [PS.nextAt, PS.liveL, h2, h.1], by simp [PS.nextAt, h3]⟩
end

theorem PS.after_live (n : Nat) (s : PS) (h : s.live = true) : (PS.after n s).live = true := by
  induction n generalizing s with
  | zero => exact h
  | succ n ih =>
    simp only [PS.after]
    obtain ⟨_, _, h'⟩ := PS.next_live s h
    exact ih _ h'

/-- one step of a sequence standing at `pre.length`, in front of a live element `x` that is not the last -/
theorem PS.next_seq_mid (pre : List PS) (x : PS) (suf : List PS) (hx : x.live = true) (hs : suf ≠ []) :
    (PS.seq (pre ++ x :: suf) pre.length).next =
      ⟨x.next.out, .seq (pre ++ x.next.st :: suf) (pre.length + 1)⟩ := by
  obtain ⟨v, hv, _⟩ := PS.next_live x hx
  have hne : (pre ++ x :: suf).isEmpty = false := by simp
  have hlen : ¬ (pre.length + 1 ≥ (pre ++ x :: suf).length) := by
    have : suf.length > 0 := by cases suf <;> simp_all
    simp; omega
  simp only [PS.next, hne, PS.nextAt_append, hv]
  simp only [Bool.false_eq_true, if_false, hlen]

/-- one step of a sequence standing in front of its last element: the position wraps to 0 -/
theorem PS.next_seq_last (pre : List PS) (x : PS) (hx : x.live = true) :
    (PS.seq (pre ++ [x]) pre.length).next = ⟨x.next.out, .seq (pre ++ [x.next.st]) 0⟩ := by
  obtain ⟨v, hv, _⟩ := PS.next_live x hx
  have hne : (pre ++ [x]).isEmpty = false := by simp
  simp only [PS.next, hne, PS.nextAt_append, hv]
  simp

/-- part of a cycle: the elements `a` are each advanced once, in order -/
theorem PS.partial_cycle (pre a b : List PS) (ha : ∀ x ∈ a, x.live = true) (hb : b ≠ []) :
    PS.run a.length (.seq (pre ++ a ++ b) pre.length) = a.map (fun x => x.next.out) ∧
    PS.after a.length (.seq (pre ++ a ++ b) pre.length) =
      .seq (pre ++ a.map (fun x => x.next.st) ++ b) (pre.length + a.length) := by
  induction a generalizing pre with
  | nil => simp [PS.run, PS.after]
  | cons x a ih =>
    have hx : x.live = true := ha x (by simp)
    have hab : a ++ b ≠ [] := by simp [hb]
    have hstep := PS.next_seq_mid pre x (a ++ b) hx hab
    have e1 : pre ++ x :: a ++ b = pre ++ x :: (a ++ b) := by simp
    have ih' := ih (pre ++ [x.next.st]) (fun y hy => ha y (by simp [hy]))
    have e2 : pre ++ [x.next.st] ++ a ++ b = pre ++ x.next.st :: (a ++ b) := by simp
    have e3 : (pre ++ [x.next.st]).length = pre.length + 1 := by simp
    rw [e2, e3] at ih'
    simp only [List.length_cons, PS.run, PS.after, e1, hstep, List.map_cons]
    refine ⟨by rw [ih'.1], ?_⟩
    rw [ih'.2]
    simp
    omega

theorem PS.full_cycle (items : List PS) (hne : items ≠ []) (hl : ∀ x ∈ items, x.live = true) :
    PS.run items.length (.seq items 0) = items.map (fun x => x.next.out) ∧
    PS.after items.length (.seq items 0) = .seq (items.map (fun x => x.next.st)) 0 := by
  obtain ⟨a, z, rfl⟩ : ∃ a z, items = a ++ [z] := by
    refine ⟨items.dropLast, items.getLast hne, ?_⟩
    exact (List.dropLast_concat_getLast hne).symm
  have ha : ∀ x ∈ a, x.live = true := fun x hx => hl x (by simp [hx])
  have hz : z.live = true := hl z (by simp)
  obtain ⟨h1, h2⟩ := PS.partial_cycle [] a [z] ha (by simp)
  simp only [List.nil_append, List.length_nil, Nat.zero_add] at h1 h2
  have hlast := PS.next_seq_last (a.map (fun x => x.next.st)) z hz
  simp only [List.length_map] at hlast
  have hlen : (a ++ [z]).length = a.length + 1 := by simp
  rw [hlen, PS.run_add, PS.after_add, h1, h2]
  simp only [PS.run, PS.after, hlast, List.map_append, List.map_cons, List.map_nil]
  exact ⟨trivial, trivial⟩


/-! ## Whole cycles and the closed form -/

theorem PS.after_cycles (items : List PS) (hne : items ≠ []) (hl : ∀ x ∈ items, x.live = true) (k : Nat) :
    PS.after (k * items.length) (.seq items 0) = .seq (items.map (PS.after k)) 0 := by
  induction k with
  | zero =>
    simp only [Nat.zero_mul, PS.after]
    congr 1
    induction items with
    | nil => rfl
    | cons x xs _ => simp
  | succ k ih =>
    have e : (k + 1) * items.length = k * items.length + items.length := by
      rw [Nat.add_mul]; simp
    rw [e, PS.after_add, ih]
    have hne' : items.map (PS.after k) ≠ [] := by simpa using hne
    have hl' : ∀ x ∈ items.map (PS.after k), x.live = true := by
      intro x hx
      obtain ⟨y, hy, rfl⟩ := List.mem_map.mp hx
      exact PS.after_live k y (hl y hy)
    have := (PS.full_cycle _ hne' hl').2
    simp only [List.length_map] at this
    rw [this]
    congr 1
    simp only [List.map_map]
    apply List.map_congr_left
    intro x _
    simp [PS.after_succ']

theorem PS.next_seq_out (pre : List PS) (x : PS) (suf : List PS) (hx : x.live = true) :
    (PS.seq (pre ++ x :: suf) pre.length).next.out = x.next.out := by
  cases suf with
  | nil => rw [PS.next_seq_last pre x hx]
  | cons y ys => rw [PS.next_seq_mid pre x (y :: ys) hx (by simp)]

/-- the `(k·w + i)`-th result of a sequence of width `w` is the `k`-th result of its `i`-th element:
in every cycle of the parent each element is asked exactly once -/
theorem PS.outAt_seq (items : List PS) (hl : ∀ x ∈ items, x.live = true) (k i : Nat) (x : PS)
    (hx : items[i]? = some x) :
    PS.outAt (.seq items 0) (k * items.length + i) = PS.outAt x k := by
  have hi : i < items.length := by
    rcases Nat.lt_or_ge i items.length with h | h
    · exact h
    · rw [List.getElem?_eq_none h] at hx; cases hx
  have hne : items ≠ [] := by intro h; subst h; simp at hi
  unfold PS.outAt
  rw [PS.after_add, PS.after_cycles items hne hl k]
  -- split the advanced items at `i`
  let items' := items.map (PS.after k)
  have hx' : items'[i]? = some (PS.after k x) := by simp [items', hx]
  have hi' : i < items'.length := by simpa [items'] using hi
  have hsplit : items' = items'.take i ++ PS.after k x :: items'.drop (i + 1) := by
    have h1 : items'.drop i = PS.after k x :: items'.drop (i + 1) := by
      rw [List.drop_eq_getElem_cons hi']
      congr 1
      have := List.getElem?_eq_getElem hi'
      rw [this] at hx'
      exact Option.some.inj hx'
    rw [← h1, List.take_append_drop]
  have hl' : ∀ y ∈ items', y.live = true := by
    intro y hy
    obtain ⟨z, hz, rfl⟩ := List.mem_map.mp hy
    exact PS.after_live k z (hl z hz)
  have htl : (items'.take i).length = i := by simp; omega
  have hpc := (PS.partial_cycle [] (items'.take i) (PS.after k x :: items'.drop (i + 1))
    (fun y hy => hl' y (List.mem_of_mem_take hy)) (by simp)).2
  simp only [List.nil_append, List.length_nil, Nat.zero_add, htl] at hpc
  rw [← hsplit] at hpc
  show (PS.after i (PS.seq items' 0)).next.out = (PS.after k x).next.out
  rw [hpc]
  have hlen : (List.map (fun y => y.next.st) (items'.take i)).length = i := by simp; omega
  have := PS.next_seq_out (List.map (fun y => y.next.st) (items'.take i)) (PS.after k x)
    (items'.drop (i + 1)) (PS.after_live k x (hl x (List.mem_of_getElem? hx)))
  rw [hlen] at this
  exact this

mutual
/-- no empty group anywhere -/
def Tree.full : Tree → Bool
  | .leaf _ => true
  | .group ts => !ts.isEmpty && Tree.fullL ts
def Tree.fullL : List Tree → Bool
  | [] => true
  | t :: ts => t.full && Tree.fullL ts
end

mutual
/-- **Closed form of the output.**  The `n`-th value (0-based) of a group of width `w` is its element
`n % w` when that is a scalar, and the `(n / w)`-th value of that element when it is a group. -/
def nthT : Tree → Nat → Option Val
  | .leaf v, _ => some v
  | .group ts, n => if ts.isEmpty then none else nthAt ts (n % ts.length) (n / ts.length)
/-- `nthAt ts i k`: the `k`-th value of the `i`-th element of `ts` -/
def nthAt : List Tree → Nat → Nat → Option Val
  | [], _, _ => none
  | t :: _, 0, k => nthT t k
  | _ :: ts, i + 1, k => nthAt ts i k
end

def outOf : Option Val → Out
  | some v => .val v
  | none => .stop

theorem PS.ofTrees_length (ts : List Tree) : (PS.ofTrees ts).length = ts.length := by
  induction ts with
  | nil => simp [PS.ofTrees]
  | cons t ts ih => simp [PS.ofTrees, ih]

mutual
theorem PS.live_ofTree (t : Tree) (h : t.full = true) : (PS.ofTree t).live = true :=
  match t with
  | .leaf v => by simp [PS.ofTree, PS.live]
  | .group ts => by
    simp only [Tree.full, Bool.and_eq_true, Bool.not_eq_true'] at h
    have hl := PS.liveL_ofTrees ts h.2
    have hne : ts ≠ [] := by intro e; subst e; simp at h
    have hlen := PS.ofTrees_length ts
    have hpos : 0 < ts.length := by cases ts <;> simp_all
    have hemp : (PS.ofTrees ts).isEmpty = false := by
      cases hs : PS.ofTrees ts with
      | nil => rw [hs] at hlen; simp at hlen; omega
      | cons _ _ => rfl
    simp [PS.ofTree, PS.live, hl, hemp, hlen, hpos]
theorem PS.liveL_ofTrees (ts : List Tree) (h : Tree.fullL ts = true) : PS.liveL (PS.ofTrees ts) = true :=
  match ts with
  | [] => by simp [PS.ofTrees, PS.liveL]
  | t :: ts' => by
    simp only [Tree.fullL, Bool.and_eq_true] at h
    simp [PS.ofTrees, PS.liveL, PS.live_ofTree t h.1, PS.liveL_ofTrees ts' h.2]
end

mutual
theorem PS.outAt_ofTree (t : Tree) (h : t.full = true) (n : Nat) :
    PS.outAt (PS.ofTree t) n = outOf (nthT t n) :=
  match t with
  | .leaf v => by simp [PS.ofTree, PS.outAt, PS.after_leaf, PS.next_leaf, nthT, outOf]
  | .group ts => by
    have hfull := h
    simp only [Tree.full, Bool.and_eq_true, Bool.not_eq_true'] at h
    have hlen := PS.ofTrees_length ts
    have hne : ts.isEmpty = false := h.1
    have hpos : 0 < ts.length := by cases ts <;> simp_all
    have hlive : ∀ x ∈ PS.ofTrees ts, x.live = true := (PS.liveL_iff _).mp (PS.liveL_ofTrees ts h.2)
    have hi : n % ts.length < (PS.ofTrees ts).length := by rw [hlen]; exact Nat.mod_lt _ hpos
    have hx : (PS.ofTrees ts)[n % ts.length]? = some ((PS.ofTrees ts)[n % ts.length]) :=
      List.getElem?_eq_getElem hi
    have hn : n = n / ts.length * (PS.ofTrees ts).length + n % ts.length := by
      rw [hlen]; exact (Nat.div_add_mod' n ts.length).symm
    have := PS.outAt_seq (PS.ofTrees ts) hlive (n / ts.length) (n % ts.length) _ hx
    rw [← hn] at this
    simp only [PS.ofTree, nthT, hne]
    rw [this]
    exact PS.outAt_ofTrees ts h.2 (n % ts.length) (n / ts.length) _ hx
theorem PS.outAt_ofTrees (ts : List Tree) (h : Tree.fullL ts = true) (i k : Nat) (x : PS)
    (hx : (PS.ofTrees ts)[i]? = some x) : PS.outAt x k = outOf (nthAt ts i k) :=
  match ts, i with
  | [], _ => by simp [PS.ofTrees] at hx
  | t :: ts', 0 => by
    simp only [Tree.fullL, Bool.and_eq_true] at h
    simp only [PS.ofTrees, List.getElem?_cons_zero, Option.some.injEq] at hx
    subst hx
    simp only [nthAt]
    exact PS.outAt_ofTree t h.1 k
  | t :: ts', i + 1 => by
    simp only [Tree.fullL, Bool.and_eq_true] at h
    simp only [PS.ofTrees, List.getElem?_cons_succ] at hx
    simp only [nthAt]
    exact PS.outAt_ofTrees ts' h.2 i k x hx
end


theorem nthAt_eq (ts : List Tree) (i k : Nat) (hi : i < ts.length) : nthAt ts i k = nthT ts[i] k := by
  induction ts generalizing i with
  | nil => simp at hi
  | cons t ts ih =>
    cases i with
    | zero => simp [nthAt]
    | succ i => simp only [nthAt, List.getElem_cons_succ]; exact ih i (by simpa using hi)

end IsobarV.Notation
