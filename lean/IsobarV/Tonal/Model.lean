/-
Executable model of isobar's keys, scales, tonal patterns and note names (property C13).

Mirrors, function by function, the code of
  isobar/scale.py          Scale.get
  isobar/key.py            Key.get, Key.__contains__, Key.semitones, Key.nearest_note   (after fix 01)
  isobar/pattern/tonal.py  PDegree, PFilterByKey, PNearestNoteInKey   (one step = one input value)
  isobar/timelines/event.py  degree -> note resolution  (key[degree] + octave * 12 + transpose)
  isobar/util.py           note_name_to_midi_note, midi_note_to_note_name   (integer notes)

Domain: integer notes/degrees (`Int`), a rest is `none`; a scale is any list of integer semitones with
an integer octave size.  Python raises on an empty scale (ZeroDivisionError / IndexError) and on a
zero octave size; the model is total and returns an unspecified integer there, the driver reports `E`
for those inputs and the theorems assume `Scale.Valid` (non-empty, positive octave size).

No imports besides the generated tables (this file is linked into the compiled driver).
-/
import IsobarV.Generated.Tables

namespace IsobarV.Tonal

/-- Python `a // b` on integers (floor division). -/
def pyDiv (a b : Int) : Int := Int.fdiv a b

/-- Python `a % b` on integers (sign of the divisor). -/
def pyMod (a b : Int) : Int := Int.fmod a b

/-- Python `abs` on integers. -/
def pyAbs (a : Int) : Int := if a < 0 then -a else a

/-- `isobar.Scale`: the fields the property depends on. -/
structure Scale where
  semitones : List Int
  octave : Int
  deriving Repr, DecidableEq

/-- `isobar.Key`. -/
structure Key where
  tonic : Int
  scale : Scale
  deriving Repr, DecidableEq

/-- `len(self.semitones)` -/
def Scale.len (s : Scale) : Int := s.semitones.length

/-- `Scale.get(n)` for an integer `n`:
    `octave = n // len; degree = n % len; return octave_size * octave + semitones[degree]`. -/
def Scale.get (s : Scale) (n : Int) : Int :=
  let octave := pyDiv n s.len
  let degree := pyMod n s.len
  s.octave * octave + s.semitones.getD degree.toNat 0

/-- `Scale.get` including `None -> None`. -/
def Scale.getOpt (s : Scale) : Option Int → Option Int
  | none => none
  | some n => some (s.get n)

/-- insertion into an ascending list (`list.sort()` on integers; any stable sort gives the same list). -/
def insertSorted (x : Int) : List Int → List Int
  | [] => [x]
  | y :: ys => if x ≤ y then x :: y :: ys else y :: insertSorted x ys

def sortInts : List Int → List Int
  | [] => []
  | x :: xs => insertSorted x (sortInts xs)

/-- `Key.semitones`: `sorted((n + tonic) % octave_size for n in scale.semitones)`. -/
def Key.semitones (k : Key) : List Int :=
  sortInts (k.scale.semitones.map fun n => pyMod (n + k.tonic) k.scale.octave)

/-- `Key.get(degree)` for an integer degree: `scale[degree] + tonic`. -/
def Key.get (k : Key) (degree : Int) : Int := k.scale.get degree + k.tonic

/-- `Key.get` including `None -> None`. -/
def Key.getOpt (k : Key) : Option Int → Option Int
  | none => none
  | some d => some (k.get d)

/-- `semitone in key` for an integer: `(semitone % octave_size) in self.semitones`. -/
def Key.contains (k : Key) (note : Int) : Bool :=
  k.semitones.contains (pyMod note k.scale.octave)

/-- `x in key` where `None` (a rest) is always in key. -/
def Key.containsOpt (k : Key) : Option Int → Bool
  | none => true
  | some n => k.contains n

/-- loop state of `Key.nearest_note`: `(nearest_semitone, nearest_distance)`. -/
structure Best where
  semitone : Int
  distance : Int
  deriving Repr, DecidableEq

/-- one iteration of the candidate loop: a strictly smaller distance replaces the current best. -/
def nearestStep (pitch : Int) (best : Option Best) (semitone : Int) : Option Best :=
  let distance := pyAbs (semitone - pitch)
  match best with
  | none => some { semitone := semitone, distance := distance }
  | some b => if distance < b.distance then some { semitone := semitone, distance := distance } else some b

/-- the candidate list of the repaired `nearest_note`: the key's pitch classes, the lowest one an octave
    up and the highest one an octave down. -/
def Key.candidates (k : Key) : List Int :=
  let sems := k.semitones
  sems ++ [sems.headD 0 + k.scale.octave, sems.getLastD 0 - k.scale.octave]

/-- `Key.nearest_note(note)` for an integer note. -/
def Key.nearestNote (k : Key) (note : Int) : Int :=
  if k.contains note then note
  else
    let size := k.scale.octave
    let octave := pyDiv note size
    let pitch := pyMod note size
    match k.candidates.foldl (nearestStep pitch) none with
    | some b => octave * size + b.semitone
    | none => octave * size   -- not reachable: the candidate list is never empty

/-- `Key.nearest_note` including `None -> None` (`None in key` is true, so the rest is returned). -/
def Key.nearestNoteOpt (k : Key) : Option Int → Option Int
  | none => none
  | some n => some (k.nearestNote n)

/-! ### tonal patterns: one `__next__` maps one input value -/

/-- `PDegree.__next__` on a scalar degree. -/
def pDegree (s : Scale) (degree : Option Int) : Option Int := s.getOpt degree

/-- `PDegree.__next__` on a tuple of degrees. -/
def pDegreeChord (s : Scale) (degrees : List (Option Int)) : List (Option Int) := degrees.map s.getOpt

/-- `PFilterByKey.__next__`: `note if note in key else None`. -/
def pFilterByKey (k : Key) (note : Option Int) : Option Int :=
  if k.containsOpt note then note else none

/-- `PNearestNoteInKey.__next__`: `key.nearest_note(note)`. -/
def pNearestNoteInKey (k : Key) (note : Option Int) : Option Int := k.nearestNoteOpt note

/-- a whole melody through `PFilterByKey`. -/
def filterMelody (k : Key) (melody : List (Option Int)) : List (Option Int) := melody.map (pFilterByKey k)

/-- a whole melody through `PNearestNoteInKey`. -/
def snapMelody (k : Key) (melody : List (Option Int)) : List (Option Int) := melody.map (pNearestNoteInKey k)

/-- `Event.__init__`: `note = key[degree] + int(octave) * 12 + int(transpose)` (scalar integer degree). -/
def eventNote (k : Key) (degree octave transpose : Int) : Int :=
  k.get degree + (octave * 12 + transpose)

/-! ### note names -/

/-- result of `note_name_to_midi_note`. -/
inductive NameRes where
  | ok (note : Int)
  | unknownNoteName
  | indexError
  deriving Repr, DecidableEq

def isAsciiDigit (c : Char) : Bool := 48 ≤ c.toNat && c.toNat ≤ 57
def asciiUpper (c : Char) : Char := if 97 ≤ c.toNat && c.toNat ≤ 122 then Char.ofNat (c.toNat - 32) else c
def asciiLower (c : Char) : Char := if 65 ≤ c.toNat && c.toNat ≤ 90 then Char.ofNat (c.toNat + 32) else c

/-- `str.capitalize()` on ASCII. -/
def capitalize : List Char → List Char
  | [] => []
  | c :: cs => asciiUpper c :: cs.map asciiLower

/-- index of the first name set containing `name` (`note_names.index([... if name in nameset][0])`). -/
def nameIndex (name : List Char) : List (List (List Char)) → Nat → Option Nat
  | [], _ => none
  | set :: rest, i => if set.contains name then some i else nameIndex name rest (i + 1)

/-- `note_name_to_midi_note(name)` on ASCII names. -/
def noteNameToMidiNote (name : List Char) : NameRes :=
  match name.reverse with
  | [] => .indexError                                   -- name[-1]
  | last :: revInit =>
    let finish (octave : Int) (stem : List Char) : NameRes :=
      match nameIndex (capitalize stem) Generated.noteNames 0 with
      | none => .unknownNoteName
      | some index => .ok ((octave + 1) * 12 + index)
    if isAsciiDigit last then
      match revInit with
      | [] => .indexError                               -- name[-2]
      | prev :: revInit2 =>
        let digit : Int := (last.toNat - 48 : Nat)
        if prev = '-' then finish (-digit) revInit2.reverse      -- name[:-2]
        else finish digit revInit.reverse                          -- name[:-1]
    else finish (-1) name

/-- `"%d" % n` -/
def fmtInt (n : Int) : List Char :=
  if n < 0 then '-' :: Nat.toDigits 10 n.natAbs else Nat.toDigits 10 n.natAbs

/-- `midi_note_to_note_name(note)` for an integer note; `none` = `InvalidMIDIPitch`. -/
def midiNoteToNoteName (note : Int) : Option (List Char) :=
  if note < 0 ∨ note > 127 then none
  else
    let n : Int := Generated.noteNames.length
    let degree := pyMod note n
    let octave := Int.tdiv note n - 1                   -- int(note / len(note_names)) - 1
    some ((Generated.noteNames.getD degree.toNat []).headD [] ++ fmtInt octave)

end IsobarV.Tonal
