/-
Specification predicates and helper lemmas for property C13 (keys, scales, nearest note, note names).
Core Lean only (no Mathlib).
-/
import IsobarV.Tonal.Model

namespace IsobarV.Tonal

/-! ### specification predicates -/

/-- The weakest condition under which the Python code does not raise: a non-empty scale and a positive
    octave size. -/
def Scale.Valid (s : Scale) : Prop := s.semitones ≠ [] ∧ 0 < s.octave

/-- A well-formed scale: non-empty, strictly ascending semitones, all inside `[0, octave)`. -/
def Scale.WF (s : Scale) : Prop :=
  s.semitones ≠ [] ∧ s.semitones.Pairwise (· < ·) ∧ ∀ x ∈ s.semitones, 0 ≤ x ∧ x < s.octave

instance (s : Scale) : Decidable s.WF := by unfold Scale.WF; exact inferInstance
instance (s : Scale) : Decidable s.Valid := by unfold Scale.Valid; exact inferInstance

/-- Independent pitch-class-set specification of key membership: `x` is the tonic plus a semitone of the
    scale plus a whole number of octaves. -/
def InKey (k : Key) (x : Int) : Prop :=
  ∃ s ∈ k.scale.semitones, ∃ m : Int, x = k.tonic + s + k.scale.octave * m

theorem Scale.WF.valid {s : Scale} (h : s.WF) : s.Valid := by
  obtain ⟨hne, _, hin⟩ := h
  refine ⟨hne, ?_⟩
  cases hs : s.semitones with
  | nil => exact absurd hs hne
  | cons a l =>
    have := hin a (by simp [hs])
    omega

/-! ### Python arithmetic on a positive divisor -/

theorem pyDiv_of_pos (a : Int) {b : Int} (h : 0 < b) : pyDiv a b = a / b :=
  Int.fdiv_eq_ediv_of_nonneg a (Int.le_of_lt h)

theorem pyMod_of_pos (a : Int) {b : Int} (h : 0 < b) : pyMod a b = a % b :=
  Int.fmod_eq_emod_of_nonneg a (Int.le_of_lt h)

theorem pyAbs_nonneg (a : Int) : 0 ≤ pyAbs a := by unfold pyAbs; split <;> omega

/-- `x ≡ y (mod n)` as an explicit multiple. -/
theorem emod_eq_emod_iff_exists {n : Int} (x y : Int) :
    x % n = y % n ↔ ∃ m : Int, x = y + n * m := by
  constructor
  · intro h
    refine ⟨x / n - y / n, ?_⟩
    have hx := Int.mul_ediv_add_emod x n
    have hy := Int.mul_ediv_add_emod y n
    rw [Int.mul_sub]
    omega
  · rintro ⟨m, rfl⟩
    exact Int.add_mul_emod_self_left y n m

/-! ### sorting -/

theorem mem_insertSorted {x y : Int} {l : List Int} : y ∈ insertSorted x l ↔ y = x ∨ y ∈ l := by
  induction l with
  | nil => simp [insertSorted]
  | cons a l ih =>
    unfold insertSorted
    split
    · simp
    · simp [ih]; grind

theorem mem_sortInts {y : Int} {l : List Int} : y ∈ sortInts l ↔ y ∈ l := by
  induction l with
  | nil => simp [sortInts]
  | cons a l ih => simp [sortInts, mem_insertSorted, ih]

theorem sorted_insertSorted {x : Int} {l : List Int} (h : l.Pairwise (· ≤ ·)) :
    (insertSorted x l).Pairwise (· ≤ ·) := by
  induction l with
  | nil => simp [insertSorted]
  | cons a l ih =>
    unfold insertSorted
    have ⟨ha, hl⟩ := List.pairwise_cons.mp h
    split
    · rename_i hxa
      refine List.pairwise_cons.mpr ⟨?_, h⟩
      intro b hb
      rcases List.mem_cons.mp hb with rfl | hb
      · exact hxa
      · exact Int.le_trans hxa (ha b hb)
    · rename_i hxa
      refine List.pairwise_cons.mpr ⟨?_, ih hl⟩
      intro b hb
      rcases mem_insertSorted.mp hb with rfl | hb
      · omega
      · exact ha b hb

theorem sorted_sortInts (l : List Int) : (sortInts l).Pairwise (· ≤ ·) := by
  induction l with
  | nil => simp [sortInts]
  | cons a l ih => exact sorted_insertSorted ih

theorem sortInts_ne_nil {l : List Int} (h : l ≠ []) : sortInts l ≠ [] := by
  cases l with
  | nil => exact absurd rfl h
  | cons a l =>
    intro hn
    have : a ∈ sortInts (a :: l) := mem_sortInts.mpr (by simp)
    rw [hn] at this
    cases this

theorem headD_mem {l : List Int} (d : Int) (h : l ≠ []) : l.headD d ∈ l := by
  cases l with
  | nil => exact absurd rfl h
  | cons a l => simp

theorem getLastD_mem {l : List Int} (d : Int) (h : l ≠ []) : l.getLastD d ∈ l := by
  induction l generalizing d with
  | nil => exact absurd rfl h
  | cons a l ih =>
    cases l with
    | nil => simp
    | cons b l =>
      have := ih a (by simp)
      simp only [List.getLastD_cons] at this ⊢
      exact List.mem_cons_of_mem _ this

theorem headD_le_of_sorted {l : List Int} (d : Int) (h : l.Pairwise (· ≤ ·)) {x : Int} (hx : x ∈ l) :
    l.headD d ≤ x := by
  cases l with
  | nil => cases hx
  | cons a l =>
    have ⟨ha, _⟩ := List.pairwise_cons.mp h
    rcases List.mem_cons.mp hx with rfl | hx
    · simp
    · simpa using ha x hx

theorem le_getLastD_of_sorted {l : List Int} (d : Int) (h : l.Pairwise (· ≤ ·)) {x : Int} (hx : x ∈ l) :
    x ≤ l.getLastD d := by
  induction l generalizing d x with
  | nil => cases hx
  | cons a l ih =>
    have ⟨ha, hl⟩ := List.pairwise_cons.mp h
    cases l with
    | nil =>
      rcases List.mem_cons.mp hx with rfl | hx
      · simp
      · cases hx
    | cons b l =>
      simp only [List.getLastD_cons]
      rcases List.mem_cons.mp hx with rfl | hx
      · have hb : b ∈ b :: l := by simp
        have h1 := ha b hb
        have h3 := ih x hl hb
        simp only [List.getLastD_cons] at h3
        omega
      · have := ih a hl hx
        simpa only [List.getLastD_cons] using this

/-! ### key membership -/

theorem mem_keySemitones {k : Key} (hN : 0 < k.scale.octave) {p : Int} :
    p ∈ k.semitones ↔ ∃ s ∈ k.scale.semitones, p = (s + k.tonic) % k.scale.octave := by
  unfold Key.semitones
  rw [mem_sortInts, List.mem_map]
  constructor
  · rintro ⟨s, hs, rfl⟩; exact ⟨s, hs, pyMod_of_pos _ hN⟩
  · rintro ⟨s, hs, rfl⟩; exact ⟨s, hs, pyMod_of_pos _ hN⟩

theorem keySemitones_range {k : Key} (hN : 0 < k.scale.octave) {p : Int} (hp : p ∈ k.semitones) :
    0 ≤ p ∧ p < k.scale.octave := by
  obtain ⟨s, _, rfl⟩ := (mem_keySemitones hN).mp hp
  exact ⟨Int.emod_nonneg _ (by omega), Int.emod_lt_of_pos _ hN⟩

theorem keySemitones_ne_nil {k : Key} (h : k.scale.semitones ≠ []) : k.semitones ≠ [] := by
  unfold Key.semitones
  apply sortInts_ne_nil
  simpa using h

theorem keySemitones_sorted (k : Key) : k.semitones.Pairwise (· ≤ ·) := sorted_sortInts _

/-- the model's membership test in terms of the remainder only -/
theorem contains_iff_mem {k : Key} (hN : 0 < k.scale.octave) (x : Int) :
    k.contains x = true ↔ x % k.scale.octave ∈ k.semitones := by
  unfold Key.contains
  rw [pyMod_of_pos _ hN]
  simp

/-- the model's membership test agrees with the pitch-class-set specification -/
theorem contains_iff_inKey {k : Key} (hN : 0 < k.scale.octave) (x : Int) :
    k.contains x = true ↔ InKey k x := by
  rw [contains_iff_mem hN, mem_keySemitones hN]
  unfold InKey
  constructor
  · rintro ⟨s, hs, h⟩
    refine ⟨s, hs, ?_⟩
    have h' : x % k.scale.octave = (s + k.tonic) % k.scale.octave % k.scale.octave := by
      rw [Int.emod_emod_of_dvd _ (Int.dvd_refl _)]; exact h
    rw [Int.emod_emod_of_dvd _ (Int.dvd_refl _)] at h'
    obtain ⟨m, hm⟩ := (emod_eq_emod_iff_exists x (s + k.tonic)).mp h'
    exact ⟨m, by omega⟩
  · rintro ⟨s, hs, m, hm⟩
    refine ⟨s, hs, ?_⟩
    have : x = (s + k.tonic) + k.scale.octave * m := by omega
    rw [this]
    exact Int.add_mul_emod_self_left _ _ _

/-- a candidate whose remainder is a pitch class of the key is in the key, whatever octave it is moved to -/
theorem contains_of_emod_mem {k : Key} (hN : 0 < k.scale.octave) {c : Int} (o : Int)
    (hc : c % k.scale.octave ∈ k.semitones) : k.contains (o * k.scale.octave + c) = true := by
  rw [contains_iff_mem hN]
  have : (o * k.scale.octave + c) % k.scale.octave = c % k.scale.octave := by
    rw [Int.add_comm, Int.mul_comm]; exact Int.add_mul_emod_self_left _ _ _
  rw [this]; exact hc

/-! ### the candidate loop of `nearest_note` -/

/-- the loop returns a candidate at minimal distance (the first one, in list order) -/
theorem fold_nearest (pitch : Int) (cands : List Int) (init : Option Best)
    (hinit : ∀ b, init = some b → b.distance = pyAbs (b.semitone - pitch)) :
    (cands = [] ∧ cands.foldl (nearestStep pitch) init = init) ∨
    ∃ b, cands.foldl (nearestStep pitch) init = some b ∧
      b.distance = pyAbs (b.semitone - pitch) ∧
      (b.semitone ∈ cands ∨ init = some b) ∧
      (∀ c ∈ cands, b.distance ≤ pyAbs (c - pitch)) ∧
      (∀ b0, init = some b0 → b.distance ≤ b0.distance) := by
  induction cands generalizing init with
  | nil => left; simp
  | cons c cs ih =>
    right
    simp only [List.foldl_cons]
    -- the state after the first step
    have hstep : ∃ b1, nearestStep pitch init c = some b1 ∧ b1.distance = pyAbs (b1.semitone - pitch) ∧
        (b1.semitone = c ∨ init = some b1) ∧ b1.distance ≤ pyAbs (c - pitch) ∧
        (∀ b0, init = some b0 → b1.distance ≤ b0.distance) := by
      unfold nearestStep
      cases init with
      | none => exact ⟨_, rfl, rfl, Or.inl rfl, Int.le_refl _, by intro b0 h; cases h⟩
      | some b0 =>
        simp only
        split
        · rename_i hlt
          exact ⟨_, rfl, rfl, Or.inl rfl, Int.le_refl _, by intro b h; cases h; exact Int.le_of_lt hlt⟩
        · rename_i hge
          exact ⟨b0, rfl, hinit b0 rfl, Or.inr rfl, by omega, by intro b h; cases h; exact Int.le_refl _⟩
    obtain ⟨b1, h1, hd1, hm1, hc1, hi1⟩ := hstep
    rw [h1]
    have hinit1 : ∀ b, some b1 = some b → b.distance = pyAbs (b.semitone - pitch) := by
      intro b h; cases h; exact hd1
    rcases ih (some b1) hinit1 with ⟨rfl, hf⟩ | ⟨b, hf, hd, hm, hc, hi⟩
    · refine ⟨b1, by simp [hf], hd1, ?_, ?_, hi1⟩
      · rcases hm1 with h | h
        · left; simp [h]
        · right; exact h
      · intro c' hc'
        simp at hc'; subst hc'; exact hc1
    · have hb1 := hi b1 rfl
      refine ⟨b, hf, hd, ?_, ?_, ?_⟩
      · rcases hm with h | h
        · left; exact List.mem_cons_of_mem _ h
        · cases h
          rcases hm1 with h | h
          · left; simp [h]
          · right; exact h
      · intro c' hc'
        rcases List.mem_cons.mp hc' with rfl | hc'
        · omega
        · exact hc c' hc'
      · intro b0 h0
        have := hi1 b0 h0
        omega

/-! ### `nearest_note` -/

theorem candidates_emod_mem {k : Key} (hv : k.scale.Valid) {c : Int} (hc : c ∈ k.candidates) :
    c % k.scale.octave ∈ k.semitones := by
  obtain ⟨hne, hN⟩ := hv
  have hne' := keySemitones_ne_nil hne
  unfold Key.candidates at hc
  simp only [List.mem_append, List.mem_cons, List.not_mem_nil, or_false] at hc
  rcases hc with hc | rfl | rfl
  · have ⟨h0, h1⟩ := keySemitones_range hN hc
    rw [Int.emod_eq_of_lt h0 h1]; exact hc
  · have hm := headD_mem 0 hne'
    have ⟨h0, h1⟩ := keySemitones_range hN hm
    rw [Int.add_emod_right, Int.emod_eq_of_lt h0 h1]; exact hm
  · have hm := getLastD_mem 0 hne'
    have ⟨h0, h1⟩ := keySemitones_range hN hm
    rw [Int.sub_emod_right, Int.emod_eq_of_lt h0 h1]; exact hm

/-- every in-key integer is matched or beaten by one of the candidates (relative to a pitch inside the octave) -/
theorem candidate_covers {k : Key} (hv : k.scale.Valid) (p y : Int)
    (hp0 : 0 ≤ p) (hp1 : p < k.scale.octave) (hy : y % k.scale.octave ∈ k.semitones) :
    ∃ c ∈ k.candidates, pyAbs (c - p) ≤ pyAbs (y - p) := by
  obtain ⟨hne, hN⟩ := hv
  have hsorted := keySemitones_sorted k
  have ⟨hr0, hr1⟩ := keySemitones_range hN hy
  have hdecomp := Int.mul_ediv_add_emod y k.scale.octave
  generalize y / k.scale.octave = m at hdecomp
  generalize hr : y % k.scale.octave = r at *
  rcases Int.lt_trichotomy m 0 with hm | hm | hm
  · -- below the octave: the highest pitch class an octave down is at least as close
    refine ⟨k.semitones.getLastD 0 - k.scale.octave, ?_, ?_⟩
    · unfold Key.candidates; simp
    · have hl := le_getLastD_of_sorted 0 hsorted hy
      have hlr := keySemitones_range hN (getLastD_mem 0 (keySemitones_ne_nil hne))
      have hmul : 0 ≤ k.scale.octave * (-1 - m) := Int.mul_nonneg (by omega) (by omega)
      rw [Int.mul_sub, Int.mul_neg, Int.mul_one] at hmul
      unfold pyAbs
      split <;> split <;> omega
  · subst hm
    refine ⟨r, ?_, ?_⟩
    · unfold Key.candidates; simp [hy]
    · have : y = r := by omega
      rw [this]; exact Int.le_refl _
  · refine ⟨k.semitones.headD 0 + k.scale.octave, ?_, ?_⟩
    · unfold Key.candidates; simp
    · have hl := headD_le_of_sorted 0 hsorted hy
      have hlr := keySemitones_range hN (headD_mem 0 (keySemitones_ne_nil hne))
      have hmul : 0 ≤ k.scale.octave * (m - 1) := Int.mul_nonneg (by omega) (by omega)
      rw [Int.mul_sub, Int.mul_one] at hmul
      unfold pyAbs
      split <;> split <;> omega

/-- what `nearest_note` returns for a note that is not in the key -/
theorem nearestNote_of_not_contains {k : Key} (hv : k.scale.Valid) {x : Int} (hx : k.contains x = false) :
    ∃ b ∈ k.candidates,
      k.nearestNote x = (x / k.scale.octave) * k.scale.octave + b ∧
      ∀ c ∈ k.candidates, pyAbs (b - x % k.scale.octave) ≤ pyAbs (c - x % k.scale.octave) := by
  have hN := hv.2
  unfold Key.nearestNote
  simp only [hx, Bool.false_eq_true, if_false, pyDiv_of_pos _ hN, pyMod_of_pos _ hN]
  rcases fold_nearest (x % k.scale.octave) k.candidates none (by intro b h; cases h) with ⟨hnil, _⟩ | ⟨b, hf, hd, hm, hc, _⟩
  · exfalso
    unfold Key.candidates at hnil
    simp at hnil
  · rw [hf]
    rcases hm with hm | hm
    · refine ⟨b.semitone, hm, rfl, ?_⟩
      intro c hcm
      rw [← hd]; exact hc c hcm
    · cases hm

/-! ### degrees -/

theorem len_pos {s : Scale} (h : s.semitones ≠ []) : 0 < s.len := by
  unfold Scale.len
  cases hs : s.semitones with
  | nil => exact absurd hs h
  | cons a l => simp only [List.length_cons]; omega

theorem scale_get_eq {s : Scale} (hne : s.semitones ≠ []) (d : Int) :
    s.get d = s.octave * (d / s.len) + s.semitones.getD (d % s.len).toNat 0 := by
  unfold Scale.get
  simp only [pyDiv_of_pos _ (len_pos hne), pyMod_of_pos _ (len_pos hne)]

theorem degree_index_lt {s : Scale} (hne : s.semitones ≠ []) (d : Int) :
    (d % s.len).toNat < s.semitones.length := by
  have h0 := Int.emod_nonneg d (Int.ne_of_gt (len_pos hne))
  have h1 := Int.emod_lt_of_pos d (len_pos hne)
  unfold Scale.len at *
  omega

theorem getD_eq_getElem_of_lt {l : List Int} {i : Nat} (h : i < l.length) : l.getD i 0 = l[i] := by
  rw [List.getD_eq_getElem?_getD, List.getElem?_eq_getElem h]; rfl

theorem getD_mem_of_lt {l : List Int} {i : Nat} (h : i < l.length) : l.getD i 0 ∈ l := by
  rw [getD_eq_getElem_of_lt h]; exact List.getElem_mem h

/-- the semitone selected by a degree is a semitone of the scale -/
theorem degree_semitone_mem {s : Scale} (hne : s.semitones ≠ []) (d : Int) :
    s.semitones.getD (d % s.len).toNat 0 ∈ s.semitones :=
  getD_mem_of_lt (degree_index_lt hne d)

/-- closed form with an arbitrary floor decomposition `d = len * q + r`, `0 ≤ r < len` -/
theorem scale_get_formula {s : Scale} (hne : s.semitones ≠ []) (d q r : Int)
    (hr0 : 0 ≤ r) (hr1 : r < s.len) (hd : d = s.len * q + r) :
    s.get d = s.octave * q + s.semitones.getD r.toNat 0 := by
  rw [scale_get_eq hne]
  have h := (Int.ediv_emod_unique (a := d) (r := r) (q := q) (len_pos hne)).mpr ⟨by omega, hr0, hr1⟩
  rw [h.1, h.2]

theorem scale_get_strictMono {s : Scale} (h : s.WF) {d e : Int} (hde : d < e) : s.get d < s.get e := by
  obtain ⟨hne, hasc, hin⟩ := h
  have hn := len_pos hne
  rw [scale_get_eq hne, scale_get_eq hne]
  have hq := Int.ediv_le_ediv hn (Int.le_of_lt hde)
  have hd := Int.mul_ediv_add_emod d s.len
  have he := Int.mul_ediv_add_emod e s.len
  have hi1 := degree_index_lt hne d
  have hi2 := degree_index_lt hne e
  have hr1 := Int.emod_nonneg d (Int.ne_of_gt hn)
  have hr2 := Int.emod_nonneg e (Int.ne_of_gt hn)
  have hs1 := hin _ (degree_semitone_mem hne d)
  have hs2 := hin _ (degree_semitone_mem hne e)
  rcases Int.lt_or_eq_of_le hq with hlt | heq
  · -- a later octave: at least one whole octave higher
    have hmul : 0 ≤ s.octave * (e / s.len - d / s.len - 1) := Int.mul_nonneg (by omega) (by omega)
    rw [Int.mul_sub, Int.mul_sub, Int.mul_one] at hmul
    omega
  · -- same octave: a later position in a strictly ascending list
    rw [heq] at hd ⊢
    have hlt : (d % s.len).toNat < (e % s.len).toNat := by omega
    have := (List.pairwise_iff_getElem.mp hasc) _ _ hi1 hi2 hlt
    rw [getD_eq_getElem_of_lt hi1, getD_eq_getElem_of_lt hi2]
    omega

/-! ### the loop as it was before fix 01 (documentation of the defect; not part of the model) -/

/-- `nearest_note` of the pinned tree: candidates were the key's pitch classes plus the bare octave size. -/
def Key.nearestNoteUnrepaired (k : Key) (note : Int) : Int :=
  if k.contains note then note
  else
    let size := k.scale.octave
    match (k.semitones ++ [size]).foldl (nearestStep (pyMod note size)) none with
    | some b => pyDiv note size * size + b.semitone
    | none => pyDiv note size * size

/-- C# "pureminor", note 11: the unrepaired loop answers 12, which is not in the key, while 13 is and is
    as close as any in-key note can be — the repair is necessary. -/
theorem unrepaired_nearest_note_wrong :
    let k : Key := { tonic := 1, scale := { semitones := [0, 3, 7], octave := 12 } }
    k.nearestNoteUnrepaired 11 = 12 ∧ k.contains 12 = false ∧ k.nearestNote 11 = 13 ∧ k.contains 13 = true := by
  decide

end IsobarV.Tonal
