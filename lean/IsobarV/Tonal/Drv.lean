/-
Line-protocol driver for the tonal model (suite `tonal`, property C13).  Glue only.

One output line per input line.  Integers are decimal, a rest (`None`) is `N`.

  key <tonic> <octave_size> <s0> <s1> ...   set the current key          -> sem <p0> <p1> ...   (Key.semitones)
  get <d|N> ...        Key.get / key[d]                                   -> <v|N> ...
  sget <d|N> ...       Scale.get / PDegree (no tonic)                     -> <v|N> ...
  has <x|N> ...        x in key                                           -> <0|1> ...
  near <x|N> ...       Key.nearest_note                                   -> <v|N> ...
  filt <x|N> ...       PFilterByKey over the melody                       -> <v|N> ...
  snap <x|N> ...       PNearestNoteInKey over the melody                  -> <v|N> ...
  event <degree> <octave> <transpose>   Event degree -> note              -> <v>
  n2m <name>           note_name_to_midi_note  (no word = empty string)   -> i:<n> | UnknownNoteName | IndexError
  m2n <n>              midi_note_to_note_name                             -> s:<name> | InvalidMIDIPitch
  table                the generated scale table and note names           -> table <name>|<octave>|<s0> <s1> ..;.. # <names>
A key whose scale is empty or whose octave size is 0 is outside the model: every line answers `E`
until the next `key` line.
-/
import IsobarV.Tonal.Model
import IsobarV.Util.Parse

namespace IsobarV.Tonal.Drv
open IsobarV.Tonal IsobarV.Util

def parseOpt (w : String) : Option Int := if w == "N" then none else some (toInt! w)

def showOpt : Option Int → String
  | none => "N"
  | some v => toString v

def showInts (xs : List Int) : String := joinWith " " (xs.map toString)

def mapLine (f : Option Int → Option Int) (ws : List String) : String :=
  joinWith " " (ws.map fun w => showOpt (f (parseOpt w)))

def tableLine : String :=
  let rows := Generated.scaleTable.map fun r =>
    r.name ++ "|" ++ toString r.octave ++ "|" ++ showInts r.semitones
  let names := Generated.noteNames.map fun set => joinWith "," (set.map String.ofList)
  "table " ++ joinWith ";" rows ++ " # " ++ joinWith " " names

structure St where
  key : Key := { tonic := 0, scale := { semitones := [0], octave := 12 } }
  valid : Bool := true

def answer (st : St) (ws : List String) : St × String :=
  match ws with
  | "key" :: tonic :: octave :: sems =>
    let k : Key := { tonic := toInt! tonic, scale := { semitones := sems.map toInt!, octave := toInt! octave } }
    if sems.isEmpty || k.scale.octave == 0 then ({ key := k, valid := false }, "E")
    else ({ key := k, valid := true }, "sem " ++ showInts k.semitones)
  | ["table"] => (st, tableLine)
  | ["n2m"] => (st, match noteNameToMidiNote [] with
      | .ok n => s!"i:{n}" | .unknownNoteName => "UnknownNoteName" | .indexError => "IndexError")
  | ["n2m", name] => (st, match noteNameToMidiNote name.toList with
      | .ok n => s!"i:{n}" | .unknownNoteName => "UnknownNoteName" | .indexError => "IndexError")
  | ["m2n", n] => (st, match midiNoteToNoteName (toInt! n) with
      | some cs => "s:" ++ String.ofList cs | none => "InvalidMIDIPitch")
  | op :: args =>
    if !st.valid then (st, "E") else
    let k := st.key
    match op, args with
    | "get", _ => (st, mapLine k.getOpt args)
    | "sget", _ => (st, mapLine (pDegree k.scale) args)
    | "has", _ => (st, joinWith " " (args.map fun w => if k.containsOpt (parseOpt w) then "1" else "0"))
    | "near", _ => (st, mapLine k.nearestNoteOpt args)
    | "filt", _ => (st, joinWith " " ((filterMelody k (args.map parseOpt)).map showOpt))
    | "snap", _ => (st, joinWith " " ((snapMelody k (args.map parseOpt)).map showOpt))
    | "event", [d, o, t] => (st, toString (eventNote k (toInt! d) (toInt! o) (toInt! t)))
    | _, _ => (st, "?")
  | [] => (st, "?")

def main : IO Unit := do
  let stdin ← IO.getStdin
  let stdout ← IO.getStdout
  let _ ← foldLines stdin ({} : St) fun st line => do
    let (st', out) := answer st (words line)
    stdout.putStrLn out
    return st'
  stdout.flush

end IsobarV.Tonal.Drv
