/-
C07 — tracks do not interfere; intra-tick order is fixed; shared static state agrees.
-/
import IsobarV.Sched.BalanceOps
import IsobarV.Sched.Fields
import IsobarV.Sched.Solo
import IsobarV.Static.Model

namespace IsobarV.C07
open IsobarV.Sched

/-- **Intra-tick order**: the device calls of one `Timeline.tick` are, in this order, all due note-offs
    of all tracks (track order; so a repeated legato note is never cut short by its own note-off), then
    — after the pending starts have been applied — each track's events in scheduling (snapshot) order. -/
theorem tick_phase_order (W : World) (tl : TL) :
    (tickTL W tl).calls =
      phaseOffsCalls tl.q tl.tracks ++
      (phaseTracks W (fireActions (phaseOffs tl)) ((fireActions (phaseOffs tl)).tracks.map Track.id)).calls := by
  simp [tickTL, (endOfTick_same _).2]

/-- The note-off phase only contains note-offs … -/
theorem phase_one_only_offs (q : Nat) (ts : List Track) :
    ∀ c ∈ phaseOffsCalls q ts, ∃ n ch, c = Call.noteOff n ch := by
  intro c hc
  simp only [phaseOffsCalls, List.mem_flatten, List.mem_map] at hc
  obtain ⟨l, ⟨t, _, rfl⟩, hc⟩ := hc
  simp only [offCalls, List.mem_map] at hc
  obtain ⟨o, _, rfl⟩ := hc
  exact ⟨_, _, rfl⟩

/-- … and in the event phase the tracks of the snapshot are served strictly in order: the calls of the
    snapshot `tid :: rest` start with everything the first track does; what follows is (after the
    release of its notes if it failed in tolerant mode) the event phase of `rest`, or nothing if an
    exception escaped. -/
theorem event_phase_in_order (W : World) (tl : TL) (tid : Nat) (rest : List Nat) :
    (phaseTracks W tl (tid :: rest)).calls = (tickTrack W tl tid).calls ∨
    (∃ tl', (phaseTracks W tl (tid :: rest)).calls = (tickTrack W tl tid).calls ++ (phaseTracks W tl' rest).calls) ∨
    (∃ tl', (phaseTracks W tl (tid :: rest)).calls =
        (tickTrack W tl tid).calls ++ flushOf (tickTrack W tl tid).tl tid ++ (phaseTracks W tl' rest).calls) := by
  simp only [phaseTracks]
  split
  · left; rfl
  · split
    · right; right; exact ⟨_, rfl⟩
    · left; rfl
  · right; left; exact ⟨_, rfl⟩

/-! ### Non-interference

In a world whose tracks do not call the timeline API (separate pattern objects, no action callbacks)
and with unique track identities, one timeline tick is: every track's due note-offs; then, track by
track in scheduling order, a function of THAT TRACK ALONE (`soloTick` after its own note-offs and its
own pending starts).  Hence several tracks produce exactly the merge of what each produces alone. -/

/-- A track after the note-off phase and the pending starts of this tick: a function of the track,
    the tick length and the due start actions only. -/
def prepared (tl : TL) : List Track :=
  (tl.tracks.map (Track.processOffs tl.q)).map (applyStarts tl.q (tl.actions.filter (PAct.due tl)))

theorem tick_decomposes (W : World) (hW : NoActions W) (tl : TL) (hnd : (tl.tracks.map Track.id).Nodup) :
    (tickTL W tl).calls = phaseOffsCalls tl.q tl.tracks ++ (soloPhase W tl.q tl.tolerant (prepared tl)).calls ∧
    (tickTL W tl).tl.tracks = (soloPhase W tl.q tl.tolerant (prepared tl)).tracks := by
  have hids0 : (phaseOffs tl).tracks.map Track.id = tl.tracks.map Track.id := by
    simp [phaseOffs, List.map_map, Track.processOffs, Function.comp_def]
  have hdue : (phaseOffs tl).actions.filter (PAct.due (phaseOffs tl)) = tl.actions.filter (PAct.due tl) := rfl
  obtain ⟨f1, f2, f3⟩ := foldl_fireOne_tracks ((phaseOffs tl).actions.filter (PAct.due (phaseOffs tl))) (phaseOffs tl)
    (by rw [hids0]; exact hnd)
  have htr : (fireActions (phaseOffs tl)).tracks = prepared tl := by
    simp only [fireActions]
    rw [f1]; rfl
  have hq : (fireActions (phaseOffs tl)).q = tl.q := by simp only [fireActions]; exact f3.1
  have ht : (fireActions (phaseOffs tl)).tolerant = tl.tolerant := by
    simp only [fireActions]; exact f3.2.2.2.2.2.2.1
  have hnd2 : (([] ++ prepared tl).map Track.id).Nodup := by
    rw [List.nil_append, ← htr]
    simp only [fireActions]; rw [f2, hids0]; exact hnd
  obtain ⟨p1, p2, _, _⟩ := phaseTracks_solo W hW (prepared tl) [] (fireActions (phaseOffs tl)) (by simpa using htr) hnd2
  rw [hq, ht] at p1 p2
  have e := endOfTick_same (phaseTracks W (fireActions (phaseOffs tl)) ((fireActions (phaseOffs tl)).tracks.map Track.id))
  rw [htr] at e
  simp only [tickTL, htr, e.1, e.2, p2]
  exact ⟨trivial, by simpa using p1⟩

/-- What one track contributes to the event phase of a tick: its own calls, plus the release of its
    notes if it failed. -/
def contribution (W : World) (q : Nat) (t : Track) : List Call :=
  (soloTick W q t).calls ++ (if (soloTick W q t).out = .raised then (soloTick W q t).t.flushCalls else [])

/-- The track as it stays in the timeline after its tick (none = removed: finished, or failed). -/
def survivor (W : World) (q : Nat) (t : Track) : Option Track :=
  if (soloTick W q t).out = .ok ∧ ¬ ((soloTick W q t).t.finished = true ∧ (soloTick W q t).t.rwd = true)
  then some (soloTick W q t).t else none

/-- **The event phase is the merge of the tracks' own contributions, in scheduling order; the track
    list afterwards is the list of the tracks' own survivors** — in tolerant mode with any faults, and
    (`Or.inr`) in any mode when no track fails. -/
theorem event_phase_is_merge (W : World) (q : Nat) (tolerant : Bool) (ts : List Track)
    (hdom : ∀ t ∈ ts, (soloTick W q t).out ≠ .diverged)
    (hmode : tolerant = true ∨ ∀ t ∈ ts, (soloTick W q t).out = .ok) :
    (soloPhase W q tolerant ts).calls = (ts.map (contribution W q)).flatten ∧
    (soloPhase W q tolerant ts).tracks = ts.filterMap (survivor W q) ∧
    (soloPhase W q tolerant ts).res = .ok := by
  induction ts with
  | nil => simp [soloPhase]
  | cons t ts ih =>
    obtain ⟨i1, i2, i3⟩ := ih (fun u hu => hdom u (by simp [hu]))
      (hmode.imp id (fun h u hu => h u (by simp [hu])))
    have hd := hdom t (by simp)
    simp only [soloPhase]
    cases hout : (soloTick W q t).out with
    | diverged => exact absurd hout hd
    | raised =>
      have htol : tolerant = true := by
        rcases hmode with h | h
        · exact h
        · have := h t (by simp); rw [hout] at this; cases this
      simp only [htol, if_true, List.map_cons, List.flatten_cons, List.filterMap_cons, contribution, survivor, hout]
      simp only [htol] at i1 i2 i3
      simp [i1, i2, i3]
    | ok =>
      simp only [List.map_cons, List.flatten_cons, List.filterMap_cons, contribution, survivor, hout]
      by_cases hfin : (soloTick W q t).t.finished = true ∧ (soloTick W q t).t.rwd = true
      · simp [hfin, i1, i2, i3]
      · simp [hfin, i1, i2, i3]

/-- **Non-interference** (one tick): the calls of a multi-track tick are the note-off phase followed
    by each track's own contribution; a track's contribution and survivor do not depend on which other
    tracks are scheduled, so they are the same in the timeline that holds this track alone. -/
theorem non_interference (W : World) (hW : NoActions W) (tl : TL) (hnd : (tl.tracks.map Track.id).Nodup)
    (hdom : ∀ t ∈ prepared tl, (soloTick W tl.q t).out ≠ .diverged)
    (hmode : tl.tolerant = true ∨ ∀ t ∈ prepared tl, (soloTick W tl.q t).out = .ok) :
    (tickTL W tl).calls =
      phaseOffsCalls tl.q tl.tracks ++ ((prepared tl).map (contribution W tl.q)).flatten ∧
    (tickTL W tl).tl.tracks = (prepared tl).filterMap (survivor W tl.q) := by
  obtain ⟨d1, d2⟩ := tick_decomposes W hW tl hnd
  obtain ⟨m1, m2, _⟩ := event_phase_is_merge W tl.q tl.tolerant (prepared tl) hdom hmode
  exact ⟨by rw [d1, m1], by rw [d2, m2]⟩

/-- The same formula for the timeline holding one track alone: what a track produces alone. -/
theorem solo_run (W : World) (hW : NoActions W) (tl : TL) (t : Track)
    (hdom : ∀ u ∈ prepared { tl with tracks := [t] }, (soloTick W tl.q u).out ≠ .diverged)
    (hmode : tl.tolerant = true ∨ ∀ u ∈ prepared { tl with tracks := [t] }, (soloTick W tl.q u).out = .ok) :
    (tickTL W { tl with tracks := [t] }).calls =
      phaseOffsCalls tl.q [t] ++ ((prepared { tl with tracks := [t] }).map (contribution W tl.q)).flatten :=
  (non_interference W hW { tl with tracks := [t] } (by simp) hdom hmode).1

/-- `prepared` is computed track by track: preparing a list is preparing each of its tracks. -/
theorem prepared_pointwise (tl : TL) :
    prepared tl = tl.tracks.map (fun t => applyStarts tl.q (tl.actions.filter (PAct.due tl)) (t.processOffs tl.q)) := by
  simp [prepared, List.map_map, Function.comp_def]

/-! ### Shared static state (`PStaticPattern`, `Globals`)

`Static/Model.lean` is the state machine of `PStaticPattern.__next__` over read times; the harness
feeds the real pattern's read times to it and compares the element returned (`driver static`). -/

open IsobarV.Static in
/-- **Idempotent at a fixed time**: however often a static pattern is read at one time (by one track or
    by several), the state after the first read is final — every reader of that time sees one value. -/
theorem static_idempotent (s : Static.St) (t d : Rat) (hd : 0 < d) :
    (s.read t d).read t d = s.read t d := by
  have h0 : ¬ d ≤ t - t := by
    rw [Rat.sub_self]; exact Rat.not_le.mpr hd
  have key : ∀ (i c : Nat), (({ idx := i, cur := c, start := some t } : Static.St).read t d) = { idx := i, cur := c, start := some t } := by
    intro i c; simp [Static.St.read, h0]
  cases hs : s.start with
  | none =>
    have : s.read t d = { idx := s.idx + 1, cur := s.idx, start := some t } := by simp [Static.St.read, hs]
    rw [this, key]
  | some st =>
    by_cases hh : d ≤ t - st
    · have : s.read t d = { idx := s.idx + 1, cur := s.idx, start := some t } := by simp [Static.St.read, hs, hh]
      rw [this, key]
    · have : s.read t d = s := by simp [Static.St.read, hs, hh]
      rw [this, this]

open IsobarV.Static in
/-- **Never skipped**: a read advances by at most one element. -/
theorem static_never_skips (s : Static.St) (t d : Rat) :
    (s.read t d).idx = s.idx ∨ (s.read t d).idx = s.idx + 1 := by
  unfold Static.St.read
  cases s.start with
  | none => right; rfl
  | some st => simp only []; split <;> simp

open IsobarV.Static in
/-- **Held at least its duration**: the value changes at a read only if the current element has been
    held for at least `d` beats since the read that selected it — however often it was read in between. -/
theorem static_hold (s : Static.St) (t d st : Rat) (hs : s.start = some st)
    (hchg : (s.read t d).idx ≠ s.idx) : d ≤ t - st := by
  unfold Static.St.read at hchg
  simp only [hs] at hchg
  split at hchg
  · assumption
  · exact absurd rfl hchg

open IsobarV.Static in
/-- … and conversely a read before that keeps the value (and the selection time). -/
theorem static_keeps (s : Static.St) (t d st : Rat) (hs : s.start = some st) (h : ¬ d ≤ t - st) :
    s.read t d = s := by
  unfold Static.St.read; simp [hs, h]

open IsobarV.Static in
/-- **A rewind (a constructor built around the shared pattern, `PReset`, `all()`, `Timeline.reset`) does not
    cut the held value short**: a read before the duration has elapsed returns the very element that was
    being held, at the same selection time — only the element that FOLLOWS starts over (index 0). -/
theorem static_rewind_keeps_hold (s : Static.St) (t d st : Rat) (hs : s.start = some st) (h : ¬ d ≤ t - st) :
    (s.rewind.read t d).held = s.held ∧ (s.rewind.read t d).start = s.start ∧ (s.rewind.read t d).idx = 0 := by
  have hs' : s.rewind.start = some st := hs
  rw [static_keeps s.rewind t d st hs' h]
  exact ⟨rfl, rfl, rfl⟩

open IsobarV.Static in
/-- … and once it has elapsed the next read serves the inner pattern's first element. -/
theorem static_rewind_restarts (s : Static.St) (t d st : Rat) (hs : s.start = some st) (h : d ≤ t - st) :
    (s.rewind.read t d).held = 0 ∧ (s.rewind.read t d).start = some t := by
  simp [Static.St.read, hs, h, Static.St.held, Static.St.rewind]

open IsobarV.Static in
/-- What a read returns is the element selected by the last change: without a rewind, element `idx - 1`. -/
theorem static_read_held (s : Static.St) (t d : Rat) (h : s.idx = s.cur + 1 ∨ s.start = none) :
    (s.read t d).idx = (s.read t d).held + 1 := by
  unfold Static.St.read Static.St.held
  cases hs : s.start with
  | none => rfl
  | some st =>
    simp only []
    split
    · rfl
    · rcases h with h | h
      · exact h
      · rw [hs] at h; cases h

open IsobarV.Static in
/-- **A globals read returns the latest value set, or the given default.** -/
theorem globals_get_set (m : Static.GMap) (k k' : String) (v dflt : Int) :
    gget (gset m k v) k dflt = v ∧ (k' ≠ k → gget (gset m k v) k' dflt = gget m k' dflt) ∧ gget [] k dflt = dflt := by
  refine ⟨by simp [gget, gset], fun h => ?_, rfl⟩
  have : ((k, v).1 == k') = false := by simpa using fun hh => h hh.symm
  simp [gget, gset, this]

example : (Static.reads 2 {} [0, 1, 1, 2, 3, 4, 9]).idx = 4 := by decide +kernel
example : ((Static.reads 2 {} [0, 1, 2, 3]).rewind.read (7/2) 2).held = 1 ∧
          (((Static.reads 2 {} [0, 1, 2, 3]).rewind.read (7/2) 2).read 4 2).held = 0 := by decide +kernel

end IsobarV.C07
