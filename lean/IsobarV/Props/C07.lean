/-
C07 — tracks do not interfere; intra-tick order is fixed; shared static state agrees.
-/
import IsobarV.Sched.BalanceOps
import IsobarV.Sched.Fields

namespace IsobarV.C07
open IsobarV.Sched

/-- **Intra-tick order**: the device calls of one `Timeline.tick` are, in this order, all due note-offs
    of all tracks (track order; so a repeated legato note is never cut short by its own note-off), then
    — after the pending starts have been applied — each track's events in scheduling (snapshot) order. -/
theorem tick_phase_order (W : World) (tl : TL) :
    (tickTL W tl).calls =
      phaseOffsCalls tl.q tl.tracks ++
      (phaseTracks W (fireActions (phaseOffs tl)) ((fireActions (phaseOffs tl)).tracks.map Track.id)).calls := by
  simp [tickTL, (endOfTick_same _).2]

/-- The note-off phase only contains note-offs … -/
theorem phase_one_only_offs (q : Nat) (ts : List Track) :
    ∀ c ∈ phaseOffsCalls q ts, ∃ n ch, c = Call.noteOff n ch := by
  intro c hc
  simp only [phaseOffsCalls, List.mem_flatten, List.mem_map] at hc
  obtain ⟨l, ⟨t, _, rfl⟩, hc⟩ := hc
  simp only [offCalls, List.mem_map] at hc
  obtain ⟨o, _, rfl⟩ := hc
  exact ⟨_, _, rfl⟩

/-- … and in the event phase the tracks of the snapshot are served strictly in order: the calls of the
    snapshot `tid :: rest` start with everything the first track does; what follows is (after the
    release of its notes if it failed in tolerant mode) the event phase of `rest`, or nothing if an
    exception escaped. -/
theorem event_phase_in_order (W : World) (tl : TL) (tid : Nat) (rest : List Nat) :
    (phaseTracks W tl (tid :: rest)).calls = (tickTrack W tl tid).calls ∨
    (∃ tl', (phaseTracks W tl (tid :: rest)).calls = (tickTrack W tl tid).calls ++ (phaseTracks W tl' rest).calls) ∨
    (∃ tl', (phaseTracks W tl (tid :: rest)).calls =
        (tickTrack W tl tid).calls ++ flushOf (tickTrack W tl tid).tl tid ++ (phaseTracks W tl' rest).calls) := by
  simp only [phaseTracks]
  split
  · left; rfl
  · split
    · right; right; exact ⟨_, rfl⟩
    · left; rfl
  · right; left; exact ⟨_, rfl⟩

end IsobarV.C07
