/-
Property C13 — keys and scales map degrees to in-key notes; the nearest note is nearest; note names
and MIDI numbers convert back and forth without loss.

All theorems are about the executable model `IsobarV/Tonal/Model.lean` (the code after fix 01) and hold
for EVERY scale satisfying the stated hypothesis, every integer tonic, note and degree — no bound:

  `Scale.Valid`  non-empty semitone list, positive octave size   (what the Python code needs not to raise)
  `Scale.WF`     Valid + strictly ascending semitones inside [0, octave)

`builtin_scales_wf` is decided by the kernel over the scale table GENERATED from the repository, so the
general theorems apply to every built-in scale × every tonic × every note × every degree.
`InKey` is the independent pitch-class-set specification (tonic + a semitone of the scale + whole octaves).
-/
import IsobarV.Tonal.Lemmas

namespace IsobarV.C13
open IsobarV.Tonal

/-- the key used in the non-vacuity examples: C# "pureminor", which does not contain pitch class 0 -/
def exKey : Key := { tonic := 1, scale := { semitones := [0, 3, 7], octave := 12 } }

example : exKey.scale.WF := by decide
example : exKey.scale.Valid := by decide

/-! ### degrees -/

/-- `key[d] = tonic + scale[r] + octave · q` for THE floor decomposition `d = n·q + r`, `0 ≤ r < n`
    (`n` = number of semitones); negative degrees have negative `q`, i.e. they descend. -/
theorem degree_formula (k : Key) (hne : k.scale.semitones ≠ []) (d q r : Int)
    (hr0 : 0 ≤ r) (hr1 : r < k.scale.semitones.length) (hd : d = k.scale.semitones.length * q + r) :
    k.get d = k.tonic + k.scale.semitones.getD r.toNat 0 + k.scale.octave * q := by
  unfold Key.get
  rw [scale_get_formula hne d q r hr0 hr1 hd]
  omega

/-- the same with the floor quotient and remainder written out (`Int.fdiv`/`Int.fmod` round towards −∞). -/
theorem degree_formula_floor (k : Key) (d : Int) :
    k.get d = k.tonic + k.scale.semitones.getD (d.fmod k.scale.semitones.length).toNat 0
                + k.scale.octave * d.fdiv k.scale.semitones.length := by
  simp only [Key.get, Scale.get, pyDiv, pyMod, Scale.len]
  omega

example : exKey.get 4 = 1 + 3 + 12 * 1 := by decide
example : exKey.get (-1) = 1 + 7 + 12 * (-1) := by decide   -- negative degrees descend
example : exKey.get (-4) = exKey.tonic + [0, 3, 7].getD (2 : Int).toNat 0 + exKey.scale.octave * (-2) :=
  degree_formula exKey (by decide) (-4) (-2) 2 (by decide) (by decide) (by decide)

/-- for an ascending scale the degree → note map is strictly increasing over all integers -/
theorem degree_strict_mono (k : Key) (h : k.scale.WF) {d e : Int} (hde : d < e) : k.get d < k.get e := by
  unfold Key.get
  have := scale_get_strictMono h hde
  omega

example : exKey.get (-1) < exKey.get 0 := degree_strict_mono exKey (by decide) (by decide)
example : exKey.get (-1) = -4 ∧ exKey.get 0 = 1 := by decide

/-- every degree of a key is a member of the key (model's membership test) -/
theorem degree_in_key (k : Key) (h : k.scale.Valid) (d : Int) : k.contains (k.get d) = true := by
  obtain ⟨hne, hN⟩ := h
  rw [contains_iff_inKey hN]
  refine ⟨_, degree_semitone_mem hne d, d / k.scale.len, ?_⟩
  unfold Key.get
  rw [scale_get_eq hne]
  omega

example : exKey.contains (exKey.get (-5)) = true := degree_in_key exKey (by decide) (-5)
example : exKey.get (-5) = -20 := by decide

/-- conversely every member of the key is some degree: the key is exactly the set of its degrees -/
theorem in_key_is_degree (k : Key) (h : k.scale.Valid) (x : Int) (hx : k.contains x = true) :
    ∃ d : Int, k.get d = x := by
  obtain ⟨hne, hN⟩ := h
  obtain ⟨s, hs, m, hm⟩ := (contains_iff_inKey hN x).mp hx
  obtain ⟨i, hi, rfl⟩ := List.getElem_of_mem hs
  refine ⟨k.scale.semitones.length * m + i, ?_⟩
  have := degree_formula k hne (k.scale.semitones.length * m + i) m i (by omega) (by omega) rfl
  rw [this, hm]
  have : (i : Int).toNat = i := by omega
  rw [this, getD_eq_getElem_of_lt hi]

example : ∃ d : Int, exKey.get d = 16 := in_key_is_degree exKey (by decide) 16 (by decide)

/-! ### membership -/

/-- the membership test is the pitch-class-set specification: `x in key` iff
    `x = tonic + s + octave · m` for a semitone `s` of the scale and an integer `m` -/
theorem contains_iff_pitch_class (k : Key) (hN : 0 < k.scale.octave) (x : Int) :
    k.contains x = true ↔ InKey k x := contains_iff_inKey hN x

/-- membership depends only on the pitch class (remainder modulo the octave size) -/
theorem contains_pitch_class_only (k : Key) (hN : 0 < k.scale.octave) (x y : Int)
    (h : x % k.scale.octave = y % k.scale.octave) : k.contains x = k.contains y := by
  unfold Key.contains
  rw [pyMod_of_pos _ hN, pyMod_of_pos _ hN, h]

/-- … in particular it is invariant under transposition by whole octaves -/
theorem contains_octave_shift (k : Key) (hN : 0 < k.scale.octave) (x m : Int) :
    k.contains (x + k.scale.octave * m) = k.contains x :=
  contains_pitch_class_only k hN _ _ (Int.add_mul_emod_self_left x _ m)

example : exKey.contains 4 = true ∧ exKey.contains (4 + 12 * (-3)) = true ∧ exKey.contains 5 = false := by decide
example : InKey exKey 16 := (contains_iff_pitch_class exKey (by decide) 16).mp (by decide)

/-- a rest is always in key -/
theorem rest_in_key (k : Key) : k.containsOpt none = true := rfl

example : exKey.containsOpt none = true := rest_in_key exKey

/-! ### nearest note -/

/-- the nearest note is in the key -/
theorem nearest_in_key (k : Key) (h : k.scale.Valid) (x : Int) : k.contains (k.nearestNote x) = true := by
  cases hx : k.contains x with
  | true => unfold Key.nearestNote; simp [hx]
  | false =>
    obtain ⟨b, hb, heq, _⟩ := nearestNote_of_not_contains h hx
    rw [heq]
    exact contains_of_emod_mem h.2 _ (candidates_emod_mem h hb)

/-- no in-key integer is strictly closer to `x` than the nearest note -/
theorem nearest_is_nearest (k : Key) (h : k.scale.Valid) (x y : Int) (hy : k.contains y = true) :
    (k.nearestNote x - x).natAbs ≤ (y - x).natAbs := by
  cases hx : k.contains x with
  | true =>
    have : k.nearestNote x = x := by unfold Key.nearestNote; simp [hx]
    rw [this]; omega
  | false =>
    have hN := h.2
    obtain ⟨b, _, heq, hmin⟩ := nearestNote_of_not_contains h hx
    -- move `y` into the octave of `x`
    have hy' : (y - x / k.scale.octave * k.scale.octave) % k.scale.octave ∈ k.semitones := by
      have : (y - x / k.scale.octave * k.scale.octave) % k.scale.octave = y % k.scale.octave := by
        rw [Int.sub_eq_add_neg, ← Int.neg_mul, Int.mul_comm]; exact Int.add_mul_emod_self_left _ _ _
      rw [this]; exact (contains_iff_mem hN y).mp hy
    obtain ⟨c, hc, hcy⟩ := candidate_covers h (x % k.scale.octave) _
      (Int.emod_nonneg _ (by omega)) (Int.emod_lt_of_pos _ hN) hy'
    have hbc := hmin c hc
    have hx' := Int.mul_ediv_add_emod x k.scale.octave
    rw [Int.mul_comm] at hx'
    rw [heq]
    unfold pyAbs at hbc hcy
    split at hbc <;> split at hbc <;> split at hcy <;> split at hcy <;> omega

/-- a note of the key is its own nearest note (snapping is idempotent) -/
theorem nearest_of_in_key (k : Key) (x : Int) (hx : k.contains x = true) : k.nearestNote x = x := by
  unfold Key.nearestNote; simp [hx]

example : exKey.nearestNote 11 = 13 := by decide      -- the unrepaired code answered 12, which is not in the key
example : exKey.contains 12 = false ∧ exKey.contains 13 = true := by decide
example : exKey.contains (exKey.nearestNote 11) = true := nearest_in_key exKey (by decide) 11
example : (exKey.nearestNote 0 - 0).natAbs ≤ ((-4 : Int) - 0).natAbs :=
  nearest_is_nearest exKey (by decide) 0 (-4) (by decide)
example : exKey.nearestNote 0 = 1 ∧ exKey.nearestNote (-1) = 1 ∧ exKey.nearestNote (-2) = -4 := by decide

/-! ### filtering and snapping a melody (PFilterByKey, PNearestNoteInKey) -/

/-- PFilterByKey never lets an out-of-key note through: every note it emits is a note of the input melody
    and in the key -/
theorem filter_passes_only_in_key (k : Key) (melody : List (Option Int)) (v : Int)
    (hv : some v ∈ filterMelody k melody) : k.contains v = true ∧ some v ∈ melody := by
  unfold filterMelody at hv
  obtain ⟨a, ha, hav⟩ := List.mem_map.mp hv
  unfold pFilterByKey at hav
  split at hav
  · rename_i hc
    subst hav
    exact ⟨hc, ha⟩
  · cases hav

/-- … position by position: an in-key note (or a rest) passes unchanged, anything else becomes a rest -/
theorem filter_pointwise (k : Key) (melody : List (Option Int)) (i : Nat) :
    (filterMelody k melody)[i]? =
      (melody[i]?).map (fun x => if k.containsOpt x = true then x else none) := by
  unfold filterMelody
  rw [List.getElem?_map]
  rfl

example : filterMelody exKey [some 0, some 1, none, some 4, some 12, some 13] =
    [none, some 1, none, some 4, none, some 13] := by decide

/-- PNearestNoteInKey emits only in-key notes … -/
theorem snap_in_key (k : Key) (h : k.scale.Valid) (melody : List (Option Int)) (out : Option Int)
    (ho : out ∈ snapMelody k melody) : k.containsOpt out = true := by
  unfold snapMelody at ho
  obtain ⟨a, _, rfl⟩ := List.mem_map.mp ho
  cases a with
  | none => rfl
  | some x => exact nearest_in_key k h x

/-- … and each is a nearest in-key note of the corresponding input (a rest stays a rest) -/
theorem snap_pointwise (k : Key) (melody : List (Option Int)) (i : Nat) :
    (snapMelody k melody)[i]? = (melody[i]?).map (fun x => x.map k.nearestNote) := by
  unfold snapMelody
  rw [List.getElem?_map]
  congr 1
  funext x
  cases x <;> rfl

/-- snapping a melody: at every position holding a note the output is an in-key note and no in-key note
    is strictly closer to the input -/
theorem snap_is_nearest (k : Key) (h : k.scale.Valid) (melody : List (Option Int)) (i : Nat) (x : Int)
    (hx : melody[i]? = some (some x)) :
    ∃ z : Int, (snapMelody k melody)[i]? = some (some z) ∧ k.contains z = true ∧
      ∀ y : Int, k.contains y = true → (z - x).natAbs ≤ (y - x).natAbs := by
  refine ⟨k.nearestNote x, ?_, nearest_in_key k h x, fun y hy => nearest_is_nearest k h x y hy⟩
  rw [snap_pointwise, hx]
  rfl

example : snapMelody exKey [some 0, some 11, none, some 6] = [some 1, some 13, none, some 4] := by decide

/-! ### the built-in scales (table generated from the repository on every run) -/

/-- every scale of `Scale.dict` is well-formed -/
theorem builtin_scales_wf :
    ∀ r ∈ Generated.scaleTable, ({ semitones := r.semitones, octave := r.octave } : Scale).WF := by
  decide +kernel

example : Generated.scaleTable.length ≥ 21 := by decide +kernel

/-- hence, for every built-in scale on every tonic: degrees are strictly increasing and in key, the
    nearest note is in key and nearest -/
theorem builtin_keys_sound (r : Generated.ScaleRow) (hr : r ∈ Generated.scaleTable) (tonic : Int) :
    let k : Key := { tonic := tonic, scale := { semitones := r.semitones, octave := r.octave } }
    (∀ d e : Int, d < e → k.get d < k.get e) ∧
    (∀ d : Int, k.contains (k.get d) = true) ∧
    (∀ x : Int, k.contains (k.nearestNote x) = true) ∧
    (∀ x y : Int, k.contains y = true → (k.nearestNote x - x).natAbs ≤ (y - x).natAbs) := by
  intro k
  have hwf : k.scale.WF := builtin_scales_wf r hr
  exact ⟨fun _ _ h => degree_strict_mono k hwf h, degree_in_key k hwf.valid,
         nearest_in_key k hwf.valid, nearest_is_nearest k hwf.valid⟩

example : (Generated.scaleTable.map (·.semitones)).contains [0, 3, 7] = true := by decide +kernel

/-! ### note names -/

/-- MIDI number → name → MIDI number is the identity on the whole MIDI range -/
theorem name_roundtrip :
    ∀ n : Nat, n < 128 →
      (midiNoteToNoteName (n : Int)).map noteNameToMidiNote = some (NameRes.ok (n : Int)) := by
  decide +kernel

/-- name → MIDI number for every spelling (sharp or flat) of every pitch class in every octave −1 … 9 -/
theorem name_to_midi_all_spellings :
    ∀ pc : Nat, pc < Generated.noteNames.length → ∀ o : Nat, o < 11 →
      ∀ spelling ∈ Generated.noteNames.getD pc [],
        noteNameToMidiNote (spelling ++ fmtInt ((o : Int) - 1)) = NameRes.ok ((o : Int) * 12 + pc) := by
  decide +kernel

/-- … also when written in lower case (`capitalize`) -/
theorem name_to_midi_lowercase :
    ∀ pc : Nat, pc < Generated.noteNames.length → ∀ o : Nat, o < 11 →
      ∀ spelling ∈ Generated.noteNames.getD pc [],
        noteNameToMidiNote (spelling.map asciiLower ++ fmtInt ((o : Int) - 1)) = NameRes.ok ((o : Int) * 12 + pc) := by
  decide +kernel

/-- name → MIDI number → name gives back the canonical (first) spelling of the same pitch class and octave
    whenever the number is in the MIDI range: only the sharp/flat spelling can change, never the pitch -/
theorem name_roundtrip_back :
    ∀ pc : Nat, pc < Generated.noteNames.length → ∀ o : Nat, o < 11 → o * 12 + pc < 128 →
      midiNoteToNoteName ((o : Int) * 12 + pc) =
        some ((Generated.noteNames.getD pc []).headD [] ++ fmtInt ((o : Int) - 1)) := by
  decide +kernel

/-- a name without octave maps to the pitch class 0 … 11 -/
theorem name_without_octave :
    ∀ pc : Nat, pc < Generated.noteNames.length →
      ∀ spelling ∈ Generated.noteNames.getD pc [], noteNameToMidiNote spelling = NameRes.ok pc := by
  decide +kernel

/-- outside 0 … 127 there is no name (`InvalidMIDIPitch`) -/
theorem name_out_of_range (n : Int) (h : n < 0 ∨ 127 < n) : midiNoteToNoteName n = none := by
  unfold midiNoteToNoteName
  simp [h]

example : midiNoteToNoteName 61 = some ['C', '#', '4'] := by decide +kernel
example : noteNameToMidiNote ['D', 'b', '4'] = NameRes.ok 61 := by decide +kernel
example : noteNameToMidiNote ['C', '-', '1'] = NameRes.ok 0 := by decide +kernel
example : midiNoteToNoteName 127 = some ['G', '9'] := by decide +kernel
example : midiNoteToNoteName 128 = none := name_out_of_range 128 (by decide)
example : noteNameToMidiNote ['H'] = NameRes.unknownNoteName := by decide +kernel

end IsobarV.C13
