/-
Property C14 — clock domains stay in ratio; the internal clock holds tempo under delay.

  "When an output device or clock source runs at a pulses-per-beat rate that divides or is a multiple of
   the timeline's, the device receives exactly rate_out / rate_in ticks per timeline tick on average,
   evenly spaced and with no cumulative error - so a MIDI clock output gets exactly 24 pulses per beat -
   and rates that are not whole multiples of one another are refused with a clock error (no later than
   the first tick) rather than approximated.  The internal clock delivers floor(elapsed / tick duration)
   ticks however late or irregularly the operating system wakes it (late ticks are caught up, none
   dropped or doubled) and follows a tempo change from the next tick, and an external MIDI clock
   advances the timeline by exactly one tick per clock message."

All statements are about the model in `IsobarV/Clock/Model.lean` (which mirrors the code after the
two `fix:` patches of `make_clock_multiplier`) and hold for all rates, run lengths, wake-up sequences and
message sequences; there is no bound anywhere.  Only property theorems live here; helper lemmas are in
`IsobarV/Clock/Lemmas.lean`.
-/
import IsobarV.Clock.Lemmas

namespace IsobarV.C14
open IsobarV.Clock

/-! ## 1. Clock multiplier / divider (`make_clock_multiplier`) -/

theorem accepts_iff (out inn : Nat) (ho : out ≠ 0) (hi : inn ≠ 0) :
    (Gen.mk' out inn).accepts = true ↔ (inn ∣ out ∨ out ∣ inn) := by
  simp [Gen.accepts, Gen.mk', ho, hi, Nat.dvd_iff_mod_eq_zero]

/-- **mult_total.**  When one rate divides the other, the first `n` input ticks produce exactly
    `⌈n · out / in⌉` output ticks (the generator starts with its phase at 1, so the very first input
    tick already emits). -/
theorem mult_total (out inn n : Nat) (ho : out ≠ 0) (hi : inn ≠ 0) (hdiv : inn ∣ out ∨ out ∣ inn) :
    (Gen.mk' out inn).total n = (n * out + inn - 1) / inn := by
  have hl := mk_live ((accepts_iff out inn ho hi).2 hdiv)
  rw [Gen.total_closed hl, mk_pos, mk_num out inn ho hi, mk_den out inn ho hi]
  congr 1; omega

example : (Gen.mk' 24 480).total 960 = 48 := by
  rw [mult_total 24 480 960 (by decide) (by decide) (Or.inr ⟨20, rfl⟩)]

/-- Multiplier (`out = m · in`): `n · m` output ticks after `n` input ticks. -/
theorem mult_total_multiple (m inn n : Nat) (hm : m ≠ 0) (hi : inn ≠ 0) :
    (Gen.mk' (m * inn) inn).total n = n * m := by
  have ho : m * inn ≠ 0 := Nat.mul_ne_zero hm hi
  rw [mult_total _ _ _ ho hi (Or.inl ⟨m, Nat.mul_comm _ _⟩)]
  have : n * (m * inn) + inn - 1 = (inn - 1) + (n * m) * inn := by
    rw [Nat.mul_assoc]; omega
  rw [this, Nat.add_mul_div_right _ _ (by omega), Nat.div_eq_of_lt (by omega)]
  omega

example : (Gen.mk' (20 * 24) 24).total 7 = 140 := mult_total_multiple 20 24 7 (by decide) (by decide)

/-- Divider (`in = d · out`): `⌈n / d⌉` output ticks after `n` input ticks. -/
theorem mult_total_divider (d out n : Nat) (hd : d ≠ 0) (ho : out ≠ 0) :
    (Gen.mk' out (d * out)).total n = (n + d - 1) / d := by
  have hi : d * out ≠ 0 := Nat.mul_ne_zero hd ho
  rw [mult_total _ _ _ ho hi (Or.inr ⟨d, Nat.mul_comm _ _⟩)]
  have e : n * out + d * out - 1 = (out - 1) + (n + d - 1) * out := by
    have : (n + d - 1) * out + out = n * out + d * out := by
      rw [← Nat.add_mul, ← Nat.succ_mul]; congr 1; omega
    omega
  have h0 : (out - 1) / out = 0 := Nat.div_eq_of_lt (by omega)
  rw [e, Nat.mul_comm d out, ← Nat.div_div_eq_div_mul, Nat.add_mul_div_right _ _ (by omega), h0,
    Nat.zero_add]

example : (Gen.mk' 24 (20 * 24)).total 41 = 3 := mult_total_divider 20 24 41 (by decide) (by decide)

/-- A rate that is `None`/`0` (a device without a clock, a clock without a target) is driven 1:1. -/
theorem mult_unset_rates (out inn n : Nat) (h : out = 0 ∨ inn = 0) : (Gen.mk' out inn).total n = n := by
  have hacc : (Gen.mk' out inn).accepts = true := by
    rcases h with h | h <;> simp [Gen.accepts, Gen.mk', h]
  have hnum : (Gen.mk' out inn).num = 1 := by rcases h with h | h <;> simp [Gen.num, Gen.mk', h]
  have hden : (Gen.mk' out inn).den = 1 := by rcases h with h | h <;> simp [Gen.den, Gen.mk', h]
  rw [Gen.total_closed (mk_live hacc), mk_pos, hnum, hden]
  simp

example : (Gen.mk' 0 480).total 5 = 5 := mult_unset_rates 0 480 5 (Or.inl rfl)

/-- **mult_even_spacing** (multiplier): every input tick carries exactly `m` output ticks. -/
theorem mult_even_spacing_multiple (m inn i : Nat) (hm : m ≠ 0) (hi : inn ≠ 0) :
    (Gen.mk' (m * inn) inn).emit i = .ticks m := by
  have ho : m * inn ≠ 0 := Nat.mul_ne_zero hm hi
  have hl := mk_live ((accepts_iff _ inn ho hi).2 (Or.inl ⟨m, Nat.mul_comm _ _⟩))
  rw [Gen.emit_count hl, mult_total_multiple m inn _ hm hi, mult_total_multiple m inn _ hm hi]
  congr 1
  rw [Nat.add_mul]; omega

example : (Gen.mk' (2 * 24) 24).emit 1000 = .ticks 2 := mult_even_spacing_multiple 2 24 1000 (by decide) (by decide)

/-- **mult_even_spacing** (divider): the output ticks fall exactly on the input ticks `0, d, 2d, …`
    (0-based), one each, and nowhere else. -/
theorem mult_even_spacing_divider (d out i : Nat) (hd : d ≠ 0) (ho : out ≠ 0) :
    (Gen.mk' out (d * out)).emit i = .ticks (if i % d = 0 then 1 else 0) := by
  have hi : d * out ≠ 0 := Nat.mul_ne_zero hd ho
  have hl := mk_live ((accepts_iff out _ ho hi).2 (Or.inr ⟨d, Nat.mul_comm _ _⟩))
  rw [Gen.emit_count hl, mult_total_divider d out _ hd ho, mult_total_divider d out _ hd ho,
    cdiv_step i d (by omega)]

example : (Gen.mk' 24 (20 * 24)).emit 40 = .ticks 1 := mult_even_spacing_divider 20 24 40 (by decide) (by decide)
example : (Gen.mk' 24 (20 * 24)).emit 41 = .ticks 0 := mult_even_spacing_divider 20 24 41 (by decide) (by decide)

/-- **mult_no_cumulative_error.**  Any window of `k · d` input ticks, wherever it starts, carries
    exactly `k` output ticks, and the generator's phase is back where it was: nothing accumulates. -/
theorem mult_no_cumulative_error (d out n k : Nat) (hd : d ≠ 0) (ho : out ≠ 0) :
    (Gen.mk' out (d * out)).total (n + k * d) = (Gen.mk' out (d * out)).total n + k ∧
    ((Gen.mk' out (d * out)).after (n + k * d)).pos = ((Gen.mk' out (d * out)).after n).pos := by
  have hi : d * out ≠ 0 := Nat.mul_ne_zero hd ho
  have hl := mk_live ((accepts_iff out _ ho hi).2 (Or.inr ⟨d, Nat.mul_comm _ _⟩))
  have htot : (Gen.mk' out (d * out)).total (n + k * d) = (Gen.mk' out (d * out)).total n + k := by
    rw [mult_total_divider d out _ hd ho, mult_total_divider d out _ hd ho]
    have : n + k * d + d - 1 = (n + d - 1) + k * d := by omega
    rw [this, Nat.add_mul_div_right _ _ (by omega)]
  refine ⟨htot, ?_⟩
  have b1 := Gen.balance hl (n + k * d)
  have b2 := Gen.balance hl n
  rw [htot, mk_den out _ ho hi, mk_num out _ ho hi] at b1
  rw [mk_den out _ ho hi, mk_num out _ ho hi] at b2
  have e1 : (n + k * d) * out = n * out + k * (d * out) := by
    rw [Nat.add_mul, Nat.mul_assoc]
  have e2 : ((Gen.mk' out (d * out)).total n + k) * (d * out)
      = (Gen.mk' out (d * out)).total n * (d * out) + k * (d * out) := Nat.add_mul _ _ _
  rw [e1, e2] at b1
  omega

example : (Gen.mk' 24 (20 * 24)).total (7 + 1000 * 20) = (Gen.mk' 24 (20 * 24)).total 7 + 1000 :=
  (mult_no_cumulative_error 20 24 7 1000 (by decide) (by decide)).1

/-- The same for a multiplier: every window of `k` input ticks carries exactly `k · m` output ticks. -/
theorem mult_no_cumulative_error_multiple (m inn n k : Nat) (hm : m ≠ 0) (hi : inn ≠ 0) :
    (Gen.mk' (m * inn) inn).total (n + k) = (Gen.mk' (m * inn) inn).total n + k * m := by
  rw [mult_total_multiple m inn _ hm hi, mult_total_multiple m inn _ hm hi, Nat.add_mul]

example : (Gen.mk' (4 * 24) 24).total (3 + 5) = (Gen.mk' (4 * 24) 24).total 3 + 20 :=
  mult_no_cumulative_error_multiple 4 24 3 5 (by decide) (by decide)

/-- **refuse_iff_not_dividing.**  The first `next` raises the clock error exactly when both rates are
    set and neither divides the other. -/
theorem refuse_iff_not_dividing (out inn : Nat) :
    (Gen.mk' out inn).next.res = .clockError ↔ (out ≠ 0 ∧ inn ≠ 0 ∧ ¬ inn ∣ out ∧ ¬ out ∣ inn) := by
  by_cases ho : out = 0
  · subst ho
    have : (Gen.mk' 0 inn).accepts = true := by simp [Gen.accepts, Gen.mk']
    simp [Gen.next, Gen.mk', Gen.advance] at this ⊢
    simp [Gen.accepts]
  by_cases hi : inn = 0
  · subst hi
    simp [Gen.next, Gen.mk', Gen.advance, Gen.accepts]
  have hacc := accepts_iff out inn ho hi
  by_cases ha : (Gen.mk' out inn).accepts = true
  · have hd := hacc.1 ha
    have : (Gen.mk' out inn).next.res ≠ .clockError := by
      rw [Gen.next_live (mk_live ha)]; simp
    constructor
    · intro h; exact absurd h this
    · intro ⟨_, _, h1, h2⟩; rcases hd with hd | hd
      · exact absurd hd h1
      · exact absurd hd h2
  · have hnd : ¬ (inn ∣ out ∨ out ∣ inn) := fun h => ha (hacc.2 h)
    have hf : (Gen.mk' out inn).accepts = false := by simpa using ha
    constructor
    · intro _; exact ⟨ho, hi, fun h => hnd (Or.inl h), fun h => hnd (Or.inr h)⟩
    · intro _
      simp [Gen.next, Gen.mk'] at hf ⊢
      simp [hf]

example : (Gen.mk' 24 100).next.res = .clockError :=
  (refuse_iff_not_dividing 24 100).2 ⟨by decide, by decide, by decide, by decide⟩
example : (Gen.mk' 1 49).next.res ≠ .clockError := fun h =>
  ((refuse_iff_not_dividing 1 49).1 h).2.2.2 ⟨49, rfl⟩

/-- Refused means refused, not approximated: an incompatible pair never yields a single output tick,
    and every `next` after the error raises StopIteration. -/
theorem refused_never_ticks (out inn : Nat) (h : (Gen.mk' out inn).next.res = .clockError) (n : Nat) :
    (Gen.mk' out inn).total n = 0 ∧ (Gen.mk' out inn).emit (n + 1) = .stopIteration := by
  have hacc : (Gen.mk' out inn).accepts = false := by
    cases ha : (Gen.mk' out inn).accepts
    · rfl
    · rw [Gen.next_live (mk_live ha)] at h; cases h
  have hfin : ∀ k, ((Gen.mk' out inn).after (k + 1)).st = .finished := by
    intro k
    induction k with
    | zero => simp [Gen.after, Gen.next, Gen.mk'] at hacc ⊢; simp [hacc]
    | succ k ih => simp only [Gen.after] at ih ⊢; rw [Gen.next_finished ih]; exact ih
  have hemit : ∀ k, (Gen.mk' out inn).emit (k + 1) = .stopIteration := by
    intro k; simp only [Gen.emit]; rw [Gen.next_finished (hfin k)]
  refine ⟨?_, hemit n⟩
  induction n with
  | zero => rfl
  | succ k ih =>
    simp only [Gen.total]; rw [ih]
    cases k with
    | zero => simp only [Gen.emit, Gen.after]; rw [h]; rfl
    | succ j => rw [hemit j]; rfl

example : (Gen.mk' 24 100).total 1000 = 0 :=
  (refused_never_ticks 24 100 ((refuse_iff_not_dividing 24 100).2 ⟨by decide, by decide, by decide, by decide⟩) 1000).1

/-- **midi_24_per_beat.**  A 24-PPQN device (a MIDI clock output) on a timeline of any compatible
    resolution receives exactly `24 · b` ticks during the first `b` beats, for every `b`. -/
theorem midi_24_per_beat (tpb b : Nat) (ht : tpb ≠ 0) (hdiv : tpb ∣ 24 ∨ 24 ∣ tpb) :
    (Gen.mk' 24 tpb).total (b * tpb) = 24 * b := by
  rw [mult_total 24 tpb _ (by decide) ht hdiv]
  have : b * tpb * 24 + tpb - 1 = (tpb - 1) + (24 * b) * tpb := by
    have : b * tpb * 24 = 24 * b * tpb := by
      rw [Nat.mul_comm (b * tpb) 24, Nat.mul_assoc]
    omega
  rw [this, Nat.add_mul_div_right _ _ (by omega), Nat.div_eq_of_lt (by omega)]
  omega

example : (Gen.mk' 24 480).total (1000000 * 480) = 24 * 1000000 :=
  midi_24_per_beat 480 1000000 (by decide) (Or.inr ⟨20, rfl⟩)
example : (Gen.mk' 24 1176).total (3 * 1176) = 72 := midi_24_per_beat 1176 3 (by decide) (Or.inr ⟨49, rfl⟩)

/-! ## 2. The device clock loop of `Timeline.tick` -/

/-- **device_ratio_in_timeline.**  On a timeline whose devices all have compatible rates, every tick
    succeeds, time advances by one tick per tick, and each device receives exactly what its own
    multiplier yields — whatever the other devices' rates are and wherever it sits in the device list. -/
theorem device_ratio_in_timeline (tl : TL) (hlive : ∀ dv ∈ tl.devs, dv.gen.Live)
    (hids : tl.devs.Pairwise (fun a b => a.id ≠ b.id)) (n : Nat) :
    (tl.after n).tick.res = .ok ∧ (tl.after n).now = tl.now + n ∧
    ∀ dv ∈ tl.devs, tl.devTotal dv.id n = dv.gen.total n := by
  refine ⟨?_, ?_, TL.devTotal_live tl hlive hids n⟩
  · rw [TL.after_live tl hlive n, TL.tick_live]
    intro dv hd
    simp only [List.mem_map] at hd
    obtain ⟨a, ha, rfl⟩ := hd
    exact Gen.after_live (hlive a ha) n
  · rw [TL.after_live tl hlive n]

/-- A 480-PPQN timeline with a MIDI device (24), a 960-PPQN device and a clockless device. -/
example : ((((TL.mk 480 [] 0).addDevice 24).addDevice 960).addDevice 0).devTotal 0 960 = 48 := by
  have h := device_ratio_in_timeline ((((TL.mk 480 [] 0).addDevice 24).addDevice 960).addDevice 0)
    (by decide) (by decide) 960
  rw [h.2.2 ⟨0, Gen.mk' 24 480⟩ (by decide)]
  exact mult_total 24 480 960 (by decide) (by decide) (Or.inr ⟨20, rfl⟩)

/-- **refused_at_first_tick.**  A device whose rate is incompatible makes the very first
    `Timeline.tick` raise the clock error; the device itself is never ticked and time does not advance. -/
theorem refused_at_first_tick (tl : TL) (pre post : List Dev) (bad : Dev)
    (hdevs : tl.devs = pre ++ bad :: post) (hpre : ∀ dv ∈ pre, dv.gen.Live ∧ dv.id ≠ bad.id)
    (hfresh : bad.gen.st = .fresh) (hbad : bad.gen.next.res = .clockError) :
    tl.tick.res = .clockError ∧ callsOf bad.id tl.tick.calls = 0 ∧ tl.tick.tl.now = tl.now := by
  have hacc : bad.gen.accepts = false := by
    cases ha : bad.gen.accepts
    · rfl
    · rw [Gen.next_live (Or.inl ⟨hfresh, ha⟩)] at hbad; cases hbad
  have := devLoop_refuse pre bad post (fun dv hd => (hpre dv hd).1) hfresh hacc
  simp only [TL.tick, hdevs, this]
  exact ⟨trivial, callsOf_flat_none bad.id _ pre (fun dv hd => (hpre dv hd).2), trivial⟩

example : (((TL.mk 480 [] 0).addDevice 24).addDevice 100).tick.res = .clockError :=
  (refused_at_first_tick _ [⟨0, Gen.mk' 24 480⟩] [] ⟨1, Gen.mk' 100 480⟩ rfl (by decide) rfl (by decide)).1

/-! ## 3. The internal clock (`Clock.run`) -/

/-- **clock_catch_up.**  From any state of a running clock, for *every* sequence of wake-up readings
    (late, irregular, even going backwards), with a target that leaves the clock alone: the number of
    clock ticks made is `⌊(M - clock0) / d⌋`, where `M` is the latest reading seen so far; `clock0` has
    advanced by exactly that many tick durations (so every tick is accounted for exactly once: none
    dropped, none doubled), and the target has received what the clock's multiplier yields for them. -/
theorem clock_catch_up {τ : Type} (T : Target τ) (hT : KeepTarget T) (s : Clk τ)
    (hres : s.res = .ok) (hrun : s.running = true) (hd : 0 < s.d) (hgen : s.gen.Live) (ws : List Int) :
    let s' := s.run T (ws.map Ev.wake)
    let M := ws.foldl max s.c0
    s'.raw = s.raw + ((M - s.c0) / (s.d : Int)).toNat ∧
    s'.c0 = s.c0 + ((s'.raw - s.raw) * s.d : Nat) ∧
    s'.ticks = s.ticks + s.gen.total (s'.raw - s.raw) ∧
    s'.d = s.d ∧ s'.res = .ok := by
  intro s' M
  have hrel := run_rel hT hd hgen ws s s.c0 (Rel.refl s hres hrun hd)
  have hc := Rel.raw_closed hd hrel
  exact ⟨hc.1, hc.2.1, hc.2.2.2, hrel.d, hrel.res⟩

/-- **clock_catch_up** for a freshly started clock and readings that never go backwards: after the
    reading `T ≥ t0`, exactly `⌊(T - t0) / d⌋` ticks have been delivered. -/
theorem clock_catch_up_nondecreasing {τ : Type} (T : Target τ) (hT : KeepTarget T)
    (t0 : Int) (d : Nat) (gen : Gen) (tgt : τ) (hd : 0 < d) (hgen : gen.Live)
    (ws : List Int) (hws : Nondecreasing t0 ws) :
    let s' := (Clk.init t0 d gen tgt).run T (ws.map Ev.wake)
    s'.raw = ((ws.getLastD t0 - t0) / (d : Int)).toNat ∧ s'.ticks = gen.total s'.raw ∧
    s'.c0 = t0 + ((s'.raw * d : Nat) : Int) := by
  intro s'
  have h := clock_catch_up T hT (Clk.init t0 d gen tgt) rfl rfl hd hgen ws
  simp only [Clk.init] at h
  rw [foldl_max_nondecreasing ws t0 hws] at h
  obtain ⟨h1, h2, h3, _, _⟩ := h
  simp only [Nat.zero_add, Nat.sub_zero] at h1 h2 h3
  exact ⟨h1, h3, h2⟩

/-- 1/64 s ticks (here 1 unit = 1/64 s), wake-ups after 0.5, 3, 3 and 230.7 tick durations. -/
example : ((Clk.init 1000 64 (Gen.mk' 0 0) ()).run idleTarget
    ([1032, 1192, 1192, 15765].map Ev.wake)).raw = 230 := by
  have := (clock_catch_up_nondecreasing idleTarget (fun _ => rfl) 1000 64 (Gen.mk' 0 0) () (by decide)
    (mk_live rfl) [1032, 1192, 1192, 15765] (by decide)).1
  rw [this]; decide

/-- **tick_delivered_once_on_time.**  None dropped, none doubled, late ones caught up: with readings
    that never go backwards, tick number `k ≥ 1` is made during the wake-up with reading `w` if and only
    if `w` is the first reading at or after the tick's due time `t0 + k·d` (the previous reading was
    still before it).  So every tick is delivered exactly once, at the first opportunity. -/
theorem tick_delivered_once_on_time {τ : Type} (T : Target τ) (hT : KeepTarget T)
    (t0 : Int) (d : Nat) (gen : Gen) (tgt : τ) (hd : 0 < d) (hgen : gen.Live)
    (ws : List Int) (w : Int) (hws : Nondecreasing t0 (ws ++ [w])) (k : Nat) :
    let before := ((Clk.init t0 d gen tgt).run T (ws.map Ev.wake)).raw
    let after := ((Clk.init t0 d gen tgt).run T ((ws ++ [w]).map Ev.wake)).raw
    (before < k ∧ k ≤ after) ↔ (ws.getLastD t0 < t0 + (k : Int) * d ∧ t0 + (k : Int) * d ≤ w) := by
  intro before after
  obtain ⟨h1, h2, h3, h4⟩ := Nondecreasing.append_last ws t0 w hws
  have hb : before = ((ws.getLastD t0 - t0) / (d : Int)).toNat :=
    (clock_catch_up_nondecreasing T hT t0 d gen tgt hd hgen ws h1).1
  have ha : after = ((w - t0) / (d : Int)).toNat := by
    have := (clock_catch_up_nondecreasing T hT t0 d gen tgt hd hgen (ws ++ [w]) hws).1
    rw [h4] at this; exact this
  have hdpos : (0 : Int) < (d : Int) := by omega
  have n1 : 0 ≤ (ws.getLastD t0 - t0) / (d : Int) := Int.ediv_nonneg (by omega) (by omega)
  have n2 : 0 ≤ (w - t0) / (d : Int) := Int.ediv_nonneg (by omega) (by omega)
  have e1 : before < k ↔ ws.getLastD t0 - t0 < (k : Int) * d := by
    rw [hb, ← Int.ediv_lt_iff_lt_mul hdpos]; omega
  have e2 : k ≤ after ↔ (k : Int) * d ≤ w - t0 := by
    rw [ha, ← Int.le_ediv_iff_mul_le hdpos]; omega
  rw [e1, e2]
  constructor <;> intro ⟨a, b⟩ <;> constructor <;> omega

/-- Ticks of 64 units from 1000: tick 3 (due at 1192) is not made at reading 1191 but at 1500, together
    with ticks 4–7 that became due during the stall. -/
example : ((Clk.init 1000 64 (Gen.mk' 0 0) ()).run idleTarget ([1100, 1191].map Ev.wake)).raw < 3 ∧
    3 ≤ ((Clk.init 1000 64 (Gen.mk' 0 0) ()).run idleTarget ((([1100, 1191] : List Int) ++ [1500]).map Ev.wake)).raw :=
  (tick_delivered_once_on_time idleTarget (fun _ => rfl) 1000 64 (Gen.mk' 0 0) () (by decide) (mk_live rfl)
    [1100, 1191] 1500 (by decide) 3).2 (by decide)

/-- **tempo_change_next_tick.**  A tempo change made while the clock sleeps moves nothing that has
    already happened (`clock0`, the due time of the last delivered tick, and the tick count stay);
    from then on the next tick is due exactly one *new* tick duration after the last one and the
    ticks follow at the new spacing: after the change `⌊(M - clock0) / d'⌋` further ticks are made. -/
theorem tempo_change_next_tick {τ : Type} (T : Target τ) (hT : KeepTarget T) (s : Clk τ)
    (hres : s.res = .ok) (hrun : s.running = true) (hgen : s.gen.Live) (d' : Nat) (hd' : 0 < d')
    (ws : List Int) :
    let s' := s.run T (Ev.setDur d' :: ws.map Ev.wake)
    let M := ws.foldl max s.c0
    s'.raw = s.raw + ((M - s.c0) / (d' : Int)).toNat ∧
    s'.c0 = s.c0 + ((s'.raw - s.raw) * d' : Nat) ∧
    s'.ticks = s.ticks + s.gen.total (s'.raw - s.raw) := by
  intro s' M
  have h := clock_catch_up T hT { s with d := d' } hres hrun hd' hgen ws
  exact ⟨h.1, h.2.1, h.2.2.1⟩

/-- Two phases: tick duration 64 for readings up to 1200 (3 ticks, clock0 = 1192), then duration 16:
    the next ticks are due at 1208, 1224, …; at reading 1260 four more have been made. -/
example : ((Clk.init 1000 64 (Gen.mk' 0 0) ()).run idleTarget
    ([Ev.wake 1100, Ev.wake 1200, Ev.setDur 16, Ev.wake 1207, Ev.wake 1260])).raw = 7 := by decide

/-- **tempo_change_in_callback** (what the code does; see NOTES).  When the target's own `tick()` sets
    the tempo, `clock0` advances by the *new* duration for the tick that was just delivered under the
    old one: the following tick is due `2·d' - d` (not `d'`) after this one's due time; from then on
    `tempo_change_next_tick`/`clock_catch_up` apply with the new duration. -/
theorem tempo_change_in_callback {τ : Type} (T : Target τ) (s : Clk τ) (now : Int) (d' : Nat) (t' : τ)
    (hres : s.res = .ok) (hrun : s.running = true) (hgen : s.gen.next.res = .ticks 1)
    (hcb : T.tick s.tgt = { act := .setDur d', tgt := t' })
    (hdue : (s.d : Int) ≤ now - s.c0) (hone : now - (s.c0 + (d' : Int)) < (s.d : Int)) :
    (s.wake T now).raw = s.raw + 1 ∧ (s.wake T now).ticks = s.ticks + 1 ∧ (s.wake T now).d = d' ∧
    (s.wake T now).c0 = s.c0 + (d' : Int) ∧ (s.wake T now).res = .ok := by
  have hok : (deliver T 1 { s with gen := s.gen.next.gen, raw := s.raw + 1 }).res = .ok := by
    simp [deliver, hcb, hres]
  have hp : pass T s 1 = { s with gen := s.gen.next.gen, raw := s.raw + 1, tgt := t', ticks := s.ticks + 1,
                                  d := d', c0 := s.c0 + (d' : Int) } := by
    simp [pass, deliver, hcb]
  unfold Clk.wake
  rw [hres]; simp only [hrun, if_true]
  rw [catchUp_succ_ok T s.d now _ s 1 hdue hgen hok, catchUp_exit]
  · rw [hp]; exact ⟨rfl, rfl, rfl, rfl, hres⟩
  · rw [hp]; simp only; omega

example : ((Clk.init 1000 64 (Gen.mk' 0 0) 0).run (scriptTarget (fun j => if j = 0 then .setDur 32 else .keep))
    [Ev.wake 1064]).c0 = 1032 := by decide

/-- **stop_halts.**  After `stop()` (or after an exception has ended `run()`), no further tick is
    delivered, whatever happens next. -/
theorem stop_halts {τ : Type} (T : Target τ) (s : Clk τ) (evs : List Ev) :
    (s.run T (Ev.stop :: evs)).ticks = s.ticks ∧ (s.run T (Ev.stop :: evs)).raw = s.raw :=
  let h := run_halted T evs { s with running := false } (Or.inl rfl)
  ⟨h.1, h.2.1⟩

example : ((Clk.init 0 10 (Gen.mk' 0 0) ()).run idleTarget [Ev.wake 35, Ev.stop, Ev.wake 1000]).ticks = 3 := by
  decide

/-! ## 4. External MIDI clock (`MidiInputDevice._callback`) -/

/-- **one_tick_per_clock_message.**  For every message sequence, the clock target's `tick()` is called
    exactly once per `clock` message — start/stop/song-position/notes/anything else never tick it. -/
theorem one_tick_per_clock_message (m : MidiIn) (msgs : List Msg) (h : m.hasTarget = true) :
    (m.run msgs).calls.count .tick = m.calls.count .tick + msgs.count .clock := by
  rw [(MidiIn.run_calls m msgs h).1, List.count_append]
  congr 1
  induction msgs with
  | nil => rfl
  | cons x xs ih =>
    rw [List.filterMap_cons, List.count_cons]
    cases x with
    | songpos p => by_cases hp : p = 0 <;> simp [Msg.call, hp, ih]
    | _ => simp [Msg.call, ih]

example : (({} : MidiIn).run [.start, .clock, .note 1, .clock, .songpos 5, .stop, .clock, .other]).calls.count .tick = 3 := by
  rw [one_tick_per_clock_message _ _ rfl]; decide

/-- **start_stop_songpos.**  The calls made on the clock target are, in order, exactly the images of
    the messages: clock ↦ tick, start ↦ start, stop ↦ stop, songpos 0 ↦ reset; a song position other
    than 0 and every other message cause no call.  Without a target nothing is called. -/
theorem start_stop_songpos (m : MidiIn) (msgs : List Msg) :
    (m.run msgs).calls = if m.hasTarget then m.calls ++ msgs.filterMap Msg.call else m.calls := by
  cases h : m.hasTarget
  · simpa using (MidiIn.run_no_target m msgs h).1
  · simpa using (MidiIn.run_calls m msgs h).1

example : (({} : MidiIn).run [.start, .clock, .songpos 0, .songpos 7, .note 3, .stop]).calls
    = [.start, .tick, .reset, .stop] := by
  rw [start_stop_songpos]; decide

/-- **slave_one_tick_per_clock.**  A timeline slaved to the MIDI input, with compatible devices:
    every `clock` message performs exactly one successful `Timeline.tick` (none raises), the time
    advances by one tick per clock message (counted from the last `songpos 0`), and each device has
    received exactly what its multiplier yields for that many ticks. -/
theorem slave_one_tick_per_clock (s : Slave) (msgs : List Msg) (hlive : ∀ dv ∈ s.tl.devs, dv.gen.Live)
    (hids : s.tl.devs.Pairwise (fun a b => a.id ≠ b.id)) :
    (s.run msgs).errs = s.errs ∧
    (s.run msgs).log.length = s.log.length + msgs.count .clock ∧
    ((∀ m ∈ msgs, m ≠ .songpos 0) → (s.run msgs).tl.now = s.tl.now + msgs.count .clock) ∧
    (∀ dv ∈ s.tl.devs, callsOf dv.id (s.run msgs).log.flatten =
        callsOf dv.id s.log.flatten + dv.gen.total (msgs.count .clock)) :=
  let h := Slave.run_live msgs s hlive hids
  ⟨h.1, h.2.1, h.2.2.2.1, h.2.2.2.2⟩

/-- 24-PPQN MIDI clock in, a 48-PPQN device out: 3 clock messages → 3 timeline ticks, 6 device ticks. -/
example : callsOf 0 ((Slave.mk ((TL.mk 24 [] 0).addDevice 48) [] []).run
    [.start, .clock, .clock, .stop, .clock]).log.flatten = 6 := by decide

end IsobarV.C14
