/-
C05 for interpolating tracks: "from that tick on only the new one".

The scheduler model (`Sched/Model.lean`) has no interpolation; the interpolating branch of `Track.tick`
has a model of its own (`Interp/Model.lean`, property C15).  `Interp/Restart.lean` adds `Track.start` to it
(as the code is since fix 5de958e).  The statement below is the clause of C05 on that model; its conclusion
— the updated track behaves, from the switch tick on, like a new track of the new stream — is what
`c05.interpolation_update_cases` observes on the real Timeline.
-/
import IsobarV.Props.C05
import IsobarV.Interp.Restart

namespace IsobarV.C05
open IsobarV.Interp

/-- An interpolating track switched to the stream `pts` (immediately, or when its quantized / delayed start
    fires) sends, from that tick on and for any number of ticks, exactly what a new track of `pts` sends —
    for every easing `f`, every old stream, and whatever point of whatever segment the old interpolation had
    reached. -/
theorem interpolating_update_plays_only_the_new_stream (f : Rat → Rat) (t : Interp.Track) (pts : List Pt) (n : Nat) :
    Interp.run f n (t.start pts) = Interp.run f n { Interp.Track.fresh pts t.maxCount with count := t.count } :=
  start_plays_only_the_new_stream f t pts n

end IsobarV.C05
