/- C01: everything (integer-time closed form, the float clock and event times, the multi-track run). -/
import IsobarV.Props.C01Float
import IsobarV.Props.C01Runs
