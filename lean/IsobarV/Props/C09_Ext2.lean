/-
C09 — iterator protocol: stickiness of StopIteration for the ext2 group.

`PMetropolis` and `PPatternGeneratorAction` (pure generator function) never raise StopIteration; `PFunc`,
`PFilterByKey`, `PNearestNoteInKey`, `PKeyTonic`, `PKeyScale` end exactly when one of their attributes ends, and that
attribute is resolved again at every later step.  `PSequenceAction` resolves `repeats` afresh every time its inner
sequence ends: with a VARYING `repeats` it is a selector (it resumes when a later value of `repeats` exceeds the
counter), like `PReset` and the array lookup, and is deliberately not in the sticky set; with a constant `repeats` it
ends for good (decided by the harness: in finite contexts the generator keeps `repeats` literal).
-/
import IsobarV.Pat.Cls.ScalarLemmas
import IsobarV.Props.C09_Scalar

namespace IsobarV.C09Ext2
open IsobarV.Pat IsobarV.C09

theorem metropolis_never_stops (rec : Rec) (kids : List Pat) (st : St) : (stepMetropolis rec kids st).out ≠ .stop := by
  simp only [stepMetropolis, metEmit]
  repeat' split
  all_goals simp

theorem pga_never_stops (rec : Rec) (kids : List Pat) (st : St) : (stepPga rec kids st).out ≠ .stop := by
  simp only [stepPga]
  repeat' split
  all_goals simp

/-- A class without sub-patterns that never raises StopIteration is (vacuously) sticky. -/
theorem metropolis_sticky : ClsSticky .metropolis := by
  intro P rec kids st _ hk
  have hc : clsStep .metropolis = stepMetropolis := rfl
  rw [hc]
  refine ⟨?_, fun h => absurd h (metropolis_never_stops rec kids st)⟩
  have : (stepMetropolis rec kids st).kids = kids := by
    simp only [stepMetropolis, metEmit]
    repeat' split
    all_goals rfl
  rw [this]; exact hk

theorem pga_sticky : ClsSticky .patternGeneratorAction := by
  intro P rec kids st _ hk
  have hc : clsStep .patternGeneratorAction = stepPga := rfl
  rw [hc]
  refine ⟨?_, fun h => absurd h (pga_never_stops rec kids st)⟩
  have : (stepPga rec kids st).kids = kids := by
    simp only [stepPga]
    repeat' split
    all_goals rfl
  rw [this]; exact hk

theorem funcF_ne_stop (st : St) (vs : List Val) : (funcF st vs).out ≠ .stop := by
  unfold funcF; (repeat' split) <;> simp

theorem keyMapVal_ne_stop (f : Tonal.Key → Option Int → Option Int) (vs : List Val) : keyMapVal f vs ≠ .stop := by
  unfold keyMapVal; (repeat' split) <;> simp

theorem keyTonicVal_ne_stop (vs : List Val) : keyTonicVal vs ≠ .stop := by
  unfold keyTonicVal; (repeat' split) <;> simp

theorem keyScaleVal_ne_stop (vs : List Val) : keyScaleVal vs ≠ .stop := by
  unfold keyScaleVal; (repeat' split) <;> simp

theorem func_sticky : ClsSticky .func := poll_sticky (fun _ => [0]) funcF _ rfl funcF_ne_stop
theorem filterByKey_sticky : ClsSticky .filterByKey :=
  poll_sticky (fun _ => [0, 1]) (pure1 (keyMapVal Tonal.pFilterByKey)) _ rfl (fun _ vs => keyMapVal_ne_stop _ vs)
theorem nearestNoteInKey_sticky : ClsSticky .nearestNoteInKey :=
  poll_sticky (fun _ => [0, 1]) (pure1 (keyMapVal Tonal.pNearestNoteInKey)) _ rfl (fun _ vs => keyMapVal_ne_stop _ vs)
theorem keyTonic_sticky : ClsSticky .keyTonic :=
  poll_sticky (fun _ => [0]) (pure1 keyTonicVal) _ rfl (fun _ vs => keyTonicVal_ne_stop vs)
theorem keyScale_sticky : ClsSticky .keyScale :=
  poll_sticky (fun _ => [0]) (pure1 keyScaleVal) _ rfl (fun _ vs => keyScaleVal_ne_stop vs)

/-- The sticky classes of this group (`PSequenceAction` with a varying `repeats` is a selector: see the header). -/
def Ext2Sticky (c : Cls) : Prop :=
  c = .metropolis ∨ c = .patternGeneratorAction ∨ c = .func ∨ c = .filterByKey ∨ c = .nearestNoteInKey ∨ c = .keyTonic ∨
  c = .keyScale

theorem ext2_sticky : ∀ c, Ext2Sticky c ∨ ScalarSticky c ∨ StickyCore c → ClsSticky c := by
  intro c h
  rcases h with h | h
  · unfold Ext2Sticky at h
    rcases h with h | h | h | h | h | h | h <;> subst h
    · exact metropolis_sticky
    · exact pga_sticky
    · exact func_sticky
    · exact filterByKey_sticky
    · exact nearestNoteInKey_sticky
    · exact keyTonic_sticky
    · exact keyScale_sticky
  · exact scalar_sticky c h

/-- **C09 for the ext2 group**: in any expression built from these classes, the scalar group and the sticky core
    classes, nested to any depth, once `next()` has raised StopIteration no later `next()` yields a value. -/
theorem sticky_ext2 (fuel : Nat) (p : Pat) (hp : AllCls (fun c => Ext2Sticky c ∨ ScalarSticky c ∨ StickyCore c) p)
    (hstop : (stepF fuel p).out = .stop) : ∀ n, ∀ o ∈ outs fuel n (stepF fuel p).p, NoVal o :=
  (sticky_stepF ext2_sticky fuel p hp).2 hstop

/-! Non-vacuity: a filter over a finite melody ends with it and stays ended; a sequence action with a constant
    `repeats` ends for good, with the varying `repeats` 1, 3 it resumes (the selector behaviour described above). -/
section Example
def c (i : Int) : Pat := Pat.const (.int i)
def exF : Pat := .node .filterByKey [.node .seq [c 0, c 1, c 2] { n0 := 1 }, Pat.const (.tup [.int 0, .str "major"])] {}
example : outs 10 6 exF = [.val (.int 0), .val Val.none, .val (.int 2), .stop, .stop, .stop] := by decide +kernel
example : (stepF 10 (after 10 3 exF)).out = .stop := by decide +kernel
def exS (rep : Pat) : Pat := .node .sequenceAction [rep, c 1, c 2] { n0 := 1 }
example : outs 10 7 (exS (c 2)) = [.val (.int 1), .val (.int 2), .val (.int 2), .val (.int 1), .stop, .stop, .stop] := by
  decide +kernel
example : outs 10 6 (exS (.node .seq [c 1, c 3] { n0 := -1 })) =
    [.val (.int 1), .val (.int 2), .stop, .val (.int 2), .val (.int 1), .stop] := by decide +kernel
end Example

end IsobarV.C09Ext2
