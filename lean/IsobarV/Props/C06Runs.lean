/-
C06 over whole runs: a track performs exactly min(count, length of its pattern) events.

`C06.count_bounded` etc. are about one pull.  Here the statement is about the whole life of a track inside
a timeline of any number of tracks: along the track's own trajectory (`C07.alone`, the way it evolves by
`C07.run_is_merge`) the number of events it has pulled never exceeds either bound, and at the moment it
is marked finished — the only way it leaves a fault-free timeline — it has performed exactly
`min(count, length)` of them (`count = 0`: unbounded, i.e. `length`).
-/
import IsobarV.Props.C06
import IsobarV.Props.C07Runs

namespace IsobarV.C06
open IsobarV.Sched IsobarV.C07

/-- the stream `sid` has exactly `L` events: positions `< L` yield an event, positions `≥ L` are the end -/
def HasLength (W : World) (sid L : Nat) : Prop :=
  (∀ pos, pos < L → ∃ d a k, W sid pos = some (.ev d a k)) ∧ (∀ pos, L ≤ pos → W sid pos = none)

/-- the number of events the track is to perform: `min(count, length)`, `count = 0` meaning no limit -/
def quota (maxCount L : Nat) : Nat := if maxCount = 0 then L else min maxCount L

/-- what is carried along the life of a track playing the stream `sid` of length `L` from its beginning -/
structure LifeInv (sid L : Nat) (t : Track) : Prop where
  sid : t.sid = sid
  pos : t.pos = t.count
  le : t.count ≤ quota t.maxCount L
  fin : t.finished = true → t.count = quota t.maxCount L

theorem quota_le_len (m L : Nat) : quota m L ≤ L := by unfold quota; split <;> omega
theorem quota_le_max (m L : Nat) (hm : m ≠ 0) : quota m L ≤ m := by unfold quota; simp [hm]; omega

/-- one pull: the invariant is kept, `maxCount` is untouched, and a StopIteration means the quota is reached -/
theorem getNext_life {W : World} (hF : Faultless W) {sid L : Nat} (hL : HasLength W sid L) (t : Track) (h : LifeInv sid L t) :
    LifeInv sid L (t.getNext W).t ∧ (t.getNext W).t.maxCount = t.maxCount ∧
    (t.getNext W).t.finished = t.finished ∧
    ((t.getNext W).r = .stop → (t.getNext W).t.count = quota t.maxCount L) := by
  obtain ⟨hsid, hpos, hle, hfin⟩ := h
  unfold Track.getNext
  split
  · rename_i hlim
    -- the event count has reached a non-zero limit
    refine ⟨⟨hsid, hpos, hle, hfin⟩, rfl, rfl, fun _ => ?_⟩
    have := quota_le_max t.maxCount L hlim.1
    show t.count = quota t.maxCount L
    omega
  · rename_i hlim
    split
    · rename_i hw
      -- the stream is exhausted: pos ≥ L
      refine ⟨⟨hsid, hpos, hle, hfin⟩, rfl, rfl, fun _ => ?_⟩
      have hge : L ≤ t.pos := by
        rcases Nat.lt_or_ge t.pos L with hlt | hge
        · obtain ⟨d, a, k, he⟩ := hL.1 t.pos hlt
          rw [hsid, he] at hw
          cases hw
        · exact hge
      have := quota_le_len t.maxCount L
      -- count = pos ≥ L ≥ quota ≥ count
      have h1 : quota t.maxCount L ≤ t.count := by omega
      show t.count = quota t.maxCount L
      omega
    · rename_i hw; exact absurd hw (hF.1 _ _)
    · rename_i hw; exact absurd hw (hF.2.1 _ _)
    · rename_i d a k hw
      -- an event is pulled: pos < L and the limit is not reached, so count + 1 is within the quota
      have hlt : t.pos < L := by
        rcases Nat.lt_or_ge t.pos L with hlt | hge
        · exact hlt
        · have := hL.2 t.pos hge
          rw [hsid, this] at hw
          cases hw
      have hq : t.count + 1 ≤ quota t.maxCount L := by
        unfold quota
        split
        · omega
        · rename_i hm
          have : ¬ t.maxCount ≤ t.count := fun hc => hlim ⟨hm, hc⟩
          omega
      refine ⟨⟨hsid, by simp [hpos], hq, ?_⟩, rfl, rfl, fun h => by cases h⟩
      intro hf
      -- a finished track had reached its quota, so it could not have pulled another event
      have := hfin hf
      omega

/-- the pull loop: the same for any number of pulls in one tick -/
theorem pullLoop_life {W : World} (hF : Faultless W) {sid L : Nat} (hL : HasLength W sid L) (q : Nat) :
    ∀ (fuel : Nat) (t : Track) (last : Pull), LifeInv sid L t →
      (last = .stop → t.count = quota t.maxCount L ∨ t.nxt ≤ (t.cur * q : Nat)) →
      LifeInv sid L (Track.pullLoop W q fuel t last).t ∧ (Track.pullLoop W q fuel t last).t.maxCount = t.maxCount ∧
      (Track.pullLoop W q fuel t last).t.finished = t.finished ∧
      ((Track.pullLoop W q fuel t last).r = .stop →
        (Track.pullLoop W q fuel t last).t.count = quota t.maxCount L) := by
  intro fuel
  induction fuel with
  | zero =>
    intro t last h _
    exact ⟨h, rfl, rfl, fun hr => by simp [Track.pullLoop] at hr⟩
  | succ n ih =>
    intro t last h hlast
    obtain ⟨g1, g2, g3, g4⟩ := getNext_life hF hL t h
    simp only [Track.pullLoop]
    split
    · split
      · rename_i d a k hg
        have hinv : LifeInv sid L { (t.getNext W).t with nxt := (t.getNext W).t.nxt + d } :=
          ⟨g1.sid, g1.pos, g1.le, g1.fin⟩
        obtain ⟨i1, i2, i3, i4⟩ := ih { (t.getNext W).t with nxt := (t.getNext W).t.nxt + d } (.ev d a k) hinv
          (fun hh => by cases hh)
        refine ⟨i1, i2.trans g2, i3.trans g3, fun hr => ?_⟩
        have := i4 hr
        simpa [g2] using this
      · rename_i hg
        exact ⟨g1, g2, g3, fun _ => g4 hg⟩
      · exact ⟨g1, g2, g3, fun hr => by cases hr⟩
      · exact ⟨g1, g2, g3, fun hr => by cases hr⟩
    · rename_i hnd
      refine ⟨h, rfl, rfl, fun hr => ?_⟩
      rcases hlast hr with hc | hc
      · exact hc
      · exact absurd hc hnd

theorem performSolo_life (q : Nat) (t : Track) (a : Bool) (k : EvKind) :
    (performSolo q t a k).t.sid = t.sid ∧ (performSolo q t a k).t.pos = t.pos ∧ (performSolo q t a k).t.count = t.count ∧
    (performSolo q t a k).t.maxCount = t.maxCount ∧ (performSolo q t a k).t.finished = t.finished := by
  unfold performSolo
  split
  · exact ⟨rfl, rfl, rfl, rfl, rfl⟩
  · cases k <;> simp only [] <;> (try split) <;> first | exact ⟨rfl, rfl, rfl, rfl, rfl⟩ | simp

/-- **One tick of the per-track function keeps the invariant** — in particular a track is marked finished only
    with exactly its quota of events performed. -/
theorem soloTick_life {W : World} (hF : Faultless W) {sid L : Nat} (hL : HasLength W sid L) (q : Nat) (t : Track)
    (h : LifeInv sid L t) :
    LifeInv sid L (soloTick W q t).t ∧ (soloTick W q t).t.maxCount = t.maxCount := by
  unfold soloTick
  split
  · exact ⟨h, rfl⟩
  · split
    · rename_i hdue
      obtain ⟨p1, p2, p3, p4⟩ := pullLoop_life hF hL q (t.fuel q) t .stop h (fun _ => Or.inr hdue)
      generalize Track.pullLoop W q (t.fuel q) t .stop = p at p1 p2 p3 p4
      unfold soloAfterPull
      split
      · exact ⟨p1, p2⟩
      · exact ⟨p1, p2⟩
      · rename_i hr
        -- StopIteration: the track may be marked finished — with exactly its quota performed
        refine ⟨⟨p1.sid, p1.pos, p1.le, fun _ => ?_⟩, p2⟩
        have := p4 hr
        simpa [endSolo, p2] using this
      · rename_i d a k hr
        obtain ⟨f1, f2, f3, f4, f5⟩ := performSolo_life q p.t a k
        split
        · exact ⟨⟨f1.trans p1.sid, by rw [f2, f3]; exact p1.pos, by rw [f3, f4]; exact p1.le,
            fun hf => by rw [f3, f4]; exact p1.fin (f5 ▸ hf)⟩, f4.trans p2⟩
        · refine ⟨⟨f1.trans p1.sid, by simp only [endSolo]; rw [f2, f3]; exact p1.pos,
            by simp only [endSolo]; rw [f3, f4]; exact p1.le, fun hf => ?_⟩, by simp only [endSolo]; exact f4.trans p2⟩
          simp only [endSolo, Bool.false_eq_true, if_false] at hf ⊢
          rw [f3, f4]
          exact p1.fin (f5 ▸ hf)
    · refine ⟨⟨h.sid, h.pos, h.le, ?_⟩, rfl⟩
      simp only [endSolo, Bool.false_eq_true, if_false]
      exact h.fin

/-- preparing a track for the event phase in a frame without pending starts changes none of these fields -/
theorem prep_life {sid L : Nat} (f : Frame) (hact : f.actions = []) (t : Track) (h : LifeInv sid L t) :
    LifeInv sid L (prep f t) ∧ (prep f t).maxCount = t.maxCount := by
  have : prep f t = t.processOffs f.q := by simp [prep, hact, applyStarts]
  rw [this]
  exact ⟨⟨h.sid, h.pos, h.le, h.fin⟩, rfl⟩

/-- **Along its whole life inside the timeline** a track has performed at most its quota, and — the point of the
    property — a track that has been marked finished has performed exactly `min(count, length)` events. -/
theorem after_actions_nil (f : Frame) (hact : f.actions = []) (n : Nat) : (f.after n).actions = [] := by
  induction n with
  | zero => exact hact
  | succ m ihm => simp [Frame.after, Frame.next, ihm]

theorem alone_life {W : World} (hF : Faultless W) {sid L : Nat} (hL : HasLength W sid L) (f : Frame) (hact : f.actions = []) (t : Track)
    (h0 : LifeInv sid L t) (n : Nat) (u : Track) (hu : alone W f n t = some u) :
    LifeInv sid L u ∧ u.maxCount = t.maxCount := by
  induction n generalizing u with
  | zero => simp only [alone, Option.some.injEq] at hu; subst hu; exact ⟨h0, rfl⟩
  | succ m ih =>
    simp only [alone] at hu
    cases ha : alone W f m t with
    | none => rw [ha] at hu; cases hu
    | some v =>
      rw [ha] at hu
      simp only [Option.bind_some, trackNext, survivor] at hu
      obtain ⟨iv, im⟩ := ih v ha
      have hact' : (f.after m).actions = [] := after_actions_nil f hact m
      obtain ⟨pv, pm⟩ := prep_life (f.after m) hact' v iv
      obtain ⟨sv, sm⟩ := soloTick_life hF hL (f.after m).q (prep (f.after m) v) pv
      split at hu
      · cases hu
        exact ⟨sv, sm.trans (pm.trans im)⟩
      · cases hu

/-- **The track leaves a fault-free timeline only finished, and then with exactly its quota performed.**  If the
    track is still on its trajectory after `n` ticks and gone after `n + 1`, its last state is finished with
    `count = min(maxCount, L)` (`maxCount = 0`: `L`). -/
theorem leaves_with_quota_performed {W : World} (hP : PosDur W) (hF : Faultless W) {sid L : Nat} (hL : HasLength W sid L)
    (f : Frame) (hact : f.actions = []) (t : Track) (h0 : LifeInv sid L t) (n : Nat) (v : Track)
    (hv : alone W f n t = some v) (hgone : alone W f (n + 1) t = none) :
    (soloTick W (f.after n).q (prep (f.after n) v)).t.finished = true ∧
    (soloTick W (f.after n).q (prep (f.after n) v)).t.count = quota t.maxCount L := by
  simp only [alone, hv, Option.bind_some, trackNext, survivor] at hgone
  obtain ⟨iv, im⟩ := alone_life hF hL f hact t h0 n v hv
  have hact' : (f.after n).actions = [] := after_actions_nil f hact n
  obtain ⟨pv, pm⟩ := prep_life (f.after n) hact' v iv
  obtain ⟨sv, sm⟩ := soloTick_life hF hL (f.after n).q (prep (f.after n) v) pv
  have hok : (soloTick W (f.after n).q (prep (f.after n) v)).out = .ok := by
    have h1 := soloTick_not_diverged W hP (f.after n).q (prep (f.after n) v)
    have h2 := soloTick_not_raised W hF (f.after n).q (prep (f.after n) v)
    cases hout : (soloTick W (f.after n).q (prep (f.after n) v)).out with
    | ok => rfl
    | raised => exact absurd hout h2
    | diverged => exact absurd hout h1
  split at hgone
  · cases hgone
  · rename_i hcond
    have hfin : (soloTick W (f.after n).q (prep (f.after n) v)).t.finished = true := by
      cases hb : (soloTick W (f.after n).q (prep (f.after n) v)).t.finished with
      | true => rfl
      | false => exact absurd ⟨hok, fun hh => by rw [hb] at hh; cases hh.1⟩ hcond
    refine ⟨hfin, ?_⟩
    have := sv.fin hfin
    rw [this, sm, pm, im]

/-- **In the timeline.**  A timeline of any number of tracks without action callbacks (fault-free world, no start
    pending, stop-when-done off), each track at the beginning of a stream of some finite length: after ANY number of
    ticks every track still in the timeline has performed at most `min(count, length)` events of its stream, and one
    that is marked finished (kept because it was scheduled with `remove_when_done = False`) exactly that many. -/
theorem events_performed_in_the_timeline (W : World) (hW : NoActions W) (hP : PosDur W) (hF : Faultless W) (tl : TL)
    (hnd : (tl.tracks.map Track.id).Nodup) (hs : tl.stopWhenDone = false) (hact : tl.actions = [])
    (h0 : ∀ t ∈ tl.tracks, ∃ L, HasLength W t.sid L ∧ LifeInv t.sid L t) (n : Nat) :
    ∀ u ∈ (ticks W n tl).tracks, ∃ L, HasLength W u.sid L ∧ u.count ≤ quota u.maxCount L ∧
      (u.finished = true → u.count = quota u.maxCount L) := by
  obtain ⟨h1, _, _⟩ := run_is_merge W hW hP tl hnd (Or.inr hF) hs n
  intro u hu
  rw [h1, stateAfter_tracks] at hu
  obtain ⟨t, ht, htu⟩ := List.mem_filterMap.mp hu
  obtain ⟨L, hL, hinv⟩ := h0 t ht
  obtain ⟨iu, _⟩ := alone_life hF hL (frameOf tl) hact t hinv n u htu
  exact ⟨L, by rw [iu.sid]; exact hL, iu.le, iu.fin⟩

/-- **"… and never when stop-when-done is off", over whole runs and through the documented keyword.**
    `Timeline.run(stop_when_done=False)` applies the setting before the clock starts — the model's `setStopWhenDone false`
    (the harness drives the real `run()` keyword and the attribute alternately against this op) — whatever the setting was
    before (an earlier `run(stop_when_done=True)`); from then on NO tick of the run raises `StopIteration`, however many
    ticks follow and whether or not a track is left. -/
theorem run_keyword_off_never_stops (W : World) (hW : NoActions W) (hP : PosDur W) (tl : TL)
    (hnd : (tl.tracks.map Track.id).Nodup) (hmode : tl.tolerant = true ∨ Faultless W) (n : Nat) :
    (applyOp tl (.setStopWhenDone false)).tl.stopWhenDone = false ∧
    (tickTL W (ticks W n (applyOp tl (.setStopWhenDone false)).tl)).res = .ok := by
  refine ⟨rfl, ?_⟩
  exact (run_is_merge W hW hP (applyOp tl (.setStopWhenDone false)).tl (by simpa [applyOp] using hnd)
    (by simpa [applyOp] using hmode) rfl n).2.2

/-- … while `run(stop_when_done=True)` switches it on and `run()` leaves it as it is (no op). -/
theorem run_keyword_on (tl : TL) : (applyOp tl (.setStopWhenDone true)).tl.stopWhenDone = true ∧
    (applyOp tl (.setStopWhenDone true)).tl.tracks = tl.tracks ∧ (applyOp tl (.setStopWhenDone true)).tl.now = tl.now := by
  simp [applyOp]

/-! Non-vacuity: a three-event stream, limits 0 (none), 2 and 5. -/
section Example
def exW : World := fun _ pos =>
  if pos < 3 then some (.ev 2 true (.note [{ note := 60 + pos, amp := 64, len := 1, gpos := true, chan := 0 }])) else none
theorem exW_length : HasLength exW 0 3 := by
  constructor
  · intro pos h; exact ⟨2, true, .note [{ note := 60 + pos, amp := 64, len := 1, gpos := true, chan := 0 }], by simp only [exW, h, if_true]⟩
  · intro pos h; simp [exW]; omega
example : quota 0 3 = 3 ∧ quota 2 3 = 2 ∧ quota 5 3 = 3 := by decide
example : LifeInv 0 3 { (newTrack 0 none 2 true) with started := true } :=
  ⟨rfl, rfl, by simp [newTrack, quota], by simp [newTrack]⟩
-- the model really performs min(count, length) events: limits 0, 2, 5 on the three-event stream
example : ((List.range 12).map (fun n => (ticks exW n { q := 1, tracks := [{ (newTrack 0 none 2 false) with started := true }] }).tracks.map
    (fun t => (t.count, t.finished)))).getLast? = some [(2, true)] := by decide +kernel
example : ((List.range 12).map (fun n => (ticks exW n { q := 1, tracks := [{ (newTrack 0 none 5 false) with started := true }] }).tracks.map
    (fun t => (t.count, t.finished)))).getLast? = some [(3, true)] := by decide +kernel
end Example

end IsobarV.C06
