/-
C16 — MIDI files written by isobar read back as the same music.

  Writing any sequence of notes and chords to a MIDI file and reading it back yields the same pitches,
  velocities, onset times and sounding lengths to the file's tick resolution, and the same duration and
  gate for every event but the last, with trailing silence preserved in the file's length.  Reading any
  standard MIDI file places each note at the sum of all preceding delta times, whatever other messages
  (controllers, pitch-bend, meta events) are interleaved, and treats a note-on with velocity 0 as a
  note-off.

Model: `IsobarV.Midi.Model` (reader `readFile`/`readTrack`/`readNotes`, writer `writeFile`, performer
`performScore`); vocabulary of the statements: `IsobarV.Midi.Spec` (`ScoreOK`, `expectedNotes`,
`heardOut`, `totalDur`, `lastEnd`); helper lemmas: `IsobarV.Midi.Lemmas`.  All times are file ticks.

Every theorem below holds for ALL message lists / call sequences / scores of the stated class: no bound
on their length, on the number of interleaved messages, on deltas, durations or chord sizes.
-/
import IsobarV.Midi.Lemmas

namespace IsobarV.C16
open IsobarV.Midi

/-! ## Reading any file -/

/-- Reading ANY track: a sounding note-on `m` preceded by the messages `pre` (of any kind, in any
    interleaving) and followed by any `post` yields a note — the k-th, k being the number of sounding
    note-ons before it — with `m`'s pitch and velocity, placed at the sum of the delta times of ALL
    messages up to and including `m`. -/
theorem reader_onset_is_sum_of_all_deltas (pre post : List Msg) (m : Msg) (hm : m.sounding) :
    ∃ n, (readNotes (pre ++ m :: post))[(pre.filter (fun x => decide x.sounding)).length]? = some n
      ∧ n.pitch = m.note ∧ n.vel = min m.vel 127
      ∧ n.loc = (pre.map (·.delta)).sum + m.delta := by
  have hk := readNotes_keys (pre ++ m :: post)
  rw [onsetsFrom_append] at hk
  simp only [onsetsFrom, hm, if_true, Nat.zero_add] at hk
  have hi := congrArg (fun l => l[(pre.filter (fun x => decide x.sounding)).length]?) hk
  simp only [List.getElem?_map] at hi
  rw [← onsetsFrom_length 0 pre, List.getElem?_append_right (Nat.le_refl _)] at hi
  simp only [Nat.sub_self, List.getElem?_cons_zero] at hi
  rw [onsetsFrom_length 0 pre] at hi
  cases hn : (readNotes (pre ++ m :: post))[(pre.filter (fun x => decide x.sounding)).length]? with
  | none => rw [hn] at hi; cases hi
  | some n =>
    rw [hn] at hi
    simp only [Option.map_some, Option.some.injEq, RNote.key, Prod.mk.injEq] at hi
    exact ⟨n, rfl, hi.1, hi.2.1, hi.2.2⟩

/-- non-vacuity: the repaired defect's input — a controller carrying 240 ticks between a note-on and
    its note-off, and before the next note-on. -/
example : readNotes [⟨.on, 60, 64, 0, 0⟩, ⟨.other, 0, 0, 0, 240⟩, ⟨.off, 60, 64, 0, 240⟩,
      ⟨.other, 0, 0, 0, 100⟩, ⟨.on, 62, 64, 0, 20⟩, ⟨.off, 62, 0, 0, 480⟩]
    = [⟨60, 64, 0, some 480⟩, ⟨62, 64, 600, some 480⟩] := by decide

/-- The reader creates exactly one note per sounding note-on, nothing else. -/
theorem reader_note_count (msgs : List Msg) :
    (readNotes msgs).length = (msgs.filter (fun x => decide x.sounding)).length := by
  have := congrArg List.length (readNotes_keys msgs)
  simpa [onsetsFrom_length] using this

example : (readNotes [⟨.on, 60, 64, 0, 0⟩, ⟨.on, 61, 0, 0, 5⟩, ⟨.other, 0, 0, 0, 240⟩, ⟨.on, 60, 0, 0, 1⟩]).length = 1 := by
  decide

/-- "Whatever other messages are interleaved": a message that is neither a note-on nor a note-off
    contributes nothing but its delta time — the result of `read()` is the same as for the track in
    which it is deleted and its delta added to the next message (or simply deleted at the very end). -/
theorem other_messages_only_carry_time (pre post : List Msg) (o m : Msg) (ho : o.kind = .other) :
    readTrack (pre ++ o :: m :: post) = readTrack (pre ++ { m with delta := o.delta + m.delta } :: post)
      ∧ readTrack (pre ++ [o]) = readTrack pre := by
  constructor
  · unfold readTrack readNotes
    simp only [readFold_append, readFold_cons, rStep_other_merge _ o m ho]
  · unfold readTrack readNotes
    simp only [readFold_append, readFold_cons, readFold_nil, rStep_other_notes _ o ho]

example : readTrack [⟨.on, 60, 64, 0, 0⟩, ⟨.other, 0, 0, 0, 240⟩, ⟨.off, 60, 64, 0, 240⟩]
    = readTrack [⟨.on, 60, 64, 0, 0⟩, ⟨.off, 60, 64, 0, 480⟩] := by decide +kernel

/-- A note-on with velocity 0 is a note-off: rewriting one such message anywhere in a track
    (`Msg.normalize` turns exactly the velocity-0 note-ons into note-offs), or all of them, does not
    change the result of `read()`. -/
theorem velocity_zero_note_on_is_note_off (pre post : List Msg) (m : Msg) :
    readTrack (pre ++ m.normalize :: post) = readTrack (pre ++ m :: post)
      ∧ readTrack ((pre ++ m :: post).map Msg.normalize) = readTrack (pre ++ m :: post) := by
  constructor
  · unfold readTrack readNotes
    simp only [readFold_append, readFold_cons, rStep_normalize]
  · unfold readTrack readNotes
    rw [readFold_normalize]

example : (⟨.on, 60, 0, 3, 7⟩ : Msg).normalize = ⟨.off, 60, 0, 3, 7⟩ := by decide
example : readTrack [⟨.on, 60, 64, 0, 0⟩, ⟨.on, 60, 0, 0, 480⟩] = readTrack [⟨.on, 60, 64, 0, 0⟩, ⟨.off, 60, 0, 0, 480⟩] := by
  decide +kernel
example : readTrack [⟨.on, 60, 64, 0, 0⟩, ⟨.on, 60, 0, 0, 480⟩]
    = .ok { note := [.one 60], amp := [.one 64], gate := [.one 1], dur := [480] } := by decide +kernel

/-- The sounding length of a note: if between a note-on and a closing message of its pitch (a note-off
    or a velocity-0 note-on) no message starts or closes that pitch, the note's length is the sum of the
    delta times of ALL messages in between (of any kind) plus the closing message's own. -/
theorem reader_length_is_sum_of_deltas_between (pre mid post : List Msg) (on off : Msg)
    (hon : on.sounding) (hoff : off.closing) (hp : off.note = on.note)
    (hmid : ∀ m ∈ mid, (m.sounding ∨ m.closing) → m.note ≠ on.note) :
    ∃ n, (readNotes (pre ++ on :: (mid ++ off :: post)))[(pre.filter (fun x => decide x.sounding)).length]? = some n
      ∧ n.pitch = on.note ∧ n.vel = min on.vel 127
      ∧ n.loc = (pre.map (·.delta)).sum + on.delta
      ∧ n.len = some ((mid.map (·.delta)).sum + off.delta) :=
  reader_length_between pre mid post on off hon hoff hp hmid

example : (⟨.on, 60, 64, 0, 0⟩ : Msg).sounding ∧ (⟨.on, 60, 0, 0, 240⟩ : Msg).closing
    ∧ ∀ m ∈ [(⟨.other, 0, 0, 0, 240⟩ : Msg), ⟨.on, 61, 9, 0, 3⟩], (m.sounding ∨ m.closing) → m.note ≠ 60 := by decide

/-! ## Writing -/

/-- The writer puts every note call at the device time of the call: in the track written for the calls
    `pre ++ call :: post`, the deltas of the messages up to and including the call's message add up to
    the number of `tick()`s before the call. -/
theorem writer_deltas_sum_to_call_times (pre post : List Op) :
    (∀ n v c, ∃ d rest, writeFile (pre ++ .on n v c :: post)
        = writeBody 0 0 pre ++ { kind := .on, note := n, vel := v, chan := c, delta := d } :: rest
        ∧ ((writeBody 0 0 pre).map (·.delta)).sum + d = ticksIn pre)
    ∧ (∀ n c, ∃ d rest, writeFile (pre ++ .off n c :: post)
        = writeBody 0 0 pre ++ { kind := .off, note := n, vel := offVel, chan := c, delta := d } :: rest
        ∧ ((writeBody 0 0 pre).map (·.delta)).sum + d = ticksIn pre) := by
  have hb := lastAfter_bounds 0 0 pre (Nat.le_refl _)
  have hs := writeBody_sum 0 0 pre (Nat.le_refl _)
  constructor
  · intro n v c
    refine ⟨0 + ticksIn pre - lastAfter 0 0 pre, writeFrom (0 + ticksIn pre) (0 + ticksIn pre) post, ?_, ?_⟩
    · unfold writeFile; rw [writeFrom_append]; simp only [writeFrom]
    · rw [hs]; omega
  · intro n c
    refine ⟨0 + ticksIn pre - lastAfter 0 0 pre, writeFrom (0 + ticksIn pre) (0 + ticksIn pre) post, ?_, ?_⟩
    · unfold writeFile; rw [writeFrom_append]; simp only [writeFrom]
    · rw [hs]; omega

example : writeFile [.on 60 64 0, .tick, .tick, .off 60 0, .tick, .on 62 9 1, .tick]
    = [⟨.on, 60, 64, 0, 0⟩, ⟨.off, 60, 64, 0, 2⟩, ⟨.on, 62, 9, 1, 1⟩, ⟨.off, 0, 64, 0, 1⟩] := by decide

/-- Trailing silence is preserved in the file's length: the deltas of the written track (including the
    closing dummy note-off) add up to the end of the score — the sum of its durations — or to the end of
    its last sounding note if that is later. -/
theorem written_file_length (s : List SEv) (hs : ScoreOK 0 s) :
    ((writeFile (performScore s)).map (·.delta)).sum = max (totalDur s) (lastEnd 0 s) := by
  unfold writeFile performScore
  rw [writeFrom_sum 0 0 _ (Nat.le_refl _)]
  have := ticksIn_perform s 0 [] hs
  simp only [maxTime] at this
  omega

/-- a score used for non-vacuity: a long note under a chord, a re-struck pitch, a final short note
    followed by silence. -/
def demo : List SEv :=
  [⟨2, [⟨60, 64, 5, 0⟩]⟩, ⟨3, [⟨62, 10, 3, 0⟩, ⟨64, 20, 1, 1⟩]⟩, ⟨4, [⟨60, 30, 4, 0⟩]⟩, ⟨6, [⟨60, 127, 2, 0⟩]⟩]

example : ScoreOK 0 demo ∧ demo ≠ [] ∧ (∀ e ∈ demo, e.voices ≠ []) := by decide
example : ((writeFile (performScore demo)).map (·.delta)).sum = 15 ∧ totalDur demo = 15 ∧ lastEnd 0 demo = 11 := by decide

/-! ## Writing, then reading -/

/-- Pitches, velocities, onset times and sounding lengths survive the round trip, note by note, to the
    file's tick: for every score of the property's domain (durations ≥ 1 tick, sounding voices, no two
    overlapping notes of one pitch; rests allowed) the reader's note list for the written file is the
    score's note list. -/
theorem write_read_notes (s : List SEv) (hs : ScoreOK 0 s) :
    readNotes (writeFile (performScore s)) = expectedNotes 0 s :=
  readNotes_performScore s hs

example : readNotes (writeFile (performScore demo))
    = [⟨60, 64, 0, some 5⟩, ⟨62, 10, 2, some 3⟩, ⟨64, 20, 2, some 1⟩, ⟨60, 30, 5, some 4⟩, ⟨60, 127, 9, some 2⟩] := by decide

/-- The round trip: for every non-empty score of notes and chords in the property's domain, `read()` of
    the written file returns one entry per event with the event's pitches and velocities (scalar for one
    voice, tuple for a chord), its duration and its gates `length / duration` — except that the last
    event reads back with the duration of its longest note (and gates relative to that); all of this is
    `heardOut s`. -/
theorem write_read_roundtrip (s : List SEv) (hs : ScoreOK 0 s) (hne : s ≠ []) (hv : ∀ e ∈ s, e.voices ≠ []) :
    ∃ out, readFile [writeFile (performScore s)] = .ok out
      ∧ out.note = s.map (fun e => cellOf (e.voices.map (·.pitch)))
      ∧ out.amp = s.map (fun e => cellOf (e.voices.map (·.vel)))
      ∧ out.dur.dropLast = s.dropLast.map (·.dur)
      ∧ out.gate.dropLast
          = s.dropLast.map (fun e => cellOf (e.voices.map (fun v => ((v.len : Nat) : Rat) / ((e.dur : Nat) : Rat))))
      ∧ out = heardOut s := by
  refine ⟨heardOut s, ?_, rfl, rfl, heardDurs_dropLast s, heardGates_dropLast s, rfl⟩
  cases s with
  | nil => exact absurd rfl hne
  | cons e es =>
    have hon := performed_file_has_note_on e es hs.2.1 (hv e (by simp))
    simp only [readFile, selectTrack, hon, if_true]
    unfold readTrack
    simp only [readNotes_performScore (e :: es) hs]
    have hall : (expectedNotes 0 (e :: es)).all (fun n => n.len.isSome) = true := by
      rw [List.all_eq_true]
      intro n hn
      obtain ⟨l, hl⟩ := expectedNotes_closed 0 (e :: es) n hn
      simp [hl]
    simp only [hall, if_true]
    rw [onsetTimes_expected (e :: es) 0 hs hv]
    have := rows_expected (e :: es) 0 [] (fun n hn => by cases hn) hs
    simp only [List.nil_append] at this
    rw [this, assemble_specRows (e :: es) 0 hs hv]

example : (heardOut demo).note = [.one 60, .many [62, 64], .one 60, .one 60] ∧ (heardOut demo).dur = [2, 3, 4, 2] := by
  decide

end IsobarV.C16
