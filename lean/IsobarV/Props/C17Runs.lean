/-
C17 over whole runs: "every other track's output is identical to a run without the failing track", for
any number of ticks (the one-tick form is `C17.fault_isolated`).
-/
import IsobarV.Props.C17
import IsobarV.Props.C07Runs

namespace IsobarV.C17
open IsobarV.Sched IsobarV.C07

/-- In tolerant mode, with a track `bad` that may fail at any time scheduled anywhere among the tracks
    `ts1 ++ ts2`: after any number `n` of ticks
    * the other tracks are exactly the tracks of the run without `bad` (same states, same order), `bad`
      itself being present or already removed;
    * the calls of the next tick are, in each of the two phases, the calls of the run without `bad` with
      `bad`'s own calls inserted at its place — nothing any other track sends is lost, changed or moved
      relative to the other tracks;
    * and the tick returns normally (time goes on). -/
theorem fault_isolated_run (W : World) (hW : NoActions W) (hP : PosDur W) (tl : TL) (ts1 ts2 : List Track) (bad : Track)
    (hnd : ((ts1 ++ bad :: ts2).map Track.id).Nodup) (htol : tl.tolerant = true) (hs : tl.stopWhenDone = false) (n : Nat) :
    ∃ (o1 o2 e1 e2 ob eb : List Call) (b : List Track),
      (ticks W n { tl with tracks := ts1 ++ ts2 }).tracks = ts1.filterMap (alone W (frameOf tl) n) ++ ts2.filterMap (alone W (frameOf tl) n) ∧
      (ticks W n { tl with tracks := ts1 ++ bad :: ts2 }).tracks =
        ts1.filterMap (alone W (frameOf tl) n) ++ b ++ ts2.filterMap (alone W (frameOf tl) n) ∧
      b.length ≤ 1 ∧
      (tickTL W (ticks W n { tl with tracks := ts1 ++ ts2 })).calls = o1 ++ o2 ++ (e1 ++ e2) ∧
      (tickTL W (ticks W n { tl with tracks := ts1 ++ bad :: ts2 })).calls = o1 ++ ob ++ o2 ++ (e1 ++ eb ++ e2) ∧
      (tickTL W (ticks W n { tl with tracks := ts1 ++ bad :: ts2 })).res = .ok := by
  obtain ⟨h1, h2, h3, h4⟩ := C07.fault_isolated_run W hW hP tl ts1 ts2 bad hnd htol hs n
  obtain ⟨_, _, hres⟩ := run_is_merge W hW hP { tl with tracks := ts1 ++ bad :: ts2 } hnd (Or.inl htol) hs n
  refine ⟨_, _, _, _, _, _, (alone W (frameOf tl) n bad).toList, h2, h1, ?_, h4, h3, hres⟩
  cases alone W (frameOf tl) n bad <;> simp

theorem Frame.after_now (f : Frame) (n : Nat) : (f.after n).now = f.now + n := by
  induction n with
  | zero => rfl
  | succ m ih => simp only [Frame.after, Frame.next, ih]; omega

/-- **The timeline keeps ticking and its time advances by one tick per tick, for the whole run**: in tolerant mode,
    whatever tracks fail and whenever, after `n` ticks the timeline's time is `n` ticks later and every one of the
    `n` ticks returned normally. -/
theorem time_advances_over_the_run (W : World) (hW : NoActions W) (hP : PosDur W) (tl : TL)
    (hnd : (tl.tracks.map Track.id).Nodup) (htol : tl.tolerant = true) (hs : tl.stopWhenDone = false) (n : Nat) :
    (ticks W n tl).now = tl.now + n ∧ ∀ k, k < n → (tickTL W (ticks W k tl)).res = .ok := by
  constructor
  · obtain ⟨h1, _, _⟩ := run_is_merge W hW hP tl hnd (Or.inl htol) hs n
    rw [h1]
    show ((frameOf tl).after n).now = tl.now + n
    rw [Frame.after_now]; rfl
  · intro k _
    exact (run_is_merge W hW hP tl hnd (Or.inl htol) hs k).2.2

end IsobarV.C17
