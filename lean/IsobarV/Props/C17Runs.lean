/-
C17 over whole runs: "every other track's output is identical to a run without the failing track", for
any number of ticks (the one-tick form is `C17.fault_isolated`).
-/
import IsobarV.Props.C17
import IsobarV.Props.C07Runs

namespace IsobarV.C17
open IsobarV.Sched IsobarV.C07

/-- In tolerant mode, with a track `bad` that may fail at any time scheduled anywhere among the tracks
    `ts1 ++ ts2`: after any number `n` of ticks
    * the other tracks are exactly the tracks of the run without `bad` (same states, same order), `bad`
      itself being present or already removed;
    * the calls of the next tick are, in each of the two phases, the calls of the run without `bad` with
      `bad`'s own calls inserted at its place — nothing any other track sends is lost, changed or moved
      relative to the other tracks;
    * and the tick returns normally (time goes on). -/
theorem fault_isolated_run (W : World) (hW : NoActions W) (hP : PosDur W) (tl : TL) (ts1 ts2 : List Track) (bad : Track)
    (hnd : ((ts1 ++ bad :: ts2).map Track.id).Nodup) (htol : tl.tolerant = true) (hs : tl.stopWhenDone = false) (n : Nat) :
    ∃ (o1 o2 e1 e2 ob eb : List Call) (b : List Track),
      (ticks W n { tl with tracks := ts1 ++ ts2 }).tracks = ts1.filterMap (alone W (frameOf tl) n) ++ ts2.filterMap (alone W (frameOf tl) n) ∧
      (ticks W n { tl with tracks := ts1 ++ bad :: ts2 }).tracks =
        ts1.filterMap (alone W (frameOf tl) n) ++ b ++ ts2.filterMap (alone W (frameOf tl) n) ∧
      b.length ≤ 1 ∧
      (tickTL W (ticks W n { tl with tracks := ts1 ++ ts2 })).calls = o1 ++ o2 ++ (e1 ++ e2) ∧
      (tickTL W (ticks W n { tl with tracks := ts1 ++ bad :: ts2 })).calls = o1 ++ ob ++ o2 ++ (e1 ++ eb ++ e2) ∧
      (tickTL W (ticks W n { tl with tracks := ts1 ++ bad :: ts2 })).res = .ok := by
  obtain ⟨h1, h2, h3, h4⟩ := C07.fault_isolated_run W hW hP tl ts1 ts2 bad hnd htol hs n
  obtain ⟨_, _, hres⟩ := run_is_merge W hW hP { tl with tracks := ts1 ++ bad :: ts2 } hnd (Or.inl htol) hs n
  refine ⟨_, _, _, _, _, _, (alone W (frameOf tl) n bad).toList, h2, h1, ?_, h4, h3, hres⟩
  cases alone W (frameOf tl) n bad <;> simp

theorem Frame.after_now (f : Frame) (n : Nat) : (f.after n).now = f.now + n := by
  induction n with
  | zero => rfl
  | succ m ih => simp only [Frame.after, Frame.next, ih]; omega

/-- **The timeline keeps ticking and its time advances by one tick per tick, for the whole run**: in tolerant mode,
    whatever tracks fail and whenever, after `n` ticks the timeline's time is `n` ticks later and every one of the
    `n` ticks returned normally. -/
theorem time_advances_over_the_run (W : World) (hW : NoActions W) (hP : PosDur W) (tl : TL)
    (hnd : (tl.tracks.map Track.id).Nodup) (htol : tl.tolerant = true) (hs : tl.stopWhenDone = false) (n : Nat) :
    (ticks W n tl).now = tl.now + n ∧ ∀ k, k < n → (tickTL W (ticks W k tl)).res = .ok := by
  constructor
  · obtain ⟨h1, _, _⟩ := run_is_merge W hW hP tl hnd (Or.inl htol) hs n
    rw [h1]
    show ((frameOf tl).after n).now = tl.now + n
    rw [Frame.after_now]; rfl
  · intro k _
    exact (run_is_merge W hW hP tl hnd (Or.inl htol) hs k).2.2

/-! ### The name of a removed track is free again

"removes that track only … identical to a run without the failing track" also for what follows: a track that failed
under tolerance is gone from the list of tracks, and `schedule(..., name=…)` looks names up in that list only — so the
corrected track scheduled under the same name (the live-coding "fix the cell and re-evaluate" step) is a NEW track,
appended and played like any other, exactly as in a run in which the failing track never existed. -/

/-- no track in the list carries the name: the lookup of `Timeline.schedule` finds nothing -/
theorem find_name_none (ts : List Track) (nm : Nat) (h : ∀ t ∈ ts, t.name ≠ some nm) :
    ts.find? (fun t => t.name == some nm) = none := by
  rw [List.find?_eq_none]
  intro t ht
  simpa using h t ht

/-- **Scheduling under a name no scheduled track carries creates a new track** (appended, with the next id), whether
    `replace` is set or not — the timeline keeps no memory of names of tracks that left it. -/
theorem schedule_under_free_name_adds (tl : TL) (sid : Nat) (qz dl count : Option Nat) (rwd : Bool) (nm : Nat) (replace : Bool)
    (hfree : ∀ t ∈ tl.tracks, t.name ≠ some nm) (hroom : tl.maxTracks = 0 ∨ tl.tracks.length < tl.maxTracks) :
    (applyOp tl (.schedule sid qz dl count rwd (some nm) replace)).res = .ok ∧
    (applyOp tl (.schedule sid qz dl count rwd (some nm) replace)).tl.tracks =
      tl.tracks ++ [(updateCore tl (newTrack tl.nextId (some nm) (count.getD 0) rwd) sid qz dl none).t] := by
  have hno : ¬ (tl.maxTracks ≠ 0 ∧ tl.maxTracks ≤ tl.tracks.length) := by
    rintro ⟨h1, h2⟩; rcases hroom with h | h <;> omega
  simp only [applyOp, find_name_none tl.tracks nm hfree]
  cases replace <;> simp [hno]

/-- … and what it plays does not depend on who carried the name before: the new track is built from the call's
    arguments, the timeline's time and its id counter alone (same statement for the run without the failing track). -/
theorem schedule_under_free_name_independent (tl tl' : TL) (sid : Nat) (qz dl count : Option Nat) (rwd : Bool) (nm : Nat)
    (replace : Bool) (hfree : ∀ t ∈ tl.tracks, t.name ≠ some nm) (hfree' : ∀ t ∈ tl'.tracks, t.name ≠ some nm)
    (hroom : tl.maxTracks = 0 ∨ tl.tracks.length < tl.maxTracks) (hroom' : tl'.maxTracks = 0 ∨ tl'.tracks.length < tl'.maxTracks)
    (hcore : updateCore tl (newTrack tl.nextId (some nm) (count.getD 0) rwd) sid qz dl none =
             updateCore tl' (newTrack tl'.nextId (some nm) (count.getD 0) rwd) sid qz dl none) :
    (applyOp tl (.schedule sid qz dl count rwd (some nm) replace)).tl.tracks.getLast? =
    (applyOp tl' (.schedule sid qz dl count rwd (some nm) replace)).tl.tracks.getLast? := by
  rw [(schedule_under_free_name_adds tl sid qz dl count rwd nm replace hfree hroom).2,
      (schedule_under_free_name_adds tl' sid qz dl count rwd nm replace hfree' hroom').2, hcore]
  simp

/-- the premises are satisfiable: an empty timeline, and one whose only track carries another name -/
example := schedule_under_free_name_adds { q := 1, tracks := [] } 0 none none none true 3 true (by simp) (Or.inl rfl)
example := schedule_under_free_name_adds { q := 1, tracks := [{ (newTrack 0 (some 2) 0 true) with started := true }], nextId := 1 }
  0 none none none true 3 true (by simp [newTrack]) (Or.inl rfl)

end IsobarV.C17
