/-
C18 — Automations reach their target on time; LFOs stay in range and periodic.

  "An automation asked to move to, or by, a value over a duration arrives exactly at the target after
   ceil(duration / tick) ticks for every envelope fraction from 0 to 1 (on the next tick for zero duration),
   moves monotonically toward it and then stays put; its reported value is clipped or wrapped into the
   declared range and every bound attribute or method receives each new value.  A sine LFO's value stays
   within [min, max], repeats with period 1 / frequency beats, and reads as a pattern with that same value."

All theorems are about the model `IsobarV/Auto/Model.lean` (exact rationals), for every start value, target,
duration, envelope fraction, ticks-per-beat, range and history: no bound on sizes or on the number of ticks.
The auxiliary notions `Automation.WF` (every running modulation is in a state the code can reach),
`Automation.goal` (current value + what the running modulations still add), `Automation.Within k` (every
running modulation finishes within k ticks) and `World.InSync` are defined in `IsobarV/Auto/Lemmas.lean`.
-/
import IsobarV.Auto.Lemmas

namespace IsobarV.C18
open IsobarV.Auto

/-! ## The envelope -/

/-- Every entry of the normalised envelope is non-negative (for every envelope length `e ≤ T`, i.e. every
    envelope fraction in [0, 1]). -/
theorem envelope_nonneg (T e : Nat) (he : e ≤ T) : ∀ x ∈ envelope T e, 0 ≤ x :=
  envelope_nonneg' T e he

example : envelope 6 3 = [0, 1, 2, 2, 1, 0] := by decide +kernel
example : envelope 5 0 = [1, 1, 1, 1, 1] := by decide +kernel
example : envelope 1 0 = [1] ∧ envelope 1 1 = [1] ∧ envelope 2 1 = [0, 2] := by decide +kernel

/-- The envelope has one entry per tick and sums to the number of ticks ("normalised to mean 1"): this is
    what makes the move arrive exactly.  Needs the sum before normalisation to be positive, which holds
    because the ramp-out starts with a 1. -/
theorem envelope_sum (T e : Nat) (he : e ≤ T) :
    (envelope T e).length = T ∧ sumRat (envelope T e) = (T : Rat) :=
  ⟨envelope_length T e, envelope_sum' T e he⟩

example : sumRat (envelope 7 7) = 7 ∧ sumRat (envelope 7 2) = 7 := by decide +kernel

/-! ## Tick counts -/

/-- A duration of exactly `k` ticks (`k / tpb` beats) is `k` ticks — not `k + 1` (fix 02). -/
theorem duration_ticks_on_grid (tpb k : Nat) (h : 0 < tpb) :
    durationTicksInt tpb ((k : Rat) / (tpb : Rat)) = (k : Int) := by
  unfold durationTicksInt
  have : (tpb : Rat) ≠ 0 := by exact_mod_cast (Nat.pos_iff_ne_zero.mp h)
  have e : (k : Rat) / (tpb : Rat) * (tpb : Rat) = ((k : Int) : Rat) := by
    field_simp; simp
  rw [e, Rat.ceil_intCast]

example : durationTicksInt 24 (5 / 24) = 5 := by decide +kernel

/-- `duration_ticks` is `⌈duration / tick_duration⌉` with `tick_duration = 1 / tpb`: the least whole number
    of ticks that covers the duration. -/
theorem duration_ticks_is_ceil (tpb : Nat) (dur : Rat) :
    dur / (1 / (tpb : Rat)) ≤ ((durationTicksInt tpb dur : Int) : Rat) ∧
    ((durationTicksInt tpb dur : Int) : Rat) < dur / (1 / (tpb : Rat)) + 1 := by
  unfold durationTicksInt
  have e : dur / (1 / (tpb : Rat)) = dur * (tpb : Rat) := by simp
  rw [e]
  exact ⟨Rat.le_ceil, Rat.ceil_lt⟩

example : durationTicksInt 24 (3 / 10) = 8 := by decide +kernel

/-! ## Arrival -/

/-- Inside the property's domain (duration ≥ 0, envelope fraction in [0, 1]) neither `move_to` nor `move_by`
    raises — in particular not for envelope fraction 0, 1-tick moves, or `envelope · D < 1` (fix 01). -/
theorem move_never_raises (a : Automation) (tpb : Nat) (v : Rat) (dur : Option Rat) (env : Rat)
    (hd : 0 ≤ dur.getD a.defaultDuration) (he0 : 0 ≤ env) (he1 : env ≤ 1) :
    (a.moveTo tpb v dur env).raised = false ∧ (a.moveBy tpb v dur env).raised = false :=
  ⟨Automation.moveBy_ok { a with mods := [] } tpb _ dur env hd he0 he1,
   Automation.moveBy_ok a tpb v dur env hd he0 he1⟩

example : ((Automation.new none .clip (some 0) 0).moveTo 24 1 (some (1 / 24)) (1 / 2)).raised = false := by
  decide +kernel

/-- `move_to(target, duration, envelope)`: after `max 1 ⌈duration / tick⌉` ticks — and after any larger number
    of ticks — the value is exactly the target and no modulation is left running.  For every start state
    (running modulations are discarded by `move_to`), every target, every duration ≥ 0 (explicit or the
    default), every envelope fraction in [0, 1], every ticks-per-beat. -/
theorem arrives_exactly (a : Automation) (tpb : Nat) (target : Rat) (dur : Option Rat) (env : Rat)
    (hd : 0 ≤ dur.getD a.defaultDuration) (he0 : 0 ≤ env) (he1 : env ≤ 1) :
    (a.moveTo tpb target dur env).raised = false ∧
    ∀ n, max 1 (durationTicksInt tpb (dur.getD a.defaultDuration)).toNat ≤ n →
      (Automation.tickN n (a.moveTo tpb target dur env).auto).auto.current = target ∧
      (Automation.tickN n (a.moveTo tpb target dur env).auto).auto.mods = [] := by
  have hr := Automation.moveBy_ok { a with mods := [] } tpb (target - a.current) dur env hd he0 he1
  obtain ⟨_, _, _, _, s5, s6, s7, _⟩ :=
    Automation.moveBy_spec { a with mods := [] } tpb (target - a.current) dur env hr
  have hwf0 : ({ a with mods := [] } : Automation).WF := fun m hm => by simp at hm
  have hw0 : ∀ k, ({ a with mods := [] } : Automation).Within k := fun k m hm => by simp at hm
  refine ⟨hr, ?_⟩
  intro n hn
  have := Automation.tickN_arrives _ (s5 hwf0) _ (s7 _ (hw0 _) (le_refl _)) n hn
  have hg : ({ a with mods := [] } : Automation).goal + (target - a.current) = target := by
    simp [Automation.goal, pending]
  rw [s6, hg] at this
  exact this

example : (Automation.tickN 5 ((Automation.new none .clip (some 0) 0).moveTo 24 1 (some (5 / 24)) 0).auto).auto.current = 1 :=
  ((arrives_exactly (Automation.new none .clip (some 0) 0) 24 1 (some (5 / 24)) 0
    (by decide +kernel) (by decide +kernel) (by decide +kernel)).2 5 (by decide +kernel)).1

-- zero duration: on the next tick
example : (Automation.tickN 1 ((Automation.new none .clip (some 3) 0).moveTo 480 (-2) none (1 / 2)).auto).auto.current = -2 :=
  ((arrives_exactly (Automation.new none .clip (some 3) 0) 480 (-2) none (1 / 2)
    (by decide +kernel) (by decide +kernel) (by decide +kernel)).2 1 (by decide +kernel)).1

/-- `move_by(value, duration, envelope)` on an idle automation: after `max 1 ⌈duration / tick⌉` ticks (and
    ever after) the value is exactly `start + value`. -/
theorem move_by_arrives_exactly (a : Automation) (hidle : a.mods = []) (tpb : Nat) (value : Rat)
    (dur : Option Rat) (env : Rat)
    (hd : 0 ≤ dur.getD a.defaultDuration) (he0 : 0 ≤ env) (he1 : env ≤ 1) :
    (a.moveBy tpb value dur env).raised = false ∧
    ∀ n, max 1 (durationTicksInt tpb (dur.getD a.defaultDuration)).toNat ≤ n →
      (Automation.tickN n (a.moveBy tpb value dur env).auto).auto.current = a.current + value ∧
      (Automation.tickN n (a.moveBy tpb value dur env).auto).auto.mods = [] := by
  have hr := Automation.moveBy_ok a tpb value dur env hd he0 he1
  obtain ⟨_, _, _, _, s5, s6, s7, _⟩ := Automation.moveBy_spec a tpb value dur env hr
  have hwf0 : a.WF := fun m hm => by simp [hidle] at hm
  have hw0 : ∀ k, a.Within k := fun k m hm => by simp [hidle] at hm
  refine ⟨hr, ?_⟩
  intro n hn
  have := Automation.tickN_arrives _ (s5 hwf0) _ (s7 _ (hw0 _) (le_refl _)) n hn
  have hg : a.goal = a.current := by simp [Automation.goal, hidle, pending]
  rw [s6, hg] at this
  exact this

example : (Automation.tickN 7 ((Automation.new none .clip (some 10) 0).moveBy 10 (-4) (some (7 / 10)) 1).auto).auto.current = 6 := by
  have := ((move_by_arrives_exactly (Automation.new none .clip (some 10) 0) rfl 10 (-4) (some (7 / 10)) 1
    (by decide +kernel) (by decide +kernel) (by decide +kernel)).2 7 (by decide +kernel)).1
  rw [this]; decide +kernel

/-- Every state reachable from a state whose modulations are well-formed (in particular from a fresh
    automation, which has none) by any history of bind / move_to / move_by / jump_to / tick — with arbitrary
    arguments, including ones that make the call raise — is well-formed again. -/
theorem reachable_wf (ops : List Op) (W : World) (h : W.auto.WF) : (W.run ops).auto.WF := by
  induction ops generalizing W with
  | nil => exact h
  | cons o os ih =>
    apply ih
    cases o with
    | bind s => exact h
    | moveTo tpb t d e =>
      simp only [World.step, Automation.moveTo]
      have hwf0 : ({ W.auto with mods := [] } : Automation).WF := fun m hm => by simp at hm
      cases hr : ({ W.auto with mods := [] } : Automation).moveBy tpb (t - W.auto.current) d e |>.raised with
      | false => exact (Automation.moveBy_spec _ tpb _ d e hr).2.2.2.2.1 hwf0
      | true => rw [Automation.moveBy_raised _ tpb _ d e hr]; exact hwf0
    | moveBy tpb v d e =>
      simp only [World.step]
      cases hr : (W.auto.moveBy tpb v d e).raised with
      | false => exact (Automation.moveBy_spec _ tpb _ d e hr).2.2.2.2.1 h
      | true => rw [Automation.moveBy_raised _ tpb _ d e hr]; exact h
    | jump v => exact h
    | tick => exact (Automation.tick_spec W.auto h).1

example : (World.run ⟨Automation.new none .clip none 0, Sinks.empty⟩
    [.moveBy 4 1 (some 2) (1 / 2), .tick, .moveBy 4 1 (some 1) 0, .tick]).auto.mods.length = 2 := by
  decide +kernel

/-- Concurrent moves superpose exactly.  For an automation in any reachable state whose running modulations
    all finish within `k` ticks and which is heading for `goal` (= current value + what those modulations
    still add): a further `move_by(value, …)` makes it arrive exactly at `goal + value` after
    `max k (max 1 ⌈duration / tick⌉)` ticks, and it stays there. -/
theorem concurrent_moves_arrive_exactly (a : Automation) (hwf : a.WF) (k : Nat) (hk : a.Within k)
    (tpb : Nat) (value : Rat) (dur : Option Rat) (env : Rat)
    (hd : 0 ≤ dur.getD a.defaultDuration) (he0 : 0 ≤ env) (he1 : env ≤ 1) :
    (a.moveBy tpb value dur env).raised = false ∧
    ∀ n, max k (max 1 (durationTicksInt tpb (dur.getD a.defaultDuration)).toNat) ≤ n →
      (Automation.tickN n (a.moveBy tpb value dur env).auto).auto.current = a.goal + value ∧
      (Automation.tickN n (a.moveBy tpb value dur env).auto).auto.mods = [] := by
  have hr := Automation.moveBy_ok a tpb value dur env hd he0 he1
  obtain ⟨_, _, _, _, s5, s6, s7, _⟩ := Automation.moveBy_spec a tpb value dur env hr
  refine ⟨hr, ?_⟩
  intro n hn
  have hw := s7 (max k (max 1 (durationTicksInt tpb (dur.getD a.defaultDuration)).toNat))
    (hk.mono (le_max_left _ _)) (le_max_right _ _)
  have := Automation.tickN_arrives _ (s5 hwf) _ hw n hn
  rw [s6] at this
  exact this

-- +1 over 8 ticks and, two ticks later, -3 over 2 ticks: exactly 0 + 1 - 3 at the end
example : (World.run ⟨Automation.new none .clip (some 0) 0, Sinks.empty⟩
    [.moveBy 4 1 (some 2) (1 / 2), .tick, .tick, .moveBy 4 (-3) (some (1 / 2)) 0,
     .tick, .tick, .tick, .tick, .tick, .tick]).auto.current = -2 := by
  decide +kernel

/-! ## Monotone approach, then rest -/

/-- After `move_to`, on every tick the value moves toward the target (weakly: envelope entries may be 0) and
    never passes it. -/
theorem monotone_toward_target (a : Automation) (tpb : Nat) (target : Rat) (dur : Option Rat) (env : Rat)
    (hd : 0 ≤ dur.getD a.defaultDuration) (he0 : 0 ≤ env) (he1 : env ≤ 1) (n : Nat) :
    (a.current ≤ target →
      (Automation.tickN n (a.moveTo tpb target dur env).auto).auto.current ≤
        (Automation.tickN (n + 1) (a.moveTo tpb target dur env).auto).auto.current ∧
      (Automation.tickN (n + 1) (a.moveTo tpb target dur env).auto).auto.current ≤ target) ∧
    (target ≤ a.current →
      (Automation.tickN (n + 1) (a.moveTo tpb target dur env).auto).auto.current ≤
        (Automation.tickN n (a.moveTo tpb target dur env).auto).auto.current ∧
      target ≤ (Automation.tickN (n + 1) (a.moveTo tpb target dur env).auto).auto.current) := by
  have hr := Automation.moveBy_ok { a with mods := [] } tpb (target - a.current) dur env hd he0 he1
  obtain ⟨_, _, _, _, s5, s6, _, s8⟩ :=
    Automation.moveBy_spec { a with mods := [] } tpb (target - a.current) dur env hr
  have hwf0 : ({ a with mods := [] } : Automation).WF := fun m hm => by simp at hm
  have hd0 : ∀ s, ({ a with mods := [] } : Automation).Dir s := fun s m hm => by simp at hm
  have hg : ({ a with mods := [] } : Automation).goal + (target - a.current) = target := by
    simp [Automation.goal, pending]
  rw [hg] at s6
  constructor
  · intro hle
    have hdir := s8 1 (hd0 1) (by linarith)
    obtain ⟨m1, m2⟩ := Automation.monotone_step _ (s5 hwf0) 1 hdir n
    rw [s6] at m2
    simp only [Automation.moveTo]
    constructor <;> linarith
  · intro hle
    have hdir := s8 (-1) (hd0 (-1)) (by linarith)
    obtain ⟨m1, m2⟩ := Automation.monotone_step _ (s5 hwf0) (-1) hdir n
    rw [s6] at m2
    simp only [Automation.moveTo]
    constructor <;> linarith

example : (List.range 7).map (fun n => (Automation.tickN n
    ((Automation.new none .clip (some 0) 0).moveTo 24 1 (some (1 / 4)) (1 / 2)).auto).auto.current)
    = [0, 0, 1 / 6, 1 / 2, 5 / 6, 1, 1] := by decide +kernel

/-- An automation with no running modulation stays put: any number of further ticks leaves the value
    unchanged, starts nothing and sends nothing to the bound objects.  (With `arrives_exactly`: from the
    arrival tick on, the value is the target for ever.) -/
theorem stays_put (a : Automation) (hidle : a.mods = []) (n : Nat) :
    (Automation.tickN n a).auto.current = a.current ∧ (Automation.tickN n a).auto.value = a.value ∧
    (Automation.tickN n a).auto.mods = [] ∧ (Automation.tickN n a).events = [] := by
  rw [Automation.tickN_idle n a hidle]
  exact ⟨rfl, Automation.value_congr rfl rfl rfl, hidle, rfl⟩

example : (Automation.tickN 100 (Automation.new none .clip (some 3) 0)).auto.current = 3 :=
  (stays_put _ rfl 100).1

/-! ## The reported value -/

/-- With boundaries "clip" the reported value lies in the declared range. -/
theorem value_clipped (a : Automation) (r : Range) (hr : a.range = some r) (hb : a.boundaries = .clip)
    (h : r.lo ≤ r.hi) : r.lo ≤ a.value ∧ a.value ≤ r.hi := by
  simp only [Automation.value, hr, hb]
  exact clip_bounds r.lo r.hi a.current h

example : ({ range := some ⟨0, 1⟩, current := 5 / 2 } : Automation).value = 1 := by decide +kernel

/-- With boundaries "wrap" the reported value lies in `[lo, hi)` and differs from the underlying value by a
    whole number of range widths (fix 03: the unpatched formula `lo + current % (hi - lo)` does not have the
    second property unless `lo` is a multiple of the width). -/
theorem value_wrapped (a : Automation) (r : Range) (hr : a.range = some r) (hb : a.boundaries = .wrap)
    (h : r.lo < r.hi) :
    r.lo ≤ a.value ∧ a.value < r.hi ∧ ∃ k : Int, a.value = a.current - (k : Rat) * (r.hi - r.lo) := by
  simp only [Automation.value, hr, hb]
  obtain ⟨h1, h2⟩ := pmod_bounds (a.current - r.lo) (r.hi - r.lo) (by linarith)
  refine ⟨by linarith, by linarith, ⟨((a.current - r.lo) / (r.hi - r.lo)).floor, ?_⟩⟩
  unfold pmod; ring

example : ({ range := some ⟨-1, 1⟩, boundaries := .wrap, current := 0 } : Automation).value = 0 ∧
    ({ range := some ⟨-1, 1⟩, boundaries := .wrap, current := 5 / 2 } : Automation).value = 1 / 2 ∧
    ({ range := some ⟨1, 3⟩, boundaries := .wrap, current := -1 / 2 } : Automation).value = 3 / 2 := by
  decide +kernel

/-- A value inside the declared range is reported unchanged (clip: `lo ≤ v ≤ hi`; wrap: `lo ≤ v < hi`);
    without a range the value is always reported unchanged. -/
theorem value_in_range_is_current (a : Automation) :
    (a.range = none → a.value = a.current) ∧
    (∀ r, a.range = some r → a.boundaries = .clip → r.lo ≤ a.current → a.current ≤ r.hi → a.value = a.current) ∧
    (∀ r, a.range = some r → a.boundaries = .wrap → r.lo ≤ a.current → a.current < r.hi → a.value = a.current) := by
  refine ⟨?_, ?_, ?_⟩
  · intro h; simp [Automation.value, h]
  · intro r hr hb h1 h2
    simp only [Automation.value, hr, hb]
    exact clip_id r.lo r.hi a.current h1 h2
  · intro r hr hb h1 h2
    simp only [Automation.value, hr, hb]
    rw [pmod_id (a.current - r.lo) (r.hi - r.lo) (by linarith) (by linarith)]; ring

example : ({ range := some ⟨1, 3⟩, boundaries := .wrap, current := 3 / 2 } : Automation).value = 3 / 2 := by
  decide +kernel

/-! ## Bound objects -/

/-- On every tick: if the value changed, every bound sink receives — once, in binding order — the new reported
    value; if it did not change nothing is sent.  `jump_to` sends the new reported value to every binding,
    `bind_to` initialises the new sink with the current reported value. -/
theorem bindings_receive_every_value (a : Automation) :
    ((a.tick).auto.current ≠ a.current →
        (a.tick).events = a.bindings.map (fun s => (⟨s, (a.tick).auto.value⟩ : Event))) ∧
    ((a.tick).auto.current = a.current → (a.tick).events = []) ∧
    (a.tick).auto.bindings = a.bindings ∧
    (∀ v, (a.jumpTo v).events = a.bindings.map (fun s => (⟨s, (a.jumpTo v).auto.value⟩ : Event))) ∧
    (∀ s, (a.bindTo s).events = [⟨s, a.value⟩] ∧ (a.bindTo s).auto.bindings = a.bindings ++ [s]) := by
  refine ⟨?_, ?_, (Automation.tick_frame a).1, ?_, ?_⟩
  · intro h; rw [Automation.tick_events, if_pos h]
  · intro h; rw [Automation.tick_events, if_neg (by simpa using h)]
  · intro v; rfl
  · intro s
    exact ⟨by simp only [Automation.bindTo]; congr 2, rfl⟩

example : (({ bindings := [7, 9], current := 0 } : Automation).moveTo 4 1 (some (1 / 2)) 0).auto.tick.events
    = [⟨7, 1 / 2⟩, ⟨9, 1 / 2⟩] := by decide +kernel

/-- For every history of bind / move_to / move_by / jump_to / tick on an automation (arbitrary arguments), each
    bound sink holds exactly the automation's reported value after every operation. -/
theorem bindings_in_sync (ops : List Op) (W : World) (h : W.InSync) : (W.run ops).InSync :=
  World.run_inSync ops W h

example :
    let W := World.run ⟨Automation.new (some ⟨0, 1⟩) .clip (some 0) 0, Sinks.empty⟩
      [.bind 3, .moveTo 4 2 (some 1) (1 / 2), .tick, .tick, .bind 5, .tick, .tick, .tick]
    W.auto.bindings = [3, 5] ∧ W.sinks 3 = some 1 ∧ W.sinks 5 = some 1 ∧ W.auto.current = 2 := by
  decide +kernel

example : (⟨Automation.new none .clip none 0, Sinks.empty⟩ : World).InSync := fun s hs => by
  simp [Automation.new] at hs

/-! ## LFO -/

/-- After every tick the LFO's value lies in `[min, max]`, for every waveform bounded by 1 in absolute value
    (the code's `sin`), every frequency, tick rate and read time. -/
theorem lfo_in_range (w : Rat → Rat) (hw : ∀ x, -1 ≤ w x ∧ w x ≤ 1) (tpb : Nat) (l : LFO)
    (hs : l.started = true) (hm : l.min ≤ l.max) (n : Nat) :
    l.min ≤ (LFO.tickN w tpb (n + 1) l).value ∧ (LFO.tickN w tpb (n + 1) l).value ≤ l.max := by
  rw [LFO.tickN_value w tpb n l hs]
  exact scale_unit_bounds _ _ _ (hw _).1 (hw _).2 hm

/-- The LFO repeats: if `P` ticks are a whole number `k` of periods (`P · tick · frequency = k`, e.g.
    `P = tpb / frequency` ticks = `1 / frequency` beats), the value after `n + P` ticks equals the value after
    `n` ticks, for every waveform of period 1 (the code's `sin (2π ·)`). -/
theorem lfo_periodic (w : Rat → Rat) (hw : ∀ x, w (x + 1) = w x) (tpb : Nat) (l : LFO)
    (hs : l.started = true) (P k : Nat) (hP : (P : Rat) * (1 / (tpb : Rat)) * l.freq = (k : Rat)) (n : Nat) :
    (LFO.tickN w tpb (n + 1 + P) l).value = (LFO.tickN w tpb (n + 1) l).value := by
  have e : n + 1 + P = (n + P) + 1 := by omega
  rw [e, LFO.tickN_value w tpb (n + P) l hs, LFO.tickN_value w tpb n l hs]
  have : (l.time + ((n + P + 1 : Nat) : Rat) * (1 / (tpb : Rat))) * l.freq =
      (l.time + ((n + 1 : Nat) : Rat) * (1 / (tpb : Rat))) * l.freq + (k : Rat) := by
    rw [← hP]; push_cast; ring
  rw [this, periodic_add_nat w hw]

/-- Every bound attribute receives the LFO's new value on every tick. -/
theorem lfo_bindings_receive_value (w : Rat → Rat) (tpb : Nat) (l : LFO) (hs : l.started = true) :
    (l.tick w tpb).events = l.bindings.map (fun s => (⟨s, (l.tick w tpb).lfo.value⟩ : Event)) := by
  simp [LFO.tick, hs, LFO.value]

/-- Reading the LFO as a pattern (`PLFO.__next__`) yields the LFO's current value. -/
theorem plfo_reads_value (l : LFO) : plfoNext l = l.value := rfl

-- non-vacuity: `squareWave` (IsobarV/Auto/Lemmas.lean) is a concrete waveform satisfying both hypotheses
example : ((List.range 9).map (fun n => (LFO.tickN squareWave 4 n { freq := 1, min := 2, max := 5 }).value))
    = [0, 5, 2, 2, 5, 5, 2, 2, 5] := by decide +kernel

example (n : Nat) : 2 ≤ (LFO.tickN squareWave 4 (n + 1) { freq := 1, min := 2, max := 5 }).value :=
  (lfo_in_range squareWave squareWave_bounded 4 { freq := 1, min := 2, max := 5 } rfl (by decide +kernel) n).1

example (n : Nat) : (LFO.tickN squareWave 4 (n + 1 + 4) { freq := 1, min := 2, max := 5 }).value
    = (LFO.tickN squareWave 4 (n + 1) { freq := 1, min := 2, max := 5 }).value :=
  lfo_periodic squareWave squareWave_periodic 4 { freq := 1, min := 2, max := 5 } rfl 4 1 (by norm_num) n

example : (({ freq := 1, bindings := [2, 4] } : LFO).tick squareWave 4).events = [⟨2, 1⟩, ⟨4, 1⟩] := by
  decide +kernel

end IsobarV.C18
