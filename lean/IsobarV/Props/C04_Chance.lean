/-
C04 for the stochastic classes (`isobar/pattern/chance.py`, `markov.py`): every class is reset-correct —
one step never changes what `reset()` makes of the object (kids, own counters; the generator is re-seeded
= the tape cursor rewound) — so `reset_rewinds` / `all_rewinds` apply to every tree built from core and
stochastic classes, at any depth.
-/
import IsobarV.Props.C04
import IsobarV.Pat.Cls.Chance

namespace IsobarV.C04
open IsobarV.Pat

/-- A draw changes nothing but the tape cursor. -/
theorem drawU_st {s s' : St} {o : Option Rat} (h : s.drawU = (o, s')) : { s' with cur := 0 } = { s with cur := 0 } := by
  unfold St.drawU at h
  split at h <;> (cases h; rfl)

theorem drawB_st {s s' : St} {n : Nat} {o : Option Nat} (h : s.drawB n = (o, s')) : { s' with cur := 0 } = { s with cur := 0 } := by
  unfold St.drawB at h
  split at h
  · split at h <;> (cases h; rfl)
  · cases h; rfl

/-- Two states that differ at most in the tape cursor. -/
def EqCur (a b : St) : Prop := { a with cur := 0 } = { b with cur := 0 }

theorem EqCur.refl (a : St) : EqCur a a := rfl
theorem EqCur.trans {a b c : St} (h1 : EqCur a b) (h2 : EqCur b c) : EqCur a c := Eq.trans h1 h2
theorem EqCur.fields {a b : St} (h : EqCur a b) :
    a.n0 = b.n0 ∧ a.n1 = b.n1 ∧ a.n2 = b.n2 ∧ a.n3 = b.n3 ∧ a.n4 = b.n4 ∧ a.n5 = b.n5 ∧ a.v0 = b.v0 ∧ a.v1 = b.v1 ∧
    a.v2 = b.v2 ∧ a.buf = b.buf ∧ a.buf2 = b.buf2 ∧ a.tape = b.tape := by
  unfold EqCur at h
  injection h with h0 h1 h2 h3 h4 h5 h6 h7 h8 h9 h10 h11 h12
  exact ⟨h0, h1, h2, h3, h4, h5, h6, h7, h8, h9, h10, h11⟩

/-- Resolving pattern-valued attributes keeps the kids inside `P` and invisible to `reset`. -/
theorem resolve_ok {P : Pat → Prop} {rec : Rec} (hrec : RecOK P rec) (idx : List Nat) (kids : List Pat)
    (hk : ∀ k ∈ kids, P k) :
    (∀ k ∈ (resolve rec idx kids).kids, P k) ∧ (resolve rec idx kids).kids.map reset = kids.map reset := by
  induction idx generalizing kids with
  | nil => exact ⟨hk, rfl⟩
  | cons i is ih =>
    obtain ⟨h1, h2⟩ := stepKid_ok hrec kids i hk
    simp only [resolve]
    split
    · obtain ⟨i1, i2⟩ := ih _ h1
      exact ⟨i1, i2.trans h2⟩
    · exact ⟨h1, h2⟩

/-- A class of the form `stepPure idx core` is reset-correct as soon as `core` does not change what the
    class's own reset makes of the state. -/
theorem pure_ok (c : Cls) (idx : List Nat) (core : List Val → St → Out × St) (hc : clsStep c = stepPure idx core)
    (hr : ∀ vals st, clsReset c (core vals st).2 = clsReset c st) : ClsResetOK c := by
  intro P rec kids st hrec hk
  obtain ⟨h1, h2⟩ := resolve_ok hrec idx kids hk
  rw [hc]
  simp only [stepPure]
  split
  · exact ⟨h1, h2, rfl⟩
  · exact ⟨h1, h2, hr _ _⟩

theorem drawU_cases {s s' : St} {o : Option Rat} (h : s.drawU = (o, s')) : s' = s ∨ s' = { s with cur := s.cur + 1 } := by
  unfold St.drawU at h
  split at h <;> (cases h; simp)

theorem drawB_cases {s s' : St} {n : Nat} {o : Option Nat} (h : s.drawB n = (o, s')) :
    s' = s ∨ s' = { s with cur := s.cur + 1 } := by
  unfold St.drawB at h
  split at h
  · split at h <;> (cases h; simp)
  · cases h; simp

/-- Closes `reset (core … st).2 = reset st` goals once `core` is unfolded: every branch either leaves the
    state alone, or updates registers the reset overwrites, after at most two draws. -/
macro "reset_branches" : tactic =>
  `(tactic| ((repeat' split)
             all_goals (try rfl)
             all_goals (try (rcases drawU_cases (by assumption) with h | h <;> subst h <;> rfl))
             all_goals (try (rcases drawB_cases (by assumption) with h | h <;> subst h <;> rfl))
             all_goals (try (rcases drawB_cases (by assumption) with h | h <;> subst h <;>
                             rcases drawU_cases (by assumption) with h' | h' <;> subst h' <;> rfl))))

theorem white_reset (vals : List Val) (st : St) : clsReset .white (whiteCore vals st).2 = clsReset .white st := by
  have hr : ∀ s, clsReset .white s = { resetWhite s with cur := 0 } := fun _ => rfl
  rw [hr, hr]; unfold whiteCore
  reset_branches

theorem brownFinish_reset (d : Rat) (f : Bool) (lo hi : Atom) (old st : St) :
    clsReset .brown (brownFinish d f lo hi old st).2 = clsReset .brown st := by
  have hr : ∀ s, clsReset .brown s = { resetBrown s with cur := 0 } := fun _ => rfl
  rw [hr, hr]; unfold brownFinish
  reset_branches

theorem brown_reset (vals : List Val) (st : St) : clsReset .brown (brownCore vals st).2 = clsReset .brown st := by
  unfold brownCore
  repeat' split
  all_goals (try rw [brownFinish_reset])
  all_goals (try rfl)
  all_goals first
    | (rcases drawU_cases (by assumption) with rfl | rfl <;> rfl)
    | (rcases drawB_cases (by assumption) with rfl | rfl <;> rfl)

theorem coin_reset (vals : List Val) (st : St) : clsReset .coin (coinCore vals st).2 = clsReset .coin st := by
  have hr : ∀ s, clsReset .coin s = { resetCoin s with cur := 0 } := fun _ => rfl
  rw [hr, hr]; unfold coinCore
  reset_branches

theorem walkFinish_reset (xs : List Atom) (pos : Int) (st : St) :
    clsReset .randomWalk (walkFinish xs pos st).2 = clsReset .randomWalk st := by
  have hr : ∀ s, clsReset .randomWalk s = { resetWalk s with cur := 0 } := fun _ => rfl
  rw [hr, hr]; unfold walkFinish
  reset_branches

theorem walk_reset (vals : List Val) (st : St) : clsReset .randomWalk (walkCore vals st).2 = clsReset .randomWalk st := by
  unfold walkCore
  repeat' split
  all_goals (try rw [walkFinish_reset])
  all_goals (try rfl)
  all_goals (rcases drawB_cases (by assumption) with rfl | rfl <;> rcases drawU_cases (by assumption) with rfl | rfl <;> rfl)

theorem choice_reset (vals : List Val) (st : St) : clsReset .choice (choiceCore vals st).2 = clsReset .choice st := by
  have hr : ∀ s, clsReset .choice s = { s with cur := 0 } := fun _ => rfl
  rw [hr, hr]; unfold choiceCore
  reset_branches

theorem eqCur_of_drawU {s s' : St} {o : Option Rat} (h : s.drawU = (o, s')) : EqCur s' s := drawU_st h
theorem eqCur_of_drawB {s s' : St} {n : Nat} {o : Option Nat} (h : s.drawB n = (o, s')) : EqCur s' s := drawB_st h

theorem sampleLoop_eqCur (n : Nat) (xs : List Atom) (ws : List Rat) (acc : List Atom) (st : St) :
    EqCur (sampleLoop n xs ws acc st).2 st := by
  induction n generalizing xs ws acc st with
  | zero => exact EqCur.refl _
  | succ n ih =>
    simp only [sampleLoop]
    repeat' split
    all_goals (try exact EqCur.refl _)
    · exact (ih _ _ _ _).trans (eqCur_of_drawB (by assumption))
    · exact (ih _ _ _ _).trans (eqCur_of_drawU (by assumption))
    · exact eqCur_of_drawU (by assumption)
    · exact eqCur_of_drawU (by assumption)

theorem sample_reset (vals : List Val) (st : St) : clsReset .sample (sampleCore vals st).2 = clsReset .sample st := by
  have hr : ∀ s, clsReset .sample s = { s with cur := 0 } := fun _ => rfl
  rw [hr, hr]; unfold sampleCore
  repeat' split
  all_goals (try rfl)
  all_goals exact sampleLoop_eqCur _ _ _ _ _

theorem shuffleLoop_eqCur {α : Type} (i : Nat) (xs ys : List α) (st st' : St) (h : shuffleLoop i xs st = some (ys, st')) :
    EqCur st' st := by
  induction i generalizing xs st with
  | zero => simp only [shuffleLoop, Option.some.injEq, Prod.mk.injEq] at h; rw [h.2]; exact EqCur.refl _
  | succ i ih =>
    simp only [shuffleLoop] at h
    split at h
    · exact (ih _ _ h).trans (eqCur_of_drawB (by assumption))
    · cases h

/-- The stochastic classes. -/
def ChanceCls (c : Cls) : Prop :=
  c = .white ∨ c = .brown ∨ c = .coin ∨ c = .randomWalk ∨ c = .choice ∨ c = .sample ∨ c = .shuffle ∨ c = .shuffleInput ∨
  c = .skip ∨ c = .flipFlop ∨ c = .switchOne ∨ c = .randomExponential ∨ c = .randomImpulseSequence ∨ c = .markov

/-- The own-state reset of a stochastic class never looks at the tape cursor (and rewinds it). -/
theorem clsReset_eqCur (c : Cls) (hc : ChanceCls c) {a b : St} (h : EqCur a b) : clsReset c a = clsReset c b := by
  obtain ⟨h0, h1, h2, h3, h4, h5, h6, h7, h8, h9, h10, h11⟩ := h.fields
  cases a; cases b
  simp only at h0 h1 h2 h3 h4 h5 h6 h7 h8 h9 h10 h11
  subst h0 h1 h2 h3 h4 h5 h6 h7 h8 h9 h10 h11
  unfold ChanceCls at hc
  rcases hc with h | h | h | h | h | h | h | h | h | h | h | h | h | h <;> subst h <;> rfl

theorem shuffleEmit_reset (rep : Atom) (vs : List Val) (old st : St) :
    clsReset .shuffle (shuffleEmit rep vs old st).2 = clsReset .shuffle st := by
  have hr : ∀ s, clsReset .shuffle s = { resetShuffle s with cur := 0 } := fun _ => rfl
  rw [hr, hr]; unfold shuffleEmit
  reset_branches

theorem shuffle_reset (vals : List Val) (st : St) : clsReset .shuffle (shuffleCore vals st).2 = clsReset .shuffle st := by
  unfold shuffleCore
  repeat' split
  all_goals (try rw [shuffleEmit_reset])
  all_goals (try rfl)
  exact clsReset_eqCur _ (by simp [ChanceCls]) (shuffleLoop_eqCur _ _ _ _ _ (by assumption))

theorem skip_reset (vals : List Val) (st : St) : clsReset .skip (skipCore vals st).2 = clsReset .skip st := by
  have hr : ∀ s, clsReset .skip s = { resetSkip s with cur := 0 } := fun _ => rfl
  rw [hr, hr]; unfold skipCore
  reset_branches

theorem flipFlop_reset (vals : List Val) (st : St) : clsReset .flipFlop (flipFlopCore vals st).2 = clsReset .flipFlop st := by
  have hr : ∀ s, clsReset .flipFlop s = { resetFlipFlop s with cur := 0 } := fun _ => rfl
  rw [hr, hr]; unfold flipFlopCore
  reset_branches

theorem exp_reset (vals : List Val) (st : St) :
    clsReset .randomExponential (expCore vals st).2 = clsReset .randomExponential st := by
  have hr : ∀ s, clsReset .randomExponential s = { s with cur := 0 } := fun _ => rfl
  rw [hr, hr]; unfold expCore
  reset_branches

theorem markovMove_reset (node : Val) (st : St) : clsReset .markov (markovMove node st).2 = clsReset .markov st := by
  have hr : ∀ s, clsReset .markov s = { resetMarkov s with cur := 0 } := fun _ => rfl
  rw [hr, hr]; unfold markovMove
  reset_branches

theorem markov_reset (vals : List Val) (st : St) : clsReset .markov (markovCore vals st).2 = clsReset .markov st := by
  unfold markovCore
  repeat' split
  all_goals (try rw [markovMove_reset])
  all_goals (try rfl)
  all_goals (rcases drawB_cases (by assumption) with h | h <;> subst h <;> rfl)

theorem switchCore_reset (st : St) : clsReset .switchOne (switchCore st).2 = clsReset .switchOne st := by
  have hr : ∀ s, clsReset .switchOne s = { resetSwitchOne s with cur := 0 } := fun _ => rfl
  rw [hr, hr]; unfold switchCore
  reset_branches

theorem switchOne_ok : ClsResetOK .switchOne := by
  intro P rec kids st hrec hk
  obtain ⟨h1, h2⟩ := stepKid_ok hrec kids 1 hk
  obtain ⟨h3, h4⟩ := stepKid_ok hrec (stepKid rec kids 1).2 0 h1
  have hc : clsStep .switchOne = stepSwitchOne := rfl
  rw [hc]; simp only [stepSwitchOne]
  repeat' split
  all_goals first
    | exact ⟨h3, h4.trans h2, rfl⟩
    | exact ⟨h1, h2, rfl⟩
    | exact ⟨h1, h2, switchCore_reset _⟩

theorem takeN_ok {P : Pat → Prop} {rec : Rec} (hrec : RecOK P rec) (n : Nat) (kids : List Pat) (i : Nat)
    (hk : ∀ k ∈ kids, P k) :
    (∀ k ∈ (takeN rec n kids i).2.2, P k) ∧ (takeN rec n kids i).2.2.map reset = kids.map reset := by
  induction n generalizing kids with
  | zero => exact ⟨hk, rfl⟩
  | succ n ih =>
    obtain ⟨h1, h2⟩ := stepKid_ok hrec kids i hk
    simp only [takeN]
    split
    · obtain ⟨i1, i2⟩ := ih _ h1
      exact ⟨i1, i2.trans h2⟩
    · exact ⟨h1, h2⟩
    · exact ⟨h1, h2⟩

theorem shuffleInputEmit_reset (vals : List Val) (st : St) :
    clsReset .shuffleInput (shuffleInputEmit vals st).2 = clsReset .shuffleInput st := by
  have hset : ∀ (s : St) (b : List Val) (n : Int),
      clsReset .shuffleInput { s with buf := b, n0 := n } = clsReset .shuffleInput s := fun _ _ _ => rfl
  unfold shuffleInputEmit
  repeat' split
  all_goals (try rfl)
  all_goals (rw [hset]; exact clsReset_eqCur _ (by simp [ChanceCls]) (shuffleLoop_eqCur _ _ _ _ _ (by assumption)))

theorem shuffleInput_ok : ClsResetOK .shuffleInput := by
  intro P rec kids st hrec hk
  obtain ⟨h1, h2⟩ := stepKid_ok hrec kids 1 hk
  have hc : clsStep .shuffleInput = stepShuffleInput := rfl
  have hset : ∀ (s : St) (n : Int), clsReset .shuffleInput { s with n0 := n } = clsReset .shuffleInput s := fun _ _ => rfl
  rw [hc]; simp only [stepShuffleInput]
  have hT : ∀ n, (∀ k ∈ (takeN rec n (stepKid rec kids 1).2 0).2.2, P k) ∧
      (takeN rec n (stepKid rec kids 1).2 0).2.2.map reset = (stepKid rec kids 1).2.map reset :=
    fun n => takeN_ok hrec n _ 0 h1
  repeat' split
  all_goals first
    | exact ⟨hk, rfl, rfl⟩
    | exact ⟨h1, h2, rfl⟩
    | exact ⟨(hT _).1, (hT _).2.trans h2, rfl⟩
    | exact ⟨(hT _).1, (hT _).2.trans h2, (shuffleInputEmit_reset _ _).trans (hset _ _)⟩

theorem genBits_eqCur (n : Nat) (p : Rat) (st st' : St) (bs : List Val) (h : genBits n p st = some (bs, st')) :
    EqCur st' st := by
  induction n generalizing st bs with
  | zero => simp only [genBits, Option.some.injEq, Prod.mk.injEq] at h; rw [h.2]; exact EqCur.refl _
  | succ n ih =>
    simp only [genBits] at h
    split at h
    · split at h
      · simp only [Option.some.injEq, Prod.mk.injEq] at h
        obtain ⟨_, rfl⟩ := h
        exact (ih _ _ (by assumption)).trans (eqCur_of_drawU (by assumption))
      · cases h
    · cases h

theorem risEmit_reset (vs : List Val) (len : Int) (st : St) :
    clsReset .randomImpulseSequence (risEmit vs len st).2 = clsReset .randomImpulseSequence st := by
  unfold risEmit
  split <;> rfl

theorem ris_ok : ClsResetOK .randomImpulseSequence := by
  intro P rec kids st hrec hk
  obtain ⟨h1, h2⟩ := stepKid_ok hrec kids 1 hk
  obtain ⟨h3, h4⟩ := stepKid_ok hrec (stepKid rec kids 1).2 0 h1
  have hc : clsStep .randomImpulseSequence = stepRIS := rfl
  rw [hc]; simp only [stepRIS]
  repeat' split
  all_goals first
    | exact ⟨hk, rfl, rfl⟩
    | exact ⟨h1, h2, rfl⟩
    | exact ⟨h3, h4.trans h2, rfl⟩
    | exact ⟨h1, h2, risEmit_reset _ _ _⟩
    | exact ⟨h3, h4.trans h2, (risEmit_reset _ _ _).trans
        (clsReset_eqCur _ (by simp [ChanceCls]) (genBits_eqCur _ _ _ _ _ (by assumption)))⟩

/-- Every stochastic class is reset-correct. -/
theorem chance_ok (c : Cls) (h : ChanceCls c) : ClsResetOK c := by
  unfold ChanceCls at h
  rcases h with h | h | h | h | h | h | h | h | h | h | h | h | h | h <;> subst h
  · exact pure_ok _ _ _ rfl white_reset
  · exact pure_ok _ _ _ rfl brown_reset
  · exact pure_ok _ _ _ rfl coin_reset
  · exact pure_ok _ _ _ rfl walk_reset
  · exact pure_ok _ _ _ rfl choice_reset
  · exact pure_ok _ _ _ rfl sample_reset
  · exact pure_ok _ _ _ rfl shuffle_reset
  · exact shuffleInput_ok
  · exact pure_ok _ _ _ rfl skip_reset
  · exact pure_ok _ _ _ rfl flipFlop_reset
  · exact switchOne_ok
  · exact pure_ok _ _ _ rfl exp_reset
  · exact ris_ok
  · exact pure_ok _ [] _ rfl markov_reset

/-- Core or stochastic. -/
def CoreOrChance (c : Cls) : Prop := CoreCls c ∨ ChanceCls c

theorem coreOrChance_ok (c : Cls) (h : CoreOrChance c) : ClsResetOK c := by
  rcases h with h | h
  · exact core_ok c h
  · exact chance_ok c h

/-- **C04 for the stochastic classes**: any expression built from core and stochastic classes, nested to
    any depth (a stochastic pattern as the input or a parameter of another one included), is rewound by
    `reset()` after any number of steps: counters, buffers, nested patterns and — the generator being
    re-seeded — the position in the draw sequence. -/
theorem reset_rewinds_chance (fuel k : Nat) (p0 : Pat) (hp : AllCls CoreOrChance p0) (h0 : IsInit p0) :
    reset (after fuel k p0) = p0 :=
  reset_rewinds coreOrChance_ok fuel k p0 hp h0

theorem all_rewinds_chance (fuel maximum : Nat) (p0 : Pat) (hp : AllCls CoreOrChance p0) (h0 : IsInit p0)
    (hok : (nextn fuel maximum p0).err = Option.none) : (all fuel maximum p0).p = p0 :=
  all_rewinds coreOrChance_ok fuel maximum p0 hp h0 hok

/-! Non-vacuity: a stochastic pattern over a stochastic input, consumed past its end, then reset. -/
section Example
def exW : Pat :=
  .node .white [Pat.const (.int 0), Pat.const (.int 8), Pat.const (.int 3)] { tape := [.u (1/4), .u (1/2), .u (3/4)] }
def exSCh : Pat := .node .shuffleInput [exW, Pat.const (.int 2)] { tape := [.b 2 0, .b 2 1] }
example : IsInit exSCh := by unfold IsInit; rfl
example : outs 6 5 exSCh = [.val (.int 4), .val (.int 2), .val (.int 6), .stop, .stop] := by decide +kernel
example : outs 6 3 (reset (after 6 4 exSCh)) = outs 6 3 exSCh := by decide +kernel
end Example

end IsobarV.C04
