/-
C04 — `reset()` rewinds any pattern to its initial state.

`IsobarV/Pat/ResetOK.lean` proves the general theorem (`reset_rewinds`, `reset_twice`, `all_rewinds`)
for pattern trees of ANY shape and depth built from reset-correct classes.  This file proves
reset-correctness class by class (core classes here; further classes register their lemma in
`IsobarV/Props/C04_*.lean`) and instantiates the theorem.
-/
import IsobarV.Pat.ResetOK

namespace IsobarV.C04
open IsobarV.Pat

theorem const_ok : ClsResetOK .const := by
  intro P rec kids st _ hk
  exact ⟨hk, rfl, rfl⟩

theorem ref_ok : ClsResetOK .ref := by
  intro P rec kids st hrec hk
  obtain ⟨h1, h2⟩ := stepKid_ok hrec kids 0 hk
  exact ⟨h1, h2, rfl⟩

/-- One-input maps keep no state of their own. -/
theorem un_ok (f : Val → Out) (c : Cls) (hc : clsStep c = stepUn f) : ClsResetOK c := by
  intro P rec kids st hrec hk
  obtain ⟨h1, h2⟩ := stepKid_ok hrec kids 0 hk
  rw [hc]
  simp only [stepUn]
  split <;> exact ⟨h1, h2, rfl⟩

/-- Binary operators keep no state of their own; they step `a`, then `b`. -/
theorem bin_ok (f : Val → Val → Out) (c : Cls) (hc : clsStep c = stepBin f) : ClsResetOK c := by
  intro P rec kids st hrec hk
  obtain ⟨h1, h2⟩ := stepKid_ok hrec kids 0 hk
  obtain ⟨h3, h4⟩ := stepKid_ok hrec (stepKid rec kids 0).2 1 h1
  rw [hc]
  simp only [stepBin]
  split
  · split
    · exact ⟨h3, h4.trans h2, rfl⟩
    · exact ⟨h3, h4.trans h2, rfl⟩
  · exact ⟨h1, h2, rfl⟩

/-- `PSequence.reset()` sets `pos` and `rcount` back to 0 whatever they were. -/
theorem seq_ok : ClsResetOK .seq := by
  intro P rec kids st hrec hk
  obtain ⟨h1, h2⟩ := stepKid_ok hrec kids st.n1.toNat hk
  have hc : clsStep .seq = stepSeq := rfl
  have hr : ∀ s, clsReset .seq s = { resetSeq s with cur := 0 } := fun _ => rfl
  rw [hc, hr, hr]
  simp only [stepSeq, resetSeq]
  split
  · exact ⟨hk, rfl, rfl⟩
  · split
    · split
      · exact ⟨h1, h2, rfl⟩
      · exact ⟨h1, h2, rfl⟩
    · exact ⟨h1, h2, rfl⟩

theorem concatLoop_ok {P : Pat → Prop} {rec : Rec} (hrec : RecOK P rec) (fuel : Nat) (kids : List Pat) (pos : Nat)
    (hk : ∀ k ∈ kids, P k) :
    (∀ k ∈ (concatLoop rec fuel kids pos).2.1, P k) ∧ (concatLoop rec fuel kids pos).2.1.map reset = kids.map reset := by
  induction fuel generalizing kids pos with
  | zero => exact ⟨hk, rfl⟩
  | succ n ih =>
    simp only [concatLoop]
    cases h : kids[pos]? with
    | none => exact ⟨hk, rfl⟩
    | some k =>
      have hs := stepKid_ok hrec kids pos hk
      simp only [stepKid, h] at hs
      obtain ⟨s1, s2⟩ := hs
      simp only []
      split
      · split
        · obtain ⟨i1, i2⟩ := ih (kids.set pos (rec k).p) (pos + 1) s1
          exact ⟨i1, i2.trans s2⟩
        · exact ⟨s1, s2⟩
      · exact ⟨s1, s2⟩

theorem concat_ok : ClsResetOK .concat := by
  intro P rec kids st hrec hk
  obtain ⟨h1, h2⟩ := concatLoop_ok hrec (kids.length + 1) kids st.n0.toNat hk
  exact ⟨h1, h2, rfl⟩

theorem arrayIndex_ok : ClsResetOK .arrayIndex := by
  intro P rec kids st hrec hk
  obtain ⟨h1, h2⟩ := stepKid_ok hrec kids 0 hk
  have hc : clsStep .arrayIndex = stepArrayIndex := rfl
  rw [hc]
  simp only [stepArrayIndex]
  split
  · exact ⟨h1, h2, rfl⟩
  · split
    · split
      · rename_i j _
        obtain ⟨h3, h4⟩ := stepKid_ok hrec (stepKid rec kids 0).2 (j + 1) h1
        exact ⟨h3, h4.trans h2, rfl⟩
      · exact ⟨h1, h2, rfl⟩
    · exact ⟨h1, h2, rfl⟩
    · exact ⟨h1, h2, rfl⟩
  · exact ⟨h1, h2, rfl⟩

/-- The classes of `core.py` (and `PSequence`) proved reset-correct. -/
def CoreCls (c : Cls) : Prop :=
  c = .const ∨ c = .ref ∨ c = .seq ∨ c = .concat ∨ c = .abs ∨ c = .int ∨ c = .arrayIndex ∨
  c = .add ∨ c = .sub ∨ c = .mul ∨ c = .div ∨ c = .floorDiv ∨ c = .mod ∨ c = .pow ∨ c = .lshift ∨ c = .rshift ∨
  c = .eq ∨ c = .ne ∨ c = .gt ∨ c = .ge ∨ c = .lt ∨ c = .le ∨ c = .and

theorem core_ok (c : Cls) (h : CoreCls c) : ClsResetOK c := by
  unfold CoreCls at h
  rcases h with h | h | h | h | h | h | h | h | h | h | h | h | h | h | h | h | h | h | h | h | h | h | h <;> subst h
  · exact const_ok
  · exact ref_ok
  · exact seq_ok
  · exact concat_ok
  · exact un_ok absVal _ rfl
  · exact un_ok intVal _ rfl
  · exact arrayIndex_ok
  all_goals exact bin_ok _ _ rfl

/-- **C04 for the core classes**: any expression built from constants, sequences (with nested
    sequences as items), references, concatenations, `abs`, `int`, array lookups and all arithmetic /
    comparison operators, nested to any depth, is rewound by `reset()` after any number of steps. -/
theorem reset_rewinds_core (fuel k : Nat) (p0 : Pat) (hp : AllCls CoreCls p0) (h0 : IsInit p0) :
    reset (after fuel k p0) = p0 :=
  reset_rewinds core_ok fuel k p0 hp h0

theorem all_rewinds_core (fuel maximum : Nat) (p0 : Pat) (hp : AllCls CoreCls p0) (h0 : IsInit p0)
    (hok : (nextn fuel maximum p0).err = Option.none) : (all fuel maximum p0).p = p0 :=
  all_rewinds core_ok fuel maximum p0 hp h0 hok

/-! Non-vacuity: a nested expression, consumed to exhaustion, then reset. -/
section Example
def sq (xs : List Pat) (rep : Int) : Pat := .node .seq xs { n0 := rep }
def c (i : Int) : Pat := Pat.const (.int i)
def ex : Pat := .node .add [sq [c 1, sq [c 7, c 8] 1, c 3] 2, .node .concat [sq [c 10] 1, sq [c 20, c 30] 2] {}] {}
example : IsInit ex := by unfold IsInit; rfl
example : reset (after 10 7 ex) = ex := by rfl
example : outs 10 3 (after 10 7 ex) = [.stop, .stop, .stop] ∧
    outs 10 3 (reset (after 10 7 ex)) = [.val (.int 11), .val (.int 27), .val (.int 33)] := by decide
example : AllCls CoreCls ex := by
  repeat (first | apply AllCls.node | (intro k hk; simp at hk; rcases hk with rfl | rfl | rfl | rfl | rfl) | simp [CoreCls])
  all_goals (first | simp [CoreCls] | (intro k hk; simp at hk))
end Example

end IsobarV.C04
