/-
C10 — deterministic library patterns match their reference definitions.

Reference theorems are stated per class, parametric in the semantics `rec` of the sub-patterns (so they
hold on nested combinations).  Core classes here; the class groups add `IsobarV/Props/C10_*.lean`.
-/
import IsobarV.Pat.Lemmas

namespace IsobarV.C10
open IsobarV.Pat

/-- `PConstant(v)`: the constant sequence. -/
theorem const_reference (rec : Rec) (v : Val) (n : Nat) (kids : List Pat) (st : St) (h : st.v0 = v) :
    clsOuts stepConst rec n kids st = List.replicate n (.val v) := by
  induction n with
  | zero => rfl
  | succ n ih => simp only [clsOuts, List.replicate_succ]; rw [← ih]; simp [stepConst, h]

/-- `abs` / `int` map their input pointwise (a rest stays a rest), and end (or fail) with it. -/
theorem un_reference (f : Val → Out) (rec : Rec) (n : Nat) (a : Pat) (st : St) (as : List Val)
    (ha : recOuts rec n a = as.map Out.val) :
    clsOuts (stepUn f) rec n [a] st = as.map f := by
  induction n generalizing a as with
  | zero => cases as <;> simp_all [recOuts, clsOuts]
  | succ n ih =>
    cases as with
    | nil => simp [recOuts] at ha
    | cons x as =>
      simp only [recOuts, List.map_cons, List.cons.injEq] at ha
      have h1 : (stepUn f rec [a] st).out = f x := by simp [stepUn, stepKid, ha.1]
      have h2 : (stepUn f rec [a] st).kids = [(rec a).p] := by simp [stepUn, stepKid, ha.1]
      have h3 : (stepUn f rec [a] st).st = st := by simp only [stepUn]; split <;> rfl
      simp only [clsOuts, List.map_cons, h1, h2, h3]
      rw [ih _ as ha.2]

example : clsOuts (stepUn absVal) (stepF 5) 3 [.node .seq [Pat.const (.int (-2)), Pat.const Val.none] { n0 := -1 }] {} =
    [.val (.int 2), .val Val.none, .val (.int 2)] := by decide

end IsobarV.C10
