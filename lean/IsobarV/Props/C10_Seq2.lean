/-
C10 — deterministic library patterns match their reference definitions: the classes of
`IsobarV/Pat/Cls/Seq2.lean`.  Every theorem is parametric in the semantics `rec` of the sub-patterns (so it holds on
nested combinations) and describes the outcomes `clsOuts stepX rec n kids st` from the initial own state as a list
function of the inputs' outcomes `recOuts rec · kid`.
-/
import IsobarV.Pat.Lemmas
import IsobarV.Props.C10_Euclid.All

namespace IsobarV.C10
open IsobarV.Pat

/-! ### Generic tools -/

/-- The first `n` outcomes of a pattern that yields the values `vs` and then raises StopIteration for ever. -/
def finOuts : Nat → List Val → List Out
  | 0, _ => []
  | n + 1, [] => .stop :: finOuts n []
  | n + 1, v :: vs => .val v :: finOuts n vs

theorem take_append_replicate {α : Type} (x : α) (n : Nat) : ∀ (m : Nat) (l : List α), n ≤ m →
    (l ++ List.replicate m x).take n = (l ++ List.replicate n x).take n := by
  induction n with
  | zero => intros; simp
  | succ n ih =>
    intro m l h
    cases l with
    | nil => simp [List.take_replicate, Nat.min_eq_left h]
    | cons y ys =>
      simp only [List.cons_append, List.take_succ_cons]
      rw [ih m ys (by omega), ih (n + 1) ys (by omega)]

theorem take_append_replicate_succ {α : Type} (x : α) (n : Nat) (l : List α) :
    (l ++ List.replicate (n + 1) x).take n = (l ++ List.replicate n x).take n :=
  take_append_replicate x n (n + 1) l (by omega)

/-- `finOuts` in standard form: the values, then StopIteration, cut after `n`. -/
theorem finOuts_eq (n : Nat) (vs : List Val) :
    finOuts n vs = (vs.map Out.val ++ List.replicate n Out.stop).take n := by
  induction n generalizing vs with
  | zero => simp [finOuts]
  | succ n ih =>
    cases vs with
    | nil =>
      simp only [finOuts, List.map_nil, List.nil_append, List.replicate_succ, List.take_succ_cons]
      rw [ih]; simp
    | cons v vs =>
      simp only [finOuts, List.map_cons, List.cons_append, List.take_succ_cons]
      rw [ih, take_append_replicate_succ]

theorem finOuts_nil (n : Nat) : finOuts n [] = List.replicate n .stop := by
  induction n with
  | zero => rfl
  | succ n ih => simp [finOuts, ih, List.replicate_succ]

/-- A finite, sticky input: it yields exactly `xs` and then StopIteration for ever. -/
def FiniteInput (rec : Rec) (a : Pat) (xs : List Val) : Prop :=
  ∀ j, recOuts rec (xs.length + j) a = xs.map Out.val ++ List.replicate j Out.stop

theorem FiniteInput.cons {rec : Rec} {a : Pat} {x : Val} {xs : List Val} (h : FiniteInput rec a (x :: xs)) :
    (rec a).out = .val x ∧ FiniteInput rec (rec a).p xs := by
  have h0 := h 0
  simp only [List.length_cons, Nat.add_zero, recOuts, List.map_cons, List.replicate_zero, List.append_nil,
    List.cons.injEq] at h0
  refine ⟨h0.1, fun j => ?_⟩
  have hj := h j
  have e : (x :: xs).length + j = (xs.length + j) + 1 := by simp; omega
  rw [e] at hj
  simp only [recOuts, List.map_cons, List.cons_append, List.cons.injEq] at hj
  exact hj.2

theorem FiniteInput.nil {rec : Rec} {a : Pat} (h : FiniteInput rec a []) :
    (rec a).out = .stop ∧ FiniteInput rec (rec a).p [] := by
  have h1 := h 1
  simp [recOuts] at h1
  refine ⟨h1, fun j => ?_⟩
  have hj := h (j + 1)
  simp only [List.length_nil, recOuts, List.map_nil, List.nil_append, List.replicate_succ,
    List.cons.injEq] at hj
  simpa using hj.2

theorem recAfter_succ' (rec : Rec) (k : Nat) (p : Pat) : recAfter rec (k + 1) p = (rec (recAfter rec k p)).p := by
  induction k generalizing p with
  | zero => rfl
  | succ k ih => simp only [recAfter] at ih ⊢; rw [ih]

theorem step1 (rec : Rec) (a : Pat) : stepKid rec [a] 0 = ((rec a).out, [(rec a).p]) := by
  simp [stepKid]

/-! ### PReverse -/

theorem drainLoop_spec (rec : Rec) (xs : List Val) : ∀ (a : Pat) (acc : List Val) (f : Nat), xs.length < f →
    recOuts rec (xs.length + 1) a = xs.map Out.val ++ [Out.stop] →
    (drainLoop rec f [a] acc).1 = .stop ∧ (drainLoop rec f [a] acc).2.2 = xs.reverse ++ acc := by
  induction xs with
  | nil =>
    intro a acc f hf h
    cases f with
    | zero => omega
    | succ f =>
      simp [recOuts] at h
      simp [drainLoop, step1, h]
  | cons x xs ih =>
    intro a acc f hf h
    cases f with
    | zero => omega
    | succ f =>
      simp only [List.length_cons, recOuts, List.map_cons, List.cons_append, List.cons.injEq] at h
      have := ih (rec a).p (x :: acc) f (by simp at hf; omega) h.2
      simp only [drainLoop, step1, h.1]
      simpa using this

theorem reverse_materialised (rec : Rec) (n : Nat) : ∀ (buf : List Val) (kids : List Pat) (st : St),
    st.n0 ≠ 0 → clsOuts stepReverse rec n kids { st with buf := buf } = finOuts n buf := by
  induction n with
  | zero => intros; rfl
  | succ n ih =>
    intro buf kids st h0
    have h0' : ({ st with buf := buf } : St).n0 ≠ 0 := h0
    cases buf with
    | nil =>
      simp only [clsOuts, finOuts, stepReverse, if_neg h0']
      exact congrArg _ (ih [] kids st h0)
    | cons v vs =>
      simp only [clsOuts, finOuts, stepReverse, if_neg h0']
      exact congrArg _ (ih vs kids st h0)

/-- **PReverse = the input's values in reverse order**, for every finite input shorter than the loop fuel:
    `clsOuts n = take n (reverse xs ++ stop, stop, …)`. -/
theorem reverse_reference (rec : Rec) (a : Pat) (st : St) (xs : List Val) (n : Nat) (h0 : st.n0 = 0)
    (hlen : xs.length < LOOPFUEL) (hin : recOuts rec (xs.length + 1) a = xs.map Out.val ++ [Out.stop]) :
    clsOuts stepReverse rec n [a] st = (xs.reverse.map Out.val ++ List.replicate n Out.stop).take n := by
  rw [← finOuts_eq]
  obtain ⟨d1, d2⟩ := drainLoop_spec rec xs a [] LOOPFUEL hlen hin
  simp only [List.append_nil] at d2
  cases n with
  | zero => rfl
  | succ n =>
    cases hr : xs.reverse with
    | nil =>
      rw [hr] at d2
      simp only [clsOuts, finOuts, stepReverse, if_pos h0, d1, d2]
      exact congrArg _ (reverse_materialised rec n [] _ { st with n0 := 1 } (show (1 : Int) ≠ 0 by decide))
    | cons v vs =>
      rw [hr] at d2
      simp only [clsOuts, finOuts, stepReverse, if_pos h0, d1, d2]
      exact congrArg _ (reverse_materialised rec n vs _ { st with n0 := 1 } (show (1 : Int) ≠ 0 by decide))

example : clsOuts stepReverse (stepF 5) 5 [.node .seq [Pat.const (.int 1), Pat.const Val.none, Pat.const (.int 3)] { n0 := 1 }] {} =
    [.val (.int 3), .val Val.none, .val (.int 1), .stop, .stop] := by decide

/-! ### PPad -/

theorem pad_dead (rec : Rec) (n : Nat) : ∀ (a : Pat) (st : St), FiniteInput rec a [] →
    clsOuts stepPad rec n [a] st = finOuts n (List.replicate (st.n0 - st.n1).toNat Val.none) := by
  induction n with
  | zero => intros; rfl
  | succ n ih =>
    intro a st h
    obtain ⟨h1, h2⟩ := h.nil
    simp only [clsOuts, stepPad, step1, h1]
    by_cases hc : st.n1 ≥ st.n0
    · have e : (st.n0 - st.n1).toNat = 0 := by omega
      simp only [if_pos hc, e, List.replicate_zero, finOuts]
      have := ih (rec a).p st h2
      rw [e] at this
      rw [this]; rfl
    · have e : (st.n0 - st.n1).toNat = (st.n0 - (st.n1 + 1)).toNat + 1 := by omega
      simp only [if_neg hc, e, List.replicate_succ, finOuts]
      rw [ih (rec a).p _ h2]

theorem pad_general (rec : Rec) (xs : List Val) : ∀ (n : Nat) (a : Pat) (st : St), FiniteInput rec a xs →
    clsOuts stepPad rec n [a] st = finOuts n (xs ++ List.replicate (st.n0 - st.n1 - xs.length).toNat Val.none) := by
  induction xs with
  | nil =>
    intro n a st h
    rw [pad_dead rec n a st h]; simp
  | cons x xs ih =>
    intro n a st h
    obtain ⟨h1, h2⟩ := h.cons
    cases n with
    | zero => rfl
    | succ n =>
      simp only [clsOuts, stepPad, step1, h1, List.cons_append, finOuts]
      rw [ih n (rec a).p _ h2]
      have e : (st.n0 - (st.n1 + 1) - (xs.length : Int)).toNat = (st.n0 - st.n1 - ((x :: xs).length : Int)).toNat := by
        simp only [List.length_cons]; omega
      simp only [e]

/-- **PPad = the input followed by rests up to `length`** (never truncated), for a finite input:
    `clsOuts n = take n (xs ++ [None] * (length − len xs) ++ stop, stop, …)`. -/
theorem pad_reference (rec : Rec) (a : Pat) (st : St) (xs : List Val) (n : Nat) (hc : st.n1 = 0)
    (hin : FiniteInput rec a xs) :
    clsOuts stepPad rec n [a] st =
      ((xs ++ List.replicate (st.n0.toNat - xs.length) Val.none).map Out.val ++ List.replicate n Out.stop).take n := by
  rw [← finOuts_eq, pad_general rec xs n a st hin]
  have e : (st.n0 - st.n1 - (xs.length : Int)).toNat = st.n0.toNat - xs.length := by omega
  rw [e]

/-- While the input yields values (e.g. an infinite input) PPad passes them on unchanged. -/
theorem pad_reference_infinite (rec : Rec) (n : Nat) : ∀ (a : Pat) (st : St) (xs : List Val),
    recOuts rec n a = xs.map Out.val → clsOuts stepPad rec n [a] st = xs.map Out.val := by
  induction n with
  | zero => intro a st xs h; cases xs <;> simp_all [recOuts, clsOuts]
  | succ n ih =>
    intro a st xs h
    cases xs with
    | nil => simp [recOuts] at h
    | cons x xs =>
      simp only [recOuts, List.map_cons, List.cons.injEq] at h
      simp only [clsOuts, stepPad, step1, h.1, List.map_cons]
      rw [ih _ _ xs h.2]

example : clsOuts stepPad (stepF 5) 6 [.node .seq [Pat.const (.int 1), Pat.const (.int 2)] { n0 := 1 }] { n0 := 4 } =
    [.val (.int 1), .val (.int 2), .val Val.none, .val Val.none, .stop, .stop] := by decide

/-! ### PPadToMultiple -/

/-- Padding phase: the input is exhausted, `j0` rests have been emitted, `r` are still due. -/
theorem padToMultiple_dead (rec : Rec) (m k : Int) (L p : Nat) (hm : m ≠ 0)
    (hp1 : k ≤ (p : Int)) (hp2 : ((L : Int) + (p : Int)) % m = 0)
    (hmin : ∀ j : Nat, j < p → ¬ (k ≤ (j : Int) ∧ ((L : Int) + (j : Int)) % m = 0)) (n : Nat) :
    ∀ (r j0 : Nat) (a : Pat) (st : St), j0 + r = p → st.n0 = m → st.n1 = k → st.n2 = (L : Int) + (j0 : Int) →
      st.n3 = (j0 : Int) → FiniteInput rec a [] →
      clsOuts stepPadToMultiple rec n [a] st = finOuts n (List.replicate r Val.none) := by
  induction n with
  | zero => intros; rfl
  | succ n ih =>
    intro r j0 a st hj h0 h1 h2 h3 hin
    obtain ⟨i1, i2⟩ := hin.nil
    have hm' : ¬ st.n0 = 0 := by rw [h0]; exact hm
    simp only [clsOuts, stepPadToMultiple, step1, i1]
    -- one more rest: the state advances
    have pad : ∀ r', r = r' + 1 →
        (Out.val Val.none :: clsOuts stepPadToMultiple rec n [(rec a).p] { st with n2 := st.n2 + 1, n3 := st.n3 + 1 }) =
          finOuts (n + 1) (List.replicate r Val.none) := by
      intro r' hr
      subst hr
      simp only [List.replicate_succ, finOuts]
      exact congrArg _ (ih r' (j0 + 1) (rec a).p { st with n2 := st.n2 + 1, n3 := st.n3 + 1 } (by omega) h0 h1
        (show st.n2 + 1 = (L : Int) + ((j0 + 1 : Nat) : Int) by omega) (show st.n3 + 1 = ((j0 + 1 : Nat) : Int) by omega) i2)
    by_cases hc : st.n3 ≥ st.n1
    · simp only [if_pos hc, if_neg hm']
      by_cases hd : st.n2 % st.n0 = 0
      · -- a valid end: by minimality all rests have been emitted
        have hr : r = 0 := by
          cases r with
          | zero => rfl
          | succ r' =>
            exfalso
            refine hmin j0 (by omega) ⟨by rw [← h1, ← h3]; exact hc, ?_⟩
            rw [← h2, ← h0]; exact hd
        subst hr
        simp only [if_pos hd, List.replicate_zero, finOuts]
        rw [ih 0 j0 (rec a).p st hj h0 h1 h2 h3 i2]; rfl
      · simp only [if_neg hd]
        cases r with
        | zero =>
          exfalso
          have : j0 = p := by omega
          subst this
          exact hd (by rw [h2, h0]; exact hp2)
        | succ r' => exact pad r' rfl
    · simp only [if_neg hc]
      cases r with
      | zero => exfalso; omega
      | succ r' => exact pad r' rfl

theorem padToMultiple_general (rec : Rec) (m k : Int) (p : Nat) (hm : m ≠ 0) (xs : List Val) :
    ∀ (c : Nat) (n : Nat) (a : Pat) (st : St),
      k ≤ (p : Int) → (((c + xs.length : Nat) : Int) + (p : Int)) % m = 0 →
      (∀ j : Nat, j < p → ¬ (k ≤ (j : Int) ∧ (((c + xs.length : Nat) : Int) + (j : Int)) % m = 0)) →
      st.n0 = m → st.n1 = k → st.n2 = (c : Int) → st.n3 = 0 → FiniteInput rec a xs →
      clsOuts stepPadToMultiple rec n [a] st = finOuts n (xs ++ List.replicate p Val.none) := by
  induction xs with
  | nil =>
    intro c n a st hp1 hp2 hmin h0 h1 h2 h3 hin
    simp only [List.nil_append]
    exact padToMultiple_dead rec m k c p hm hp1 (by simpa using hp2) (by simpa using hmin) n p 0 a st (by omega) h0 h1
      (by simp [h2]) (by simp [h3]) hin
  | cons x xs ih =>
    intro c n a st hp1 hp2 hmin h0 h1 h2 h3 hin
    obtain ⟨i1, i2⟩ := hin.cons
    cases n with
    | zero => rfl
    | succ n =>
      simp only [clsOuts, stepPadToMultiple, step1, i1, List.cons_append, finOuts]
      have e : c + (x :: xs).length = (c + 1) + xs.length := by simp; omega
      rw [e] at hp2 hmin
      exact congrArg _ (ih (c + 1) n (rec a).p { st with n2 := st.n2 + 1 } hp1 hp2 hmin h0 h1
        (show st.n2 + 1 = ((c + 1 : Nat) : Int) by omega) h3 i2)

/-- **PPadToMultiple = the input followed by the FEWEST rests, at least `minimum_pad`, that make the length a
    multiple of `multiple`**: for a finite input `xs` and the least `p ≥ minimum_pad` with
    `(len xs + p) % multiple = 0`, `clsOuts n = take n (xs ++ [None] * p ++ stop, stop, …)`. -/
theorem padToMultiple_reference (rec : Rec) (a : Pat) (st : St) (xs : List Val) (p n : Nat)
    (hm : st.n0 ≠ 0) (hc : st.n2 = 0) (hpc : st.n3 = 0) (hin : FiniteInput rec a xs)
    (hp1 : st.n1 ≤ (p : Int)) (hp2 : ((xs.length : Int) + (p : Int)) % st.n0 = 0)
    (hmin : ∀ j : Nat, j < p → ¬ (st.n1 ≤ (j : Int) ∧ ((xs.length : Int) + (j : Int)) % st.n0 = 0)) :
    clsOuts stepPadToMultiple rec n [a] st =
      ((xs ++ List.replicate p Val.none).map Out.val ++ List.replicate n Out.stop).take n := by
  rw [← finOuts_eq]
  exact padToMultiple_general rec st.n0 st.n1 p hm xs 0 n a st hp1 (by simpa using hp2) (by simpa using hmin)
    rfl rfl (by simp [hc]) hpc hin

theorem exists_least (P : Nat → Prop) : ∀ q, P q → ∃ p, P p ∧ ∀ j, j < p → ¬ P j := by
  intro q
  induction q using Nat.strongRecOn with
  | _ q ih =>
    intro h
    by_cases hex : ∃ j, j < q ∧ P j
    · obtain ⟨j, hj, hpj⟩ := hex
      exact ih j hj hpj
    · exact ⟨q, h, fun j hj hp => hex ⟨j, hj, hp⟩⟩

/-- Such a least `p` always exists for `multiple ≥ 1`. -/
theorem padToMultiple_pad_exists (L : Nat) (k : Int) (m : Int) (hm : 0 < m) :
    ∃ p : Nat, k ≤ (p : Int) ∧ ((L : Int) + (p : Int)) % m = 0 ∧
      ∀ j : Nat, j < p → ¬ (k ≤ (j : Int) ∧ ((L : Int) + (j : Int)) % m = 0) := by
  -- some admissible `q` exists: k⁺ + (−(L + k⁺)) mod m; take the least one
  have hex : ∃ q : Nat, k ≤ (q : Int) ∧ ((L : Int) + (q : Int)) % m = 0 := by
    refine ⟨(k.toNat + ((-((L : Int) + k.toNat)) % m).toNat), by omega, ?_⟩
    have h1 : 0 ≤ (-((L : Int) + k.toNat)) % m := Int.emod_nonneg _ (by omega)
    have h2 : (((k.toNat + ((-((L : Int) + k.toNat)) % m).toNat : Nat)) : Int) = k.toNat + (-((L : Int) + k.toNat)) % m := by
      omega
    rw [h2]
    have : (L : Int) + ((k.toNat : Int) + (-((L : Int) + k.toNat)) % m) = ((L : Int) + k.toNat) + (-((L : Int) + k.toNat)) % m := by
      omega
    rw [this, Int.add_emod, Int.emod_emod_of_dvd _ (Int.dvd_refl m), ← Int.add_emod, Int.add_right_neg, Int.zero_emod]
  obtain ⟨q, hq⟩ := hex
  obtain ⟨p, ⟨a1, a2⟩, a3⟩ := exists_least (fun q : Nat => k ≤ (q : Int) ∧ ((L : Int) + (q : Int)) % m = 0) q hq
  exact ⟨p, a1, a2, a3⟩

example : clsOuts stepPadToMultiple (stepF 5) 10
    [.node .seq [Pat.const (.int 1), Pat.const (.int 2), Pat.const (.int 3)] { n0 := 1 }] { n0 := 4, n1 := 2 } =
    [.val (.int 1), .val (.int 2), .val (.int 3), .val Val.none, .val Val.none, .val Val.none, .val Val.none, .val Val.none,
     .stop, .stop] := by decide

/-! ### PCounter -/

/-- Running number of upward zero-crossings of a trigger given as "is positive" flags: `prev` = whether the
    previous value was positive, `c` = the count so far. -/
def crossings (prev : Bool) (c : Int) : List Bool → List Int
  | [] => []
  | p :: ps => (if p && !prev then c + 1 else c) :: crossings p (if p && !prev then c + 1 else c) ps

/-- Closed form: the `i`-th output is the number of positions `j ≤ i` at which the trigger is positive and its
    predecessor (initially: not positive) is not. -/
theorem crossings_closed_form (ps : List Bool) : ∀ (prev : Bool) (c : Int) (i : Nat), i < ps.length →
    (crossings prev c ps)[i]? =
      some (c + (((List.zipWith (fun p q => p && !q) ps (prev :: ps)).take (i + 1)).count true : Nat)) := by
  induction ps with
  | nil => intro prev c i hi; simp at hi
  | cons p ps ih =>
    intro prev c i hi
    cases i with
    | zero =>
      simp only [crossings, List.zipWith_cons_cons, List.take_succ_cons, List.take_zero, List.getElem?_cons_zero]
      cases h : (p && !prev) <;> simp
    | succ i =>
      simp only [crossings, List.zipWith_cons_cons, List.take_succ_cons, List.getElem?_cons_succ]
      rw [ih p _ i (by simpa using hi)]
      cases h : (p && !prev) <;> simp <;> omega

theorem counter_general (rec : Rec) (n : Nat) : ∀ (a : Pat) (st : St) (xs : List Val) (ps : List Bool),
    recOuts rec n a = xs.map Out.val → xs.map gtZero = ps.map some →
    clsOuts stepCounter rec n [a] st = (crossings (decide (st.n1 ≠ 0)) st.n0 ps).map (fun c => Out.val (.int c)) := by
  induction n with
  | zero =>
    intro a st xs ps h hp
    cases xs with
    | nil => cases ps with
      | nil => rfl
      | cons _ _ => simp at hp
    | cons _ _ => simp [recOuts] at h
  | succ n ih =>
    intro a st xs ps h hp
    cases xs with
    | nil => simp [recOuts] at h
    | cons x xs =>
      cases ps with
      | nil => simp at hp
      | cons b ps =>
        simp only [recOuts, List.map_cons, List.cons.injEq] at h hp
        simp only [clsOuts, stepCounter, step1, h.1, hp.1]
        cases b with
        | true =>
          by_cases h1 : st.n1 = 0
          · simp only [crossings, h1]
            have := ih (rec a).p { st with n0 := st.n0 + 1, n1 := 1 } xs ps h.2 hp.2
            simp at this ⊢
            exact this
          · simp only [if_neg h1, crossings]
            have := ih (rec a).p st xs ps h.2 hp.2
            simp [h1] at this ⊢
            exact this
        | false =>
          simp only [crossings]
          have := ih (rec a).p { st with n1 := 0 } xs ps h.2 hp.2
          simp at this ⊢
          exact this

/-- **PCounter = the running number of upward zero-crossings of its trigger**: for trigger values `xs` (numbers)
    with positivity flags `ps`, the outputs are `crossings false 0 ps` (closed form: `crossings_closed_form`). -/
theorem counter_reference (rec : Rec) (n : Nat) (a : Pat) (st : St) (xs : List Val) (ps : List Bool)
    (h0 : st.n0 = 0) (h1 : st.n1 = 0) (hin : recOuts rec n a = xs.map Out.val) (hp : xs.map gtZero = ps.map some) :
    clsOuts stepCounter rec n [a] st = (crossings false 0 ps).map (fun c => Out.val (.int c)) := by
  rw [counter_general rec n a st xs ps hin hp, h0, h1]; rfl

example : clsOuts stepCounter (stepF 5) 6
    [.node .seq [Pat.const (.int 1), Pat.const (.int 0), Pat.const (.flt 2), Pat.const (.int 3), Pat.const (.int (-1)), Pat.const (.int 1)] { n0 := 1 }] {} =
    [.val (.int 1), .val (.int 1), .val (.int 2), .val (.int 2), .val (.int 2), .val (.int 3)] := by decide

/-! ### PReset -/

/-- Reference definition of `PReset`: `k` = number of values taken from the pattern since it was last (re)started;
    a positive trigger restarts it; the output is the `(k+1)`-th outcome of the freshly started pattern `p0`. -/
def presetRef (rec : Rec) (p0 : Pat) : Nat → List Bool → List Out
  | _, [] => []
  | k, b :: bs =>
    (rec (recAfter rec (if b then 0 else k) p0)).out :: presetRef rec p0 ((if b then 0 else k) + 1) bs

/-- **PReset = the pattern restarted at every positive trigger**: whenever `reset()` rewinds the pattern to its
    initial state `p0` (which is C04, `reset_rewinds`), the `i`-th output is outcome number `i − (index of the last
    positive trigger ≤ i)` of `p0`.  `ts` = trigger values, `bs` = "is not None and > 0". -/
theorem preset_reference (rs : Pat → Pat) (rec : Rec) (p0 : Pat) (hreset : ∀ k, rs (recAfter rec k p0) = p0) (n : Nat) :
    ∀ (k : Nat) (t : Pat) (st : St) (ts : List Val) (bs : List Bool),
      recOuts rec n t = ts.map Out.val → ts.map trigPos = bs.map some →
      clsOuts (stepResetW rs) rec n [recAfter rec k p0, t] st = presetRef rec p0 k bs := by
  induction n with
  | zero =>
    intro k t st ts bs h hp
    cases ts with
    | nil => cases bs with
      | nil => rfl
      | cons _ _ => simp at hp
    | cons _ _ => simp [recOuts] at h
  | succ n ih =>
    intro k t st ts bs h hp
    cases ts with
    | nil => simp [recOuts] at h
    | cons x ts =>
      cases bs with
      | nil => simp at hp
      | cons b bs =>
        simp only [recOuts, List.map_cons, List.cons.injEq] at h hp
        cases b with
        | true =>
          simp only [clsOuts, stepResetW, stepKid, resetKid, List.getElem?_cons_succ, List.getElem?_cons_zero,
            List.set_cons_succ, List.set_cons_zero, h.1, hp.1, hreset k, presetRef, if_true]
          have := ih 1 (rec t).p st ts bs h.2 hp.2
          simp only [recAfter] at this ⊢
          rw [this]
        | false =>
          simp only [clsOuts, stepResetW, stepKid, List.getElem?_cons_succ, List.getElem?_cons_zero,
            List.set_cons_succ, List.set_cons_zero, h.1, hp.1, presetRef, Bool.false_eq_true, if_false]
          rw [← recAfter_succ' rec k p0, ih (k + 1) (rec t).p st ts bs h.2 hp.2]

/-- One step: a positive trigger resets the pattern before it is stepped, any other trigger value does not. -/
theorem preset_reference_step (rs : Pat → Pat) (rec : Rec) (p t : Pat) (st : St) (tv : Val) (ht : (rec t).out = .val tv) :
    (trigPos tv = some true → (stepResetW rs rec [p, t] st).out = (rec (rs p)).out) ∧
    (trigPos tv = some false → (stepResetW rs rec [p, t] st).out = (rec p).out) := by
  constructor <;> intro h <;> simp [stepResetW, stepKid, resetKid, ht, h]

-- PReset(PSequence([1, 2, 3]), PSequence([0, 0, 1, 0, None, 2])): restarted at the 3rd and 6th step
example : clsOuts (stepResetW reset) (stepF 5) 6
    [.node .seq [Pat.const (.int 1), Pat.const (.int 2), Pat.const (.int 3)] { n0 := -1 },
     .node .seq [Pat.const (.int 0), Pat.const (.int 0), Pat.const (.int 1), Pat.const (.int 0), Pat.const Val.none, Pat.const (.int 2)] { n0 := 1 }] {} =
    [.val (.int 1), .val (.int 2), .val (.int 1), .val (.int 2), .val (.int 3), .val (.int 1)] := by decide

/-! ### PCollapse -/

/-- Not a rest. -/
def notRest (o : Out) : Bool := o != Out.val Val.none

theorem collapseLoop_step (rec : Rec) (f : Nat) (a : Pat) :
    collapseLoop rec (f + 1) [a] =
      (if (rec a).out = .val Val.none then collapseLoop rec f [(rec a).p] else ((rec a).out, [(rec a).p])) := by
  simp only [collapseLoop, step1]
  split
  · rename_i h; simp [h, Val.none]
  · rename_i h
    have : ¬ (rec a).out = .val Val.none := fun e => h (by simpa [Val.none] using e)
    simp [this]

/-- The loop's result does not depend on the fuel once a non-rest lies within reach. -/
theorem collapseLoop_fuel (rec : Rec) (m : Nat) : ∀ (a : Pat) (f g : Nat), m < f → m < g →
    (∃ o ∈ recOuts rec m a, notRest o = true) → collapseLoop rec f [a] = collapseLoop rec g [a] := by
  induction m with
  | zero => intro a f g _ _ h; simp [recOuts] at h
  | succ m ih =>
    intro a f g hf hg h
    cases f with
    | zero => omega
    | succ f =>
      cases g with
      | zero => omega
      | succ g =>
        rw [collapseLoop_step, collapseLoop_step]
        by_cases hn : (rec a).out = .val Val.none
        · simp only [if_pos hn]
          apply ih _ f g (by omega) (by omega)
          obtain ⟨o, ho, hno⟩ := h
          simp only [recOuts, List.mem_cons] at ho
          rcases ho with rfl | ho
          · simp [notRest, hn] at hno
          · exact ⟨o, ho, hno⟩
        · simp only [if_neg hn]

/-- **PCollapse = the input without its rests** (StopIteration and exceptions pass through), for finite and
    infinite inputs alike: the outcomes are the first `m` outcomes of the input with the rests removed
    (`m` below the loop fuel). -/
theorem collapse_reference (rec : Rec) (m : Nat) : ∀ (a : Pat) (st : St), m < LOOPFUEL →
    clsOuts stepCollapse rec ((recOuts rec m a).filter notRest).length [a] st = (recOuts rec m a).filter notRest := by
  induction m with
  | zero => intros; rfl
  | succ m ih =>
    intro a st hm
    have hf : LOOPFUEL = (LOOPFUEL - 1) + 1 := by decide
    simp only [recOuts]
    by_cases hn : (rec a).out = .val Val.none
    · have e : ((rec a).out :: recOuts rec m (rec a).p).filter notRest = (recOuts rec m (rec a).p).filter notRest := by
        simp [notRest, hn]
      rw [e]
      have ih' := ih (rec a).p st (by omega)
      cases hL : ((recOuts rec m (rec a).p).filter notRest).length with
      | zero => rw [hL] at ih'; rw [← ih']; rfl
      | succ L =>
        rw [hL] at ih'
        rw [← ih']
        have hw : ∃ o ∈ recOuts rec m (rec a).p, notRest o = true := by
          cases hl : (recOuts rec m (rec a).p).filter notRest with
          | nil => rw [hl] at hL; simp at hL
          | cons o os =>
            have : o ∈ (recOuts rec m (rec a).p).filter notRest := by rw [hl]; simp
            exact ⟨o, (List.mem_filter.mp this).1, (List.mem_filter.mp this).2⟩
        have hloop : collapseLoop rec LOOPFUEL [a] = collapseLoop rec LOOPFUEL [(rec a).p] := by
          rw [hf, collapseLoop_step, if_pos hn]
          exact collapseLoop_fuel rec m _ _ _ (by omega) (by omega) hw
        simp only [clsOuts, stepCollapse, hloop]
    · have e : ((rec a).out :: recOuts rec m (rec a).p).filter notRest =
          (rec a).out :: (recOuts rec m (rec a).p).filter notRest := by
        simp [List.filter_cons, notRest, hn]
      rw [e]
      have hloop : collapseLoop rec LOOPFUEL [a] = ((rec a).out, [(rec a).p]) := by
        rw [hf, collapseLoop_step, if_neg hn]
      simp only [List.length_cons, clsOuts, stepCollapse, hloop]
      rw [ih (rec a).p st (by omega)]

/-- On a finite input: the non-rest values, then StopIteration. -/
theorem collapse_reference_finite (rec : Rec) (a : Pat) (st : St) (xs : List Val) (hlen : xs.length + 1 < LOOPFUEL)
    (hin : recOuts rec (xs.length + 1) a = xs.map Out.val ++ [Out.stop]) :
    clsOuts stepCollapse rec ((xs.filter (fun v => v != Val.none)).length + 1) [a] st =
      (xs.filter (fun v => v != Val.none)).map Out.val ++ [Out.stop] := by
  have h := collapse_reference rec (xs.length + 1) a st hlen
  rw [hin] at h
  have e : (xs.map Out.val ++ [Out.stop]).filter notRest = (xs.filter (fun v => v != Val.none)).map Out.val ++ [Out.stop] := by
    rw [List.filter_append, List.filter_map]
    congr 1
    apply congrArg
    apply List.filter_congr
    intro v _
    by_cases hv : v = Val.none
    · simp [notRest, hv]
    · have h1 : (Out.val v != Out.val Val.none) = true := bne_iff_ne.mpr (fun e => hv (Out.val.inj e))
      have h2 : (v != Val.none) = true := bne_iff_ne.mpr hv
      simp only [notRest, Function.comp, h1, h2]
  rw [e] at h
  simpa using h

example : clsOuts stepCollapse (stepF 5) 4
    [.node .seq [Pat.const Val.none, Pat.const (.int 1), Pat.const Val.none, Pat.const Val.none, Pat.const (.int 2), Pat.const Val.none] { n0 := 1 }] {} =
    [.val (.int 1), .val (.int 2), .stop, .stop] := by decide

/-! ### PNoRepeats -/

/-- Reference definition: drop every value equal (Python `==`) to the last value kept (initially, and also always,
    `sys.maxsize`); StopIteration and exceptions pass through and do not count as values. -/
def noRepRef (prev : Val) : List Out → List Out
  | [] => []
  | .val v :: os => if v.pyEq prev || v.pyEq (.int MAXSIZE) then noRepRef prev os else .val v :: noRepRef v os
  | .stop :: os => .stop :: noRepRef prev os
  | .err e :: os => .err e :: noRepRef prev os

theorem noRepLoop_step (rec : Rec) (prev : Val) (f : Nat) (a : Pat) :
    noRepLoop rec prev (f + 1) [a] =
      (match (rec a).out with
       | .val v => if v.pyEq prev || v.pyEq (.int MAXSIZE) then noRepLoop rec prev f [(rec a).p] else (.val v, [(rec a).p])
       | o => (o, [(rec a).p])) := by
  simp only [noRepLoop, step1]
  cases (rec a).out <;> rfl

theorem noRepLoop_fuel (rec : Rec) (prev : Val) (m : Nat) : ∀ (a : Pat) (f g : Nat), m < f → m < g →
    noRepRef prev (recOuts rec m a) ≠ [] → noRepLoop rec prev f [a] = noRepLoop rec prev g [a] := by
  induction m with
  | zero => intro a f g _ _ h; simp [recOuts, noRepRef] at h
  | succ m ih =>
    intro a f g hf hg h
    cases f with
    | zero => omega
    | succ f =>
      cases g with
      | zero => omega
      | succ g =>
        rw [noRepLoop_step, noRepLoop_step]
        simp only [recOuts] at h
        cases ho : (rec a).out with
        | val v =>
          rw [ho] at h
          simp only [noRepRef] at h
          by_cases hc : (v.pyEq prev || v.pyEq (.int MAXSIZE)) = true
          · simp only [hc, if_true] at h ⊢
            exact ih _ f g (by omega) (by omega) h
          · simp only [hc]
            rfl
        | stop => rfl
        | err e => rfl

/-- **PNoRepeats = the input without immediate repetitions**, for finite and infinite inputs alike. -/
theorem noRepeats_reference (rec : Rec) (m : Nat) : ∀ (a : Pat) (st : St), m < LOOPFUEL →
    clsOuts stepNoRepeats rec (noRepRef st.v0 (recOuts rec m a)).length [a] st = noRepRef st.v0 (recOuts rec m a) := by
  induction m with
  | zero => intros; rfl
  | succ m ih =>
    intro a st hm
    have hf : LOOPFUEL = (LOOPFUEL - 1) + 1 := by decide
    simp only [recOuts]
    cases ho : (rec a).out with
    | val v =>
      by_cases hc : (v.pyEq st.v0 || v.pyEq (.int MAXSIZE)) = true
      · have e : noRepRef st.v0 (Out.val v :: recOuts rec m (rec a).p) = noRepRef st.v0 (recOuts rec m (rec a).p) := by
          simp only [noRepRef, hc, if_true]
        rw [e]
        have ih' := ih (rec a).p st (by omega)
        cases hL : (noRepRef st.v0 (recOuts rec m (rec a).p)).length with
        | zero => rw [hL] at ih'; rw [← ih']; rfl
        | succ L =>
          rw [hL] at ih'
          rw [← ih']
          have hw : noRepRef st.v0 (recOuts rec m (rec a).p) ≠ [] := by
            intro hnil; rw [hnil] at hL; simp at hL
          have hloop : noRepLoop rec st.v0 LOOPFUEL [a] = noRepLoop rec st.v0 LOOPFUEL [(rec a).p] := by
            rw [hf, noRepLoop_step, ho]
            simp only [hc, if_true]
            exact noRepLoop_fuel rec st.v0 m _ _ _ (by omega) (by omega) hw
          simp only [clsOuts, stepNoRepeats, hloop]
      · have e : noRepRef st.v0 (Out.val v :: recOuts rec m (rec a).p) = Out.val v :: noRepRef v (recOuts rec m (rec a).p) := by
          simp only [noRepRef, hc]; rfl
        rw [e]
        have hloop : noRepLoop rec st.v0 LOOPFUEL [a] = (.val v, [(rec a).p]) := by
          rw [hf, noRepLoop_step, ho]
          simp only [hc]; rfl
        simp only [List.length_cons, clsOuts, stepNoRepeats, hloop]
        exact congrArg _ (ih (rec a).p { st with v0 := v } (by omega))
    | stop =>
      have hloop : noRepLoop rec st.v0 LOOPFUEL [a] = (.stop, [(rec a).p]) := by
        rw [hf, noRepLoop_step, ho]
      simp only [noRepRef, List.length_cons, clsOuts, stepNoRepeats, hloop]
      rw [ih (rec a).p st (by omega)]
    | err e =>
      have hloop : noRepLoop rec st.v0 LOOPFUEL [a] = (.err e, [(rec a).p]) := by
        rw [hf, noRepLoop_step, ho]
      simp only [noRepRef, List.length_cons, clsOuts, stepNoRepeats, hloop]
      rw [ih (rec a).p st (by omega)]

example : clsOuts stepNoRepeats (stepF 5) 6
    [.node .seq [Pat.const (.int 1), Pat.const (.int 1), Pat.const (.flt 2), Pat.const (.int 2), Pat.const Val.none, Pat.const Val.none, Pat.const (.int 1)] { n0 := 1 }]
    { v0 := .int MAXSIZE } =
    [.val (.int 1), .val (.flt 2), .val Val.none, .val (.int 1), .stop, .stop] := by decide

/-! ### PPermut -/

theorem picks_length {α : Type} (l : List α) : ∀ p ∈ picks l, p.2.length + 1 = l.length := by
  induction l with
  | nil => intro p hp; simp [picks] at hp
  | cons x xs ih =>
    intro p hp
    simp only [picks, List.mem_cons, List.mem_map] at hp
    rcases hp with rfl | ⟨p', hp', rfl⟩
    · rfl
    · simp only [List.length_cons]; rw [← ih p' hp']

theorem permsF_length {α : Type} (n : Nat) : ∀ l : List α, l.length = n → ∀ q ∈ permsF n l, q.length = n := by
  induction n with
  | zero => intro l _ q hq; simp [permsF] at hq; simp [hq]
  | succ n ih =>
    intro l hl q hq
    simp only [permsF, List.mem_flatMap, List.mem_map] at hq
    obtain ⟨p, hp, q', hq', rfl⟩ := hq
    have := picks_length l p hp
    simp only [List.length_cons]
    rw [ih p.2 (by omega) q' hq']

/-- Every arrangement produced has the length of the block. -/
theorem perms_length {α : Type} (l : List α) : ∀ q ∈ perms l, q.length = l.length :=
  permsF_length l.length l rfl

theorem drop_cons_getElem? {α : Type} {l : List α} {i : Nat} {x : α} {r : List α} (h : l.drop i = x :: r) :
    l[i]? = some x ∧ l.drop (i + 1) = r := by
  constructor
  · have : (l.drop i)[0]? = some x := by rw [h]; rfl
    simpa using this
  · have := congrArg (List.drop 1) h
    simpa [List.drop_drop] using this

theorem permBlock_full (rec : Rec) (vs : List Val) : ∀ (a : Pat) (acc : List Val),
    recOuts rec vs.length a = vs.map Out.val →
    (permBlock rec vs.length [a] acc).1 = Option.none ∧ (permBlock rec vs.length [a] acc).2.2 = acc.reverse ++ vs := by
  induction vs with
  | nil => intro a acc _; simp [permBlock]
  | cons v vs ih =>
    intro a acc h
    simp only [List.length_cons, recOuts, List.map_cons, List.cons.injEq] at h
    obtain ⟨i1, i2⟩ := ih (rec a).p (v :: acc) h.2
    simp only [List.length_cons, permBlock, step1, h.1]
    exact ⟨i1, by rw [i2]; simp⟩

theorem permBlock_short (rec : Rec) (vs : List Val) : ∀ (a : Pat) (acc : List Val) (c : Nat), vs.length < c →
    recOuts rec (vs.length + 1) a = vs.map Out.val ++ [Out.stop] →
    (permBlock rec c [a] acc).1 = Option.none ∧ (permBlock rec c [a] acc).2.2 = acc.reverse ++ vs := by
  induction vs with
  | nil =>
    intro a acc c hc h
    cases c with
    | zero => omega
    | succ c =>
      simp [recOuts] at h
      simp [permBlock, step1, h]
  | cons v vs ih =>
    intro a acc c hc h
    cases c with
    | zero => omega
    | succ c =>
      simp only [List.length_cons, recOuts, List.map_cons, List.cons_append, List.cons.injEq] at h
      obtain ⟨i1, i2⟩ := ih (rec a).p (v :: acc) c (by simp at hc; omega) h.2
      simp only [permBlock, step1, h.1]
      exact ⟨i1, by rw [i2]; simp⟩

theorem permCount_played {st : St} (h3 : st.n3 ≠ 0) : permCount st = ((perms st.buf).length : Int) := by
  simp [permCount, h3]

theorem permEmit_val (kids : List Pat) (st : St) (v : Val) (h3 : st.n3 ≠ 0) (hlt : st.n1 < ((perms st.buf).length : Int))
    (hat : permAt st.buf st.n1.toNat st.n2.toNat = some v) :
    permEmit kids st = { out := .val v, kids := kids, st := { st with n2 := st.n2 + 1 } } := by
  simp only [permEmit]
  rw [if_neg (by rw [permCount_played h3]; omega)]
  simp only [hat]

/-- Finished: `permindex = len(permutations)`, `pos` inside the block: StopIteration for ever. -/
theorem permut_finished (rec : Rec) (n : Nat) : ∀ (kids : List Pat) (st : St), st.n3 ≠ 0 →
    st.n1 = ((perms st.buf).length : Int) → st.n2 < st.buf.length →
    clsOuts stepPermut rec n kids st = finOuts n [] := by
  induction n with
  | zero => intros; rfl
  | succ n ih =>
    intro kids st h3 h1 h2
    have hN := permCount_played h3
    have e : stepPermut rec kids st = { out := .stop, kids := kids, st := st } := by
      simp only [stepPermut, permEmit]
      rw [if_neg (by omega), if_neg (by omega), if_pos (by omega)]
    simp only [clsOuts, e, finOuts]
    rw [ih kids st h3 h1 h2]

/-- Playing: `q` = current arrangement (index `i`), `j` values of it already played, `Rl` = the arrangements to come. -/
theorem permut_playing (rec : Rec) (vs : List Val) (hne : vs ≠ []) (n : Nat) :
    ∀ (i j : Nat) (q : List Val) (Rl : List (List Val)) (kids : List Pat) (st : St),
      (perms vs).drop i = q :: Rl → j ≤ vs.length → st.n3 ≠ 0 → st.buf = vs → st.n1 = (i : Int) → st.n2 = (j : Int) →
      clsOuts stepPermut rec n kids st = finOuts n (q.drop j ++ Rl.flatten) := by
  induction n with
  | zero => intros; rfl
  | succ n ih =>
    intro i j q Rl kids st hdrop hj h3 hb h1 h2
    obtain ⟨hq, hRl⟩ := drop_cons_getElem? hdrop
    have hi : i < (perms vs).length := by
      have := (List.getElem?_eq_some_iff.mp hq).1; exact this
    have hqlen : q.length = vs.length := perms_length vs q (List.mem_of_getElem? hq)
    have hL : 0 < vs.length := by cases vs with
      | nil => exact absurd rfl hne
      | cons _ _ => simp
    have hN : permCount st = ((perms vs).length : Int) := by rw [permCount_played h3, hb]
    have hng : ¬ st.n1 > permCount st := by omega
    by_cases hjl : j = vs.length
    · -- the current arrangement is finished: move to the next one
      have hpos : st.n2 ≥ (st.buf.length : Int) := by rw [hb]; omega
      have hqd : q.drop j = [] := List.drop_of_length_le (by omega)
      simp only [clsOuts, stepPermut, if_neg hng, if_pos hpos, hqd, List.nil_append]
      cases Rl with
      | nil =>
        have hend : (perms vs).length ≤ i + 1 := List.drop_eq_nil_iff.mp hRl
        have hge : ({ st with n1 := st.n1 + 1, n2 := 0 } : St).n1 ≥ permCount { st with n1 := st.n1 + 1, n2 := 0 } := by
          show st.n1 + 1 ≥ permCount st
          omega
        simp only [permEmit, if_pos hge, List.flatten_nil, finOuts]
        exact congrArg _ (permut_finished rec n kids { st with n1 := st.n1 + 1, n2 := 0 } h3
          (show st.n1 + 1 = ((perms st.buf).length : Int) by rw [hb]; omega)
          (show (0 : Int) < (st.buf.length : Int) by rw [hb]; omega))
      | cons q' Rl' =>
        obtain ⟨hq', _⟩ := drop_cons_getElem? hRl
        have hi' : i + 1 < (perms vs).length := (List.getElem?_eq_some_iff.mp hq').1
        have hq'len : q'.length = vs.length := perms_length vs q' (List.mem_of_getElem? hq')
        have hlt : ¬ ({ st with n1 := st.n1 + 1, n2 := 0 } : St).n1 ≥ permCount { st with n1 := st.n1 + 1, n2 := 0 } := by
          show ¬ st.n1 + 1 ≥ permCount st
          omega
        cases q' with
        | nil => simp at hq'len; omega
        | cons c0 t =>
          have hat : permAt ({ st with n1 := st.n1 + 1, n2 := 0 } : St).buf ({ st with n1 := st.n1 + 1, n2 := 0 } : St).n1.toNat
              ({ st with n1 := st.n1 + 1, n2 := 0 } : St).n2.toNat = some c0 := by
            show permAt st.buf (st.n1 + 1).toNat (0 : Int).toNat = some c0
            have : (st.n1 + 1).toNat = i + 1 := by omega
            rw [this, hb]
            simp [permAt, hq']
          simp only [permEmit, if_neg hlt, hat, List.flatten_cons, List.cons_append, finOuts]
          exact congrArg _ (ih (i + 1) 1 (c0 :: t) Rl' kids { st with n1 := st.n1 + 1, n2 := 0 + 1 } hRl (by omega) h3 hb
            (show st.n1 + 1 = ((i + 1 : Nat) : Int) by omega) (show (0 : Int) + 1 = ((1 : Nat) : Int) by rfl))
    · have hjlt : j < q.length := by omega
      have hpos : ¬ st.n2 ≥ (st.buf.length : Int) := by rw [hb]; omega
      have hlt : ¬ st.n1 ≥ permCount st := by omega
      have hat : permAt st.buf st.n1.toNat st.n2.toNat = some q[j] := by
        have e1 : st.n1.toNat = i := by omega
        have e2 : st.n2.toNat = j := by omega
        rw [e1, e2, hb]
        simp [permAt, hq, List.getElem?_eq_getElem hjlt]
      have hqd : q.drop j = q[j] :: q.drop (j + 1) := List.drop_eq_getElem_cons hjlt
      simp only [clsOuts, stepPermut, if_neg hng, if_neg hpos, permEmit, if_neg hlt, hat, hqd, List.cons_append, finOuts]
      exact congrArg _ (ih i (j + 1) q Rl kids { st with n2 := st.n2 + 1 } hdrop (by omega) h3 hb h1
        (show st.n2 + 1 = ((j + 1 : Nat) : Int) by omega))

/-- Empty block (exhausted input or `count ≤ 0`): StopIteration for ever. -/
theorem permut_empty (rec : Rec) (n : Nat) : ∀ (a : Pat) (st : St), st.n1 > permCount st →
    (st.n0.toNat = 0 ∨ FiniteInput rec a []) → clsOuts stepPermut rec n [a] st = finOuts n [] := by
  induction n with
  | zero => intros; rfl
  | succ n ih =>
    intro a st hgt hin
    rcases hin with hc | hin
    · have e : stepPermut rec [a] st = { out := .stop, kids := [a], st := st } := by
        simp [stepPermut, if_pos hgt, hc, permBlock]
      simp only [clsOuts, e, finOuts]
      rw [ih a st hgt (Or.inl hc)]
    · obtain ⟨i1, i2⟩ := hin.nil
      cases hc : st.n0.toNat with
      | zero =>
        have e : stepPermut rec [a] st = { out := .stop, kids := [a], st := st } := by
          simp [stepPermut, if_pos hgt, hc, permBlock]
        simp only [clsOuts, e, finOuts]
        rw [ih a st hgt (Or.inl hc)]
      | succ c =>
        have e : stepPermut rec [a] st = { out := .stop, kids := [(rec a).p], st := st } := by
          simp [stepPermut, if_pos hgt, hc, permBlock, step1, i1]
        simp only [clsOuts, e, finOuts]
        rw [ih (rec a).p st hgt (Or.inr i2)]

/-- **PPermut = every arrangement of the first `count` input values, lexicographic by position
    (`itertools.permutations`), then StopIteration**: with `vs` the block read — the first `count` values of the
    input, or all of them when the (finite) input is shorter — the outcomes are
    `take n (flatten (perms vs) ++ stop, stop, …)`. -/
theorem permut_reference (rec : Rec) (a : Pat) (st : St) (vs : List Val) (n : Nat)
    (h3 : st.n3 = 0) (h1 : 0 < st.n1)
    (hin : (vs.length = st.n0.toNat ∧ recOuts rec vs.length a = vs.map Out.val ∧ (vs = [] → st.n0.toNat = 0)) ∨
           (vs.length < st.n0.toNat ∧ FiniteInput rec a vs)) :
    clsOuts stepPermut rec n [a] st = (((perms vs).flatten).map Out.val ++ List.replicate n Out.stop).take n := by
  rw [← finOuts_eq]
  have hN : permCount st = 0 := by simp [permCount, h3]
  have hgt : st.n1 > permCount st := by omega
  cases vs with
  | nil =>
    have : (perms ([] : List Val)).flatten = [] := by decide
    rw [this]
    rcases hin with ⟨_, _, hc⟩ | ⟨_, hf⟩
    · exact permut_empty rec n a st hgt (Or.inl (hc rfl))
    · exact permut_empty rec n a st hgt (Or.inr hf)
  | cons v vs =>
    have hblock : (permBlock rec st.n0.toNat [a] []).1 = Option.none ∧ (permBlock rec st.n0.toNat [a] []).2.2 = v :: vs := by
      rcases hin with ⟨hl, hr, _⟩ | ⟨hl, hf⟩
      · rw [← hl]; simpa using permBlock_full rec (v :: vs) a [] hr
      · have := hf 1
        simpa using permBlock_short rec (v :: vs) a [] st.n0.toNat hl (by simpa using this)
    cases n with
    | zero => rfl
    | succ n =>
      have hd : (perms (v :: vs)).drop 0 = perms (v :: vs) := rfl
      cases hP : perms (v :: vs) with
      | nil =>
        -- impossible: there is always at least one arrangement
        exfalso
        have : (perms (v :: vs)).length ≠ 0 := by
          simp only [perms, permsF, picks, List.length_cons, List.flatMap_cons, List.length_append, List.length_map]
          cases h : permsF vs.length vs with
          | nil =>
            exfalso
            have : ∀ (k : Nat) (l : List Val), permsF k l ≠ [] ∨ l.length ≠ k := by
              intro k
              induction k with
              | zero => intro l; left; simp [permsF]
              | succ k ihk =>
                intro l
                cases l with
                | nil => right; simp
                | cons y ys =>
                  rcases ihk ys with h' | h'
                  · left
                    simp only [permsF, picks, List.flatMap_cons]
                    intro hnil
                    have := List.append_eq_nil_iff.mp hnil
                    simp at this
                    exact h' this.1
                  · right; simpa using h'
            rcases this vs.length vs with h' | h'
            · exact h' h
            · exact h' rfl
          | cons _ _ => simp
        rw [hP] at this; simp at this
      | cons q Rl =>
        have hq0 : q.length = (v :: vs).length := perms_length (v :: vs) q (by rw [hP]; simp)
        cases q with
        | nil => simp at hq0
        | cons c0 t =>
          have hat : permAt (v :: vs) 0 0 = some c0 := by simp [permAt, hP]
          have hlt : ¬ ((0 : Int) ≥ ((perms (v :: vs)).length : Int)) := by rw [hP]; simp
          have e : stepPermut rec [a] st = ClsRes.mk (.val c0) ((permBlock rec st.n0.toNat [a] []).2.1)
              { st with buf := v :: vs, n3 := 1, n1 := 0, n2 := 0 + 1 } := by
            simp only [stepPermut, if_pos hgt, hblock.1, hblock.2]
            exact permEmit_val _ { st with buf := v :: vs, n3 := 1, n1 := 0, n2 := 0 } c0 (show (1 : Int) ≠ 0 by decide)
              (show (0 : Int) < ((perms (v :: vs)).length : Int) by omega) hat
          simp only [clsOuts, e, List.flatten_cons, List.cons_append, finOuts]
          exact congrArg _ (permut_playing rec (v :: vs) (by simp) n 0 1 (c0 :: t) Rl _
            { st with buf := v :: vs, n3 := 1, n1 := 0, n2 := 0 + 1 } (by rw [← hP]; rfl) (by simp)
            (show (1 : Int) ≠ 0 by decide) rfl rfl rfl)

example : clsOuts stepPermut (stepF 5) 8 [.node .seq [Pat.const (.int 1), Pat.const (.int 2), Pat.const (.int 3)] { n0 := -1 }]
    { n0 := 2, n1 := MAXSIZE, n2 := MAXSIZE } =
    [.val (.int 1), .val (.int 2), .val (.int 2), .val (.int 1), .stop, .stop, .stop, .stop] := by decide
example : perms [1, 2, 3] = [[1, 2, 3], [1, 3, 2], [2, 1, 3], [2, 3, 1], [3, 1, 2], [3, 2, 1]] := by decide

/-! ### PEuclidean -/

/-- With constant parameters the object cycles through the rhythm `seq = _euclidean(length, mod)`, starting at
    position `s0` (`pos` when `pos < len`, else 0). -/
theorem euclidean_cycle (rec : Rec) (km kl : Pat) (k n : Int) (seq : List Bool)
    (hkm : (rec km).out = .val (.int k) ∧ (rec km).p = km) (hkl : (rec kl).out = .val (.int n) ∧ (rec kl).p = kl)
    (hseq : euclid n k = some seq) (m : Nat) : ∀ (s0 : Nat) (st : St), s0 < seq.length →
    (if st.n0 ≥ (seq.length : Int) then 0 else st.n0) = (s0 : Int) →
    clsOuts stepEuclidean rec m [km, kl] st =
      (List.range m).map (fun i => Out.val (onsetVal (seq.getD ((s0 + i) % seq.length) false))) := by
  induction m with
  | zero => intros; rfl
  | succ m ih =>
    intro s0 st hs0 hst
    have hes : euclidSeq (.int n) (.int k) = some seq := by simp [euclidSeq, Atom.toInt?, hseq]
    have hidx : pyIndex seq.length (s0 : Int) = some s0 := by simp [pyIndex, hs0]
    have hget : seq[s0]? = some (seq.getD s0 false) := by
      rw [List.getElem?_eq_getElem hs0]; simp [List.getD, List.getElem?_eq_getElem hs0]
    have e : stepEuclidean rec [km, kl] st =
        ClsRes.mk (.val (onsetVal (seq.getD s0 false))) [km, kl] { st with n0 := (s0 : Int) + 1 } := by
      simp only [stepEuclidean, stepKid, List.getElem?_cons_succ, List.getElem?_cons_zero, List.set_cons_succ,
        List.set_cons_zero, hkl.1, hkl.2, hkm.1, hkm.2, hes, euclidEmit, hst, hidx, hget]
    rw [List.range_succ_eq_map]
    simp only [clsOuts, e, List.map_cons, List.map_map, Nat.add_zero, Nat.mod_eq_of_lt hs0]
    congr 1
    have hnext : (if ({ st with n0 := (s0 : Int) + 1 } : St).n0 ≥ (seq.length : Int) then 0
        else ({ st with n0 := (s0 : Int) + 1 } : St).n0) = (((s0 + 1) % seq.length : Nat) : Int) := by
      show (if (s0 : Int) + 1 ≥ (seq.length : Int) then 0 else (s0 : Int) + 1) = _
      by_cases h : s0 + 1 = seq.length
      · have : (s0 + 1) % seq.length = 0 := by rw [h]; exact Nat.mod_self _
        rw [this, if_pos (by omega)]; rfl
      · have : (s0 + 1) % seq.length = s0 + 1 := Nat.mod_eq_of_lt (by omega)
        rw [this, if_neg (by omega)]; simp
    rw [ih ((s0 + 1) % seq.length) _ (Nat.mod_lt _ (by omega)) hnext]
    apply List.map_congr_left
    intro i _
    simp only [Function.comp, Nat.succ_eq_add_one]
    have : ((s0 + 1) % seq.length + i) % seq.length = (s0 + (i + 1)) % seq.length := by
      rw [Nat.add_mod, Nat.mod_mod, ← Nat.add_mod]; congr 1; omega
    rw [this]

/-- **PEuclidean(k, n, phase) with `1 ≤ n ≤ 64`, `k ≤ n`, `phase ≤ n`: the output cycles, from position `phase`,
    through a rhythm of `n` steps with exactly `k` onsets (1; the other steps are rests) whose cyclic gaps are all
    `⌊n/k⌋` or `⌈n/k⌉`** — for constant parameters given as scalars, constants or any sub-pattern that keeps
    yielding `k` / `n`. -/
theorem euclidean_reference (rec : Rec) (km kl : Pat) (k n phase : Nat) (st : St)
    (h1 : 1 ≤ n) (h2 : n ≤ 64) (hk : k ≤ n) (hph : phase ≤ n) (hst : st.n0 = (phase : Int))
    (hkm : (rec km).out = .val (.int (k : Int)) ∧ (rec km).p = km)
    (hkl : (rec kl).out = .val (.int (n : Int)) ∧ (rec kl).p = kl) :
    ∃ seq : List Bool, MaxEven n k seq ∧ ∀ m,
      clsOuts stepEuclidean rec m [km, kl] st =
        (List.range m).map (fun i => Out.val (onsetVal (seq.getD ((phase + i) % n) false))) := by
  obtain ⟨seq, hs, hm⟩ := (euclid_even n k h1 h2 hk).spec
  refine ⟨seq, hm, fun m => ?_⟩
  have hlen : seq.length = n := hm.1
  have hc := euclidean_cycle rec km kl k n seq hkm hkl hs m (phase % n) st (by rw [hlen]; exact Nat.mod_lt _ (by omega))
    (by
      rw [hlen, hst]
      by_cases h : phase = n
      · rw [h, Nat.mod_self, if_pos (by omega)]; rfl
      · rw [Nat.mod_eq_of_lt (by omega), if_neg (by omega)])
  rw [hc, hlen]
  apply List.map_congr_left
  intro i _
  have : (phase % n + i) % n = (phase + i) % n := by rw [Nat.add_mod, Nat.mod_mod, ← Nat.add_mod]
  rw [this]

example : clsOuts stepEuclidean (stepF 5) 10 [Pat.const (.int 3), Pat.const (.int 8)] { n0 := 2, n1 := 2 } =
    [.val Val.none, .val (.int 1), .val Val.none, .val Val.none, .val (.int 1), .val Val.none, .val (.int 1), .val Val.none,
     .val Val.none, .val (.int 1)] := by decide

/-! ### PArpeggiator -/

theorem insertNote_perm (x : Val) (l : List Val) : (insertNote x l).Perm (x :: l) := by
  induction l with
  | nil => exact List.Perm.refl _
  | cons y ys ih =>
    simp only [insertNote]
    split
    · exact List.Perm.refl _
    · exact (List.Perm.cons y ih).trans (List.Perm.swap x y ys)

/-- `sorted(notes)` is a rearrangement of the chord … -/
theorem sortNotes_perm (l : List Val) : (sortNotes l).Perm l := by
  induction l with
  | nil => exact List.Perm.refl _
  | cons x xs ih => exact (insertNote_perm x (sortNotes xs)).trans (List.Perm.cons x ih)

theorem insertNote_sorted (x : Val) (l : List Val) (h : l.Pairwise (fun a b => valKey a ≤ valKey b)) :
    (insertNote x l).Pairwise (fun a b => valKey a ≤ valKey b) := by
  induction l with
  | nil => simp [insertNote]
  | cons y ys ih =>
    obtain ⟨h1, h2⟩ := List.pairwise_cons.mp h
    simp only [insertNote]
    split
    · rename_i hxy
      refine List.pairwise_cons.mpr ⟨?_, h⟩
      intro a ha
      rcases List.mem_cons.mp ha with rfl | ha
      · exact hxy
      · exact Rat.le_trans hxy (h1 a ha)
    · rename_i hxy
      have hyx : valKey y ≤ valKey x := Rat.le_of_lt (Rat.not_le.mp hxy)
      refine List.pairwise_cons.mpr ⟨?_, ih h2⟩
      intro a ha
      rcases List.mem_cons.mp ((insertNote_perm x ys).mem_iff.mp ha) with rfl | ha
      · exact hyx
      · exact h1 a ha

/-- … in ascending order. -/
theorem sortNotes_sorted (l : List Val) : (sortNotes l).Pairwise (fun a b => valKey a ≤ valKey b) := by
  induction l with
  | nil => simp [sortNotes]
  | cons x xs ih => exact insertNote_sorted x _ ih

/-- Number of steps of one pass: the whole index sequence for the long types, else at most one per note. -/
def arpCount (type : Int) (notes offs : Nat) : Nat := if type > 5 then offs else min offs notes

theorem arp_cond (st : St) (offs : List Int) (j : Nat) (hj : st.n2 = (j : Int)) :
    (0 ≤ st.n2 ∧ st.n2 < (offs.length : Int) ∧ (st.n2 < (st.buf.length : Int) ∨ st.n0 > 5)) ↔
      j < arpCount st.n0 st.buf.length offs.length := by
  unfold arpCount
  split <;> omega

theorem arr_get {arr : List Val} {f : Nat → Option Val} {cnt : Nat}
    (harr : (List.range cnt).map f = arr.map some) : arr.length = cnt ∧ ∀ j (h : j < arr.length), f j = some arr[j] := by
  have hl : arr.length = cnt := by simpa using (congrArg List.length harr).symm
  refine ⟨hl, fun j h => ?_⟩
  have := congrArg (fun l => l[j]?) harr
  simp only [List.getElem?_map, List.getElem?_range (by omega : j < cnt), Option.map_some,
    List.getElem?_eq_getElem h] at this
  exact Option.some.inj this

theorem arp_step_play (rec : Rec) (kids : List Pat) (st : St) (offs : List Int) (v : Val) (hne : st.buf.length ≠ 0)
    (hoffs : arpOffsets st.n0 st.buf.length (st.n1 != 0) = some offs)
    (hc : 0 ≤ st.n2 ∧ st.n2 < (offs.length : Int) ∧ (st.n2 < (st.buf.length : Int) ∨ st.n0 > 5))
    (hn : arpNote (sortNotes st.buf) offs st.n2.toNat = some v) :
    stepArpeggiator rec kids st = ClsRes.mk (.val v) kids { st with n2 := st.n2 + 1 } := by
  simp only [stepArpeggiator, if_neg hne, hoffs, if_pos hc, hn]

theorem arp_step_stop (rec : Rec) (kids : List Pat) (st : St) (offs : List Int) (hne : st.buf.length ≠ 0)
    (hoffs : arpOffsets st.n0 st.buf.length (st.n1 != 0) = some offs)
    (hc : ¬ (0 ≤ st.n2 ∧ st.n2 < (offs.length : Int) ∧ (st.n2 < (st.buf.length : Int) ∨ st.n0 > 5)))
    (hl : st.n1 = 0) : stepArpeggiator rec kids st = ClsRes.mk .stop kids st := by
  have hb : (st.n1 != 0) = false := by simp [hl]
  simp only [stepArpeggiator, if_neg hne, hoffs, if_neg hc]
  simp only [hb]
  rfl

theorem arp_step_wrap (rec : Rec) (kids : List Pat) (st : St) (offs : List Int) (v : Val) (hne : st.buf.length ≠ 0)
    (hoffs : arpOffsets st.n0 st.buf.length (st.n1 != 0) = some offs)
    (hc : ¬ (0 ≤ st.n2 ∧ st.n2 < (offs.length : Int) ∧ (st.n2 < (st.buf.length : Int) ∨ st.n0 > 5)))
    (hl : st.n1 ≠ 0) (hn : arpNote (sortNotes st.buf) offs 0 = some v) :
    stepArpeggiator rec kids st = ClsRes.mk (.val v) kids { st with n2 := 1 } := by
  have hb : (st.n1 != 0) = true := by simp [hl]
  simp only [stepArpeggiator, if_neg hne, hoffs, if_neg hc, hn]
  simp only [hb]
  rfl

/-- One pass, then StopIteration (`loop = False`). -/
theorem arp_play (rec : Rec) (kids : List Pat) (offs : List Int) (arr : List Val) (n : Nat) :
    ∀ (j : Nat) (st : St), st.buf.length ≠ 0 → st.n1 = 0 →
      arpOffsets st.n0 st.buf.length (st.n1 != 0) = some offs →
      (List.range (arpCount st.n0 st.buf.length offs.length)).map (arpNote (sortNotes st.buf) offs) = arr.map some →
      st.n2 = (j : Int) → j ≤ arr.length →
      clsOuts stepArpeggiator rec n kids st = finOuts n (arr.drop j) := by
  induction n with
  | zero => intros; rfl
  | succ n ih =>
    intro j st hne hl hoffs harr hj hjle
    obtain ⟨hlen, hget⟩ := arr_get harr
    by_cases hlt : j < arr.length
    · have hc : 0 ≤ st.n2 ∧ st.n2 < (offs.length : Int) ∧ (st.n2 < (st.buf.length : Int) ∨ st.n0 > 5) :=
        (arp_cond st offs j hj).mpr (by omega)
      have hn : arpNote (sortNotes st.buf) offs st.n2.toNat = some arr[j] := by
        have : st.n2.toNat = j := by omega
        rw [this]; exact hget j hlt
      simp only [clsOuts, arp_step_play rec kids st offs _ hne hoffs hc hn, List.drop_eq_getElem_cons hlt, finOuts]
      exact congrArg _ (ih (j + 1) { st with n2 := st.n2 + 1 } hne hl hoffs harr (show st.n2 + 1 = ((j + 1 : Nat) : Int) by omega)
        (by omega))
    · have hc : ¬ (0 ≤ st.n2 ∧ st.n2 < (offs.length : Int) ∧ (st.n2 < (st.buf.length : Int) ∨ st.n0 > 5)) := by
        rw [arp_cond st offs j hj]; omega
      have hd : arr.drop j = [] := List.drop_of_length_le (by omega)
      simp only [clsOuts, arp_step_stop rec kids st offs hne hoffs hc hl, hd, finOuts]
      have := ih j st hne hl hoffs harr hj hjle
      rw [hd] at this
      rw [this]

/-- Endless repetition of the pass (`loop = True`). -/
theorem arp_loop (rec : Rec) (kids : List Pat) (offs : List Int) (arr : List Val) (hane : arr ≠ []) (n : Nat) :
    ∀ (j : Nat) (st : St), st.buf.length ≠ 0 → st.n1 ≠ 0 →
      arpOffsets st.n0 st.buf.length (st.n1 != 0) = some offs →
      (List.range (arpCount st.n0 st.buf.length offs.length)).map (arpNote (sortNotes st.buf) offs) = arr.map some →
      st.n2 = (j : Int) → j ≤ arr.length →
      clsOuts stepArpeggiator rec n kids st =
        (List.range n).map (fun i => Out.val (arr.getD ((j + i) % arr.length) Val.none)) := by
  induction n with
  | zero => intros; rfl
  | succ n ih =>
    intro j st hne hl hoffs harr hj hjle
    obtain ⟨hlen, hget⟩ := arr_get harr
    have hpos : 0 < arr.length := by cases arr with
      | nil => exact absurd rfl hane
      | cons _ _ => simp
    rw [List.range_succ_eq_map]
    simp only [List.map_cons, List.map_map, Nat.add_zero]
    by_cases hlt : j < arr.length
    · have hc : 0 ≤ st.n2 ∧ st.n2 < (offs.length : Int) ∧ (st.n2 < (st.buf.length : Int) ∨ st.n0 > 5) :=
        (arp_cond st offs j hj).mpr (by omega)
      have hn : arpNote (sortNotes st.buf) offs st.n2.toNat = some arr[j] := by
        have : st.n2.toNat = j := by omega
        rw [this]; exact hget j hlt
      have hg : arr.getD (j % arr.length) Val.none = arr[j] := by
        rw [Nat.mod_eq_of_lt hlt]; simp [List.getD, List.getElem?_eq_getElem hlt]
      simp only [clsOuts, arp_step_play rec kids st offs _ hne hoffs hc hn, hg]
      congr 1
      have := ih (j + 1) { st with n2 := st.n2 + 1 } hne hl hoffs harr (show st.n2 + 1 = ((j + 1 : Nat) : Int) by omega) (by omega)
      rw [this]
      apply List.map_congr_left
      intro i _
      simp only [Function.comp, Nat.succ_eq_add_one]
      have : j + 1 + i = j + (i + 1) := by omega
      rw [this]
    · have hje : j = arr.length := by omega
      have hc : ¬ (0 ≤ st.n2 ∧ st.n2 < (offs.length : Int) ∧ (st.n2 < (st.buf.length : Int) ∨ st.n0 > 5)) := by
        rw [arp_cond st offs j hj]; omega
      have hn : arpNote (sortNotes st.buf) offs 0 = some arr[0] := hget 0 hpos
      have hg : arr.getD (j % arr.length) Val.none = arr[0] := by
        rw [hje, Nat.mod_self]; simp [List.getD, List.getElem?_eq_getElem hpos]
      simp only [clsOuts, arp_step_wrap rec kids st offs _ hne hoffs hc hl hn, hg]
      congr 1
      have := ih 1 { st with n2 := 1 } hne hl hoffs harr rfl (by omega)
      rw [this]
      apply List.map_congr_left
      intro i _
      simp only [Function.comp, Nat.succ_eq_add_one]
      have : (j + (i + 1)) % arr.length = (1 + i) % arr.length := by
        rw [hje, Nat.add_mod, Nat.mod_self, Nat.zero_add, Nat.mod_mod]; congr 1; omega
      rw [this]

/-- **PArpeggiator plays the arrangement of its type over the sorted chord**: with `offs = restart()`'s index
    sequence for the type and `arr` the notes `sorted(chord)[offs[i]]` of one pass, the outcomes are `arr` followed
    by StopIteration (`loop = False`), or `arr` repeated for ever (`loop = True`).  (`sortNotes_perm`,
    `sortNotes_sorted`: the sorted chord; `arpeggiator_is_arrangement`: the index sequences.) -/
theorem arpeggiator_reference (rec : Rec) (kids : List Pat) (st : St) (offs : List Int) (arr : List Val) (n : Nat)
    (hne : st.buf ≠ []) (hpos : st.n2 = 0)
    (hoffs : arpOffsets st.n0 st.buf.length (st.n1 != 0) = some offs)
    (harr : (List.range (arpCount st.n0 st.buf.length offs.length)).map (arpNote (sortNotes st.buf) offs) = arr.map some) :
    (st.n1 = 0 → clsOuts stepArpeggiator rec n kids st = (arr.map Out.val ++ List.replicate n Out.stop).take n) ∧
    (st.n1 ≠ 0 → arr ≠ [] →
      clsOuts stepArpeggiator rec n kids st = (List.range n).map (fun i => Out.val (arr.getD (i % arr.length) Val.none))) := by
  have hne' : st.buf.length ≠ 0 := by cases hb : st.buf with
    | nil => exact absurd hb hne
    | cons _ _ => simp
  constructor
  · intro hl
    rw [← finOuts_eq]
    simpa using arp_play rec kids offs arr n 0 st hne' hl hoffs harr (by simp [hpos]) (by omega)
  · intro hl hane
    simpa using arp_loop rec kids offs arr hane n 0 st hne' hl hoffs harr (by simp [hpos]) (by omega)

/-- The positions (in the sorted chord) played in one pass of an arpeggio type over `n` notes. -/
def arpIdx (type : Int) (n : Nat) (loop : Bool) : Option (List Nat) :=
  (arpOffsets type n loop).bind (fun offs => (offs.take (arpCount type n offs.length)).mapM (pyIndex n))

def natRange (n : Nat) : List Nat := List.range n

theorem arp_arrangement_single : ∀ n, n ≤ 8 → 1 ≤ n →
    arpIdx 0 n false = some (natRange n) ∧
    arpIdx 1 n false = some (natRange n).reverse ∧
    arpIdx 2 n false = some ((natRange n).map (fun i => if i % 2 = 0 then i / 2 else n - 1 - i / 2)) ∧
    (arpIdx 3 n false).map (fun idx => idx.isPerm (natRange n)) = some true ∧
    (arpIdx 3 n false).bind List.head? = some ((n - 1) / 2) := by
  decide

theorem arp_arrangement_return : ∀ n, n ≤ 8 →
    (1 ≤ n → arpIdx 6 n false = some (natRange n ++ (natRange n).reverse.tail) ∧
             arpIdx 7 n false = some ((natRange n).reverse ++ (natRange n).tail)) ∧
    (2 ≤ n → arpIdx 6 n true = some (natRange n ++ (natRange n).reverse.tail.dropLast) ∧
             arpIdx 7 n true = some ((natRange n).reverse ++ (natRange n).tail.dropLast)) := by
  decide

theorem arp_arrangement_long : ∀ n, n ≤ 8 →
    (2 ≤ n → arpIdx 8 n false = some ((natRange n).flatMap (fun i => natRange (i + 1))) ∧
             arpIdx 9 n false = some ((natRange n).flatMap (fun i => (natRange (n - i)).reverse))) ∧
    (3 ≤ n → arpIdx 10 n false =
      some (0 :: (((natRange n).tail.dropLast ++ (natRange n).reverse.dropLast).flatMap (fun x => [x, 0])))) := by
  decide

/-- **The arpeggiator orders are arrangements of the chord, for chords of 1..8 notes** (positions in the sorted
    chord played in one pass): UP ascends, DOWN descends, CONVERGE alternates from the outside in (lowest, highest,
    second lowest, …), DIVERGE plays every note exactly once starting from the (lower) middle, UPDOWN / DOWNUP go
    there and back without repeating the turning point (and without the final note when looping), BUILD plays the
    growing prefixes, BREAK the shrinking descents, ROOTBOUNCE returns to the root between the notes of an up-down
    sweep. -/
theorem arpeggiator_is_arrangement (n : Nat) (h8 : n ≤ 8) (h1 : 1 ≤ n) :
    (arpIdx 0 n false = some (natRange n) ∧
     arpIdx 1 n false = some (natRange n).reverse ∧
     arpIdx 2 n false = some ((natRange n).map (fun i => if i % 2 = 0 then i / 2 else n - 1 - i / 2)) ∧
     (arpIdx 3 n false).map (fun idx => idx.isPerm (natRange n)) = some true ∧
     (arpIdx 3 n false).bind List.head? = some ((n - 1) / 2)) ∧
    (arpIdx 6 n false = some (natRange n ++ (natRange n).reverse.tail) ∧
     arpIdx 7 n false = some ((natRange n).reverse ++ (natRange n).tail) ∧
     (2 ≤ n → arpIdx 6 n true = some (natRange n ++ (natRange n).reverse.tail.dropLast) ∧
              arpIdx 7 n true = some ((natRange n).reverse ++ (natRange n).tail.dropLast))) ∧
    ((2 ≤ n → arpIdx 8 n false = some ((natRange n).flatMap (fun i => natRange (i + 1))) ∧
              arpIdx 9 n false = some ((natRange n).flatMap (fun i => (natRange (n - i)).reverse))) ∧
     (3 ≤ n → arpIdx 10 n false =
       some (0 :: (((natRange n).tail.dropLast ++ (natRange n).reverse.dropLast).flatMap (fun x => [x, 0]))))) :=
  ⟨arp_arrangement_single n h8 h1,
   ⟨((arp_arrangement_return n h8).1 h1).1, ((arp_arrangement_return n h8).1 h1).2, (arp_arrangement_return n h8).2⟩,
   arp_arrangement_long n h8⟩

example : clsOuts stepArpeggiator (stepF 5) 6 [] { n0 := 2, buf := [.int 7, .int 0, .int 12, .int 4] } =
    [.val (.int 0), .val (.int 12), .val (.int 4), .val (.int 7), .stop, .stop] := by decide
example : clsOuts stepArpeggiator (stepF 5) 8 [] { n0 := 6, n1 := 1, buf := [.int 7, .int 0, .int 4] } =
    [.val (.int 0), .val (.int 4), .val (.int 7), .val (.int 4), .val (.int 0), .val (.int 4), .val (.int 7), .val (.int 4)] := by decide

/-! ### PInterpolate -/

/-- Inside a block: `j` step values have been played, `d` are left. -/
theorem interp_within (rec : Rec) (kids : List Pat) (st0 : St) (sv : List Val) (h1 : st0.n1 ≠ 0) :
    ∀ (d j : Nat) (x : Val) (m : Nat), j + d = sv.length →
      clsOuts stepInterpolate rec (d + m) kids { st0 with v0 := x, buf := sv, n2 := (j : Int) } =
        (sv.drop j).map Out.val ++
          clsOuts stepInterpolate rec m kids
            { st0 with v0 := (if d = 0 then x else sv.getD (sv.length - 1) Val.none), buf := sv, n2 := (sv.length : Int) } := by
  intro d
  induction d with
  | zero =>
    intro j x m hj
    have : j = sv.length := by omega
    subst this
    simp
  | succ d ih =>
    intro j x m hj
    have hjlt : j < sv.length := by omega
    have e : d + 1 + m = (d + m) + 1 := by omega
    rw [e]
    have hn1 : ({ st0 with v0 := x, buf := sv, n2 := (j : Int) } : St).n1 ≠ 0 := h1
    have hn2 : ({ st0 with v0 := x, buf := sv, n2 := (j : Int) } : St).n2 ≠
        (({ st0 with v0 := x, buf := sv, n2 := (j : Int) } : St).buf.length : Int) := by
      show (j : Int) ≠ (sv.length : Int)
      omega
    have hget : ({ st0 with v0 := x, buf := sv, n2 := (j : Int) } : St).buf[({ st0 with v0 := x, buf := sv, n2 := (j : Int) } : St).n2.toNat]? =
        some sv[j] := by
      show sv[(j : Int).toNat]? = some sv[j]
      simp [List.getElem?_eq_getElem hjlt]
    simp only [clsOuts, stepInterpolate, if_neg hn1, if_neg hn2, hget, List.drop_eq_getElem_cons hjlt, List.map_cons,
      List.cons_append]
    congr 1
    have e2 : ((j : Int) + 1) = ((j + 1 : Nat) : Int) := by omega
    have := ih (j + 1) sv[j] m (by omega)
    simp only [e2]
    rw [this]
    congr 3
    by_cases hd : d = 0
    · subst hd
      have hj' : j = sv.length - 1 := by omega
      subst hj'
      simp [List.getD, List.getElem?_eq_getElem hjlt]
    · simp [hd]

theorem interpSkip_nonzero (rec : Rec) (f : Nat) (kp ks : Pat) (cur s : Val) (k : Int)
    (hs : (rec ks).out = .val s) (hk : pyInt s = .val (.a (.int k))) (hk0 : k ≠ 0) :
    interpSkip rec (f + 1) [kp, ks] cur = (.val (.a (.int k)), [kp, (rec ks).p], cur) := by
  simp only [interpSkip, stepKid, List.getElem?_cons_succ, List.getElem?_cons_zero, List.set_cons_succ,
    List.set_cons_zero, hs, hk]
  split
  · rename_i h; simp at h; exact absurd h hk0
  · rfl

/-- **One block**: at a block boundary, with `steps` yielding a non-zero count `k` and the input yielding `target`,
    the next `len sv` outputs are the step values `sv` of the segment, and the object is at a block boundary again,
    `self.value` being the last step value. -/
theorem interp_block (rec : Rec) (kp ks : Pat) (st : St) (s target : Val) (k : Int) (sv : List Val) (m : Nat)
    (hinit : st.n1 ≠ 0) (hpos : st.n2 = (st.buf.length : Int))
    (hs : (rec ks).out = .val s) (hk : pyInt s = .val (.a (.int k))) (hk0 : k ≠ 0) (ht : (rec kp).out = .val target)
    (hv : interpValues st.n0 st.v0 target k = (.val Val.none, sv)) (hsv : sv ≠ []) :
    clsOuts stepInterpolate rec (sv.length + m) [kp, ks] st =
      sv.map Out.val ++ clsOuts stepInterpolate rec m [(rec kp).p, (rec ks).p]
        { st with v0 := sv.getD (sv.length - 1) Val.none, buf := sv, n2 := (sv.length : Int) } := by
  cases sv with
  | nil => exact absurd rfl hsv
  | cons v tl =>
    have hf : LOOPFUEL = 99999 + 1 := rfl
    have e : (v :: tl).length + m = (tl.length + m) + 1 := by simp; omega
    have hstep : stepInterpolate rec [kp, ks] st =
        ClsRes.mk (.val v) [(rec kp).p, (rec ks).p] { st with v0 := v, buf := v :: tl, n2 := 1 } := by
      simp only [stepInterpolate, if_neg hinit, if_pos hpos, hf, interpSkip_nonzero rec _ kp ks st.v0 s k hs hk hk0,
        stepKid, List.getElem?_cons_zero, List.set_cons_zero, ht, hv, interpEmit]
    rw [e]
    simp only [clsOuts, hstep, List.map_cons, List.cons_append]
    congr 1
    have := interp_within rec [(rec kp).p, (rec ks).p] st (v :: tl) hinit tl.length 1 v m (by simp; omega)
    simp only [Int.natCast_one] at this
    rw [this]
    simp only [List.drop_one, List.tail_cons]
    congr 3
    by_cases ht0 : tl.length = 0
    · have : tl = [] := List.length_eq_zero_iff.mp ht0
      subst this; rfl
    · simp [ht0]

/-- The step values of the segments between successive input values `a₀ a₁ a₂ …` with step counts `k₁ k₂ …`. -/
def interpSegs (mode : Int) : List Val → List Int → List Val
  | a :: b :: vs, k :: ks => (interpValues mode a b k).2 ++ interpSegs mode (b :: vs) ks
  | _, _ => []

/-- Every segment has a positive step count and its arithmetic is defined (numbers, for linear interpolation). -/
def SegsOK (mode : Int) : List Val → List Int → Prop
  | a :: b :: vs, k :: ks => 0 < k ∧ (interpValues mode a b k).1 = .val Val.none ∧ SegsOK mode (b :: vs) ks
  | _, _ => True

/-- Two start values that interpolate identically (linear interpolation only looks at the number). -/
def SameStart (mode : Int) (x y : Val) : Prop := ∀ t k, interpValues mode x t k = interpValues mode y t k

theorem linValues_length (a b : Rat) (k : Int) : (linValues a b k).length = k.toNat := by simp [linValues]

theorem interpValues_ne_nil (mode : Int) (cur t : Val) (k : Int) (hk : 0 < k)
    (hok : (interpValues mode cur t k).1 = .val Val.none) : (interpValues mode cur t k).2 ≠ [] := by
  revert hok
  simp only [interpValues]
  repeat' split
  all_goals first
    | (intro h; cases h; done)
    | (intro _; simp; done)
    | (intro _ hnil
       have := congrArg List.length hnil
       rw [linValues_length] at this
       simp at this; omega)

/-- The last step value of a segment interpolates like its target: the target itself without interpolation, the
    float of the same number with linear interpolation (`a + (b − a)·k/k = b`). -/
theorem interp_last_same (mode : Int) (hmode : mode = 0 ∨ mode = 1) (cur t : Val) (k : Int) (hk : 0 < k)
    (hok : (interpValues mode cur t k).1 = .val Val.none) :
    SameStart mode ((interpValues mode cur t k).2.getD ((interpValues mode cur t k).2.length - 1) Val.none) t := by
  rcases hmode with rfl | rfl
  · have : (interpValues 0 cur t k).2 = List.replicate (k - 1).toNat cur ++ [t] := by simp [interpValues]
    rw [this]
    have hl : (List.replicate (k - 1).toNat cur ++ [t]).length - 1 = (List.replicate (k - 1).toNat cur).length := by simp
    rw [hl]
    simp only [List.getD, List.getElem?_append_right (Nat.le_refl _), Nat.sub_self, List.getElem?_cons_zero, Option.getD_some]
    intro t' k'; rfl
  · revert hok
    simp only [interpValues]
    cases cur with
    | tup xs => simp
    | a x =>
      cases t with
      | tup ys => simp
      | a y =>
        cases hx : x.toNum with
        | none => simp [hx]
        | some a =>
          cases hy : y.toNum with
          | none => simp [hx, hy]
          | some b =>
            intro _
            simp only [show ((1 : Int) = 0) = False by decide, if_false, if_true, hx, hy, linValues_length]
            have hkn : k.toNat - 1 < (linValues a.r b.r k).length := by rw [linValues_length]; omega
            have hlast : (linValues a.r b.r k).getD (k.toNat - 1) Val.none = Val.flt b.r := by
              simp only [List.getD, linValues, List.getElem?_map,
                List.getElem?_range (show k.toNat - 1 < k.toNat by omega), Option.map_some, Option.getD_some]
              have e1 : ((k.toNat - 1 + 1 : Nat) : Rat) = ((k : Int) : Rat) := by
                rw [← Rat.intCast_natCast]; congr 1; omega
              have hk0 : ((k : Int) : Rat) ≠ 0 := by
                intro h; have := Rat.intCast_eq_zero_iff.mp h; omega
              rw [e1]
              congr 1
              grind
            rw [hlast]
            intro t' k'
            simp only [interpValues, show ((1 : Int) = 0) = False by decide, if_false, if_true]
            cases t' with
            | tup _ => rfl
            | a y' =>
              have h1 : (Atom.flt b.r).toNum = some ⟨b.r, true⟩ := rfl
              simp only []
              rw [h1, hy]
              cases y'.toNum <;> rfl

theorem interp_chain (rec : Rec) (mode : Int) (hmode : mode = 0 ∨ mode = 1) : ∀ (ks : List Int) (cur : Val) (vs : List Val)
    (kp ksp : Pat) (st : St) (svals : List Val), st.n0 = mode → st.n1 ≠ 0 → st.n2 = (st.buf.length : Int) →
    SameStart mode st.v0 cur → vs.length = ks.length → recOuts rec vs.length kp = vs.map Out.val →
    recOuts rec ks.length ksp = svals.map Out.val → svals.map pyInt = ks.map (fun k => Out.val (.a (.int k))) →
    SegsOK mode (cur :: vs) ks →
    clsOuts stepInterpolate rec (interpSegs mode (cur :: vs) ks).length [kp, ksp] st =
      (interpSegs mode (cur :: vs) ks).map Out.val := by
  intro ks
  induction ks with
  | nil =>
    intro cur vs kp ksp st svals _ _ _ _ hl _ _ _ _
    cases vs with
    | nil => rfl
    | cons _ _ => simp at hl
  | cons k ks ih =>
    intro cur vs kp ksp st svals h0 h1 h2 hsame hl hp hs hk hok
    cases vs with
    | nil => simp at hl
    | cons b vs =>
      cases svals with
      | nil => simp at hk
      | cons s svals =>
        simp only [List.length_cons, recOuts, List.map_cons, List.cons.injEq] at hp hs hk
        obtain ⟨hk0, hok1, hok2⟩ := hok
        have hv : interpValues st.n0 st.v0 b k = (.val Val.none, (interpValues mode cur b k).2) := by
          rw [h0, hsame b k]
          exact Prod.ext hok1 rfl
        have hsv := interpValues_ne_nil mode cur b k hk0 hok1
        simp only [interpSegs, List.length_append, List.map_append]
        rw [interp_block rec kp ksp st s b k _ _ h1 h2 hs.1 hk.1 (by omega) hp.1 hv hsv]
        congr 1
        exact ih b vs (rec kp).p (rec ksp).p _ svals h0 h1 rfl (interp_last_same mode hmode cur b k hk0 hok1)
          (by simpa using hl) hp.2 hs.2 hk.2 hok2

/- Full statement (not proved in this generality): for ARBITRARY step counts — zero counts make the start value jump
   to the next input value without output (`interpSkip_zero` in C12_Seq2 is the one-iteration lemma), negative
   counts raise IndexError — the output is the concatenation of the segments.  What is proved: all step counts ≥ 1. -/

/-- **PInterpolate = the first input value, then for each further input value `aᵢ` a segment of `kᵢ` step values from
    `aᵢ₋₁` to `aᵢ`** (`kᵢ ≥ 1` resolved from `steps` once per segment): without interpolation `kᵢ − 1` copies of
    `aᵢ₋₁` and then `aᵢ`; linearly `aᵢ₋₁ + (aᵢ − aᵢ₋₁)·j/kᵢ`, `j = 1 … kᵢ` (`interpValues`, `linValues`). -/
theorem interpolate_reference_partial (rec : Rec) (kp ksp : Pat) (st : St) (v0 : Val) (vs : List Val) (ks : List Int)
    (svals : List Val) (hmode : st.n0 = 0 ∨ st.n0 = 1) (hinit : st.n1 = 0)
    (hp : recOuts rec (vs.length + 1) kp = (v0 :: vs).map Out.val) (hlen : vs.length = ks.length)
    (hs : recOuts rec ks.length ksp = svals.map Out.val)
    (hk : svals.map pyInt = ks.map (fun k => Out.val (.a (.int k)))) (hok : SegsOK st.n0 (v0 :: vs) ks) :
    clsOuts stepInterpolate rec ((interpSegs st.n0 (v0 :: vs) ks).length + 1) [kp, ksp] st =
      (v0 :: interpSegs st.n0 (v0 :: vs) ks).map Out.val := by
  simp only [recOuts, List.map_cons, List.cons.injEq] at hp
  have hstep : stepInterpolate rec [kp, ksp] st =
      ClsRes.mk (.val v0) [(rec kp).p, ksp] { st with n1 := 1, v0 := v0, buf := [v0], n2 := 1 } := by
    simp only [stepInterpolate, if_pos hinit, stepKid, List.getElem?_cons_zero, List.set_cons_zero, hp.1]
  simp only [clsOuts, hstep, List.map_cons]
  congr 1
  exact interp_chain rec st.n0 hmode ks v0 vs (rec kp).p ksp _ svals rfl (show (1 : Int) ≠ 0 by decide) rfl
    (fun _ _ => rfl) hlen hp.2 hs hk hok

/-- Closed form of a linear segment: `k` values, the `j`-th (from 0) is `a + (b − a)(j + 1)/k`. -/
theorem linValues_get (a b : Rat) (k : Int) (j : Nat) (hj : j < k.toNat) :
    (linValues a b k)[j]? = some (Val.flt (a + (b - a) * ((j + 1 : Nat) : Rat) / (k : Rat))) := by
  simp [linValues, hj]

example : clsOuts stepInterpolate (stepF 5) 8
    [.node .seq [Pat.const (.int 0), Pat.const (.int 1), Pat.const (.int 2)] { n0 := 1 },
     .node .seq [Pat.const (.int 4), Pat.const (.int 2)] { n0 := 1 }] { n0 := 1 } =
    [.val (.int 0), .val (.flt (1/4)), .val (.flt (1/2)), .val (.flt (3/4)), .val (.flt 1), .val (.flt (3/2)), .val (.flt 2), .stop] := by
  decide +kernel
example : clsOuts stepInterpolate (stepF 5) 8
    [.node .seq [Pat.const (.int 0), Pat.const (.int 1), Pat.const (.int 2)] { n0 := 1 },
     .node .seq [Pat.const (.int 4), Pat.const (.int 2)] { n0 := 1 }] { n0 := 0 } =
    [.val (.int 0), .val (.int 0), .val (.int 0), .val (.int 0), .val (.int 1), .val (.int 1), .val (.int 2), .stop] := by decide +kernel

end IsobarV.C10
