/-
C09 — stickiness of StopIteration for the classes of `scalar.py`, `PDegree`, `PMidiNoteToFrequency`, `PTri`,
`PSaw`.  None of these classes ends by itself: each ends exactly when one of the attributes it resolves ends,
and it resolves the same attributes again at every later step (`poll_sticky`); `PChanged` / `PDiff` poll their
source (`delta_sticky`).
-/
import IsobarV.Pat.Cls.ScalarLemmas
import IsobarV.Props.C09

namespace IsobarV.C09
open IsobarV.Pat

/-! ### The computations never signal StopIteration themselves -/

theorem binopAtom_ne_stop (op : BinOp) (x y : Atom) : binopAtom op x y ≠ .stop := by
  unfold binopAtom
  split
  · unfold binopInt; cases op <;> simp <;> (repeat' split) <;> simp
  · split
    · unfold binopFlt; cases op <;> simp <;> (repeat' split) <;> simp
    · (repeat' split) <;> simp

theorem arith_ne_stop (op : BinOp) (a b : Val) : arith op a b ≠ .stop := by
  unfold arith
  split
  · simp
  · simp
  · exact binopAtom_ne_stop _ _ _
  · simp

theorem andThen_ne_stop (o : Out) (k : Val → Out) (ho : o ≠ .stop) (hk : ∀ v, k v ≠ .stop) : o.andThen k ≠ .stop := by
  unfold Out.andThen
  split
  · exact hk _
  · exact ho

theorem fltOrOverflow_ne_stop (r : Rat) : fltOrOverflow r ≠ .stop := by
  unfold fltOrOverflow; split <;> simp

theorem powApprox_ne_stop (b e : Rat) : powApprox b e ≠ .stop := by
  unfold powApprox
  repeat' split
  all_goals first | exact fltOrOverflow_ne_stop _ | simp

theorem powVia_ne_stop (pw : Rat → Rat → Out) (hpw : ∀ b e, pw b e ≠ .stop) (b e : Val) : powVia pw b e ≠ .stop := by
  unfold powVia
  repeat' split
  all_goals first | exact hpw _ _ | simp

theorem skipIfVal_ne_stop (vs : List Val) : skipIfVal vs ≠ .stop := by
  unfold skipIfVal; split <;> simp

theorem scaleLinLinVal_ne_stop (vs : List Val) : scaleLinLinVal vs ≠ .stop := by
  unfold scaleLinLinVal
  split
  · repeat (first | exact arith_ne_stop _ _ _ | (apply andThen_ne_stop; exact arith_ne_stop _ _ _; intro _))
  · simp

theorem scaleLinExpVal_ne_stop (pw : Rat → Rat → Out) (hpw : ∀ b e, pw b e ≠ .stop) (vs : List Val) :
    scaleLinExpVal pw vs ≠ .stop := by
  unfold scaleLinExpVal
  split
  · apply andThen_ne_stop _ _ (arith_ne_stop _ _ _)
    intro below
    split
    · simp
    · apply andThen_ne_stop _ _ (arith_ne_stop _ _ _)
      intro above
      split
      · simp
      · apply andThen_ne_stop _ _ (arith_ne_stop _ _ _); intro _
        apply andThen_ne_stop _ _ (arith_ne_stop _ _ _); intro _
        apply andThen_ne_stop _ _ (arith_ne_stop _ _ _); intro _
        apply andThen_ne_stop _ _ (arith_ne_stop _ _ _); intro _
        apply andThen_ne_stop _ _ (powVia_ne_stop pw hpw _ _); intro _
        exact arith_ne_stop _ _ _
  · simp

theorem roundVal_ne_stop (vs : List Val) : roundVal vs ≠ .stop := by
  unfold roundVal; (repeat' split) <;> simp

theorem scalarVal_ne_stop (vs : List Val) : scalarVal vs ≠ .stop := by
  unfold scalarVal; (repeat' split) <;> simp

theorem wrapVal_ne_stop (vs : List Val) : wrapVal vs ≠ .stop := by
  unfold wrapVal; (repeat' split) <;> simp

theorem indexOfVal_ne_stop (vs : List Val) : indexOfVal vs ≠ .stop := by
  unfold indexOfVal; (repeat' split) <;> simp

theorem degreeVal_ne_stop (vs : List Val) : degreeVal vs ≠ .stop := by
  unfold degreeVal; (repeat' split) <;> simp

theorem midiVal_ne_stop (pw : Rat → Rat → Out) (hpw : ∀ b e, pw b e ≠ .stop) (vs : List Val) : midiVal pw vs ≠ .stop := by
  unfold midiVal
  repeat' split
  all_goals first | exact hpw _ _ | simp

theorem mapFn_ne_stop (fid : Int) (value : Val) (args : List Val) : mapFn fid value args ≠ .stop := by
  unfold mapFn
  repeat' split
  all_goals first
    | exact arith_ne_stop _ _ _
    | exact andThen_ne_stop _ _ (arith_ne_stop _ _ _) (fun _ => arith_ne_stop _ _ _)
    | simp

theorem enumFn_ne_stop (fid : Int) (idx value : Val) (args : List Val) : enumFn fid idx value args ≠ .stop := by
  unfold enumFn
  repeat' split
  all_goals first
    | exact arith_ne_stop _ _ _
    | exact andThen_ne_stop _ _ (arith_ne_stop _ _ _) (fun _ => arith_ne_stop _ _ _)
    | simp

theorem mapF_ne_stop (st : St) (vs : List Val) : (mapF st vs).out ≠ .stop := by
  unfold mapF; split
  · exact mapFn_ne_stop _ _ _
  · simp

theorem enumF_ne_stop (st : St) (vs : List Val) : (enumF st vs).out ≠ .stop := by
  unfold enumF; split
  · exact enumFn_ne_stop _ _ _ _
  · simp

theorem normF_ne_stop (st : St) (vs : List Val) : (normF st vs).out ≠ .stop := by
  unfold normF; (repeat' split) <;> simp

theorem oscF_ne_stop (shape : Rat → Rat) (st : St) (vs : List Val) : (oscF shape st vs).out ≠ .stop := by
  unfold oscF; (repeat' split) <;> simp

/-! ### PChanged / PDiff -/

/-- `PChanged` / `PDiff` end exactly when their source ends (also while loading `current`), and poll the source
    again at every later step. -/
theorem delta_sticky (g : Val → Val → Out) (c : Cls) (hc : clsStep c = stepDelta g) (hg : ∀ a b, g a b ≠ .stop) :
    ClsSticky c := by
  intro P rec kids st hrec hk
  rw [hc]
  have h1 := stepKid_P hrec kids 0 hk
  have h2 := stepKid_P hrec _ 0 h1
  have hP : ∀ k ∈ (stepDelta g rec kids st).kids, P k := by
    simp only [stepDelta]
    split
    · split
      · split <;> exact h2
      · exact h1
    · split <;> exact h1
  refine ⟨hP, fun hs => ?_⟩
  have hd : DeadAt rec (stepDelta g rec kids st).kids 0 := by
    simp only [stepDelta] at hs ⊢
    split
    · rename_i hn
      simp only [hn, if_true] at hs
      split
      · rename_i cv hcv
        simp only [hcv] at hs
        split
        · rename_i x hx
          simp only [hx] at hs
          exact absurd hs (hg _ _)
        · rename_i o hnv
          split at hs
          · rename_i x hx; exact absurd hx (hnv x)
          · exact stepKid_stop_dead hrec h1 hs
      · rename_i o hnv
        split at hs
        · rename_i x hx; exact absurd hx (hnv x)
        · exact stepKid_stop_dead hrec hk hs
    · rename_i hn
      simp only [hn, if_false] at hs
      split
      · rename_i x hx
        simp only [hx] at hs
        exact absurd hs (hg _ _)
      · rename_i o hnv
        split at hs
        · rename_i x hx; exact absurd hx (hnv x)
        · exact stepKid_stop_dead hrec hk hs
  intro n
  apply clsOuts_noVal (stepDelta g) rec (fun kids _ => DeadAt rec kids 0) _ n _ _ hd
  intro kids st h
  obtain ⟨d1, d2⟩ := h.step
  simp only [stepDelta]
  split
  · split
    · rename_i cv hcv; exact absurd hcv (d1 cv)
    · rename_i o hnv; exact ⟨fun v hv => hnv v hv, d2⟩
  · split
    · rename_i x hx; exact absurd hx (d1 x)
    · rename_i o hnv; exact ⟨fun v hv => hnv v hv, d2⟩

theorem changed_sticky : ClsSticky .changed := delta_sticky changedVal _ rfl (by intro _ _; simp [changedVal])
theorem diff_sticky : ClsSticky .diff := delta_sticky diffVal _ rfl (fun _ _ => binopVal_ne_stop _ _ _)

/-! ### The `stepPoll` classes -/

theorem skipIf_sticky : ClsSticky .skipIf :=
  poll_sticky (fun _ => [0, 1]) (pure1 skipIfVal) _ rfl (fun _ vs => skipIfVal_ne_stop vs)
theorem normalise_sticky : ClsSticky .normalise := poll_sticky (fun _ => [0]) normF _ rfl normF_ne_stop
theorem map_sticky : ClsSticky .map := poll_sticky ordArgsFirst mapF _ rfl mapF_ne_stop
theorem mapEnumerated_sticky : ClsSticky .mapEnumerated := poll_sticky ordArgsFirst enumF _ rfl enumF_ne_stop
theorem scaleLinLin_sticky : ClsSticky .scaleLinLin :=
  poll_sticky ordArgsFirst (pure1 scaleLinLinVal) _ rfl (fun _ vs => scaleLinLinVal_ne_stop vs)
theorem scaleLinExp_sticky : ClsSticky .scaleLinExp :=
  poll_sticky ordArgsFirst (pure1 (scaleLinExpVal powApprox)) _ rfl (fun _ vs => scaleLinExpVal_ne_stop _ powApprox_ne_stop vs)
theorem round_sticky : ClsSticky .round :=
  poll_sticky ordArgsFirst (pure1 roundVal) _ rfl (fun _ vs => roundVal_ne_stop vs)
theorem scalar_cls_sticky : ClsSticky .scalar :=
  poll_sticky ordArgsFirst (pure1 scalarVal) _ rfl (fun _ vs => scalarVal_ne_stop vs)
theorem wrap_sticky : ClsSticky .wrap :=
  poll_sticky (fun _ => [0, 1, 2]) (pure1 wrapVal) _ rfl (fun _ vs => wrapVal_ne_stop vs)
theorem indexOf_sticky : ClsSticky .indexOf :=
  poll_sticky (fun _ => [0, 1]) (pure1 indexOfVal) _ rfl (fun _ vs => indexOfVal_ne_stop vs)
theorem degree_sticky : ClsSticky .degree :=
  poll_sticky (fun _ => [0, 1]) (pure1 degreeVal) _ rfl (fun _ vs => degreeVal_ne_stop vs)
theorem midi_sticky : ClsSticky .midiNoteToFrequency :=
  poll_sticky (fun _ => [0]) (pure1 (midiVal powApprox)) _ rfl (fun _ vs => midiVal_ne_stop _ powApprox_ne_stop vs)
/-- `PTri` / `PSaw` never end with scalar parameters; with pattern-valued parameters they end with them. -/
theorem tri_sticky : ClsSticky .tri := poll_sticky (fun _ => [0, 1, 2]) (oscF triShape) _ rfl (oscF_ne_stop _)
theorem saw_sticky : ClsSticky .saw := poll_sticky (fun _ => [0, 1, 2]) (oscF id) _ rfl (oscF_ne_stop _)

def ScalarSticky (c : Cls) : Prop :=
  c = .changed ∨ c = .diff ∨ c = .skipIf ∨ c = .normalise ∨ c = .map ∨ c = .mapEnumerated ∨ c = .scaleLinLin ∨
  c = .scaleLinExp ∨ c = .round ∨ c = .scalar ∨ c = .wrap ∨ c = .indexOf ∨ c = .degree ∨ c = .midiNoteToFrequency ∨
  c = .tri ∨ c = .saw

theorem scalar_sticky : ∀ c, ScalarSticky c ∨ StickyCore c → ClsSticky c := by
  intro c h
  rcases h with h | h
  · unfold ScalarSticky at h
    rcases h with h | h | h | h | h | h | h | h | h | h | h | h | h | h | h | h <;> subst h
    · exact changed_sticky
    · exact diff_sticky
    · exact skipIf_sticky
    · exact normalise_sticky
    · exact map_sticky
    · exact mapEnumerated_sticky
    · exact scaleLinLin_sticky
    · exact scaleLinExp_sticky
    · exact round_sticky
    · exact scalar_cls_sticky
    · exact wrap_sticky
    · exact indexOf_sticky
    · exact degree_sticky
    · exact midi_sticky
    · exact tri_sticky
    · exact saw_sticky
  · exact core_sticky c h

/-- **C09 for the scalar group**: in any expression built from these classes and the sticky core classes, nested
    to any depth, once `next()` has raised StopIteration no later `next()` yields a value. -/
theorem sticky_scalar (fuel : Nat) (p : Pat) (hp : AllCls (fun c => ScalarSticky c ∨ StickyCore c) p)
    (hstop : (stepF fuel p).out = .stop) : ∀ n, ∀ o ∈ outs fuel n (stepF fuel p).p, NoVal o :=
  (sticky_stepF scalar_sticky fuel p hp).2 hstop

/-! Non-vacuity: `PDiff` of a wrapped three-value sequence yields two values and then stays ended. -/
section Example
def sqv (xs : List Int) (rep : Int) : Pat := .node .seq (xs.map (fun i => Pat.const (.int i))) { n0 := rep }
def exD : Pat := .node .diff [.node .wrap [sqv [1, 14, 27] 1, Pat.const (.int 0), Pat.const (.int 10)] {}] {}
example : outs 10 6 exD = [.val (.int 3), .val (.int 3), .stop, .stop, .stop, .stop] := by decide +kernel
example : (nextn 10 5 exD).vals = [.int 3, .int 3] ∧ (len 10 100 exD).1 = some 2 := by decide +kernel
end Example

end IsobarV.C09
