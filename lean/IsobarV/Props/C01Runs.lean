/-
C01 in a multi-track run: the closed form of the onsets holds for a track as it plays inside a timeline
with any number of other tracks, for every run length.

`C01.onset_closed_form` is about the clock part of `Track.tick` iterated on one track; `C07.run_is_merge`
shows that in a timeline whose tracks do not call the timeline API every track follows its own trajectory.
Here the two are joined: the onset invariant is carried along the trajectory (`alone_onsetInv`), so the
state of the track found in the timeline after `j` ticks satisfies it, and the event performed in tick
`j` is given by the closed form (`onset_in_a_multitrack_run`).
-/
import IsobarV.Props.C01
import IsobarV.Props.C07Runs

namespace IsobarV.C01
open IsobarV.Sched IsobarV.C07

/-- the closed form from the invariant alone (the proof of `fired_iff`, for any state satisfying it) -/
theorem fired_iff_of_inv {W : World} {q sid c p0 : Nat} {N : Int} {d : Nat → Nat} {j : Nat} {u : Track}
    (hd : ∀ i, q ≤ d i) (hW : HasDurs W sid d) (hinv : OnsetInv q sid c p0 N d j u) (k : Nat) :
    fired W q u = some k ↔ (p0 ≤ k ∧ FirstTick q (N + ((S d k : Int) - S d p0)) (c + j)) := by
  have hf := (onset_step hd hW hinv).2
  obtain ⟨hcur, hpos, hnxt, hg, _, _, hpast⟩ := hinv
  rw [hf]
  constructor
  · intro h
    split at h
    · rename_i hdue
      cases h
      exact ⟨hpos, by simp only [FirstTick, ← hcur, ← hnxt]; exact ⟨hdue, hg⟩⟩
    · cases h
  · rintro ⟨hk0, hft⟩
    rcases Nat.lt_trichotomy k u.pos with hlt | heq | hgt
    · obtain ⟨j', hj', hf'⟩ := hpast k hk0 hlt
      have := hft.unique hf'
      omega
    · subst heq
      have hdue : u.nxt ≤ tm q u.cur := by rw [hnxt, hcur]; exact hft.1
      simp [hdue]
    · exfalso
      have := S_lt hd hgt
      obtain ⟨h1, _⟩ := hft
      rw [hcur] at hg
      omega

/-! ### fields the per-track tick leaves alone -/

theorem getNext_maxCount (W : World) (t : Track) : (t.getNext W).t.maxCount = t.maxCount := by
  unfold Track.getNext
  split
  · rfl
  · split <;> rfl

theorem pullLoop_maxCount (W : World) (q fuel : Nat) (t : Track) (last : Pull) :
    (Track.pullLoop W q fuel t last).t.maxCount = t.maxCount := by
  induction fuel generalizing t last with
  | zero => rfl
  | succ n ih =>
    simp only [Track.pullLoop]
    split
    · have hg := getNext_maxCount W t
      split
      · rw [ih]; exact hg
      · exact hg
      · exact hg
      · exact hg
    · rfl

theorem getNext_started (W : World) (t : Track) :
    (t.getNext W).t.started = t.started ∧ (t.getNext W).t.finished = t.finished := by
  unfold Track.getNext
  split
  · exact ⟨rfl, rfl⟩
  · split <;> exact ⟨rfl, rfl⟩

theorem pullLoop_started (W : World) (q fuel : Nat) (t : Track) (last : Pull) :
    (Track.pullLoop W q fuel t last).t.started = t.started ∧ (Track.pullLoop W q fuel t last).t.finished = t.finished := by
  induction fuel generalizing t last with
  | zero => exact ⟨rfl, rfl⟩
  | succ n ih =>
    simp only [Track.pullLoop]
    split
    · have hg := getNext_started W t
      split
      · obtain ⟨i1, i2⟩ := ih { (t.getNext W).t with nxt := (t.getNext W).t.nxt + _ } (.ev _ _ _)
        exact ⟨i1.trans hg.1, i2.trans hg.2⟩
      · exact hg
      · exact hg
      · exact hg
    · exact ⟨rfl, rfl⟩

theorem performSolo_fields (q : Nat) (t : Track) (a : Bool) (k : EvKind) :
    (performSolo q t a k).t.maxCount = t.maxCount ∧ (performSolo q t a k).t.started = t.started ∧
    (performSolo q t a k).t.finished = t.finished := by
  unfold performSolo
  split
  · exact ⟨rfl, rfl, rfl⟩
  · cases k <;> simp only [] <;> (try split) <;> first | exact ⟨rfl, rfl, rfl⟩ | simp

theorem Frame.after_actions_nil (f : Frame) (hact : f.actions = []) (n : Nat) : (f.after n).actions = [] := by
  induction n with
  | zero => exact hact
  | succ m ihm => simp [Frame.after, Frame.next, ihm]

/-- a playing track under the onset invariant, in a tick that ends normally: the per-track tick keeps the
    invariant (one tick later), keeps the track started, and does not finish it -/
theorem soloTick_onsetInv {W : World} {q sid c p0 : Nat} {N : Int} {d : Nat → Nat} {j : Nat} {t : Track}
    (hd : ∀ i, q ≤ d i) (hW : HasDurs W sid d) (hinv : OnsetInv q sid c p0 N d j t)
    (hs : t.started = true) (hfin : t.finished = false) (hok : (soloTick W q t).out = .ok) :
    OnsetInv q sid c p0 N d (j + 1) (soloTick W q t).t ∧ (soloTick W q t).t.started = true ∧
    (soloTick W q t).t.finished = false := by
  have hstep := (onset_step hd hW hinv).1
  have hclk := solo_clock W q t hs hok
  simp only [clockOf, Prod.mk.injEq] at hclk
  obtain ⟨c1, c2, c3, c4, _⟩ := hclk
  -- maxCount, started, finished through the solo tick
  have hrest : (soloTick W q t).t.maxCount = t.maxCount ∧ (soloTick W q t).t.started = true ∧
      (soloTick W q t).t.finished = false := by
    obtain ⟨hcur, hpos, hnxt, hguard, hsid, hmax, _⟩ := hinv
    unfold soloTick
    simp only [hs, Bool.true_eq_false, if_false]
    split
    · rename_i hdue
      obtain ⟨a, k, hev⟩ := hW t.pos
      rw [← hsid] at hev
      have hdq := hd t.pos
      have hnext : ((t.cur * q : Nat) : Int) < t.nxt + d t.pos := by simp only [tm] at hguard; omega
      have hp : Track.pullLoop W q (t.fuel q) t .stop =
          { t := { t with pos := t.pos + 1, count := t.count + 1, nxt := t.nxt + d t.pos }, r := .ev (d t.pos) a k } :=
        pullLoop_once W q t .stop (((t.cur * q : Nat) - t.nxt).toNat) (d t.pos) a k hev hmax hdue hnext
      rw [hp]
      unfold soloAfterPull
      simp only []
      have hpf := performSolo_fields q { t with pos := t.pos + 1, count := t.count + 1, nxt := t.nxt + d t.pos } a k
      split
      · exact ⟨hpf.1, hpf.2.1.trans hs, hpf.2.2.trans hfin⟩
      · simp only [endSolo, Bool.false_eq_true, if_false]
        exact ⟨hpf.1, hpf.2.1.trans hs, hpf.2.2.trans hfin⟩
    · simp [endSolo, hs, hfin]
  refine ⟨?_, hrest.2.1, hrest.2.2⟩
  obtain ⟨k1, k2, k3, k4, k5, k6, k7⟩ := hstep
  have hm : (clockTick W q t).maxCount = t.maxCount := by
    unfold clockTick
    split
    · simp [pullLoop_maxCount]
    · rfl
  exact ⟨by rw [c1]; exact k1, by rw [c3]; exact k2, by rw [c2, c3]; exact k3, by rw [c1, c2]; exact k4,
    by rw [c4]; exact k5, by rw [hrest.1, ← hm]; exact k6, by rw [c3]; exact k7⟩

/-- the track's own trajectory in a frame without pending starts: invariant, started, not finished, same identity -/
theorem alone_onsetInv {W : World} (hP : PosDur W) (hF : Faultless W) {sid c p0 : Nat} {N : Int} {d : Nat → Nat}
    (f : Frame) (hact : f.actions = []) (hd : ∀ i, f.q ≤ d i) (hW : HasDurs W sid d) (t : Track)
    (h0 : OnsetInv f.q sid c p0 N d 0 t) (hs : t.started = true) (hfin : t.finished = false) (j : Nat) :
    ∃ u, alone W f j t = some u ∧ OnsetInv f.q sid c p0 N d j u ∧ u.started = true ∧ u.finished = false ∧ u.id = t.id := by
  induction j with
  | zero => exact ⟨t, rfl, h0, hs, hfin, rfl⟩
  | succ n ih =>
    obtain ⟨u, hu, hinv, hus, huf, hid⟩ := ih
    have hq : (f.after n).q = f.q := Frame.after_q f n
    have hact' : (f.after n).actions = [] := Frame.after_actions_nil f hact n
    -- the prepared track: only the pending note-offs differ
    have hprep : prep (f.after n) u = u.processOffs f.q := by
      simp [prep, hact', hq, applyStarts]
    have hinv' : OnsetInv f.q sid c p0 N d n (u.processOffs f.q) := by
      obtain ⟨a1, a2, a3, a4, a5, a6, a7⟩ := hinv
      exact ⟨a1, a2, a3, a4, a5, a6, a7⟩
    have hok : (soloTick W f.q (u.processOffs f.q)).out = .ok := by
      have h1 := soloTick_not_diverged W hP f.q (u.processOffs f.q)
      have h2 := soloTick_not_raised W hF f.q (u.processOffs f.q)
      cases hout : (soloTick W f.q (u.processOffs f.q)).out with
      | ok => rfl
      | raised => exact absurd hout h2
      | diverged => exact absurd hout h1
    obtain ⟨s1, s2, s3⟩ := soloTick_onsetInv hd hW hinv' (t := u.processOffs f.q) hus huf hok
    refine ⟨(soloTick W f.q (u.processOffs f.q)).t, ?_, s1, s2, s3, ?_⟩
    · simp only [alone, hu, Option.bind_some, trackNext, survivor, hprep, hq, hok, s3, Bool.false_eq_true, false_and,
        not_false_eq_true, and_self, if_true]
    · rw [soloTick_id]; exact hid

/-- **The closed form in a multi-track run.**  In a timeline of any number of tracks without action callbacks
    (fault-free world, no start pending, stop-when-done off), a playing track `t` of the timeline whose
    stream has the durations `d` (each at least a tick) and whose next event is not overdue by a whole tick
    is, after `j` ticks of the TIMELINE, still in the timeline, and the event it performs in the next tick
    is event `k` iff tick `t.cur + j` is the first tick at or after the exact ideal time of event `k` —
    for every `j` and `k`, whatever the other tracks are and do. -/
theorem onset_in_a_multitrack_run (W : World) (hW : NoActions W) (hP : PosDur W) (hF : Faultless W) (tl : TL)
    (hnd : (tl.tracks.map Track.id).Nodup) (hs : tl.stopWhenDone = false) (hact : tl.actions = [])
    (t : Track) (ht : t ∈ tl.tracks) (d : Nat → Nat) (hd : ∀ i, tl.q ≤ d i) (hdur : HasDurs W t.sid d)
    (hmax : t.maxCount = 0) (hguard : tm tl.q t.cur - tl.q < t.nxt) (hst : t.started = true) (hfin : t.finished = false)
    (j : Nat) :
    ∃ u ∈ (ticks W j tl).tracks, u.id = t.id ∧
      ∀ k, fired W tl.q u = some k ↔ (t.pos ≤ k ∧ FirstTick tl.q (t.nxt + ((S d k : Int) - S d t.pos)) (t.cur + j)) := by
  obtain ⟨h1, _, _⟩ := run_is_merge W hW hP tl hnd (Or.inr hF) hs j
  have h0 := onsetInv_init tl.q d t hmax hguard
  obtain ⟨u, hu, hinv, _, _, hid⟩ := alone_onsetInv (W := W) hP hF (frameOf tl) hact hd hdur t h0 hst hfin j
  refine ⟨u, ?_, hid, fun k => fired_iff_of_inv hd hdur hinv k⟩
  rw [h1, stateAfter_tracks]
  exact List.mem_filterMap.mpr ⟨t, ht, hu⟩

/-! Non-vacuity: two tracks of the endless 7-unit stream of `C01.exW` (3 units per tick), the second one behind
    by a tick; every hypothesis of the theorem holds and the conclusion is instantiated for the second track. -/
section Example

theorem exW_noActions : NoActions exW := by intro sid pos d a ops out h; simp [exW] at h
theorem exW_posDur : PosDur exW := by
  intro sid pos d a k h
  simp only [exW, Option.some.injEq, Item.ev.injEq] at h
  omega
theorem exW_faultless : Faultless exW := by
  refine ⟨?_, ?_, ?_, ?_, ?_⟩
  · intro sid pos h; simp [exW] at h
  · intro sid pos h; simp [exW] at h
  · intro sid pos d a vs h v hv
    simp only [exW, Option.some.injEq, Item.ev.injEq, EvKind.note.injEq] at h
    obtain ⟨_, _, rfl⟩ := h
    simp only [List.mem_singleton] at hv
    rw [hv]
  · intro sid pos d a cc v ch h; simp [exW] at h
  · intro sid pos d a p ch h; simp [exW] at h

def exTrack (id cur : Nat) : Track :=
  { (newTrack id none 0 true) with started := true, sid := 0, cur := cur, nxt := (cur * 3 : Nat) }
def exTL : TL := { q := 3, tracks := [exTrack 0 0, exTrack 1 1] }

example (j : Nat) : ∃ u ∈ (ticks exW j exTL).tracks, u.id = 1 ∧
    ∀ k, fired exW 3 u = some k ↔ (0 ≤ k ∧ FirstTick 3 (3 + ((S (fun _ => 7) k : Int) - S (fun _ => 7) 0)) (1 + j)) :=
  onset_in_a_multitrack_run exW exW_noActions exW_posDur exW_faultless exTL (by decide) rfl rfl (exTrack 1 1)
    (by simp [exTL]) (fun _ => 7) (by intro i; decide) (by intro i; exact ⟨_, _, rfl⟩) rfl (by decide) rfl rfl j

end Example

end IsobarV.C01
