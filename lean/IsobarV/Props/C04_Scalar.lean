/-
C04 — `reset()` rewinds any pattern: reset-correctness of the classes of `scalar.py`, `PDegree`,
`PMidiNoteToFrequency`, `PTri`, `PSaw` (models: `IsobarV/Pat/Cls/Scalar.lean`, after the fix patches
01 (PNormalise.reset), 03 (PTri/PSaw.reset)), and the instantiated theorem for expressions built from these
classes and the core classes.
-/
import IsobarV.Pat.Cls.ScalarLemmas
import IsobarV.Props.C04

namespace IsobarV.C04
open IsobarV.Pat

/-- `PChanged` / `PDiff`: `reset()` resets the source and reloads `current` from it (in the model: marks
    `current` as not loaded), whatever was consumed before. -/
theorem delta_ok (g : Val → Val → Out) (c : Cls) (hc : clsStep c = stepDelta g)
    (hr : ∀ s, clsReset c s = { resetDelta s with cur := 0 }) : ClsResetOK c := by
  intro P rec kids st hrec hk
  obtain ⟨h1, h2⟩ := stepKid_ok hrec kids 0 hk
  obtain ⟨h3, h4⟩ := stepKid_ok hrec (stepKid rec kids 0).2 0 h1
  rw [hc, hr, hr]
  simp only [stepDelta, resetDelta]
  split
  · split
    · split
      · exact ⟨h3, h4.trans h2, rfl⟩
      · exact ⟨h3, h4.trans h2, rfl⟩
    · exact ⟨h1, h2, rfl⟩
  · split
    · exact ⟨h1, h2, rfl⟩
    · exact ⟨h1, h2, rfl⟩

theorem changed_ok : ClsResetOK .changed := delta_ok changedVal _ rfl (fun _ => rfl)
theorem diff_ok : ClsResetOK .diff := delta_ok diffVal _ rfl (fun _ => rfl)

/-- Classes without own state: `reset()` is the generic reset of the pattern attributes. -/
theorem skipIf_ok : ClsResetOK .skipIf := poll_ok (fun _ => [0, 1]) (pure1 skipIfVal) _ rfl (fun _ _ => rfl)
theorem map_ok : ClsResetOK .map := poll_ok ordArgsFirst mapF _ rfl (by
  intro st vs; simp only [mapF]; split <;> rfl)
theorem scaleLinLin_ok : ClsResetOK .scaleLinLin := poll_ok ordArgsFirst (pure1 scaleLinLinVal) _ rfl (fun _ _ => rfl)
theorem scaleLinExp_ok : ClsResetOK .scaleLinExp :=
  poll_ok ordArgsFirst (pure1 (scaleLinExpVal powApprox)) _ rfl (fun _ _ => rfl)
theorem round_ok : ClsResetOK .round := poll_ok ordArgsFirst (pure1 roundVal) _ rfl (fun _ _ => rfl)
theorem scalar_cls_ok : ClsResetOK .scalar := poll_ok ordArgsFirst (pure1 scalarVal) _ rfl (fun _ _ => rfl)
theorem wrap_ok : ClsResetOK .wrap := poll_ok (fun _ => [0, 1, 2]) (pure1 wrapVal) _ rfl (fun _ _ => rfl)
theorem indexOf_ok : ClsResetOK .indexOf := poll_ok (fun _ => [0, 1]) (pure1 indexOfVal) _ rfl (fun _ _ => rfl)
theorem degree_ok : ClsResetOK .degree := poll_ok (fun _ => [0, 1]) (pure1 degreeVal) _ rfl (fun _ _ => rfl)
theorem midi_ok : ClsResetOK .midiNoteToFrequency :=
  poll_ok (fun _ => [0]) (pure1 (midiVal powApprox)) _ rfl (fun _ _ => rfl)

/-- `PNormalise.reset()` (fix 01) forgets both bounds, whatever they were. -/
theorem normalise_ok : ClsResetOK .normalise := poll_ok (fun _ => [0]) normF _ rfl (by
  intro st vs
  have hr : ∀ s, clsReset .normalise s = { resetNormalise s with cur := 0 } := fun _ => rfl
  rw [hr, hr]
  simp only [normF, resetNormalise]
  repeat' split
  all_goals rfl)

/-- `PMapEnumerated.reset()` resets its counter (`self.counter`, a `PSeries`, is a pattern attribute). -/
theorem mapEnumerated_ok : ClsResetOK .mapEnumerated := poll_ok ordArgsFirst enumF _ rfl (by
  intro st vs
  have hr : ∀ s, clsReset .mapEnumerated s = { resetMapEnumerated s with cur := 0 } := fun _ => rfl
  rw [hr, hr]
  simp only [enumF, resetMapEnumerated]
  split <;> rfl)

/-- `PTri.reset()` / `PSaw.reset()` (fix 03) reset the pattern-valued parameters and the phase. -/
theorem osc_ok (shape : Rat → Rat) (c : Cls) (hc : clsStep c = stepPoll (fun _ => [0, 1, 2]) (oscF shape))
    (hr : ∀ s, clsReset c s = { resetOsc s with cur := 0 }) : ClsResetOK c := poll_ok _ _ c hc (by
  intro st vs
  rw [hr, hr]
  simp only [oscF, resetOsc]
  repeat' split
  all_goals rfl)

theorem tri_ok : ClsResetOK .tri := osc_ok triShape _ rfl (fun _ => rfl)
theorem saw_ok : ClsResetOK .saw := osc_ok id _ rfl (fun _ => rfl)

/-- The classes of this group. -/
def ScalarCls (c : Cls) : Prop :=
  c = .changed ∨ c = .diff ∨ c = .skipIf ∨ c = .normalise ∨ c = .map ∨ c = .mapEnumerated ∨ c = .scaleLinLin ∨
  c = .scaleLinExp ∨ c = .round ∨ c = .scalar ∨ c = .wrap ∨ c = .indexOf ∨ c = .degree ∨ c = .midiNoteToFrequency ∨
  c = .tri ∨ c = .saw

theorem scalar_ok : ∀ c, ScalarCls c ∨ CoreCls c → ClsResetOK c := by
  intro c h
  rcases h with h | h
  · unfold ScalarCls at h
    rcases h with h | h | h | h | h | h | h | h | h | h | h | h | h | h | h | h <;> subst h
    · exact changed_ok
    · exact diff_ok
    · exact skipIf_ok
    · exact normalise_ok
    · exact map_ok
    · exact mapEnumerated_ok
    · exact scaleLinLin_ok
    · exact scaleLinExp_ok
    · exact round_ok
    · exact scalar_cls_ok
    · exact wrap_ok
    · exact indexOf_ok
    · exact degree_ok
    · exact midi_ok
    · exact tri_ok
    · exact saw_ok
  · exact core_ok c h

/-- **C04 for the scalar group**: any expression built from these classes and the core classes, nested to any
    depth, is rewound by `reset()` after any number of steps — its own state and every nested pattern. -/
theorem reset_rewinds_scalar (fuel k : Nat) (p0 : Pat) (hp : AllCls (fun c => ScalarCls c ∨ CoreCls c) p0)
    (h0 : IsInit p0) : reset (after fuel k p0) = p0 :=
  reset_rewinds scalar_ok fuel k p0 hp h0

theorem all_rewinds_scalar (fuel maximum : Nat) (p0 : Pat) (hp : AllCls (fun c => ScalarCls c ∨ CoreCls c) p0)
    (h0 : IsInit p0) (hok : (nextn fuel maximum p0).err = Option.none) : (all fuel maximum p0).p = p0 :=
  all_rewinds scalar_ok fuel maximum p0 hp h0 hok

/-! Non-vacuity: a running normalisation of a triangle wave with a pattern-valued length, fed through `PDiff`. -/
section Example
def sq' (xs : List Pat) (rep : Int) : Pat := .node .seq xs { n0 := rep }
def ci (i : Int) : Pat := Pat.const (.int i)
def exS : Pat :=
  .node .diff [.node .normalise [.node .tri [sq' [ci 4, ci 2, ci 8] (-1), ci 0, ci 10] { v0 := .flt 0 }] {}] {}
example : IsInit exS := by unfold IsInit; rfl
example : reset (after 10 5 exS) = exS := by rfl
example : outs 10 3 exS = outs 10 3 (reset (after 10 5 exS)) ∧ outs 10 3 exS ≠ outs 10 3 (after 10 5 exS) := by decide +kernel
end Example

end IsobarV.C04
