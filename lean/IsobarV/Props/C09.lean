/-
C09 — patterns obey the iterator protocol; helpers agree; copies are independent.

Generic theorems: `IsobarV/Pat/Sticky.lean` (`sticky_stepF`, `nextn_vals`, `all_vals`, `len_spec`,
`copy_continues`).  This file proves stickiness class by class for the core classes and instantiates
the theorem; further classes register their lemma in `IsobarV/Props/C09_*.lean`.
-/
import IsobarV.Pat.Sticky

namespace IsobarV.C09
open IsobarV.Pat

/-- If an invariant of (kids, state) implies "this step yields no value" and is preserved by the step,
    no later step ever yields a value. -/
theorem clsOuts_noVal (step : ClsStep) (rec : Rec) (I : List Pat → St → Prop)
    (hI : ∀ kids st, I kids st → NoVal (step rec kids st).out ∧ I (step rec kids st).kids (step rec kids st).st) :
    ∀ n kids st, I kids st → ∀ o ∈ clsOuts step rec n kids st, NoVal o := by
  intro n
  induction n with
  | zero => intro kids st _ o ho; simp [clsOuts] at ho
  | succ n ih =>
    intro kids st h o ho
    obtain ⟨h1, h2⟩ := hI kids st h
    simp only [clsOuts, List.mem_cons] at ho
    rcases ho with rfl | ho
    · exact h1
    · exact ih _ _ h2 o ho

/-- The kid at index `i` is dead under `rec`. -/
def DeadAt (rec : Rec) (kids : List Pat) (i : Nat) : Prop := ∃ k, kids[i]? = some k ∧ DeadUnder rec k

theorem DeadAt.step {rec : Rec} {kids : List Pat} {i : Nat} (h : DeadAt rec kids i) :
    NoVal (stepKid rec kids i).1 ∧ DeadAt rec (stepKid rec kids i).2 i := by
  obtain ⟨k, hk, hd⟩ := h
  obtain ⟨d1, d2⟩ := hd.step
  have hi : i < kids.length := (List.getElem?_eq_some_iff.mp hk).1
  simp only [stepKid, hk]
  exact ⟨d1, ⟨(rec k).p, by simp [hi], d2⟩⟩

theorem DeadAt.other {rec : Rec} {kids : List Pat} {i j : Nat} (h : DeadAt rec kids i) (hij : j ≠ i) :
    DeadAt rec (stepKid rec kids j).2 i := by
  obtain ⟨k, hk, hd⟩ := h
  unfold stepKid
  cases hj : kids[j]? with
  | none => exact ⟨k, hk, hd⟩
  | some kj => exact ⟨k, by simp [List.getElem?_set_ne hij, hk], hd⟩

theorem stepKid_stop_dead {P : Pat → Prop} {rec : Rec} (hrec : RecSticky P rec) {kids : List Pat} {i : Nat}
    (hk : ∀ k ∈ kids, P k) (hs : (stepKid rec kids i).1 = .stop) : DeadAt rec (stepKid rec kids i).2 i := by
  unfold stepKid at hs ⊢
  cases h : kids[i]? with
  | none => simp [h] at hs
  | some k =>
    have hi : i < kids.length := (List.getElem?_eq_some_iff.mp h).1
    simp only [h] at hs ⊢
    exact ⟨(rec k).p, by simp [hi], (hrec k (hk k (List.mem_of_getElem? h))).2 hs⟩

theorem stepKid_P {P : Pat → Prop} {rec : Rec} (hrec : RecSticky P rec) (kids : List Pat) (i : Nat)
    (hk : ∀ k ∈ kids, P k) : ∀ k ∈ (stepKid rec kids i).2, P k := by
  unfold stepKid
  cases h : kids[i]? with
  | none => exact hk
  | some k =>
    intro x hx
    rcases List.mem_or_eq_of_mem_set hx with hx | rfl
    · exact hk x hx
    · exact (hrec k (hk k (List.mem_of_getElem? h))).1

theorem const_sticky : ClsSticky .const := by
  intro P rec kids st _ hk
  exact ⟨hk, fun h => by simp [clsStep, clsStepCore, stepConst] at h⟩

theorem ref_sticky : ClsSticky .ref := by
  intro P rec kids st hrec hk
  refine ⟨stepKid_P hrec kids 0 hk, fun hs => ?_⟩
  have hd : DeadAt rec (stepKid rec kids 0).2 0 := stepKid_stop_dead hrec hk hs
  intro n
  apply clsOuts_noVal (clsStep .ref) rec (fun kids _ => DeadAt rec kids 0) _ n _ _ hd
  intro kids st h
  exact h.step

/-- One-input maps whose function never itself signals StopIteration. -/
theorem un_sticky (f : Val → Out) (c : Cls) (hc : clsStep c = stepUn f) (hf : ∀ a, f a ≠ .stop) : ClsSticky c := by
  intro P rec kids st hrec hk
  rw [hc]
  have hkids : ∀ kids st, (stepUn f rec kids st).kids = (stepKid rec kids 0).2 := by
    intro kids st; simp only [stepUn]; split <;> rfl
  refine ⟨by rw [hkids]; exact stepKid_P hrec kids 0 hk, fun hs => ?_⟩
  have hs' : (stepKid rec kids 0).1 = .stop := by
    simp only [stepUn] at hs
    split at hs
    · rename_i a _; exact absurd hs (hf a)
    · simpa using hs
  have hd : DeadAt rec (stepUn f rec kids st).kids 0 := by rw [hkids]; exact stepKid_stop_dead hrec hk hs'
  intro n
  apply clsOuts_noVal (stepUn f) rec (fun kids _ => DeadAt rec kids 0) _ n _ _ hd
  intro kids st h
  obtain ⟨h1, h2⟩ := h.step
  refine ⟨?_, by rw [hkids]; exact h2⟩
  simp only [stepUn]
  split
  · rename_i a ha; exact absurd ha (h1 a)
  · rename_i o _ ho; simpa using h1

/-- Binary operators: once either operand is dead no value is ever produced again. -/
theorem bin_sticky (f : Val → Val → Out) (c : Cls) (hc : clsStep c = stepBin f) (hf : ∀ a b, f a b ≠ .stop) :
    ClsSticky c := by
  intro P rec kids st hrec hk
  rw [hc]
  have hP : ∀ kids st, (∀ k ∈ kids, P k) → ∀ k ∈ (stepBin f rec kids st).kids, P k := by
    intro kids st hk
    have h1 := stepKid_P hrec kids 0 hk
    have h2 := stepKid_P hrec _ 1 h1
    simp only [stepBin]
    split
    · split <;> exact h2
    · exact h1
  refine ⟨hP kids st hk, fun hs => ?_⟩
  have hd : DeadAt rec (stepBin f rec kids st).kids 0 ∨ DeadAt rec (stepBin f rec kids st).kids 1 := by
    simp only [stepBin] at hs ⊢
    split at hs
    · rename_i a ha
      split at hs
      · rename_i b _; exact absurd hs (hf a b)
      · rename_i o _ hb
        right
        have hb' : (stepKid rec (stepKid rec kids 0).2 1).1 = .stop := by simpa using hs
        have := stepKid_stop_dead hrec (stepKid_P hrec kids 0 hk) hb'
        cases hx : (stepKid rec (stepKid rec kids 0).2 1).1 <;> simp_all
    · left
      have ha' : (stepKid rec kids 0).1 = .stop := by simpa using hs
      have := stepKid_stop_dead hrec hk ha'
      cases hx : (stepKid rec kids 0).1 <;> simp_all
  intro n
  apply clsOuts_noVal (stepBin f) rec (fun kids _ => DeadAt rec kids 0 ∨ DeadAt rec kids 1) _ n _ _ hd
  intro kids st h
  rcases h with h | h
  · obtain ⟨h1, h2⟩ := h.step
    simp only [stepBin]
    split
    · rename_i a ha; exact absurd ha (h1 a)
    · rename_i o _ ho; exact ⟨by simpa using h1, Or.inl h2⟩
  · have h0 : DeadAt rec (stepKid rec kids 0).2 1 := h.other (by decide)
    obtain ⟨h1, h2⟩ := h0.step
    simp only [stepBin]
    split
    · split
      · rename_i b hb; exact absurd hb (h1 b)
      · rename_i o _ ho; exact ⟨by simpa using h1, Or.inr h2⟩
    · rename_i o _ ho
      refine ⟨?_, Or.inr h0⟩
      intro v hv; exact ho v (by simpa using hv)

/-- `PSequence`: it ends when its repeats are used up (state untouched: it ends again), or when the
    item at `pos` ends (`pos` is not advanced: the dead item is polled again). -/
theorem seq_sticky : ClsSticky .seq := by
  intro P rec kids st hrec hk
  have hc : clsStep .seq = stepSeq := rfl
  rw [hc]
  have hP : ∀ k ∈ (stepSeq rec kids st).kids, P k := by
    have h1 := stepKid_P hrec kids st.n1.toNat hk
    simp only [stepSeq]
    split
    · exact hk
    · split
      · split <;> exact h1
      · exact h1
  refine ⟨hP, fun hs => ?_⟩
  let I : List Pat → St → Prop := fun kids st =>
    (kids.length = 0 ∨ (0 ≤ st.n0 ∧ st.n0 ≤ st.n2)) ∨ DeadAt rec kids st.n1.toNat
  have hd : I (stepSeq rec kids st).kids (stepSeq rec kids st).st := by
    simp only [stepSeq] at hs ⊢
    split
    · rename_i hg; exact Or.inl hg
    · rename_i hg
      simp only [hg, if_false] at hs
      split at hs
      · split at hs <;> simp at hs
      · rename_i o ho
        right
        have hs' : (stepKid rec kids st.n1.toNat).1 = .stop := by simpa using hs
        have := stepKid_stop_dead hrec hk hs'
        cases hx : (stepKid rec kids st.n1.toNat).1 <;> simp_all
  intro n
  apply clsOuts_noVal stepSeq rec I _ n _ _ hd
  intro kids st h
  simp only [stepSeq]
  split
  · rename_i hg
    exact ⟨(fun v hv => by cases hv), Or.inl hg⟩
  · rename_i hg
    rcases h with h | h
    · exact absurd h hg
    · obtain ⟨h1, h2⟩ := h.step
      split
      · rename_i v hv; exact absurd hv (h1 v)
      · exact ⟨by simpa using h1, Or.inr h2⟩

theorem binopVal_ne_stop (op : BinOp) (a b : Val) : binopVal op a b ≠ .stop := by
  unfold binopVal
  split
  · simp
  · simp
  · rename_i x y
    unfold binopAtom
    split
    · unfold binopInt; cases op <;> simp <;> (repeat' split) <;> simp
    · split
      · unfold binopFlt; cases op <;> simp <;> (repeat' split) <;> simp
      · (repeat' split) <;> simp
  · cases op <;> simp
  · cases op <;> simp

theorem absVal_ne_stop (a : Val) : absVal a ≠ .stop := by
  unfold absVal; (repeat' split) <;> simp

theorem intVal_ne_stop (a : Val) : intVal a ≠ .stop := by
  unfold intVal; (repeat' split) <;> simp

/-- Sticky core classes (array lookup is a selector, not a finite pattern: with a cycling index it
    may yield again after an exhausted item, and is deliberately not in this set). -/
def StickyCore (c : Cls) : Prop :=
  c = .const ∨ c = .ref ∨ c = .seq ∨ c = .abs ∨ c = .int ∨
  c = .add ∨ c = .sub ∨ c = .mul ∨ c = .div ∨ c = .floorDiv ∨ c = .mod ∨ c = .pow ∨ c = .lshift ∨ c = .rshift ∨
  c = .eq ∨ c = .ne ∨ c = .gt ∨ c = .ge ∨ c = .lt ∨ c = .le ∨ c = .and

theorem core_sticky (c : Cls) (h : StickyCore c) : ClsSticky c := by
  unfold StickyCore at h
  rcases h with h | h | h | h | h | h | h | h | h | h | h | h | h | h | h | h | h | h | h | h | h <;> subst h
  · exact const_sticky
  · exact ref_sticky
  · exact seq_sticky
  · exact un_sticky absVal _ rfl absVal_ne_stop
  · exact un_sticky intVal _ rfl intVal_ne_stop
  all_goals first
    | exact bin_sticky _ _ rfl (binopVal_ne_stop _)
    | exact bin_sticky andVal _ rfl (by intro a b; simp [andVal])

/-- **C09 for the core classes**: in any expression built from constants, sequences (nested to any
    depth), references, `abs`, `int` and all operators, once `next()` has raised StopIteration no later
    `next()` yields a value — so a drained track stays drained while it waits for its last notes. -/
theorem sticky_core (fuel : Nat) (p : Pat) (hp : AllCls StickyCore p) (hstop : (stepF fuel p).out = .stop) :
    ∀ n, ∀ o ∈ outs fuel n (stepF fuel p).p, NoVal o :=
  (sticky_stepF core_sticky fuel p hp).2 hstop

/-! Non-vacuity -/
section Example
def sq (xs : List Int) (rep : Int) : Pat := .node .seq (xs.map (fun i => Pat.const (.int i))) { n0 := rep }
def ex : Pat := .node .add [sq [1, 2] 1, sq [10, 20, 30] (-1)] {}
example : outs 10 6 ex = [.val (.int 11), .val (.int 22), .stop, .stop, .stop, .stop] := by decide
example : (nextn 10 5 ex).vals = [.int 11, .int 22] ∧ (len 10 100 ex).1 = some 2 := by decide
end Example

end IsobarV.C09
