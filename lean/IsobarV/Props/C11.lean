/-
C11 — stochastic patterns are reproducible when seeded, isolated, and stay in range.

The model reads the draws of a pattern's private generator from a recorded tape; every theorem here is
quantified over EVERY tape of valid primitive draws (`rng.random()` in [0, 1), `rng._randbelow(n)` < n),
i.e. over every seed and every generator state.  Theorems are stated on the pure cores of the classes
(`IsobarV/Pat/Cls/Chance.lean`): whatever the sub-patterns are, the class computes on the scalars they
resolve to, so the statements hold at every nesting depth.
-/
import IsobarV.Props.C04_Chance
import Mathlib.Data.Rat.Floor
import Mathlib.Tactic.Linarith
import Mathlib.Tactic.Positivity
import Mathlib.Data.List.Perm.Basic

namespace IsobarV.C11
open IsobarV.Pat

/-! ### Valid tapes -/

def ValidDraw : Draw → Prop
  | .u r => 0 ≤ r ∧ r < 1
  | .b n k => k < n

/-- Every recorded draw is a possible result of the primitive. -/
def ValidTape (s : St) : Prop := ∀ d ∈ s.tape, ValidDraw d

theorem drawU_valid {s s' : St} {u : Rat} (hv : ValidTape s) (h : s.drawU = (some u, s')) :
    0 ≤ u ∧ u < 1 ∧ s' = { s with cur := s.cur + 1 } := by
  unfold St.drawU at h
  split at h
  · rename_i r hr
    simp only [Prod.mk.injEq, Option.some.injEq] at h
    obtain ⟨rfl, rfl⟩ := h
    have := hv _ (List.mem_of_getElem? hr)
    exact ⟨this.1, this.2, rfl⟩
  · simp at h

theorem drawB_valid {s s' : St} {n k : Nat} (hv : ValidTape s) (h : s.drawB n = (some k, s')) :
    k < n ∧ s' = { s with cur := s.cur + 1 } := by
  unfold St.drawB at h
  split at h
  · rename_i m j hr
    split at h
    · rename_i hmn
      simp only [Prod.mk.injEq, Option.some.injEq] at h
      obtain ⟨rfl, rfl⟩ := h
      have := hv _ (List.mem_of_getElem? hr)
      exact ⟨hmn ▸ this, rfl⟩
    · simp at h
  · simp at h

theorem validTape_adv {s : St} (hv : ValidTape s) (c : Nat) : ValidTape { s with cur := c } := hv

/-! ### PWhite -/

/-- `uniform(a, b)` lies between its bounds (and below `b` when `a < b`). -/
theorem uniformR_range (a b u : Rat) (hab : a ≤ b) (h0 : 0 ≤ u) (h1 : u < 1) :
    a ≤ uniformR a b u ∧ uniformR a b u ≤ b ∧ (a < b → uniformR a b u < b) := by
  unfold uniformR
  have hd : 0 ≤ b - a := by linarith
  have h2 : (b - a) * u ≤ (b - a) * 1 := mul_le_mul_of_nonneg_left (le_of_lt h1) hd
  refine ⟨by nlinarith [mul_nonneg hd h0], by linarith, fun hlt => ?_⟩
  have hd' : 0 < b - a := by linarith
  have h3 : (b - a) * u < (b - a) * 1 := mul_lt_mul_of_pos_left h1 hd'
  linarith

/-- `int(x)` of a number between two integers lies between them. -/
theorem truncRat_range (a b : Int) (x : Rat) (h1 : (a : Rat) ≤ x) (h2 : x ≤ (b : Rat)) : a ≤ truncRat x ∧ truncRat x ≤ b := by
  unfold truncRat
  split
  · constructor
    · exact Rat.le_floor_iff.mpr h1
    · have := Rat.floor_le x
      have h3 : ((x.floor : Int) : Rat) ≤ (b : Rat) := le_trans this h2
      exact_mod_cast h3
  · constructor
    · have : (-x).floor ≤ -a := by
        have h3 := Rat.floor_le (-x)
        have h4 : (((-x).floor : Int) : Rat) ≤ ((-a : Int) : Rat) := by push_cast; linarith
        exact_mod_cast h4
      omega
    · have : -b ≤ (-x).floor := Rat.le_floor_iff.mpr (by push_cast; linarith)
      omega
/-- **PWhite stays in range**: with `min ≤ max`, a float `min` gives floats in `[min, max]` (below `max`
    when `min < max`); an int `min` gives ints, between the bounds when both are ints — whatever the
    generator draws. -/
theorem white_in_range (mn mx len : Atom) (na nb : Num) (st st' : St) (v : Val) (hv : ValidTape st)
    (hmn : mn.toNum = some na) (hmx : mx.toNum = some nb) (hab : na.r ≤ nb.r)
    (h : whiteCore [.a mn, .a mx, .a len] st = (.val v, st')) :
    (na.isFloat = true → ∃ r, v = .flt r ∧ na.r ≤ r ∧ r ≤ nb.r ∧ (na.r < nb.r → r < nb.r)) ∧
    (na.isFloat = false → ∃ i, v = .int i ∧ ∀ A B : Int, na.r = A → nb.r = B → A ≤ i ∧ i ≤ B) := by
  simp only [whiteCore, hmn, hmx] at h
  split at h
  · simp at h
  · split at h
    · simp at h
    · split at h
      · rename_i u s1 hd
        have hv' : ValidTape { st with n0 := st.n0 + 1 } := hv
        obtain ⟨u0, u1, _⟩ := drawU_valid hv' hd
        obtain ⟨r1, r2, r3⟩ := uniformR_range na.r nb.r u hab u0 u1
        split at h
        · rename_i hf
          simp only [Prod.mk.injEq, Out.val.injEq] at h
          refine ⟨fun _ => ⟨_, h.1.symm, r1, r2, r3⟩, fun hf' => by simp [hf] at hf'⟩
        · rename_i hf
          simp only [Prod.mk.injEq, Out.val.injEq] at h
          refine ⟨fun hf' => absurd hf' hf, fun _ => ⟨_, h.1.symm, fun A B hA hB => ?_⟩⟩
          exact truncRat_range A B _ (hA ▸ r1) (hB ▸ r2)
      · simp at h

/-- Outcomes of `n` successive steps of a pure core on the same resolved values. -/
def coreOuts (core : List Val → St → Out × St) (vals : List Val) : Nat → St → List Out
  | 0, _ => []
  | n + 1, st => (core vals st).1 :: coreOuts core vals n (core vals st).2

theorem white_stop_phase (mn mx : Atom) (L : Nat) (hL : 0 < L) (m : Nat) (st : St) (h : (L : Int) ≤ st.n0) :
    coreOuts whiteCore [.a mn, .a mx, .int (L : Int)] m st = List.replicate m .stop := by
  induction m generalizing st with
  | zero => rfl
  | succ m ih =>
    have hc : (0 : Rat) < ((L : Int) : Rat) ∧ ((L : Int) : Rat) < ((st.n0 + 1 : Int) : Rat) := by
      constructor
      · exact_mod_cast hL
      · have : (L : Int) < st.n0 + 1 := by omega
        exact_mod_cast this
    have h1 : whiteCore [.a mn, .a mx, .int (L : Int)] st = (.stop, { st with n0 := st.n0 + 1 }) := by
      have hl : (Atom.int (L : Int)).toNum = some { r := ((L : Int) : Rat), isFloat := false } := rfl
      simp only [whiteCore, hl]
      rw [if_pos hc]
    simp only [coreOuts, List.replicate_succ, h1]
    rw [ih]
    simp only []
    omega

theorem white_value_phase (mn mx : Atom) (na nb : Num) (hmn : mn.toNum = some na) (hmx : mx.toNum = some nb)
    (L : Nat) (st : St) (h : st.n0 < (L : Int)) (r : Rat) (ht : st.tape[st.cur]? = some (.u r)) :
    ∃ v, whiteCore [.a mn, .a mx, .int (L : Int)] st = (.val v, { st with n0 := st.n0 + 1, cur := st.cur + 1 }) := by
  have hc : ¬ ((0 : Rat) < ((L : Int) : Rat) ∧ ((L : Int) : Rat) < ((st.n0 + 1 : Int) : Rat)) := by
    intro ⟨_, h2⟩
    have : (L : Int) < st.n0 + 1 := by exact_mod_cast h2
    omega
  have hl : (Atom.int (L : Int)).toNum = some { r := ((L : Int) : Rat), isFloat := false } := rfl
  simp only [whiteCore, hl, hmn, hmx]
  rw [if_neg hc]
  simp only [St.drawU, ht]
  split
  · exact ⟨_, rfl⟩
  · exact ⟨_, rfl⟩

/-- **A finite length yields exactly that many values**: `PWhite(min, max, length = L)` with `L > 0`
    yields `L` values and then StopIteration for ever (whatever the draws are). -/
theorem white_length_exact (mn mx : Atom) (na nb : Num) (hmn : mn.toNum = some na) (hmx : mx.toNum = some nb)
    (L : Nat) (hL : 0 < L) (m d : Nat) (st : St) (hd : st.n0 + (d : Int) = L) (h0 : 0 ≤ st.n0)
    (htape : ∀ i < d, ∃ r, st.tape[st.cur + i]? = some (.u r)) :
    ∃ vs : List Val, vs.length = d ∧
      coreOuts whiteCore [.a mn, .a mx, .int (L : Int)] (d + m) st = vs.map Out.val ++ List.replicate m .stop := by
  induction d generalizing st with
  | zero =>
    refine ⟨[], rfl, ?_⟩
    simp only [Nat.zero_add, List.map_nil, List.nil_append]
    exact white_stop_phase mn mx L hL m st (by omega)
  | succ d ih =>
    obtain ⟨r, hr⟩ := htape 0 (by omega)
    obtain ⟨v, hv⟩ := white_value_phase mn mx na nb hmn hmx L st (by omega) r (by simpa using hr)
    obtain ⟨vs, hl, hvs⟩ := ih { st with n0 := st.n0 + 1, cur := st.cur + 1 } (by simp only []; omega) (by simp only []; omega)
      (by
        intro i hi
        obtain ⟨r', hr'⟩ := htape (i + 1) (by omega)
        exact ⟨r', by simpa [Nat.add_assoc, Nat.add_comm 1 i] using hr'⟩)
    refine ⟨v :: vs, by simp [hl], ?_⟩
    have : d + 1 + m = (d + m) + 1 := by omega
    rw [this]
    simp only [coreOuts, hv, List.map_cons, List.cons_append, hvs]

/-! ### PBrown -/
theorem mkNum_toNum (f : Bool) (r : Rat) (hr : f = false → ∃ i : Int, r = i) : ∃ n, (mkNum f r).toNum = some n ∧ n.r = r := by
  unfold mkNum
  cases f with
  | true => exact ⟨_, rfl, rfl⟩
  | false =>
    obtain ⟨i, rfl⟩ := hr rfl
    refine ⟨_, rfl, ?_⟩
    simp [Rat.floor_intCast]

/-- `min(max(v, lo), hi)` lies in `[lo, hi]` and is `v` itself when `v` already does. -/
theorem clampAtom_spec (v lo hi c : Atom) (nv nlo nhi : Num) (hv : v.toNum = some nv) (hlo : lo.toNum = some nlo)
    (hhi : hi.toNum = some nhi) (hle : nlo.r ≤ nhi.r) (h : clampAtom v lo hi = some c) :
    ∃ nc, c.toNum = some nc ∧ nlo.r ≤ nc.r ∧ nc.r ≤ nhi.r ∧ (nlo.r ≤ nv.r → nv.r ≤ nhi.r → c = v) := by
  simp only [clampAtom, pyMax, hv, hlo] at h
  by_cases h1 : nv.r < nlo.r
  · simp only [h1, if_true, pyMin, hlo, hhi] at h
    by_cases h2 : nhi.r < nlo.r
    · exact absurd h2 (not_lt.mpr hle)
    · simp only [h2, if_false, Option.some.injEq] at h
      subst h
      exact ⟨nlo, hlo, le_refl _, hle, fun h3 => absurd h1 (not_lt.mpr h3)⟩
  · simp only [h1, if_false, pyMin, hv, hhi] at h
    by_cases h2 : nhi.r < nv.r
    · simp only [h2, if_true, Option.some.injEq] at h
      subst h
      exact ⟨nhi, hhi, hle, le_refl _, fun _ h4 => absurd h2 (not_lt.mpr h4)⟩
    · simp only [h2, if_false, Option.some.injEq] at h
      subst h
      exact ⟨nv, hv, not_lt.mp h1, not_lt.mp h2, fun _ _ => rfl⟩
theorem toNum_int_of_not_float (a : Atom) (n : Num) (h : a.toNum = some n) (hf : n.isFloat = false) : ∃ i : Int, n.r = i := by
  cases a with
  | none => simp [Atom.toNum] at h
  | int i => simp only [Atom.toNum, Option.some.injEq] at h; subst h; exact ⟨i, rfl⟩
  | flt r => simp only [Atom.toNum, Option.some.injEq] at h; subst h; simp at hf
  | bool b => simp only [Atom.toNum, Option.some.injEq] at h; subst h; cases b <;> [exact ⟨0, by simp⟩; exact ⟨1, by simp⟩]
  | str s => simp [Atom.toNum] at h

theorem brownFinish_spec (d : Rat) (f : Bool) (lo hi cur : Atom) (old st st' : St) (v : Val) (ncur nlo nhi : Num)
    (hcur : old.v0 = .a cur) (hn : cur.toNum = some ncur) (hlo : lo.toNum = some nlo) (hhi : hi.toNum = some nhi)
    (hle : nlo.r ≤ nhi.r) (hint : f = false → ∃ i : Int, d = i)
    (h : brownFinish d f lo hi old st = (.val v, st')) :
    v = old.v0 ∧ ∃ nxt nn, st'.v0 = .a nxt ∧ nxt.toNum = some nn ∧ nlo.r ≤ nn.r ∧ nn.r ≤ nhi.r ∧
      (nlo.r ≤ ncur.r + d → ncur.r + d ≤ nhi.r → nn.r = ncur.r + d) := by
  simp only [brownFinish, hcur, addNum, hn] at h
  have hm : ∃ n, (mkNum (ncur.isFloat || f) (ncur.r + d)).toNum = some n ∧ n.r = ncur.r + d := by
    apply mkNum_toNum
    intro hf
    simp only [Bool.or_eq_false_iff] at hf
    obtain ⟨i, hi⟩ := toNum_int_of_not_float cur ncur hn hf.1
    obtain ⟨j, hj⟩ := hint hf.2
    exact ⟨i + j, by rw [hi, hj]; push_cast; rfl⟩
  obtain ⟨nm, hnm, hr⟩ := hm
  split at h
  · rename_i c hc
    simp only [Prod.mk.injEq, Out.val.injEq] at h
    obtain ⟨nc, h1, h2, h3, h4⟩ := clampAtom_spec _ lo hi c nm nlo nhi hnm hlo hhi hle hc
    refine ⟨by rw [hcur]; exact h.1.symm, c, nc, by rw [← h.2], h1, h2, h3, fun a b => ?_⟩
    have := h4 (hr ▸ a) (hr ▸ b)
    rw [this, hnm] at h1
    simp only [Option.some.injEq] at h1
    rw [← h1, hr]
  · simp at h

/-- **PBrown steps by at most `step` and is clamped to `[min, max]`**: a step returns the current value;
    the next value is `min(max(value + d, min), max)` for some `|d| ≤ step` (an integer when `step` is
    an int), hence within `[min, max]`, and equal to `value + d` whenever that lies within the bounds. -/
theorem brown_step_and_clamp (stp lo hi cur : Atom) (st st' : St) (v : Val) (ns ncur nlo nhi : Num) (hv : ValidTape st)
    (hs : stp.toNum = some ns) (hs0 : 0 ≤ ns.r)
    (hcur : st.v0 = .a cur) (hn : cur.toNum = some ncur) (hlo : lo.toNum = some nlo) (hhi : hi.toNum = some nhi)
    (hle : nlo.r ≤ nhi.r) (h : brownCore [.a stp, .a lo, .a hi] st = (.val v, st')) :
    v = st.v0 ∧ ∃ (d : Rat) (nxt : Atom) (nn : Num), -ns.r ≤ d ∧ d ≤ ns.r ∧ st'.v0 = .a nxt ∧ nxt.toNum = some nn ∧
      nlo.r ≤ nn.r ∧ nn.r ≤ nhi.r ∧ (nlo.r ≤ ncur.r + d → ncur.r + d ≤ nhi.r → nn.r = ncur.r + d) := by
  simp only [brownCore] at h
  split at h
  · -- float step
    rename_i s
    simp only [Atom.toNum, Option.some.injEq] at hs
    subst hs
    split at h
    · rename_i u s1 hd
      obtain ⟨u0, u1, rfl⟩ := drawU_valid hv hd
      obtain ⟨r1, r2, _⟩ := uniformR_range (-s) s u (by simp only [] at hs0; linarith) u0 u1
      obtain ⟨e1, nxt, nn, e2⟩ := brownFinish_spec _ true lo hi cur st _ st' v ncur nlo nhi hcur hn hlo hhi hle (by simp) h
      exact ⟨e1, _, nxt, nn, r1, r2, e2⟩
    · simp at h
  · split at h
    · rename_i s hsi
      split at h
      · simp at h
      · rename_i hneg
        split at h
        · rename_i k s1 hd
          obtain ⟨hk, rfl⟩ := drawB_valid hv hd
          have hsr : ns.r = (s : Rat) := by
            cases stp with
            | int i => simp only [Atom.toInt?, Option.some.injEq] at hsi; simp only [Atom.toNum, Option.some.injEq] at hs; subst hs hsi; rfl
            | bool b =>
              simp only [Atom.toInt?, Option.some.injEq] at hsi; simp only [Atom.toNum, Option.some.injEq] at hs; subst hs hsi
              cases b <;> simp
            | none => simp [Atom.toInt?] at hsi
            | flt r => simp [Atom.toInt?] at hsi
            | str t => simp [Atom.toInt?] at hsi
          obtain ⟨e1, nxt, nn, e2⟩ := brownFinish_spec _ false lo hi cur st _ st' v ncur nlo nhi hcur hn hlo hhi hle
            (fun _ => ⟨_, rfl⟩) h
          have hk' : (k : Int) < 2 * s + 1 := by omega
          refine ⟨e1, _, nxt, nn, ?_, ?_, e2⟩
          · rw [hsr]; have : -s ≤ -s + (k : Int) := by omega
            exact_mod_cast this
          · rw [hsr]; have : -s + (k : Int) ≤ s := by omega
            exact_mod_cast this
        · simp at h
    · simp at h

/-! ### PRandomWalk, PChoice, PSkip, PCoin, PFlipFlop -/

/-- **PRandomWalk moves between `min` and `max` positions per step** (in either direction, wrapping
    around the list): the new position is `(pos ± m) mod len` for some `min ≤ m ≤ max`, and the value
    returned is the element at the new position. -/
theorem walk_moves_min_to_max (xs : List Atom) (a b : Atom) (lo hi : Int) (st st' : St) (v : Val) (hv : ValidTape st)
    (ha : a.toInt? = some lo) (hb : b.toInt? = some hi) (hw : st.n1 ≠ 0)
    (h : walkCore [.tup xs, .a a, .a b] st = (.val v, st')) :
    ∃ m : Int, lo ≤ m ∧ m ≤ hi ∧
      (st'.n0 = (st.n0 + m) % (xs.length : Int) ∨ st'.n0 = (st.n0 - m) % (xs.length : Int)) ∧
      ∃ x, xs[st'.n0.toNat]? = some x ∧ v = .a x := by
  simp only [walkCore, ha, hb] at h
  split at h
  · simp at h
  · split at h
    · rename_i k s1 hd
      obtain ⟨hk, rfl⟩ := drawB_valid hv hd
      split at h
      · rename_i u s2 hd2
        obtain ⟨_, _, rfl⟩ := drawU_valid (validTape_adv hv _) hd2
        refine ⟨lo + (k : Int), by omega, by omega, ?_⟩
        simp only [walkFinish] at h
        have hw' : (st.n1 ≠ 0) := hw
        simp only [ne_eq, hw', not_false_eq_true, if_true] at h
        split at h
        · simp at h
        · split at h
          · rename_i x hx
            simp only [Prod.mk.injEq, Out.val.injEq] at h
            obtain ⟨h1, h2⟩ := h
            subst h2
            simp only []
            by_cases hu : u < 1 / 2
            · rw [if_pos hu] at hx ⊢
              exact ⟨Or.inr (by congr 1; omega), x, hx, h1.symm⟩
            · rw [if_neg hu] at hx ⊢
              exact ⟨Or.inl rfl, x, hx, h1.symm⟩
          · simp at h
      · simp at h
    · simp at h

/-- **PChoice draws from the given values** (plain or weighted). -/
theorem choice_in_support (xs : List Atom) (w : Val) (st st' : St) (v : Val)
    (h : choiceCore [.tup xs, w] st = (.val v, st')) : ∃ x ∈ xs, v = .a x := by
  unfold choiceCore at h
  split at h
  · simp only [List.cons.injEq, Val.tup.injEq, and_true] at *
    rename_i ys heq
    obtain ⟨rfl, _⟩ := heq
    split at h
    · simp at h
    · split at h
      · split at h
        · rename_i x hx
          simp only [Prod.mk.injEq, Out.val.injEq] at h
          exact ⟨x, List.mem_of_getElem? hx, h.1.symm⟩
        · simp at h
      · simp at h
  · rename_i ys ws heq
    simp only [List.cons.injEq, Val.tup.injEq, and_true] at heq
    obtain ⟨rfl, _⟩ := heq
    split at h
    · split at h
      · split at h
        · split at h
          · rename_i x hx
            simp only [Prod.mk.injEq, Out.val.injEq] at h
            exact ⟨x, List.mem_of_getElem? hx, h.1.symm⟩
          · simp at h
        · simp at h
      · simp at h
    · simp at h
  · simp at h

/-- **PSkip only replaces values by rests**: the output is the input value or `None`. -/
theorem skip_only_rests (x : Val) (play : Atom) (st st' : St) (v : Val)
    (h : skipCore [x, .a play] st = (.val v, st')) : v = x ∨ v = Val.none := by
  simp only [skipCore] at h
  repeat' split at h
  all_goals (simp only [Prod.mk.injEq, Out.val.injEq, reduceCtorEq, false_and] at h)
  all_goals (first | exact Or.inl h.1.symm | exact Or.inr h.1.symm)

/-- **PCoin yields 0 or 1.** -/
theorem coin_zero_one (p : Atom) (reg : Val) (st st' : St) (v : Val)
    (h : coinCore [.a p, reg] st = (.val v, st')) : v = .int 0 ∨ v = .int 1 := by
  simp only [coinCore] at h
  repeat' split at h
  all_goals (simp only [Prod.mk.injEq, Out.val.injEq, reduceCtorEq, false_and] at h)
  all_goals (first | exact Or.inl h.1.symm | exact Or.inr h.1.symm)

/-- **PFlipFlop stays in {0, 1}** (started at 0 or 1), and the value returned is the new state. -/
theorem flipFlop_zero_one (pon poff : Atom) (st st' : St) (v : Val) (h0 : st.v0 = .int 0 ∨ st.v0 = .int 1)
    (h : flipFlopCore [.a pon, .a poff] st = (.val v, st')) : (v = .int 0 ∨ v = .int 1) ∧ st'.v0 = v := by
  simp only [flipFlopCore] at h
  repeat' split at h
  all_goals (simp only [Prod.mk.injEq, Out.val.injEq, reduceCtorEq, false_and] at h)
  all_goals (obtain ⟨h1, h2⟩ := h; subst h1 h2)
  all_goals first
    | exact ⟨Or.inl rfl, rfl⟩
    | exact ⟨Or.inr rfl, rfl⟩
    | (refine ⟨h0, ?_⟩
       rcases IsobarV.C04.drawU_cases (by assumption) with e | e <;> subst e <;> rfl)

/-! ### Shuffles -/

theorem swapAt_perm {α : Type} [DecidableEq α] (xs : List α) (i j : Nat) : (swapAt xs i j).Perm xs := by
  unfold swapAt
  split
  · rename_i a b ha hb
    obtain ⟨hi, hai⟩ := List.getElem?_eq_some_iff.mp ha
    obtain ⟨hj, hbj⟩ := List.getElem?_eq_some_iff.mp hb
    rw [List.perm_iff_count]
    intro c
    have hj' : j < (xs.set i b).length := by simpa using hj
    rw [List.count_set hj', List.count_set hi]
    have e1 : (xs.set i b)[j] = b := by
      rw [List.getElem_set]
      split
      · rfl
      · exact hbj
    rw [e1, hai]
    have hle : (if (a == c) = true then 1 else 0) ≤ xs.count c := by
      split
      · rename_i hac
        have : a = c := by simpa using hac
        subst this
        exact List.count_pos_iff.mpr (List.mem_of_getElem? ha)
      · omega
    generalize (if (a == c) = true then 1 else 0) = A at *
    generalize (if (b == c) = true then 1 else 0) = B at *
    omega
  · exact List.Perm.refl _

theorem shuffleLoop_perm {α : Type} [DecidableEq α] (i : Nat) (xs ys : List α) (st st' : St)
    (h : shuffleLoop i xs st = some (ys, st')) : ys.Perm xs := by
  induction i generalizing xs st with
  | zero => simp only [shuffleLoop, Option.some.injEq, Prod.mk.injEq] at h; rw [← h.1]
  | succ i ih =>
    simp only [shuffleLoop] at h
    split at h
    · exact (ih _ _ h).trans (swapAt_perm _ _ _)
    · cases h

/-- **A shuffle is a permutation**: whatever the draws, `rng.shuffle` returns a rearrangement of its
    input — nothing lost, nothing duplicated. -/
theorem shuffle_is_permutation {α : Type} [DecidableEq α] (xs ys : List α) (st st' : St)
    (h : pyShuffle xs st = some (ys, st')) : ys.Perm xs :=
  shuffleLoop_perm _ _ _ _ _ h

/-- `PShuffle`: at every step the values held are a permutation of the values before (hence, from the
    constructor / `reset()`, of `values_orig`), and a value returned is one of them. -/
theorem pshuffle_perm (vals : List Val) (st : St) :
    (shuffleCore vals st).2.buf.Perm st.buf ∧ ∀ v, (shuffleCore vals st).1 = .val v → v ∈ (shuffleCore vals st).2.buf := by
  unfold shuffleCore
  split
  · split
    · split
      · rename_i vs s1 hp
        have hperm := shuffle_is_permutation _ _ _ _ hp
        have hb : s1.buf = st.buf := (IsobarV.C04.shuffleLoop_eqCur _ _ _ _ _ hp).fields.2.2.2.2.2.2.2.2.2.1
        unfold shuffleEmit
        repeat' split
        all_goals (simp only [reduceCtorEq, Out.val.injEq, false_imp_iff, implies_true, and_true])
        all_goals (first | exact hperm | (rw [hb]) | skip)
        all_goals (refine ⟨hperm, fun v hv => ?_⟩; subst hv; exact List.mem_of_getElem? (by assumption))
      · exact ⟨List.Perm.refl _, fun v hv => by simp at hv⟩
    · unfold shuffleEmit
      repeat' split
      all_goals (simp only [reduceCtorEq, Out.val.injEq, false_imp_iff, implies_true, and_true])
      all_goals (first | exact List.Perm.refl _ | skip)
      all_goals (refine ⟨List.Perm.refl _, fun v hv => ?_⟩; subst hv; exact List.mem_of_getElem? (by assumption))
  · exact ⟨List.Perm.refl _, fun v hv => by simp at hv⟩

/-! ### PSample -/

theorem sampleLoop_spec (n : Nat) (xs : List Atom) (ws : List Rat) (acc : List Atom) (st st' : St) (v : Val)
    (h : sampleLoop n xs ws acc st = (.val v, st')) :
    ∃ ys rest, v = .tup (acc.reverse ++ ys) ∧ ys.length = n ∧ (ys ++ rest).Perm xs := by
  induction n generalizing xs ws acc st with
  | zero =>
    simp only [sampleLoop, Prod.mk.injEq, Out.val.injEq] at h
    exact ⟨[], xs, by simp [h.1], rfl, by simp⟩
  | succ n ih =>
    have key : ∀ (k : Nat) (x : Atom) (ws' : List Rat) (s1 : St), xs[k]? = some x →
        sampleLoop n (xs.eraseIdx k) ws' (x :: acc) s1 = (.val v, st') →
        ∃ ys rest, v = .tup (acc.reverse ++ ys) ∧ ys.length = n + 1 ∧ (ys ++ rest).Perm xs := by
      intro k x ws' s1 hx hs
      obtain ⟨ys, rest, e1, e2, e3⟩ := ih _ _ _ _ hs
      obtain ⟨hk, hxk⟩ := List.getElem?_eq_some_iff.mp hx
      refine ⟨x :: ys, rest, by simp [e1], by simp [e2], ?_⟩
      have := List.getElem_cons_eraseIdx_perm hk
      rw [hxk] at this
      exact (List.Perm.cons x e3).trans this
    simp only [sampleLoop] at h
    split at h
    · split at h
      · simp at h
      · split at h
        · split at h
          · exact key _ _ _ _ (by assumption) h
          · simp at h
        · simp at h
    · split at h
      · split at h
        · split at h
          · exact key _ _ _ _ (by assumption) h
          · simp at h
        · simp at h
      · simp at h

/-- **PSample samples without replacement**: the `count` values returned sit at distinct positions of
    `values` — together with the values not chosen they are a rearrangement of `values` (plain or
    weighted; whatever the draws). -/
theorem sample_without_replacement (xs : List Atom) (c : Atom) (w : Val) (st st' : St) (v : Val)
    (h : sampleCore [.tup xs, .a c, w] st = (.val v, st')) :
    ∃ ys rest cnt, v = .tup ys ∧ c.toInt? = some cnt ∧ (ys.length : Int) = max cnt 0 ∧ (ys ++ rest).Perm xs := by
  simp only [sampleCore] at h
  split at h
  · rename_i cnt hc
    split at h
    · simp at h
    · have fin : ∀ (ws : List Rat), sampleLoop cnt.toNat xs ws [] st = (.val v, st') →
          ∃ ys rest cnt, v = .tup ys ∧ c.toInt? = some cnt ∧ (ys.length : Int) = max cnt 0 ∧ (ys ++ rest).Perm xs := by
        intro ws hs
        obtain ⟨ys, rest, e1, e2, e3⟩ := sampleLoop_spec _ _ _ _ _ _ _ hs
        exact ⟨ys, rest, cnt, by simpa using e1, hc, by rw [e2]; omega, e3⟩
      split at h
      · split at h
        · exact fin _ h
        · simp at h
      · split at h
        · simp at h
        · exact fin _ h
  · simp at h

/-! ### PMarkov -/

theorem succs_mem (es : List (Val × Val)) (x y : Val) (h : y ∈ succs es x) : (x, y) ∈ es := by
  simp only [succs, List.mem_map, List.mem_filter, beq_iff_eq] at h
  obtain ⟨e, ⟨he, h1⟩, h2⟩ := h
  have : e = (x, y) := by cases e; simp_all
  rw [← this]; exact he

theorem markovMove_spec (node : Val) (st st' : St) (y : Val) (h : markovMove node st = (.val y, st')) :
    (node, y) ∈ edgesOf st.buf2 ∧ st'.v0 = y ∧ st'.buf = st.buf ∧ st'.buf2 = st.buf2 := by
  simp only [markovMove] at h
  split at h
  · simp at h
  · split at h
    · rename_i k s1 hd
      split at h
      · rename_i z hz
        simp only [Prod.mk.injEq, Out.val.injEq] at h
        obtain ⟨rfl, rfl⟩ := h
        obtain ⟨_, _, _, _, _, _, _, _, _, hb, hb2, _⟩ := (IsobarV.C04.eqCur_of_drawB hd).fields
        exact ⟨succs_mem _ _ _ (List.mem_of_getElem? hz), rfl, hb, hb2⟩
      · simp at h
    · simp at h

/-- **PMarkov takes only learned transitions**: a value `y` is returned only along an edge `(x, y)` of
    the chain, where `x` is the current node — or, at the start, a node of the chain chosen at random —
    and `y` becomes the current node (so consecutive outputs are always joined by an edge). -/
theorem markov_only_learned_transitions (vals : List Val) (st st' : St) (y : Val)
    (h : markovCore vals st = (.val y, st')) :
    st'.v0 = y ∧ st'.buf = st.buf ∧ st'.buf2 = st.buf2 ∧
    ∃ x, (x, y) ∈ edgesOf st.buf2 ∧ (st.v0 ≠ Val.none → x = st.v0) ∧ (st.v0 = Val.none → x ∈ st.buf) := by
  simp only [markovCore] at h
  split at h
  · rename_i hc
    split at h
    · rename_i k s1 hd
      split at h
      · rename_i x hx
        obtain ⟨_, _, _, _, _, _, _, _, _, hb, hb2, _⟩ := (IsobarV.C04.eqCur_of_drawB hd).fields
        obtain ⟨e1, e2, e3, e4⟩ := markovMove_spec _ _ _ _ h
        rw [hb2] at e1
        exact ⟨e2, e3.trans hb, e4.trans hb2, x, e1, fun hne => absurd hc.1 hne, fun _ => List.mem_of_getElem? hx⟩
      · simp at h
    · simp at h
  · rename_i hc
    obtain ⟨e1, e2, e3, e4⟩ := markovMove_spec _ _ _ _ h
    refine ⟨e2, e3, e4, st.v0, e1, fun _ => rfl, fun hn => ?_⟩
    -- not started and no nodes: `markovMove` stops, it cannot have returned a value
    have hl : st.buf.length = 0 := by
      by_contra hne
      exact hc ⟨hn, hne⟩
    have : st.buf = [] := List.eq_nil_of_length_eq_zero hl
    simp [markovMove, this] at h

/-- Consecutive outputs of a chain are joined by a learned transition. -/
theorem markov_chain (vals vals' : List Val) (st st' st'' : St) (y z : Val) (hy : y ≠ Val.none)
    (h1 : markovCore vals st = (.val y, st')) (h2 : markovCore vals' st' = (.val z, st'')) :
    (y, z) ∈ edgesOf st.buf2 := by
  obtain ⟨e1, _, e3, _⟩ := markov_only_learned_transitions _ _ _ _ h1
  obtain ⟨_, _, _, x, f1, f2, _⟩ := markov_only_learned_transitions _ _ _ _ h2
  rw [e1] at f2
  rw [f2 hy, e3] at f1
  exact f1

/-! ### Weighted choice -/

/-- Cumulative weight of the first `i` entries. -/
def cum (ws : List Rat) (i : Nat) : Rat := sumR (ws.take i)

theorem sumR_nonneg (ws : List Rat) (h : ∀ w ∈ ws, 0 ≤ w) : 0 ≤ sumR ws := by
  induction ws with
  | nil => simp [sumR]
  | cons w ws ih =>
    have h1 := h w (by simp)
    have h2 := ih (fun x hx => h x (by simp [hx]))
    simp only [sumR]; linarith

theorem cum_nonneg (ws : List Rat) (h : ∀ w ∈ ws, 0 ≤ w) (i : Nat) : 0 ≤ cum ws i :=
  sumR_nonneg _ (fun w hw => h w (List.mem_of_mem_take hw))

theorem cum_zero (ws : List Rat) : cum ws 0 = 0 := by simp [cum, sumR]
theorem cum_cons_succ (w : Rat) (ws : List Rat) (i : Nat) : cum (w :: ws) (i + 1) = w + cum ws i := by simp [cum, sumR]

theorem windexFrom_ge (ws : List Rat) (n : Rat) (base k : Nat) (h : windexFrom ws n base = some k) : base ≤ k := by
  induction ws generalizing n base with
  | nil => simp [windexFrom] at h
  | cons w ws ih =>
    simp only [windexFrom] at h
    split at h
    · simp only [Option.some.injEq] at h; omega
    · have := ih _ _ h; omega

/-- The loop of `windex` returns `i` exactly when the draw lies in `[c_i, c_(i+1))`, `c` the cumulative weights. -/
theorem windexFrom_iff (ws : List Rat) (hw : ∀ w ∈ ws, 0 ≤ w) (n : Rat) (hn : 0 ≤ n) (base i : Nat) :
    windexFrom ws n base = some (base + i) ↔ i < ws.length ∧ cum ws i ≤ n ∧ n < cum ws (i + 1) := by
  induction ws generalizing n base i with
  | nil => simp [windexFrom]
  | cons w ws ih =>
    have hw0 : 0 ≤ w := hw w (by simp)
    have hws : ∀ x ∈ ws, 0 ≤ x := fun x hx => hw x (by simp [hx])
    simp only [windexFrom]
    by_cases hlt : n < w
    · simp only [hlt, if_true, Option.some.injEq]
      cases i with
      | zero => simp [cum_zero, cum_cons_succ, hn, hlt]
      | succ j =>
        constructor
        · intro h; omega
        · intro ⟨_, h2, _⟩
          rw [cum_cons_succ] at h2
          have := cum_nonneg ws hws j
          linarith
    · simp only [hlt, if_false]
      have hn' : 0 ≤ n - w := by linarith [not_lt.mp hlt]
      cases i with
      | zero =>
        constructor
        · intro h; have := windexFrom_ge _ _ _ _ h; omega
        · intro ⟨_, _, h3⟩
          rw [cum_cons_succ, cum_zero] at h3
          exact absurd (by linarith) hlt
      | succ j =>
        have e : base + (j + 1) = (base + 1) + j := by omega
        rw [e, ih hws (n - w) hn' (base + 1) j, cum_cons_succ, cum_cons_succ]
        simp only [List.length_cons, Nat.add_lt_add_iff_right]
        constructor
        · intro ⟨a, b, c⟩; exact ⟨a, by linarith, by linarith⟩
        · intro ⟨a, b, c⟩; exact ⟨a, by linarith, by linarith⟩

theorem sumR_map_div (ws : List Rat) (c : Rat) : sumR (ws.map (fun w => w / c)) = sumR ws / c := by
  induction ws with
  | nil => simp [sumR]
  | cons w ws ih => simp only [List.map_cons, sumR, ih]; ring

theorem cum_map_div (ws : List Rat) (c : Rat) (i : Nat) : cum (ws.map (fun w => w / c)) i = cum ws i / c := by
  simp only [cum, ← List.map_take, sumR_map_div]

/-- **Weighted choice: frequency proportional to weight.**  For non-negative weights with positive sum
    `W`, index `i` is chosen exactly when the uniform draw `u` lies in
    `[(w_0 + … + w_(i-1)) / W, (w_0 + … + w_i) / W)` — an interval of length `w_i / W`. -/
theorem weighted_choice_interval (ws : List Rat) (hw : ∀ w ∈ ws, 0 ≤ w) (hW : 0 < sumR ws) (u : Rat) (h0 : 0 ≤ u) (i : Nat) :
    wnindex ws u = some i ↔ i < ws.length ∧ cum ws i / sumR ws ≤ u ∧ u < cum ws (i + 1) / sumR ws := by
  have hne : sumR ws ≠ 0 := ne_of_gt hW
  have hn : normalize ws = ws.map (fun w => w / sumR ws) := by simp [normalize, hne]
  have hpos : ∀ w ∈ ws.map (fun w => w / sumR ws), 0 ≤ w := by
    intro w hm
    simp only [List.mem_map] at hm
    obtain ⟨x, hx, rfl⟩ := hm
    exact div_nonneg (hw x hx) (le_of_lt hW)
  have := windexFrom_iff _ hpos u h0 0 i
  simp only [Nat.zero_add] at this
  rw [wnindex, hn, this, cum_map_div, cum_map_div, List.length_map]

/-- The interval of index `i` has length `w_i / W`. -/
theorem weighted_interval_width (ws : List Rat) (i : Nat) (hi : i < ws.length) :
    cum ws (i + 1) / sumR ws - cum ws i / sumR ws = ws[i] / sumR ws := by
  have : cum ws (i + 1) = cum ws i + ws[i] := by
    induction ws generalizing i with
    | nil => simp at hi
    | cons w ws ih =>
      cases i with
      | zero => simp [cum, sumR]
      | succ j =>
        have hj : j < ws.length := by simpa using hi
        rw [cum_cons_succ, cum_cons_succ, ih j hj]
        simp only [List.getElem_cons_succ]; ring
  rw [this]; ring

/-! ### More supports: PShuffleInput, PSwitchOne, PRandomImpulseSequence -/

/-- `PShuffleInput`: a block played is a permutation of the block taken from the input. -/
theorem shuffleInput_block_perm (vals : List Val) (st : St) :
    ((shuffleInputEmit vals st).2.buf.Perm vals ∨ (shuffleInputEmit vals st).2 = st) := by
  unfold shuffleInputEmit
  split
  · rename_i h0
    have : vals = [] := List.eq_nil_of_length_eq_zero h0
    subst this
    exact Or.inl (List.Perm.refl _)
  · split
    · rename_i vs s1 hp
      have := shuffle_is_permutation _ _ _ _ hp
      split
      · exact Or.inl this
      · exact Or.inr rfl
    · exact Or.inr rfl

/-- `PSwitchOne`: the captured values are only ever rearranged. -/
theorem switchOne_perm (st : St) : (switchCore st).2.buf.Perm st.buf := by
  unfold switchCore
  repeat' split
  all_goals first
    | exact swapAt_perm _ _ _
    | (rcases IsobarV.C04.drawB_cases (by assumption) with e | e <;> subst e <;> exact List.Perm.refl _)
    | exact List.Perm.refl _

/-- `PRandomImpulseSequence`: every generated impulse is 0 or 1. -/
theorem genBits_zero_one (n : Nat) (p : Rat) (st st' : St) (bs : List Val) (h : genBits n p st = some (bs, st')) :
    ∀ b ∈ bs, b = .int 0 ∨ b = .int 1 := by
  induction n generalizing st bs with
  | zero => simp only [genBits, Option.some.injEq, Prod.mk.injEq] at h; rw [← h.1]; simp
  | succ n ih =>
    simp only [genBits] at h
    split at h
    · split at h
      · simp only [Option.some.injEq, Prod.mk.injEq] at h
        obtain ⟨rfl, rfl⟩ := h
        intro b hb
        rcases List.mem_cons.mp hb with rfl | hb
        · split <;> simp
        · exact ih _ _ (by assumption) b hb
      · cases h
    · cases h

/-! ### Reproducibility and isolation -/

/-- **`reset()` / re-seeding rewinds the generator**: the cursor of the pattern's own tape is 0 again. -/
theorem reset_rewinds_cursor (c : Cls) (kids : List Pat) (st : St) : (reset (.node c kids st)).st.cur = 0 := by
  simp [reset_node, Pat.st, clsReset]

/-- **Outputs are a function of the arguments and the draws**: two objects of the same class with the
    same arguments (kids), the same registers and the same tape produce the same outcomes — nothing
    else (no global state, no other object) enters `next()`. -/
theorem same_seed_same_output (fuel n : Nat) (c : Cls) (kids kids' : List Pat) (st st' : St)
    (hk : kids = kids') (hs : st = st') : outs fuel n (.node c kids st) = outs fuel n (.node c kids' st') := by
  subst hk hs; rfl

/-- **Re-seeded / reset patterns reproduce the sequence of a new instance**: two instances built from
    the same expression with the same seeds (`p0`), advanced by different numbers of steps and then
    reset (= re-seeded with the stored seed), produce the same outcomes — those of `p0` itself. -/
theorem reseed_reproducible (fuel n k₁ k₂ : Nat) (p0 : Pat) (hp : AllCls IsobarV.C04.CoreOrChance p0) (h0 : IsInit p0) :
    outs fuel n (reset (after fuel k₁ p0)) = outs fuel n p0 ∧
    outs fuel n (reset (after fuel k₂ p0)) = outs fuel n (reset (after fuel k₁ p0)) := by
  rw [IsobarV.C04.reset_rewinds_chance fuel k₁ p0 hp h0, IsobarV.C04.reset_rewinds_chance fuel k₂ p0 hp h0]
  exact ⟨rfl, rfl⟩

/-- **Isolation**: taking a value from one sub-pattern leaves every other sub-pattern (its registers,
    its tape, its cursor) untouched — a draw made by one stochastic pattern cannot move another's generator. -/
theorem stepKid_isolated (rec : Rec) (kids : List Pat) (i j : Nat) (h : j ≠ i) : (stepKid rec kids i).2[j]? = kids[j]? := by
  unfold stepKid
  split
  · simp [List.getElem?_set_ne (Ne.symm h)]
  · rfl

/-- **A step never rewrites a tape**: draws are consumed by moving the cursor only, so the sequence a
    seed stands for is fixed once and for all (the own state of a stochastic object after one step of
    its class still carries the same tape). -/
theorem step_tape_const (c : Cls) (hc : IsobarV.C04.ChanceCls c) (P : Pat → Prop) (rec : Rec) (kids : List Pat) (st : St)
    (hrec : RecOK P rec) (hk : ∀ k ∈ kids, P k) : (clsStep c rec kids st).st.tape = st.tape := by
  have h := (IsobarV.C04.chance_ok c hc P rec kids st hrec hk).2.2
  have ht : ∀ s, (clsReset c s).tape = s.tape := by
    intro s
    unfold IsobarV.C04.ChanceCls at hc
    rcases hc with h | h | h | h | h | h | h | h | h | h | h | h | h | h <;> subst h <;> rfl
  rw [← ht, h, ht]

/-! ### Class level: constant arguments -/

/-- The semantics of sub-patterns treats constants as constants (true of `stepF` with any positive fuel). -/
def ConstRec (rec : Rec) : Prop := ∀ v, rec (Pat.const v) = { out := .val v, p := Pat.const v }

theorem constRec_stepF (fuel : Nat) : ConstRec (stepF (fuel + 1)) := by
  intro v; rfl

theorem pure3_const (core : List Val → St → Out × St) (rec : Rec) (h : ConstRec rec) (a b c : Val) (n : Nat) (st : St) :
    clsOuts (stepPure [0, 1, 2] core) rec n [Pat.const a, Pat.const b, Pat.const c] st = coreOuts core [a, b, c] n st := by
  induction n generalizing st with
  | zero => rfl
  | succ n ih =>
    have hr : resolve rec [0, 1, 2] [Pat.const a, Pat.const b, Pat.const c] =
        { vals := [a, b, c], bad := Option.none, kids := [Pat.const a, Pat.const b, Pat.const c] } := by
      simp [resolve, stepKid, h a, h b, h c]
    simp only [clsOuts, coreOuts, stepPure, hr]
    rw [ih]

/-- **A finite length yields exactly that many values** — class level: `PWhite(min, max, length = L)`
    with constant numeric arguments, `L > 0`, from its initial state, yields `L` values and then
    StopIteration on every later call. -/
theorem white_length_exact_cls (rec : Rec) (h : ConstRec rec) (mn mx : Atom) (na nb : Num)
    (hmn : mn.toNum = some na) (hmx : mx.toNum = some nb) (L : Nat) (hL : 0 < L) (m : Nat) (st : St) (h0 : st.n0 = 0)
    (htape : ∀ i < L, ∃ r, st.tape[st.cur + i]? = some (.u r)) :
    ∃ vs : List Val, vs.length = L ∧
      clsOuts stepWhite rec (L + m) [Pat.const (.a mn), Pat.const (.a mx), Pat.const (.int (L : Int))] st =
        vs.map Out.val ++ List.replicate m .stop := by
  obtain ⟨vs, h1, h2⟩ := white_length_exact mn mx na nb hmn hmx L hL m L st (by omega) (by omega) htape
  exact ⟨vs, h1, by rw [stepWhite, pure3_const _ rec h]; exact h2⟩

/-! ### Non-vacuity: concrete objects, tapes and outcomes (evaluated by the kernel) -/
section Examples

instance (d : Draw) : Decidable (ValidDraw d) := by
  cases d <;> (unfold ValidDraw; infer_instance)

instance (s : St) : Decidable (ValidTape s) := by unfold ValidTape; infer_instance

def exWhite : Pat :=
  .node .white [Pat.const (.int 0), Pat.const (.int 10), Pat.const (.int 3)] { tape := [.u (1/4), .u (1/2), .u (3/4)] }
example : ValidTape exWhite.st := by decide +kernel
example : outs 5 5 exWhite = [.val (.int 2), .val (.int 5), .val (.int 7), .stop, .stop] := by decide +kernel
example : outs 5 4 (reset (after 5 2 exWhite)) = outs 5 4 exWhite := by decide +kernel
example : whiteCore [.flt (1/2), .flt (3/2), .int 0] { tape := [.u (1/4)] } = (.val (.flt (3/4)), { n0 := 1, tape := [.u (1/4)], cur := 1 }) := by
  decide +kernel

/-- Brown: value 0, integer step 2, bounds [-1, 1]: the draw `_randbelow(5) = 4` means +2, clamped to 1. -/
example : brownCore [.int 2, .int (-1), .int 1] { v0 := .int 0, v1 := .int 0, tape := [.b 5 4] } =
    (.val (.int 0), { v0 := .int 1, v1 := .int 0, tape := [.b 5 4], cur := 1 }) := by decide +kernel

/-- Random walk over 5 values, 1..2 steps: `_randbelow(2) = 1` (two steps), `random() = 3/4` (forwards). -/
example : (walkCore [.tup [.int 0, .int 2, .int 4, .int 5, .int 12], .int 1, .int 2] { n1 := 1, tape := [.b 2 1, .u (3/4)] }).1 =
    .val (.int 4) := by decide +kernel

/-- Weighted choice, weights 1 : 3 — `u = 1/2` lies in [1/4, 1): index 1. -/
example : wnindex [1, 3] (1/2) = some 1 ∧ wnindex [1, 3] (1/8) = some 0 := by decide +kernel
example : (choiceCore [.tup [.int 7, .int 9], .tup [.int 1, .int 3]] { tape := [.u (1/2)] }).1 = .val (.int 9) := by decide +kernel
example : (choiceCore [.tup [.int 7, .int 9], Val.none] { tape := [.b 2 0] }).1 = .val (.int 7) := by decide +kernel

/-- Sample 2 of 3 without replacement: indices 2 then 0 of what is left. -/
example : (sampleCore [.tup [.int 1, .int 2, .int 3], .int 2, Val.none] { tape := [.b 3 2, .b 2 0] }).1 =
    .val (.tup [.int 3, .int 1]) := by decide +kernel
example : (sampleCore [.tup [.int 1, .int 2, .int 3], .int 2, .tup [.int 1, .int 1, .int 2]] { tape := [.u (3/4), .u (1/4)] }).1 =
    .val (.tup [.int 3, .int 1]) := by decide +kernel

def exShuffle : Pat :=
  .node .shuffle [Pat.const (.int 2)] { buf := [.int 1, .int 2, .int 3], buf2 := [.int 1, .int 2, .int 3], tape := [.b 3 0, .b 2 1] }
example : outs 5 8 exShuffle =
    [.val (.int 3), .val (.int 2), .val (.int 1), .val (.int 3), .val (.int 2), .val (.int 1), .stop, .stop] := by decide +kernel
example : pyShuffle [1, 2, 3] { tape := [.b 3 0, .b 2 1] } = some ([3, 2, 1], { tape := [.b 3 0, .b 2 1], cur := 2 }) := by
  decide +kernel

example : (skipCore [.int 5, .flt (1/2)] { tape := [.u (1/4)] }).1 = .val (.int 5) ∧
    (skipCore [.int 5, .flt (1/2)] { tape := [.u (3/4)] }).1 = .val Val.none := by decide +kernel
example : (coinCore [.flt (3/4), .bool false] { tape := [.u (1/2)] }).1 = .val (.int 1) := by decide +kernel
example : (flipFlopCore [.flt (1/2), .flt (1/2)] { v0 := .int 0, tape := [.u (1/4)] }).1 = .val (.int 1) := by decide +kernel

/-- A Markov chain 1 → {2, 3}, 2 → {3}, 3 a dead end: start at 1 (`_randbelow(3) = 0`), go to 3, stop for good. -/
def exMarkov : Pat :=
  .node .markov [] { buf := [.int 1, .int 2, .int 3], buf2 := [.int 1, .int 2, .int 1, .int 3, .int 2, .int 3],
                     tape := [.b 3 0, .b 2 1, .b 1 0] }
example : outs 5 3 exMarkov = [.val (.int 3), .stop, .stop] := by decide +kernel

/-- Nesting: a skip over a finite white noise over constants, reset after two steps. -/
def exNested : Pat :=
  .node .skip [exWhite, Pat.const (.flt (1/2))] { v0 := .flt 0, tape := [.u (1/8), .u (7/8), .u (1/8), .u (1/8)] }
example : IsInit exNested := by unfold IsInit; rfl
example : outs 5 5 exNested = [.val (.int 2), .val Val.none, .val (.int 7), .stop, .stop] := by decide +kernel
example : outs 5 5 (reset (after 5 2 exNested)) = outs 5 5 exNested := by decide +kernel
example : AllCls IsobarV.C04.CoreOrChance exNested := by
  refine AllCls.node (Or.inr (by simp [IsobarV.C04.ChanceCls])) ?_
  intro k hk
  simp only [List.mem_cons, List.not_mem_nil, or_false] at hk
  rcases hk with rfl | rfl
  · refine AllCls.node (Or.inr (by simp [IsobarV.C04.ChanceCls])) ?_
    intro k hk
    simp only [List.mem_cons, List.not_mem_nil, or_false] at hk
    rcases hk with rfl | rfl | rfl <;> exact AllCls.node (Or.inl (by simp [IsobarV.C04.CoreCls])) (by intro k hk; simp at hk)
  · exact AllCls.node (Or.inl (by simp [IsobarV.C04.CoreCls])) (by intro k hk; simp at hk)
end Examples

end IsobarV.C11
