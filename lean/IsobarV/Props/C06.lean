/-
C06 — track lifecycle: counts, completion, removal, stop-when-done, limits, names.
-/
import IsobarV.Sched.BalanceOps
import IsobarV.Sched.Fields
import IsobarV.Props.C02
import IsobarV.Sched.LenInv

namespace IsobarV.C06
open IsobarV.Sched

/-- **Event count.**  A pull never takes the count past a non-zero limit, every pulled event raises
    it by exactly one, and once the limit is reached every further pull is a StopIteration that
    consumes nothing (count `0` = unbounded). -/
theorem count_bounded (W : World) (t : Track) (h : t.maxCount ≠ 0 → t.count ≤ t.maxCount) :
    (t.maxCount ≠ 0 → (t.getNext W).t.count ≤ t.maxCount) ∧ (t.getNext W).t.maxCount = t.maxCount ∧
    (∀ d a k, (t.getNext W).r = .ev d a k → (t.getNext W).t.count = t.count + 1 ∧ (t.getNext W).t.pos = t.pos + 1) := by
  unfold Track.getNext
  split
  · exact ⟨h, rfl, by intro d a k hr; cases hr⟩
  · rename_i hc
    split
    · exact ⟨h, rfl, by intro d a k hr; cases hr⟩
    · exact ⟨h, rfl, by intro d a k hr; cases hr⟩
    · exact ⟨h, rfl, by intro d a k hr; cases hr⟩
    · refine ⟨fun hm => ?_, rfl, fun d a k _ => ⟨rfl, rfl⟩⟩
      have := h hm
      simp only []
      by_cases hle : t.maxCount ≤ t.count
      · exact absurd ⟨hm, hle⟩ hc
      · omega

theorem count_limit_stops (W : World) (t : Track) (hm : t.maxCount ≠ 0) (hc : t.maxCount ≤ t.count) :
    (t.getNext W).r = .stop ∧ (t.getNext W).t = t := by
  simp [Track.getNext, hm, hc]

/-- The pull loop as a whole respects the limit: a track performs at most `maxCount` events. -/
theorem pullLoop_count_bounded (W : World) (q fuel : Nat) (t : Track) (last : Pull)
    (h : t.maxCount ≠ 0 → t.count ≤ t.maxCount) :
    (Track.pullLoop W q fuel t last).t.maxCount = t.maxCount ∧
    (t.maxCount ≠ 0 → (Track.pullLoop W q fuel t last).t.count ≤ t.maxCount) := by
  induction fuel generalizing t last with
  | zero => exact ⟨rfl, h⟩
  | succ n ih =>
    obtain ⟨g1, g2, _⟩ := count_bounded W t h
    simp only [Track.pullLoop]
    split
    · split
      · rename_i d a k _
        have := ih { (t.getNext W).t with nxt := (t.getNext W).t.nxt + d } (.ev d a k) (by simpa [g2] using g1)
        simpa [g2] using this
      · exact ⟨g2, g1⟩
      · exact ⟨g2, g1⟩
      · exact ⟨g2, g1⟩
    · exact ⟨rfl, h⟩

/-- **Exhaustion is sticky and consumes nothing**: at the end of its stream a track's pull is a
    StopIteration that leaves the track as it was (so a drained track stays drained while it waits for
    its last notes to end). -/
theorem exhausted_stays (W : World) (t : Track) (h : W t.sid t.pos = none) :
    (t.getNext W).r = .stop ∧ (t.getNext W).t = t := by
  unfold Track.getNext; split <;> simp [h]

/-- **Completion**: the end-of-tick bookkeeping marks a track finished exactly when a StopIteration
    was caught while none of its notes is sounding … -/
theorem finished_iff (tl : TL) (tid : Nat) (t : Track) (stopped : Bool) (hf : tl.find tid = some t) :
    ∃ t', (endTick tl tid stopped).find tid = some t' ∧
      t'.finished = (t.finished || (stopped && t.offs.isEmpty)) ∧ t'.cur = t.cur + 1 ∧ t'.offs = t.offs := by
  have hid := findTrack_id hf
  let t2 : Track := { t with finished := (if stopped then t.finished || t.offs.isEmpty else t.finished), cur := t.cur + 1 }
  have h2 : tl.find t2.id = some t := by simpa [t2, hid] using hf
  have h3 : (tl.setTrack t2).find tid = some t2 := by
    have := find_setTrack h2; simpa [t2, hid] using this
  refine ⟨t2, ?_, ?_, rfl, rfl⟩
  · simpa [endTick, hf] using h3
  · cases stopped <;> simp [t2]

/-- … and **removal**: after its tick a track is dropped from the timeline iff it is finished and was
    scheduled with remove-when-done; otherwise the timeline is unchanged. -/
theorem removal_rule (tl : TL) (tid : Nat) :
    dropFinished tl tid =
      (match tl.find tid with
       | some t => if t.finished = true ∧ t.rwd = true then tl.removeTrack tid else tl
       | none => tl) := rfl

/-- **Stop-when-done**: a tick raises StopIteration iff, at its end, no track and no pending start
    is left and stop-when-done is set — never when it is off. -/
theorem stop_rule (r : TickRes) (hok : r.res = .ok) :
    ((endOfTick r).res = .stopIteration ↔
      (r.tl.tracks = [] ∧ r.tl.actions = [] ∧ r.tl.stopWhenDone = true)) ∧
    ((endOfTick r).res ≠ .stopIteration → (endOfTick r).tl.now = r.tl.now + 1) := by
  unfold endOfTick
  simp only [hok]
  split
  · rename_i hc; simp at hc; simp [hc]
  · rename_i hc; simp at hc; simp; intro h1 h2; exact hc h1 h2

theorem never_stops_when_off (W : World) (tl : TL) (hoff : (tickTL W tl).tl.stopWhenDone = false) :
    (tickTL W tl).res ≠ .stopIteration := by
  intro h
  have hns := C02.phaseTracks_never_stops W ((fireActions (phaseOffs tl)).tracks.map Track.id) (fireActions (phaseOffs tl))
  unfold tickTL at h hoff
  simp only [] at h hoff
  generalize phaseTracks W (fireActions (phaseOffs tl)) ((fireActions (phaseOffs tl)).tracks.map Track.id) = r at h hoff hns
  unfold endOfTick at h hoff
  split at h
  · split at h
    · rename_i hr hc
      simp only [hr, hc] at hoff
      simp [hc.2.2] at hoff
    · rename_i hr hc; simp [hr] at h
  · exact hns h

/-- **Track limit**: a `schedule` call for a new track at the limit raises, and changes nothing. -/
theorem schedule_refused_unchanged (tl : TL) (sid : Nat) (qz dl count : Option Nat) (rwd : Bool)
    (hmax : tl.maxTracks ≠ 0) (hfull : tl.maxTracks ≤ tl.tracks.length) :
    (applyOp tl (.schedule sid qz dl count rwd none true)).res = .limit ∧
    (applyOp tl (.schedule sid qz dl count rwd none true)).tl = tl ∧
    (applyOp tl (.schedule sid qz dl count rwd none true)).calls = [] := by
  simp [applyOp, hmax, hfull]

theorem length_setFirst (t : Track) (ts : List Track) : (setFirst t ts).length = ts.length := by
  induction ts with
  | nil => rfl
  | cons v vs ih => simp only [setFirst]; split <;> simp [ih]

theorem length_eraseFirst_le (tid : Nat) (ts : List Track) : (eraseFirst tid ts).length ≤ ts.length := by
  induction ts with
  | nil => simp [eraseFirst]
  | cons v vs ih => simp only [eraseFirst]; split <;> simp <;> omega

/-- **The number of tracks never exceeds `max_tracks`**: no API call other than changing the limit
    itself can take the track count past a non-zero limit … -/
theorem len_le_max_op (tl : TL) (op : Op) (hmax : tl.maxTracks ≠ 0) (hlen : tl.tracks.length ≤ tl.maxTracks)
    (hop : ∀ n, op ≠ .setMax n) :
    (applyOp tl op).tl.tracks.length ≤ (applyOp tl op).tl.maxTracks ∧ (applyOp tl op).tl.maxTracks = tl.maxTracks := by
  cases op with
  | schedule sid qz dl count rwd name replace =>
    simp only [applyOp]
    split
    · split <;> simp [TL.updateTrack, TL.setTrack, length_setFirst, hlen]
    · split
      · exact ⟨hlen, rfl⟩
      · rename_i hc
        simp only [List.length_append, List.length_singleton]
        refine ⟨?_, trivial⟩
        by_cases h : tl.maxTracks ≤ tl.tracks.length
        · exact absurd ⟨hmax, h⟩ hc
        · omega
  | scheduleAt idx sid qz dl count rwd =>
    simp only [applyOp]
    split
    · exact ⟨hlen, rfl⟩
    · rename_i hc
      simp only [List.length_append, List.length_cons, List.length_take, List.length_drop]
      refine ⟨?_, trivial⟩
      by_cases h : tl.maxTracks ≤ tl.tracks.length
      · exact absurd ⟨hmax, h⟩ hc
      · omega
  | update tid sid qz dl count =>
    simp only [applyOp]; split <;> simp [TL.updateTrack, TL.setTrack, length_setFirst, hlen]
  | unschedule tid =>
    simp only [applyOp]; split
    · have := length_eraseFirst_le tid tl.tracks; simp [TL.removeTrack]; omega
    · exact ⟨hlen, rfl⟩
  | clear => simp [applyOp]
  | mute tid => simp only [applyOp]; split <;> simp [TL.setTrack, length_setFirst, hlen]
  | unmute tid => simp only [applyOp]; split <;> simp [TL.setTrack, length_setFirst, hlen]
  | nudge tid x => simp only [applyOp]; split <;> simp [TL.setTrack, length_setFirst, hlen]
  | setMax n => exact absurd rfl (hop n)
  | setDefaults qz dl => exact ⟨hlen, rfl⟩
  | setStopWhenDone b => exact ⟨hlen, rfl⟩
  | setLatency l => exact ⟨hlen, rfl⟩

/-- **Scheduling under an existing name with replace updates that track instead of adding one.** -/
theorem named_replace_no_growth (tl : TL) (sid : Nat) (qz dl count : Option Nat) (rwd : Bool) (n : Nat) (t0 t : Track)
    (hname : tl.tracks.find? (fun t => t.name == some n) = some t0) (hfind : tl.find t0.id = some t) :
    (applyOp tl (.schedule sid qz dl count rwd (some n) true)).tl.tracks.length = tl.tracks.length ∧
    (applyOp tl (.schedule sid qz dl count rwd (some n) true)).res = .ok := by
  simp only [applyOp, hname, hfind, if_true]
  split <;> simp [TL.updateTrack, TL.setTrack, length_setFirst]

/-- **An unscheduled or cleared track emits no further events**: ticking an id that is no longer in
    the timeline does nothing at all. -/
theorem removed_emits_nothing (W : World) (tl : TL) (tid : Nat) (h : tl.find tid = none) :
    (tickTrack W tl tid).calls = [] ∧ (tickTrack W tl tid).tl = tl ∧ (tickTrack W tl tid).out = .ok := by
  simp [tickTrack, h]

theorem find_eraseFirst_self_of_unique (tid : Nat) (ts : List Track) (h : (ts.map Track.id).Nodup) :
    findTrack tid (eraseFirst tid ts) = none := by
  induction ts with
  | nil => rfl
  | cons v vs ih =>
    simp only [List.map_cons, List.nodup_cons] at h
    simp only [eraseFirst]
    split
    · rename_i heq
      have : ∀ u ∈ vs, u.id ≠ tid := by
        intro u hu hid; apply h.1; rw [heq]; exact List.mem_map.mpr ⟨u, hu, hid⟩
      clear ih h
      induction vs with
      | nil => rfl
      | cons w ws ih2 =>
        simp only [findTrack]
        have hw := this w (by simp)
        simp [hw]
        exact ih2 (fun u hu => this u (by simp [hu]))
    · rename_i hne
      simp [findTrack, hne, ih h.2]

/-- After `unschedule` (track ids being unique) the track is gone, so by `removed_emits_nothing` it is
    never ticked again; after `clear` no track is left. -/
theorem unscheduled_is_gone (tl : TL) (tid : Nat) (hu : (tl.tracks.map Track.id).Nodup) :
    (applyOp tl (.unschedule tid)).tl.find tid = none := by
  simp only [applyOp]
  split
  · simpa [TL.find, TL.removeTrack] using find_eraseFirst_self_of_unique tid tl.tracks hu
  · rename_i h; simpa using h

theorem clear_removes_all (tl : TL) : (applyOp tl .clear).tl.tracks = [] := by simp [applyOp]

/-- **A muted track emits no onsets** (its events are consumed silently). -/
theorem muted_emits_nothing (tl : TL) (t : Track) (d : Nat) (a : Bool) (k : EvKind) (h : t.muted = true) :
    (performEvent tl t d a k).calls = [] := by
  simp [performEvent, h]

/-- **… and over whole histories**: starting within a non-zero limit `m`, after ANY history of API
    calls and ticks that does not change the limit itself (neither directly nor from a callback) —
    including callbacks that schedule tracks, faults, removals — the number of tracks is ≤ `m`. -/
theorem len_le_max (W : World) (hW : NoSetMaxW W) (m : Nat) (hm : m ≠ 0) (hist : List Step) (tl : TL)
    (h0 : LenInv m tl) (hhist : ∀ s ∈ hist, ∀ o, s = .op o → o.isSetMax = false) :
    (run W tl hist).1.tracks.length ≤ m ∧ (run W tl hist).1.maxTracks = m := by
  suffices h : LenInv m (run W tl hist).1 from ⟨h.2, h.1⟩
  induction hist generalizing tl with
  | nil => exact h0
  | cons s ss ih =>
    simp only [run]
    apply ih
    · cases s with
      | op o => exact applyOp_len hm tl o h0 (hhist (.op o) (by simp) o rfl)
      | tick => exact tickTL_len hm W hW tl h0
    · exact fun s hs => hhist s (by simp [hs])

end IsobarV.C06
