/-
C15 — interpolated control tracks emit the exact curve, one value per tick.

The statements are about `IsobarV.Interp.trace f pts count n`: the outcomes (one per tick: a control
message, "finished", or an exception) of the first `n` ticks of a track that
`Timeline.schedule(stream, interpolate=mode, count=count)` starts, where `pts` is the list of events the
stream delivers (`Pt`: event kind, duration in whole ticks, value, control field, channel field), entry
`k` being tick `n₀ + k` (`n₀` = the tick the track starts in, C05).  `trace` runs the state machine of
`IsobarV/Interp/Model.lean`, which mirrors `Track.tick` (interpolating branch) and `PInterpolate`.

They hold for EVERY list of points (any length, rising / falling / flat, any rationals), EVERY segment
length in whole ticks including 0, EVERY `count`, EVERY run length `n` and EVERY easing `f : Rat → Rat`
(`"linear"` is `f = id`, `"cosine"` is `f x = (1 - cos πx)/2`); the clauses that need a property of the
easing name it as a hypothesis (`f 1 = 1`; `0 ≤ f x ≤ 1` on `[0, 1]`).  `P = eff count pts` is the list
of events the track gets to see (`count` truncates the stream); `off P i` is the number of ticks before
point `i` (the sum of the earlier durations); `pt P i` is point `i`.

`WF P` = the domain of the property: every event is a control event and no numeric control/channel
field is followed by a non-numeric one.  `Playable P` = some point with a successor has a non-zero
duration (otherwise the track finishes in its first tick without sending anything).
-/
import IsobarV.Interp.Lemmas

namespace IsobarV.C15
open IsobarV.Interp

/-- what the property assumes of an easing: it starts at 0, ends at 1 and stays in `[0, 1]` -/
structure Easing (f : Rat → Rat) : Prop where
  zero : f 0 = 0
  one : f 1 = 1
  unit : ∀ x, 0 ≤ x → x ≤ 1 → 0 ≤ f x ∧ f x ≤ 1

/-- `"linear"` is an easing (proved; the cosine ease is assumed of libm) -/
theorem linear_is_easing : Easing linear :=
  ⟨rfl, rfl, fun _ h0 h1 => ⟨h0, h1⟩⟩

/-- the `"none"` mode of `PInterpolate` (hold, then jump) is an easing too -/
theorem hold_is_easing : Easing hold := by
  refine ⟨by simp [hold], by simp [hold], fun _ _ _ => ?_⟩
  unfold hold
  split <;> simp

/-- **Model = reference.**  For every list of events, `count`, easing and run length the state machine
    produces exactly (a prefix of) the reference trace `ref`: the first played point, then for every
    adjacent pair `a, b` with `a.dur ≠ 0` the `a.dur` messages of the closed form — or `rejected` if one of
    the two is not a control event —, then `finished`. -/
theorem model_eq_reference (f : Rat → Rat) (pts : List Pt) (count n : Nat) :
    trace f pts count n = (ref f (eff count pts)).take n :=
  trace_eq_ref f pts count n

/-- **`count`.**  A track scheduled with `count = c ≠ 0` behaves exactly like a track over the first `c`
    events of its stream (0 / `None` = no limit). -/
theorem count_truncates (f : Rat → Rat) (pts : List Pt) (count n : Nat) :
    trace f pts count n = trace f (eff count pts) 0 n := by
  rw [trace_eq_ref, trace_eq_ref]
  simp [eff]

/-- **One message per tick, from the first control point to the last.**  With `T` the sum of the segment
    lengths: every tick `n₀ … n₀ + T` carries exactly one control message (the trace has one entry per
    tick), tick `n₀ + T + 1` finishes the track without a message, and nothing follows. -/
theorem one_message_per_tick (f : Rat → Rat) (pts : List Pt) (count n : Nat) {P : List Pt}
    (hP : P = eff count pts) (hwf : WF P) (hpl : Playable P) :
    (∀ k, k ≤ off P (P.length - 1) → k < n → ∃ m, (trace f pts count n)[k]? = some (.msg m)) ∧
    (off P (P.length - 1) + 1 < n → (trace f pts count n)[off P (P.length - 1) + 1]? = some .finished) ∧
    (trace f pts count n).length ≤ off P (P.length - 1) + 2 := by
  have href := ref_wf f hwf hpl
  have hlen := allMsgs_length f P
  rw [hP] at href hlen
  subst hP
  refine ⟨?_, ?_, ?_⟩
  · intro k hk hn
    cases k with
    | zero => exact ⟨_, trace_get (by rw [href]; rfl) hn⟩
    | succ k =>
      have hk' : k < (allMsgs f (eff count pts)).length := by omega
      obtain ⟨m, hm⟩ := allMsgs_all_msg f _ _ (List.getElem_mem hk')
      refine ⟨m, trace_get ?_ hn⟩
      rw [href, List.getElem?_cons_succ, List.getElem?_append_left hk', List.getElem?_eq_getElem hk', hm]
  · intro hn
    refine trace_get ?_ hn
    rw [href, List.getElem?_cons_succ, List.getElem?_append_right (by omega), hlen]
    simp
  · rw [trace_eq_ref, href]
    simp only [List.length_take, List.length_cons, List.length_append, hlen, List.length_nil]
    omega

/-- **The curve.**  `j` ticks into segment `i` (`1 ≤ j ≤ D_i`), i.e. on tick `n₀ + Σ_{l<i} D_l + j`, the
    message is the closed form of that segment; its value is `v_i + (v_{i+1} - v_i) · f(j / D_i)`. -/
theorem curve_closed_form (f : Rat → Rat) (pts : List Pt) (count n : Nat) {P : List Pt}
    (hP : P = eff count pts) (hwf : WF P) (i j : Nat) (hi : i + 1 < P.length) (h1 : 1 ≤ j)
    (h2 : j ≤ (pt P i).dur) (hn : off P i + j < n) :
    (trace f pts count n)[off P i + j]? = some (.msg (msgAt f (pt P i) (pt P (i + 1)) j)) ∧
    (msgAt f (pt P i) (pt P (i + 1)) j).value =
      (pt P i).value + ((pt P (i + 1)).value - (pt P i).value) * f ((j : Rat) / ((pt P i).dur : Rat)) := by
  refine ⟨?_, rfl⟩
  have hpl : Playable P := ⟨i, hi, by omega⟩
  have href := ref_wf f hwf hpl
  have hget := allMsgs_get f P i j hi h1 h2
  subst hP
  refine trace_get ?_ hn
  have hidx : off (eff count pts) i + j = (off (eff count pts) i + j - 1) + 1 := by omega
  rw [href, hidx, List.getElem?_cons_succ]
  have hlt : off (eff count pts) i + j - 1 < (allMsgs f (eff count pts)).length := by
    by_contra hc
    rw [List.getElem?_eq_none (by omega)] at hget
    cases hget
  rw [List.getElem?_append_left hlt]
  exact hget

/-- **The first tick.**  Tick `n₀` carries the first point that is played — the first one with a non-zero
    duration, `firstIdx P`; point 0 itself when its duration is not zero — exactly as it is (value,
    control and channel untouched). -/
theorem first_point_exact (f : Rat → Rat) (pts : List Pt) (count n : Nat) {P : List Pt}
    (hP : P = eff count pts) (hwf : WF P) (hpl : Playable P) (hn : 0 < n) :
    (trace f pts count n)[0]? = some (.msg (firstMsg (pt P (firstIdx P)))) ∧
    (firstMsg (pt P (firstIdx P))).value = (pt P (firstIdx P)).value ∧
    (∀ k, k < firstIdx P → (pt P k).dur = 0) ∧ (pt P (firstIdx P)).dur ≠ 0 ∧
    ((pt P 0).dur ≠ 0 → firstIdx P = 0) := by
  have href := ref_wf f hwf hpl
  obtain ⟨hlt, _⟩ := dropZero_of_playable hpl
  subst hP
  refine ⟨trace_get (by rw [href]; rfl) hn, rfl, firstIdx_zero_dur _, firstIdx_dur _ (by omega), ?_⟩
  intro h0
  have := firstIdx_le (eff count pts) 0 (by omega) h0
  omega

/-- **Control points are hit exactly, on their own tick.**  If `f 1 = 1`, the end point of every segment
    of non-zero length is sent with exactly its value on tick `n₀ + Σ_{l≤i} D_l`. -/
theorem control_points_exact (f : Rat → Rat) (hf1 : f 1 = 1) (pts : List Pt) (count n : Nat) {P : List Pt}
    (hP : P = eff count pts) (hwf : WF P) (i : Nat) (hi : i + 1 < P.length) (hd : (pt P i).dur ≠ 0)
    (hn : off P (i + 1) < n) :
    ∃ m, (trace f pts count n)[off P (i + 1)]? = some (.msg m) ∧ m.value = (pt P (i + 1)).value ∧
      off P (i + 1) = off P i + (pt P i).dur := by
  have hoff := off_succ_eq P i (by omega)
  rw [hoff] at hn ⊢
  obtain ⟨h, _⟩ := curve_closed_form f pts count n hP hwf i (pt P i).dur hi (by omega) (le_refl _) hn
  refine ⟨_, h, ?_, rfl⟩
  simp only [msgAt, ratio_self hd, hf1]
  ring

/-- **Values stay inside the segment's hull.**  If `0 ≤ f x ≤ 1` on `[0, 1]`, every message the track
    ever sends — whatever the list of events — carries a value between the two end points of one of its
    segments (between two consecutive control points). -/
theorem within_segment_hull (f : Rat → Rat) (hf : ∀ x, 0 ≤ x → x ≤ 1 → 0 ≤ f x ∧ f x ≤ 1) (pts : List Pt)
    (count n : Nat) {P : List Pt} (hP : P = eff count pts) (k : Nat) (m : Msg)
    (h : (trace f pts count n)[k]? = some (.msg m)) :
    ∃ i, i + 1 < P.length ∧ min (pt P i).value (pt P (i + 1)).value ≤ m.value ∧
      m.value ≤ max (pt P i).value (pt P (i + 1)).value := by
  subst hP
  have hmem : Outcome.msg m ∈ ref f (eff count pts) := by
    rw [trace_eq_ref] at h
    exact List.mem_of_mem_take (List.mem_of_getElem? h)
  obtain ⟨i, hi, _, hd, hm⟩ := ref_msgs f _ m hmem
  refine ⟨i, hi, ?_⟩
  rcases hm with hm | ⟨j, hj1, hj2, _, hm⟩
  · subst hm
    simp only [firstMsg]
    exact ⟨min_le_left _ _, le_max_left _ _⟩
  · subst hm
    obtain ⟨r0, r1⟩ := ratio_mem hj2 hd
    obtain ⟨f0, f1⟩ := hf _ r0 r1
    exact hull _ _ _ f0 f1

/-- the same, tick by tick: the message `j` ticks into segment `i` lies between `v_i` and `v_{i+1}` -/
theorem within_segment_hull_at (f : Rat → Rat) (hf : ∀ x, 0 ≤ x → x ≤ 1 → 0 ≤ f x ∧ f x ≤ 1) (pts : List Pt)
    (count n : Nat) {P : List Pt} (hP : P = eff count pts) (hwf : WF P) (i j : Nat) (hi : i + 1 < P.length)
    (h1 : 1 ≤ j) (h2 : j ≤ (pt P i).dur) (hn : off P i + j < n) :
    ∃ m, (trace f pts count n)[off P i + j]? = some (.msg m) ∧
      min (pt P i).value (pt P (i + 1)).value ≤ m.value ∧ m.value ≤ max (pt P i).value (pt P (i + 1)).value := by
  obtain ⟨h, _⟩ := curve_closed_form f pts count n hP hwf i j hi h1 h2 hn
  refine ⟨_, h, ?_⟩
  obtain ⟨r0, r1⟩ := ratio_mem h2 (by omega)
  obtain ⟨f0, f1⟩ := hf _ r0 r1
  exact hull _ _ _ f0 f1

/-- **A zero-duration point is an instantaneous jump.**  Let point `i+1` have duration 0 between two
    segments of non-zero length.  It costs no tick (`off P (i+2) = off P (i+1)`); on its tick `T` the value
    is `v_{i+1}` (the end of segment `i`), and on tick `T + 1` the value is already one step into the
    curve that starts at `v_{i+2}`: nothing is interpolated between `v_{i+1}` and `v_{i+2}`. -/
theorem zero_duration_jump (f : Rat → Rat) (hf1 : f 1 = 1) (pts : List Pt) (count n : Nat) {P : List Pt}
    (hP : P = eff count pts) (hwf : WF P) (i : Nat) (hi : i + 3 < P.length) (hd0 : (pt P i).dur ≠ 0)
    (hz : (pt P (i + 1)).dur = 0) (hd2 : (pt P (i + 2)).dur ≠ 0) (hn : off P (i + 1) + 1 < n) :
    off P (i + 2) = off P (i + 1) ∧
    (∃ m, (trace f pts count n)[off P (i + 1)]? = some (.msg m) ∧ m.value = (pt P (i + 1)).value) ∧
    (trace f pts count n)[off P (i + 1) + 1]? = some (.msg (msgAt f (pt P (i + 2)) (pt P (i + 3)) 1)) ∧
    (msgAt f (pt P (i + 2)) (pt P (i + 3)) 1).value =
      (pt P (i + 2)).value + ((pt P (i + 3)).value - (pt P (i + 2)).value) * f ((1 : Nat) / ((pt P (i + 2)).dur : Rat)) := by
  have hoff : off P (i + 2) = off P (i + 1) := by
    have := off_succ_eq P (i + 1) (by omega)
    rw [hz] at this
    simpa using this
  obtain ⟨m, hm, hv, _⟩ := control_points_exact f hf1 pts count n hP hwf i (by omega) hd0 (by omega)
  obtain ⟨h, _⟩ := curve_closed_form f pts count n hP hwf (i + 2) 1 (by omega) (le_refl _) (by omega)
    (by rw [hoff]; exact hn)
  rw [hoff] at h
  exact ⟨hoff, ⟨m, hm, hv⟩, h, rfl⟩

/-- a leading point of zero duration is dropped: the track behaves as if it were not there -/
theorem zero_duration_first_dropped (f : Rat → Rat) (z : Pt) (rest : List Pt) (n : Nat) (hz : z.dur = 0) :
    trace f (z :: rest) 0 n = trace f rest 0 n := by
  rw [trace_eq_ref, trace_eq_ref]
  simp [eff, ref, dropZero, hz]

/-- **Non-numeric fields pass through.**  A control / channel field that is not a number is sent on every
    tick of the segment exactly as the segment's first point has it. -/
theorem non_numeric_passthrough (f : Rat → Rat) (pts : List Pt) (count n : Nat) {P : List Pt}
    (hP : P = eff count pts) (hwf : WF P) (i j : Nat) (hi : i + 1 < P.length) (h1 : 1 ≤ j)
    (h2 : j ≤ (pt P i).dur) (hn : off P i + j < n) :
    ∃ m, (trace f pts count n)[off P i + j]? = some (.msg m) ∧
      (∀ s, (pt P i).control = .opq s → m.control = .opq s) ∧
      (∀ s, (pt P i).channel = .opq s → m.channel = .opq s) := by
  obtain ⟨h, _⟩ := curve_closed_form f pts count n hP hwf i j hi h1 h2 hn
  refine ⟨_, h, ?_, ?_⟩ <;> intro s hs <;> simp [msgAt, hs, fldAt]

/-- a numeric control number / channel that is the same at both ends of a segment is sent unchanged on
    every tick of it (the usual case: one control number and one channel for the whole track) -/
theorem constant_numeric_passthrough (f : Rat → Rat) (pts : List Pt) (count n : Nat) {P : List Pt}
    (hP : P = eff count pts) (hwf : WF P) (i j : Nat) (hi : i + 1 < P.length) (h1 : 1 ≤ j)
    (h2 : j ≤ (pt P i).dur) (hn : off P i + j < n) :
    ∃ m, (trace f pts count n)[off P i + j]? = some (.msg m) ∧
      (∀ c, (pt P i).control = .num c → (pt P (i + 1)).control = .num c → m.control = .num c) ∧
      (∀ c, (pt P i).channel = .num c → (pt P (i + 1)).channel = .num c → m.channel = .num c) := by
  obtain ⟨h, _⟩ := curve_closed_form f pts count n hP hwf i j hi h1 h2 hn
  refine ⟨_, h, ?_, ?_⟩ <;> intro c hc hc' <;> simp [msgAt, hc, hc', fldAt]

/-- **Anything but control events is rejected** (first tick).  If one of the first two events that would
    be interpolated is not a control event, the first tick raises and nothing is ever sent. -/
theorem non_control_rejected (f : Rat → Rat) (pts : List Pt) (count n : Nat) {P : List Pt}
    (hP : P = eff count pts) (hpl : Playable P)
    (hk : (pt P (firstIdx P)).kind ≠ .control ∨ (pt P (firstIdx P + 1)).kind ≠ .control) :
    trace f pts count n = [Outcome.rejected].take n := by
  obtain ⟨_, hdz⟩ := dropZero_of_playable hpl
  subst hP
  rw [trace_eq_ref, ref_of_cons f hdz]
  have : kindsOK (pt (eff count pts) (firstIdx (eff count pts))) (pt (eff count pts) (firstIdx (eff count pts) + 1)) = false := by
    unfold kindsOK
    rcases hk with hk | hk
    · cases h : (pt (eff count pts) (firstIdx (eff count pts))).kind <;> simp_all
    · cases h : (pt (eff count pts) (firstIdx (eff count pts) + 1)).kind <;> simp_all
  simp [this]

/-- **… and later in the stream.**  If the events up to `a` are in the domain (and a segment was played)
    and the event `b` after `a` is not a control event, the track plays everything up to its arrival at
    `a` and raises on the very next tick: no message is ever computed from `b`. -/
theorem non_control_rejected_later (f : Rat → Rat) (pts : List Pt) (count n : Nat) {P pre rest : List Pt}
    {a b : Pt} (hP : P = eff count pts) (hsplit : P = pre ++ a :: b :: rest) (hwf : WF (pre ++ [a]))
    (hplay : ∃ i, i < pre.length ∧ (pt P i).dur ≠ 0) (hd : a.dur ≠ 0) (hb : b.kind ≠ .control) :
    trace f pts count n =
      (.msg (firstMsg (pt P (firstIdx P))) :: (allMsgs f (pre ++ [a]) ++ [.rejected])).take n ∧
    (allMsgs f (pre ++ [a])).length = off P pre.length := by
  have href := ref_split f hsplit hwf hplay
  have hk : kindsOK a b = false := by
    unfold kindsOK
    cases h : b.kind <;> simp_all
  have : refFrom f (a :: b :: rest) = [.rejected] := by simp [refFrom, hd, hk]
  rw [this] at href
  constructor
  · rw [trace_eq_ref, ← hP, href]
  · rw [allMsgs_length, hsplit]
    simp [off]

/-- **No message without two control events around it** (any list of events, no hypothesis): every
    message the track sends is the first played point or the closed form of a segment whose two ends are
    control events. -/
theorem messages_only_between_control_events (f : Rat → Rat) (pts : List Pt) (count n : Nat) {P : List Pt}
    (hP : P = eff count pts) (k : Nat) (m : Msg) (h : (trace f pts count n)[k]? = some (.msg m)) :
    ∃ i, i + 1 < P.length ∧ (pt P i).kind = .control ∧ (pt P (i + 1)).kind = .control ∧ (pt P i).dur ≠ 0 ∧
      (m = firstMsg (pt P i) ∨ ∃ j, 1 ≤ j ∧ j ≤ (pt P i).dur ∧ m = msgAt f (pt P i) (pt P (i + 1)) j) := by
  subst hP
  have hmem : Outcome.msg m ∈ ref f (eff count pts) := by
    rw [trace_eq_ref] at h
    exact List.mem_of_mem_take (List.mem_of_getElem? h)
  obtain ⟨i, hi, hk, hd, hm⟩ := ref_msgs f _ m hmem
  have hk' := kindsOK_true hk
  refine ⟨i, hi, ?_, ?_, hd, ?_⟩
  · by_contra hc; exact hk' (Or.inl hc)
  · by_contra hc; exact hk' (Or.inr hc)
  · rcases hm with hm | ⟨j, h1, h2, _, hm⟩
    · exact Or.inl hm
    · exact Or.inr ⟨j, h1, h2, hm⟩

/-- **`PInterpolate` on its own.**  Over the values `v₀, v₁, …` with a constant number of steps `D ≠ 0`
    (and `f 1 = 1`) the pattern yields `v₀`, then for each next value its step table
    `v_i + (v_{i+1} - v_i) · f((k+1)/D)`, `k < D`, and stops; with `D = 0` it yields `v₀` and stops. -/
theorem pinterpolate_closed_form (f : Rat → Rat) (hf1 : f 1 = 1) (v0 : Rat) (vs : List Rat) (D n : Nat) :
    (D ≠ 0 → PI.take f n (PI.start v0 vs D) = (v0 :: curve f D v0 vs).take n) ∧
    (D = 0 → PI.take f n (PI.start v0 vs D) = [v0].take n) := by
  constructor
  · intro hD
    have := pi_take_general f hf1 hD n (PI.start v0 vs D) v0 rfl (by simp [PI.start]) (by simp [PI.start])
      (by simp [PI.start])
    simpa [PI.start] using this
  · intro hD
    subst hD
    cases n with
    | zero => simp [PI.take]
    | succ n =>
      cases n with
      | zero => simp [PI.take, PI.start, PI.next]
      | succ n => simp [PI.take, PI.start, PI.next]

/-! ## Non-vacuity: concrete instances, evaluated by the kernel -/
section Examples

def cc (s : String) (d : Nat) (v : Rat) : Pt := { kind := .control, dur := d, value := v, control := .opq s, channel := .num 3 }

/-- 0 → 8 in 4 ticks, a jump (zero duration) to 100, 100 → 104 in 2 ticks -/
def exPts : List Pt := [cc "cutoff" 4 0, cc "cutoff" 0 8, cc "cutoff" 2 100, cc "cutoff" 1 104]

def vals (os : List Outcome) : List (Option Rat) := os.map fun o => match o with | .msg m => some m.value | _ => none

theorem exWF : WF exPts := by
  constructor
  · decide
  · intro i hi
    have h3 : i < 3 := by simp [exPts] at hi; omega
    rcases i with _ | _ | _ | i
    · decide
    · decide
    · decide
    · omega
theorem exPlayable : Playable exPts := ⟨0, by decide, by decide⟩
-- the hypotheses of the theorems are jointly satisfiable: instances on `exPts`
example := one_message_per_tick linear exPts 0 20 rfl exWF exPlayable
example := curve_closed_form linear exPts 0 20 rfl exWF 2 1 (by decide) (by decide) (by decide) (by decide)
example := first_point_exact linear exPts 0 20 rfl exWF exPlayable (by decide)
example := control_points_exact linear rfl exPts 0 20 rfl exWF 0 (by decide) (by decide) (by decide)
example := within_segment_hull_at linear linear_is_easing.unit exPts 0 20 rfl exWF 0 3 (by decide) (by decide)
  (by decide) (by decide)
example := zero_duration_jump linear rfl exPts 0 20 rfl exWF 0 (by decide) (by decide) (by decide) (by decide)
  (by decide)
example := non_numeric_passthrough linear exPts 0 20 rfl exWF 0 2 (by decide) (by decide) (by decide) (by decide)
example := constant_numeric_passthrough linear exPts 0 20 rfl exWF 0 2 (by decide) (by decide) (by decide) (by decide)
-- one message per tick on ticks 0..6, then `finished`; the jump point costs no tick and 100 itself is never sent
example : vals (trace linear exPts 0 20) = [some 0, some 2, some 4, some 6, some 8, some 102, some 104, none] := by
  decide +kernel
example : (trace linear exPts 0 20).getLast? = some .finished := by decide +kernel
example : off exPts 1 = 4 ∧ off exPts 2 = 4 ∧ off exPts 3 = 6 := by decide
-- count = 2 cuts the stream after the second event
example : vals (trace linear exPts 2 20) = [some 0, some 2, some 4, some 6, some 8, none] := by decide +kernel
-- the string-valued control name and the constant channel pass through
example : (trace linear exPts 0 2)[1]? = some (.msg { control := .opq "cutoff", value := 2, channel := .num 3 }) := by
  decide +kernel
-- a note event in the stream: rejected on the first tick / on the tick after the arrival at its predecessor
def note : Pt := { kind := .other, dur := 4, value := 0, control := .opq "-", channel := .opq "-" }
example : trace linear [note, cc "x" 1 1] 0 5 = [.rejected] := by decide +kernel
example : vals (trace linear [cc "x" 2 0, cc "x" 2 4, note, cc "x" 1 1] 0 9) = [some 0, some 2, some 4, none] ∧
    (trace linear [cc "x" 2 0, cc "x" 2 4, note, cc "x" 1 1] 0 9).getLast? = some .rejected := by decide +kernel
example := non_control_rejected linear [note, cc "x" 1 1] 0 5 rfl ⟨0, by decide, by decide⟩ (Or.inl (by decide))
theorem exWF2 : WF ([cc "x" 2 0] ++ [cc "x" 2 4]) := by
  constructor
  · decide
  · intro i hi
    have h1 : i < 1 := by simp at hi; omega
    rcases i with _ | i
    · decide
    · omega
example := non_control_rejected_later linear [cc "x" 2 0, cc "x" 2 4, note, cc "x" 1 1] 0 9 (pre := [cc "x" 2 0])
  (a := cc "x" 2 4) (b := note) (rest := [cc "x" 1 1]) rfl rfl exWF2 ⟨0, by decide, by decide⟩ (by decide) (by decide)
-- the hold easing: the value jumps on the last tick of the segment
example : vals (trace hold [cc "x" 3 0, cc "x" 1 6] 0 9) = [some 0, some 0, some 0, some 6, none] := by decide +kernel
-- PInterpolate over three values with 2 steps
example : PI.take linear 10 (PI.start 0 [4, 2] 2) = [0, 2, 4, 3, 2] := by decide +kernel
example : curve linear 2 0 [4, 2] = [2, 4, 3, 2] := by decide +kernel

end Examples

end IsobarV.C15
