/-
C12 — pattern-valued parameters are resolved afresh at every step: consumption lemmas for the classes of
`IsobarV/Pat/Cls/Seq2.lean`.  Registry pairs: PInterpolate.steps (once per block), PEuclidean.length and
PEuclidean.mod (once per step, `length` first), PCollapse.input (resolved through `Pattern.value`: one value per
step unless it is a rest, which is skipped), and the two inputs of PReset (once per step, trigger first).
All statements hold for an ARBITRARY semantics `rec` of the sub-patterns, hence at every nesting depth.
-/
import IsobarV.Pat.Lemmas

namespace IsobarV.C12
open IsobarV.Pat

/-! ### PEuclidean -/

theorem euclidEmit_kids (kids : List Pat) (st : St) (seq : List Bool) : (euclidEmit kids st seq).kids = kids := by
  simp only [euclidEmit]; repeat' split
  all_goals rfl

/-- **`PEuclidean.length` and `PEuclidean.mod` are resolved exactly once per step** (`length` first): after a step
    in which both yielded a value — whatever the step then returns — each is exactly one `rec`-step further.  If
    `length` ends, `mod` is not consumed. -/
theorem euclidean_params_once (rec : Rec) (km kl : Pat) (st : St) :
    (∀ lv mv, (rec kl).out = .val lv → (rec km).out = .val mv →
      (stepEuclidean rec [km, kl] st).kids = [(rec km).p, (rec kl).p]) ∧
    ((∀ v, (rec kl).out ≠ .val v) →
      (stepEuclidean rec [km, kl] st).out = (rec kl).out ∧ (stepEuclidean rec [km, kl] st).kids = [km, (rec kl).p]) := by
  constructor
  · intro lv mv hl hm
    simp only [stepEuclidean, stepKid, List.getElem?_cons_succ, List.getElem?_cons_zero, List.set_cons_succ,
      List.set_cons_zero, hl, hm]
    split
    · rw [euclidEmit_kids]
    · rfl
  · intro ho
    cases h : (rec kl).out with
    | val v => exact absurd h (ho v)
    | stop => simp [stepEuclidean, stepKid, h]
    | err e => simp [stepEuclidean, stepKid, h]

/-- The value returned by a step is the element at `pos` of the rhythm computed from THIS step's `length` and `mod`
    (re-targeting or varying either parameter takes effect at the very next step). -/
theorem euclidean_uses_current_params (rec : Rec) (km kl : Pat) (st : St) (lv mv : Val) (seq : List Bool)
    (hl : (rec kl).out = .val lv) (hm : (rec km).out = .val mv) (hs : euclidSeq lv mv = some seq) :
    stepEuclidean rec [km, kl] st = euclidEmit [(rec km).p, (rec kl).p] st seq := by
  simp only [stepEuclidean, stepKid, List.getElem?_cons_succ, List.getElem?_cons_zero, List.set_cons_succ,
    List.set_cons_zero, hl, hm, hs]

/-! ### PInterpolate -/

theorem interpEmit_kids (kids : List Pat) (st : St) (cur : Val) (sv : List Val) : (interpEmit kids st cur sv).kids = kids := by
  simp only [interpEmit]; split <;> rfl

theorem interpSkip_nonzero (rec : Rec) (f : Nat) (kp ks : Pat) (cur s : Val) (k : Int)
    (hs : (rec ks).out = .val s) (hk : pyInt s = .val (.a (.int k))) (hk0 : k ≠ 0) :
    interpSkip rec (f + 1) [kp, ks] cur = (.val (.int k), [kp, (rec ks).p], cur) := by
  simp only [interpSkip, stepKid, List.getElem?_cons_succ, List.getElem?_cons_zero, List.set_cons_succ,
    List.set_cons_zero, hs, hk]
  split
  · rename_i h; simp at h; exact absurd h hk0
  · rfl

/-- **`PInterpolate.steps` is resolved once per block**: at a block boundary (`pos == len(step_values)`), when
    `steps` yields a non-zero count and the input yields the next target, the step reads `steps` once and the
    input once, whatever the interpolation mode then computes. -/
theorem interpolate_steps_once_per_block (rec : Rec) (kp ks : Pat) (st : St) (s target : Val) (k : Int)
    (hinit : st.n1 ≠ 0) (hpos : st.n2 = st.buf.length)
    (hs : (rec ks).out = .val s) (hk : pyInt s = .val (.a (.int k))) (hk0 : k ≠ 0) (ht : (rec kp).out = .val target) :
    (stepInterpolate rec [kp, ks] st).kids = [(rec kp).p, (rec ks).p] := by
  have hf : LOOPFUEL = 99999 + 1 := rfl
  simp only [stepInterpolate, hinit, hpos, if_false, if_true, hf, interpSkip_nonzero rec _ kp ks st.v0 s k hs hk hk0,
    stepKid, List.getElem?_cons_zero, List.set_cons_zero, ht]
  split
  · rw [interpEmit_kids]
  · rfl

/-- **… and not at all inside a block**: while `pos < len(step_values)` a step touches neither `steps` nor the
    input (so one value of `steps` governs exactly one block: never skipped, never read twice). -/
theorem interpolate_steps_untouched_within_block (rec : Rec) (kids : List Pat) (st : St)
    (hinit : st.n1 ≠ 0) (hpos : st.n2 ≠ st.buf.length) :
    (stepInterpolate rec kids st).kids = kids := by
  simp only [stepInterpolate, hinit, hpos, if_false]
  split <;> rfl

/-- A zero step count consumes one further input value (the new start value) and one further `steps` value:
    the loop `while vsteps == 0` reads them alternately. -/
theorem interpSkip_zero (rec : Rec) (f : Nat) (kp ks : Pat) (cur s v : Val)
    (hs : (rec ks).out = .val s) (hk : pyInt s = .val (.a (.int 0))) (hv : (rec kp).out = .val v) :
    interpSkip rec (f + 1) [kp, ks] cur = interpSkip rec f [(rec kp).p, (rec ks).p] v := by
  simp only [interpSkip, stepKid, List.getElem?_cons_succ, List.getElem?_cons_zero, List.set_cons_succ,
    List.set_cons_zero, hs, hk, hv]

/-! ### PCollapse, PReset -/

/-- `PCollapse.input` (a scalar, a constant or any pattern): a non-rest value is passed on and the input is exactly
    one step further; a rest is skipped and the next value is resolved. -/
theorem collapseLoop_step (rec : Rec) (f : Nat) (a : Pat) :
    collapseLoop rec (f + 1) [a] =
      (match (rec a).out with
       | .val (.a .none) => collapseLoop rec f [(rec a).p]
       | o => (o, [(rec a).p])) := by
  simp only [collapseLoop, stepKid, List.getElem?_cons_zero, List.set_cons_zero]
  cases (rec a).out with
  | val v =>
    cases v with
    | a x => cases x <;> rfl
    | tup xs => rfl
  | stop => rfl
  | err e => rfl

theorem collapse_input_consumed (rec : Rec) (a : Pat) (st : St) (v : Val) (h : (rec a).out = .val v) :
    (v ≠ Val.none → (stepCollapse rec [a] st).out = .val v ∧ (stepCollapse rec [a] st).kids = [(rec a).p]) ∧
    (v = Val.none → ∀ f, collapseLoop rec (f + 1) [a] = collapseLoop rec f [(rec a).p]) := by
  constructor
  · intro hv
    have hf : LOOPFUEL = 99999 + 1 := rfl
    unfold stepCollapse
    rw [hf, collapseLoop_step, h]
    split
    · rename_i h2; simp at h2; exact absurd h2 hv
    · exact ⟨rfl, rfl⟩
  · intro hv f
    subst hv
    rw [collapseLoop_step, h]

/-- **`PReset` resolves its trigger and its pattern once per step, trigger first**; a positive trigger resets the
    pattern before it is stepped (so the reset takes effect at this very step). -/
theorem preset_inputs_once (rs : Pat → Pat) (rec : Rec) (p t : Pat) (st : St) (tv : Val) (ht : (rec t).out = .val tv) :
    (trigPos tv = some false →
      (stepResetW rs rec [p, t] st).out = (rec p).out ∧ (stepResetW rs rec [p, t] st).kids = [(rec p).p, (rec t).p]) ∧
    (trigPos tv = some true →
      (stepResetW rs rec [p, t] st).out = (rec (rs p)).out ∧ (stepResetW rs rec [p, t] st).kids = [(rec (rs p)).p, (rec t).p]) := by
  constructor <;> intro h <;>
    simp [stepResetW, stepKid, resetKid, ht, h]

/-! Non-vacuity -/
section Example
def cI (i : Int) : Pat := Pat.const (.int i)
def sqI (xs : List Int) (rep : Int) : Pat := .node .seq (xs.map cI) { n0 := rep }
-- PEuclidean(3, PSequence([8, 4])): `length` alternates, the position runs on
example : clsOuts stepEuclidean (stepF 5) 4 [cI 3, sqI [8, 4] (-1)] {} =
    [.val (.int 1), .val (.int 1), .val Val.none, .val Val.none] := by decide
-- PInterpolate(PSequence([0, 4, 0]), PSequence([2, 4]), linear): one `steps` value per segment
example : clsOuts stepInterpolate (stepF 5) 8 [sqI [0, 4, 0] 1, sqI [2, 4] (-1)] { n0 := 1 } =
    [.val (.int 0), .val (.flt 2), .val (.flt 4), .val (.flt 3), .val (.flt 2), .val (.flt 1), .val (.flt 0), .stop] := by decide +kernel
end Example

end IsobarV.C12
