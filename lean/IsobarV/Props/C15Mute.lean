/-
C15 (and C06's "a muted track emits no further events", for interpolated tracks): muting an interpolated
control track blanks messages, it does not shift the curve.  Property-level corollaries of
`Interp/Mute.lean` (`runMuted_eq_masked`) and of the curve theorems of `Props/C15.lean`.
-/
import IsobarV.Props.C15
import IsobarV.Interp.Mute

namespace IsobarV.C15
open IsobarV.Interp

/-- **Each control point is hit exactly on its own tick — also after the track was muted for a while**: for every
    pattern of mute flags, if the track is not muted on the tick of control point `i + 1`, the device receives
    exactly that point's value on exactly that tick `n₀ + Σ_{l≤i} D_l`. -/
theorem control_points_exact_when_unmuted (f : Rat → Rat) (hf1 : f 1 = 1) (pts : List Pt) (count : Nat) (ms : List Bool)
    {P : List Pt} (hP : P = eff count pts) (hwf : WF P) (i : Nat) (hi : i + 1 < P.length) (hd : (pt P i).dur ≠ 0)
    (hn : off P (i + 1) < ms.length) (hm : ms[off P (i + 1)]? = some false) :
    ∃ m, (runMuted f ms (Track.fresh pts count))[off P (i + 1)]? = some (.msg m) ∧ m.value = (pt P (i + 1)).value := by
  obtain ⟨m, h1, h2, _⟩ := control_points_exact f hf1 pts count ms.length hP hwf i hi hd hn
  refine ⟨m, ?_, h2⟩
  have := unmuted_tick_hears_the_curve f ms (Track.fresh pts count) (off P (i + 1)) hm (.msg m) h1
  rw [this]; rfl

/-- **The curve's value at tick `t`, not a delayed one**: on any unmuted tick inside a segment the device receives the
    closed-form value `v_i + (v_{i+1} - v_i) · f(j / D)` of that tick — the same statement as `curve_closed_form`, for
    every pattern of mute flags. -/
theorem curve_closed_form_when_unmuted (f : Rat → Rat) (pts : List Pt) (count : Nat) (ms : List Bool) {P : List Pt}
    (hP : P = eff count pts) (hwf : WF P) (i j : Nat) (hi : i + 1 < P.length) (hj1 : 1 ≤ j) (hj : j ≤ (pt P i).dur)
    (hn : off P i + j < ms.length) (hm : ms[off P i + j]? = some false) :
    (runMuted f ms (Track.fresh pts count))[off P i + j]? = some (.msg (msgAt f (pt P i) (pt P (i + 1)) j)) := by
  obtain ⟨h, _⟩ := curve_closed_form f pts count ms.length hP hwf i j hi hj1 hj hn
  have := unmuted_tick_hears_the_curve f ms (Track.fresh pts count) (off P i + j) hm _ h
  rw [this]; rfl

/-- **Nothing while muted**, whatever the curve. -/
theorem muted_interpolated_track_is_silent (f : Rat → Rat) (pts : List Pt) (count : Nat) (ms : List Bool) (k : Nat)
    (hm : ms[k]? = some true) (h : Heard) (hk : (runMuted f ms (Track.fresh pts count))[k]? = some h) (x : Msg) :
    h ≠ .msg x :=
  muted_tick_is_silent f ms _ k hm h hk x

/-- the premises are satisfiable: the example curve of `Props/C15.lean`, muted on ticks 1..3 -/
example := control_points_exact_when_unmuted linear rfl exPts 0
  [false, true, true, true, false, false, false, false, false, false] rfl exWF 0 (by decide) (by decide) (by decide) (by decide)

end IsobarV.C15
