/-
C19 — output devices encode exactly what the track asked for.

Only property theorems live here; every theorem is followed by a non-vacuity `example`.
Model: IsobarV/IO/Model.lean, vocabulary: IsobarV/IO/Spec.lean, helper lemmas: IsobarV/IO/Lemmas.lean.
-/
import IsobarV.IO.Model
import IsobarV.IO.Spec
import IsobarV.IO.Lemmas

namespace IsobarV.C19
open IsobarV.IO

/-! ## MIDI port: channel-voice wire encoding -/

/-- For every valid message (note, velocity/value < 128, channel < 16, bend in −8192..8191) a receiver decodes
    the wire bytes back to the same kind, note, value and channel. -/
theorem midi_decode_encode (m : Msg) (h : m.Valid) : decode (encode m) = some m :=
  decode_encode m h

example : decode (encode (.bend (-8192) 15)) = some (.bend (-8192) 15) := by decide
example : (Msg.noteOn 127 127 15).Valid := by simp [Msg.Valid]

/-- Whatever request a `MidiOutputDevice` method accepts (ints or floats) is put on the wire as bytes that
    decode to the message built from the `int()` of its arguments. -/
theorem midi_port_exact (r : Req) (m : Msg) (h : resolve r = some m) :
    ∃ bytes, portSend r = some bytes ∧ decode bytes = some m :=
  ⟨encode m, by simp [portSend, h], decode_encode m (resolve_valid h)⟩

example : resolve (.noteOn (.flt 121 2) (.int 64) (.int 3)) = some (.noteOn 60 64 3) := by decide

/-- Nothing malformed is ever sent: bytes leave the port only for a valid message (otherwise `ValueError`). -/
theorem midi_port_sends_only_valid (r : Req) (bytes : List Nat) (h : portSend r = some bytes) :
    ∃ m, resolve r = some m ∧ m.Valid ∧ bytes = encode m := by
  unfold portSend at h
  cases hr : resolve r with
  | none => simp [hr] at h
  | some m => simp [hr] at h; exact ⟨m, rfl, resolve_valid hr, h.symm⟩

example : portSend (.noteOn (.int 128) (.int 64) (.int 0)) = none := by decide
example : portSend (.noteOn (.int 60) (.int 64) (.int 0)) = some [144, 60, 64] := by decide

/-- note-on: note, velocity and channel (after `int()`) arrive unchanged. -/
theorem note_on_wire (n v c : Num) (hn : 0 ≤ n.trunc ∧ n.trunc ≤ 127) (hv : 0 ≤ v.trunc ∧ v.trunc ≤ 127)
    (hc : 0 ≤ c.trunc ∧ c.trunc ≤ 15) :
    (portSend (.noteOn n v c)).bind decode = some (.noteOn n.trunc.toNat v.trunc.toNat c.trunc.toNat) := by
  have hr : resolve (.noteOn n v c) = some (.noteOn n.trunc.toNat v.trunc.toNat c.trunc.toNat) := by
    simp [resolve, data7_some hn.1 hn.2, data7_some hv.1 hv.2, chan4_some hc.1 hc.2]
  simp [portSend, hr, decode_encode _ (resolve_valid hr)]

example : (portSend (.noteOn (.int 0) (.int 127) (.int 15))).bind decode = some (.noteOn 0 127 15) := by decide

/-- note-off: note and channel arrive unchanged (release velocity is mido's default 64). -/
theorem note_off_wire (n c : Num) (hn : 0 ≤ n.trunc ∧ n.trunc ≤ 127) (hc : 0 ≤ c.trunc ∧ c.trunc ≤ 15) :
    (portSend (.noteOff n c)).bind decode = some (.noteOff n.trunc.toNat 64 c.trunc.toNat) := by
  have hr : resolve (.noteOff n c) = some (.noteOff n.trunc.toNat 64 c.trunc.toNat) := by
    simp [resolve, data7_some hn.1 hn.2, chan4_some hc.1 hc.2]
  simp [portSend, hr, decode_encode _ (resolve_valid hr)]

example : (portSend (.noteOff (.int 127) (.int 9))).bind decode = some (.noteOff 127 64 9) := by decide

/-- control change: controller, value and channel arrive unchanged. -/
theorem control_wire (k v c : Num) (hk : 0 ≤ k.trunc ∧ k.trunc ≤ 127) (hv : 0 ≤ v.trunc ∧ v.trunc ≤ 127)
    (hc : 0 ≤ c.trunc ∧ c.trunc ≤ 15) :
    (portSend (.control k v c)).bind decode = some (.control k.trunc.toNat v.trunc.toNat c.trunc.toNat) := by
  have hr : resolve (.control k v c) = some (.control k.trunc.toNat v.trunc.toNat c.trunc.toNat) := by
    simp [resolve, data7_some hk.1 hk.2, data7_some hv.1 hv.2, chan4_some hc.1 hc.2]
  simp [portSend, hr, decode_encode _ (resolve_valid hr)]

example : (portSend (.control (.int 74) (.flt 255 2) (.int 1))).bind decode = some (.control 74 127 1) := by decide

/-- program change: program and channel arrive unchanged. -/
theorem program_change_wire (p c : Num) (hp : 0 ≤ p.trunc ∧ p.trunc ≤ 127) (hc : 0 ≤ c.trunc ∧ c.trunc ≤ 15) :
    (portSend (.program p c)).bind decode = some (.program p.trunc.toNat c.trunc.toNat) := by
  have hr : resolve (.program p c) = some (.program p.trunc.toNat c.trunc.toNat) := by
    simp [resolve, data7_some hp.1 hp.2, chan4_some hc.1 hc.2]
  simp [portSend, hr, decode_encode _ (resolve_valid hr)]

example : (portSend (.program (.int 5) (.int 2))).bind decode = some (.program 5 2) := by decide

/-- pitch bend: the signed 14-bit value and the channel arrive unchanged. -/
theorem pitch_bend_wire (p c : Num) (hp : -8192 ≤ p.trunc ∧ p.trunc ≤ 8191) (hc : 0 ≤ c.trunc ∧ c.trunc ≤ 15) :
    (portSend (.bend p c)).bind decode = some (.bend p.trunc c.trunc.toNat) := by
  have hr : resolve (.bend p c) = some (.bend p.trunc c.trunc.toNat) := by
    simp [resolve, pitch14_some hp.1 hp.2, chan4_some hc.1 hc.2]
  simp [portSend, hr, decode_encode _ (resolve_valid hr)]

example : (portSend (.bend (.int (-1)) (.int 15))).bind decode = some (.bend (-1) 15) := by decide
example : portSend (.bend (.int 8191) (.int 0)) = some [224, 127, 127] := by decide

/-- Python `int()` on the arguments: ints pass unchanged; a float `num/den` becomes the unique integer `t` of the
    same sign with `|t| ≤ |num/den| < |t| + 1` (truncation toward zero). -/
theorem int_truncation (num : Int) (den : Nat) (hd : 0 < den) (i : Int) :
    (Num.int i).trunc = i
    ∧ (Num.flt num den).trunc.natAbs * den ≤ num.natAbs
    ∧ num.natAbs < ((Num.flt num den).trunc.natAbs + 1) * den
    ∧ (0 ≤ num → 0 ≤ (Num.flt num den).trunc) ∧ (num ≤ 0 → (Num.flt num den).trunc ≤ 0) :=
  ⟨rfl, (trunc_flt_abs num den hd).1, (trunc_flt_abs num den hd).2, (trunc_flt_sign num den).1,
    (trunc_flt_sign num den).2⟩

example : (Num.flt 121 2).trunc = 60 ∧ (Num.flt (-121) 2).trunc = -60 ∧ (Num.flt (-1) 2).trunc = 0 := by decide

/-! ## MIDI file device (note-on / note-off) -/

/-- After ANY history of `tick()` / `note_on` / `note_off` calls, the saved track holds exactly the accepted
    requests, in order, each at the absolute tick at which it was made (sum of the delta times = number of
    ticks before the call) with the requested note, velocity and channel, followed by the dummy note-off at
    the final tick. -/
theorem midifile_messages_exact (ops : List FileOp) :
    absolutise 0 (FileDev.run {} ops).written = requestLog 0 ops ++ [(ticksIn ops, .noteOff 0 64 0)] := by
  have h0 : FileInv ({} : FileDev) := ⟨Nat.le_refl _, rfl⟩
  obtain ⟨h1, h2, h3⟩ := file_run_log {} h0 ops
  simp only [FileDev.written, absolutise_append, h1, absolutise, h3.sum]
  have := h3.le
  simp at h2
  simp [h2]
  omega

example : absolutise 0 (FileDev.run {} [.tick, .tick, .noteOn (.int 60) (.flt 129 2) (.int 1), .tick,
      .noteOn (.int 200) (.int 1) (.int 1), .noteOff (.int 60) (.int 1), .tick]).written
    = [(2, .noteOn 60 64 1), (3, .noteOff 60 64 1), (4, .noteOff 0 64 0)] := by decide

/-! ## OSC datagrams -/

/-- A receiver that parses the datagram of an accepted message gets back the address and every argument:
    ints as int32 (or int64 beyond 31 bits), strings byte for byte, booleans, floats as the float32 bit pattern
    `f32` produced (for ALL addresses and argument lists without an embedded NUL). -/
theorem osc_parse_encode (f32 : Nat → Nat) (addr : List Nat) (args : List OArg) (dg : List Nat)
    (haddr : ∀ b ∈ addr, b ≠ 0) (hok : ∀ a ∈ args, a.Ok f32) (h : encodeOSC f32 addr args = some dg) :
    parseOSC dg = some { addr := addr, args := args.map (OArg.parsed f32) } :=
  parseOSC_encodeOSC f32 addr args dg haddr hok h

example : encodeOSC (fun _ => 1075838976) [47, 120] [.int 1, .float 4612811918334230528, .str [97], .bool true, .int (-2147483648)]
    = some [47, 120, 0, 0, 44, 105, 102, 115, 84, 104, 0, 0, 0, 0, 0, 1, 64, 32, 0, 0, 97, 0, 0, 0,
            255, 255, 255, 255, 128, 0, 0, 0] := by decide

/-- Encoding succeeds for every non-empty address when the ints fit in 64 bits (python-osc's `BuildError`
    otherwise), and datagrams are 4-byte aligned. -/
theorem osc_encode_succeeds (f32 : Nat → Nat) (addr : List Nat) (args : List OArg) (haddr : addr ≠ [])
    (hint : ∀ i, OArg.int i ∈ args → fitsI64 i = true) : ∃ dg, encodeOSC f32 addr args = some dg := by
  have : ∃ ds, encArgs f32 args = some ds := by
    induction args with
    | nil => exact ⟨[], rfl⟩
    | cons a as ih =>
      obtain ⟨ds, hds⟩ := ih (fun i hi => hint i (by simp [hi]))
      have : ∃ d, argData f32 a = some d := by
        cases a with
        | int i =>
          have h64 := hint i (by simp)
          by_cases h32 : fitsI32 i = true
          · exact ⟨be32 (i % 4294967296).toNat, by simp [argData, h32]⟩
          · exact ⟨be64 (i % 18446744073709551616).toNat, by simp [argData, h32, h64]⟩
        | float d => exact ⟨_, rfl⟩
        | str s => exact ⟨_, rfl⟩
        | bool b => exact ⟨_, rfl⟩
      obtain ⟨d, hd⟩ := this
      exact ⟨d ++ ds, by simp [encArgs, hd, hds]⟩
  obtain ⟨ds, hds⟩ := this
  exact ⟨oscString addr ++ oscString (44 :: args.map argTag) ++ ds, by simp [encodeOSC, haddr, hds]⟩

example : encodeOSC id [] [] = none := by decide

/-- `OSCOutputDevice.note_on(note, velocity, channel)` is received as `/note [note, velocity, channel]`. -/
theorem osc_note_form (f32 : Nat → Nat) (note vel ch : OArg) (hn : note.Ok f32) (hv : vel.Ok f32) (hc : ch.Ok f32)
    (dg : List Nat) (h : (oscNoteOn note vel ch).dgram f32 = some dg) :
    parseOSC dg = some { addr := addrNote, args := [note.parsed f32, vel.parsed f32, ch.parsed f32] } := by
  have := parseOSC_encodeOSC f32 addrNote [note, vel, ch] dg (by decide)
    (by intro a ha; simp at ha; rcases ha with rfl | rfl | rfl <;> assumption) h
  simpa using this

example : ((oscNoteOn (.int 60) (.int 64) (.int 3)).dgram id).bind parseOSC
    = some { addr := addrNote, args := [.i32 60, .i32 64, .i32 3] } := by decide

/-- `OSCOutputDevice.note_off(note, channel)` is received as `/note [note, 0, channel]`. -/
theorem osc_note_off_form (f32 : Nat → Nat) (note ch : OArg) (hn : note.Ok f32) (hc : ch.Ok f32)
    (dg : List Nat) (h : (oscNoteOff note ch).dgram f32 = some dg) :
    parseOSC dg = some { addr := addrNote, args := [note.parsed f32, .i32 0, ch.parsed f32] } := by
  have := parseOSC_encodeOSC f32 addrNote [note, .int 0, ch] dg (by decide)
    (by intro a ha; simp at ha; rcases ha with rfl | rfl | rfl <;> first | assumption | trivial) h
  simpa [OArg.parsed, fitsI32] using this

example : ((oscNoteOff (.int 60) (.int 3)).dgram id).bind parseOSC
    = some { addr := addrNote, args := [.i32 60, .i32 0, .i32 3] } := by decide

/-- `OSCOutputDevice.control(control, value, channel)` is received as `/control [control, value, channel]`. -/
theorem osc_control_form (f32 : Nat → Nat) (cc val ch : OArg) (hk : cc.Ok f32) (hv : val.Ok f32) (hc : ch.Ok f32)
    (dg : List Nat) (h : (oscControl cc val ch).dgram f32 = some dg) :
    parseOSC dg = some { addr := addrControl, args := [cc.parsed f32, val.parsed f32, ch.parsed f32] } := by
  have := parseOSC_encodeOSC f32 addrControl [cc, val, ch] dg (by decide)
    (by intro a ha; simp at ha; rcases ha with rfl | rfl | rfl <;> assumption) h
  simpa using this

example : ((oscControl (.int 7) (.int 100) (.int 0)).dgram id).bind parseOSC
    = some { addr := addrControl, args := [.i32 7, .i32 100, .i32 0] } := by decide

/-! ## MPE channel allocator — invariants over ALL call histories -/

/-- After ANY history of calls, two different held keys sit on two different channels, each a member channel
    1..15 (never the master channel 0), and the allocator records that channel as theirs. -/
theorem distinct_notes_distinct_channels (ops : List MpeOp) (n₁ n₂ i₁ i₂ : Nat)
    (h₁ : (MPE.init.run ops).notes n₁ = .held i₁) (h₂ : (MPE.init.run ops).notes n₂ = .held i₂) (hne : n₁ ≠ n₂) :
    (MPE.init.run ops).objCh i₁ ≠ (MPE.init.run ops).objCh i₂
    ∧ 1 ≤ (MPE.init.run ops).objCh i₁ ∧ (MPE.init.run ops).objCh i₁ ≤ 15
    ∧ (MPE.init.run ops).chans ((MPE.init.run ops).objCh i₁) = some i₁ := by
  have hI := Inv.init.run ops
  have c1 := hI.held_chan n₁ i₁ h₁
  have c2 := hI.held_chan n₂ i₂ h₂
  refine ⟨?_, (mem_mpeChannels.mp (hI.chan_mem _ _ c1)).1, (mem_mpeChannels.mp (hI.chan_mem _ _ c1)).2, c1⟩
  intro e
  rw [e, c2] at c1
  simp at c1
  subst c1
  have := hI.held_note n₁ _ h₁
  have := hI.held_note n₂ _ h₂
  omega

example : (MPE.init.run [.on 60 64, .on 61 64, .off 60, .on 62 64]).notes 61 = .held 1
    ∧ (MPE.init.run [.on 60 64, .on 61 64, .off 60, .on 62 64]).notes 62 = .held 2
    ∧ (MPE.init.run [.on 60 64, .on 61 64, .off 60, .on 62 64]).objCh 1 = 2
    ∧ (MPE.init.run [.on 60 64, .on 61 64, .off 60, .on 62 64]).objCh 2 = 1 := by decide

/-- After any history that never presses a key that is still held, a channel is free exactly when no held key
    owns it.  (The direction "a held key's channel is not free" needs no hypothesis: see
    `distinct_notes_distinct_channels`.) -/
theorem channel_free_iff_unheld (ops : List MpeOp) (hnr : noRetrigger MPE.init ops) (c : Nat) :
    (MPE.init.run ops).chans c = none
      ↔ ∀ n i, (MPE.init.run ops).notes n = .held i → (MPE.init.run ops).objCh i ≠ c := by
  have hI := Inv.init.run ops
  have hR := RInv.init.run Inv.init ops hnr
  constructor
  · intro h n i hh e
    have := hI.held_chan n i hh
    rw [e, h] at this
    simp at this
  · intro h
    cases hc : (MPE.init.run ops).chans c with
    | none => rfl
    | some i => exact absurd (hI.chan_ch c i hc) (h _ i (hR c i hc))

example : noRetrigger MPE.init [.on 60 64, .on 61 64, .off 60] := by
  simp [noRetrigger, MPE.step, MPE.noteOn, MPE.nextChannel, MPE.init, mpeChannels, MPE.alloc,
    upd, resolve, data7, chan4, Num.trunc, Slot.isHeld]
example : (MPE.init.run [.on 60 64, .on 61 64, .off 60]).chans 1 = none
    ∧ (MPE.init.run [.on 60 64, .on 61 64, .off 60]).chans 2 = some 1 := by decide

/-- For every history with notes and velocities in 0..127 (re-triggering allowed), the allocator's table is the
    receiver's view: a channel is free exactly when no note is sounding on it on the wire, and an occupied
    channel carries exactly the note that sounds there. -/
theorem channel_free_iff_silent (ops : List MpeOp) (hd : ∀ op ∈ ops, op.InDomain) (c : Nat) :
    ((MPE.init.run ops).chans c = none ↔ soundingOn c (MPE.init.wire ops) = none)
    ∧ ∀ i, (MPE.init.run ops).chans c = some i → soundingOn c (MPE.init.wire ops) = some ((MPE.init.run ops).objNote i) := by
  have hW := (WInv.init.run Inv.init DInv.init ops hd).1 c
  simp only [List.nil_append] at hW
  rw [hW]
  constructor
  · cases (MPE.init.run ops).chans c <;> simp
  · intro i hi; simp [hi]

example : soundingOn 1 (MPE.init.wire [.on 60 64, .on 61 64, .off 60]) = none
    ∧ soundingOn 2 (MPE.init.wire [.on 60 64, .on 61 64, .off 60]) = some 61 := by decide

/-- Whenever fewer than 15 member channels are sounding on the wire, the next `note_on` (note, velocity in
    0..127) returns an `MPENote` on a member channel that was silent, and puts exactly that note-on on the wire. -/
theorem note_on_succeeds_if_fewer_than_15_held (ops : List MpeOp) (hd : ∀ op ∈ ops, op.InDomain) (n v : Nat)
    (hn : n < 128) (hv : v < 128) (h : soundingCount (MPE.init.wire ops) < 15) :
    ∃ c, ((MPE.init.run ops).step (.on n v)).res = .note (MPE.init.run ops).nextId c
      ∧ 1 ≤ c ∧ c ≤ 15 ∧ soundingOn c (MPE.init.wire ops) = none
      ∧ ((MPE.init.run ops).step (.on n v)).wire = [.noteOn n v c] := by
  have hW := (WInv.init.run Inv.init DInv.init ops hd).1
  simp only [List.nil_append] at hW
  rw [soundingCount_eq_occupied hW] at h
  obtain ⟨c, hc⟩ := nextChannel_of_occupied_lt h
  obtain ⟨_, e2, e3⟩ := noteOn_some hn hv hc
  have hm := nextChannel_some hc
  refine ⟨c, e2, (mem_mpeChannels.mp hm.1).1, (mem_mpeChannels.mp hm.1).2, ?_, e3⟩
  rw [hW c, hm.2]; rfl

example : soundingCount (MPE.init.wire [.on 60 64, .on 61 64, .off 60]) = 1 := by decide

/-- The same in terms of held keys: in a history that never re-presses a held key, fewer than 15 held keys
    means the next `note_on` succeeds. -/
theorem note_on_succeeds_if_fewer_than_15_keys_held (ops : List MpeOp) (hd : ∀ op ∈ ops, op.InDomain)
    (hnr : noRetrigger MPE.init ops) (n v : Nat) (hn : n < 128) (hv : v < 128)
    (h : (MPE.init.run ops).heldCount < 15) :
    ∃ c, ((MPE.init.run ops).step (.on n v)).res = .note (MPE.init.run ops).nextId c
      ∧ ((MPE.init.run ops).step (.on n v)).wire = [.noteOn n v c] := by
  have hC := CInv.init.run Inv.init DInv.init ops hd hnr
  unfold CInv at hC
  rw [← hC] at h
  obtain ⟨c, hc⟩ := nextChannel_of_occupied_lt h
  obtain ⟨_, e2, e3⟩ := noteOn_some hn hv hc
  exact ⟨c, e2, e3⟩

example : (MPE.init.run [.on 60 64, .on 61 64, .off 60]).heldCount = 1 := by decide

/-- With all 15 member channels sounding, `note_on` returns `None`, sends nothing and changes nothing. -/
theorem note_on_refused_only_when_all_15_sound (ops : List MpeOp) (hd : ∀ op ∈ ops, op.InDomain) (n v : Nat) :
    ((MPE.init.run ops).step (.on n v)).res = .noChannel
      ↔ soundingCount (MPE.init.wire ops) = 15 := by
  have hW := (WInv.init.run Inv.init DInv.init ops hd).1
  simp only [List.nil_append] at hW
  rw [soundingCount_eq_occupied hW]
  constructor
  · intro h
    cases hc : (MPE.init.run ops).nextChannel with
    | none => exact occupied_eq_15_of_nextChannel_none hc
    | some c =>
      simp only [MPE.step, MPE.noteOn, hc] at h
      split at h <;> simp at h
  · intro h
    cases hc : (MPE.init.run ops).nextChannel with
    | none => exact (noteOn_none hc).2.1
    | some c =>
      have hm := nextChannel_some hc
      exfalso
      have : (MPE.init.run ops).occupied < 15 := by
        have hlt := count_set_true mpeChannels mpeChannels_nodup (fun x => ((MPE.init.run ops).chans x).isSome)
          (fun x => if x = c then true else ((MPE.init.run ops).chans x).isSome) c hm.1 (by simp [hm.2]) (by simp)
          (by intro x hx; simp [hx])
        have hle := List.length_filter_le
          (fun x => if x = c then true else ((MPE.init.run ops).chans x).isSome) mpeChannels
        unfold MPE.occupied
        simp [mpeChannels] at hle hlt ⊢
        omega
      omega

example : ((MPE.init.run ((List.range 15).map (fun k => MpeOp.on (60 + k) 64))).step (.on 90 64)).res = .noChannel := by
  decide

/-- Channels are recycled: after ANY in-domain history that leaves a channel free, ANY number of further notes
    can be played one after the other; each goes out (note-on, then note-off) on the same lowest free channel
    `c`, and the channel table is afterwards what it was. -/
theorem channels_recycled (ops : List MpeOp) (hd : ∀ op ∈ ops, op.InDomain) (c : Nat)
    (hc : (MPE.init.run ops).nextChannel = some c) (ns : List (Nat × Nat)) (hns : ∀ p ∈ ns, p.1 < 128 ∧ p.2 < 128) :
    (MPE.init.run ops).wire (playSuccessively ns) = successiveWire c ns
    ∧ ((MPE.init.run ops).run (playSuccessively ns)).chans = (MPE.init.run ops).chans :=
  successive_wire (Inv.init.run ops) (WInv.init.run Inv.init DInv.init ops hd).2 hc ns hns

/-- In particular, from a fresh device any number of successive notes all sound on channel 1. -/
theorem any_number_of_successive_notes (ns : List (Nat × Nat)) (hns : ∀ p ∈ ns, p.1 < 128 ∧ p.2 < 128) :
    MPE.init.wire (playSuccessively ns) = successiveWire 1 ns :=
  (channels_recycled [] (by simp) 1 (by decide) ns hns).1

example : MPE.init.wire (playSuccessively ((List.range 40).map (fun k => (60 + k, 100))))
    = successiveWire 1 ((List.range 40).map (fun k => (60 + k, 100))) := by decide

/-- `MPENote` expression: while a note is down (in-domain history), its pitch bend goes out on the note's own
    channel — the channel on which the receiver hears exactly that note. -/
theorem expression_reaches_own_note (ops : List MpeOp) (hd : ∀ op ∈ ops, op.InDomain) (id : Nat) (p : Int)
    (hp : -8192 ≤ p ∧ p ≤ 8191) (hdown : (MPE.init.run ops).down id = true) :
    ((MPE.init.run ops).step (.objBend id p)).wire = [.bend p ((MPE.init.run ops).objCh id)]
    ∧ soundingOn ((MPE.init.run ops).objCh id) (MPE.init.wire ops) = some ((MPE.init.run ops).objNote id) := by
  have hI := Inv.init.run ops
  have hch := hI.down_chan id hdown
  have hm := mem_mpeChannels.mp (hI.chan_mem _ _ hch)
  constructor
  · have hr : resolve (.bend (.int p) (.int ((MPE.init.run ops).objCh id)))
        = some (.bend p ((MPE.init.run ops).objCh id)) := by
      have h1 := pitch14_some hp.1 hp.2
      have h2 : chan4 (((MPE.init.run ops).objCh id : Nat) : Int) = some ((MPE.init.run ops).objCh id) := by
        simp [chan4]; omega
      simp [resolve, Num.trunc, h1, h2]
    simp [MPE.step, MPE.objSend, hdown, hr]
  · exact (channel_free_iff_silent ops hd _).2 id hch

example : (MPE.init.run [.on 60 64, .on 61 64]).down 1 = true
    ∧ ((MPE.init.run [.on 60 64, .on 61 64]).step (.objBend 1 100)).wire = [.bend 100 2] := by decide

/-- Releasing a held key (any reachable in-domain state) sends its note-off on the key's own channel, frees
    exactly that channel and marks the `MPENote` as up, so its later expression calls send nothing. -/
theorem note_off_frees_own_channel (ops : List MpeOp) (hd : ∀ op ∈ ops, op.InDomain) (n i : Nat)
    (hh : (MPE.init.run ops).notes n = .held i) (p : Int) :
    ((MPE.init.run ops).step (.off n)).wire = [.noteOff n 64 ((MPE.init.run ops).objCh i)]
    ∧ ((MPE.init.run ops).step (.off n)).st.chans ((MPE.init.run ops).objCh i) = none
    ∧ (∀ c, c ≠ (MPE.init.run ops).objCh i →
        ((MPE.init.run ops).step (.off n)).st.chans c = (MPE.init.run ops).chans c)
    ∧ (((MPE.init.run ops).step (.off n)).st.step (.objBend i p)).wire = [] := by
  have hI := Inv.init.run ops
  have hD := (WInv.init.run Inv.init DInv.init ops hd).2
  obtain ⟨e1, _, e3⟩ := noteOff_held hI hD hh
  simp only [MPE.step]
  rw [e1, e3]
  refine ⟨rfl, by simp [MPE.release, upd], ?_, ?_⟩
  · intro c hc; simp [MPE.release, upd, hc]
  · simp [MPE.objSend, MPE.release, upd]

example : ((MPE.init.run [.on 60 64, .on 61 64]).step (.off 61)).wire = [.noteOff 61 64 2] := by decide

end IsobarV.C19
