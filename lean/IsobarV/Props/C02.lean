/-
C02 — every note-on is released exactly once and on time; no stuck notes.

Property theorems only (helper lemmas: IsobarV/Sched/Balance*.lean, Timely.lean).
All statements are about the scheduler model `IsobarV.Sched` and hold for every world of event
streams `W`, every tick resolution `q`, both tolerance modes and EVERY history of API calls and ticks
(`List Step`, any length) — including callbacks that themselves call the timeline API, faults at any
event / voice, mute, update, unschedule, clear, and exhaustion.
-/
import IsobarV.Sched.BalanceOps
import IsobarV.Sched.Solo

namespace IsobarV.C02
open IsobarV.Sched

/-- The state a freshly constructed `Timeline` starts from (no tracks; any configuration). -/
def Fresh0 (tl : TL) : Prop := tl.tracks = []

/-- **Sounding = pending** (invariant over all histories).  For every (note, channel): the number of
    note-ons sent so far equals the number of note-offs sent so far plus the number of note-offs still
    pending in tracks that are in the timeline.  Hence a note-on is never released twice, never
    released without having been started, and it can only stay unreleased while a track of the
    timeline still holds its note-off. -/
theorem sounding_eq_pending (W : World) (tl0 : TL) (h0 : Fresh0 tl0) (hist : List Step) (nc : NC) :
    onCount nc (run W tl0 hist).2 = offCount nc (run W tl0 hist).2 + pend nc (run W tl0 hist).1 := by
  have hA : AllFresh tl0.tracks := by simp [Fresh0] at h0; simp [h0, AllFresh]
  have := (run_bal (nc := nc) W hist tl0 hA).1
  simp only [Fresh0] at h0
  simp only [Bal, pend, h0, pendTracks_nil] at this
  simpa [pend] using this

/-- The same from any reachable (or indeed any clean) intermediate state: one more stretch of history
    keeps the balance. -/
theorem balance_step (W : World) (tl : TL) (hA : AllFresh tl.tracks) (hist : List Step) (nc : NC) :
    onCount nc (run W tl hist).2 + pend nc tl = offCount nc (run W tl hist).2 + pend nc (run W tl hist).1 :=
  (run_bal (nc := nc) W hist tl hA).1

/-- A note-off is never sent for a note that is not sounding: at every point of every history
    #offs ≤ #ons for every (note, channel). -/
theorem off_le_on (W : World) (tl0 : TL) (h0 : Fresh0 tl0) (hist : List Step) (nc : NC) :
    offCount nc (run W tl0 hist).2 ≤ onCount nc (run W tl0 hist).2 := by
  have := sounding_eq_pending W tl0 h0 hist nc; omega

/-- **No stuck notes.**  Whenever a history leaves the timeline without tracks — after `clear`, after
    the last `unschedule`, after the removal of faulting tracks, after every stream has ended — every
    note-on has been released exactly once. -/
theorem no_tracks_no_sound (W : World) (tl0 : TL) (h0 : Fresh0 tl0) (hist : List Step) (nc : NC)
    (hempty : (run W tl0 hist).1.tracks = []) :
    onCount nc (run W tl0 hist).2 = offCount nc (run W tl0 hist).2 := by
  have := sounding_eq_pending W tl0 h0 hist nc
  simpa [pend, hempty] using this

/-- A stop-when-done timeline only raises StopIteration from `tick()` in a state without tracks … -/
theorem phaseTracks_never_stops (W : World) (ids : List Nat) (tl : TL) :
    (phaseTracks W tl ids).res ≠ .stopIteration := by
  induction ids generalizing tl with
  | nil => simp [phaseTracks]
  | cons tid rest ih =>
    simp only [phaseTracks]
    split
    · simp
    · split
      · exact ih _
      · simp
    · exact ih _

theorem stop_only_when_empty (W : World) (tl : TL) (h : (tickTL W tl).res = .stopIteration) :
    (tickTL W tl).tl.tracks = [] := by
  have hns := phaseTracks_never_stops W ((fireActions (phaseOffs tl)).tracks.map Track.id) (fireActions (phaseOffs tl))
  unfold tickTL at h ⊢
  simp only [] at h ⊢
  generalize phaseTracks W (fireActions (phaseOffs tl)) ((fireActions (phaseOffs tl)).tracks.map Track.id) = r at h hns ⊢
  unfold endOfTick at h ⊢
  split at h
  · split at h
    · rename_i hr hc; simp only [hr, hc]; simpa using hc.1
    · rename_i hr hc; simp [hr] at h
  · exact absurd h hns

/-- … hence **a stop-when-done timeline never stops while a note is sounding**: if the last tick of a
    history raises StopIteration, every note-on of the whole history has been released. -/
theorem stop_implies_silence (W : World) (tl0 : TL) (h0 : Fresh0 tl0) (hist : List Step) (nc : NC)
    (hstop : (tickTL W (run W tl0 hist).1).res = .stopIteration) :
    onCount nc ((run W tl0 hist).2 ++ (tickTL W (run W tl0 hist).1).calls) =
      offCount nc ((run W tl0 hist).2 ++ (tickTL W (run W tl0 hist).1).calls) := by
  have hA0 : AllFresh tl0.tracks := by simp [Fresh0] at h0; simp [h0, AllFresh]
  obtain ⟨hb, hA⟩ := run_bal (nc := nc) W hist tl0 hA0
  obtain ⟨hb2, _⟩ := tickTL_bal (nc := nc) W _ hA
  have he := stop_only_when_empty W _ hstop
  simp only [Fresh0] at h0
  simp only [Bal, pend, h0, he, pendTracks_nil, onCount_append, offCount_append] at *
  omega

/-- **Silent events**: an inactive event, or any event of a muted track, produces no device call and
    leaves the timeline unchanged. -/
theorem silent_inactive_or_muted (tl : TL) (t : Track) (d : Nat) (a : Bool) (k : EvKind)
    (h : a = false ∨ t.muted = true) :
    (performEvent tl t d a k).calls = [] ∧ (performEvent tl t d a k).tl = tl := by
  unfold performEvent; simp [h]

/-- **Silent voices**: a rest (no voices), zero / negative amplitude or zero / negative gate produce no
    message at all and schedule no note-off. -/
theorem silent_voices (base : Nat) (vs : List Voice) (h : ∀ v ∈ vs, v.amp ≤ 0 ∨ v.gpos = false) :
    (performVoices base vs).calls = [] ∧ (performVoices base vs).offs = [] ∧ (performVoices base vs).raised = false := by
  induction vs with
  | nil => simp [performVoices]
  | cons v vs ih =>
    have hv := h v (by simp)
    have := ih (fun x hx => h x (by simp [hx]))
    simp only [performVoices]
    split
    · rename_i hc; rcases hv with hv | hv
      · omega
      · simp [hv] at hc
    · exact this

/-- Each sounding voice of a chord gets its own note-off, timed with that voice's own length
    (per-voice gates): the note-offs scheduled by one event are exactly the voices that sounded. -/
theorem voices_paired (base : Nat) (vs : List Voice) (hok : (performVoices base vs).raised = false) :
    (performVoices base vs).offs =
      (vs.filter (fun v => decide (0 < v.amp) && v.gpos)).map
        (fun v => { time := base + v.len, note := v.note, chan := v.chan }) ∧
    (performVoices base vs).calls =
      (vs.filter (fun v => decide (0 < v.amp) && v.gpos)).map (fun v => Call.noteOn v.note v.amp v.chan) := by
  induction vs with
  | nil => simp [performVoices]
  | cons v vs ih =>
    simp only [performVoices] at hok ⊢
    split at hok
    · rename_i hc
      split at hok
      · simp at hok
      · rename_i hb
        simp only [hc, hb] at ⊢
        have := ih hok
        simp [hc.1, hc.2, this.1, this.2]
    · rename_i hc
      have := ih hok
      have hf : (decide (0 < v.amp) && v.gpos) = false := by
        by_cases h1 : 0 < v.amp
        · simp [h1] at hc ⊢; simpa using hc
        · simp [h1]
      simp [hc, hf, this.1, this.2]

/-! ### Timing of the release (track-local clauses)

The note-off of a voice that sounds at local tick `cur` is queued for time `cur·q + len`
(`voices_paired`), every timeline tick starts by releasing, for every track in the timeline, exactly
the queued note-offs whose time has come and keeps the others (`release_rule`), and a note-off is
never due in the tick that queued it (`not_in_onset_tick`), which together with "one local tick per
timeline tick" (`C01.local_time_advances`) fixes the release tick to `cur + ⌈len / q⌉`. -/

/-- A voice is well formed when a positive gate means a positive length (duration × gate > 0). -/
def VoiceWF (v : Voice) : Prop := v.gpos = true → 0 < v.len

theorem release_rule (q : Nat) (t : Track) (o : NoteOff) :
    (o ∈ dueOffs q t ↔ o ∈ t.offs ∧ o.time ≤ t.cur * q) ∧
    (o ∈ (t.processOffs q).offs ↔ o ∈ t.offs ∧ t.cur * q < o.time) := by
  simp [dueOffs, Track.processOffs, keepOffs, Nat.not_le]

/-- The first phase of a timeline tick sends exactly the due note-offs of every track, in track
    order, each track's in the order they were queued. -/
theorem phase_one_calls (q : Nat) (ts : List Track) :
    phaseOffsCalls q ts = (ts.map (fun t => (dueOffs q t).map (fun o => Call.noteOff o.note o.chan))).flatten := rfl

theorem not_in_onset_tick (cur q : Nat) (vs : List Voice) (hwf : ∀ v ∈ vs, VoiceWF v) :
    ∀ o ∈ (performVoices (cur * q) vs).offs, cur * q < o.time := by
  induction vs with
  | nil => simp [performVoices]
  | cons v vs ih =>
    have ih' := ih (fun x hx => hwf x (by simp [hx]))
    simp only [performVoices]
    split
    · rename_i hc
      split
      · simp
      · intro o ho
        simp only [List.mem_cons] at ho
        rcases ho with rfl | ho
        · have := hwf v (by simp) hc.2; simp only []; omega
        · exact ih' o ho
    · exact ih'

/-- The release tick is the first tick at or after the queued time: `c` is the release tick of a
    note-off queued for `time` iff it is due at `c` and was not yet due at `c - 1`; that tick is
    `⌈time / q⌉`. -/
theorem cdiv_spec (q time : Nat) (hq : 0 < q) :
    time ≤ cdiv time q * q ∧ ∀ c', c' < cdiv time q → c' * q < time := by
  unfold cdiv
  have h1 : q * ((time + q - 1) / q) ≤ time + q - 1 := Nat.mul_div_le _ _
  have h2 : time + q - 1 < q * ((time + q - 1) / q + 1) := Nat.lt_mul_div_succ _ hq
  rw [Nat.mul_succ] at h2
  rw [Nat.mul_comm] at h1 h2
  refine ⟨by omega, fun c' hc' => ?_⟩
  have : (c' + 1) * q ≤ (time + q - 1) / q * q := Nat.mul_le_mul_right q hc'
  rw [Nat.add_mul] at this
  omega

theorem first_due_tick (q time c : Nat) (hq : 0 < q) :
    (time ≤ c * q ∧ ∀ c', c' < c → ¬ time ≤ c' * q) ↔ c = cdiv time q := by
  obtain ⟨s1, s2⟩ := cdiv_spec q time hq
  constructor
  · rintro ⟨h1, h2⟩
    rcases Nat.lt_trichotomy c (cdiv time q) with h | h | h
    · have := s2 c h; omega
    · exact h
    · exact absurd s1 (h2 _ h)
  · rintro rfl
    exact ⟨s1, fun c' hc' => Nat.not_le.mpr (s2 c' hc')⟩

/-! ### Release on the first due tick (invariant of the per-track tick function)

`C07.non_interference` shows that, for tracks that do not call the timeline API, a track evolves from
tick to tick by the per-track function `t ↦ soloTick W q (applyStarts q due (t.processOffs q))`.
`Timely` — no pending note-off is overdue by a whole tick — is an invariant of that function (for
well-formed voices), and under it every note-off that the note-off phase releases is released on
exactly the first tick at or after its time, never in the tick that queued it. -/

/-- No pending note-off of the track is overdue by a whole tick. -/
def Timely (q : Nat) (t : Track) : Prop := ∀ o ∈ t.offs, t.cur * q < o.time + q

/-- All note events of the world have well-formed voices (positive gate ⇒ positive length). -/
def WorldWF (W : World) : Prop := ∀ sid pos d a vs, W sid pos = some (.ev d a (.note vs)) → ∀ v ∈ vs, VoiceWF v

theorem applyStarts_same (q : Nat) (as : List PAct) (t : Track) :
    (applyStarts q as t).offs = t.offs ∧ (applyStarts q as t).cur = t.cur := by
  induction as generalizing t with
  | nil => exact ⟨rfl, rfl⟩
  | cons a as ih =>
    simp only [applyStarts, List.foldl_cons]
    have h := ih (startIf q a t)
    simp only [applyStarts] at h
    have hs : (startIf q a t).offs = t.offs ∧ (startIf q a t).cur = t.cur := by
      unfold startIf; split <;> simp [Track.start]
    exact ⟨h.1.trans hs.1, h.2.trans hs.2⟩

/-- After the note-off phase nothing that stays pending is due. -/
theorem strict_after_processOffs (q : Nat) (t : Track) :
    ∀ o ∈ (t.processOffs q).offs, (t.processOffs q).cur * q < o.time := by
  intro o ho
  exact ((release_rule q t o).2.mp ho).2

theorem soloTick_timely (W : World) (hW : WorldWF W) (q : Nat) (hq : 0 < q) (t : Track)
    (hstrict : ∀ o ∈ t.offs, t.cur * q < o.time) : Timely q (soloTick W q t).t := by
  have base : Timely q t := fun o ho => by have := hstrict o ho; omega
  have hend : ∀ (u : Track) (s : Bool), (∀ o ∈ u.offs, u.cur * q < o.time) → Timely q (endSolo u s) := by
    intro u s hu o ho
    have := hu o (by simpa [endSolo] using ho)
    simp only [endSolo, Nat.add_mul]; omega
  unfold soloTick
  split
  · exact base
  · split
    · have hs := pullLoop_same W q (t.fuel q) t .stop
      have hev := pullLoop_ev_from_W W q (t.fuel q) t .stop
      generalize Track.pullLoop W q (t.fuel q) t .stop = p at hs hev
      obtain ⟨_, s2, _, _, _, s6⟩ := hs
      have hp : ∀ o ∈ p.t.offs, p.t.cur * q < o.time := by rw [s2, s6]; exact hstrict
      unfold soloAfterPull
      split
      · intro o ho; have := hp o ho; show p.t.cur * q < o.time + q; omega
      · intro o ho; have := hp o ho; show p.t.cur * q < o.time + q; omega
      · exact hend p.t true hp
      · rename_i d a k hr
        have hperf : ∀ o ∈ (performSolo q p.t a k).t.offs, (performSolo q p.t a k).t.cur * q < o.time := by
          unfold performSolo
          split
          · exact hp
          · cases k with
            | note vs =>
              have hwf : ∀ v ∈ vs, VoiceWF v := by
                rcases hev d a (.note vs) hr with h | ⟨sid, pos, h⟩
                · cases h
                · exact hW sid pos d a vs h
              intro o ho
              simp only [List.mem_append] at ho
              rcases ho with ho | ho
              · exact hp o ho
              · exact not_in_onset_tick p.t.cur q vs hwf o ho
            | control cc v ch bad => simp only []; split <;> exact hp
            | program pp ch bad => simp only []; split <;> exact hp
            | action ops out => exact hp
        split
        · intro o ho; have := hperf o ho; show (performSolo q p.t a k).t.cur * q < o.time + q; omega
        · exact hend _ false hperf
    · exact hend t false hstrict

/-- **`Timely` is an invariant of the per-track tick function.** -/
theorem timely_invariant (W : World) (hW : WorldWF W) (q : Nat) (hq : 0 < q) (due : List PAct) (t : Track) :
    Timely q (soloTick W q (applyStarts q due (t.processOffs q))).t := by
  apply soloTick_timely W hW q hq
  obtain ⟨h1, h2⟩ := applyStarts_same q due (t.processOffs q)
  rw [h1, h2]
  exact strict_after_processOffs q t

/-- **Released exactly on time.**  For a timely track, every note-off sent by the note-off phase at
    local tick `cur` has `cur` as the first tick at or after its time: `cur = ⌈time / q⌉`.  Since the
    time is `onset tick · q + duration × gate` (`voices_paired`) with a positive length, that is the
    first tick at or after onset + duration × gate, and never the onset tick itself. -/
theorem released_on_first_due_tick (q : Nat) (hq : 0 < q) (t : Track) (ht : Timely q t) (o : NoteOff)
    (ho : o ∈ dueOffs q t) : t.cur = cdiv o.time q := by
  obtain ⟨hmem, hdue⟩ := (release_rule q t o).1.mp ho
  have hlate := ht o hmem
  apply (first_due_tick q o.time t.cur hq).mp
  refine ⟨hdue, fun c' hc' hle => ?_⟩
  have : (c' + 1) * q ≤ t.cur * q := Nat.mul_le_mul_right q hc'
  rw [Nat.add_mul] at this
  omega

/-! Non-vacuity: a concrete history with a chord, an update, a mute and an unschedule while notes
    sound; the model really emits note-ons and the balance is non-trivial. -/
section Example
def exW : World := fun sid pos =>
  if sid = 0 then
    some (.ev 7 true (.note [{ note := 60, amp := 64, len := 14, gpos := true, chan := 0 },
                             { note := 64, amp := 64, len := 3, gpos := true, chan := 0 }]))
  else if pos < 2 then some (.ev 5 true (.note [{ note := 72, amp := 90, len := 20, gpos := true, chan := 1 }]))
  else none
def exHist : List Step :=
  [.op (.schedule 0 none none none true none true), .tick, .tick, .tick,
   .op (.update 0 1 none none none), .tick, .op (.mute 0), .tick, .tick, .op (.unschedule 0), .tick]
example : onCount (60, 0) (run exW { q := 3 } exHist).2 = 1 ∧ offCount (60, 0) (run exW { q := 3 } exHist).2 = 1 ∧
    onCount (72, 1) (run exW { q := 3 } exHist).2 = 1 ∧ (run exW { q := 3 } exHist).1.tracks = [] := by decide
end Example

end IsobarV.C02
