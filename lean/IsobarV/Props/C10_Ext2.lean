/-
C10 — deterministic patterns match their reference definitions: the ext2 group.

Proved here: `PFilterByKey` / `PNearestNoteInKey` element-wise in terms of the functions of the Tonal model
(`IsobarV/Tonal/Model.lean`: `pFilterByKey`, `pNearestNoteInKey`, whose own specification is C13's), `PKeyTonic`,
`PKeyScale`, `PFunc` element-wise.  `PMetropolis` block by block: `Props/C10_Metropolis.lean` (added later).  NOT proved
(time): the closed forms of `PMetropolis` as ONE list function over the whole cycle (cycle of, per note,
`repeats[i]` times the note then `rests[i] + 1` rests), `PSequenceAction` (concatenation of `fn^i(list)`, `i < repeats`)
and `PPatternGeneratorAction` (endless repetition of the generated sequence): for these the file only carries
evaluated instances (`example … := by decide`); the closed forms are checked on the implementation by the independent
list-based oracles of `harness/pat_reg_ext2.py` and on the model through the model/implementation correspondence.
-/
import IsobarV.Pat.Cls.ScalarLemmas
import IsobarV.Props.C10_Scalar

namespace IsobarV.C10Ext2
open IsobarV.Pat

/-- **`PFilterByKey`**: `keyMapVal pFilterByKey` applied to the rows `[note, key]`. -/
theorem filterByKey_reference (rec : Rec) (n : Nat) (p k : Pat) (st : St) (ns ks : List Val)
    (hp : recOuts rec n p = ns.map .val) (hk : recOuts rec n k = ks.map .val) :
    clsOuts stepFilterByKey rec n [p, k] st = List.zipWith (fun note key => keyMapVal Tonal.pFilterByKey [note, key]) ns ks := by
  unfold stepFilterByKey
  rw [poll2_reference _ rfl _ rec n p k st ns ks hp hk, runF_pure1, List.map_zipWith]

/-- **`PNearestNoteInKey`**: `keyMapVal pNearestNoteInKey` applied to the rows `[note, key]`. -/
theorem nearestNoteInKey_reference (rec : Rec) (n : Nat) (p k : Pat) (st : St) (ns ks : List Val)
    (hp : recOuts rec n p = ns.map .val) (hk : recOuts rec n k = ks.map .val) :
    clsOuts stepNearestNoteInKey rec n [p, k] st =
      List.zipWith (fun note key => keyMapVal Tonal.pNearestNoteInKey [note, key]) ns ks := by
  unfold stepNearestNoteInKey
  rw [poll2_reference _ rfl _ rec n p k st ns ks hp hk, runF_pure1, List.map_zipWith]

/-- One row: an integer note (or a rest) and the key `(tonic, name)` of a library scale give the Tonal model's
    `pFilterByKey` — the note when its pitch class is in the key (a rest always is), a rest otherwise. -/
theorem filterByKey_value (name : String) (s : Tonal.Scale) (h : scaleByName name = some s) (t : Int) (note : Option Int) :
    keyMapVal Tonal.pFilterByKey [valOfNote note, .tup [.int t, .str name]] =
      .val (valOfNote (Tonal.pFilterByKey { tonic := t, scale := s } note)) := by
  cases note <;> simp [keyMapVal, keyOfVal, h, noteOfVal, valOfNote, Val.int, Val.none]

/-- One row of `PNearestNoteInKey`: the Tonal model's `pNearestNoteInKey` (`Key.nearest_note`). -/
theorem nearestNoteInKey_value (name : String) (s : Tonal.Scale) (h : scaleByName name = some s) (t : Int) (note : Option Int) :
    keyMapVal Tonal.pNearestNoteInKey [valOfNote note, .tup [.int t, .str name]] =
      .val (valOfNote (Tonal.pNearestNoteInKey { tonic := t, scale := s } note)) := by
  cases note <;> simp [keyMapVal, keyOfVal, h, noteOfVal, valOfNote, Val.int, Val.none]

/-- **`PKeyTonic`**: element-wise the tonic of the key (a rest for a rest). -/
theorem keyTonic_reference (rec : Rec) (n : Nat) (k : Pat) (st : St) (ks : List Val) (hk : recOuts rec n k = ks.map .val) :
    clsOuts stepKeyTonic rec n [k] st = ks.map (fun key => keyTonicVal [key]) := by
  unfold stepKeyTonic
  rw [poll1_reference _ rfl _ rec n k st ks hk, runF_pure1, List.map_map]
  rfl

/-- **`PKeyScale`**: element-wise the scale of the key. -/
theorem keyScale_reference (rec : Rec) (n : Nat) (k : Pat) (st : St) (ks : List Val) (hk : recOuts rec n k = ks.map .val) :
    clsOuts stepKeyScale rec n [k] st = ks.map (fun key => keyScaleVal [key]) := by
  unfold stepKeyScale
  rw [poll1_reference _ rfl _ rec n k st ks hk, runF_pure1, List.map_map]
  rfl

theorem keyTonicVal_key (name : String) (s : Tonal.Scale) (h : scaleByName name = some s) (t : Int) :
    keyTonicVal [.tup [.int t, .str name]] = .val (.int t) ∧ keyScaleVal [.tup [.int t, .str name]] = .val (.str name) := by
  simp [keyTonicVal, keyScaleVal, keyOfVal, h]

/-- **`PFunc`**: element-wise the value returned by the function resolved at that step (own state never changes). -/
theorem func_reference (rec : Rec) (n : Nat) (f : Pat) (st : St) (fs : List Val) (hf : recOuts rec n f = fs.map .val) :
    clsOuts stepFunc rec n [f] st = runF funcF st (fs.map (fun x => [x])) := by
  unfold stepFunc
  exact poll1_reference _ rfl _ rec n f st fs hf

theorem funcF_const (st : St) (t : Nat) (v : Val) (h : st.buf[t]? = some v) :
    funcF st [.int (t : Int)] = { out := .val v, st := st } := by
  simp [funcF, h]

/-! Non-vacuity / evaluated instances. -/
section Example
def c (i : Int) : Pat := Pat.const (.int i)
def cMajor : Pat := Pat.const (.tup [.int 0, .str "major"])
def series8 : Pat := .node .seq [c 0, c 1, c 2, c 3, c 4, c 5, c 6, Pat.const Val.none] { n0 := 1 }
/-- the docstring of `PFilterByKey` -/
example : clsOuts stepFilterByKey (stepF 5) 8 [series8, cMajor] {} =
    [.val (.int 0), .val Val.none, .val (.int 2), .val Val.none, .val (.int 4), .val (.int 5), .val Val.none, .val Val.none] := by
  decide +kernel
/-- the docstring of `PNearestNoteInKey` -/
example : clsOuts stepNearestNoteInKey (stepF 5) 8 [series8, cMajor] {} =
    [.val (.int 0), .val (.int 0), .val (.int 2), .val (.int 2), .val (.int 4), .val (.int 5), .val (.int 5), .val Val.none] := by
  decide +kernel
example : scaleByName "major" = some { semitones := [0, 2, 4, 5, 7, 9, 11], octave := 12 } := by decide +kernel
example : clsOuts stepKeyTonic (stepF 5) 2 [.node .seq [Pat.const (.tup [.int 5, .str "minor"]), cMajor] { n0 := -1 }] {} =
    [.val (.int 5), .val (.int 0)] := by decide +kernel
example : clsOuts stepKeyScale (stepF 5) 2 [.node .seq [Pat.const (.tup [.int 5, .str "minor"]), cMajor] { n0 := -1 }] {} =
    [.val (.str "minor"), .val (.str "major")] := by decide +kernel
example : clsOuts stepFunc (stepF 5) 3 [.node .seq [c 1, c 0] { n0 := -1 }] { buf := [.int 7, .flt (1/2)] } =
    [.val (.flt (1/2)), .val (.int 7), .val (.flt (1/2))] := by decide +kernel
/-- `PMetropolis([60, 62, 64], [2, 1], [0, 1])`: 60 60 · | 62 · · | 64 64 · | again (short lists extended cyclically). -/
example : clsOuts stepMetropolis (stepF 5) 10 []
    { n2 := 2, buf := [.int 60, .int 62, .int 64], buf2 := [.int 2, .int 1, .int 0, .int 1] } =
    [.val (.int 60), .val (.int 60), .val Val.none, .val (.int 62), .val Val.none, .val Val.none,
     .val (.int 64), .val (.int 64), .val Val.none, .val (.int 60)] := by decide +kernel
/-- `PSequenceAction([1, 2, 3], rotate, 3)` = `[1,2,3] ++ [2,3,1] ++ [3,1,2]`, then StopIteration. -/
example : outs 10 11 (.node .sequenceAction [c 3, c 1, c 2, c 3] { n0 := 2 }) =
    [.val (.int 1), .val (.int 2), .val (.int 3), .val (.int 2), .val (.int 3), .val (.int 1),
     .val (.int 3), .val (.int 1), .val (.int 2), .stop, .stop] := by decide +kernel
/-- `PPatternGeneratorAction(lambda: PSequence([4, 5], 2))` -/
example : clsOuts stepPga (stepF 5) 9 [] { n0 := 2, buf := [.int 4, .int 5] } =
    [.val (.int 4), .val (.int 5), .val (.int 4), .val (.int 5), .val (.int 4), .val (.int 5), .val (.int 4), .val (.int 5),
     .val (.int 4)] := by decide +kernel
end Example

end IsobarV.C10Ext2
