/-
C17 — a failing track cannot take the rest of the performance down.
-/
import IsobarV.Sched.Fields
import IsobarV.Props.C02
import IsobarV.Props.C07

namespace IsobarV.C17
open IsobarV.Sched

theorem foldl_fireOne_cfg (as : List PAct) (tl : TL) : SameCfg tl (as.foldl fireOne tl) := by
  induction as generalizing tl with
  | nil => exact SameCfg.refl _
  | cons a as ih =>
    have h1 : SameCfg tl (fireOne tl a) := by
      unfold fireOne; split <;> first | exact SameCfg.refl _ | exact ⟨rfl, rfl, rfl⟩
    exact h1.trans (ih _)

/-- **Tolerant mode never lets a track's exception escape the track phase** — for every snapshot,
    every fault site (pattern evaluation, event construction, any voice of the device's note-on,
    control, program change), every number and order of tracks. -/
theorem tolerant_never_raises (W : World) (ids : List Nat) (tl : TL) (htol : tl.tolerant = true) :
    (phaseTracks W tl ids).res ≠ .raised := by
  induction ids generalizing tl with
  | nil => simp [phaseTracks]
  | cons tid rest ih =>
    simp only [phaseTracks]
    split
    · simp
    · simp only [htol, if_true]
      apply ih
      have := (tickTrack_cfg W tl tid).trans (sameCfg_removeTrack (tickTrack W tl tid).tl tid)
      rw [this.2.1]; exact htol
    · apply ih
      have := (tickTrack_cfg W tl tid).trans (dropFinished_cfg (tickTrack W tl tid).tl tid)
      rw [this.2.1]; exact htol

/-- … so **the timeline keeps ticking and its time advances by exactly one tick per tick** (unless it
    stops because it is done), whatever fails inside the tracks. -/
theorem tolerant_time_advances (W : World) (tl : TL) (htol : tl.tolerant = true)
    (hdom : (tickTL W tl).res ≠ .diverged) :
    ((tickTL W tl).res = .ok ∧ (tickTL W tl).tl.now = tl.now + 1) ∨
    ((tickTL W tl).res = .stopIteration ∧ (tickTL W tl).tl.now = tl.now) := by
  have hcfg : (fireActions (phaseOffs tl)).tolerant = true := by
    have := foldl_fireOne_cfg ((phaseOffs tl).actions.filter (PAct.due (phaseOffs tl))) (phaseOffs tl)
    simp only [fireActions]; rw [this.2.1]; simpa [phaseOffs] using htol
  have hnow : (fireActions (phaseOffs tl)).now = tl.now := by
    have := foldl_fireOne_cfg ((phaseOffs tl).actions.filter (PAct.due (phaseOffs tl))) (phaseOffs tl)
    simp only [fireActions]; rw [this.2.2]; simp [phaseOffs]
  have hnr := tolerant_never_raises W ((fireActions (phaseOffs tl)).tracks.map Track.id) _ hcfg
  have hres := phaseTracks_res W ((fireActions (phaseOffs tl)).tracks.map Track.id) (fireActions (phaseOffs tl))
  have hnow2 := (phaseTracks_cfg W ((fireActions (phaseOffs tl)).tracks.map Track.id) (fireActions (phaseOffs tl))).2.2
  unfold tickTL at hdom ⊢
  simp only [] at hdom ⊢
  generalize phaseTracks W (fireActions (phaseOffs tl)) ((fireActions (phaseOffs tl)).tracks.map Track.id) = r at *
  unfold endOfTick at hdom ⊢
  rcases hres with hr | hr | hr
  · simp only [hr] at hdom ⊢
    split
    · right; exact ⟨rfl, by rw [hnow2, hnow]⟩
    · left; exact ⟨rfl, by simp [hnow2, hnow]⟩
  · exact absurd hr hnr
  · simp [hr] at hdom

/-- **Intolerant mode: the same exception propagates to the caller of `tick()`.** -/
theorem fault_propagates (W : World) (tl : TL) (tid : Nat) (rest : List Nat) (hint : tl.tolerant = false)
    (hraise : (tickTrack W tl tid).out = .raised) :
    (phaseTracks W tl (tid :: rest)).res = .raised ∧
    (phaseTracks W tl (tid :: rest)).calls = (tickTrack W tl tid).calls := by
  simp [phaseTracks, hraise, hint]

/-- **Tolerant mode: the failing track — and only it — is removed, its sounding notes are released,
    and every later track of the snapshot is still ticked in the same tick.** -/
theorem fault_contained_step (W : World) (tl : TL) (tid : Nat) (rest : List Nat) (htol : tl.tolerant = true)
    (hraise : (tickTrack W tl tid).out = .raised) :
    phaseTracks W tl (tid :: rest) =
      { tl := (phaseTracks W ((tickTrack W tl tid).tl.removeTrack tid) rest).tl,
        calls := (tickTrack W tl tid).calls ++ flushOf (tickTrack W tl tid).tl tid ++
                 (phaseTracks W ((tickTrack W tl tid).tl.removeTrack tid) rest).calls,
        res := (phaseTracks W ((tickTrack W tl tid).tl.removeTrack tid) rest).res } := by
  simp [phaseTracks, hraise, htol]

/-- **An exception inside a user action callback never stops its track, in either mode**: neither an
    exception raised by the callback itself nor one raised by a timeline call it makes escapes the
    event; the track is not marked as stopped. -/
theorem callback_exception_swallowed (tl : TL) (t : Track) (d : Nat) (ops : List Op) (out : Outcome)
    (h : out = .exc ∨ (applyOps tl ops).res ≠ .ok) (hact : t.muted = false) :
    (performEvent tl t d true (.action ops out)).raised = false ∧
    (performEvent tl t d true (.action ops out)).stopped = false := by
  simp only [performEvent, hact]
  simp only [Bool.false_eq_true]
  rcases h with rfl | h
  · simp
  · cases hr : (applyOps tl ops).res <;> simp_all

/-- **A StopIteration raised by the callback ends that track as documented**: it escapes the event
    (`stopped`), and the end-of-tick bookkeeping then marks the track finished as soon as none of its
    notes is sounding (`C06.finished_iff`), upon which it is removed (`C06.removal_rule`). -/
theorem callback_stop_ends_track (tl : TL) (t : Track) (d : Nat) (ops : List Op)
    (hok : (applyOps tl ops).res = .ok) (hact : t.muted = false) :
    (performEvent tl t d true (.action ops .stop)).stopped = true ∧
    (performEvent tl t d true (.action ops .stop)).raised = false := by
  simp [performEvent, hact, hok]

/-- **Containment.**  Tolerant mode, tracks that do not call the timeline API: with a failing track
    `bad` anywhere in the scheduling order, (1) the event phase is the other tracks' phase with
    `bad`'s own contribution (its calls up to the fault, then the release of its notes) spliced in at
    its place, (2) the tracks left in the timeline are exactly those left by the run WITHOUT `bad`,
    (3) the run without `bad` is the concatenation of the two halves — so every other track's output
    and state are identical to a run without the failing track, for every position of `bad`, every
    number of healthy tracks, every fault site and event index. -/
theorem fault_isolated (W : World) (q : Nat) (ts1 ts2 : List Track) (bad : Track)
    (hdom : ∀ t ∈ ts1 ++ bad :: ts2, (soloTick W q t).out ≠ .diverged)
    (hraise : (soloTick W q bad).out = .raised) :
    (soloPhase W q true (ts1 ++ bad :: ts2)).calls =
      (soloPhase W q true ts1).calls ++ C07.contribution W q bad ++ (soloPhase W q true ts2).calls ∧
    (soloPhase W q true (ts1 ++ bad :: ts2)).tracks = (soloPhase W q true (ts1 ++ ts2)).tracks ∧
    (soloPhase W q true (ts1 ++ ts2)).calls = (soloPhase W q true ts1).calls ++ (soloPhase W q true ts2).calls ∧
    (soloPhase W q true (ts1 ++ bad :: ts2)).res = .ok := by
  have h1 : ∀ t ∈ ts1, (soloTick W q t).out ≠ .diverged := fun t ht => hdom t (by simp [ht])
  have h2 : ∀ t ∈ ts2, (soloTick W q t).out ≠ .diverged := fun t ht => hdom t (by simp [ht])
  have h12 : ∀ t ∈ ts1 ++ ts2, (soloTick W q t).out ≠ .diverged := by
    intro t ht; simp only [List.mem_append] at ht; rcases ht with ht | ht
    · exact h1 t ht
    · exact h2 t ht
  obtain ⟨a1, a2, a3⟩ := C07.event_phase_is_merge W q true _ hdom (Or.inl rfl)
  obtain ⟨b1, b2, _⟩ := C07.event_phase_is_merge W q true ts1 h1 (Or.inl rfl)
  obtain ⟨c1, c2, _⟩ := C07.event_phase_is_merge W q true ts2 h2 (Or.inl rfl)
  obtain ⟨d1, d2, _⟩ := C07.event_phase_is_merge W q true (ts1 ++ ts2) h12 (Or.inl rfl)
  have hsurv : C07.survivor W q bad = none := by simp [C07.survivor, hraise]
  refine ⟨?_, ?_, ?_, a3⟩
  · rw [a1, b1, c1]; simp
  · rw [a2, d2]; simp [List.filterMap_append, hsurv]
  · rw [d1, b1, c1]; simp

end IsobarV.C17
