/-
C10 — deterministic library patterns match their reference definitions: PSequence, PConcatenate, PSeries,
PRange, PGeom, PImpulse, PLoop, PPingPong, PStutter, PSubsequence, PCreep.

Every theorem is stated for an ARBITRARY semantics `rec` of the sub-patterns: inputs are described by their
outcomes under `rec` (`recOuts rec n kid`), constant parameters by `ConstUnder rec kid v` (which holds for
`Pat.const v` under every `stepF (fuel + 1)`).  So they hold on nested combinations of patterns.
-/
import IsobarV.Pat.Lemmas

namespace IsobarV.C10Seq1
open IsobarV.Pat

/-! ### Generic tools -/

/-- The kid `k` is the constant `v` under `rec`: it yields `v` and is not changed by being read. -/
def ConstUnder (rec : Rec) (k : Pat) (v : Val) : Prop := rec k = { out := .val v, p := k }

/-- A `PConstant` (or a plain scalar) is constant under the real semantics. -/
theorem constUnder_stepF (fuel : Nat) (v : Val) : ConstUnder (stepF (fuel + 1)) (Pat.const v) v := rfl

theorem stepKid_const {rec : Rec} {kids : List Pat} {i : Nat} {k : Pat} {v : Val} (hk : kids[i]? = some k)
    (hc : ConstUnder rec k v) : stepKid rec kids i = (.val v, kids) := by
  unfold ConstUnder at hc
  rw [stepKid_get rec kids i k hk, hc]
  simp only []
  rw [set_same_local]
  exact hk
where
  set_same_local {α : Type} {l : List α} {i : Nat} {x : α} (h : l[i]? = some x) : l.set i x = l := by
    induction l generalizing i with
    | nil => rfl
    | cons y ys ih =>
      cases i with
      | zero => simp at h; simp [h]
      | succ j => simp at h; simp [ih h]

theorem range_succ_map {β : Type} (f : Nat → β) (n : Nat) :
    (List.range (n + 1)).map f = f 0 :: (List.range n).map (fun i => f (i + 1)) := by
  rw [List.range_succ_eq_map]; simp [List.map_map, Function.comp_def]

/-- Splitting the hypothesis on an input stream: first outcome and the rest. -/
theorem recOuts_stream {rec : Rec} {n : Nat} {p : Pat} {g : Nat → Out}
    (h : recOuts rec (n + 1) p = (List.range (n + 1)).map g) :
    (rec p).out = g 0 ∧ recOuts rec n (rec p).p = (List.range n).map (fun i => g (i + 1)) := by
  rw [range_succ_map] at h
  simp only [recOuts, List.cons.injEq] at h
  exact h

/-- The first `n` outcomes are a prefix of the first `n + m`. -/
theorem clsOuts_take (step : ClsStep) (rec : Rec) (n m : Nat) (kids : List Pat) (st : St) :
    clsOuts step rec n kids st = (clsOuts step rec (n + m) kids st).take n := by
  induction n generalizing kids st with
  | zero => simp [clsOuts]
  | succ n ih =>
    have : n + 1 + m = (n + m) + 1 := by omega
    rw [this]
    simp only [clsOuts, List.take_succ_cons]
    rw [ih]

/-- State after `n` steps. -/
def clsAfter (step : ClsStep) (rec : Rec) : Nat → List Pat → St → List Pat × St
  | 0, kids, st => (kids, st)
  | n + 1, kids, st => clsAfter step rec n (step rec kids st).kids (step rec kids st).st

theorem clsOuts_add (step : ClsStep) (rec : Rec) (m n : Nat) (kids : List Pat) (st : St) :
    clsOuts step rec (m + n) kids st =
      clsOuts step rec m kids st ++ clsOuts step rec n (clsAfter step rec m kids st).1 (clsAfter step rec m kids st).2 := by
  induction m generalizing kids st with
  | zero => simp [clsOuts, clsAfter]
  | succ m ih =>
    have : m + 1 + n = (m + n) + 1 := by omega
    rw [this]
    simp only [clsOuts, clsAfter, List.cons_append]
    rw [ih]

/-! ### Python numbers -/

theorem numCmp_ge_int (a b : Int) : numCmp .ge (Val.int a) (Val.int b) = some (decide (b ≤ a)) := by
  simp [numCmp, Atom.toNum, cmpOp, Rat.intCast_le_intCast]

theorem pyAdd_int (a b : Int) : pyBin .add (Val.int a) (Val.int b) = .val (Val.int (a + b)) := rfl
theorem pyAdd_flt (a b : Rat) : pyBin .add (Val.flt a) (Val.flt b) = .val (Val.flt (a + b)) := rfl
theorem pyMul_int (a b : Int) : pyBin .mul (Val.int a) (Val.int b) = .val (Val.int (a * b)) := rfl
theorem pyMul_flt (a b : Rat) : pyBin .mul (Val.flt a) (Val.flt b) = .val (Val.flt (a * b)) := rfl

/-! ### Progressions: PSeries, PGeom, PRange -/

/-- The running accumulation `x, x ⊕ d₀, (x ⊕ d₀) ⊕ d₁, …` of a parameter stream. -/
def accum {α : Type} (f : α → α → α) (x : α) (ds : Nat → α) : Nat → α
  | 0 => x
  | i + 1 => accum f (f x (ds 0)) (fun j => ds (j + 1)) i

/-- Once `count` has reached `length`, PSeries ends for good (with a constant `length`). -/
theorem series_stopped (rec : Rec) (len stp : Pat) (L : Int) (hl : ConstUnder rec len (Val.int L)) (n : Nat) (st : St)
    (hc : L ≤ st.n0) : clsOuts stepSeries rec n [len, stp] st = List.replicate n .stop := by
  induction n with
  | zero => rfl
  | succ n ih =>
    have h0 : stepKid rec [len, stp] 0 = (.val (Val.int L), [len, stp]) := stepKid_const (by simp) hl
    have hs : stepSeries rec [len, stp] st = { out := .stop, kids := [len, stp], st := st } := by
      simp [stepSeries, h0, numCmp_ge_int, hc]
    simp only [clsOuts, hs, List.replicate_succ]
    rw [ih]

/-- **PSeries, general form.**  With a constant `length = L` and a `step` pattern yielding `ds 0, ds 1, …`
    the `i`-th output (`i < L`) is `start ⊕ ds 0 ⊕ … ⊕ ds (i-1)`; from `i = L` on the series has ended.
    `ι` embeds the number type (`Val.int` or `Val.flt`), `f` is its addition. -/
theorem series_reference_gen {α : Type} (ι : α → Val) (f : α → α → α)
    (hf : ∀ x y, pyBin .add (ι x) (ι y) = .val (ι (f x y)))
    (rec : Rec) (len : Pat) (L : Int) (hl : ConstUnder rec len (Val.int L)) (n : Nat) :
    ∀ (stp : Pat) (ds : Nat → α) (a : α) (st : St) (c : Int),
      recOuts rec n stp = (List.range n).map (fun i => .val (ι (ds i))) → st.v1 = ι a → st.n0 = c →
      clsOuts stepSeries rec n [len, stp] st =
        (List.range n).map (fun (i : Nat) => if c + (i : Int) < L then .val (ι (accum f a ds i)) else .stop) := by
  induction n with
  | zero => intros; rfl
  | succ n ih =>
    intro stp ds a st c hs h1 h0
    by_cases hc : c < L
    · obtain ⟨e1, e2⟩ := recOuts_stream hs
      have k0 : stepKid rec [len, stp] 0 = (.val (Val.int L), [len, stp]) := stepKid_const (by simp) hl
      have k1 : stepKid rec [len, stp] 1 = (.val (ι (ds 0)), [len, (rec stp).p]) := by simp [stepKid, e1]
      have hstep : stepSeries rec [len, stp] st =
          { out := .val (ι a), kids := [len, (rec stp).p], st := { st with v1 := ι (f a (ds 0)), n0 := st.n0 + 1 } } := by
        have : ¬ L ≤ st.n0 := by omega
        simp [stepSeries, k0, k1, numCmp_ge_int, this, h1, hf]
      rw [range_succ_map]
      simp only [clsOuts, hstep]
      rw [ih (rec stp).p (fun j => ds (j + 1)) (f a (ds 0)) _ (c + 1) e2 rfl (by simp [h0])]
      simp only [accum, Int.natCast_zero, Int.add_zero, hc, if_true, List.cons.injEq, true_and]
      apply List.map_congr_left
      intro i _
      have : c + 1 + (i : Int) = c + ((i + 1 : Nat) : Int) := by omega
      rw [this]
    · have hL : L ≤ st.n0 := by omega
      rw [series_stopped rec len stp L hl (n + 1) st hL]
      symm
      rw [List.eq_replicate_iff]
      refine ⟨by simp, ?_⟩
      intro o ho
      simp only [List.mem_map, List.mem_range] at ho
      obtain ⟨i, _, rfl⟩ := ho
      have : ¬ c + (i : Int) < L := by omega
      simp [this]

theorem accum_add_int (a d : Int) (i : Nat) : accum (· + ·) a (fun _ => d) i = a + (i : Int) * d := by
  induction i generalizing a with
  | zero => simp [accum]
  | succ i ih => simp only [accum]; rw [ih]; grind

theorem accum_add_rat (a d : Rat) (i : Nat) : accum (· + ·) a (fun _ => d) i = a + (i : Rat) * d := by
  induction i generalizing a with
  | zero => simp only [accum]; grind
  | succ i ih => simp only [accum]; rw [ih]; grind

theorem recOuts_const {rec : Rec} {k : Pat} {v : Val} (h : ConstUnder rec k v) (n : Nat) :
    recOuts rec n k = (List.range n).map (fun _ => .val v) := by
  unfold ConstUnder at h
  induction n with
  | zero => rfl
  | succ n ih => rw [range_succ_map]; simp only [recOuts, h]; rw [ih]

/-- **PSeries(start, step, length), integers, closed form**: `start + i·step` for `i < length`, then the end. -/
theorem series_reference_int (rec : Rec) (len stp : Pat) (L a d : Int) (hl : ConstUnder rec len (Val.int L))
    (hs : ConstUnder rec stp (Val.int d)) (n : Nat) :
    clsOuts stepSeries rec n [len, stp] { v0 := Val.int a, v1 := Val.int a } =
      (List.range n).map (fun (i : Nat) => if (i : Int) < L then .val (Val.int (a + i * d)) else .stop) := by
  rw [series_reference_gen Val.int (· + ·) pyAdd_int rec len L hl n stp (fun _ => d) a _ 0 (recOuts_const hs n) rfl rfl]
  apply List.map_congr_left
  intro i _
  simp [accum_add_int]

/-- **PSeries, floats, closed form**: `start + i·step` for `i < length`. -/
theorem series_reference_flt (rec : Rec) (len stp : Pat) (L : Int) (a d : Rat) (hl : ConstUnder rec len (Val.int L))
    (hs : ConstUnder rec stp (Val.flt d)) (n : Nat) :
    clsOuts stepSeries rec n [len, stp] { v0 := Val.flt a, v1 := Val.flt a } =
      (List.range n).map (fun (i : Nat) => if (i : Int) < L then .val (Val.flt (a + i * d)) else .stop) := by
  rw [series_reference_gen Val.flt (· + ·) pyAdd_flt rec len L hl n stp (fun _ => d) a _ 0 (recOuts_const hs n) rfl rfl]
  apply List.map_congr_left
  intro i _
  simp [accum_add_rat]

/-- **PSeries with a pattern-valued step** (integers): the outputs are the running sums of the step stream. -/
theorem series_reference_varying (rec : Rec) (len stp : Pat) (L a : Int) (ds : Nat → Int)
    (hl : ConstUnder rec len (Val.int L)) (n : Nat)
    (hs : recOuts rec n stp = (List.range n).map (fun i => .val (Val.int (ds i)))) :
    clsOuts stepSeries rec n [len, stp] { v0 := Val.int a, v1 := Val.int a } =
      (List.range n).map (fun (i : Nat) => if (i : Int) < L then .val (Val.int (accum (· + ·) a ds i)) else .stop) := by
  rw [series_reference_gen Val.int (· + ·) pyAdd_int rec len L hl n stp ds a _ 0 hs rfl rfl]
  apply List.map_congr_left
  intro i _
  simp

example : clsOuts stepSeries (stepF 5) 6 [Pat.const (.int 4), Pat.const (.int 3)] { v0 := .int 10, v1 := .int 10 } =
    [.val (.int 10), .val (.int 13), .val (.int 16), .val (.int 19), .stop, .stop] := by decide
example : clsOuts stepSeries (stepF 5) 5
    [Pat.const (.int 9), .node .seq [Pat.const (.int 1), Pat.const (.int 10)] { n0 := -1 }] { v0 := .int 0, v1 := .int 0 } =
    [.val (.int 0), .val (.int 1), .val (.int 11), .val (.int 12), .val (.int 22)] := by decide

theorem geom_stopped (rec : Rec) (m : Pat) (n : Nat) (st : St) (hc : st.n1 ≤ st.n0) :
    clsOuts stepGeom rec n [m] st = List.replicate n .stop := by
  induction n with
  | zero => rfl
  | succ n ih =>
    have hs : stepGeom rec [m] st = { out := .stop, kids := [m], st := st } := by simp [stepGeom, hc]
    simp only [clsOuts, hs, List.replicate_succ]
    rw [ih]

/-- **PGeom, general form.**  With a `multiply` pattern yielding `qs 0, qs 1, …` the `i`-th output
    (`i < length`) is `start ⊗ qs 0 ⊗ … ⊗ qs (i-1)`; from `i = length` on the pattern has ended. -/
theorem geom_reference_gen {α : Type} (ι : α → Val) (f : α → α → α)
    (hf : ∀ x y, pyBin .mul (ι x) (ι y) = .val (ι (f x y))) (rec : Rec) (L : Int) (n : Nat) :
    ∀ (m : Pat) (qs : Nat → α) (a : α) (st : St) (c : Int),
      recOuts rec n m = (List.range n).map (fun i => .val (ι (qs i))) → st.v1 = ι a → st.n0 = c → st.n1 = L →
      clsOuts stepGeom rec n [m] st =
        (List.range n).map (fun (i : Nat) => if c + (i : Int) < L then .val (ι (accum f a qs i)) else .stop) := by
  induction n with
  | zero => intros; rfl
  | succ n ih =>
    intro m qs a st c hs h1 h0 hL
    by_cases hc : c < L
    · obtain ⟨e1, e2⟩ := recOuts_stream hs
      have k0 : stepKid rec [m] 0 = (.val (ι (qs 0)), [(rec m).p]) := by simp [stepKid, e1]
      have hstep : stepGeom rec [m] st =
          { out := .val (ι a), kids := [(rec m).p], st := { st with v1 := ι (f a (qs 0)), n0 := st.n0 + 1 } } := by
        have : ¬ st.n1 ≤ st.n0 := by omega
        simp [stepGeom, k0, this, h1, hf]
      rw [range_succ_map]
      simp only [clsOuts, hstep]
      rw [ih (rec m).p (fun j => qs (j + 1)) (f a (qs 0)) _ (c + 1) e2 rfl (by simp [h0]) (by simp [hL])]
      simp only [accum, Int.natCast_zero, Int.add_zero, hc, if_true, List.cons.injEq, true_and]
      apply List.map_congr_left
      intro i _
      have : c + 1 + (i : Int) = c + ((i + 1 : Nat) : Int) := by omega
      rw [this]
    · rw [geom_stopped rec m (n + 1) st (by omega)]
      symm
      rw [List.eq_replicate_iff]
      refine ⟨by simp, ?_⟩
      intro o ho
      simp only [List.mem_map] at ho
      obtain ⟨i, _, rfl⟩ := ho
      have : ¬ c + (i : Int) < L := by omega
      simp [this]

theorem accum_mul_int (a q : Int) (i : Nat) : accum (· * ·) a (fun _ => q) i = a * q ^ i := by
  induction i generalizing a with
  | zero => simp [accum]
  | succ i ih => simp only [accum]; rw [ih]; grind

theorem accum_mul_rat (a q : Rat) (i : Nat) : accum (· * ·) a (fun _ => q) i = a * q ^ i := by
  induction i generalizing a with
  | zero => simp only [accum]; grind
  | succ i ih => simp only [accum]; rw [ih]; grind

/-- **PGeom(start, multiply, length), integers, closed form**: `start · multiplyⁱ` for `i < length`. -/
theorem geom_reference_int (rec : Rec) (m : Pat) (L a q : Int) (hm : ConstUnder rec m (Val.int q)) (n : Nat) :
    clsOuts stepGeom rec n [m] { v0 := Val.int a, v1 := Val.int a, n1 := L } =
      (List.range n).map (fun (i : Nat) => if (i : Int) < L then .val (Val.int (a * q ^ i)) else .stop) := by
  rw [geom_reference_gen Val.int (· * ·) pyMul_int rec L n m (fun _ => q) a _ 0 (recOuts_const hm n) rfl rfl rfl]
  apply List.map_congr_left
  intro i _
  simp [accum_mul_int]

/-- **PGeom, floats, closed form**. -/
theorem geom_reference_flt (rec : Rec) (m : Pat) (L : Int) (a q : Rat) (hm : ConstUnder rec m (Val.flt q)) (n : Nat) :
    clsOuts stepGeom rec n [m] { v0 := Val.flt a, v1 := Val.flt a, n1 := L } =
      (List.range n).map (fun (i : Nat) => if (i : Int) < L then .val (Val.flt (a * q ^ i)) else .stop) := by
  rw [geom_reference_gen Val.flt (· * ·) pyMul_flt rec L n m (fun _ => q) a _ 0 (recOuts_const hm n) rfl rfl rfl]
  apply List.map_congr_left
  intro i _
  simp [accum_mul_rat]

/-- **PGeom with a pattern-valued multiplier** (integers): the running products of the multiplier stream. -/
theorem geom_reference_varying (rec : Rec) (m : Pat) (L a : Int) (qs : Nat → Int) (n : Nat)
    (hs : recOuts rec n m = (List.range n).map (fun i => .val (Val.int (qs i)))) :
    clsOuts stepGeom rec n [m] { v0 := Val.int a, v1 := Val.int a, n1 := L } =
      (List.range n).map (fun (i : Nat) => if (i : Int) < L then .val (Val.int (accum (· * ·) a qs i)) else .stop) := by
  rw [geom_reference_gen Val.int (· * ·) pyMul_int rec L n m qs a _ 0 hs rfl rfl rfl]
  apply List.map_congr_left
  intro i _
  simp

example : clsOuts stepGeom (stepF 5) 6 [Pat.const (.int 3)] { v0 := .int 2, v1 := .int 2, n1 := 4 } =
    [.val (.int 2), .val (.int 6), .val (.int 18), .val (.int 54), .stop, .stop] := by decide

/-- PRange's end test on the current value `y`: `(step > 0 and y >= end) or (step < 0 and y <= end)`. -/
def rangeEnded (e d y : Rat) : Prop := (0 < d ∧ e ≤ y) ∨ (d < 0 ∧ y ≤ e)

instance (e d y : Rat) : Decidable (rangeEnded e d y) := by unfold rangeEnded; infer_instance

section RangeGen
variable {α : Type} [Add α] (ι : α → Val) (toR : α → Rat)
  (hcmp : ∀ op x y, numCmp op (ι x) (ι y) = some (cmpOp op (toR x) (toR y)))
  (hcmp0 : ∀ op x, numCmp op (ι x) (Val.int 0) = some (cmpOp op (toR x) 0))
  (hadd : ∀ x y, pyBin .add (ι x) (ι y) = .val (ι (x + y)))
  (hR : ∀ x y, toR (x + y) = toR x + toR y)

include hcmp hcmp0 hadd in
theorem range_step (rec : Rec) (e' d' : Pat) (e d : α) (he : ConstUnder rec e' (ι e)) (hd : ConstUnder rec d' (ι d))
    (x : α) (st : St) (h1 : st.v1 = ι x) :
    stepRange rec [e', d'] st =
      if rangeEnded (toR e) (toR d) (toR x) then { out := .stop, kids := [e', d'], st := st }
      else { out := .val (ι x), kids := [e', d'], st := { st with v1 := ι (x + d) } } := by
  have k0 : stepKid rec [e', d'] 0 = (.val (ι e), [e', d']) := stepKid_const (by simp) he
  have k1 : stepKid rec [e', d'] 1 = (.val (ι d), [e', d']) := stepKid_const (by simp) hd
  simp only [stepRange, rangeEmit, k0, k1, hcmp, hcmp0, h1, hadd, cmpOp, rangeEnded]
  by_cases hp : 0 < toR d
  · have hn : ¬ toR d < 0 := by grind
    by_cases hq : toR e ≤ toR x <;> simp [hp, hq, hn]
  · by_cases hn : toR d < 0
    · by_cases hq : toR x ≤ toR e <;> simp [hp, hq, hn]
    · simp [hp, hn]

include hR in
theorem accum_mono_up (d : α) (hd : 0 < toR d) (x : α) (i : Nat) :
    toR x ≤ toR (accum (· + ·) x (fun _ => d) i) := by
  induction i generalizing x with
  | zero => simp only [accum]; grind
  | succ i ih =>
    simp only [accum]
    have := ih (x + d)
    rw [hR] at this
    grind

include hR in
theorem accum_mono_down (d : α) (hd : toR d < 0) (x : α) (i : Nat) :
    toR (accum (· + ·) x (fun _ => d) i) ≤ toR x := by
  induction i generalizing x with
  | zero => simp only [accum]; grind
  | succ i ih =>
    simp only [accum]
    have := ih (x + d)
    rw [hR] at this
    grind

include hcmp hcmp0 hadd in
theorem range_stopped (rec : Rec) (e' d' : Pat) (e d : α) (he : ConstUnder rec e' (ι e)) (hd : ConstUnder rec d' (ι d))
    (x : α) (n : Nat) (st : St) (h1 : st.v1 = ι x) (hend : rangeEnded (toR e) (toR d) (toR x)) :
    clsOuts stepRange rec n [e', d'] st = List.replicate n .stop := by
  induction n with
  | zero => rfl
  | succ n ih =>
    simp only [clsOuts, range_step ι toR hcmp hcmp0 hadd rec e' d' e d he hd x st h1, hend, if_true, List.replicate_succ]
    rw [ih]

include hcmp hcmp0 hadd hR in
/-- **PRange, general number type**: the values `start, start + step, …` until the end test fires; then the
    range has ended for good. -/
theorem range_reference_gen (rec : Rec) (e' d' : Pat) (e d : α) (he : ConstUnder rec e' (ι e)) (hd : ConstUnder rec d' (ι d))
    (n : Nat) : ∀ (x : α) (st : St), st.v1 = ι x →
      clsOuts stepRange rec n [e', d'] st =
        (List.range n).map (fun i =>
          if rangeEnded (toR e) (toR d) (toR (accum (· + ·) x (fun _ => d) i)) then .stop
          else .val (ι (accum (· + ·) x (fun _ => d) i))) := by
  induction n with
  | zero => intros; rfl
  | succ n ih =>
    intro x st h1
    by_cases hend : rangeEnded (toR e) (toR d) (toR x)
    · rw [range_stopped ι toR hcmp hcmp0 hadd rec e' d' e d he hd x (n + 1) st h1 hend]
      symm
      rw [List.eq_replicate_iff]
      refine ⟨by simp, ?_⟩
      intro o ho
      simp only [List.mem_map] at ho
      obtain ⟨i, _, rfl⟩ := ho
      have : rangeEnded (toR e) (toR d) (toR (accum (· + ·) x (fun _ => d) i)) := by
        rcases hend with ⟨h1, h2⟩ | ⟨h1, h2⟩
        · have := accum_mono_up toR hR d h1 x i
          exact Or.inl ⟨h1, by grind⟩
        · have := accum_mono_down toR hR d h1 x i
          exact Or.inr ⟨h1, by grind⟩
      simp [this]
    · rw [range_succ_map]
      simp only [clsOuts, range_step ι toR hcmp hcmp0 hadd rec e' d' e d he hd x st h1, hend, if_false]
      rw [ih (x + d) _ rfl]
      simp only [accum, hend, if_false]
      rfl
end RangeGen

theorem rangeEnded_int (e d y : Int) :
    rangeEnded (e : Rat) (d : Rat) (y : Rat) ↔ ((0 < d ∧ e ≤ y) ∨ (d < 0 ∧ y ≤ e)) := by
  simp [rangeEnded, Rat.intCast_pos, Rat.intCast_neg_iff, Rat.intCast_le_intCast]

/-- **PRange(start, end, step), integers, closed form**: `start + i·step` as long as it has not reached
    (`step > 0`) / fallen to (`step < 0`) `end`; then StopIteration for ever.  (`step = 0`: endless.) -/
theorem range_reference_int (rec : Rec) (e' d' : Pat) (a e d : Int) (he : ConstUnder rec e' (Val.int e))
    (hd : ConstUnder rec d' (Val.int d)) (n : Nat) :
    clsOuts stepRange rec n [e', d'] { v0 := Val.int a, v1 := Val.int a } =
      (List.range n).map (fun (i : Nat) =>
        if (0 < d ∧ e ≤ a + i * d) ∨ (d < 0 ∧ a + i * d ≤ e) then .stop else .val (Val.int (a + i * d))) := by
  rw [range_reference_gen Val.int (fun x => (x : Rat)) (fun _ _ _ => rfl) (fun _ _ => rfl) pyAdd_int
    (fun x y => Rat.intCast_add x y) rec e' d' e d he hd n a _ rfl]
  apply List.map_congr_left
  intro i _
  simp only [accum_add_int, rangeEnded_int]

/-- **PRange, floats, closed form**. -/
theorem range_reference_flt (rec : Rec) (e' d' : Pat) (a e d : Rat) (he : ConstUnder rec e' (Val.flt e))
    (hd : ConstUnder rec d' (Val.flt d)) (n : Nat) :
    clsOuts stepRange rec n [e', d'] { v0 := Val.flt a, v1 := Val.flt a } =
      (List.range n).map (fun (i : Nat) =>
        if (0 < d ∧ e ≤ a + i * d) ∨ (d < 0 ∧ a + i * d ≤ e) then .stop else .val (Val.flt (a + i * d))) := by
  rw [range_reference_gen Val.flt (fun x => x) (fun _ _ _ => rfl) (fun _ _ => rfl) pyAdd_flt
    (fun _ _ => rfl) rec e' d' e d he hd n a _ rfl]
  apply List.map_congr_left
  intro i _
  simp only [accum_add_rat, rangeEnded]

/-- For a positive integer step the outputs are exactly Python's `range(start, end, step)`: the `i`-th
    value exists iff `start + i·step < end`. -/
theorem range_reference_up (rec : Rec) (e' d' : Pat) (a e d : Int) (hpos : 0 < d) (he : ConstUnder rec e' (Val.int e))
    (hd : ConstUnder rec d' (Val.int d)) (n : Nat) :
    clsOuts stepRange rec n [e', d'] { v0 := Val.int a, v1 := Val.int a } =
      (List.range n).map (fun (i : Nat) => if a + i * d < e then .val (Val.int (a + i * d)) else .stop) := by
  rw [range_reference_int rec e' d' a e d he hd n]
  apply List.map_congr_left
  intro i _
  have hn : ¬ d < 0 := by omega
  by_cases h : a + i * d < e
  · have : ¬ e ≤ a + i * d := by omega
    simp [h, this, hn]
  · have : e ≤ a + i * d := by omega
    simp [h, this, hpos]

example : clsOuts stepRange (stepF 5) 6 [Pat.const (.int 9), Pat.const (.int 3)] { v0 := .int 1, v1 := .int 1 } =
    [.val (.int 1), .val (.int 4), .val (.int 7), .stop, .stop, .stop] := by decide
example : clsOuts stepRange (stepF 5) 5 [Pat.const (.int (-500)), Pat.const (.int (-250))] { v0 := .int 500, v1 := .int 500 } =
    [.val (.int 500), .val (.int 250), .val (.int 0), .val (.int (-250)), .stop] := by decide

/-! ### PImpulse -/

theorem impulse_reference_gen (rec : Rec) (per : Pat) (p : Int) (hp : ConstUnder rec per (Val.int p)) (h1 : 1 ≤ p) (n : Nat) :
    ∀ (st : St) (c : Int), st.n0 = c → 0 ≤ c → c ≤ p →
      clsOuts stepImpulse rec n [per] st =
        (List.range n).map (fun (i : Nat) => .val (Val.int (if (c + (i : Int)) % p = 0 then 1 else 0))) := by
  induction n with
  | zero => intros; rfl
  | succ n ih =>
    intro st c h0 hc0 hcp
    have k0 : stepKid rec [per] 0 = (.val (Val.int p), [per]) := stepKid_const (by simp) hp
    rw [range_succ_map]
    by_cases hge : p ≤ c
    · have hcp' : c = p := by omega
      have hstep : stepImpulse rec [per] st = { out := .val (Val.int 1), kids := [per], st := { st with n0 := 1 } } := by
        simp [stepImpulse, k0, numCmp_ge_int, h0, hge]
      simp only [clsOuts, hstep]
      rw [ih _ 1 rfl (by omega) h1]
      subst hcp'
      simp only [Int.natCast_zero, Int.add_zero, Int.emod_self, if_true, List.cons.injEq, true_and]
      apply List.map_congr_left
      intro i _
      have : c + ((i + 1 : Nat) : Int) = c + (1 + (i : Int)) := by omega
      rw [this, Int.add_emod_left]
    · have hstep : stepImpulse rec [per] st =
          { out := .val (Val.int (if st.n0 = 0 then 1 else 0)), kids := [per], st := { st with n0 := st.n0 + 1 } } := by
        simp [stepImpulse, k0, numCmp_ge_int, h0, hge]
      simp only [clsOuts, hstep]
      rw [ih _ (c + 1) (by simp [h0]) (by omega) (by omega)]
      have hmod : c % p = c := Int.emod_eq_of_lt hc0 (by omega)
      simp only [Int.natCast_zero, Int.add_zero, hmod, h0, List.cons.injEq, true_and]
      apply List.map_congr_left
      intro i _
      have : c + 1 + (i : Int) = c + ((i + 1 : Nat) : Int) := by omega
      rw [this]

/-- **PImpulse(period)**, `period ≥ 1`: a 1 at every multiple of `period`, otherwise 0. -/
theorem impulse_reference (rec : Rec) (per : Pat) (p : Int) (hp : ConstUnder rec per (Val.int p)) (h1 : 1 ≤ p) (n : Nat) :
    clsOuts stepImpulse rec n [per] {} =
      (List.range n).map (fun (i : Nat) => .val (Val.int (if (i : Int) % p = 0 then 1 else 0))) := by
  rw [impulse_reference_gen rec per p hp h1 n {} 0 rfl (by omega) (by omega)]
  apply List.map_congr_left
  intro i _
  simp

/-- `period ≤ 0`: every position restarts the period, the output is a constant 1. -/
theorem impulse_reference_nonpos (rec : Rec) (per : Pat) (p : Int) (hp : ConstUnder rec per (Val.int p)) (h0 : p ≤ 0) (n : Nat) :
    ∀ (st : St), 0 ≤ st.n0 → clsOuts stepImpulse rec n [per] st = List.replicate n (.val (Val.int 1)) := by
  induction n with
  | zero => intros; rfl
  | succ n ih =>
    intro st hc
    have k0 : stepKid rec [per] 0 = (.val (Val.int p), [per]) := stepKid_const (by simp) hp
    have hge : p ≤ st.n0 := by omega
    have hstep : stepImpulse rec [per] st = { out := .val (Val.int 1), kids := [per], st := { st with n0 := 1 } } := by
      simp [stepImpulse, k0, numCmp_ge_int, hge]
    simp only [clsOuts, hstep, List.replicate_succ]
    rw [ih _ (by simp)]

example : clsOuts stepImpulse (stepF 5) 7 [Pat.const (.int 3)] {} =
    [.val (.int 1), .val (.int 0), .val (.int 0), .val (.int 1), .val (.int 0), .val (.int 0), .val (.int 1)] := by decide

/-! ### Finite sequences followed by StopIteration -/

/-- The first `n` outcomes of a pattern that yields the values `l` and then raises StopIteration for ever. -/
def pad (n : Nat) (l : List Val) : List Out := (l.map Out.val ++ List.replicate n Out.stop).take n

theorem pad_zero (l : List Val) : pad 0 l = [] := by simp [pad]
theorem pad_cons (n : Nat) (x : Val) (l : List Val) : pad (n + 1) (x :: l) = .val x :: pad n l := by
  simp only [pad, List.map_cons, List.cons_append, List.take_succ_cons, List.cons.injEq, true_and]
  rw [List.replicate_succ', ← List.append_assoc, List.take_append_of_le_length]
  simp
theorem pad_nil (n : Nat) : pad n [] = List.replicate n .stop := by simp [pad]
theorem pad_length (n : Nat) (l : List Val) : (pad n l).length = n := by simp [pad]

/-! ### PLoop -/

/-- Replay phase: the input has been read (`values = vs`), `pos = p`, `loop_index = l`. -/
theorem loop_replay (rec : Rec) (k : Pat) (vs : List Val) (hv : vs ≠ []) (c : Int) (n : Nat) :
    ∀ (p : Nat) (l : Int) (st : St), st.n0 = c → st.n1 = p → st.n2 = l → st.n3 ≠ 0 → st.buf = vs → p ≤ vs.length →
      clsOuts stepLoop rec n [k] st = pad n (vs.drop p ++ (List.replicate (c - 1 - l).toNat vs).flatten) := by
  induction n with
  | zero => intros; simp [clsOuts, pad_zero]
  | succ n ih =>
    intro p l st h0 h1 h2 h3 hb hp
    have hstep : stepLoop rec [k] st = loopTail [k] st := by simp [stepLoop, h3]
    have hpos : st.n1.toNat = p := by rw [h1]; simp
    by_cases hlt : p < vs.length
    · -- inside a pass
      have hemit : loopTail [k] st = { out := .val vs[p], kids := [k], st := { st with n1 := (p : Int) + 1 } } := by
        have : ¬ vs.length ≤ p := by omega
        simp [loopTail, loopEmit, hb, this, List.getElem?_eq_getElem hlt, h1]
      simp only [clsOuts, hstep, hemit]
      rw [ih (p + 1) l _ (by simp [h0]) (by simp) (by simp [h2]) (by simp [h3]) (by simp [hb]) (by omega)]
      rw [List.drop_eq_getElem_cons hlt, List.cons_append, pad_cons]
    · have hpe : p = vs.length := by omega
      have hd : vs.drop p = [] := by rw [hpe]; simp
      have hlen : 0 < vs.length := List.length_pos_iff.mpr hv
      by_cases hl : c - 1 ≤ l
      · -- the last pass is over: StopIteration, nothing changes
        have hs : loopTail [k] st = { out := .stop, kids := [k], st := st } := by
          have : vs.length ≤ p := by omega
          simp [loopTail, hpos, hb, this, h2, h0, hl]
        have hz : (c - 1 - l).toNat = 0 := by omega
        simp only [clsOuts, hstep, hs]
        rw [ih p l st h0 h1 h2 h3 hb hp, hd, hz]
        simp [pad_nil, List.replicate_succ]
      · -- start the next pass
        obtain ⟨j, hj⟩ : ∃ j, (c - 1 - l).toNat = j + 1 := ⟨(c - 1 - l).toNat - 1, by omega⟩
        have hs : loopTail [k] st =
            { out := .val vs[0], kids := [k], st := { st with n2 := st.n2 + 1, n1 := ((0 : Nat) : Int) + 1 } } := by
          have h1' : vs.length ≤ p := by omega
          have h2' : ¬ (c - 1 ≤ l) := hl
          have h3' : ¬ vs.length = 0 := by omega
          simp [loopTail, loopEmit, hpos, hb, h1', h2, h0, h2', h3', List.getElem?_eq_getElem hlen]
        simp only [clsOuts, hstep, hs]
        rw [ih 1 (l + 1) _ (by simp [h0]) (by simp) (by simp [h2]) (by simp [h3]) (by simp [hb]) (by omega)]
        have hj' : (c - 1 - (l + 1)).toNat = j := by omega
        rw [hd, hj, hj', List.replicate_succ, List.flatten_cons, List.nil_append]
        have hv1 : vs = vs[0] :: vs.drop 1 := by
          cases vs with
          | nil => exact absurd rfl hv
          | cons x t => simp
        generalize (List.replicate j vs).flatten = F
        rw [show vs ++ F = vs[0] :: (vs.drop 1 ++ F) from by rw [← List.cons_append, ← hv1], pad_cons]

/-- An exhausted PLoop of an empty input. -/
theorem loop_empty_stopped (rec : Rec) (k : Pat) (n : Nat) (st : St) (h3 : st.n3 ≠ 0) (hb : st.buf = []) :
    clsOuts stepLoop rec n [k] st = List.replicate n .stop := by
  induction n with
  | zero => rfl
  | succ n ih =>
    have hs : stepLoop rec [k] st = { out := .stop, kids := [k], st := st } := by
      simp [stepLoop, loopTail, h3, hb]
    simp only [clsOuts, hs, List.replicate_succ]
    rw [ih]

/-- Reading phase: `buf` has been read, `r` is still to come from the input. -/
theorem loop_reading (rec : Rec) (c : Int) (n : Nat) :
    ∀ (r buf : List Val) (k : Pat) (st : St), st.n0 = c → st.n1 = buf.length → st.n2 = 0 → st.n3 = 0 → st.buf = buf →
      recOuts rec (r.length + 1) k = r.map Out.val ++ [.stop] →
      clsOuts stepLoop rec n [k] st = pad n (r ++ (List.replicate (c - 1).toNat (buf ++ r)).flatten) := by
  induction n with
  | zero => intros; simp [clsOuts, pad_zero]
  | succ n ih =>
    intro r buf k st h0 h1 h2 h3 hb hr
    cases r with
    | cons x r' =>
      simp only [List.length_cons, recOuts, List.map_cons, List.cons_append, List.cons.injEq] at hr
      have k0 : stepKid rec [k] 0 = (.val x, [(rec k).p]) := by simp [stepKid, hr.1]
      have hstep : stepLoop rec [k] st =
          { out := .val x, kids := [(rec k).p], st := { st with buf := buf ++ [x], n1 := (buf.length : Int) + 1 } } := by
        simp [stepLoop, loopEmit, h3, k0, hb, h1]
      simp only [clsOuts, hstep]
      rw [ih r' (buf ++ [x]) (rec k).p _ (by simp [h0]) (by simp) (by simp [h2]) (by simp [h3]) (by simp) hr.2]
      rw [List.cons_append, pad_cons]
      simp
    | nil =>
      simp only [List.length_nil, recOuts, List.map_nil, List.nil_append, List.cons.injEq, and_true] at hr
      have k0 : stepKid rec [k] 0 = (.stop, [(rec k).p]) := by simp [stepKid, hr]
      -- the step is the step of the replay phase
      have hstep : stepLoop rec [k] st = stepLoop rec [(rec k).p] { st with n3 := 1 } := by
        simp [stepLoop, h3, k0, loopTail, loopEmit]
      have hcl : clsOuts stepLoop rec (n + 1) [k] st = clsOuts stepLoop rec (n + 1) [(rec k).p] { st with n3 := 1 } := by
        simp only [clsOuts, hstep]
      rw [hcl]
      by_cases hv : buf = []
      · rw [loop_empty_stopped rec _ (n + 1) _ (by simp) (by simp [hb, hv])]
        subst hv
        simp [pad_nil]
      · have := loop_replay rec (rec k).p buf hv c (n + 1) buf.length 0 { st with n3 := 1 } (by simp [h0]) (by simp [h1])
          (by simp [h2]) (by simp) (by simp [hb]) (by omega)
        rw [this]
        simp

/-- **PLoop(input, count)**: a finite input yielding `vs` is repeated `max(count, 1)` times (the first pass
    is the input itself, read before `count` is looked at); an empty input gives an empty loop. -/
theorem loop_reference (rec : Rec) (inp : Pat) (vs : List Val) (c : Int) (n : Nat)
    (h : recOuts rec (vs.length + 1) inp = vs.map Out.val ++ [.stop]) :
    clsOuts stepLoop rec n [inp] { n0 := c } = pad n (List.replicate (max c 1).toNat vs).flatten := by
  rw [loop_reading rec c n vs [] inp { n0 := c } rfl rfl rfl rfl rfl h]
  have : (max c 1).toNat = (c - 1).toNat + 1 := by omega
  rw [this, List.replicate_succ, List.flatten_cons]
  simp

/-- An input that has not ended yet is passed through unchanged. -/
theorem loop_passthrough (rec : Rec) (n : Nat) :
    ∀ (vs buf : List Val) (k : Pat) (st : St), st.n1 = buf.length → st.n3 = 0 → st.buf = buf →
      recOuts rec n k = vs.map Out.val → clsOuts stepLoop rec n [k] st = vs.map Out.val := by
  induction n with
  | zero => intro vs _ _ _ _ _ _ h; simp [recOuts] at h; simp [clsOuts, h]
  | succ n ih =>
    intro vs buf k st h1 h3 hb hr
    cases vs with
    | nil => simp [recOuts] at hr
    | cons x vs =>
      simp only [recOuts, List.map_cons, List.cons.injEq] at hr
      have k0 : stepKid rec [k] 0 = (.val x, [(rec k).p]) := by simp [stepKid, hr.1]
      have hstep : stepLoop rec [k] st =
          { out := .val x, kids := [(rec k).p], st := { st with buf := buf ++ [x], n1 := (buf.length : Int) + 1 } } := by
        simp [stepLoop, loopEmit, h3, k0, hb, h1]
      simp only [clsOuts, hstep, List.map_cons]
      rw [ih vs (buf ++ [x]) (rec k).p _ (by simp) (by simp [h3]) (by simp) hr.2]

example : clsOuts stepLoop (stepF 5) 8 [.node .seq [Pat.const (.int 1), Pat.const (.int 4), Pat.const (.int 9)] { n0 := 1 }] { n0 := 2 } =
    [.val (.int 1), .val (.int 4), .val (.int 9), .val (.int 1), .val (.int 4), .val (.int 9), .stop, .stop] := by decide
example : clsOuts stepLoop (stepF 5) 3 [.node .seq [] { n0 := 1 }] { n0 := 3 } = [.stop, .stop, .stop] := by decide

/-- If after the values `E` the pattern has ended for good, its first `N` outcomes are `pad N E`. -/
theorem pad_of_prefix (step : ClsStep) (rec : Rec) (kids : List Pat) (st : St) (E : List Val)
    (h : ∀ n, clsOuts step rec (E.length + n) kids st = E.map Out.val ++ List.replicate n .stop) (N : Nat) :
    clsOuts step rec N kids st = pad N E := by
  rw [clsOuts_take step rec N E.length kids st, Nat.add_comm, h N, pad]

/-! ### PPingPong -/

theorem pingPong_stopped (rec : Rec) (k : Pat) (n : Nat) (st : St) (hL : 2 ≤ st.buf.length) (h1 : st.n1 = 1)
    (h3 : st.n0 ≤ st.n3) : clsOuts stepPingPong rec n [k] st = List.replicate n .stop := by
  induction n with
  | zero => rfl
  | succ n ih =>
    have hs : stepPingPong rec [k] st = { out := .stop, kids := [k], st := st } := by
      simp [stepPingPong, hL, h1, h3]
    simp only [clsOuts, hs, List.replicate_succ]
    rw [ih]

/-- Fewer than two values: they are played once. -/
theorem pingPong_short (rec : Rec) (k : Pat) (n : Nat) :
    ∀ (p : Nat) (st : St), st.buf.length < 2 → st.n1 = p → st.n2 = 1 →
      clsOuts stepPingPong rec n [k] st = pad n (st.buf.drop p) := by
  induction n with
  | zero => intros; simp [clsOuts, pad_zero]
  | succ n ih =>
    intro p st hL h1 h2
    have hpos : st.n1.toNat = p := by rw [h1]; simp
    by_cases hp : p < st.buf.length
    · have hstep : stepPingPong rec [k] st =
          { out := .val st.buf[p], kids := [k], st := { st with n1 := (p : Int) + 1 } } := by
        have e1 : ¬ st.buf.length ≤ p := by omega
        have e2 : ¬ 2 ≤ st.buf.length := by omega
        have e3 : ¬ ((p : Int) + 1 = (st.buf.length : Int) - 1) := by omega
        have e4 : ¬ ((p : Int) + 1 = 0) := by omega
        simp [stepPingPong, hL, e1, e2, List.getElem?_eq_getElem hp, h1, h2, e3, e4]
      simp only [clsOuts, hstep]
      rw [ih (p + 1) _ (by simpa using hL) (by simp) (by simp [h2])]
      rw [List.drop_eq_getElem_cons hp, pad_cons]
    · have hstep : stepPingPong rec [k] st = { out := .stop, kids := [k], st := st } := by
        have e1 : st.buf.length ≤ p := by omega
        simp [stepPingPong, hL, hpos, e1]
      have hd : st.buf.drop p = [] := by simp; omega
      simp only [clsOuts, hstep]
      rw [ih p st hL h1 h2, hd]
      simp [pad_nil, List.replicate_succ]

/-- One step of PPingPong (two or more values) that does not end the pattern. -/
theorem pingPong_step (rec : Rec) (k : Pat) (vs : List Val) (st : St) (p : Nat) (hb : st.buf = vs) (hL : 2 ≤ vs.length)
    (h1 : st.n1 = p) (hp : p < vs.length) (hgo : ¬ (p = 1 ∧ st.n0 ≤ st.n3)) :
    stepPingPong rec [k] st =
      { out := .val vs[p], kids := [k],
        st := if st.n1 + st.n2 = (vs.length : Int) - 1 then { st with n1 := st.n1 + st.n2, n2 := -1 }
              else if st.n1 + st.n2 = 0 then { st with n1 := st.n1 + st.n2, n2 := 1, n3 := st.n3 + 1 }
              else { st with n1 := st.n1 + st.n2 } } := by
  have e1 : ¬ vs.length < 2 := by omega
  have e2 : ¬ (st.n1 = 1 ∧ st.n3 ≥ st.n0) := by
    intro h; apply hgo; rw [h1] at h; exact ⟨by omega, h.2⟩
  have e6 : st.n1.toNat = p := by rw [h1]; simp
  simp only [stepPingPong, hb, e1, false_and, hL, true_and, e2, or_self, if_false, e6, List.getElem?_eq_getElem hp]
  split
  · rfl
  · split <;> rfl

/-- Upward run: from `pos = p` (direction up) the values `vs[p], …, vs[L-2]` are played and the pattern
    turns round at `pos = L-1`. -/
theorem pingPong_up (rec : Rec) (k : Pat) (vs : List Val) (c : Int) (d : Nat) :
    ∀ (p : Nat) (st : St) (n : Nat), p + (d + 1) = vs.length - 1 → 2 ≤ vs.length → st.buf = vs → st.n0 = c →
      st.n1 = p → st.n2 = 1 → st.n3 < c →
      clsOuts stepPingPong rec ((d + 1) + n) [k] st =
        ((vs.drop p).take (d + 1)).map Out.val ++
          clsOuts stepPingPong rec n [k] { st with n1 := (vs.length : Int) - 1, n2 := -1 } := by
  induction d with
  | zero =>
    intro p st n hp hL hb h0 h1 h2 h3
    have hlt : p < vs.length := by omega
    have e3 : st.n1 + st.n2 = (vs.length : Int) - 1 := by rw [h1, h2]; omega
    have hstep := pingPong_step rec k vs st p hb hL h1 hlt (by omega)
    rw [if_pos e3] at hstep
    have : 0 + 1 + n = n + 1 := by omega
    rw [this]
    simp only [clsOuts, hstep, e3]
    rw [List.drop_eq_getElem_cons hlt]
    simp only [List.take_succ_cons, List.take_zero, List.map_cons, List.map_nil, List.cons_append, List.nil_append]
  | succ d ih =>
    intro p st n hp hL hb h0 h1 h2 h3
    have hlt : p < vs.length := by omega
    have e3 : ¬ st.n1 + st.n2 = (vs.length : Int) - 1 := by rw [h1, h2]; omega
    have e4 : ¬ st.n1 + st.n2 = 0 := by rw [h1, h2]; omega
    have hstep := pingPong_step rec k vs st p hb hL h1 hlt (by omega)
    rw [if_neg e3, if_neg e4] at hstep
    have : d + 1 + 1 + n = (d + 1 + n) + 1 := by omega
    rw [this]
    simp only [clsOuts, hstep]
    rw [ih (p + 1) _ n (by omega) hL (by simp [hb]) (by simp [h0]) (by simp [h1, h2]) (by simp [h2]) (by simpa using h3)]
    rw [List.drop_eq_getElem_cons hlt]
    simp only [List.take_succ_cons, List.map_cons, List.cons_append]

/-- Downward run: from `pos = p` (direction down) the values `vs[p], …, vs[1]` are played, then `pos = 0`,
    the direction is up again and one more round trip is counted. -/
theorem pingPong_down (rec : Rec) (k : Pat) (vs : List Val) (c : Int) (j : Nat) :
    ∀ (st : St) (n : Nat), j + 1 ≤ vs.length - 1 → 2 ≤ vs.length → st.buf = vs → st.n0 = c →
      st.n1 = ((j + 1 : Nat) : Int) → st.n2 = -1 → st.n3 < c →
      clsOuts stepPingPong rec ((j + 1) + n) [k] st =
        ((vs.take (j + 2)).tail.reverse).map Out.val ++
          clsOuts stepPingPong rec n [k] { st with n1 := 0, n2 := 1, n3 := st.n3 + 1 } := by
  induction j with
  | zero =>
    intro st n hp hL hb h0 h1 h2 h3
    have hlt : 0 + 1 < vs.length := by omega
    have e3 : ¬ st.n1 + st.n2 = (vs.length : Int) - 1 := by rw [h1, h2]; omega
    have e4 : st.n1 + st.n2 = 0 := by rw [h1, h2]; omega
    have hstep := pingPong_step rec k vs st (0 + 1) hb hL h1 hlt (by omega)
    rw [if_neg e3, if_pos e4] at hstep
    have : 0 + 1 + n = n + 1 := by omega
    rw [this]
    simp only [clsOuts, hstep, e4]
    have ht : (vs.take (0 + 2)).tail.reverse = [vs[0 + 1]] := by
      match vs, hlt with
      | a :: b :: t, _ => simp
    rw [ht]
    simp only [List.map_cons, List.map_nil, List.cons_append, List.nil_append]
  | succ j ih =>
    intro st n hp hL hb h0 h1 h2 h3
    have hlt : j + 1 + 1 < vs.length := by omega
    have e3 : ¬ st.n1 + st.n2 = (vs.length : Int) - 1 := by rw [h1, h2]; omega
    have e4 : ¬ st.n1 + st.n2 = 0 := by rw [h1, h2]; omega
    have e5 : st.n1 + st.n2 = ((j + 1 : Nat) : Int) := by rw [h1, h2]; push_cast; omega
    have hstep := pingPong_step rec k vs st (j + 1 + 1) hb hL h1 hlt (by omega)
    rw [if_neg e3, if_neg e4] at hstep
    have : j + 1 + 1 + n = (j + 1 + n) + 1 := by omega
    rw [this]
    simp only [clsOuts, hstep]
    rw [ih _ n (by omega) hL (by simp [hb]) (by simp [h0]) (by simp [e5]) (by simp [h2]) (by simpa using h3)]
    have ht : (vs.take (j + 1 + 2)).tail.reverse = vs[j + 1 + 1] :: (vs.take (j + 2)).tail.reverse := by
      have h1 : vs.take (j + 1 + 2) = vs.take (j + 2) ++ [vs[j + 1 + 1]] := by
        rw [show j + 1 + 2 = (j + 1 + 1) + 1 from rfl, List.take_succ_eq_append_getElem hlt]
      have h2 : vs.take (j + 2) ≠ [] := by
        intro h; have := congrArg List.length h; rw [List.length_take, List.length_nil] at this; omega
      rw [h1, List.tail_append_of_ne_nil h2, List.reverse_append]
      simp
    rw [ht]
    simp only [List.map_cons, List.cons_append]

/-- PPingPong's state: `values = vs`, `count = c`, `pos = p`, `dir = d`, `rpos = r`. -/
def ppSt (vs : List Val) (c p d r : Int) : St := { n0 := c, n1 := p, n2 := d, n3 := r, buf := vs }

/-- One round trip `vs[0..L-2] ++ vs[L-1..1]`, back at `pos = 0` with one more trip counted. -/
theorem pingPong_cycle (rec : Rec) (k : Pat) (vs : List Val) (c r : Int) (n : Nat) (hL : 2 ≤ vs.length) (h3 : r < c) :
    clsOuts stepPingPong rec (((vs.length - 1) + (vs.length - 1)) + n) [k] (ppSt vs c 0 1 r) =
      (vs.dropLast ++ vs.tail.reverse).map Out.val ++ clsOuts stepPingPong rec n [k] (ppSt vs c 0 1 (r + 1)) := by
  obtain ⟨d, hd⟩ : ∃ d, vs.length - 1 = d + 1 := ⟨vs.length - 2, by omega⟩
  rw [hd, Nat.add_assoc]
  rw [pingPong_up rec k vs c d 0 (ppSt vs c 0 1 r) _ (by omega) hL rfl rfl rfl rfl h3]
  rw [pingPong_down rec k vs c d _ n (by omega) hL rfl rfl (by simp; omega) rfl h3]
  have e1 : (vs.drop 0).take (d + 1) = vs.dropLast := by rw [List.dropLast_eq_take, hd]; simp
  have e2 : vs.take (d + 2) = vs := by apply List.take_of_length_le; omega
  rw [e1, e2, List.map_append, List.append_assoc]
  rfl

/-- `j` round trips. -/
theorem pingPong_cycles (rec : Rec) (k : Pat) (vs : List Val) (c : Int) (hL : 2 ≤ vs.length) (j : Nat) :
    ∀ (r : Int) (n : Nat), (j ≠ 0 → r + j ≤ c) →
      clsOuts stepPingPong rec (j * ((vs.length - 1) + (vs.length - 1)) + n) [k] (ppSt vs c 0 1 r) =
        ((List.replicate j (vs.dropLast ++ vs.tail.reverse)).flatten).map Out.val ++
          clsOuts stepPingPong rec n [k] (ppSt vs c 0 1 (r + j)) := by
  induction j with
  | zero => intro r n _; simp
  | succ j ih =>
    intro r n hj
    have hj' := hj (by omega)
    rw [Nat.succ_mul, Nat.add_comm (j * _) _, Nat.add_assoc]
    rw [pingPong_cycle rec k vs c r _ hL (by omega)]
    rw [ih (r + 1) n (by intro _; omega)]
    have : r + 1 + (j : Int) = r + ((j + 1 : Nat) : Int) := by omega
    rw [this]
    simp only [List.replicate_succ, List.flatten_cons, List.map_append, List.append_assoc]

/-- **PPingPong(input, count)**, two or more values `vs`: `count` round trips
    `vs[0], …, vs[L-2], vs[L-1], …, vs[1]`, then `vs[0]` once more, then the end. -/
theorem pingPong_reference (rec : Rec) (k : Pat) (vs : List Val) (c : Int) (hL : 2 ≤ vs.length) (N : Nat) :
    clsOuts stepPingPong rec N [k] { n0 := c, n2 := 1, buf := vs } =
      pad N ((List.replicate c.toNat (vs.dropLast ++ vs.tail.reverse)).flatten ++ [vs[0]]) := by
  apply pad_of_prefix
  intro n
  have hcyc : (vs.dropLast ++ vs.tail.reverse).length = (vs.length - 1) + (vs.length - 1) := by simp
  have hlen' : ((List.replicate c.toNat (vs.dropLast ++ vs.tail.reverse)).flatten ++ [vs[0]]).length + n =
      c.toNat * ((vs.length - 1) + (vs.length - 1)) + (1 + n) := by
    rw [List.length_append, List.length_flatten, List.map_replicate, hcyc]
    simp
    omega
  rw [hlen']
  have h0 : ({ n0 := c, n2 := 1, buf := vs } : St) = ppSt vs c 0 1 0 := rfl
  rw [h0, pingPong_cycles rec k vs c hL c.toNat 0 (1 + n) (by intro h; omega)]
  have hstep := pingPong_step rec k vs (ppSt vs c 0 1 (0 + (c.toNat : Int))) 0 rfl hL rfl (by omega) (by omega)
  have : 1 + n = n + 1 := by omega
  rw [this]
  simp only [clsOuts, hstep]
  rw [pingPong_stopped rec k n _ (by split <;> (try split) <;> exact hL)
    (by split <;> (try split) <;> simp [ppSt] <;> omega)
    (by split <;> (try split) <;> simp [ppSt] <;> omega)]
  simp

theorem pingPong_reference_short (rec : Rec) (k : Pat) (vs : List Val) (c : Int) (hL : vs.length < 2) (N : Nat) :
    clsOuts stepPingPong rec N [k] { n0 := c, n2 := 1, buf := vs } = pad N vs := by
  rw [pingPong_short rec k N 0 _ hL rfl rfl]
  simp

example : clsOuts stepPingPong (stepF 5) 11 [] { n0 := 2, n2 := 1, buf := [.int 1, .int 4, .int 9] } =
    [.val (.int 1), .val (.int 4), .val (.int 9), .val (.int 4), .val (.int 1), .val (.int 4), .val (.int 9), .val (.int 4),
     .val (.int 1), .stop, .stop] := by decide
example : clsOuts stepPingPong (stepF 5) 3 [] { n0 := 2, n2 := 1, buf := [.int 7] } = [.val (.int 7), .stop, .stop] := by decide

/-! ### PStutter -/

/-- PStutter's state: held value `x`, `count_current = c`, `pos = p`. -/
def stSt (x : Val) (c p : Int) : St := { v0 := x, v1 := Val.int c, n0 := p }

/-- Inside a block the held value is repeated until `pos` reaches `count_current`. -/
theorem stutter_hold (rec : Rec) (kids : List Pat) (x : Val) (c : Int) (d : Nat) :
    ∀ (p : Int) (n : Nat), 1 ≤ p → p + d = max c 1 →
      clsOuts stepStutter rec (d + n) kids (stSt x c p) =
        List.replicate d (.val x) ++ clsOuts stepStutter rec n kids (stSt x c (max c 1)) := by
  induction d with
  | zero => intro p n _ hp; have : p = max c 1 := by omega
            subst this; simp
  | succ d ih =>
    intro p n h1 hp
    have hlt : ¬ c ≤ p := by omega
    have hstep : stepStutter rec kids (stSt x c p) = { out := .val x, kids := kids, st := stSt x c (p + 1) } := by
      simp [stepStutter, stSt, numCmp_ge_int, hlt]
    have : d + 1 + n = (d + n) + 1 := by omega
    rw [this]
    simp only [clsOuts, hstep]
    rw [ih (p + 1) n (by omega) (by omega), List.replicate_succ, List.cons_append]

/-- A whole block: at a block boundary `count` is resolved (to `c`), the next input value `x` is taken, and
    `x` is played `max(c, 1)` times; the pattern is then at the next block boundary. -/
theorem stutter_block (rec : Rec) (inp cnt : Pat) (x0 : Val) (c0 p0 : Int) (hb : c0 ≤ p0) (x : Val) (c : Int)
    (hc : (rec cnt).out = .val (Val.int c)) (hx : (rec inp).out = .val x) (n : Nat) :
    clsOuts stepStutter rec ((max c 1).toNat + n) [inp, cnt] (stSt x0 c0 p0) =
      List.replicate (max c 1).toNat (.val x) ++
        clsOuts stepStutter rec n [(rec inp).p, (rec cnt).p] (stSt x c (max c 1)) := by
  have k1 : stepKid rec [inp, cnt] 1 = (.val (Val.int c), [inp, (rec cnt).p]) := by simp [stepKid, hc]
  have k0 : stepKid rec [inp, (rec cnt).p] 0 = (.val x, [(rec inp).p, (rec cnt).p]) := by simp [stepKid, hx]
  have hstep : stepStutter rec [inp, cnt] (stSt x0 c0 p0) =
      { out := .val x, kids := [(rec inp).p, (rec cnt).p], st := stSt x c 1 } := by
    simp [stepStutter, stSt, numCmp_ge_int, hb, k1, k0]
  obtain ⟨d, hd⟩ : ∃ d, (max c 1).toNat = d + 1 := ⟨(max c 1).toNat - 1, by omega⟩
  have : d + 1 + n = (d + n) + 1 := by omega
  rw [hd, this]
  simp only [clsOuts, hstep]
  rw [stutter_hold rec _ x c d 1 n (by omega) (by omega), List.replicate_succ, List.cons_append]

/-- **PStutter with a pattern-valued count**: the `j`-th input value is played `max(count_j, 1)` times, the
    count being resolved once per block. -/
theorem stutter_blocks (rec : Rec) (xs : List Val) :
    ∀ (cs : List Int) (inp cnt : Pat) (x0 : Val) (c0 p0 : Int) (n : Nat), c0 ≤ p0 → cs.length = xs.length →
      recOuts rec xs.length inp = xs.map Out.val → recOuts rec xs.length cnt = cs.map (fun c => .val (Val.int c)) →
      ∃ x1 c1 p1, c1 ≤ p1 ∧
        clsOuts stepStutter rec (((List.zipWith (fun x c => List.replicate (max c 1).toNat x) xs cs).flatten).length + n)
            [inp, cnt] (stSt x0 c0 p0) =
          ((List.zipWith (fun x c => List.replicate (max c 1).toNat x) xs cs).flatten).map Out.val ++
            clsOuts stepStutter rec n [recAfter rec xs.length inp, recAfter rec xs.length cnt] (stSt x1 c1 p1) := by
  induction xs with
  | nil =>
    intro cs inp cnt x0 c0 p0 n hb hl _ _
    have : cs = [] := by cases cs <;> simp_all
    subst this
    exact ⟨x0, c0, p0, hb, by simp [recAfter]⟩
  | cons x xs ih =>
    intro cs inp cnt x0 c0 p0 n hb hl hx hc
    cases cs with
    | nil => simp at hl
    | cons c cs =>
      simp only [List.length_cons, recOuts, List.map_cons, List.cons.injEq] at hx hc
      obtain ⟨x1, c1, p1, hb1, h⟩ := ih cs (rec inp).p (rec cnt).p x c (max c 1) n (by omega) (by simpa using hl) hx.2 hc.2
      refine ⟨x1, c1, p1, hb1, ?_⟩
      simp only [List.zipWith_cons_cons, List.flatten_cons, List.length_append, List.length_replicate, List.map_append,
        List.map_replicate, List.append_assoc, Nat.add_assoc, List.length_cons, recAfter]
      rw [stutter_block rec inp cnt x0 c0 p0 hb x c hc.1 hx.1, h]

theorem recOuts_add (rec : Rec) (m n : Nat) (p : Pat) :
    recOuts rec (m + n) p = recOuts rec m p ++ recOuts rec n (recAfter rec m p) := by
  induction m generalizing p with
  | zero => simp [recOuts, recAfter]
  | succ m ih =>
    have : m + 1 + n = (m + n) + 1 := by omega
    rw [this]
    simp only [recOuts, recAfter, List.cons_append]
    rw [ih]

theorem recOuts_length (rec : Rec) (n : Nat) (p : Pat) : (recOuts rec n p).length = n := by
  induction n generalizing p with
  | zero => rfl
  | succ n ih => simp [recOuts, ih]

/-- An input that yields `xs` and then StopIteration for ever is dead after `xs.length` steps. -/
theorem dead_after {rec : Rec} {inp : Pat} {xs : List Val}
    (h : ∀ j, recOuts rec (xs.length + j) inp = xs.map Out.val ++ List.replicate j .stop) (j : Nat) :
    recOuts rec xs.length inp = xs.map Out.val ∧
    recOuts rec j (recAfter rec xs.length inp) = List.replicate j .stop := by
  have h1 := h j
  rw [recOuts_add] at h1
  have hl : (recOuts rec xs.length inp).length = (xs.map Out.val).length := by simp [recOuts_length]
  exact List.append_inj h1 hl

/-- At a block boundary, with a constant count and a dead input, PStutter has ended for good. -/
theorem stutter_dead (rec : Rec) (cnt : Pat) (c : Int) (hc : ConstUnder rec cnt (Val.int c)) (x0 : Val) (c0 p0 : Int)
    (hb : c0 ≤ p0) (n : Nat) :
    ∀ (inp : Pat), (∀ j, recOuts rec j inp = List.replicate j .stop) →
      clsOuts stepStutter rec n [inp, cnt] (stSt x0 c0 p0) = List.replicate n .stop := by
  induction n with
  | zero => intros; rfl
  | succ n ih =>
    intro inp hd
    have h1 := hd 1
    simp only [recOuts, List.replicate_succ, List.replicate_zero, List.cons.injEq, and_true] at h1
    have k1 : stepKid rec [inp, cnt] 1 = (.val (Val.int c), [inp, cnt]) := stepKid_const (by simp) hc
    have k0 : stepKid rec [inp, cnt] 0 = (.stop, [(rec inp).p, cnt]) := by simp [stepKid, h1]
    have hstep : stepStutter rec [inp, cnt] (stSt x0 c0 p0) =
        { out := .stop, kids := [(rec inp).p, cnt], st := stSt x0 c0 p0 } := by
      simp [stepStutter, stSt, numCmp_ge_int, hb, k1, k0]
    simp only [clsOuts, hstep, List.replicate_succ]
    rw [ih (rec inp).p]
    intro j
    have := hd (j + 1)
    simp only [recOuts, List.replicate_succ, List.cons.injEq] at this
    exact this.2

theorem stutter_blocks_const (rec : Rec) (cnt : Pat) (c : Int) (hc : ConstUnder rec cnt (Val.int c)) (xs : List Val) :
    ∀ (inp : Pat) (x0 : Val) (c0 p0 : Int) (n : Nat), c0 ≤ p0 → recOuts rec xs.length inp = xs.map Out.val →
      ∃ x1 c1 p1, c1 ≤ p1 ∧
        clsOuts stepStutter rec ((xs.flatMap (List.replicate (max c 1).toNat)).length + n) [inp, cnt] (stSt x0 c0 p0) =
          (xs.flatMap (List.replicate (max c 1).toNat)).map Out.val ++
            clsOuts stepStutter rec n [recAfter rec xs.length inp, cnt] (stSt x1 c1 p1) := by
  induction xs with
  | nil => intro inp x0 c0 p0 n hb _; exact ⟨x0, c0, p0, hb, by simp [recAfter]⟩
  | cons x xs ih =>
    intro inp x0 c0 p0 n hb hx
    simp only [List.length_cons, recOuts, List.map_cons, List.cons.injEq] at hx
    obtain ⟨x1, c1, p1, hb1, h⟩ := ih (rec inp).p x c (max c 1) n (by omega) hx.2
    refine ⟨x1, c1, p1, hb1, ?_⟩
    have hcp : (rec cnt).p = cnt := by unfold ConstUnder at hc; rw [hc]
    have hco : (rec cnt).out = .val (Val.int c) := by unfold ConstUnder at hc; rw [hc]
    simp only [List.flatMap_cons, List.length_append, List.length_replicate, List.map_append,
      List.map_replicate, List.append_assoc, Nat.add_assoc, List.length_cons, recAfter]
    rw [stutter_block rec inp cnt x0 c0 p0 hb x c hco hx.1, hcp, h]

/-- **PStutter(input, count)**, constant count: every input value is played `max(count, 1)` times; the pattern
    ends with its input. -/
theorem stutter_reference (rec : Rec) (inp cnt : Pat) (xs : List Val) (c : Int) (hc : ConstUnder rec cnt (Val.int c))
    (hin : ∀ j, recOuts rec (xs.length + j) inp = xs.map Out.val ++ List.replicate j .stop) (N : Nat) :
    clsOuts stepStutter rec N [inp, cnt] { v0 := Val.int 0, v1 := Val.int 0 } =
      pad N (xs.flatMap (List.replicate (max c 1).toNat)) := by
  apply pad_of_prefix
  intro n
  have h0 : ({ v0 := Val.int 0, v1 := Val.int 0 } : St) = stSt (Val.int 0) 0 0 := rfl
  obtain ⟨x1, c1, p1, hb1, h⟩ := stutter_blocks_const rec cnt c hc xs inp (Val.int 0) 0 0 n (by omega) (dead_after hin 0).1
  rw [h0, h, stutter_dead rec cnt c hc x1 c1 p1 hb1 n _ (fun j => (dead_after hin j).2)]

/-- For an endless input: the first `m` values, each `max(count, 1)` times. -/
theorem stutter_reference_prefix (rec : Rec) (inp cnt : Pat) (xs : List Val) (c : Int) (hc : ConstUnder rec cnt (Val.int c))
    (hin : recOuts rec xs.length inp = xs.map Out.val) :
    clsOuts stepStutter rec (xs.flatMap (List.replicate (max c 1).toNat)).length [inp, cnt]
        { v0 := Val.int 0, v1 := Val.int 0 } =
      (xs.flatMap (List.replicate (max c 1).toNat)).map Out.val := by
  have h0 : ({ v0 := Val.int 0, v1 := Val.int 0 } : St) = stSt (Val.int 0) 0 0 := rfl
  obtain ⟨x1, c1, p1, _, h⟩ := stutter_blocks_const rec cnt c hc xs inp (Val.int 0) 0 0 0 (by omega) hin
  rw [h0]
  simpa [clsOuts] using h

example : clsOuts stepStutter (stepF 5) 8
    [.node .seq [Pat.const (.int 7), Pat.const (.int 8), Pat.const (.int 9)] { n0 := 1 }, Pat.const (.int 2)]
    { v0 := .int 0, v1 := .int 0 } =
    [.val (.int 7), .val (.int 7), .val (.int 8), .val (.int 8), .val (.int 9), .val (.int 9), .stop, .stop] := by decide

/-! ### PSubsequence -/

/-- The fill loop on an input that has (at least) the values `ws` to give. -/
theorem fillBuf_vals (rec : Rec) (a b : Pat) (ws : List Val) :
    ∀ (kid : Pat) (buf : List Val), recOuts rec ws.length kid = ws.map Out.val →
      fillBuf rec ws.length [kid, a, b] buf = (.val Val.none, [recAfter rec ws.length kid, a, b], buf ++ ws) := by
  induction ws with
  | nil => intro kid buf _; simp [fillBuf, recAfter]
  | cons w ws ih =>
    intro kid buf h
    simp only [List.length_cons, recOuts, List.map_cons, List.cons.injEq] at h
    have k0 : stepKid rec [kid, a, b] 0 = (.val w, [(rec kid).p, a, b]) := by simp [stepKid, h.1]
    simp only [List.length_cons, fillBuf, k0, recAfter]
    rw [ih (rec kid).p (buf ++ [w]) h.2]
    simp

/-- The same with an arbitrary list of further kids. -/
theorem fillBuf_vals_tail (rec : Rec) (tail : List Pat) (ws : List Val) :
    ∀ (kid : Pat) (buf : List Val), recOuts rec ws.length kid = ws.map Out.val →
      fillBuf rec ws.length (kid :: tail) buf = (.val Val.none, recAfter rec ws.length kid :: tail, buf ++ ws) := by
  induction ws with
  | nil => intro kid buf _; simp [fillBuf, recAfter]
  | cons w ws ih =>
    intro kid buf h
    simp only [List.length_cons, recOuts, List.map_cons, List.cons.injEq] at h
    have k0 : stepKid rec (kid :: tail) 0 = (.val w, (rec kid).p :: tail) := by simp [stepKid, h.1]
    simp only [List.length_cons, fillBuf, k0, recAfter]
    rw [ih (rec kid).p (buf ++ [w]) h.2]
    simp

theorem fillBuf_vals5 (rec : Rec) (a1 a2 a3 a4 : Pat) (ws : List Val) (kid : Pat) (buf : List Val)
    (h : recOuts rec ws.length kid = ws.map Out.val) :
    fillBuf rec ws.length [kid, a1, a2, a3, a4] buf = (.val Val.none, [recAfter rec ws.length kid, a1, a2, a3, a4], buf ++ ws) :=
  fillBuf_vals_tail rec [a1, a2, a3, a4] ws kid buf h

theorem sub_stopped (rec : Rec) (off len : Pat) (ov : Val) (l : Int) (hoff : ConstUnder rec off ov)
    (hlen : ConstUnder rec len (Val.int l)) (kid : Pat) (n : Nat) (st : St) (h : l ≤ st.n0) :
    clsOuts stepSubsequence rec n [kid, off, len] st = List.replicate n .stop := by
  induction n with
  | zero => rfl
  | succ n ih =>
    have k1 : stepKid rec [kid, off, len] 1 = (.val ov, [kid, off, len]) := stepKid_const (by simp) hoff
    have k2 : stepKid rec [kid, off, len] 2 = (.val (Val.int l), [kid, off, len]) := stepKid_const (by simp) hlen
    have hs : stepSubsequence rec [kid, off, len] st = { out := .stop, kids := [kid, off, len], st := st } := by
      simp [stepSubsequence, k1, k2, numCmp_ge_int, h]
    simp only [clsOuts, hs, List.replicate_succ]
    rw [ih]

/-- `d` more values of the window, starting at `pos = i` with `buf` already read and `r` still available. -/
theorem recAfter_add (rec : Rec) (b k : Nat) (p : Pat) : recAfter rec k (recAfter rec b p) = recAfter rec (b + k) p := by
  induction b generalizing p with
  | zero => simp [recAfter]
  | succ b ih => rw [show b + 1 + k = (b + k) + 1 from by omega]; simp only [recAfter]; exact ih _

theorem sub_run (rec : Rec) (off len : Pat) (o : Nat) (l : Int) (hoff : ConstUnder rec off (Val.int o))
    (hlen : ConstUnder rec len (Val.int l)) (vs : List Val) (inp0 : Pat) (d : Nat) :
    ∀ (i : Nat) (buf r : List Val) (kid : Pat) (st : St) (n : Nat), buf ++ r = vs →
      recOuts rec r.length kid = r.map Out.val → st.n0 = i → st.buf = buf → (i : Int) + d ≤ l →
      buf.length ≤ o + i → (d ≠ 0 → o + i + d ≤ vs.length) → kid = recAfter rec buf.length inp0 →
      ∃ kid' st' r', st'.n0 = ((i + d : Nat) : Int) ∧ st'.buf ++ r' = vs ∧ recOuts rec r'.length kid' = r'.map Out.val ∧
        st'.buf.length ≤ o + i + d ∧ kid' = recAfter rec st'.buf.length inp0 ∧
        clsOuts stepSubsequence rec (d + n) [kid, off, len] st =
          ((vs.drop (o + i)).take d).map Out.val ++ clsOuts stepSubsequence rec n [kid', off, len] st' := by
  induction d with
  | zero =>
    intro i buf r kid st n hv hr h0 hb _ hbl _ hkid
    exact ⟨kid, st, r, by simpa using h0, by rw [hb]; exact hv, hr, by rw [hb]; omega, by rw [hb]; exact hkid, by simp⟩
  | succ d ih =>
    intro i buf r kid st n hv hr h0 hb hl hbl hlen'' hkid
    have hlen' := hlen'' (by omega)
    have k1 : stepKid rec [kid, off, len] 1 = (.val (Val.int o), [kid, off, len]) := stepKid_const (by simp) hoff
    have k2 : stepKid rec [kid, off, len] 2 = (.val (Val.int l), [kid, off, len]) := stepKid_const (by simp) hlen
    -- the fill loop reads k = o + i + 1 - |buf| values
    obtain ⟨k, hk⟩ : ∃ k, (st.n0 + (o : Int) + 1 - (buf.length : Int)).toNat = k ∧ buf.length + k = o + i + 1 :=
      ⟨_, rfl, by rw [h0]; omega⟩
    have hlenr : buf.length + r.length = vs.length := by rw [← hv]; simp
    have hkr : k ≤ r.length := by omega
    have hrk : recOuts rec (r.take k).length kid = (r.take k).map Out.val := by
      have := recOuts_add rec k (r.length - k) kid
      rw [show k + (r.length - k) = r.length from by omega, hr] at this
      have hl2 : ((r.take k).map Out.val).length = (recOuts rec k kid).length := by simp [recOuts_length]; omega
      have hsplit : r.map Out.val = (r.take k).map Out.val ++ (r.drop k).map Out.val := by
        rw [← List.map_append, List.take_append_drop]
      rw [hsplit] at this
      have := (List.append_inj this hl2).1
      rw [List.length_take, Nat.min_eq_left hkr]
      exact this.symm
    have hrd : recOuts rec (r.drop k).length (recAfter rec k kid) = (r.drop k).map Out.val := by
      have := recOuts_add rec k (r.length - k) kid
      rw [show k + (r.length - k) = r.length from by omega, hr] at this
      have hl2 : ((r.take k).map Out.val).length = (recOuts rec k kid).length := by simp [recOuts_length]; omega
      have hsplit : r.map Out.val = (r.take k).map Out.val ++ (r.drop k).map Out.val := by
        rw [← List.map_append, List.take_append_drop]
      rw [hsplit] at this
      have := (List.append_inj this hl2).2
      rw [List.length_drop]
      exact this.symm
    have hfill := fillBuf_vals rec off len (r.take k) kid buf hrk
    rw [List.length_take, Nat.min_eq_left hkr] at hfill
    have hidx : o + i < (buf ++ r.take k).length := by simp; omega
    have hlt : o + i < vs.length := by omega
    obtain ⟨x, hxe⟩ : ∃ x, x = vs[o + i] := ⟨_, rfl⟩
    have hx : vs[o + i]? = some x := by rw [hxe]; exact List.getElem?_eq_getElem hlt
    have hget : (buf ++ r.take k)[o + i]? = some x := by
      have : (buf ++ r)[o + i]? = ((buf ++ r.take k) ++ r.drop k)[o + i]? := by
        rw [List.append_assoc, List.take_append_drop]
      rw [← hx, ← hv, this, List.getElem?_append_left hidx]
    have hstep : stepSubsequence rec [kid, off, len] st =
        { out := .val x, kids := [recAfter rec k kid, off, len],
          st := { st with buf := buf ++ r.take k, n0 := st.n0 + 1 } } := by
      have hnl : ¬ l ≤ st.n0 := by omega
      have hpi : pyIndex (buf ++ r.take k).length ((o : Int) + st.n0) = some (o + i) := by
        have : ¬ ((o : Int) + st.n0 < 0) := by omega
        have e : ((o : Int) + st.n0).toNat = o + i := by omega
        simp only [pyIndex, Int.not_lt.mp this, if_true, e, hidx]
      simp only [stepSubsequence, k1, k2, numCmp_ge_int, hnl, decide_false]
      simp only [hb, hk.1, hfill, subEmit, hpi, hget]
    have : d + 1 + n = (d + n) + 1 := by omega
    rw [this]
    obtain ⟨kid', st', r', hst', hv', hr', hbl', hkid', h⟩ := ih (i + 1) (buf ++ r.take k) (r.drop k) (recAfter rec k kid)
      { st with buf := buf ++ r.take k, n0 := st.n0 + 1 } n
      (by rw [List.append_assoc, List.take_append_drop]; exact hv) hrd (by simp [h0]) rfl (by omega) (by simp; omega)
      (by intro _; omega) (by rw [hkid, recAfter_add]; simp [Nat.min_eq_left hkr])
    refine ⟨kid', st', r', by rw [hst']; congr 1; omega, hv', hr', by omega, hkid', ?_⟩
    simp only [clsOuts, hstep]
    rw [h, List.drop_eq_getElem_cons hlt, ← hxe]
    simp only [List.take_succ_cons, List.map_cons, List.cons_append, Nat.add_assoc]

/-- **PSubsequence(input, offset, length)**, constant parameters, an input with at least `offset + length`
    values `vs` (an endless input included): the outputs are `vs[offset : offset + length]`, then the end. -/
theorem subsequence_reference_enough (rec : Rec) (inp off len : Pat) (o : Nat) (l : Int) (hoff : ConstUnder rec off (Val.int o))
    (hlen : ConstUnder rec len (Val.int l)) (vs : List Val) (hvs : o + l.toNat ≤ vs.length)
    (hin : recOuts rec vs.length inp = vs.map Out.val) (N : Nat) :
    clsOuts stepSubsequence rec N [inp, off, len] {} = pad N ((vs.drop o).take l.toNat) := by
  apply pad_of_prefix
  intro n
  have hlen' : ((vs.drop o).take l.toNat).length = l.toNat := by simp; omega
  rw [hlen']
  by_cases hl : 0 ≤ l
  · obtain ⟨kid', st', _, hst', _, _, _, _, h⟩ := sub_run rec off len o l hoff hlen vs inp l.toNat 0 [] vs inp {} n (by simp) hin
      rfl rfl (by simp; omega) (by simp) (by intro _; omega) rfl
    rw [h, sub_stopped rec off len _ l hoff hlen kid' n st' (by rw [hst']; omega)]
    simp
  · have : l.toNat = 0 := by omega
    rw [this]
    simp only [Nat.zero_add, List.take_zero, List.map_nil, List.nil_append]
    exact sub_stopped rec off len _ l hoff hlen inp n {} (by simp; omega)

example : clsOuts stepSubsequence (stepF 5) 6
    [.node .series [Pat.const (.int 100), Pat.const (.int 1)] { v0 := .int 0, v1 := .int 0 }, Pat.const (.int 2), Pat.const (.int 4)] {} =
    [.val (.int 2), .val (.int 3), .val (.int 4), .val (.int 5), .stop, .stop] := by decide

/-! ### PSequence -/

/-- PSequence's state: `repeats = r` (negative: endless), `pos = p`, `rcount = t`. -/
def sqSt (r p t : Int) : St := { n0 := r, n1 := p, n2 := t }

theorem stepKid_append (rec : Rec) (done : List Pat) (k : Pat) (rest : List Pat) :
    stepKid rec (done ++ k :: rest) done.length = ((rec k).out, done ++ (rec k).p :: rest) := by
  simp [stepKid]

/-- The rest of a round: the items `todo` still to be visited each yield their next value. -/
theorem seq_round_rest (rec : Rec) (r t : Int) (hopen : ¬ (0 ≤ r ∧ r ≤ t)) (todo : List Pat) :
    ∀ (done : List Pat) (n : Nat), todo ≠ [] → (∀ k ∈ todo, ∃ v, (rec k).out = .val v) →
      clsOuts stepSeq rec (todo.length + n) (done ++ todo) (sqSt r done.length t) =
        todo.map (fun k => (rec k).out) ++
          clsOuts stepSeq rec n (done ++ todo.map (fun k => (rec k).p)) (sqSt r 0 (t + 1)) := by
  induction todo with
  | nil => intro _ _ h; exact absurd rfl h
  | cons k rest ih =>
    intro done n _ hv
    obtain ⟨v, hkv⟩ := hv k (by simp)
    have hlen : ¬ (done ++ k :: rest).length = 0 := by simp
    have hpos : (sqSt r done.length t).n1.toNat = done.length := by simp [sqSt]
    have : (k :: rest).length + n = (rest.length + n) + 1 := by simp; omega
    rw [this]
    cases rest with
    | nil =>
      have hstep : stepSeq rec (done ++ [k]) (sqSt r done.length t) =
          { out := .val v, kids := done ++ [(rec k).p], st := sqSt r 0 (t + 1) } := by
        simp only [stepSeq, hlen, false_or, hpos, stepKid_append, hkv]
        simp [sqSt, hopen]
      simp only [clsOuts, hstep, List.map_cons, List.map_nil, hkv, List.length_nil, Nat.zero_add, List.cons_append,
        List.nil_append]
    | cons k' rest' =>
      have hstep : stepSeq rec (done ++ k :: k' :: rest') (sqSt r done.length t) =
          { out := .val v, kids := done ++ (rec k).p :: k' :: rest', st := sqSt r ((done.length : Int) + 1) t } := by
        simp only [stepSeq, hlen, false_or, hpos, stepKid_append, hkv]
        simp [sqSt, hopen]
      simp only [clsOuts, hstep]
      have e : done ++ (rec k).p :: k' :: rest' = (done ++ [(rec k).p]) ++ (k' :: rest') := by simp
      have e2 : sqSt r ((done.length : Int) + 1) t = sqSt r ((done ++ [(rec k).p]).length : Nat) t := by simp [sqSt]
      rw [e, e2, ih (done ++ [(rec k).p]) n (by simp) (fun x hx => hv x (by simp [hx]))]
      simp [hkv]

/-- A whole round. -/
theorem seq_round (rec : Rec) (r t : Int) (hopen : ¬ (0 ≤ r ∧ r ≤ t)) (kids : List Pat) (hk : kids ≠ [])
    (hv : ∀ k ∈ kids, ∃ v, (rec k).out = .val v) (n : Nat) :
    clsOuts stepSeq rec (kids.length + n) kids (sqSt r 0 t) =
      kids.map (fun k => (rec k).out) ++ clsOuts stepSeq rec n (kids.map (fun k => (rec k).p)) (sqSt r 0 (t + 1)) := by
  have := seq_round_rest rec r t hopen kids [] n hk hv
  simpa using this

theorem recAfter_succ' (rec : Rec) (j : Nat) (k : Pat) : recAfter rec j (rec k).p = recAfter rec (j + 1) k := rfl

/-- `m` rounds. -/
theorem seq_rounds (rec : Rec) (r : Int) (m : Nat) :
    ∀ (t : Int) (kids : List Pat) (n : Nat), kids ≠ [] → (r < 0 ∨ t + m ≤ r) →
      (∀ j < m, ∀ k ∈ kids, ∃ v, (rec (recAfter rec j k)).out = .val v) →
      clsOuts stepSeq rec (m * kids.length + n) kids (sqSt r 0 t) =
        ((List.range m).flatMap (fun j => kids.map (fun k => (rec (recAfter rec j k)).out))) ++
          clsOuts stepSeq rec n (kids.map (recAfter rec m)) (sqSt r 0 (t + m)) := by
  induction m with
  | zero => intro t kids n _ _ _; simp [recAfter]
  | succ m ih =>
    intro t kids n hk hr hv
    have hopen : ¬ (0 ≤ r ∧ r ≤ t) := by omega
    rw [Nat.succ_mul, Nat.add_comm (m * _) _, Nat.add_assoc]
    rw [seq_round rec r t hopen kids hk (fun k hk' => hv 0 (by omega) k hk')]
    have hlen : (kids.map (fun k => (rec k).p)).length = kids.length := by simp
    rw [← hlen, ih (t + 1) (kids.map (fun k => (rec k).p)) n (by simpa using hk) (by omega)
      (by
        intro j hj k hk'
        simp only [List.mem_map] at hk'
        obtain ⟨k0, hk0, rfl⟩ := hk'
        exact hv (j + 1) (by omega) k0 hk0)]
    rw [List.range_succ_eq_map, List.flatMap_cons, List.flatMap_map]
    simp only [List.map_map, Function.comp_def, recAfter_succ', List.append_assoc]
    simp only [recAfter]
    have : t + 1 + (m : Int) = t + ((m + 1 : Nat) : Int) := by omega
    rw [this]

theorem flatMap_range_congr {β : Type} (r : Nat) (f g : Nat → List β) (h : ∀ t < r, f t = g t) :
    (List.range r).flatMap f = (List.range r).flatMap g := by
  induction r with
  | zero => rfl
  | succ r ih =>
    rw [List.range_succ, List.flatMap_append, List.flatMap_append, ih (fun t ht => h t (by omega))]
    simp [h r (by omega)]

theorem seq_stopped (rec : Rec) (kids : List Pat) (r t : Int) (h : kids = [] ∨ (0 ≤ r ∧ r ≤ t)) (n : Nat) :
    clsOuts stepSeq rec n kids (sqSt r 0 t) = List.replicate n .stop := by
  induction n with
  | zero => rfl
  | succ n ih =>
    have hs : stepSeq rec kids (sqSt r 0 t) = { out := .stop, kids := kids, st := sqSt r 0 t } := by
      rcases h with h | h
      · simp [stepSeq, h]
      · simp [stepSeq, sqSt, h]
    simp only [clsOuts, hs, List.replicate_succ]
    rw [ih]

/-- **PSequence(items, repeats)** with items that are themselves patterns: in round `t` (`t < repeats`) every
    item contributes its `t`-th value, in order (`rows t`); after `repeats` rounds the sequence has ended. -/
theorem seq_reference (rec : Rec) (kids : List Pat) (r : Nat) (rows : Nat → List Val)
    (h : ∀ t < r, kids.map (fun k => (rec (recAfter rec t k)).out) = (rows t).map Out.val) (N : Nat) :
    clsOuts stepSeq rec N kids { n0 := r } = pad N ((List.range r).flatMap rows) := by
  have h0 : ({ n0 := r } : St) = sqSt r 0 0 := rfl
  rw [h0]
  by_cases hk : kids = []
  · subst hk
    rw [seq_stopped rec [] r 0 (Or.inl rfl) N]
    have : (List.range r).flatMap rows = [] := by
      rw [List.flatMap_eq_nil_iff]
      intro t ht
      have := h t (by simpa using ht)
      simpa using this.symm
    rw [this, pad_nil]
  · apply pad_of_prefix
    intro n
    have hv : ∀ j < r, ∀ k ∈ kids, ∃ v, (rec (recAfter rec j k)).out = .val v := by
      intro j hj k hk'
      have hm : (rec (recAfter rec j k)).out ∈ (rows j).map Out.val := by
        rw [← h j hj]; exact List.mem_map_of_mem hk'
      simp only [List.mem_map] at hm
      obtain ⟨v, _, hv⟩ := hm
      exact ⟨v, hv.symm⟩
    have hlen : ((List.range r).flatMap rows).length = r * kids.length := by
      have hrow : ∀ t < r, (rows t).length = kids.length := by
        intro t ht
        have := congrArg List.length (h t ht)
        simpa using this.symm
      clear h hv h0
      induction r with
      | zero => simp
      | succ r ih =>
        rw [List.range_succ, List.flatMap_append, List.length_append, ih (fun t ht => hrow t (by omega))]
        simp [hrow r (by omega), Nat.succ_mul]
    rw [hlen, seq_rounds rec r r 0 kids n hk (Or.inr (by omega)) hv]
    rw [seq_stopped rec _ r (0 + (r : Int)) (Or.inr (by omega)) n]
    congr 1
    rw [List.map_flatMap]
    exact flatMap_range_congr r _ _ h

theorem recAfter_const {rec : Rec} {k : Pat} {v : Val} (h : ConstUnder rec k v) (t : Nat) : recAfter rec t k = k := by
  unfold ConstUnder at h
  induction t with
  | zero => rfl
  | succ t ih => simp only [recAfter, h]; exact ih

/-- The items `kids` are the constants `vs`. -/
inductive ConstItems (rec : Rec) : List Pat → List Val → Prop where
  | nil : ConstItems rec [] []
  | cons {k : Pat} {v : Val} {ks : List Pat} {vs : List Val} :
      ConstUnder rec k v → ConstItems rec ks vs → ConstItems rec (k :: ks) (v :: vs)

theorem const_row {rec : Rec} {kids : List Pat} {vs : List Val} (h : ConstItems rec kids vs) (t : Nat) :
    kids.map (fun k => (rec (recAfter rec t k)).out) = vs.map Out.val := by
  induction h with
  | nil => rfl
  | cons hk _ ih =>
    simp only [List.map_cons, ih, recAfter_const hk t]
    unfold ConstUnder at hk
    rw [hk]

/-- **PSequence of constants**, closed form: the list, `repeats` times. -/
theorem seq_reference_const (rec : Rec) (kids : List Pat) (vs : List Val) (r : Nat)
    (h : ConstItems rec kids vs) (N : Nat) :
    clsOuts stepSeq rec N kids { n0 := r } = pad N (List.replicate r vs).flatten := by
  rw [seq_reference rec kids r (fun _ => vs) (fun t _ => const_row h t) N]
  congr 1
  induction r with
  | zero => rfl
  | succ r ih => rw [List.range_succ, List.flatMap_append, ih, List.replicate_succ']; simp

/-- **Endless PSequence** (`repeats = sys.maxsize`, register −1): `m` rounds, item `j` contributing its `t`-th
    value in round `t`. -/
theorem seq_reference_endless (rec : Rec) (kids : List Pat) (hk : kids ≠ []) (m : Nat) (rows : Nat → List Val)
    (h : ∀ t < m, kids.map (fun k => (rec (recAfter rec t k)).out) = (rows t).map Out.val) :
    clsOuts stepSeq rec (m * kids.length) kids { n0 := -1 } = ((List.range m).flatMap rows).map Out.val := by
  have h0 : ({ n0 := -1 } : St) = sqSt (-1) 0 0 := rfl
  have hv : ∀ j < m, ∀ k ∈ kids, ∃ v, (rec (recAfter rec j k)).out = .val v := by
    intro j hj k hk'
    have hm : (rec (recAfter rec j k)).out ∈ (rows j).map Out.val := by
      rw [← h j hj]; exact List.mem_map_of_mem hk'
    simp only [List.mem_map] at hm
    obtain ⟨v, _, hv⟩ := hm
    exact ⟨v, hv.symm⟩
  have := seq_rounds rec (-1) m 0 kids 0 hk (Or.inl (by omega)) hv
  rw [h0]
  simp only [Nat.add_zero, clsOuts, List.append_nil] at this
  rw [this, List.map_flatMap]
  exact flatMap_range_congr m _ _ h

example : clsOuts stepSeq (stepF 5) 8
    [Pat.const (.int 1), .node .seq [Pat.const (.int 7), Pat.const (.int 8)] { n0 := 1 }, Pat.const (.int 3)] { n0 := 2 } =
    [.val (.int 1), .val (.int 7), .val (.int 3), .val (.int 1), .val (.int 8), .val (.int 3), .stop, .stop] := by decide

/-! ### PConcatenate -/

/-- With enough fuel to reach the end of the list, the amount of fuel does not matter. -/
theorem concatLoop_fuel (rec : Rec) (f1 : Nat) :
    ∀ (f2 : Nat) (kids : List Pat) (pos : Nat), kids.length - pos < f1 → kids.length - pos < f2 →
      concatLoop rec f1 kids pos = concatLoop rec f2 kids pos := by
  induction f1 with
  | zero => intro f2 kids pos h; omega
  | succ f1 ih =>
    intro f2 kids pos h1 h2
    cases f2 with
    | zero => omega
    | succ f2 =>
      simp only [concatLoop]
      cases hk : kids[pos]? with
      | none => rfl
      | some k =>
        simp only []
        cases ho : (rec k).out with
        | stop =>
          simp only []
          by_cases hp : pos + 1 < kids.length
          · simp only [hp, if_true]
            exact ih f2 _ (pos + 1) (by simp; omega) (by simp; omega)
          · simp only [hp, if_false]
        | val v => rfl
        | err e => rfl

/-- The current input yields a value: it is the output, the position stays. -/
theorem concat_step_val (rec : Rec) (done : List Pat) (k : Pat) (rest : List Pat) (v : Val) (h : (rec k).out = .val v)
    (st : St) (hp : st.n0 = done.length) :
    stepConcat rec (done ++ k :: rest) st = { out := .val v, kids := done ++ (rec k).p :: rest, st := st } := by
  have hpos : st.n0.toNat = done.length := by rw [hp]; simp
  have e : concatLoop rec ((done ++ k :: rest).length + 1) (done ++ k :: rest) done.length =
      (.val v, done ++ (rec k).p :: rest, done.length) := by
    simp [concatLoop, h]
  simp only [stepConcat, hpos, e]
  cases st; simp at hp ⊢; exact hp.symm

/-- The last input has ended: so has the concatenation. -/
theorem concat_step_last (rec : Rec) (done : List Pat) (k : Pat) (h : (rec k).out = .stop)
    (st : St) (hp : st.n0 = done.length) :
    stepConcat rec (done ++ [k]) st = { out := .stop, kids := done ++ [(rec k).p], st := st } := by
  have hpos : st.n0.toNat = done.length := by rw [hp]; simp
  have e : concatLoop rec ((done ++ [k]).length + 1) (done ++ [k]) done.length =
      (.stop, done ++ [(rec k).p], done.length) := by
    simp [concatLoop, h]
  simp only [stepConcat, hpos, e]
  cases st; simp at hp ⊢; exact hp.symm

/-- The current input has ended and is not the last: the step is the step taken from the next input. -/
theorem concat_step_skip (rec : Rec) (done : List Pat) (k k2 : Pat) (rest : List Pat) (h : (rec k).out = .stop)
    (st : St) (hp : st.n0 = done.length) :
    stepConcat rec (done ++ k :: k2 :: rest) st =
      stepConcat rec ((done ++ [(rec k).p]) ++ k2 :: rest) { st with n0 := ((done ++ [(rec k).p]).length : Nat) } := by
  have hpos : st.n0.toNat = done.length := by rw [hp]; simp
  have hlen : (done ++ [(rec k).p] ++ k2 :: rest).length = (done ++ k :: k2 :: rest).length := by simp
  have e : concatLoop rec ((done ++ k :: k2 :: rest).length + 1) (done ++ k :: k2 :: rest) done.length =
      concatLoop rec ((done ++ k :: k2 :: rest).length + 1) (done ++ [(rec k).p] ++ k2 :: rest) (done.length + 1) := by
    have : concatLoop rec ((done ++ k :: k2 :: rest).length + 1) (done ++ k :: k2 :: rest) done.length =
        concatLoop rec (done ++ k :: k2 :: rest).length (done ++ [(rec k).p] ++ k2 :: rest) (done.length + 1) := by
      simp [concatLoop, h]
    rw [this]
    exact concatLoop_fuel rec _ _ _ _ (by simp; omega) (by simp; omega)
  simp only [stepConcat, hpos, e, hlen]
  simp

/-- The current input `k` still has the values `ws`; what the remaining inputs `rest` produce is given by
    `hrest`.  (The step that finds `k` ended already takes the next input's first value, so there is no
    prefix-continuation form: the statement is about the whole remaining concatenation.) -/
theorem concat_cur (rec : Rec) (rest : List Pat) (E : List Val)
    (hrest : rest ≠ [] → ∀ (done : List Pat) (st : St), st.n0 = done.length →
      clsOuts stepConcat rec (E.length + 1) (done ++ rest) st = E.map Out.val ++ [.stop])
    (hE : rest = [] → E = []) (ws : List Val) :
    ∀ (k : Pat) (done : List Pat) (st : St), st.n0 = done.length →
      recOuts rec (ws.length + 1) k = ws.map Out.val ++ [.stop] →
      clsOuts stepConcat rec ((ws ++ E).length + 1) (done ++ k :: rest) st = (ws ++ E).map Out.val ++ [.stop] := by
  induction ws with
  | cons w ws ihw =>
    intro k done st hp hk
    simp only [List.length_cons, recOuts, List.map_cons, List.cons_append, List.cons.injEq] at hk
    have hstep := concat_step_val rec done k rest w hk.1 st hp
    simp only [List.cons_append, List.length_cons, clsOuts, hstep, List.map_cons, List.cons.injEq, true_and]
    exact ihw (rec k).p done st hp hk.2
  | nil =>
    intro k done st hp hk
    simp only [List.length_nil, recOuts, List.map_nil, List.nil_append, List.cons.injEq, and_true] at hk
    cases rest with
    | nil =>
      have hstep := concat_step_last rec done k hk st hp
      rw [hE rfl]
      simp [clsOuts, hstep]
    | cons k2 rest2 =>
      have hstep := concat_step_skip rec done k k2 rest2 hk st hp
      have hr := hrest (by simp) (done ++ [(rec k).p]) { st with n0 := ((done ++ [(rec k).p]).length : Nat) } rfl
      simp only [List.nil_append]
      have hcl : ∀ m, clsOuts stepConcat rec (m + 1) (done ++ k :: k2 :: rest2) st =
          clsOuts stepConcat rec (m + 1) (done ++ [(rec k).p] ++ k2 :: rest2)
            { st with n0 := ((done ++ [(rec k).p]).length : Nat) } := by
        intro m; simp only [clsOuts, hstep]
      rw [hcl, hr]

/-- **PConcatenate(inputs)**: every input is a finite pattern (`todo` pairs it with its values); the outputs
    are the inputs' values one input after the other, then the end. -/
theorem concat_run (rec : Rec) (todo : List (Pat × List Val)) :
    ∀ (done : List Pat) (st : St), todo ≠ [] → st.n0 = done.length →
      (∀ e ∈ todo, recOuts rec (e.2.length + 1) e.1 = e.2.map Out.val ++ [.stop]) →
      clsOuts stepConcat rec ((todo.flatMap Prod.snd).length + 1) (done ++ todo.map Prod.fst) st =
        (todo.flatMap Prod.snd).map Out.val ++ [.stop] := by
  induction todo with
  | nil => intro _ _ h; exact absurd rfl h
  | cons e rest ih =>
    intro done st _ hp hall
    have hk := hall e (by simp)
    have := concat_cur rec (rest.map Prod.fst) (rest.flatMap Prod.snd)
      (fun hne done' st' hp' => ih done' st' (by intro h; apply hne; simp [h]) hp' (fun e' he' => hall e' (by simp [he'])))
      (by intro h; have : rest = [] := by simpa using h
          subst this; rfl) e.2 e.1 done st hp hk
    simpa using this

/-- Up to and including the first StopIteration.  (What follows it depends on the LAST input staying
    exhausted, which is C09: `PConcatenate` polls its last input again.) -/
theorem concat_reference (rec : Rec) (todo : List (Pat × List Val)) (hne : todo ≠ [])
    (h : ∀ e ∈ todo, recOuts rec (e.2.length + 1) e.1 = e.2.map Out.val ++ [.stop]) :
    clsOuts stepConcat rec ((todo.flatMap Prod.snd).length + 1) (todo.map Prod.fst) {} =
      (todo.flatMap Prod.snd).map Out.val ++ [.stop] := by
  have := concat_run rec todo [] {} hne rfl h
  simpa using this

example : clsOuts stepConcat (stepF 5) 5
    [.node .seq [Pat.const (.int 1), Pat.const (.int 2)] { n0 := 1 }, .node .seq [] { n0 := 1 },
     .node .seq [Pat.const (.int 3)] { n0 := 1 }] {} =
    [.val (.int 1), .val (.int 2), .val (.int 3), .stop, .stop] := by decide

/-- Any shorter run of a concatenation of finite inputs is a prefix of the full run. -/
theorem concat_reference_prefix (rec : Rec) (todo : List (Pat × List Val)) (hne : todo ≠ [])
    (h : ∀ e ∈ todo, recOuts rec (e.2.length + 1) e.1 = e.2.map Out.val ++ [.stop]) (N : Nat)
    (hN : N ≤ (todo.flatMap Prod.snd).length + 1) :
    clsOuts stepConcat rec N (todo.map Prod.fst) {} = ((todo.flatMap Prod.snd).map Out.val ++ [Out.stop]).take N := by
  obtain ⟨m, hm⟩ : ∃ m, N + m = (todo.flatMap Prod.snd).length + 1 := ⟨_, Nat.add_sub_cancel' hN⟩
  rw [clsOuts_take stepConcat rec N m, hm, concat_reference rec todo hne h]

/-! ### PCreep -/

/-- PCreep's state: `buffer = b`, `pos = p`, `rcount = q`. -/
def crSt (b : List Val) (p q : Int) : St := { n0 := p, n1 := q, buf := b }

/-- Constant parameters `length = len`, `creep = cr`, `repeats = rp`, `prob = pr`. -/
structure CreepConst (rec : Rec) (lk ck rk pk : Pat) (len cr rp : Int) (pr : Val) : Prop where
  hl : ConstUnder rec lk (Val.int len)
  hc : ConstUnder rec ck (Val.int cr)
  hr : ConstUnder rec rk (Val.int rp)
  hp : ConstUnder rec pk pr

theorem creep_resolved {rec : Rec} {lk ck rk pk : Pat} {len cr rp : Int} {pr : Val}
    (h : CreepConst rec lk ck rk pk len cr rp pr) (inp : Pat) (st : St) :
    stepCreep rec [inp, lk, ck, rk, pk] st =
      creepAfterFill rec len cr (Val.int rp) pr
        (fillBuf rec (len - st.buf.length).toNat [inp, lk, ck, rk, pk] st.buf) st := by
  have h1 : stepKid rec [inp, lk, ck, rk, pk] 1 = (.val (Val.int len), [inp, lk, ck, rk, pk]) := stepKid_const (by simp) h.hl
  have h2 : stepKid rec [inp, lk, ck, rk, pk] 2 = (.val (Val.int cr), [inp, lk, ck, rk, pk]) := stepKid_const (by simp) h.hc
  have h3 : stepKid rec [inp, lk, ck, rk, pk] 3 = (.val (Val.int rp), [inp, lk, ck, rk, pk]) := stepKid_const (by simp) h.hr
  have h4 : stepKid rec [inp, lk, ck, rk, pk] 4 = (.val pr, [inp, lk, ck, rk, pk]) := stepKid_const (by simp) h.hp
  have hS : stepKidsSeq rec [1, 2, 3, 4] [inp, lk, ck, rk, pk] [] =
      (.val Val.none, [inp, lk, ck, rk, pk], [Val.int len, Val.int cr, Val.int rp, pr]) := by
    simp [stepKidsSeq, h1, h2, h3, h4]
  simp only [stepCreep, hS, Val.int]

/-- A step inside the window: `buffer[pos]`. -/
theorem creep_step_in {rec : Rec} {lk ck rk pk : Pat} {len cr rp : Int} {pr : Val}
    (h : CreepConst rec lk ck rk pk len cr rp pr) (inp : Pat) (b : List Val) (hb : (b.length : Int) = len) (p : Nat) (q : Int)
    (x : Val) (hx : b[p]? = some x) :
    stepCreep rec [inp, lk, ck, rk, pk] (crSt b p q) =
      { out := .val x, kids := [inp, lk, ck, rk, pk], st := crSt b (p + 1) q } := by
  have hp : p < b.length := (List.getElem?_eq_some_iff.mp hx).1
  rw [creep_resolved h]
  have e0 : (len - (b.length : Int)).toNat = 0 := by omega
  have hneg : ¬ len < 0 := by omega
  have hd : b.length - len.toNat = 0 := by omega
  have hpos : ¬ ((p : Int).toNat ≥ b.length) := by simp; omega
  have hpi : pyIndex b.length ((p : Int) + 1 - 1) = some p := by
    have : ¬ ((p : Int) + 1 - 1 < 0) := by omega
    have e : ((p : Int) + 1 - 1).toNat = p := by omega
    simp only [pyIndex, Int.not_lt.mp this, if_true, e, hp]
  simp only [crSt, e0, fillBuf, creepAfterFill, hneg, if_false, hd, List.drop_zero, creepMain, hpos, creepEmit, hpi, hx]

/-- One pass through the rest of the window. -/
theorem creep_pass {rec : Rec} {lk ck rk pk : Pat} {len cr rp : Int} {pr : Val}
    (h : CreepConst rec lk ck rk pk len cr rp pr) (inp : Pat) (b : List Val) (hb : (b.length : Int) = len) (q : Int) (d : Nat) :
    ∀ (p n : Nat), p + d = b.length →
      clsOuts stepCreep rec (d + n) [inp, lk, ck, rk, pk] (crSt b p q) =
        (b.drop p).map Out.val ++ clsOuts stepCreep rec n [inp, lk, ck, rk, pk] (crSt b b.length q) := by
  induction d with
  | zero => intro p n hp; have : p = b.length := by omega
            subst this; simp
  | succ d ih =>
    intro p n hp
    have hlt : p < b.length := by omega
    have hstep := creep_step_in h inp b hb p q b[p] (List.getElem?_eq_getElem hlt)
    have : d + 1 + n = (d + n) + 1 := by omega
    rw [this]
    simp only [clsOuts, hstep]
    have e : ((p : Int) + 1) = ((p + 1 : Nat) : Int) := by omega
    rw [e, ih (p + 1) n (by omega), List.drop_eq_getElem_cons hlt, List.map_cons, List.cons_append]

/-- The creep loop on an input that has the values `ws` to give: the buffer slides by `ws.length`. -/
theorem creepLoop_vals (rec : Rec) (a1 a2 a3 a4 : Pat) (ws : List Val) :
    ∀ (kid : Pat) (b : List Val), b ≠ [] → recOuts rec ws.length kid = ws.map Out.val →
      creepLoop rec ws.length [kid, a1, a2, a3, a4] b =
        (.val Val.none, [recAfter rec ws.length kid, a1, a2, a3, a4], (b ++ ws).drop ws.length) := by
  induction ws with
  | nil => intro kid b _ _; simp [creepLoop, recAfter]
  | cons w ws ih =>
    intro kid b hb hr
    simp only [List.length_cons, recOuts, List.map_cons, List.cons.injEq] at hr
    have k0 : stepKid rec [kid, a1, a2, a3, a4] 0 = (.val w, [(rec kid).p, a1, a2, a3, a4]) := by simp [stepKid, hr.1]
    cases b with
    | nil => exact absurd rfl hb
    | cons x b' =>
      simp only [List.length_cons, creepLoop, k0, recAfter]
      rw [ih (rec kid).p (b' ++ [w]) (by simp) hr.2]
      simp

/-- At the end of the window with repeats left: the window starts again. -/
theorem creep_step_repeat {rec : Rec} {lk ck rk pk : Pat} {len cr rp : Int} {pr : Val}
    (h : CreepConst rec lk ck rk pk len cr rp pr) (hpr : creepRepeat pr = .val (.a (.bool true)))
    (inp : Pat) (b : List Val) (hb : (b.length : Int) = len) (q : Int) (hq : q < rp) (x : Val) (hx : b[0]? = some x) :
    stepCreep rec [inp, lk, ck, rk, pk] (crSt b b.length q) =
      { out := .val x, kids := [inp, lk, ck, rk, pk], st := crSt b 1 (q + 1) } := by
  have hp : 0 < b.length := (List.getElem?_eq_some_iff.mp hx).1
  rw [creep_resolved h]
  have e0 : (len - (b.length : Int)).toNat = 0 := by omega
  have hneg : ¬ len < 0 := by omega
  have hd : b.length - len.toNat = 0 := by omega
  have hpos : ((b.length : Int).toNat ≥ b.length) := by simp
  have hge : ¬ rp ≤ q := by omega
  have hpi : pyIndex b.length ((1 : Int) - 1) = some 0 := by simp [pyIndex, hp]
  simp only [crSt, e0, fillBuf, creepAfterFill, hneg, if_false, hd, List.drop_zero, creepMain, hpos, if_true, hpr,
    numCmp_ge_int, hge, decide_false, Bool.not_true, Bool.or_self, Bool.false_eq_true, creepEmit, hpi, hx]

/-- At the end of the window with no repeats left: the window creeps forward by `creep` input values. -/
theorem creep_step_creep {rec : Rec} {lk ck rk pk : Pat} {len cr rp : Int} {pr : Val}
    (h : CreepConst rec lk ck rk pk len cr rp pr) (hpr : creepRepeat pr = .val (.a (.bool true)))
    (inp : Pat) (b : List Val) (hb : (b.length : Int) = len) (q : Int) (hq : rp ≤ q) (ws : List Val)
    (hws : (ws.length : Int) = cr) (hin : recOuts rec ws.length inp = ws.map Out.val)
    (x : Val) (hx : ((b ++ ws).drop ws.length)[0]? = some x) :
    stepCreep rec [inp, lk, ck, rk, pk] (crSt b b.length q) =
      { out := .val x, kids := [recAfter rec ws.length inp, lk, ck, rk, pk], st := crSt ((b ++ ws).drop ws.length) 1 1 } := by
  have hp : 0 < ((b ++ ws).drop ws.length).length := (List.getElem?_eq_some_iff.mp hx).1
  have hbne : b ≠ [] := by
    intro hb0; subst hb0; simp at hp
  rw [creep_resolved h]
  have e0 : (len - (b.length : Int)).toNat = 0 := by omega
  have hneg : ¬ len < 0 := by omega
  have hd : b.length - len.toNat = 0 := by omega
  have hpos : ((b.length : Int).toNat ≥ b.length) := by simp
  have hcr : cr.toNat = ws.length := by omega
  have hpi : pyIndex ((b ++ ws).drop ws.length).length ((1 : Int) - 1) = some 0 := by simp only [pyIndex]; simp; omega
  simp only [crSt, e0, fillBuf, creepAfterFill, hneg, if_false, hd, List.drop_zero, creepMain, hpos, if_true, hpr,
    numCmp_ge_int, hq, decide_true, Bool.true_or, hcr, creepLoop_vals rec lk ck rk pk ws inp b hbne hin, creepAfterLoop,
    creepEmit, hpi, hx]

/-- The very first step fills the window. -/
theorem creep_step_first {rec : Rec} {lk ck rk pk : Pat} {len cr rp : Int} {pr : Val}
    (h : CreepConst rec lk ck rk pk len cr rp pr) (inp : Pat) (ws : List Val) (hws : (ws.length : Int) = len)
    (hin : recOuts rec ws.length inp = ws.map Out.val) (x : Val) (hx : ws[0]? = some x) :
    stepCreep rec [inp, lk, ck, rk, pk] (crSt [] 0 1) =
      { out := .val x, kids := [recAfter rec ws.length inp, lk, ck, rk, pk], st := crSt ws 1 1 } := by
  have hp : 0 < ws.length := (List.getElem?_eq_some_iff.mp hx).1
  rw [creep_resolved h]
  have e0 : (len - (([] : List Val).length : Int)).toNat = ws.length := by simp only [List.length_nil]; omega
  have hneg : ¬ len < 0 := by omega
  have hd : ws.length - len.toNat = 0 := by omega
  have hpos : ¬ ((0 : Int).toNat ≥ ws.length) := by
    have : (0 : Int).toNat = 0 := rfl
    rw [this]; omega
  have hpi : pyIndex ws.length ((0 : Int) + 1 - 1) = some 0 := by simp [pyIndex, hp]
  have hfill := fillBuf_vals5 rec lk ck rk pk ws inp [] hin
  simp only [crSt, e0, hfill, creepAfterFill, hneg, if_false, List.nil_append, hd, List.drop_zero, creepMain, hpos,
    creepEmit, hpi, hx]
  rfl

theorem map_head_drop (b : List Val) (hpos : 0 < b.length) :
    b.map Out.val = .val b[0] :: (b.drop 1).map Out.val := by
  cases b with
  | nil => simp at hpos
  | cons x t => simp

section CreepPasses
variable {rec : Rec} {lk ck rk pk : Pat} {len cr rp : Int} {pr : Val}
  (h : CreepConst rec lk ck rk pk len cr rp pr) (hpr : creepRepeat pr = .val (.a (.bool true)))

include h hpr in
/-- A repeated pass: the whole window once more. -/
theorem creep_repeat_pass (inp : Pat) (b : List Val) (hb : (b.length : Int) = len) (hne : b ≠ []) (q : Int) (hq : q < rp)
    (n : Nat) :
    clsOuts stepCreep rec (b.length + n) [inp, lk, ck, rk, pk] (crSt b b.length q) =
      b.map Out.val ++ clsOuts stepCreep rec n [inp, lk, ck, rk, pk] (crSt b b.length (q + 1)) := by
  have hpos : 0 < b.length := List.length_pos_iff.mpr hne
  have hstep := creep_step_repeat h hpr inp b hb q hq b[0] (List.getElem?_eq_getElem hpos)
  obtain ⟨d, hd⟩ : ∃ d, b.length = d + 1 := ⟨b.length - 1, by omega⟩
  have e : b.length + n = (d + n) + 1 := by omega
  rw [e]
  simp only [clsOuts, hstep]
  have := creep_pass h inp b hb (q + 1) d 1 n (by omega)
  simp only [Int.natCast_one] at this
  rw [this, map_head_drop b hpos, List.cons_append]

include h hpr in
/-- `j` repeated passes. -/
theorem creep_repeat_passes (inp : Pat) (b : List Val) (hb : (b.length : Int) = len) (hne : b ≠ []) (j : Nat) :
    ∀ (q : Int) (n : Nat), (j ≠ 0 → q + j ≤ rp) →
      clsOuts stepCreep rec (j * b.length + n) [inp, lk, ck, rk, pk] (crSt b b.length q) =
        (List.replicate j b).flatten.map Out.val ++
          clsOuts stepCreep rec n [inp, lk, ck, rk, pk] (crSt b b.length (q + j)) := by
  induction j with
  | zero => intro q n _; simp
  | succ j ih =>
    intro q n hj
    have hj' := hj (by omega)
    rw [Nat.succ_mul, Nat.add_comm (j * _) _, Nat.add_assoc]
    rw [creep_repeat_pass h hpr inp b hb hne q (by omega)]
    rw [ih (q + 1) n (by intro _; omega)]
    have : q + 1 + (j : Int) = q + ((j + 1 : Nat) : Int) := by omega
    rw [this]
    simp only [List.replicate_succ, List.flatten_cons, List.map_append, List.append_assoc]

include h hpr in
/-- A creeping pass: `creep` new values slide into the window, which is then played. -/
theorem creep_creep_pass (inp : Pat) (b : List Val) (hb : (b.length : Int) = len) (hne : b ≠ []) (q : Int) (hq : rp ≤ q)
    (ws : List Val) (hws : (ws.length : Int) = cr) (hin : recOuts rec ws.length inp = ws.map Out.val) (n : Nat) :
    clsOuts stepCreep rec (b.length + n) [inp, lk, ck, rk, pk] (crSt b b.length q) =
      ((b ++ ws).drop ws.length).map Out.val ++
        clsOuts stepCreep rec n [recAfter rec ws.length inp, lk, ck, rk, pk] (crSt ((b ++ ws).drop ws.length) b.length 1) := by
  have hlen' : ((b ++ ws).drop ws.length).length = b.length := by simp
  have hpos : 0 < ((b ++ ws).drop ws.length).length := by rw [hlen']; exact List.length_pos_iff.mpr hne
  have hstep := creep_step_creep h hpr inp b hb q hq ws hws hin _ (List.getElem?_eq_getElem hpos)
  obtain ⟨d, hd⟩ : ∃ d, b.length = d + 1 := ⟨b.length - 1, by omega⟩
  have e : b.length + n = (d + n) + 1 := by omega
  rw [e]
  simp only [clsOuts, hstep]
  have := creep_pass h (recAfter rec ws.length inp) ((b ++ ws).drop ws.length) (by rw [hlen']; exact hb) 1 d 1 n (by omega)
  simp only [Int.natCast_one, hlen'] at this
  rw [this, map_head_drop _ hpos, List.cons_append]

include h in
/-- The first pass: the window is filled from the input and played. -/
theorem creep_first_pass (inp : Pat) (ws : List Val) (hws : (ws.length : Int) = len) (hne : ws ≠ [])
    (hin : recOuts rec ws.length inp = ws.map Out.val) (n : Nat) :
    clsOuts stepCreep rec (ws.length + n) [inp, lk, ck, rk, pk] (crSt [] 0 1) =
      ws.map Out.val ++ clsOuts stepCreep rec n [recAfter rec ws.length inp, lk, ck, rk, pk] (crSt ws ws.length 1) := by
  have hpos : 0 < ws.length := List.length_pos_iff.mpr hne
  have hstep := creep_step_first h inp ws hws hin ws[0] (List.getElem?_eq_getElem hpos)
  obtain ⟨d, hd⟩ : ∃ d, ws.length = d + 1 := ⟨ws.length - 1, by omega⟩
  have e : ws.length + n = (d + n) + 1 := by omega
  rw [e]
  simp only [clsOuts, hstep]
  have := creep_pass h (recAfter rec ws.length inp) ws hws 1 d 1 n (by omega)
  simp only [Int.natCast_one] at this
  rw [this, map_head_drop ws hpos, List.cons_append]
end CreepPasses

/-- The successive windows: every chunk of `creep` new input values slides the window forward. -/
def windows (b : List Val) : List (List Val) → List (List Val)
  | [] => []
  | c :: cs => (b ++ c).drop c.length :: windows ((b ++ c).drop c.length) cs

theorem recOuts_split {rec : Rec} {inp : Pat} {c rest : List Val}
    (h : recOuts rec (c ++ rest).length inp = (c ++ rest).map Out.val) :
    recOuts rec c.length inp = c.map Out.val ∧ recOuts rec rest.length (recAfter rec c.length inp) = rest.map Out.val := by
  rw [List.length_append, recOuts_add, List.map_append] at h
  exact List.append_inj h (by simp [recOuts_length])

section CreepWindows
variable {rec : Rec} {lk ck rk pk : Pat} {len cr rp : Int} {pr : Val}
  (h : CreepConst rec lk ck rk pk len cr rp pr) (hpr : creepRepeat pr = .val (.a (.bool true)))

include h hpr in
/-- One window after a creep: the new window is played `max(repeats, 1)` times. -/
theorem creep_window (inp : Pat) (b : List Val) (hb : (b.length : Int) = len) (hne : b ≠ []) (q : Int) (hq : rp ≤ q)
    (c : List Val) (hc : (c.length : Int) = cr) (hin : recOuts rec c.length inp = c.map Out.val) (n : Nat) :
    clsOuts stepCreep rec ((max rp 1).toNat * b.length + n) [inp, lk, ck, rk, pk] (crSt b b.length q) =
      (List.replicate (max rp 1).toNat ((b ++ c).drop c.length)).flatten.map Out.val ++
        clsOuts stepCreep rec n [recAfter rec c.length inp, lk, ck, rk, pk]
          (crSt ((b ++ c).drop c.length) b.length ((max rp 1).toNat : Int)) := by
  obtain ⟨j, hj⟩ : ∃ j, (max rp 1).toNat = j + 1 := ⟨(max rp 1).toNat - 1, by omega⟩
  have hlen' : ((b ++ c).drop c.length).length = b.length := by simp
  have hne' : (b ++ c).drop c.length ≠ [] := by
    intro h0; rw [h0] at hlen'; simp at hlen'; exact hne (List.eq_nil_of_length_eq_zero hlen'.symm)
  rw [hj, Nat.succ_mul, Nat.add_comm (j * _) _, Nat.add_assoc]
  rw [creep_creep_pass h hpr inp b hb hne q hq c hc hin]
  have := creep_repeat_passes h hpr (recAfter rec c.length inp) ((b ++ c).drop c.length) (by rw [hlen']; exact hb) hne' j 1 n
    (by intro hj0; omega)
  rw [hlen'] at this
  rw [this, List.replicate_succ, List.flatten_cons, List.map_append, List.append_assoc]
  have e : (1 : Int) + (j : Int) = ((j + 1 : Nat) : Int) := by omega
  rw [e]

include h hpr in
/-- All the windows the input has chunks for. -/
theorem creep_windows (chunks : List (List Val)) :
    ∀ (inp : Pat) (b : List Val) (q : Int) (n : Nat), (b.length : Int) = len → b ≠ [] → rp ≤ q →
      (∀ c ∈ chunks, (c.length : Int) = cr) → recOuts rec chunks.flatten.length inp = chunks.flatten.map Out.val →
      ∃ b' q', b'.length = b.length ∧
        clsOuts stepCreep rec (chunks.length * ((max rp 1).toNat * b.length) + n) [inp, lk, ck, rk, pk] (crSt b b.length q) =
          ((windows b chunks).flatMap (fun w => (List.replicate (max rp 1).toNat w).flatten)).map Out.val ++
            clsOuts stepCreep rec n [recAfter rec chunks.flatten.length inp, lk, ck, rk, pk] (crSt b' b.length q') := by
  induction chunks with
  | nil => intro inp b q n _ _ _ _ _; exact ⟨b, q, rfl, by simp [windows, recAfter]⟩
  | cons c cs ih =>
    intro inp b q n hb hne hq hcs hin
    simp only [List.flatten_cons] at hin
    obtain ⟨hin1, hin2⟩ := recOuts_split hin
    have hlen' : ((b ++ c).drop c.length).length = b.length := by simp
    have hne' : (b ++ c).drop c.length ≠ [] := by
      intro h0; rw [h0] at hlen'; simp at hlen'; exact hne (List.eq_nil_of_length_eq_zero hlen'.symm)
    obtain ⟨b', q', hb', hrun⟩ := ih (recAfter rec c.length inp) ((b ++ c).drop c.length) ((max rp 1).toNat : Int) n
      (by rw [hlen']; exact hb) hne' (by omega) (fun c' hc' => hcs c' (by simp [hc'])) hin2
    refine ⟨b', q', by rw [hb', hlen'], ?_⟩
    rw [hlen'] at hrun
    simp only [List.length_cons, Nat.succ_mul, windows, List.flatMap_cons, List.map_append, List.append_assoc,
      List.flatten_cons, List.length_append]
    rw [Nat.add_comm (cs.length * _) _, Nat.add_assoc]
    rw [creep_window h hpr inp b hb hne q hq c (hcs c (by simp)) hin1, hrun]
    have e : recAfter rec cs.flatten.length (recAfter rec c.length inp) = recAfter rec (c.length + cs.flatten.length) inp := by
      clear hrun hin1 hin2 hin
      generalize c.length = m
      induction m generalizing inp with
      | zero => simp [recAfter]
      | succ m ihm => rw [show m + 1 + cs.flatten.length = (m + cs.flatten.length) + 1 from by omega]; simp only [recAfter]; exact ihm _
    rw [e]

include h hpr in
/- FULL STATEMENT (not closed): for an input that yields `xs` and then StopIteration for ever the outputs are
   the windows `xs[i·creep : i·creep + length]`, `i = 0, 1, …` as long as `i·creep + length ≤ xs.length`, each
   played `max(repeats, 1)` times, then StopIteration for ever.  Proved below in prefix form (as many windows as
   the input has values for; `windows_slices` identifies the windows with the slices).  Missing: the step at
   which the creep loop meets the input's StopIteration; what happens after it is `C09Seq1.creep_sticky_fix`.
   `prob ≤ 0` (never repeat) and `0 < prob < 1` (stochastic on the global generator) are correspondence-only /
   outside the model. -/
/-- **PCreep(input, length, creep, repeats)**, constant parameters, `prob ≥ 1`, `length ≥ 1`: the first
    `length` input values form the window; every window is played `max(repeats, 1)` times and then slides
    forward by `creep` values (`windows`).  (Prefix form: as many windows as the input has chunks for.) -/
theorem creep_reference_partial (inp : Pat) (w0 : List Val) (chunks : List (List Val)) (hw : (w0.length : Int) = len) (hne : w0 ≠ [])
    (hcs : ∀ c ∈ chunks, (c.length : Int) = cr)
    (hin : recOuts rec (w0 ++ chunks.flatten).length inp = (w0 ++ chunks.flatten).map Out.val) :
    clsOuts stepCreep rec ((chunks.length + 1) * ((max rp 1).toNat * w0.length)) [inp, lk, ck, rk, pk] { n1 := 1 } =
      ((w0 :: windows w0 chunks).flatMap (fun w => (List.replicate (max rp 1).toNat w).flatten)).map Out.val := by
  obtain ⟨hin1, hin2⟩ := recOuts_split hin
  obtain ⟨j, hj⟩ : ∃ j, (max rp 1).toNat = j + 1 := ⟨(max rp 1).toNat - 1, by omega⟩
  have h0 : ({ n1 := 1 } : St) = crSt [] 0 1 := rfl
  -- first window: first pass + j repeats
  have e1 : (max rp 1).toNat * w0.length = w0.length + j * w0.length := by rw [hj, Nat.succ_mul]; omega
  have etot : (chunks.length + 1) * ((max rp 1).toNat * w0.length) =
      w0.length + (j * w0.length + (chunks.length * ((max rp 1).toNat * w0.length) + 0)) := by
    rw [Nat.succ_mul]
    generalize chunks.length * ((max rp 1).toNat * w0.length) = X
    omega
  rw [h0, etot]
  rw [creep_first_pass h inp w0 hw hne hin1]
  rw [creep_repeat_passes h hpr (recAfter rec w0.length inp) w0 hw hne j 1 _ (by intro _; omega)]
  obtain ⟨b', q', _, hrun⟩ := creep_windows h hpr chunks (recAfter rec w0.length inp) w0 ((1 : Int) + (j : Int)) 0 hw hne
    (by omega) hcs hin2
  rw [hrun]
  simp only [clsOuts, List.append_nil, List.flatMap_cons, List.map_append, hj, List.replicate_succ, List.flatten_cons,
    List.append_assoc]

end CreepWindows

theorem creepRepeat_one : creepRepeat (Val.int 1) = .val (.a (.bool true)) := by decide

example : clsOuts stepCreep (stepF 5) 12
    [.node .series [Pat.const (.int 100), Pat.const (.int 1)] { v0 := .int 0, v1 := .int 0 },
     Pat.const (.int 3), Pat.const (.int 1), Pat.const (.int 2), Pat.const (.int 1)] { n1 := 1 } =
    [.val (.int 0), .val (.int 1), .val (.int 2), .val (.int 0), .val (.int 1), .val (.int 2),
     .val (.int 1), .val (.int 2), .val (.int 3), .val (.int 1), .val (.int 2), .val (.int 3)] := by decide

/-- **The windows are slices of the input**: window `i` is `input[i·creep : i·creep + length]`. -/
theorem windows_slices (C L : Nat) (chunks : List (List Val)) :
    ∀ (w0 : List Val), w0.length = L → (∀ c ∈ chunks, c.length = C) →
      w0 :: windows w0 chunks =
        (List.range (chunks.length + 1)).map (fun i => ((w0 ++ chunks.flatten).drop (i * C)).take L) := by
  induction chunks with
  | nil => intro w0 hw _; simp [windows, ← hw]
  | cons c cs ih =>
    intro w0 hw hcs
    have hc : c.length = C := hcs c (by simp)
    have hw1 : ((w0 ++ c).drop c.length).length = L := by simp [hw]
    have := ih ((w0 ++ c).drop c.length) hw1 (fun c' hc' => hcs c' (by simp [hc']))
    rw [List.length_cons, range_succ_map]
    simp only [windows, List.flatten_cons, Nat.zero_mul, List.drop_zero, List.cons.injEq]
    refine ⟨by rw [List.take_append_of_le_length (by omega)]; simp [← hw], ?_⟩
    rw [this]
    apply List.map_congr_left
    intro i _
    have e : (w0 ++ (c ++ cs.flatten)).drop ((i + 1) * C) = (List.drop c.length (w0 ++ c) ++ cs.flatten).drop (i * C) := by
      rw [Nat.succ_mul, Nat.add_comm, ← List.drop_drop, ← hc, ← List.append_assoc,
        List.drop_append_of_le_length (by simp)]
    rw [e]

/-- The fill loop on an input that runs dry after `ws`: the values are kept, StopIteration propagates. -/
theorem fillBuf_partial (rec : Rec) (tail : List Pat) (ws : List Val) :
    ∀ (kid : Pat) (buf : List Val) (k : Nat), ws.length < k →
      recOuts rec (ws.length + 1) kid = ws.map Out.val ++ [.stop] →
      fillBuf rec k (kid :: tail) buf = (.stop, recAfter rec (ws.length + 1) kid :: tail, buf ++ ws) := by
  induction ws with
  | nil =>
    intro kid buf k hk h
    obtain ⟨k', rfl⟩ : ∃ k', k = k' + 1 := ⟨k - 1, by simp at hk; omega⟩
    simp only [List.length_nil, recOuts, List.map_nil, List.nil_append, List.cons.injEq, and_true] at h
    have k0 : stepKid rec (kid :: tail) 0 = (.stop, (rec kid).p :: tail) := by simp [stepKid, h]
    simp [fillBuf, k0, recAfter]
  | cons w ws ih =>
    intro kid buf k hk h
    obtain ⟨k', rfl⟩ : ∃ k', k = k' + 1 := ⟨k - 1, by simp at hk; omega⟩
    simp only [List.length_cons, recOuts, List.map_cons, List.cons_append, List.cons.injEq] at h
    have k0 : stepKid rec (kid :: tail) 0 = (.val w, (rec kid).p :: tail) := by simp [stepKid, h.1]
    simp only [fillBuf, k0, List.length_cons, recAfter]
    rw [ih (rec kid).p (buf ++ [w]) k' (by simp at hk; omega) (by simpa [recOuts] using h.2)]
    simp [recAfter]

/-- The starved state: the cache is too short for the next value and the input is dead. -/
theorem sub_starved (rec : Rec) (off len : Pat) (o : Nat) (l : Int) (hoff : ConstUnder rec off (Val.int o))
    (hlen : ConstUnder rec len (Val.int l)) (n : Nat) :
    ∀ (kid : Pat) (st : St), (∀ j, recOuts rec j kid = List.replicate j .stop) → st.n0 < l →
      (st.buf.length : Int) < st.n0 + o + 1 →
      clsOuts stepSubsequence rec n [kid, off, len] st = List.replicate n .stop := by
  induction n with
  | zero => intros; rfl
  | succ n ih =>
    intro kid st hd hl hb
    have k1 : stepKid rec [kid, off, len] 1 = (.val (Val.int o), [kid, off, len]) := stepKid_const (by simp) hoff
    have k2 : stepKid rec [kid, off, len] 2 = (.val (Val.int l), [kid, off, len]) := stepKid_const (by simp) hlen
    have h1 := hd 1
    simp only [recOuts, List.replicate_succ, List.replicate_zero, List.cons.injEq, and_true] at h1
    obtain ⟨k, hk⟩ : ∃ k, (st.n0 + (o : Int) + 1 - (st.buf.length : Int)).toNat = k + 1 :=
      ⟨(st.n0 + (o : Int) + 1 - (st.buf.length : Int)).toNat - 1, by omega⟩
    have k0 : stepKid rec [kid, off, len] 0 = (.stop, [(rec kid).p, off, len]) := by simp [stepKid, h1]
    have hstep : stepSubsequence rec [kid, off, len] st = { out := .stop, kids := [(rec kid).p, off, len], st := st } := by
      have hnl : ¬ l ≤ st.n0 := by omega
      simp only [stepSubsequence, k1, k2, numCmp_ge_int, hnl, decide_false]
      simp only [hk, fillBuf, k0, subEmit]
    simp only [clsOuts, hstep, List.replicate_succ]
    rw [ih (rec kid).p st _ hl hb]
    intro j
    have := hd (j + 1)
    simp only [recOuts, List.replicate_succ, List.cons.injEq] at this
    exact this.2

/-- **PSubsequence(input, offset, length)**, constant parameters, ANY finite input (`xs`, then StopIteration for
    ever): the outputs are `xs[offset : offset + length]` — shorter than `length` when the input ends early —
    and then the end. -/
theorem subsequence_reference (rec : Rec) (inp off len : Pat) (o : Nat) (l : Int) (hoff : ConstUnder rec off (Val.int o))
    (hlen : ConstUnder rec len (Val.int l)) (xs : List Val)
    (hin : ∀ j, recOuts rec (xs.length + j) inp = xs.map Out.val ++ List.replicate j .stop) (N : Nat) :
    clsOuts stepSubsequence rec N [inp, off, len] {} = pad N ((xs.drop o).take l.toNat) := by
  by_cases hlong : o + l.toNat ≤ xs.length
  · exact subsequence_reference_enough rec inp off len o l hoff hlen xs hlong (dead_after hin 0).1 N
  · -- the input ends inside the window: d values can still be delivered
    by_cases hl0 : 0 < l
    case neg =>
      have : l.toNat = 0 := by omega
      rw [this, List.take_zero, pad_nil]
      exact sub_stopped rec off len _ l hoff hlen inp N {} (by simp; omega)
    apply pad_of_prefix
    intro n
    obtain ⟨d, hd⟩ : ∃ d, d = xs.length - o := ⟨_, rfl⟩
    have hE : (xs.drop o).take l.toNat = (xs.drop o).take d := by
      rw [List.take_of_length_le (by simp; omega), List.take_of_length_le (by simp; omega)]
    have hElen : ((xs.drop o).take d).length = d := by simp; omega
    rw [hE, hElen]
    cases n with
    | zero =>
      obtain ⟨kid', st', r', _, _, _, _, _, h⟩ := sub_run rec off len o l hoff hlen xs inp d 0 [] xs inp {} 0
        (by simp) (dead_after hin 0).1 rfl rfl (by omega) (by simp) (by intro _; omega) rfl
      rw [h]; simp [clsOuts]
    | succ m =>
      obtain ⟨kid', st', r', hst', hv', hr', hbl', hkid', h⟩ := sub_run rec off len o l hoff hlen xs inp d 0 [] xs inp {} (m + 1)
        (by simp) (dead_after hin 0).1 rfl rfl (by omega) (by simp) (by intro _; omega) rfl
      have hlen1 : st'.buf.length + r'.length = xs.length := by rw [← hv']; simp
      have hdead : ∀ j, recOuts rec (r'.length + j) kid' = r'.map Out.val ++ List.replicate j .stop := by
        intro j
        have h1 := hin j
        rw [show xs.length + j = st'.buf.length + (r'.length + j) from by omega, recOuts_add, ← hkid', ← hv',
          List.map_append, List.append_assoc] at h1
        exact (List.append_inj h1 (by simp [recOuts_length])).2
      -- the next call runs into the end of the input
      have k1 : stepKid rec [kid', off, len] 1 = (.val (Val.int o), [kid', off, len]) := stepKid_const (by simp) hoff
      have k2 : stepKid rec [kid', off, len] 2 = (.val (Val.int l), [kid', off, len]) := stepKid_const (by simp) hlen
      have hk : r'.length < (st'.n0 + (o : Int) + 1 - (st'.buf.length : Int)).toNat := by rw [hst']; omega
      have hfill := fillBuf_partial rec [off, len] r' kid' st'.buf _ hk (by simpa using hdead 1)
      have hstep : stepSubsequence rec [kid', off, len] st' =
          { out := .stop, kids := [recAfter rec (r'.length + 1) kid', off, len], st := { st' with buf := st'.buf ++ r' } } := by
        have hnl : ¬ l ≤ st'.n0 := by rw [hst']; omega
        simp only [stepSubsequence, k1, k2, numCmp_ge_int, hnl, decide_false]
        simp only [hfill, subEmit]
      rw [h]
      simp only [clsOuts, hstep]
      rw [sub_starved rec off len o l hoff hlen m _ _ (by
          intro j
          have := hdead (1 + j)
          rw [show r'.length + (1 + j) = (r'.length + 1) + j from by omega, recOuts_add] at this
          have hl2 : (recOuts rec (r'.length + 1) kid').length = (r'.map Out.val ++ [Out.stop]).length := by
            simp [recOuts_length]
          rw [show List.replicate (1 + j) Out.stop = [Out.stop] ++ List.replicate j Out.stop from by
            rw [Nat.add_comm, List.replicate_succ]; rfl, ← List.append_assoc] at this
          exact (List.append_inj this hl2).2)
        (by simp only []; rw [hst']; omega) (by simp only [List.length_append]; rw [hst']; omega)]
      rw [← List.replicate_succ, Nat.add_zero]

example : clsOuts stepSubsequence (stepF 5) 5
    [.node .seq [Pat.const (.int 5), Pat.const (.int 6), Pat.const (.int 7)] { n0 := 1 }, Pat.const (.int 1), Pat.const (.int 4)] {} =
    [.val (.int 6), .val (.int 7), .stop, .stop, .stop] := by decide

end IsobarV.C10Seq1
