/-
C20 — String notation parses to the structure its brackets describe.

Model: `IsobarV/Notation/Model.lean` (tokenizer for exactly the regex of `_parser_get_next_token`, the
push-down loop of `parse_notation` after the stray-`]` repair, `Pattern.pattern` on strings, `next()` of the
parsed nested `PSequence`).  Helper definitions (`tokenize`, `render`, `LayoutOK`, `Balanced`, `Tree.ValidL`,
`itemsL`, …) and lemmas: `IsobarV/Notation/Lemmas.lean`.  Only property theorems live here.
-/
import IsobarV.Notation.Lemmas
import IsobarV.Notation.PlayLemmas

namespace IsobarV.C20
open IsobarV.Notation

/-- `parse s = ok r` exactly when the scanner yields tokens that the stack machine turns into `r`. -/
private theorem parse_ok_iff (s : List Char) (r : List Tree) :
    parse s = .ok r ↔ ∃ toks, tokenize s = .ok toks ∧ sm (toks.map itemOf) [] [] = some r := by
  have h0 : parse s = .ok r ↔ parseLoop (s.length + 1) [] 0 s = .ok r := by
    unfold parse
    split
    · rename_i h; rw [h]; simp
    · rfl
  rw [h0, parseLoop_ok_iff]
  constructor
  · rintro ⟨toks, h1, h2⟩
    refine ⟨toks, h1, ?_⟩
    have := parseToks_eq_sm toks [] []
    simp only [plugIn, List.length_nil] at this
    rw [this] at h2
    split at h2
    · rename_i r' hr; cases h2; exact hr
    · cases h2
  · rintro ⟨toks, h1, h2⟩
    refine ⟨toks, h1, ?_⟩
    have := parseToks_eq_sm toks [] []
    simp only [plugIn, List.length_nil] at this
    rw [this, h2]

/-- **No model-only error.**  `parse` returns a tree or `ValueError`: the fuel of the loop is never
exhausted and `_parser_push` never walks into a missing or non-sequence element (the depth invariant). -/
theorem no_internal_error (s : List Char) :
    (∃ r, parse s = .ok r) ∨ parse s = .error .valueError := by
  have h := parseLoop_not_internal (s.length + 1) [] [] s (by omega)
  simp only [plugIn, List.length_nil] at h
  unfold parse
  cases hp : parseLoop (s.length + 1) [] 0 s with
  | ok r => left; exact ⟨r, rfl⟩
  | error e =>
    right
    cases e with
    | valueError => rfl
    | indexError => rfl
    | internal => exact absurd hp h

example : parse [] = .error .valueError := rfl
example : parse ['1', ' ', '[', '2', ']'] = .ok [.leaf (.int 1), .group [.leaf (.int 2)]] := rfl

/-- **Round trip, any inner white space** (full statement).  For every non-empty nested sequence `ts` of
integers (of either sign), decimal floats given as digit strings and note names, and every way `lay` of
writing its tokens with runs of white space between them (any amount, any of the characters `str.lstrip`
removes; an empty run only next to a bracket; trailing white space allowed), the string parses back to
exactly `ts`: same tokens, same order, same nesting, same types. -/
theorem parse_layout_roundtrip (ts : List Tree) (hne : ts ≠ []) (hv : Tree.ValidL ts)
    (lay : List (List Char × List Char)) (htok : lay.map Prod.fst = tokensL ts) (hlay : LayoutOK lay) :
    parse (render lay) = .ok ts := by
  rw [parse_ok_iff]
  obtain ⟨h1, h2⟩ := tokensL_spec ts hv
  have hlne : lay ≠ [] := by
    intro h; subst h
    exact tokensL_ne_nil hne (by simpa using htok.symm)
  have ht : ∀ p ∈ lay, TokText p.1 := by
    intro p hp
    apply h2
    rw [← htok]
    exact List.mem_map_of_mem hp
  refine ⟨tokensL ts, ?_, ?_⟩
  · unfold tokenize
    rw [tokenizeLoop_render lay hlne ht hlay _ (by have := length_le_render lay ht; omega), htok]
  · rw [h1]; exact sm_itemsL ts

example : parse (render [(['1'], [' ', '\t']), (['['], []), (['c', '#', '4'], ['\n']), ([']'], [' '])]) =
    .ok [.leaf (.int 1), .group [.leaf (.name ['c', '#', '4'])]] := rfl

/-- **Round trip.**  Formatting any non-empty nested sequence (`format`: one blank between elements, none
inside the brackets) and parsing it back is the identity. -/
theorem parse_format_roundtrip (ts : List Tree) (hne : ts ≠ []) (hv : Tree.ValidL ts) :
    parse (format ts) = .ok ts := by
  have := parse_layout_roundtrip ts hne hv (canonLayout (tokensL ts)) (canonLayout_fst _) (canonLayout_ok _)
  rwa [render_canonLayout] at this

example : format [.leaf (.int (-2)), .group [.leaf (.flt true ['3', '0'] ['2', '0']), .group []], .leaf (.name ['g', '9'])]
    = "-2 [-30.20 []] g9".toList := by decide
example : parse (format [.leaf (.int (-2)), .group [.leaf (.flt true ['3', '0'] ['2', '0']), .group []]])
    = .ok [.leaf (.int (-2)), .group [.leaf (.flt true ['3', '0'] ['2', '0']), .group []]] := rfl

/-- **Structure of every accepted string.**  Whatever string is accepted, the returned tree read in order
(`itemsL`: `[`, `]`, leaves) is exactly the token sequence of the string, each atom converted by
`_parser_token_to_value`; and the string is those tokens separated by white space only. -/
theorem parse_structure (s : List Char) (r : List Tree) (h : parse s = .ok r) :
    ∃ lay : List (List Char × List Char),
      render lay = s ∧ (∀ p ∈ lay, ∀ c ∈ p.2, isSpace c = true) ∧
      tokenize s = .ok (lay.map Prod.fst) ∧ itemsL r = (lay.map Prod.fst).map itemOf := by
  obtain ⟨toks, h1, h2⟩ := (parse_ok_iff s r).mp h
  obtain ⟨lay, hl1, hl2, _, hl4⟩ := tokenizeLoop_sound _ _ _ h1
  refine ⟨lay, hl2, fun p hp => (hl4 p hp).1, by rw [hl1]; exact h1, ?_⟩
  have := sm_sound _ _ _ _ h2
  rw [hl1]
  simpa [itemsStack, itemsL] using this.symm

/-- **Accepted iff balanced.**  A string is accepted exactly when it scans into tokens whose brackets are
balanced: every prefix has depth ≥ 0 and the total depth is 0. -/
theorem accepts_iff_balanced (s : List Char) :
    (∃ r, parse s = .ok r) ↔ ∃ toks, tokenize s = .ok toks ∧ Balanced toks := by
  constructor
  · rintro ⟨r, h⟩
    obtain ⟨toks, h1, h2⟩ := (parse_ok_iff s r).mp h
    refine ⟨toks, h1, ?_⟩
    rw [← walk_zero_iff_balanced]
    have := (sm_isSome_iff (toks.map itemOf) [] []).mp (by simp [h2])
    simpa using this
  · rintro ⟨toks, h1, h2⟩
    rw [← walk_zero_iff_balanced] at h2
    have := (sm_isSome_iff (toks.map itemOf) [] []).mpr (by simpa using h2)
    obtain ⟨r, hr⟩ := Option.isSome_iff_exists.mp this
    exact ⟨r, (parse_ok_iff s r).mpr ⟨toks, h1, hr⟩⟩

example : Balanced [['1'], ['['], ['2'], [']']] := by
  refine ⟨fun k => ?_, by decide⟩
  match k with
  | 0 | 1 | 2 | 3 => decide
  | k + 4 => simp [net]
example : ¬ Balanced [['1'], [']'], ['2']] := fun h => absurd (h.1 2) (by decide)

/-- **A stray `]` is rejected** (the repaired defect): if some prefix of the tokens closes more brackets
than it opened, the string is not accepted — `'1 ] 2'`, `'] [ 1'`, `'[1 2]]'`. -/
theorem stray_close_rejected (s : List Char) (toks : List (List Char)) (h : tokenize s = .ok toks)
    (k : Nat) (hk : net (toks.take k) < 0) : parse s = .error .valueError := by
  rcases no_internal_error s with ⟨r, hr⟩ | he
  · obtain ⟨toks', h1, h2⟩ := (accepts_iff_balanced s).mp ⟨r, hr⟩
    rw [h] at h1
    cases h1
    have := h2.1 k
    omega
  · exact he

example : parse ['1', ' ', ']', ' ', '2'] = .error .valueError := rfl
example : parse [']', ' ', '[', ' ', '1'] = .error .valueError := rfl
example : parse ['[', '1', ' ', '2', ']', ']'] = .error .valueError := rfl
example : tokenize ['1', ' ', ']', ' ', '2'] = .ok [['1'], [']'], ['2']] ∧ net ([['1'], [']'], ['2']].take 2) < 0 :=
  ⟨rfl, by decide⟩

/-- **Foreign characters are rejected.**  A string that contains, anywhere, a character outside
`0-9 - . # a-g [ ]` and white space raises `ValueError`. -/
theorem foreign_char_rejected (s : List Char) (c : Char) (hc : c ∈ s) (hf : Foreign c) :
    parse s = .error .valueError := by
  rcases no_internal_error s with ⟨r, hr⟩ | he
  · exfalso
    obtain ⟨toks, h1, _⟩ := (parse_ok_iff s r).mp hr
    obtain ⟨lay, _, hl2, _, hl4⟩ := tokenizeLoop_sound _ _ _ h1
    -- every character of `render lay` is a token character or white space
    have key : ∀ (lay : List (List Char × List Char)),
        (∀ p ∈ lay, (∀ c ∈ p.2, isSpace c = true) ∧ (∀ c ∈ p.1, TokChar c)) →
        ∀ c ∈ render lay, isSpace c = true ∨ TokChar c := by
      intro lay
      induction lay with
      | nil => intro _ c hc; simp [render] at hc
      | cons p rest ih =>
        intro h c hc
        simp only [render, List.mem_append] at hc
        rcases hc with (hc | hc) | hc
        · exact Or.inr ((h p (by simp)).2 c hc)
        · exact Or.inl ((h p (by simp)).1 c hc)
        · exact ih (fun q hq => h q (by simp [hq])) c hc
    rw [← hl2] at hc
    obtain ⟨f1, f2, f3, f4, f5, f6, f7, f8⟩ := hf
    rcases key lay hl4 c hc with h | h | h | h | h | h | h | h
    · simp [h] at f1
    · simp [h] at f2
    · simp [h] at f3
    · exact f4 h
    · exact f5 h
    · exact f6 h
    · exact f7 h
    · exact f8 h
  · exact he

example : Foreign 'x' := by decide
example : Foreign '_' := by decide
example : parse ['1', ' ', 'x', ' ', '2'] = .error .valueError := rfl

/-- **Invalid strings stay constants.**  `Pattern.pattern(s)` (applied by `PDict` to every value of an event
dictionary) keeps `s` as a plain constant when `s` contains a foreign character or its brackets are not
balanced. -/
theorem invalid_string_is_constant (s : List Char)
    (h : (∃ c ∈ s, Foreign c) ∨ (∀ toks, tokenize s = .ok toks → ¬ Balanced toks)) :
    patternOf s = .const s := by
  have hrej : parse s = .error .valueError := by
    rcases h with ⟨c, hc, hf⟩ | h
    · exact foreign_char_rejected s c hc hf
    · rcases no_internal_error s with hr | he
      · obtain ⟨toks, h1, h2⟩ := (accepts_iff_balanced s).mp hr
        exact absurd h2 (h toks h1)
      · exact he
  simp [patternOf, hrej]

example : patternOf ['1', ' ', '[', ' ', '2'] = .const ['1', ' ', '[', ' ', '2'] := rfl

/-- **Valid strings become the parsed sequence.** -/
theorem valid_string_is_sequence (s : List Char) (r : List Tree) (h : parse s = .ok r) :
    patternOf s = .seq r := by
  simp [patternOf, h]

example : patternOf ['1', ' ', '[', '2', ']'] = .seq [.leaf (.int 1), .group [.leaf (.int 2)]] := rfl


/-- **A nested group contributes one element per cycle of its parent.**  Take a sequence standing at the start
of a cycle (`pos = 0`) whose elements — scalars or nested sequences in *any* state — are live (no empty
sequence inside).  During the `w = items.length` calls of `next()` that make up one cycle, the results are, in
order, one result of each element (`x.next.out`), and afterwards every element has been advanced by exactly
one `next()` (`x.next.st`) while the parent is back at `pos = 0`.  So a nested group gives exactly one of its
own elements to each cycle of its parent, at every nesting depth (the elements' `next` is the same function). -/
theorem group_one_element_per_cycle (items : List PS) (hne : items ≠ [])
    (hl : ∀ x ∈ items, x.live = true) :
    PS.run items.length (.seq items 0) = items.map (fun x => x.next.out) ∧
    PS.after items.length (.seq items 0) = .seq (items.map (fun x => x.next.st)) 0 :=
  PS.full_cycle items hne hl

example : PS.run 2 (.seq [.leaf (.int 1), .seq [.leaf (.int 10), .leaf (.int 11)] 1] 0) =
    [.val (.int 1), .val (.int 11)] := by decide
example : PS.after 2 (.seq [.leaf (.int 1), .seq [.leaf (.int 10), .leaf (.int 11)] 1] 0) =
    .seq [.leaf (.int 1), .seq [.leaf (.int 10), .leaf (.int 11)] 0] 0 := rfl

/-- **Closed form of the output of a parsed sequence**, for every `n` and every nesting: the first `n` results
of `next()` on the sequence built from `ts` (no empty group) are `nthT (.group ts) 0 … (n-1)`, where
`nthT (.group ts) i = nthT ts[i % w] (i / w)` (`closed_form_unfold`) and `nthT (.leaf v) _ = v`. -/
theorem output_closed_form (ts : List Tree) (hne : ts ≠ []) (hfull : Tree.fullL ts = true) (n : Nat) :
    PS.run n (PS.ofTree (.group ts)) = (List.range n).map (fun i => outOf (nthT (.group ts) i)) := by
  rw [PS.run_eq_map_outAt]
  apply List.map_congr_left
  intro i _
  apply PS.outAt_ofTree
  have : ts.isEmpty = false := by cases ts <;> simp_all
  simp [Tree.full, this, hfull]

/-- the recursion of the closed form, spelled out -/
theorem closed_form_unfold (ts : List Tree) (hne : ts ≠ []) (n : Nat) :
    nthT (.group ts) n =
      nthT (ts[n % ts.length]'(Nat.mod_lt _ (List.length_pos_iff.mpr hne))) (n / ts.length) := by
  have : ts.isEmpty = false := by cases ts <;> simp_all
  simp only [nthT, this]
  exact nthAt_eq ts _ _ _

example : PS.run 7 (PS.ofTree (.group [.leaf (.int 1), .group [.leaf (.int 10), .leaf (.int 11)]])) =
    [.val (.int 1), .val (.int 10), .val (.int 1), .val (.int 11), .val (.int 1), .val (.int 10), .val (.int 1)] := by
  decide
example : nthT (.group [.leaf (.int 1), .group [.leaf (.int 10), .leaf (.int 11)]]) 3 = some (.int 11) := by decide

end IsobarV.C20
