/-
C04 — `reset()` rewinds any pattern: reset-correctness of the ext2 group (`PMetropolis` after fix 95, `PSequenceAction`,
`PPatternGeneratorAction` with a pure generator function, `PFunc`, `PFilterByKey`, `PNearestNoteInKey`, `PKeyTonic`,
`PKeyScale`) and the instantiated theorem for trees that mix them with ALL the earlier groups.

`PSequenceAction.__next__` builds a new inner `PSequence`, whose constructor resets the patterns in its list: the class
is reset-correct relative to invariants closed under an idempotent `reset` (`ClsResetOKR`, as `PReset`).
-/
import IsobarV.Pat.Cls.ScalarLemmas
import IsobarV.Props.C04_Scalar
import IsobarV.Props.C04_Seq1
import IsobarV.Props.C04_Seq2
import IsobarV.Props.C04_Chance
import IsobarV.Props.C04_Misc

namespace IsobarV.C04Ext2
open IsobarV.Pat IsobarV.C04

/-- `PMetropolis` (fix 95): no sub-patterns; `reset()` overwrites the two counters a step changes. -/
theorem metropolis_ok : ClsResetOK .metropolis := by
  intro P rec kids st _ hk
  have hc : clsStep .metropolis = stepMetropolis := rfl
  have hr : ∀ s, clsReset .metropolis s = { resetMetropolis s with cur := 0 } := fun _ => rfl
  rw [hc, hr, hr]
  simp only [stepMetropolis, metEmit]
  repeat' split
  all_goals exact ⟨hk, rfl, rfl⟩

/-- `PPatternGeneratorAction` with a pure generator function: `Pattern.reset()` rewinds the current sequence, which
    is what a new instance starts with. -/
theorem pga_ok : ClsResetOK .patternGeneratorAction := by
  intro P rec kids st _ hk
  have hc : clsStep .patternGeneratorAction = stepPga := rfl
  have hr : ∀ s, clsReset .patternGeneratorAction s = { resetPga s with cur := 0 } := fun _ => rfl
  rw [hc, hr, hr]
  simp only [stepPga]
  repeat' split
  all_goals exact ⟨hk, rfl, rfl⟩

/-- Classes without own state. -/
theorem func_ok : ClsResetOK .func := poll_ok (fun _ => [0]) funcF _ rfl (by
  intro st vs; simp only [funcF]; repeat' split
  all_goals rfl)
theorem filterByKey_ok : ClsResetOK .filterByKey :=
  poll_ok (fun _ => [0, 1]) (pure1 (keyMapVal Tonal.pFilterByKey)) _ rfl (fun _ _ => rfl)
theorem nearestNoteInKey_ok : ClsResetOK .nearestNoteInKey :=
  poll_ok (fun _ => [0, 1]) (pure1 (keyMapVal Tonal.pNearestNoteInKey)) _ rfl (fun _ _ => rfl)
theorem keyTonic_ok : ClsResetOK .keyTonic := poll_ok (fun _ => [0]) (pure1 keyTonicVal) _ rfl (fun _ _ => rfl)
theorem keyScale_ok : ClsResetOK .keyScale := poll_ok (fun _ => [0]) (pure1 keyScaleVal) _ rfl (fun _ _ => rfl)

/-! ### PSequenceAction -/

/-- Resetting the items of the new list keeps the kids inside `P` and is invisible to `reset`. -/
theorem saResetItems_ok {P : Pat → Prop} (hcl : ∀ k, P k → P (reset k) ∧ reset (reset k) = reset k)
    (es : List (Nat × Int)) (kids : List Pat) (hk : ∀ k ∈ kids, P k) :
    (∀ k ∈ saResetItems reset kids es, P k) ∧ (saResetItems reset kids es).map reset = kids.map reset := by
  induction es generalizing kids with
  | nil => exact ⟨hk, rfl⟩
  | cons e es ih =>
    obtain ⟨r1, r2⟩ := resetKid_ok hcl kids (e.1 + 1) hk
    obtain ⟨i1, i2⟩ := ih (resetKid reset kids (e.1 + 1)) r1
    exact ⟨i1, i2.trans r2⟩

/-- One step of the inner `PSequence(list, 1)`. -/
theorem saInner_ok {P : Pat → Prop} {rec : Rec} (hrec : RecOK P rec) (kids : List Pat) (st : St) (hk : ∀ k ∈ kids, P k) :
    (∀ k ∈ (saInner rec kids st).kids, P k) ∧ (saInner rec kids st).kids.map reset = kids.map reset ∧
    resetSequenceAction (saInner rec kids st).st = resetSequenceAction st := by
  unfold saInner
  split
  · exact ⟨hk, rfl, rfl⟩
  · split
    · rename_i e _
      obtain ⟨h1, h2⟩ := stepKid_ok hrec kids (e.1 + 1) hk
      split
      · refine ⟨h1, h2, ?_⟩
        simp only [saAdvance]
        split <;> rfl
      · exact ⟨h1, h2, rfl⟩
    · exact ⟨hk, rfl, rfl⟩

/-- The whole `__next__`, any depth of the recursion `return next(self)`. -/
theorem saLoop_ok {P : Pat → Prop} {rec : Rec} (hrec : RecOK P rec)
    (hcl : ∀ k, P k → P (reset k) ∧ reset (reset k) = reset k) (fuel : Nat) :
    ∀ (kids : List Pat) (st : St), (∀ k ∈ kids, P k) →
      (∀ k ∈ (saLoop reset rec fuel kids st).kids, P k) ∧ (saLoop reset rec fuel kids st).kids.map reset = kids.map reset ∧
      resetSequenceAction (saLoop reset rec fuel kids st).st = resetSequenceAction st := by
  induction fuel with
  | zero => intro kids st hk; exact ⟨hk, rfl, rfl⟩
  | succ n ih =>
    intro kids st hk
    obtain ⟨a1, a2, a3⟩ := saInner_ok hrec kids st hk
    obtain ⟨b1, b2⟩ := stepKid_ok hrec (saInner rec kids st).kids 0 a1
    simp only [saLoop]
    split
    · split
      · split
        · exact ⟨b1, b2.trans a2, a3⟩
        · obtain ⟨c1, c2⟩ := saResetItems_ok hcl (saList (saNextPass (saInner rec kids st).st) (kids.length - 1)) _ b1
          obtain ⟨d1, d2, d3⟩ := ih _ (saNextPass (saInner rec kids st).st) c1
          exact ⟨d1, d2.trans (c2.trans (b2.trans a2)), d3.trans a3⟩
        · exact ⟨b1, b2.trans a2, a3⟩
      · exact ⟨b1, b2.trans a2, a3⟩
    · exact ⟨a1, a2, a3⟩

/-- `PSequenceAction`: `reset()` restores `list_orig`, builds a new inner sequence and clears the counter, whatever
    has been consumed, however often `fn` has been applied. -/
theorem sequenceAction_ok : ClsResetOKR .sequenceAction := by
  intro P rec kids st hrec hcl hk
  have hc : clsStep .sequenceAction = stepSequenceActionW reset := rfl
  have hr : ∀ s, clsReset .sequenceAction s = { resetSequenceAction s with cur := 0 } := fun _ => rfl
  obtain ⟨h1, h2, h3⟩ := saLoop_ok hrec hcl SAFUEL kids st hk
  rw [hc, hr, hr]
  exact ⟨h1, h2, by simp only [stepSequenceActionW]; rw [h3]⟩

/-! ### The group, on top of all earlier groups -/

/-- The classes of this group with a plain `ClsResetOK`. -/
def Ext2Cls (c : Cls) : Prop :=
  c = .metropolis ∨ c = .patternGeneratorAction ∨ c = .func ∨ c = .filterByKey ∨ c = .nearestNoteInKey ∨ c = .keyTonic ∨
  c = .keyScale

/-- This group and every class modelled before it (core, seq1, seq2 incl. `PReset`, scalar, chance, misc). -/
def AllClsExt2 (c : Cls) : Prop :=
  c = .sequenceAction ∨ Ext2Cls c ∨ C04Misc.MiscCls c ∨ ScalarCls c ∨ Seq2ClsR c ∨ C04Seq1.Seq1Cls c ∨ ChanceCls c

theorem ext2_ok : ∀ c, AllClsExt2 c → ClsResetOKR c := by
  intro c h
  rcases h with h | h | h | h | h | h | h
  · subst h; exact sequenceAction_ok
  · unfold Ext2Cls at h
    rcases h with h | h | h | h | h | h | h <;> subst h
    · exact ClsResetOK.toR metropolis_ok
    · exact ClsResetOK.toR pga_ok
    · exact ClsResetOK.toR func_ok
    · exact ClsResetOK.toR filterByKey_ok
    · exact ClsResetOK.toR nearestNoteInKey_ok
    · exact ClsResetOK.toR keyTonic_ok
    · exact ClsResetOK.toR keyScale_ok
  · exact ClsResetOK.toR (C04Misc.misc_ok c (Or.inl h))
  · exact ClsResetOK.toR (scalar_ok c (Or.inl h))
  · exact seq2R_ok c h
  · exact ClsResetOK.toR (C04Seq1.seq1_ok c (Or.inl h))
  · exact ClsResetOK.toR (chance_ok c h)

/-- Every class's own-state reset is idempotent (all classes of the model, by cases). -/
theorem ext2_idem (c : Cls) (st : St) : clsReset c (clsReset c st) = clsReset c st := by
  cases c <;> rfl

/-- **C04 for the ext2 group**: any tree built from these classes and ALL earlier ones (patterns that reset their
    sub-patterns while running included), nested to any depth, is rewound by `reset()` after any number of steps — its
    own state and every pattern nested inside it (equality of whole trees). -/
theorem reset_rewinds_ext2 (fuel k : Nat) (p0 : Pat) (hp : AllCls AllClsExt2 p0) (h0 : IsInit p0) :
    reset (after fuel k p0) = p0 := by
  rw [(reset_after_R ext2_ok (fun c _ => ext2_idem c) fuel k p0 hp).2]; exact h0

theorem all_rewinds_ext2 (fuel maximum : Nat) (p0 : Pat) (hp : AllCls AllClsExt2 p0) (h0 : IsInit p0)
    (hok : (nextn fuel maximum p0).err = Option.none) : (all fuel maximum p0).p = p0 := by
  obtain ⟨m, hm⟩ := nextn_is_after fuel maximum p0
  simp only [all, hok]
  rw [hm]; exact reset_rewinds_ext2 fuel m p0 hp h0

/-! Non-vacuity: a sequence action over a list holding a pattern, its repeats taken from a `PKeyTonic`; a metropolis. -/
section Example
def c (i : Int) : Pat := Pat.const (.int i)
def key (t : Int) (s : String) : Pat := Pat.const (.tup [.int t, .str s])
/-- `PSequenceAction([1, PSequence([7, 8], 1), 3], rotate, PKeyTonic(Key(2, "minor")))` -/
def exA : Pat := .node .sequenceAction [.node .keyTonic [key 2 "minor"] {}, c 1, .node .seq [c 7, c 8] { n0 := 1 }, c 3] { n0 := 2 }
/-- `PMetropolis([60, 62], [2, 1], [0, 1])` -/
def exM : Pat := .node .metropolis [] { n2 := 2, buf := [.int 60, .int 62], buf2 := [.int 2, .int 1, .int 0, .int 1] }
example : IsInit exA := by unfold IsInit; rfl
example : IsInit exM := by unfold IsInit; rfl
example : outs 10 8 exA = [.val (.int 1), .val (.int 7), .val (.int 3), .val (.int 7), .val (.int 3), .val (.int 1), .stop, .stop] := by
  decide +kernel
example : reset (after 10 4 exA) = exA := by rfl
example : outs 10 7 exM = [.val (.int 60), .val (.int 60), .val Val.none, .val (.int 62), .val Val.none, .val Val.none, .val (.int 60)] ∧
    outs 10 3 (after 10 4 exM) ≠ outs 10 3 exM ∧ outs 10 3 (reset (after 10 4 exM)) = outs 10 3 exM := by decide +kernel
end Example

end IsobarV.C04Ext2
