/-
C04 — `reset()` rewinds any pattern: reset-correctness of PSeries, PRange, PGeom, PImpulse, PLoop, PPingPong,
PStutter, PSubsequence, PCreep (models: `IsobarV/Pat/Cls/Seq1.lean`, after the fix patches that add the missing
`reset()` of PStutter, clear PSubsequence's cache and make PCreep's reset independent of its input).

Each lemma says: whatever the sub-patterns do (any `rec` that is invisible to `reset`), one step of the class
leaves `reset` of its kids unchanged, and the class's own reset maps the state after the step to the same state
as before the step — i.e. every register the step writes is one the reset overwrites with a constant or with an
immutable register (`start`, `count`, `length`, PPingPong's `values`).
-/
import IsobarV.Props.C04

namespace IsobarV.C04Seq1
open IsobarV.Pat

theorem series_ok : ClsResetOK .series := by
  intro P rec kids st hrec hk
  obtain ⟨h1, h2⟩ := stepKid_ok hrec kids 0 hk
  obtain ⟨h3, h4⟩ := stepKid_ok hrec (stepKid rec kids 0).2 1 h1
  have hc : clsStep .series = stepSeries := rfl
  have hr : ∀ s, clsReset .series s = { resetSeries s with cur := 0 } := fun _ => rfl
  rw [hc, hr, hr]
  simp only [stepSeries, resetSeries]
  (repeat' split) <;> first | exact ⟨h1, h2, rfl⟩ | exact ⟨h3, h4.trans h2, rfl⟩

theorem range_ok : ClsResetOK .range := by
  intro P rec kids st hrec hk
  obtain ⟨h1, h2⟩ := stepKid_ok hrec kids 0 hk
  obtain ⟨h3, h4⟩ := stepKid_ok hrec (stepKid rec kids 0).2 1 h1
  have hc : clsStep .range = stepRange := rfl
  have hr : ∀ s, clsReset .range s = { resetRange s with cur := 0 } := fun _ => rfl
  rw [hc, hr, hr]
  simp only [stepRange, rangeEmit, resetRange]
  (repeat' split) <;> first | exact ⟨h1, h2, rfl⟩ | exact ⟨h3, h4.trans h2, rfl⟩

theorem geom_ok : ClsResetOK .geom := by
  intro P rec kids st hrec hk
  obtain ⟨h1, h2⟩ := stepKid_ok hrec kids 0 hk
  have hc : clsStep .geom = stepGeom := rfl
  have hr : ∀ s, clsReset .geom s = { resetGeom s with cur := 0 } := fun _ => rfl
  rw [hc, hr, hr]
  simp only [stepGeom, resetGeom]
  (repeat' split) <;> first | exact ⟨hk, rfl, rfl⟩ | exact ⟨h1, h2, rfl⟩

theorem impulse_ok : ClsResetOK .impulse := by
  intro P rec kids st hrec hk
  obtain ⟨h1, h2⟩ := stepKid_ok hrec kids 0 hk
  have hc : clsStep .impulse = stepImpulse := rfl
  have hr : ∀ s, clsReset .impulse s = { resetImpulse s with cur := 0 } := fun _ => rfl
  rw [hc, hr, hr]
  simp only [stepImpulse, resetImpulse]
  (repeat' split) <;> exact ⟨h1, h2, rfl⟩

theorem loop_ok : ClsResetOK .loop := by
  intro P rec kids st hrec hk
  obtain ⟨h1, h2⟩ := stepKid_ok hrec kids 0 hk
  have hc : clsStep .loop = stepLoop := rfl
  have hr : ∀ s, clsReset .loop s = { resetLoop s with cur := 0 } := fun _ => rfl
  rw [hc, hr, hr]
  simp only [stepLoop, loopTail, loopEmit, resetLoop]
  (repeat' split) <;> first | exact ⟨hk, rfl, rfl⟩ | exact ⟨h1, h2, rfl⟩

/-- PPingPong never steps its input (the values were taken at construction); `values` is immutable. -/
theorem pingPong_ok : ClsResetOK .pingPong := by
  intro P rec kids st _ hk
  have hc : clsStep .pingPong = stepPingPong := rfl
  have hr : ∀ s, clsReset .pingPong s = { resetPingPong s with cur := 0 } := fun _ => rfl
  rw [hc, hr, hr]
  simp only [stepPingPong, resetPingPong]
  (repeat' split) <;> exact ⟨hk, rfl, rfl⟩

theorem stutter_ok : ClsResetOK .stutter := by
  intro P rec kids st hrec hk
  obtain ⟨h1, h2⟩ := stepKid_ok hrec kids 1 hk
  obtain ⟨h3, h4⟩ := stepKid_ok hrec (stepKid rec kids 1).2 0 h1
  have hc : clsStep .stutter = stepStutter := rfl
  have hr : ∀ s, clsReset .stutter s = { resetStutter s with cur := 0 } := fun _ => rfl
  rw [hc, hr, hr]
  simp only [stepStutter, resetStutter]
  (repeat' split) <;> first | exact ⟨hk, rfl, rfl⟩ | exact ⟨h1, h2, rfl⟩ | exact ⟨h3, h4.trans h2, rfl⟩

/-! ### Loops over the input -/

theorem fillBuf_ok {P : Pat → Prop} {rec : Rec} (hrec : RecOK P rec) (k : Nat) (kids : List Pat) (buf : List Val)
    (hk : ∀ x ∈ kids, P x) :
    (∀ x ∈ (fillBuf rec k kids buf).2.1, P x) ∧ (fillBuf rec k kids buf).2.1.map reset = kids.map reset := by
  induction k generalizing kids buf with
  | zero => exact ⟨hk, rfl⟩
  | succ k ih =>
    obtain ⟨h1, h2⟩ := stepKid_ok hrec kids 0 hk
    simp only [fillBuf]
    split
    · obtain ⟨i1, i2⟩ := ih (stepKid rec kids 0).2 (buf ++ [_]) h1
      exact ⟨i1, i2.trans h2⟩
    · exact ⟨h1, h2⟩

theorem creepLoop_ok {P : Pat → Prop} {rec : Rec} (hrec : RecOK P rec) (k : Nat) (kids : List Pat) (buf : List Val)
    (hk : ∀ x ∈ kids, P x) :
    (∀ x ∈ (creepLoop rec k kids buf).2.1, P x) ∧ (creepLoop rec k kids buf).2.1.map reset = kids.map reset := by
  induction k generalizing kids buf with
  | zero => exact ⟨hk, rfl⟩
  | succ k ih =>
    obtain ⟨h1, h2⟩ := stepKid_ok hrec kids 0 hk
    simp only [creepLoop]
    split
    · exact ⟨hk, rfl⟩
    · split
      · obtain ⟨i1, i2⟩ := ih (stepKid rec kids 0).2 _ h1
        exact ⟨i1, i2.trans h2⟩
      · exact ⟨h1, h2⟩

theorem stepKidsSeq_ok {P : Pat → Prop} {rec : Rec} (hrec : RecOK P rec) (is : List Nat) (kids : List Pat) (acc : List Val)
    (hk : ∀ x ∈ kids, P x) :
    (∀ x ∈ (stepKidsSeq rec is kids acc).2.1, P x) ∧ (stepKidsSeq rec is kids acc).2.1.map reset = kids.map reset := by
  induction is generalizing kids acc with
  | nil => exact ⟨hk, rfl⟩
  | cons i is ih =>
    obtain ⟨h1, h2⟩ := stepKid_ok hrec kids i hk
    simp only [stepKidsSeq]
    split
    · obtain ⟨i1, i2⟩ := ih (stepKid rec kids i).2 _ h1
      exact ⟨i1, i2.trans h2⟩
    · exact ⟨h1, h2⟩

theorem subsequence_ok : ClsResetOK .subsequence := by
  intro P rec kids st hrec hk
  obtain ⟨h1, h2⟩ := stepKid_ok hrec kids 1 hk
  obtain ⟨h3, h4⟩ := stepKid_ok hrec (stepKid rec kids 1).2 2 h1
  have hc : clsStep .subsequence = stepSubsequence := rfl
  have hr : ∀ s, clsReset .subsequence s = { resetSubsequence s with cur := 0 } := fun _ => rfl
  rw [hc, hr, hr]
  have hf := fun k => fillBuf_ok hrec k (stepKid rec (stepKid rec kids 1).2 2).2 st.buf h3
  simp only [stepSubsequence, subEmit, resetSubsequence]
  (repeat' split) <;>
    first
    | exact ⟨h1, h2, rfl⟩
    | exact ⟨h3, h4.trans h2, rfl⟩
    | exact ⟨(hf _).1, (hf _).2.trans (h4.trans h2), rfl⟩

theorem creep_ok : ClsResetOK .creep := by
  intro P rec kids st hrec hk
  obtain ⟨h1, h2⟩ := stepKidsSeq_ok hrec [1, 2, 3, 4] kids [] hk
  have hf := fun k => fillBuf_ok hrec k (stepKidsSeq rec [1, 2, 3, 4] kids []).2.1 st.buf h1
  have hl := fun k j b => creepLoop_ok hrec j (fillBuf rec k (stepKidsSeq rec [1, 2, 3, 4] kids []).2.1 st.buf).2.1 b (hf k).1
  have hc : clsStep .creep = stepCreep := rfl
  have hr : ∀ s, clsReset .creep s = { resetCreep s with cur := 0 } := fun _ => rfl
  rw [hc, hr, hr]
  simp only [stepCreep, creepAfterFill, creepMain, creepAfterLoop, creepEmit, resetCreep]
  (repeat' split) <;>
    first
    | exact ⟨h1, h2, rfl⟩
    | exact ⟨(hf _).1, (hf _).2.trans h2, rfl⟩
    | exact ⟨(hl _ _ _).1, (hl _ _ _).2.trans ((hf _).2.trans h2), rfl⟩

/-- The classes of this group. -/
def Seq1Cls (c : Cls) : Prop :=
  c = .series ∨ c = .range ∨ c = .geom ∨ c = .impulse ∨ c = .loop ∨ c = .pingPong ∨ c = .stutter ∨
  c = .subsequence ∨ c = .creep

theorem seq1_cls_ok (c : Cls) (h : Seq1Cls c) : ClsResetOK c := by
  unfold Seq1Cls at h
  rcases h with h | h | h | h | h | h | h | h | h <;> subst h
  · exact series_ok
  · exact range_ok
  · exact geom_ok
  · exact impulse_ok
  · exact loop_ok
  · exact pingPong_ok
  · exact stutter_ok
  · exact subsequence_ok
  · exact creep_ok

theorem seq1_ok : ∀ c, Seq1Cls c ∨ C04.CoreCls c → ClsResetOK c := by
  intro c h
  rcases h with h | h
  · exact seq1_cls_ok c h
  · exact C04.core_ok c h

/-- **C04 for this group together with the core classes**: any expression built from them, nested to any
    depth, is rewound by `reset()` after any number of steps. -/
theorem reset_rewinds_seq1 (fuel k : Nat) (p0 : Pat) (hp : AllCls (fun c => Seq1Cls c ∨ C04.CoreCls c) p0)
    (h0 : IsInit p0) : reset (after fuel k p0) = p0 :=
  reset_rewinds seq1_ok fuel k p0 hp h0

theorem all_rewinds_seq1 (fuel maximum : Nat) (p0 : Pat) (hp : AllCls (fun c => Seq1Cls c ∨ C04.CoreCls c) p0)
    (h0 : IsInit p0) (hok : (nextn fuel maximum p0).err = Option.none) : (all fuel maximum p0).p = p0 :=
  all_rewinds seq1_ok fuel maximum p0 hp h0 hok

/-! Non-vacuity: a stutter of a subsequence of a looped series, consumed past several windows, then reset. -/
section Example
def c (i : Int) : Pat := Pat.const (.int i)
def ser : Pat := .node .series [c 4, c 3] { v0 := .int 10, v1 := .int 10 }
def ex : Pat :=
  .node .stutter [.node .subsequence [.node .loop [ser] { n0 := 3 }, c 2, c 7] {}, c 2] { v0 := .int 0, v1 := .int 0 }
example : IsInit ex := by unfold IsInit; rfl
example : outs 10 6 ex = [.val (.int 16), .val (.int 16), .val (.int 19), .val (.int 19), .val (.int 10), .val (.int 10)] := by
  decide
example : reset (after 10 5 ex) = ex := by rfl
example : outs 10 3 (reset (after 10 5 ex)) = [.val (.int 16), .val (.int 16), .val (.int 19)] := by decide
example : AllCls (fun c => Seq1Cls c ∨ C04.CoreCls c) ex := by
  repeat (first | apply AllCls.node | (intro k hk; simp at hk; rcases hk with rfl | rfl | rfl | rfl | rfl) | simp [Seq1Cls, C04.CoreCls])
  all_goals (first | simp [Seq1Cls, C04.CoreCls] | (intro k hk; simp at hk))
end Example

end IsobarV.C04Seq1
